// validators.go — generator "validators": the type validators of the filter code as data
// (lean/JPV/Gen/Validators.lean, tie T1; consumed by Lemmas/Ties.lean, Props/Ties.lean).
//
// What is read: the `validate` method of the five structs in vdFiles. Accepted shapes, exactly:
//
//	typed validators (numeric, string, bool, nil)
//	    func (c *T) validate(values []interface{}) bool {
//	        var foundValue bool
//	        for index := range values {
//	            switch [typedValue :=] values[index].(type) {
//	            case <types>: <body>  …  [default: <body>]
//	            }
//	        }
//	        return foundValue
//	    }
//	  <types>  one or more of float64, json.Number, string, bool, nil, emptyEntityType
//	  <body>   any sequence (each at most once) of
//	             foundValue = true                         -> found
//	             values[index] = emptyEntity               -> write blank
//	             values[index], _ = typedValue.Float64()   -> write toFloat64 (only in `case json.Number:`)
//
//	any-value validator
//	    func (c *T) validate(values []interface{}) bool {
//	        for index := range values {
//	            if values[index] (!=|==) emptyEntity { return (true|false) }
//	        }
//	        return (true|false)
//	    }
//
// What is written: per typed validator a `Ties.ValidatorTable` (ordered cases + default), for the
// any-value validator a `Ties.AnyLoop`. Anything else stops with `untranslatable: file:line: why`.
package main

import (
	"fmt"
	"go/ast"
	"go/token"
	"strings"
)

func init() { register("validators", genValidators) }

var vdFiles = []struct{ file, goType, lean, vref string }{
	{"syntax_basic_type_validator_numeric.go", "syntaxBasicNumericTypeValidator", "numericTable", "numeric"},
	{"syntax_basic_type_validator_string.go", "syntaxBasicStringTypeValidator", "stringTable", "string"},
	{"syntax_basic_type_validator_bool.go", "syntaxBasicBoolTypeValidator", "boolTable", "bool"},
	{"syntax_basic_type_validator_nil.go", "syntaxBasicNilTypeValidator", "nilTable", "nil"},
}

const (
	vdAnyFile = "syntax_basic_type_validator_any_value.go"
	vdAnyType = "syntaxBasicAnyValueTypeValidator"
)

// vdFindValidate returns the only `validate` method of file f, after checking the struct is
// declared there with no fields and the signature is `(values []interface{}) bool`.
func vdFindValidate(s *tiSrc, f *ast.File, file, goType string) (*ast.FuncDecl, error) {
	var fd *ast.FuncDecl
	structSeen := false
	for _, d := range f.Decls {
		switch d := d.(type) {
		case *ast.GenDecl:
			if d.Tok == token.IMPORT {
				continue
			}
			if d.Tok != token.TYPE || len(d.Specs) != 1 {
				return nil, s.bad(d, "only the declaration of %s is expected here", goType)
			}
			ts := d.Specs[0].(*ast.TypeSpec)
			st, ok := ts.Type.(*ast.StructType)
			if !ok || ts.Name.Name != goType || ts.Assign.IsValid() || ts.TypeParams != nil {
				return nil, s.bad(d, "expected `type %s struct {}`", goType)
			}
			if st.Fields != nil && len(st.Fields.List) != 0 {
				return nil, s.bad(st, "validator struct %s has fields", goType)
			}
			structSeen = true
		case *ast.FuncDecl:
			if fd != nil {
				return nil, s.bad(d, "more than one function in a validator file")
			}
			fd = d
		default:
			return nil, s.bad(d, "unexpected declaration")
		}
	}
	if !structSeen {
		return nil, s.badFile(file, "struct %s not declared", goType)
	}
	if fd == nil {
		return nil, s.badFile(file, "no validate method")
	}
	typ, _, ptr := tiRecvType(fd)
	if fd.Name.Name != "validate" || typ != goType || !ptr {
		return nil, s.bad(fd, "expected method (*%s).validate", goType)
	}
	if fd.Type.TypeParams != nil {
		return nil, s.bad(fd, "type parameters")
	}
	pn, pt := tiFlatParams(fd.Type.Params)
	if len(pn) != 1 || pn[0] != "values" || !tiIsIfaceSlice(pt[0]) {
		return nil, s.bad(fd, "expected parameters (values []interface{})")
	}
	rn, rt := tiFlatParams(fd.Type.Results)
	if len(rn) != 1 || rn[0] != "" || !tiIsIdent(rt[0], "bool") {
		return nil, s.bad(fd, "expected result type bool")
	}
	if fd.Body == nil {
		return nil, s.bad(fd, "no body")
	}
	return fd, nil
}

// vdRangeLoop checks `for index := range values { … }` and returns its body.
func vdRangeLoop(s *tiSrc, st ast.Stmt, index, slice string) (*ast.BlockStmt, error) {
	rs, ok := st.(*ast.RangeStmt)
	if !ok {
		return nil, s.bad(st, "expected `for %s := range %s`", index, slice)
	}
	if !tiIsIdent(rs.Key, index) || rs.Value != nil || rs.Tok != token.DEFINE || !tiIsIdent(rs.X, slice) {
		return nil, s.bad(st, "expected `for %s := range %s`", index, slice)
	}
	return rs.Body, nil
}

type vdAct struct {
	found bool
	write string // keep | blank | toFloat64
}

func (a vdAct) lean() string { return fmt.Sprintf("⟨%v, .%s⟩", a.found, a.write) }

func vdGoTy(s *tiSrc, e ast.Expr) (string, error) {
	switch e := e.(type) {
	case *ast.Ident:
		switch e.Name {
		case "float64":
			return "float64", nil
		case "string":
			return "string", nil
		case "bool":
			return "bool", nil
		case "nil":
			return "nil", nil
		case "emptyEntityType":
			return "emptyEntity", nil
		}
	case *ast.SelectorExpr:
		if tiIsSel(e, "json", "Number") {
			return "jsonNumber", nil
		}
	}
	return "", s.bad(e, "case type %s is outside the modelled set", s.str(e))
}

func vdBody(s *tiSrc, body []ast.Stmt, bound string, types []string) (vdAct, error) {
	act := vdAct{write: "keep"}
	for _, st := range body {
		as, ok := st.(*ast.AssignStmt)
		if !ok || as.Tok != token.ASSIGN {
			return act, s.bad(st, "statement %q in a case body", s.str(st))
		}
		switch {
		case len(as.Lhs) == 1 && len(as.Rhs) == 1 && tiIsIdent(as.Lhs[0], "foundValue") && tiIsIdent(as.Rhs[0], "true"):
			if act.found {
				return act, s.bad(st, "foundValue assigned twice")
			}
			act.found = true
		case len(as.Lhs) == 1 && len(as.Rhs) == 1 && tiIsIndex(as.Lhs[0], "values", "index") && tiIsIdent(as.Rhs[0], "emptyEntity"):
			if act.write != "keep" {
				return act, s.bad(st, "two writes to values[index] in one case")
			}
			act.write = "blank"
		case len(as.Lhs) == 2 && len(as.Rhs) == 1 && tiIsIndex(as.Lhs[0], "values", "index") && tiIsIdent(as.Lhs[1], "_"):
			call, ok := as.Rhs[0].(*ast.CallExpr)
			if !ok || len(call.Args) != 0 || bound == "" || !tiIsSel(call.Fun, bound, "Float64") {
				return act, s.bad(st, "expected `values[index], _ = %s.Float64()`", bound)
			}
			if len(types) != 1 || types[0] != "jsonNumber" {
				return act, s.bad(st, "Float64() conversion outside `case json.Number:`")
			}
			if act.write != "keep" {
				return act, s.bad(st, "two writes to values[index] in one case")
			}
			act.write = "toFloat64"
		default:
			return act, s.bad(st, "statement %q in a case body", s.str(st))
		}
	}
	return act, nil
}

func vdTyped(s *tiSrc, file, goType string) (string, int, error) {
	f, err := s.parse(file)
	if err != nil {
		return "", 0, err
	}
	fd, err := vdFindValidate(s, f, file, goType)
	if err != nil {
		return "", 0, err
	}
	b := fd.Body.List
	if len(b) != 3 {
		return "", 0, s.bad(fd.Body, "expected `var foundValue bool; for …; return foundValue`")
	}
	// var foundValue bool
	ds, ok := b[0].(*ast.DeclStmt)
	if !ok {
		return "", 0, s.bad(b[0], "expected `var foundValue bool`")
	}
	gd, ok := ds.Decl.(*ast.GenDecl)
	if !ok || gd.Tok != token.VAR || len(gd.Specs) != 1 {
		return "", 0, s.bad(b[0], "expected `var foundValue bool`")
	}
	vs := gd.Specs[0].(*ast.ValueSpec)
	if len(vs.Names) != 1 || vs.Names[0].Name != "foundValue" || len(vs.Values) != 0 || !tiIsIdent(vs.Type, "bool") {
		return "", 0, s.bad(b[0], "expected `var foundValue bool`")
	}
	// return foundValue
	rs, ok := b[2].(*ast.ReturnStmt)
	if !ok || len(rs.Results) != 1 || !tiIsIdent(rs.Results[0], "foundValue") {
		return "", 0, s.bad(b[2], "expected `return foundValue`")
	}
	// the loop
	loop, err := vdRangeLoop(s, b[1], "index", "values")
	if err != nil {
		return "", 0, err
	}
	if len(loop.List) != 1 {
		return "", 0, s.bad(loop, "loop body must be exactly one type switch")
	}
	sw, ok := loop.List[0].(*ast.TypeSwitchStmt)
	if !ok || sw.Init != nil {
		return "", 0, s.bad(loop.List[0], "loop body must be exactly one type switch")
	}
	bound := ""
	var ta ast.Expr
	switch a := sw.Assign.(type) {
	case *ast.ExprStmt:
		ta = a.X
	case *ast.AssignStmt:
		if a.Tok != token.DEFINE || len(a.Lhs) != 1 || len(a.Rhs) != 1 {
			return "", 0, s.bad(a, "type switch header")
		}
		id, ok := a.Lhs[0].(*ast.Ident)
		if !ok || id.Name == "values" || id.Name == "index" || id.Name == "foundValue" || id.Name == "_" {
			return "", 0, s.bad(a, "type switch header")
		}
		bound = id.Name
		ta = a.Rhs[0]
	default:
		return "", 0, s.bad(sw, "type switch header")
	}
	tae, ok := ta.(*ast.TypeAssertExpr)
	if !ok || tae.Type != nil || !tiIsIndex(tae.X, "values", "index") {
		return "", 0, s.bad(sw, "expected `switch values[index].(type)`")
	}
	var cases []string
	dflt := vdAct{write: "keep"}
	haveDefault := false
	seen := map[string]bool{}
	for _, c := range sw.Body.List {
		cc := c.(*ast.CaseClause)
		if cc.List == nil {
			if haveDefault {
				return "", 0, s.bad(cc, "two default clauses")
			}
			haveDefault = true
			act, err := vdBody(s, cc.Body, bound, nil)
			if err != nil {
				return "", 0, err
			}
			dflt = act
			continue
		}
		var types []string
		for _, te := range cc.List {
			t, err := vdGoTy(s, te)
			if err != nil {
				return "", 0, err
			}
			if seen[t] {
				return "", 0, s.bad(te, "type listed twice")
			}
			seen[t] = true
			types = append(types, t)
		}
		act, err := vdBody(s, cc.Body, bound, types)
		if err != nil {
			return "", 0, err
		}
		for _, t := range types {
			cases = append(cases, fmt.Sprintf("(.%s, %s)", t, act.lean()))
		}
	}
	return fmt.Sprintf("{ cases := [%s],\n    dflt := %s }", strings.Join(cases, ", "), dflt.lean()), s.line(fd), nil
}

func vdBoolLit(s *tiSrc, e ast.Expr) (string, error) {
	if tiIsIdent(e, "true") {
		return "true", nil
	}
	if tiIsIdent(e, "false") {
		return "false", nil
	}
	return "", s.bad(e, "expected a Boolean literal")
}

func vdAny(s *tiSrc) (string, int, error) {
	f, err := s.parse(vdAnyFile)
	if err != nil {
		return "", 0, err
	}
	fd, err := vdFindValidate(s, f, vdAnyFile, vdAnyType)
	if err != nil {
		return "", 0, err
	}
	b := fd.Body.List
	if len(b) != 2 {
		return "", 0, s.bad(fd.Body, "expected `for … { if … { return … } }; return …`")
	}
	loop, err := vdRangeLoop(s, b[0], "index", "values")
	if err != nil {
		return "", 0, err
	}
	if len(loop.List) != 1 {
		return "", 0, s.bad(loop, "loop body must be exactly one if")
	}
	is, ok := loop.List[0].(*ast.IfStmt)
	if !ok || is.Init != nil || is.Else != nil || len(is.Body.List) != 1 {
		return "", 0, s.bad(loop.List[0], "expected `if values[index] != emptyEntity { return true }`")
	}
	be, ok := is.Cond.(*ast.BinaryExpr)
	if !ok || !tiIsIndex(be.X, "values", "index") || !tiIsIdent(be.Y, "emptyEntity") {
		return "", 0, s.bad(is.Cond, "expected `values[index] != emptyEntity`")
	}
	cond := ""
	switch be.Op {
	case token.NEQ:
		cond = "neEmptyEntity"
	case token.EQL:
		cond = "eqEmptyEntity"
	default:
		return "", 0, s.bad(is.Cond, "expected `values[index] != emptyEntity`")
	}
	r1, ok := is.Body.List[0].(*ast.ReturnStmt)
	if !ok || len(r1.Results) != 1 {
		return "", 0, s.bad(is.Body, "expected `return true`")
	}
	onHit, err := vdBoolLit(s, r1.Results[0])
	if err != nil {
		return "", 0, err
	}
	r2, ok := b[1].(*ast.ReturnStmt)
	if !ok || len(r2.Results) != 1 {
		return "", 0, s.bad(b[1], "expected `return false`")
	}
	atEnd, err := vdBoolLit(s, r2.Results[0])
	if err != nil {
		return "", 0, err
	}
	return fmt.Sprintf("{ cond := .%s, onHit := %s, atEnd := %s }", cond, onHit, atEnd), s.line(fd), nil
}

func genValidators(repo, out string) error {
	s := tiNew(repo)
	var files []string
	for _, v := range vdFiles {
		files = append(files, v.file)
	}
	files = append(files, vdAnyFile)
	hdr, err := s.header("validators", files,
		"Per typed validator: the ordered case list of `switch values[index].(type)` with what each body does\n"+
			"(found = `foundValue = true`; write = nothing / `= emptyEntity` / `, _ = typedValue.Float64()`), and the default.\n"+
			"For the any-value validator: the early-return loop.")
	if err != nil {
		return err
	}
	var b strings.Builder
	b.WriteString(hdr)
	b.WriteString("import JPV.Ties.Types\nnamespace JPV.Gen.Validators\nopen JPV.Ties\n\n")
	for _, v := range vdFiles {
		tbl, line, err := vdTyped(s, v.file, v.goType)
		if err != nil {
			return err
		}
		fmt.Fprintf(&b, "/-- (*%s).validate (%s:%d) -/\ndef %s : ValidatorTable :=\n  %s\n\n", v.goType, v.file, line, v.lean, tbl)
	}
	anyL, line, err := vdAny(s)
	if err != nil {
		return err
	}
	fmt.Fprintf(&b, "/-- (*%s).validate (%s:%d) -/\ndef anyValueLoop : AnyLoop :=\n  %s\n\n", vdAnyType, vdAnyFile, line, anyL)
	b.WriteString("/-- the typed validators by struct -/\ndef table : VRef → Option ValidatorTable\n")
	for _, v := range vdFiles {
		fmt.Fprintf(&b, "  | .%s => some %s\n", v.vref, v.lean)
	}
	b.WriteString("  | .anyValue => none\n  | .iface => none\n\nend JPV.Gen.Validators\n")
	return tiWrite(out, "Validators.lean", b.String())
}
