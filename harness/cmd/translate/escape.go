// escape.go — generator "escape": the member-name unescaping routines of /repo as Lean
// definitions (lean/JPV/Gen/EscapeGo.lean, tie T1 for property C16).
//
// What is read
//
//	jsonpath.go          var unescapeRegex = regexp.MustCompile(<string literal>)
//	                     and the one assignment `….unescapeRegex = unescapeRegex`
//	jsonpath_parser.go   the methods unescape, unescapeSingleQuotedString,
//	                     unescapeDoubleQuotedString, _unescapeJSONString of *jsonPathParser
//
// What is written (all characters and bytes as numbers, so that Lean's `decide` can look at them)
//
//	unescapeRegexSrc    the pattern, code point by code point
//	unescapeSubmatch    the submatch index that `unescape` returns for each match
//	singlePrefix / singleSuffix / singleFlagInit / singleStep
//	                    unescapeSingleQuotedString: the bytes appended before and after the loop, the
//	                    initial value of the flag and the loop body as a function
//	                    (flag, byte) ↦ (bytes appended, new flag) — a case-by-case transcription of the switch
//	doublePrefix / doubleSuffix
//	                    unescapeDoubleQuotedString: the bytes around the text
//	jsonTarget          the Go type `_unescapeJSONString` unmarshals into
//
// The subset understood is exactly the shape of today's code; every deviation — another statement,
// another expression, a different order, an extra statement — stops the generator with
// `untranslatable: <file>:<line>: <why>`. Nothing is guessed and nothing is defaulted.
package main

import (
	"fmt"
	"go/ast"
	"go/parser"
	"go/token"
	"os"
	"path/filepath"
	"strconv"
	"strings"
)

func init() { register("escape", genEscape) }

type escGen struct {
	fset *token.FileSet
	file string // base name of the file being read, for messages
}

func (g *escGen) fail(n ast.Node, why string, a ...interface{}) error {
	line := 0
	if n != nil {
		line = g.fset.Position(n.Pos()).Line
	}
	return fmt.Errorf("untranslatable: %s:%d: %s", g.file, line, fmt.Sprintf(why, a...))
}

func escIdent(e ast.Expr, name string) bool {
	id, ok := e.(*ast.Ident)
	return ok && id.Name == name
}

func escIsByteSliceType(e ast.Expr) bool {
	at, ok := e.(*ast.ArrayType)
	return ok && at.Len == nil && escIdent(at.Elt, "byte")
}

// escSel: e is `<x>.<name>` with x the identifier recv
func escSel(e ast.Expr, recv, name string) bool {
	se, ok := e.(*ast.SelectorExpr)
	return ok && escIdent(se.X, recv) && se.Sel.Name == name
}

func (g *escGen) intLit(e ast.Expr) (int64, error) {
	bl, ok := e.(*ast.BasicLit)
	if !ok {
		return 0, g.fail(e, "expected an integer or character literal")
	}
	switch bl.Kind {
	case token.INT:
		v, err := strconv.ParseInt(bl.Value, 0, 64)
		if err != nil {
			return 0, g.fail(e, "integer literal %s: %v", bl.Value, err)
		}
		return v, nil
	case token.CHAR:
		s, err := strconv.Unquote(bl.Value)
		if err != nil {
			return 0, g.fail(e, "character literal %s: %v", bl.Value, err)
		}
		r := []rune(s)
		if len(r) != 1 {
			return 0, g.fail(e, "character literal %s", bl.Value)
		}
		return int64(r[0]), nil
	}
	return 0, g.fail(e, "expected an integer or character literal")
}

// one element appended to the output: a constant byte, or the byte under the cursor
type escItem struct {
	cur bool
	val int64
}

func (it escItem) lean() string {
	if it.cur {
		return "b"
	}
	return strconv.FormatInt(it.val, 10)
}

func escItemsLean(items []escItem) string {
	parts := make([]string, len(items))
	for i, it := range items {
		parts[i] = it.lean()
	}
	return "[" + strings.Join(parts, ", ") + "]"
}

// names bound while reading unescapeSingleQuotedString
type escNames struct {
	recv, text, src, out, flag, index string
}

// appendStmt: `out = append(out, a, b, …)` with every argument an integer literal or (if cur is
// allowed) `src[index]`.
func (g *escGen) appendStmt(s ast.Stmt, nm escNames, allowCur bool) ([]escItem, bool, error) {
	as, ok := s.(*ast.AssignStmt)
	if !ok || as.Tok != token.ASSIGN || len(as.Lhs) != 1 || len(as.Rhs) != 1 || !escIdent(as.Lhs[0], nm.out) {
		return nil, false, nil
	}
	call, ok := as.Rhs[0].(*ast.CallExpr)
	if !ok || !escIdent(call.Fun, "append") {
		return nil, false, g.fail(s, "assignment to %s that is not an append", nm.out)
	}
	if call.Ellipsis != token.NoPos {
		return nil, false, nil // the caller decides (append(out, []byte(text)...))
	}
	if len(call.Args) < 2 || !escIdent(call.Args[0], nm.out) {
		return nil, false, g.fail(s, "append must be append(%s, …)", nm.out)
	}
	var items []escItem
	for _, a := range call.Args[1:] {
		if ix, ok := a.(*ast.IndexExpr); ok {
			if !allowCur || !escIdent(ix.X, nm.src) || !escIdent(ix.Index, nm.index) {
				return nil, false, g.fail(a, "only %s[%s] may be indexed here", nm.src, nm.index)
			}
			items = append(items, escItem{cur: true})
			continue
		}
		v, err := g.intLit(a)
		if err != nil {
			return nil, false, err
		}
		if v < 0 || v > 255 {
			return nil, false, g.fail(a, "byte constant %d out of range", v)
		}
		items = append(items, escItem{val: v})
	}
	return items, true, nil
}

// block: a sequence of appends and flag assignments, optionally ended by ONE if/else on the flag
// whose branches are blocks again. Result: a Lean expression of type `List Nat × Bool`.
func (g *escGen) block(stmts []ast.Stmt, nm escNames, out []escItem, flag string) (string, error) {
	for i, s := range stmts {
		if items, ok, err := g.appendStmt(s, nm, true); err != nil {
			return "", err
		} else if ok {
			out = append(append([]escItem{}, out...), items...)
			continue
		}
		switch st := s.(type) {
		case *ast.AssignStmt:
			if st.Tok != token.ASSIGN || len(st.Lhs) != 1 || len(st.Rhs) != 1 || !escIdent(st.Lhs[0], nm.flag) {
				return "", g.fail(s, "only `%s = append(…)` and `%s = true/false` are understood", nm.out, nm.flag)
			}
			switch {
			case escIdent(st.Rhs[0], "true"):
				flag = "true"
			case escIdent(st.Rhs[0], "false"):
				flag = "false"
			default:
				return "", g.fail(s, "%s may only be set to true or false", nm.flag)
			}
		case *ast.IfStmt:
			if i != len(stmts)-1 {
				return "", g.fail(s, "an if must be the last statement of its block")
			}
			if st.Init != nil || !escIdent(st.Cond, nm.flag) {
				return "", g.fail(s, "only `if %s {…} else {…}` is understood", nm.flag)
			}
			thenE, err := g.block(st.Body.List, nm, out, "true") // inside: the flag is known to be true
			if err != nil {
				return "", err
			}
			var elseStmts []ast.Stmt
			switch e := st.Else.(type) {
			case nil:
			case *ast.BlockStmt:
				elseStmts = e.List
			default:
				return "", g.fail(st.Else, "else-if is not understood")
			}
			elseE, err := g.block(elseStmts, nm, out, "false")
			if err != nil {
				return "", err
			}
			return fmt.Sprintf("(if %s then %s else %s)", flag, thenE, elseE), nil
		default:
			return "", g.fail(s, "statement %T is not understood", s)
		}
	}
	return fmt.Sprintf("(%s, %s)", escItemsLean(out), flag), nil
}

// tail: `<res>, err := recv._unescapeJSONString(out)`; `if err != nil { panic(ErrorInvalidArgument{…}) }`; `return <res>`
func (g *escGen) tail(stmts []ast.Stmt, nm escNames) error {
	if len(stmts) != 3 {
		if len(stmts) > 0 {
			return g.fail(stmts[0], "expected exactly: call of _unescapeJSONString, error check, return (found %d statements)", len(stmts))
		}
		return fmt.Errorf("untranslatable: %s:0: function ends before the call of _unescapeJSONString", g.file)
	}
	as, ok := stmts[0].(*ast.AssignStmt)
	if !ok || as.Tok != token.DEFINE || len(as.Lhs) != 2 || len(as.Rhs) != 1 {
		return g.fail(stmts[0], "expected `text, err := %s._unescapeJSONString(%s)`", nm.recv, nm.out)
	}
	res, ok1 := as.Lhs[0].(*ast.Ident)
	errv, ok2 := as.Lhs[1].(*ast.Ident)
	call, ok3 := as.Rhs[0].(*ast.CallExpr)
	if !ok1 || !ok2 || !ok3 || !escSel(call.Fun, nm.recv, "_unescapeJSONString") || len(call.Args) != 1 || !escIdent(call.Args[0], nm.out) {
		return g.fail(stmts[0], "expected `text, err := %s._unescapeJSONString(%s)`", nm.recv, nm.out)
	}
	ifs, ok := stmts[1].(*ast.IfStmt)
	if !ok || ifs.Init != nil || ifs.Else != nil || len(ifs.Body.List) != 1 {
		return g.fail(stmts[1], "expected `if err != nil { panic(…) }`")
	}
	be, ok := ifs.Cond.(*ast.BinaryExpr)
	if !ok || be.Op != token.NEQ || !escIdent(be.X, errv.Name) || !escIdent(be.Y, "nil") {
		return g.fail(stmts[1], "expected `if err != nil { panic(…) }`")
	}
	es, ok := ifs.Body.List[0].(*ast.ExprStmt)
	if !ok {
		return g.fail(ifs.Body.List[0], "expected panic(ErrorInvalidArgument{…})")
	}
	pc, ok := es.X.(*ast.CallExpr)
	if !ok || !escIdent(pc.Fun, "panic") || len(pc.Args) != 1 {
		return g.fail(es, "expected panic(ErrorInvalidArgument{…})")
	}
	cl, ok := pc.Args[0].(*ast.CompositeLit)
	if !ok || !escIdent(cl.Type, "ErrorInvalidArgument") {
		return g.fail(es, "expected panic(ErrorInvalidArgument{…})")
	}
	ret, ok := stmts[2].(*ast.ReturnStmt)
	if !ok || len(ret.Results) != 1 || !escIdent(ret.Results[0], res.Name) {
		return g.fail(stmts[2], "expected `return %s`", res.Name)
	}
	return nil
}

func (g *escGen) method(f *ast.File, name string) (*ast.FuncDecl, string, error) {
	for _, d := range f.Decls {
		fd, ok := d.(*ast.FuncDecl)
		if !ok || fd.Name.Name != name || fd.Recv == nil || len(fd.Recv.List) != 1 {
			continue
		}
		st, ok := fd.Recv.List[0].Type.(*ast.StarExpr)
		if !ok || !escIdent(st.X, "jsonPathParser") || len(fd.Recv.List[0].Names) != 1 {
			return nil, "", g.fail(fd, "receiver of %s must be a named *jsonPathParser", name)
		}
		if fd.Body == nil {
			return nil, "", g.fail(fd, "%s has no body", name)
		}
		return fd, fd.Recv.List[0].Names[0].Name, nil
	}
	return nil, "", fmt.Errorf("untranslatable: %s:0: method %s of *jsonPathParser not found", g.file, name)
}

// oneStringParam: func (…) name(p string) string
func (g *escGen) oneStringParam(fd *ast.FuncDecl) (string, error) {
	ps := fd.Type.Params.List
	if len(ps) != 1 || len(ps[0].Names) != 1 || !escIdent(ps[0].Type, "string") {
		return "", g.fail(fd, "%s must take exactly one string", fd.Name.Name)
	}
	rs := fd.Type.Results
	if rs == nil || len(rs.List) != 1 || len(rs.List[0].Names) != 0 || !escIdent(rs.List[0].Type, "string") {
		return "", g.fail(fd, "%s must return exactly one string", fd.Name.Name)
	}
	return ps[0].Names[0].Name, nil
}

// makeOut: `<out> := make([]byte, 0, <anything>)` (the capacity has no influence on the result)
func (g *escGen) makeOut(s ast.Stmt) (string, error) {
	as, ok := s.(*ast.AssignStmt)
	if !ok || as.Tok != token.DEFINE || len(as.Lhs) != 1 || len(as.Rhs) != 1 {
		return "", g.fail(s, "expected `x := make([]byte, 0, …)`")
	}
	id, ok := as.Lhs[0].(*ast.Ident)
	call, ok2 := as.Rhs[0].(*ast.CallExpr)
	if !ok || !ok2 || !escIdent(call.Fun, "make") || len(call.Args) != 3 || !escIsByteSliceType(call.Args[0]) {
		return "", g.fail(s, "expected `x := make([]byte, 0, …)`")
	}
	if v, err := g.intLit(call.Args[1]); err != nil || v != 0 {
		return "", g.fail(s, "the length given to make must be the literal 0")
	}
	return id.Name, nil
}

type escSingle struct {
	prefix, suffix []escItem
	step           string
	line           int
}

func (g *escGen) single(f *ast.File) (*escSingle, error) {
	fd, recv, err := g.method(f, "unescapeSingleQuotedString")
	if err != nil {
		return nil, err
	}
	text, err := g.oneStringParam(fd)
	if err != nil {
		return nil, err
	}
	nm := escNames{recv: recv, text: text}
	stmts := fd.Body.List
	if len(stmts) < 4 {
		return nil, g.fail(fd, "body too short")
	}
	// src := []byte(text)
	as, ok := stmts[0].(*ast.AssignStmt)
	if !ok || as.Tok != token.DEFINE || len(as.Lhs) != 1 || len(as.Rhs) != 1 {
		return nil, g.fail(stmts[0], "expected `src := []byte(%s)`", text)
	}
	srcID, ok1 := as.Lhs[0].(*ast.Ident)
	conv, ok2 := as.Rhs[0].(*ast.CallExpr)
	if !ok1 || !ok2 || !escIsByteSliceType(conv.Fun) || len(conv.Args) != 1 || !escIdent(conv.Args[0], text) {
		return nil, g.fail(stmts[0], "expected `src := []byte(%s)`", text)
	}
	nm.src = srcID.Name
	if nm.out, err = g.makeOut(stmts[1]); err != nil {
		return nil, err
	}
	res := &escSingle{line: g.fset.Position(fd.Pos()).Line}
	i := 2
	for ; i < len(stmts); i++ {
		items, ok, err := g.appendStmt(stmts[i], nm, false)
		if err != nil {
			return nil, err
		}
		if !ok {
			break
		}
		res.prefix = append(res.prefix, items...)
	}
	// var flag bool
	if i >= len(stmts) {
		return nil, g.fail(fd, "flag declaration not found")
	}
	ds, ok := stmts[i].(*ast.DeclStmt)
	if !ok {
		return nil, g.fail(stmts[i], "expected `var <flag> bool`")
	}
	gd, ok := ds.Decl.(*ast.GenDecl)
	if !ok || gd.Tok != token.VAR || len(gd.Specs) != 1 {
		return nil, g.fail(stmts[i], "expected `var <flag> bool`")
	}
	vs := gd.Specs[0].(*ast.ValueSpec)
	if len(vs.Names) != 1 || len(vs.Values) != 0 || !escIdent(vs.Type, "bool") {
		return nil, g.fail(stmts[i], "expected `var <flag> bool` without initialiser")
	}
	nm.flag = vs.Names[0].Name
	i++
	// for index := range src { switch src[index] { … } }
	if i >= len(stmts) {
		return nil, g.fail(fd, "loop not found")
	}
	rs, ok := stmts[i].(*ast.RangeStmt)
	if !ok || rs.Tok != token.DEFINE || rs.Value != nil || rs.Key == nil || !escIdent(rs.X, nm.src) || len(rs.Body.List) != 1 {
		return nil, g.fail(stmts[i], "expected `for index := range %s { switch %s[index] {…} }`", nm.src, nm.src)
	}
	nm.index = rs.Key.(*ast.Ident).Name
	sw, ok := rs.Body.List[0].(*ast.SwitchStmt)
	if !ok || sw.Init != nil {
		return nil, g.fail(rs.Body.List[0], "expected a switch on %s[%s]", nm.src, nm.index)
	}
	tag, ok := sw.Tag.(*ast.IndexExpr)
	if !ok || !escIdent(tag.X, nm.src) || !escIdent(tag.Index, nm.index) {
		return nil, g.fail(sw, "expected a switch on %s[%s]", nm.src, nm.index)
	}
	var conds, bodies []string
	deflt := ""
	seen := map[int64]bool{}
	for _, c := range sw.Body.List {
		cc := c.(*ast.CaseClause)
		e, err := g.block(cc.Body, nm, nil, "flag")
		if err != nil {
			return nil, err
		}
		if cc.List == nil {
			if deflt != "" {
				return nil, g.fail(cc, "two default clauses")
			}
			deflt = e
			continue
		}
		var alts []string
		for _, v := range cc.List {
			n, err := g.intLit(v)
			if err != nil {
				return nil, err
			}
			if n < 0 || n > 255 || seen[n] {
				return nil, g.fail(v, "case value %d out of range or repeated", n)
			}
			seen[n] = true
			alts = append(alts, fmt.Sprintf("b = %d", n))
		}
		conds = append(conds, strings.Join(alts, " ∨ "))
		bodies = append(bodies, e)
	}
	if deflt == "" {
		// no default clause: nothing happens for other bytes
		deflt = "([], flag)"
	}
	var b strings.Builder
	b.WriteString(" ")
	for k := range conds {
		fmt.Fprintf(&b, " if %s then %s\n  else", conds[k], bodies[k])
	}
	fmt.Fprintf(&b, " %s", deflt)
	res.step = b.String()
	i++
	for ; i < len(stmts); i++ {
		items, ok, err := g.appendStmt(stmts[i], nm, false)
		if err != nil {
			return nil, err
		}
		if !ok {
			break
		}
		res.suffix = append(res.suffix, items...)
	}
	if err := g.tail(stmts[i:], nm); err != nil {
		return nil, err
	}
	return res, nil
}

type escDouble struct {
	prefix, suffix []escItem
	line           int
}

func (g *escGen) double(f *ast.File) (*escDouble, error) {
	fd, recv, err := g.method(f, "unescapeDoubleQuotedString")
	if err != nil {
		return nil, err
	}
	text, err := g.oneStringParam(fd)
	if err != nil {
		return nil, err
	}
	nm := escNames{recv: recv, text: text}
	stmts := fd.Body.List
	if len(stmts) < 2 {
		return nil, g.fail(fd, "body too short")
	}
	if nm.out, err = g.makeOut(stmts[0]); err != nil {
		return nil, err
	}
	res := &escDouble{line: g.fset.Position(fd.Pos()).Line}
	i := 1
	for ; i < len(stmts); i++ {
		items, ok, err := g.appendStmt(stmts[i], nm, false)
		if err != nil {
			return nil, err
		}
		if !ok {
			break
		}
		res.prefix = append(res.prefix, items...)
	}
	// out = append(out, []byte(text)...)
	if i >= len(stmts) {
		return nil, g.fail(fd, "the text is never appended")
	}
	as, ok := stmts[i].(*ast.AssignStmt)
	bad := func() error {
		return g.fail(stmts[i], "expected `%s = append(%s, []byte(%s)...)`", nm.out, nm.out, text)
	}
	if !ok || as.Tok != token.ASSIGN || len(as.Lhs) != 1 || len(as.Rhs) != 1 || !escIdent(as.Lhs[0], nm.out) {
		return nil, bad()
	}
	call, ok := as.Rhs[0].(*ast.CallExpr)
	if !ok || !escIdent(call.Fun, "append") || call.Ellipsis == token.NoPos || len(call.Args) != 2 || !escIdent(call.Args[0], nm.out) {
		return nil, bad()
	}
	conv, ok := call.Args[1].(*ast.CallExpr)
	if !ok || !escIsByteSliceType(conv.Fun) || len(conv.Args) != 1 || !escIdent(conv.Args[0], text) {
		return nil, bad()
	}
	i++
	for ; i < len(stmts); i++ {
		items, ok, err := g.appendStmt(stmts[i], nm, false)
		if err != nil {
			return nil, err
		}
		if !ok {
			break
		}
		res.suffix = append(res.suffix, items...)
	}
	if err := g.tail(stmts[i:], nm); err != nil {
		return nil, err
	}
	return res, nil
}

// jsonTarget: func (p *jsonPathParser) _unescapeJSONString(input []byte) (string, error) {
//
//	var t string; err := json.Unmarshal(input, &t); return t, err }
func (g *escGen) jsonTarget(f *ast.File) (string, int, error) {
	fd, _, err := g.method(f, "_unescapeJSONString")
	if err != nil {
		return "", 0, err
	}
	jsonName := ""
	for _, im := range f.Imports {
		if im.Path.Value == `"encoding/json"` {
			jsonName = "json"
			if im.Name != nil {
				jsonName = im.Name.Name
			}
		}
	}
	if jsonName == "" {
		return "", 0, g.fail(fd, "encoding/json is not imported")
	}
	ps := fd.Type.Params.List
	if len(ps) != 1 || len(ps[0].Names) != 1 || !escIsByteSliceType(ps[0].Type) {
		return "", 0, g.fail(fd, "_unescapeJSONString must take one []byte")
	}
	in := ps[0].Names[0].Name
	st := fd.Body.List
	if len(st) != 3 {
		return "", 0, g.fail(fd, "expected three statements in _unescapeJSONString")
	}
	ds, ok := st[0].(*ast.DeclStmt)
	if !ok {
		return "", 0, g.fail(st[0], "expected `var t string`")
	}
	gd := ds.Decl.(*ast.GenDecl)
	if gd.Tok != token.VAR || len(gd.Specs) != 1 {
		return "", 0, g.fail(st[0], "expected `var t string`")
	}
	vs := gd.Specs[0].(*ast.ValueSpec)
	ty, ok := vs.Type.(*ast.Ident)
	if !ok || len(vs.Names) != 1 || len(vs.Values) != 0 {
		return "", 0, g.fail(st[0], "expected `var t <type>` without initialiser")
	}
	t := vs.Names[0].Name
	as, ok := st[1].(*ast.AssignStmt)
	if !ok || as.Tok != token.DEFINE || len(as.Lhs) != 1 || len(as.Rhs) != 1 {
		return "", 0, g.fail(st[1], "expected `err := json.Unmarshal(%s, &%s)`", in, t)
	}
	errv, ok1 := as.Lhs[0].(*ast.Ident)
	call, ok2 := as.Rhs[0].(*ast.CallExpr)
	if !ok1 || !ok2 || !escSel(call.Fun, jsonName, "Unmarshal") || len(call.Args) != 2 || !escIdent(call.Args[0], in) {
		return "", 0, g.fail(st[1], "expected `err := json.Unmarshal(%s, &%s)`", in, t)
	}
	ue, ok := call.Args[1].(*ast.UnaryExpr)
	if !ok || ue.Op != token.AND || !escIdent(ue.X, t) {
		return "", 0, g.fail(st[1], "expected `err := json.Unmarshal(%s, &%s)`", in, t)
	}
	ret, ok := st[2].(*ast.ReturnStmt)
	if !ok || len(ret.Results) != 2 || !escIdent(ret.Results[0], t) || !escIdent(ret.Results[1], errv.Name) {
		return "", 0, g.fail(st[2], "expected `return %s, %s`", t, errv.Name)
	}
	return ty.Name, g.fset.Position(fd.Pos()).Line, nil
}

// unescape: return p.unescapeRegex.ReplaceAllStringFunc(text, func(block string) string {
//
//	set := p.unescapeRegex.FindStringSubmatch(block); return set[N] })
func (g *escGen) unescape(f *ast.File) (int64, int, error) {
	fd, recv, err := g.method(f, "unescape")
	if err != nil {
		return 0, 0, err
	}
	text, err := g.oneStringParam(fd)
	if err != nil {
		return 0, 0, err
	}
	bad := func(n ast.Node) error {
		return g.fail(n, "expected `return %s.unescapeRegex.ReplaceAllStringFunc(%s, func(block string) string { set := %s.unescapeRegex.FindStringSubmatch(block); return set[N] })`", recv, text, recv)
	}
	if len(fd.Body.List) != 1 {
		return 0, 0, bad(fd)
	}
	ret, ok := fd.Body.List[0].(*ast.ReturnStmt)
	if !ok || len(ret.Results) != 1 {
		return 0, 0, bad(fd.Body.List[0])
	}
	call, ok := ret.Results[0].(*ast.CallExpr)
	if !ok || len(call.Args) != 2 || !escIdent(call.Args[0], text) {
		return 0, 0, bad(ret)
	}
	fun, ok := call.Fun.(*ast.SelectorExpr)
	if !ok || fun.Sel.Name != "ReplaceAllStringFunc" || !escSel(fun.X, recv, "unescapeRegex") {
		return 0, 0, bad(ret)
	}
	fl, ok := call.Args[1].(*ast.FuncLit)
	if !ok || len(fl.Type.Params.List) != 1 || len(fl.Type.Params.List[0].Names) != 1 || !escIdent(fl.Type.Params.List[0].Type, "string") ||
		fl.Type.Results == nil || len(fl.Type.Results.List) != 1 || !escIdent(fl.Type.Results.List[0].Type, "string") || len(fl.Body.List) != 2 {
		return 0, 0, bad(ret)
	}
	block := fl.Type.Params.List[0].Names[0].Name
	as, ok := fl.Body.List[0].(*ast.AssignStmt)
	if !ok || as.Tok != token.DEFINE || len(as.Lhs) != 1 || len(as.Rhs) != 1 {
		return 0, 0, bad(fl.Body.List[0])
	}
	set, ok1 := as.Lhs[0].(*ast.Ident)
	c2, ok2 := as.Rhs[0].(*ast.CallExpr)
	if !ok1 || !ok2 || len(c2.Args) != 1 || !escIdent(c2.Args[0], block) {
		return 0, 0, bad(as)
	}
	f2, ok := c2.Fun.(*ast.SelectorExpr)
	if !ok || f2.Sel.Name != "FindStringSubmatch" || !escSel(f2.X, recv, "unescapeRegex") {
		return 0, 0, bad(as)
	}
	r2, ok := fl.Body.List[1].(*ast.ReturnStmt)
	if !ok || len(r2.Results) != 1 {
		return 0, 0, bad(fl.Body.List[1])
	}
	ix, ok := r2.Results[0].(*ast.IndexExpr)
	if !ok || !escIdent(ix.X, set.Name) {
		return 0, 0, bad(r2)
	}
	n, err := g.intLit(ix.Index)
	if err != nil {
		return 0, 0, err
	}
	return n, g.fset.Position(fd.Pos()).Line, nil
}

// regexSource: in jsonpath.go, `var unescapeRegex = regexp.MustCompile(<lit>)`, and exactly one
// assignment to a field called unescapeRegex in the package, namely `… .unescapeRegex = unescapeRegex`.
func (g *escGen) regexSource(repo string) ([]rune, int, error) {
	pkgFiles, err := filepath.Glob(filepath.Join(repo, "*.go"))
	if err != nil {
		return nil, 0, err
	}
	var src []rune
	line := 0
	found := false
	assigns := 0
	for _, path := range pkgFiles {
		if strings.HasSuffix(path, "_test.go") {
			continue
		}
		g.file = filepath.Base(path)
		f, err := parser.ParseFile(g.fset, path, nil, 0)
		if err != nil {
			return nil, 0, fmt.Errorf("untranslatable: %s:0: %v", g.file, err)
		}
		normalizeFile(g.fset, f)
		var ferr error
		ast.Inspect(f, func(n ast.Node) bool {
			if ferr != nil {
				return false
			}
			switch x := n.(type) {
			case *ast.ValueSpec:
				for k, nmx := range x.Names {
					if nmx.Name != "unescapeRegex" {
						continue
					}
					if g.file != "jsonpath.go" || found || len(x.Names) != 1 || len(x.Values) != 1 || k != 0 {
						ferr = g.fail(x, "unexpected declaration of unescapeRegex")
						return false
					}
					call, ok := x.Values[0].(*ast.CallExpr)
					if !ok || !escSel(call.Fun, "regexp", "MustCompile") || len(call.Args) != 1 {
						ferr = g.fail(x, "unescapeRegex must be regexp.MustCompile(<string literal>)")
						return false
					}
					bl, ok := call.Args[0].(*ast.BasicLit)
					if !ok || bl.Kind != token.STRING {
						ferr = g.fail(x, "unescapeRegex must be regexp.MustCompile(<string literal>)")
						return false
					}
					s, err := strconv.Unquote(bl.Value)
					if err != nil {
						ferr = g.fail(x, "string literal: %v", err)
						return false
					}
					src = []rune(s)
					line = g.fset.Position(x.Pos()).Line
					found = true
				}
			case *ast.AssignStmt:
				for k, l := range x.Lhs {
					se, ok := l.(*ast.SelectorExpr)
					if ok && se.Sel.Name == "unescapeRegex" {
						assigns++
						if len(x.Lhs) != 1 || len(x.Rhs) != 1 || k != 0 || !escIdent(x.Rhs[0], "unescapeRegex") || x.Tok != token.ASSIGN {
							ferr = g.fail(x, "the field unescapeRegex may only be assigned the package variable unescapeRegex")
							return false
						}
					}
					if escIdent(l, "unescapeRegex") {
						ferr = g.fail(x, "the package variable unescapeRegex is assigned")
						return false
					}
				}
			case *ast.KeyValueExpr:
				if escIdent(x.Key, "unescapeRegex") {
					ferr = g.fail(x, "the field unescapeRegex is set in a composite literal")
					return false
				}
			case *ast.UnaryExpr:
				if x.Op == token.AND {
					if se, ok := x.X.(*ast.SelectorExpr); ok && se.Sel.Name == "unescapeRegex" || escIdent(x.X, "unescapeRegex") {
						ferr = g.fail(x, "the address of unescapeRegex is taken")
						return false
					}
				}
			}
			return true
		})
		if ferr != nil {
			return nil, 0, ferr
		}
	}
	g.file = "jsonpath.go"
	if !found {
		return nil, 0, fmt.Errorf("untranslatable: jsonpath.go:0: var unescapeRegex not found")
	}
	if assigns != 1 {
		return nil, 0, fmt.Errorf("untranslatable: jsonpath.go:0: expected exactly one assignment `….unescapeRegex = unescapeRegex`, found %d", assigns)
	}
	return src, line, nil
}

func genEscape(repo, out string) error {
	g := &escGen{fset: token.NewFileSet()}
	src, srcLine, err := g.regexSource(repo)
	if err != nil {
		return err
	}
	g.file = "jsonpath_parser.go"
	f, err := parser.ParseFile(g.fset, filepath.Join(repo, g.file), nil, 0)
	if err != nil {
		return fmt.Errorf("untranslatable: %s:0: %v", g.file, err)
	}
	normalizeFile(g.fset, f)
	sub, subLine, err := g.unescape(f)
	if err != nil {
		return err
	}
	sg, err := g.single(f)
	if err != nil {
		return err
	}
	db, err := g.double(f)
	if err != nil {
		return err
	}
	target, targetLine, err := g.jsonTarget(f)
	if err != nil {
		return err
	}

	var b strings.Builder
	b.WriteString("/- GENERATED by harness/cmd/translate (escape.go) from jsonpath.go and jsonpath_parser.go — do not edit. -/\n")
	b.WriteString("namespace JPV.Gen.EscapeGo\n\n")
	cps := make([]string, len(src))
	for i, r := range src {
		cps[i] = strconv.Itoa(int(r))
	}
	fmt.Fprintf(&b, "/-- jsonpath.go:%d  `var unescapeRegex = regexp.MustCompile(…)`: the pattern %s, code point by code point -/\n", srcLine, strconv.QuoteToASCII(string(src)))
	fmt.Fprintf(&b, "def unescapeRegexSrc : List Nat := [%s]\n\n", strings.Join(cps, ", "))
	fmt.Fprintf(&b, "/-- jsonpath_parser.go:%d  `unescape`: ReplaceAllStringFunc replaces every match by its submatch with this index -/\n", subLine)
	fmt.Fprintf(&b, "def unescapeSubmatch : Nat := %d\n\n", sub)
	fmt.Fprintf(&b, "/-- jsonpath_parser.go:%d  `unescapeSingleQuotedString`: bytes appended before the loop -/\n", sg.line)
	fmt.Fprintf(&b, "def singlePrefix : List Nat := %s\n\n", escItemsLean(sg.prefix))
	b.WriteString("/-- … bytes appended after the loop -/\n")
	fmt.Fprintf(&b, "def singleSuffix : List Nat := %s\n\n", escItemsLean(sg.suffix))
	b.WriteString("/-- … `var foundEscape bool` -/\n")
	b.WriteString("def singleFlagInit : Bool := false\n\n")
	b.WriteString("/-- … the loop body: (value of the flag, byte under the cursor) ↦ (bytes appended, new value of the flag) -/\n")
	b.WriteString("def singleStep (flag : Bool) (b : Nat) : List Nat × Bool :=\n")
	b.WriteString(sg.step)
	b.WriteString("\n\n")
	fmt.Fprintf(&b, "/-- jsonpath_parser.go:%d  `unescapeDoubleQuotedString`: bytes appended before the text -/\n", db.line)
	fmt.Fprintf(&b, "def doublePrefix : List Nat := %s\n\n", escItemsLean(db.prefix))
	b.WriteString("/-- … bytes appended after the text -/\n")
	fmt.Fprintf(&b, "def doubleSuffix : List Nat := %s\n\n", escItemsLean(db.suffix))
	fmt.Fprintf(&b, "/-- jsonpath_parser.go:%d  `_unescapeJSONString`: json.Unmarshal into a variable of this Go type -/\n", targetLine)
	tcps := []string{}
	for _, r := range target {
		tcps = append(tcps, strconv.Itoa(int(r)))
	}
	fmt.Fprintf(&b, "def jsonTarget : List Nat := [%s]   -- %q\n\n", strings.Join(tcps, ", "), target)
	b.WriteString("end JPV.Gen.EscapeGo\n")
	return os.WriteFile(filepath.Join(out, "EscapeGo.lean"), []byte(b.String()), 0o644)
}
