// facts.go — generator "facts": structural facts about /repo's source as small string tables
// (lean/JPV/Gen/Facts.lean, tie T2, DESIGN §5.2; compared with JPV/Ties/Expect.lean by `decide`).
//
// Read with go/parser + go/ast only (no type checker): every non-test .go file of the library
// except the generated recogniser jsonpath.peg.go and the hook files verif_on.go / verif_off.go.
// Identifiers are resolved by a deliberately simple rule: a name is LOCAL to a function declaration
// if it is its receiver, a parameter, a named result or is declared anywhere inside its body
// (`:=`, var, range, type-switch binding, parameters of function literals); otherwise it is looked up
// among the package-level declarations, the file's imports and Go's predeclared names. A name found
// nowhere stops the generator (`untranslatable`).
//
// Tables (all rows are lists of strings; every table is sorted, so the output is canonical):
//
//	writes        [func, kind, lhs, base, origin]      assignments (= op= ++ --) whose target is an index, field
//	                                                   or pointer-dereference expression; base = leftmost identifier
//	pkgVarAssign  [func, lhs]                          assignments whose base identifier is a package-level variable
//	returns       [func, nn, class, detail]            results of methods compute/validate/comparator/getIndexes,
//	                                                   nn = ordinal of the return statement, class:detail = what is returned
//	filterInput   [func, argument, class, detail]      second argument of `….query.compute(` in the filter qualifier
//	pool          [func, callee, count, deferred]      calls of getContainer/getSortedKeys/putContainer/putSortSlice
//	parseWrapper  [key, …]                             shape of Parse in jsonpath.go (see fxParseWrapper)
//	parserRefs    [func, expression]                   every other mention of the package variable `parser`
//	panics        [func, class, count]                 argument of every panic(…)
//	assertions    [func, expression, count]            single-valued type assertions x.(T)
//	index0        [func, expression, count]            index expressions X[0]
//	pkgVars       [name, initialiser]                  package-level variables
//
// origin / class vocabulary: receiver, param, result, pkgvar, make, append, new, call:<name>, literal,
// const, zero, range, typeswitch, func, closure-param, expr, field:<text>, elem(…), slice(…), assert(…),
// deref(…), alias(…); several definitions of one local are joined with `+` (sorted).
package main

import (
	"fmt"
	"go/ast"
	"go/token"
	"sort"
	"strings"
)

func init() { register("facts", genFacts) }

var fxSkip = map[string]bool{"jsonpath.peg.go": true, "verif_on.go": true, "verif_off.go": true}

var fxUniverse = map[string]bool{}

func init() {
	for _, w := range strings.Fields(`bool byte complex64 complex128 error float32 float64 int int8 int16 int32 int64 rune string
		uint uint8 uint16 uint32 uint64 uintptr any comparable true false iota nil append cap clear close complex copy delete imag
		len make max min new panic print println real recover _`) {
		fxUniverse[w] = true
	}
}

type fxPkg struct {
	s       *tiSrc
	files   []string
	asts    map[string]*ast.File
	vars    map[string]string // name -> initialiser text
	funcs   map[string]bool
	types   map[string]bool
	consts  map[string]bool
	imports map[string]map[string]bool // file -> imported names
}

type fxFunc struct {
	pkg    *fxPkg
	file   string
	name   string
	decl   *ast.FuncDecl
	locals map[string][]string // name -> origins
	defs   map[string][]ast.Expr
}

type fxTable [][]string

func (t fxTable) sorted() fxTable {
	out := append(fxTable{}, t...)
	sort.SliceStable(out, func(i, j int) bool { return strings.Join(out[i], "\x00") < strings.Join(out[j], "\x00") })
	return out
}

// counted collapses equal rows into row+[count].
func (t fxTable) counted() fxTable {
	m := map[string]int{}
	var keys []string
	rows := map[string][]string{}
	for _, r := range t {
		k := strings.Join(r, "\x00")
		if m[k] == 0 {
			keys = append(keys, k)
			rows[k] = r
		}
		m[k]++
	}
	var out fxTable
	for _, k := range keys {
		out = append(out, append(append([]string{}, rows[k]...), fmt.Sprint(m[k])))
	}
	return out.sorted()
}

func (t fxTable) unique() fxTable {
	seen := map[string]bool{}
	var out fxTable
	for _, r := range t {
		k := strings.Join(r, "\x00")
		if !seen[k] {
			seen[k] = true
			out = append(out, r)
		}
	}
	return out.sorted()
}

func (t fxTable) lean(name, doc string) string {
	var b strings.Builder
	fmt.Fprintf(&b, "/-- %s -/\ndef %s : Table := [", doc, name)
	for i, r := range t {
		if i > 0 {
			b.WriteString(",")
		}
		b.WriteString("\n  [")
		for j, c := range r {
			if j > 0 {
				b.WriteString(", ")
			}
			b.WriteString(tiLeanStr(c))
		}
		b.WriteString("]")
	}
	b.WriteString("]\n\n")
	return b.String()
}

func fxLoad(repo string) (*fxPkg, error) {
	s := tiNew(repo)
	all, err := tiGoFiles(repo)
	if err != nil {
		return nil, err
	}
	p := &fxPkg{s: s, asts: map[string]*ast.File{}, vars: map[string]string{}, funcs: map[string]bool{},
		types: map[string]bool{}, consts: map[string]bool{}, imports: map[string]map[string]bool{}}
	for _, f := range all {
		if fxSkip[f] {
			continue
		}
		a, err := s.parse(f)
		if err != nil {
			return nil, err
		}
		p.files = append(p.files, f)
		p.asts[f] = a
		p.imports[f] = map[string]bool{}
		for _, im := range a.Imports {
			path := strings.Trim(im.Path.Value, "\"`")
			name := path[strings.LastIndex(path, "/")+1:]
			if im.Name != nil {
				name = im.Name.Name
			}
			p.imports[f][name] = true
		}
	}
	// package-level names come from ALL non-test files (the skipped ones declare functions the others call)
	for _, f := range all {
		a := p.asts[f]
		if a == nil {
			if a, err = s.parse(f); err != nil {
				return nil, err
			}
		}
		for _, d := range a.Decls {
			switch d := d.(type) {
			case *ast.FuncDecl:
				if d.Recv == nil {
					p.funcs[d.Name.Name] = true
				}
			case *ast.GenDecl:
				for _, sp := range d.Specs {
					switch sp := sp.(type) {
					case *ast.TypeSpec:
						p.types[sp.Name.Name] = true
					case *ast.ValueSpec:
						for i, n := range sp.Names {
							if d.Tok == token.CONST {
								p.consts[n.Name] = true
								continue
							}
							if fxSkip[f] {
								p.vars[n.Name] = "<declared in " + f + ">"
								continue
							}
							init := "<zero>"
							if len(sp.Values) == len(sp.Names) {
								init = s.str(sp.Values[i])
							} else if len(sp.Values) != 0 {
								return nil, s.bad(sp, "multi-valued package variable initialiser")
							}
							if sp.Type != nil {
								init = s.str(sp.Type) + " " + init
							}
							if _, dup := p.vars[n.Name]; dup {
								return nil, s.bad(sp, "package variable %s declared twice", n.Name)
							}
							p.vars[n.Name] = init
						}
					}
				}
			}
		}
	}
	return p, nil
}

// ---------- per-function scope ----------

func fxFuncName(fd *ast.FuncDecl) string {
	if fd.Recv != nil {
		typ, _, _ := tiRecvType(fd)
		return typ + "." + fd.Name.Name
	}
	return fd.Name.Name
}

func (p *fxPkg) newFunc(file string, fd *ast.FuncDecl) *fxFunc {
	f := &fxFunc{pkg: p, file: file, name: fxFuncName(fd), decl: fd, locals: map[string][]string{}, defs: map[string][]ast.Expr{}}
	add := func(name, origin string) {
		if name == "_" || name == "" {
			return
		}
		for _, o := range f.locals[name] {
			if o == origin {
				return
			}
		}
		f.locals[name] = append(f.locals[name], origin)
	}
	if fd.Recv != nil {
		for _, fl := range fd.Recv.List {
			for _, n := range fl.Names {
				add(n.Name, "receiver")
			}
		}
	}
	ns, _ := tiFlatParams(fd.Type.Params)
	for _, n := range ns {
		add(n, "param")
	}
	ns, _ = tiFlatParams(fd.Type.Results)
	for _, n := range ns {
		add(n, "result")
	}
	if fd.Body == nil {
		return f
	}
	// pass 1: names declared in the body (so that classification below can tell locals from globals)
	ast.Inspect(fd.Body, func(n ast.Node) bool {
		switch n := n.(type) {
		case *ast.AssignStmt:
			if n.Tok == token.DEFINE {
				for _, l := range n.Lhs {
					if id, ok := l.(*ast.Ident); ok && id.Name != "_" {
						if _, ok := f.locals[id.Name]; !ok {
							f.locals[id.Name] = nil
						}
					}
				}
			}
		case *ast.ValueSpec:
			for _, id := range n.Names {
				if _, ok := f.locals[id.Name]; !ok && id.Name != "_" {
					f.locals[id.Name] = nil
				}
			}
		case *ast.RangeStmt:
			if n.Tok == token.DEFINE {
				for _, e := range []ast.Expr{n.Key, n.Value} {
					if id, ok := e.(*ast.Ident); ok && id.Name != "_" {
						if _, ok := f.locals[id.Name]; !ok {
							f.locals[id.Name] = nil
						}
					}
				}
			}
		case *ast.FuncLit:
			ns, _ := tiFlatParams(n.Type.Params)
			ns2, _ := tiFlatParams(n.Type.Results)
			for _, nm := range append(ns, ns2...) {
				if _, ok := f.locals[nm]; !ok && nm != "_" && nm != "" {
					f.locals[nm] = nil
				}
			}
		}
		return true
	})
	// pass 2: how each local gets its values
	ast.Inspect(fd.Body, func(n ast.Node) bool {
		switch n := n.(type) {
		case *ast.AssignStmt:
			for i, l := range n.Lhs {
				id, ok := l.(*ast.Ident)
				if !ok || id.Name == "_" {
					continue
				}
				if _, isLocal := f.locals[id.Name]; !isLocal {
					continue
				}
				if n.Tok != token.DEFINE && n.Tok != token.ASSIGN {
					add(id.Name, "expr")
					continue
				}
				if len(n.Rhs) == len(n.Lhs) {
					f.defs[id.Name] = append(f.defs[id.Name], n.Rhs[i])
				} else {
					// v, ok := x.(T) / m[k] / f()
					if i == 0 {
						f.defs[id.Name] = append(f.defs[id.Name], n.Rhs[0])
					} else {
						add(id.Name, "second-value")
					}
				}
			}
		case *ast.ValueSpec:
			for i, id := range n.Names {
				if len(n.Values) == len(n.Names) {
					f.defs[id.Name] = append(f.defs[id.Name], n.Values[i])
				} else {
					add(id.Name, "zero")
				}
			}
		case *ast.RangeStmt:
			if n.Tok == token.DEFINE {
				for _, e := range []ast.Expr{n.Key, n.Value} {
					if id, ok := e.(*ast.Ident); ok {
						add(id.Name, "range")
					}
				}
			}
		case *ast.TypeSwitchStmt:
			if as, ok := n.Assign.(*ast.AssignStmt); ok && len(as.Lhs) == 1 {
				if id, ok := as.Lhs[0].(*ast.Ident); ok {
					// remove the definition recorded by the AssignStmt case (it is `x.(type)`)
					add(id.Name, "typeswitch")
				}
			}
		case *ast.FuncLit:
			ns, _ := tiFlatParams(n.Type.Params)
			for _, nm := range ns {
				add(nm, "closure-param")
			}
			ns, _ = tiFlatParams(n.Type.Results)
			for _, nm := range ns {
				add(nm, "closure-result")
			}
		case *ast.IncDecStmt:
			if id, ok := n.X.(*ast.Ident); ok {
				if _, isLocal := f.locals[id.Name]; isLocal {
					add(id.Name, "expr")
				}
			}
		}
		return true
	})
	// Classify every definition against the SAME state of `locals` (as it is before any definition-derived
	// origin is added) and in sorted name order: the result must not depend on map iteration order.
	names := make([]string, 0, len(f.defs))
	for name := range f.defs {
		names = append(names, name)
	}
	sort.Strings(names)
	type pend struct{ name, class string }
	var pending []pend
	for _, name := range names {
		for _, e := range f.defs[name] {
			if ta, ok := e.(*ast.TypeAssertExpr); ok && ta.Type == nil {
				continue // the `x.(type)` of a type switch: recorded as "typeswitch"
			}
			pending = append(pending, pend{name, f.class(e, 0)})
		}
	}
	for _, pd := range pending {
		add(pd.name, pd.class)
	}
	for name := range f.locals {
		sort.Strings(f.locals[name])
	}
	return f
}

func (f *fxFunc) isLocal(name string) bool { _, ok := f.locals[name]; return ok }

// origin of an identifier as a `+`-joined string
func (f *fxFunc) origin(name string, depth int) string {
	if os, ok := f.locals[name]; ok {
		if len(os) == 0 {
			return "undefined"
		}
		return strings.Join(os, "+")
	}
	return f.global(name)
}

func (f *fxFunc) global(name string) string {
	switch {
	case f.pkg.vars[name] != "":
		return "pkgvar"
	case f.pkg.funcs[name]:
		return "pkgfunc"
	case f.pkg.types[name]:
		return "type"
	case f.pkg.consts[name]:
		return "const"
	case f.pkg.imports[f.file][name]:
		return "import"
	case fxUniverse[name]:
		return "universe"
	}
	return ""
}

// class describes where the value of an expression comes from.
func (f *fxFunc) class(e ast.Expr, depth int) string {
	if depth > 4 {
		return "expr"
	}
	switch x := e.(type) {
	case *ast.ParenExpr:
		return f.class(x.X, depth)
	case *ast.BasicLit:
		return "const"
	case *ast.FuncLit:
		return "func"
	case *ast.CompositeLit:
		return "literal"
	case *ast.Ident:
		if x.Name == "true" || x.Name == "false" || x.Name == "nil" {
			if !f.isLocal(x.Name) {
				return "const"
			}
		}
		if f.isLocal(x.Name) {
			os := f.locals[x.Name]
			direct := true
			for _, o := range os {
				if o != "param" && o != "receiver" && o != "result" && o != "closure-param" {
					direct = false
				}
			}
			if direct && len(os) > 0 {
				return strings.Join(os, "+") + ":" + x.Name
			}
			return "alias(" + x.Name + ")"
		}
		g := f.global(x.Name)
		if g == "" {
			return "unknown:" + x.Name
		}
		return g + ":" + x.Name
	case *ast.UnaryExpr:
		if x.Op == token.AND {
			if _, ok := x.X.(*ast.CompositeLit); ok {
				return "literal"
			}
			return "addr(" + f.class(x.X, depth+1) + ")"
		}
		return "expr"
	case *ast.BinaryExpr:
		return "expr"
	case *ast.StarExpr:
		return "deref(" + f.class(x.X, depth+1) + ")"
	case *ast.IndexExpr:
		return "elem(" + f.class(x.X, depth+1) + ")"
	case *ast.SliceExpr:
		return "slice(" + f.class(x.X, depth+1) + ")"
	case *ast.TypeAssertExpr:
		return "assert(" + f.class(x.X, depth+1) + ")"
	case *ast.SelectorExpr:
		return "field:" + f.pkg.s.str(x)
	case *ast.CallExpr:
		switch fn := x.Fun.(type) {
		case *ast.Ident:
			if !f.isLocal(fn.Name) && (fn.Name == "make" || fn.Name == "append" || fn.Name == "new") {
				if fn.Name == "append" && len(x.Args) > 0 {
					return "append(" + f.class(x.Args[0], depth+1) + ")"
				}
				return fn.Name
			}
			return "call:" + fn.Name
		case *ast.SelectorExpr:
			return "call:" + fn.Sel.Name
		case *ast.ArrayType, *ast.InterfaceType, *ast.MapType:
			return "conversion"
		}
		return "call"
	}
	return "expr"
}

// classTop is class, except that a local variable is resolved to the way it got its values.
func (f *fxFunc) classTop(e ast.Expr) string {
	for {
		p, ok := e.(*ast.ParenExpr)
		if !ok {
			break
		}
		e = p.X
	}
	if id, ok := e.(*ast.Ident); ok && f.isLocal(id.Name) {
		c := f.class(e, 0)
		if strings.HasPrefix(c, "alias(") {
			return "local:" + id.Name + "=" + f.origin(id.Name, 0)
		}
		return c
	}
	return f.class(e, 0)
}

// fxSplit cuts a class at its first colon: "param:x" -> ["param", "x"], "literal" -> ["literal", ""].
func fxSplit(c string) []string {
	if i := strings.Index(c, ":"); i >= 0 {
		return []string{c[:i], c[i+1:]}
	}
	return []string{c, ""}
}

// base returns the leftmost identifier of an addressable expression and the outermost kind.
func fxBase(e ast.Expr) (*ast.Ident, string) {
	kind := ""
	for {
		switch x := e.(type) {
		case *ast.ParenExpr:
			e = x.X
		case *ast.IndexExpr:
			if kind == "" {
				kind = "index"
			}
			e = x.X
		case *ast.SelectorExpr:
			if kind == "" {
				kind = "field"
			}
			e = x.X
		case *ast.StarExpr:
			if kind == "" {
				kind = "deref"
			}
			e = x.X
		case *ast.SliceExpr:
			e = x.X
		case *ast.TypeAssertExpr:
			e = x.X
		case *ast.CallExpr:
			return nil, kind
		case *ast.Ident:
			return x, kind
		default:
			return nil, kind
		}
	}
}

// walk visits n with the stack of ancestors (outermost first, n excluded).
func fxWalk(root ast.Node, visit func(n ast.Node, stack []ast.Node)) {
	var stack []ast.Node
	ast.Inspect(root, func(n ast.Node) bool {
		if n == nil {
			stack = stack[:len(stack)-1]
			return false
		}
		visit(n, stack)
		stack = append(stack, n)
		return true
	})
}

func fxInFuncLit(stack []ast.Node) bool {
	for _, a := range stack {
		if _, ok := a.(*ast.FuncLit); ok {
			return true
		}
	}
	return false
}

func fxInDefer(stack []ast.Node) bool {
	for _, a := range stack {
		if _, ok := a.(*ast.DeferStmt); ok {
			return true
		}
	}
	return false
}

func (f *fxFunc) where(stack []ast.Node) string {
	if fxInFuncLit(stack) {
		return f.name + "·func"
	}
	return f.name
}

// ---------- the tables ----------

type fxOut struct {
	writes, pkgVarAssign, returns, filterInput, pool, parseWrapper, parserRefs, panics, assertions, index0, pkgVars fxTable
}

var fxReturnMethods = map[string]bool{"compute": true, "validate": true, "comparator": true, "getIndexes": true}
var fxPoolFuncs = map[string]bool{"getContainer": true, "getSortedKeys": true, "putContainer": true, "putSortSlice": true}

func (f *fxFunc) scan(out *fxOut) error {
	s := f.pkg.s
	fd := f.decl
	if fd.Body == nil {
		return nil
	}
	var firstErr error
	fail := func(err error) {
		if firstErr == nil {
			firstErr = err
		}
	}
	retNo := 0
	poolCount := map[string][2]int{}
	isReturnMethod := fd.Recv != nil && fxReturnMethods[fd.Name.Name]
	fxWalk(fd.Body, func(n ast.Node, stack []ast.Node) {
		switch n := n.(type) {
		case *ast.Ident:
			// every identifier must resolve (selector fields and composite-literal keys are skipped below)
			if len(stack) > 0 {
				switch par := stack[len(stack)-1].(type) {
				case *ast.SelectorExpr:
					if par.Sel == n {
						return
					}
				case *ast.KeyValueExpr:
					if par.Key == n {
						// a struct field key or a map key: only check when it is not inside a struct literal
						for i := len(stack) - 2; i >= 0; i-- {
							if cl, ok := stack[i].(*ast.CompositeLit); ok {
								if _, isMap := cl.Type.(*ast.MapType); !isMap {
									return
								}
								break
							}
						}
					}
				case *ast.BranchStmt, *ast.LabeledStmt:
					return
				}
			}
			if n.Name == "_" || f.isLocal(n.Name) {
				return
			}
			if f.global(n.Name) == "" {
				fail(s.bad(n, "identifier %s resolves to nothing", n.Name))
			}
		case *ast.AssignStmt:
			if n.Tok == token.DEFINE {
				return
			}
			for _, l := range n.Lhs {
				f.target(out, l, stack)
			}
		case *ast.IncDecStmt:
			f.target(out, n.X, stack)
		case *ast.RangeStmt:
			if n.Tok == token.ASSIGN {
				for _, e := range []ast.Expr{n.Key, n.Value} {
					if e != nil {
						f.target(out, e, stack)
					}
				}
			}
		case *ast.ReturnStmt:
			if isReturnMethod && !fxInFuncLit(stack) {
				retNo++
				for _, r := range n.Results {
					out.returns = append(out.returns, append([]string{f.name, fmt.Sprintf("%02d", retNo)}, fxSplit(f.classTop(r))...))
				}
			}
		case *ast.CallExpr:
			// panic(...)
			if id, ok := n.Fun.(*ast.Ident); ok && id.Name == "panic" && !f.isLocal("panic") && len(n.Args) == 1 {
				out.panics = append(out.panics, []string{f.where(stack), f.panicClass(n.Args[0])})
			}
			// pool functions
			if id, ok := n.Fun.(*ast.Ident); ok && fxPoolFuncs[id.Name] && !f.isLocal(id.Name) {
				c := poolCount[id.Name]
				c[0]++
				if fxInDefer(stack) {
					c[1]++
				}
				poolCount[id.Name] = c
			}
			// ….query.compute(root, X) in the filter qualifier
			if f.file == "syntax_node_qualifier_filter.go" {
				if sel, ok := n.Fun.(*ast.SelectorExpr); ok && sel.Sel.Name == "compute" {
					if inner, ok := sel.X.(*ast.SelectorExpr); ok && inner.Sel.Name == "query" {
						if len(n.Args) != 2 {
							fail(s.bad(n, "query.compute with %d arguments", len(n.Args)))
							return
						}
						out.filterInput = append(out.filterInput, append([]string{f.where(stack), s.str(n.Args[1])}, fxSplit(f.classTop(n.Args[1]))...))
					}
				}
			}
		case *ast.TypeAssertExpr:
			if n.Type == nil {
				return // type switch
			}
			if len(stack) > 0 {
				if as, ok := stack[len(stack)-1].(*ast.AssignStmt); ok && len(as.Lhs) == 2 && len(as.Rhs) == 1 && as.Rhs[0] == n {
					return // v, ok := x.(T)
				}
				if vs, ok := stack[len(stack)-1].(*ast.ValueSpec); ok && len(vs.Names) == 2 && len(vs.Values) == 1 {
					return
				}
			}
			out.assertions = append(out.assertions, []string{f.where(stack), s.str(n)})
		case *ast.IndexExpr:
			if lit, ok := n.Index.(*ast.BasicLit); ok && lit.Kind == token.INT && lit.Value == "0" {
				out.index0 = append(out.index0, []string{f.where(stack), s.str(n)})
			}
		}
	})
	var names []string
	for k := range poolCount {
		names = append(names, k)
	}
	sort.Strings(names)
	for _, k := range names {
		out.pool = append(out.pool, []string{f.name, k, fmt.Sprint(poolCount[k][0]), fmt.Sprint(poolCount[k][1])})
	}
	return firstErr
}

func (f *fxFunc) panicClass(e ast.Expr) string {
	switch x := e.(type) {
	case *ast.CompositeLit:
		return "lit:" + f.pkg.s.str(x.Type)
	case *ast.UnaryExpr:
		if cl, ok := x.X.(*ast.CompositeLit); ok && x.Op == token.AND {
			return "lit:&" + f.pkg.s.str(cl.Type)
		}
	case *ast.CallExpr:
		return "call:" + f.pkg.s.str(x.Fun)
	}
	return "expr:" + f.pkg.s.str(e)
}

// target records an assignment target.
func (f *fxFunc) target(out *fxOut, l ast.Expr, stack []ast.Node) {
	s := f.pkg.s
	for {
		p, ok := l.(*ast.ParenExpr)
		if !ok {
			break
		}
		l = p.X
	}
	base, kind := fxBase(l)
	if id, ok := l.(*ast.Ident); ok {
		if !f.isLocal(id.Name) && f.pkg.vars[id.Name] != "" {
			out.pkgVarAssign = append(out.pkgVarAssign, []string{f.where(stack), s.str(l)})
		}
		return
	}
	baseName, origin := "<none>", "expr"
	if base != nil {
		baseName = base.Name
		origin = f.origin(base.Name, 0)
		if origin == "" {
			origin = "unknown"
		}
		if !f.isLocal(base.Name) && f.pkg.vars[base.Name] != "" {
			out.pkgVarAssign = append(out.pkgVarAssign, []string{f.where(stack), s.str(l)})
		}
	}
	out.writes = append(out.writes, []string{f.where(stack), kind, s.str(l), baseName, origin})
}

// ---------- Parse wrapper ----------

// fxFree lists the identifiers used in a function literal that are not declared inside it.
func fxFree(fl *ast.FuncLit) []string {
	declared := map[string]bool{}
	ns, _ := tiFlatParams(fl.Type.Params)
	ns2, _ := tiFlatParams(fl.Type.Results)
	for _, n := range append(ns, ns2...) {
		declared[n] = true
	}
	ast.Inspect(fl.Body, func(n ast.Node) bool {
		switch n := n.(type) {
		case *ast.AssignStmt:
			if n.Tok == token.DEFINE {
				for _, l := range n.Lhs {
					if id, ok := l.(*ast.Ident); ok {
						declared[id.Name] = true
					}
				}
			}
		case *ast.ValueSpec:
			for _, id := range n.Names {
				declared[id.Name] = true
			}
		case *ast.RangeStmt:
			if n.Tok == token.DEFINE {
				for _, e := range []ast.Expr{n.Key, n.Value} {
					if id, ok := e.(*ast.Ident); ok {
						declared[id.Name] = true
					}
				}
			}
		case *ast.FuncLit:
			a, _ := tiFlatParams(n.Type.Params)
			b, _ := tiFlatParams(n.Type.Results)
			for _, nm := range append(a, b...) {
				declared[nm] = true
			}
		}
		return true
	})
	used := map[string]bool{}
	fxWalk(fl.Body, func(n ast.Node, stack []ast.Node) {
		id, ok := n.(*ast.Ident)
		if !ok || id.Name == "_" {
			return
		}
		if len(stack) > 0 {
			switch par := stack[len(stack)-1].(type) {
			case *ast.SelectorExpr:
				if par.Sel == id {
					return
				}
			case *ast.KeyValueExpr:
				if par.Key == id {
					return
				}
			}
		}
		if !declared[id.Name] {
			used[id.Name] = true
		}
	})
	var out []string
	for k := range used {
		out = append(out, k)
	}
	sort.Strings(out)
	return out
}

func (p *fxPkg) parseWrapper(out *fxOut) error {
	s := p.s
	file := "jsonpath.go"
	a := p.asts[file]
	if a == nil {
		return s.badFile(file, "missing")
	}
	var fd *ast.FuncDecl
	for _, d := range a.Decls {
		if d, ok := d.(*ast.FuncDecl); ok && d.Recv == nil && d.Name.Name == "Parse" {
			fd = d
		}
	}
	if fd == nil || fd.Body == nil || len(fd.Body.List) == 0 {
		return s.badFile(file, "func Parse not found")
	}
	f := p.newFunc(file, fd)
	row := func(r ...string) { out.parseWrapper = append(out.parseWrapper, r) }
	row("00-first-statement", s.str(fd.Body.List[0]))
	// defers directly in Parse's body (not inside the returned closure)
	var defers []*ast.DeferStmt
	var closures []*ast.FuncLit
	fxWalk(fd.Body, func(n ast.Node, stack []ast.Node) {
		switch n := n.(type) {
		case *ast.DeferStmt:
			if !fxInFuncLit(stack) {
				defers = append(defers, n)
			}
		case *ast.ReturnStmt:
			if !fxInFuncLit(stack) {
				for _, r := range n.Results {
					if fl, ok := r.(*ast.FuncLit); ok {
						closures = append(closures, fl)
					}
				}
			}
		}
	})
	row("01-defer-count", fmt.Sprint(len(defers)))
	for i, d := range defers {
		pos := "not-second-statement"
		if len(fd.Body.List) > 1 && fd.Body.List[1] == ast.Stmt(d) {
			pos = "second-statement"
		}
		fl, ok := d.Call.Fun.(*ast.FuncLit)
		if !ok {
			row("02-defer", fmt.Sprint(i), pos, "call:"+s.str(d.Call.Fun))
			continue
		}
		// order of the three things the model relies on, among the TOP-LEVEL statements of the deferred body
		var order []string
		for _, st := range fl.Body.List {
			txt := s.str(st)
			switch {
			case strings.Contains(txt, "recover()"):
				order = append(order, "recover")
			case txt == "parser.jsonPathParser = jsonPathParser{}":
				order = append(order, "reset")
			case txt == "parseMutex.Unlock()":
				order = append(order, "unlock")
			default:
				order = append(order, "other:"+txt)
			}
		}
		row("02-defer", fmt.Sprint(i), pos, strings.Join(order, ","))
		// what the recover branch assigns
		fxWalk(fl.Body, func(n ast.Node, stack []ast.Node) {
			if as, ok := n.(*ast.AssignStmt); ok && as.Tok == token.ASSIGN {
				for _, l := range as.Lhs {
					if id, ok := l.(*ast.Ident); ok {
						row("03-defer-assigns", id.Name, f.origin(id.Name, 0))
					}
				}
			}
		})
	}
	// every statement mentioning `config`, with the conditions guarding it
	fxWalk(fd.Body, func(n ast.Node, stack []ast.Node) {
		as, ok := n.(*ast.AssignStmt)
		if !ok {
			return
		}
		mentions := false
		for _, r := range as.Rhs {
			ast.Inspect(r, func(m ast.Node) bool {
				if id, ok := m.(*ast.Ident); ok && id.Name == "config" {
					mentions = true
				}
				return true
			})
		}
		if !mentions {
			return
		}
		var guards []string
		for i, anc := range stack {
			if is, ok := anc.(*ast.IfStmt); ok {
				// only when we are in the then-branch
				if i+1 < len(stack) && stack[i+1] == ast.Node(is.Body) {
					guards = append(guards, s.str(is.Cond))
				} else {
					guards = append(guards, "else-of:"+s.str(is.Cond))
				}
			}
		}
		g := strings.Join(guards, " && ")
		if g == "" {
			g = "<unguarded>"
		}
		row("04-config-copy", s.str(as), g)
	})
	// other uses of `config` (e.g. the guard itself, passing it on)
	row("05-closure-count", fmt.Sprint(len(closures)))
	for _, fl := range closures {
		for _, name := range fxFree(fl) {
			kind := ""
			if f.isLocal(name) {
				kind = "local-of-Parse:" + f.origin(name, 0)
			} else {
				kind = f.global(name)
				if kind == "" {
					return s.bad(fl, "identifier %s in the returned closure resolves to nothing", name)
				}
			}
			if kind == "universe" || kind == "type" {
				continue
			}
			row("06-closure-uses", name, kind)
		}
	}
	// statements of Parse between the defer and the return, as text (the sequence the model's parseCall follows)
	for i, st := range fd.Body.List {
		txt := s.str(st)
		if len(txt) > 60 {
			txt = txt[:60] + "…"
		}
		row("07-statement", fmt.Sprintf("%02d", i), txt)
	}
	return nil
}

// parserRefs: every mention of the package variable `parser`, as the longest selector/call chain around it.
func (p *fxPkg) parserRefs(out *fxOut) {
	for _, file := range p.files {
		for _, d := range p.asts[file].Decls {
			fd, ok := d.(*ast.FuncDecl)
			if !ok || fd.Body == nil {
				continue
			}
			f := p.newFunc(file, fd)
			if f.isLocal("parser") {
				continue
			}
			fxWalk(fd.Body, func(n ast.Node, stack []ast.Node) {
				id, ok := n.(*ast.Ident)
				if !ok || id.Name != "parser" {
					return
				}
				if len(stack) > 0 {
					if sel, ok := stack[len(stack)-1].(*ast.SelectorExpr); ok && sel.Sel == id {
						return
					}
				}
				var top ast.Node = id
				for i := len(stack) - 1; i >= 0; i-- {
					switch a := stack[i].(type) {
					case *ast.SelectorExpr:
						top = a
						continue
					case *ast.CallExpr:
						if a.Fun == top {
							top = a
							continue
						}
					}
					break
				}
				role := "read"
				if len(stack) > 0 {
					for i := len(stack) - 1; i >= 0; i-- {
						if as, ok := stack[i].(*ast.AssignStmt); ok {
							for _, l := range as.Lhs {
								if l == top {
									role = "write"
								}
							}
							break
						}
					}
				}
				out.parserRefs = append(out.parserRefs, []string{f.where(stack), role, p.s.str(top)})
			})
		}
	}
}

func genFacts(repo, outDir string) error {
	p, err := fxLoad(repo)
	if err != nil {
		return err
	}
	hdr, err := p.s.header("facts", p.files, "Structural facts (tie T2). Rows are lists of strings; every table is sorted. See facts.go for the vocabulary.")
	if err != nil {
		return err
	}
	out := &fxOut{}
	for _, file := range p.files {
		for _, d := range p.asts[file].Decls {
			fd, ok := d.(*ast.FuncDecl)
			if !ok {
				continue
			}
			f := p.newFunc(file, fd)
			if err := f.scan(out); err != nil {
				return err
			}
		}
	}
	if err := p.parseWrapper(out); err != nil {
		return err
	}
	p.parserRefs(out)
	var vnames []string
	for n, init := range p.vars {
		if !strings.HasPrefix(init, "<declared in ") {
			vnames = append(vnames, n)
		}
	}
	sort.Strings(vnames)
	for _, n := range vnames {
		out.pkgVars = append(out.pkgVars, []string{n, p.vars[n]})
	}
	var b strings.Builder
	b.WriteString(hdr)
	b.WriteString("import JPV.Ties.Types\nnamespace JPV.Gen.Facts\nopen JPV.Ties\n\n")
	b.WriteString(out.writes.unique().lean("writes", "[func, kind, lhs, base, origin of base]: every assignment through an index, a field or a pointer"))
	b.WriteString(out.pkgVarAssign.unique().lean("pkgVarAssign", "[func, lhs]: every assignment to (or through) a package-level variable"))
	b.WriteString(out.returns.sorted().lean("returns", "[method, ordinal of the return statement, class of the returned expression, detail]"))
	b.WriteString(out.filterInput.sorted().lean("filterInput", "[func, second argument of f.query.compute, its class, detail]"))
	b.WriteString(out.pool.sorted().lean("pool", "[func, pool function, number of calls, of which inside a defer]"))
	b.WriteString(out.parseWrapper.sorted().lean("parseWrapper", "shape of Parse (jsonpath.go)"))
	b.WriteString(out.parserRefs.unique().lean("parserRefs", "[func, read/write, expression]: every mention of the package variable `parser`"))
	b.WriteString(out.panics.counted().lean("panics", "[func, class of the argument, count]: every panic(…)"))
	b.WriteString(out.assertions.counted().lean("assertions", "[func, expression, count]: single-valued type assertions"))
	b.WriteString(out.index0.counted().lean("index0", "[func, expression, count]: index expressions X[0]"))
	b.WriteString(out.pkgVars.sorted().lean("pkgVars", "[name, type and initialiser]: package-level variables"))
	b.WriteString("end JPV.Gen.Facts\n")
	return tiWrite(outDir, "Facts.lean", b.String())
}
