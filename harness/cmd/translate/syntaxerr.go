// syntaxerr.go — generator "syntaxerr": jsonpath_parser.go `(*jsonPathParser).syntaxErr` as a Lean
// function (lean/JPV/Gen/SyntaxErrGo.lean, tie T1; consumed by Props/SyntaxErrGen.lean).
//
// The body is translated statement by statement, following the control flow (no closed form), into
// a `do` block in `Option` (`none` = a Go panic) over the vocabulary of lean/JPV/Peg/GoString.lean:
// a Go string is its bytes (`Bytes`), Go `int` is `Int`, `for K := range buffer` is
// `forRange (rangeStarts buffer)` over the state of the variables the body assigns, `break` is
// `Step.brk`, `buffer[off:]` is `sliceFrom buffer off`.
//
// Accepted shapes, exactly (P, R, B the three parameters in source order; locals are Go `int`):
//
//	func (recv *jsonPathParser) syntaxErr(P int, R string, B string) error { DECL* ; LOOP? ; RETURN }
//	      declared exactly once, pointer receiver, one unnamed result `error`; the body must not
//	      mention the receiver
//	DECL  a, b := E1, E2                 let (a, b) := (E1', E2')        (all names new)
//	      a := E                         let a := E'
//	      a = E                          let a := E'                     (a an int local)
//	      a++ | a--                      let a := a + 1 | a - 1
//	      a += E | a -= E                let a := a + E' | a - E'
//	IEXPR int local | P | K (inside the loop only) | non-negative int literal | len(B) (len B)
//	      | IEXPR + IEXPR | IEXPR - IEXPR (a nested binary operand is parenthesised) | (IEXPR)
//	      a literal on its own is written `(n : Int)`
//	COND  IEXPR (==|!=|<|<=|>|>=) IEXPR  =  ≠  <  ≤  >  ≥
//	LOOP  for K := range B { BODY }      let STATE := forRange (rangeStarts B) STATE (fun st K =>
//	                                       let STATE := st … )
//	      key only (value absent or `_`), `:=`, K a new name; STATE = the int locals assigned anywhere
//	      in BODY, in the order of their declaration (one variable: no tuple; none: refused)
//	BODY  a chain of
//	      simple assignment (the non-declaring DECL forms)   let a := …
//	      if COND { simple assignments… ; break }            if COND' then lets… Step.brk STATE else <rest>
//	      if COND { simple assignments… }                    let STATE := if COND' then lets… STATE else STATE
//	      break            (last statement only)             Step.brk STATE
//	      end of the body                                    Step.next STATE
//	      no else, no init, no continue, no label, no nested loop, no return, no declaration
//	RETURN return ErrorInvalidSyntax{position: IEXPR, reason: R, near: B[IEXPR:]}
//	      keyed, exactly these three keys once each (any order; written position, reason, near);
//	      the slice has a low bound only:    let near_ ← sliceFrom B IEXPR'
//	                                         pure { position := …, reason := R, near := near_ }
//
// Names that are Lean keywords or belong to the vocabulary (len, forRange, st, near_, …), `_`,
// non-ASCII names, and shadowing of a parameter or an earlier local are refused.
// Anything else stops with `untranslatable: jsonpath_parser.go:line: why`.
package main

import (
	"fmt"
	"go/ast"
	"go/token"
	"strconv"
	"strings"
)

func init() { register("syntaxerr", genSyntaxErr) }

type seEnv struct {
	s                   *tiSrc
	pos, reason, buffer string
	locals              []string // int locals in the order of their declaration
	idx                 string   // range variable, "" outside the loop
	key                 string   // range variable of the loop once translated ("index" when there is no loop)
}

var seReserved = map[string]bool{
	// vocabulary of JPV/Peg/GoString.lean and of the generated file
	"len": true, "forRange": true, "rangeStarts": true, "rangeFrom": true, "sliceFrom": true, "Step": true,
	"st": true, "near_": true, "Bytes": true, "isCont": true, "firstInfo": true, "runeWidth": true,
	"utf8Bytes": true, "ErrorInvalidSyntax": true, "syntaxErr": true,
	// Lean
	"at": true, "by": true, "do": true, "else": true, "end": true, "from": true, "fun": true, "have": true,
	"if": true, "in": true, "let": true, "match": true, "then": true, "with": true, "show": true,
	"def": true, "theorem": true, "where": true, "open": true, "namespace": true, "section": true,
	"pure": true, "some": true, "none": true, "return": true, "mut": true, "for": true, "List": true,
	"Nat": true, "Int": true, "String": true, "Option": true, "Type": true, "Prop": true, "Sort": true,
	"structure": true, "inductive": true, "instance": true, "class": true, "import": true, "abbrev": true,
	"example": true, "lemma": true, "variable": true, "universe": true, "deriving": true, "extends": true,
	"using": true, "then_": true, "nomatch": true, "nofun": true, "unless": true, "try": true, "catch": true,
	"finally": true, "break": true, "continue": true, "suffices": true, "calc": true, "obtain": true,
	"true": true, "false": true, "True": true, "False": true, "private": true, "protected": true,
	"partial": true, "unsafe": true, "noncomputable": true, "mutual": true, "macro": true, "syntax": true,
	"notation": true, "infix": true, "infixl": true, "infixr": true, "prefix": true, "postfix": true,
	"set_option": true, "attribute": true, "local": true, "scoped": true, "export": true, "axiom": true,
	"opaque": true, "termination_by": true, "decreasing_by": true, "id": true,
}

func (e *seEnv) name(id *ast.Ident) (string, error) {
	if seReserved[id.Name] || id.Name == "_" || strings.ContainsAny(id.Name, "'.") {
		return "", e.s.bad(id, "identifier %q cannot be used as a Lean variable here", id.Name)
	}
	for _, r := range id.Name {
		if r > 0x7f {
			return "", e.s.bad(id, "non-ASCII identifier %q", id.Name)
		}
	}
	return id.Name, nil
}

func (e *seEnv) isLocal(n string) bool {
	for _, l := range e.locals {
		if l == n {
			return true
		}
	}
	return false
}

func (e *seEnv) taken(n string) bool {
	return n == e.pos || n == e.reason || n == e.buffer || n == e.idx || e.isLocal(n)
}

// fresh: id can be declared here (a legal name, not shadowing anything).
func (e *seEnv) fresh(id *ast.Ident) (string, error) {
	n, err := e.name(id)
	if err != nil {
		return "", err
	}
	if e.taken(n) {
		return "", e.s.bad(id, "%s declared twice or shadowing", n)
	}
	return n, nil
}

func seUnparen(x ast.Expr) ast.Expr {
	for {
		p, ok := x.(*ast.ParenExpr)
		if !ok {
			return x
		}
		x = p.X
	}
}

// seAllLit: the expression has no variable in it (its literals then need a type ascription).
func seAllLit(x ast.Expr) bool {
	switch t := seUnparen(x).(type) {
	case *ast.BasicLit:
		return true
	case *ast.BinaryExpr:
		return seAllLit(t.X) && seAllLit(t.Y)
	}
	return false
}

// shape of a translated IEXPR: an atom, a function application (`len B`: parenthesised as an
// argument, not as an operand), or a binary expression (parenthesised as an operand or argument)
const (
	seAtom = iota
	seApp
	seBinary
)

// iexpr translates an IEXPR; ascribe: the leftmost literal is written `(n : Int)`.
func (e *seEnv) iexpr(x ast.Expr, ascribe bool) (str string, shape int, err error) {
	x = seUnparen(x)
	switch t := x.(type) {
	case *ast.Ident:
		if e.isLocal(t.Name) || t.Name == e.pos || (e.idx != "" && t.Name == e.idx) {
			return t.Name, seAtom, nil
		}
		return "", seAtom, e.s.bad(x, "identifier %s is not an int variable of the subset", t.Name)
	case *ast.BasicLit:
		if t.Kind != token.INT {
			return "", seAtom, e.s.bad(x, "literal %s outside the subset", t.Value)
		}
		n, perr := strconv.ParseUint(t.Value, 0, 62)
		if perr != nil {
			return "", seAtom, e.s.bad(x, "integer literal %s outside the subset", t.Value)
		}
		if ascribe {
			return fmt.Sprintf("(%d : Int)", n), seAtom, nil
		}
		return strconv.FormatUint(n, 10), seAtom, nil
	case *ast.CallExpr:
		if tiIsIdent(t.Fun, "len") && len(t.Args) == 1 && t.Ellipsis == token.NoPos && tiIsIdent(t.Args[0], e.buffer) {
			return "len " + e.buffer, seApp, nil
		}
	case *ast.BinaryExpr:
		var op string
		switch t.Op {
		case token.ADD:
			op = "+"
		case token.SUB:
			op = "-"
		default:
			return "", seAtom, e.s.bad(x, "operator %s outside the subset", t.Op)
		}
		l, lb, err := e.iexpr(t.X, ascribe)
		if err != nil {
			return "", seAtom, err
		}
		r, rb, err := e.iexpr(t.Y, false)
		if err != nil {
			return "", seAtom, err
		}
		if lb == seBinary {
			l = "(" + l + ")"
		}
		if rb == seBinary {
			r = "(" + r + ")"
		}
		return l + " " + op + " " + r, seBinary, nil
	}
	return "", seAtom, e.s.bad(x, "integer expression %s outside the subset", e.s.str(x))
}

// top: an IEXPR standing on its own (right side of a let, field value).
func (e *seEnv) top(x ast.Expr) (string, error) {
	str, _, err := e.iexpr(x, seAllLit(x))
	return str, err
}

// arg: an IEXPR as a function argument or the right operand of a compound assignment.
func (e *seEnv) arg(x ast.Expr) (string, error) {
	str, shape, err := e.iexpr(x, seAllLit(x))
	if err == nil && shape != seAtom {
		str = "(" + str + ")"
	}
	return str, err
}

func (e *seEnv) cond(x ast.Expr) (string, error) {
	b, ok := seUnparen(x).(*ast.BinaryExpr)
	if !ok {
		return "", e.s.bad(x, "condition %s outside the subset", e.s.str(x))
	}
	var op string
	switch b.Op {
	case token.LSS:
		op = "<"
	case token.LEQ:
		op = "≤"
	case token.GTR:
		op = ">"
	case token.GEQ:
		op = "≥"
	case token.EQL:
		op = "="
	case token.NEQ:
		op = "≠"
	default:
		return "", e.s.bad(x, "condition operator %s outside the subset", b.Op)
	}
	l, _, err := e.iexpr(b.X, seAllLit(b.X) && seAllLit(b.Y))
	if err != nil {
		return "", err
	}
	r, _, err := e.iexpr(b.Y, false)
	if err != nil {
		return "", err
	}
	return fmt.Sprintf("%s %s %s", l, op, r), nil
}

// assign: a simple (non-declaring) assignment to an int local; the variable and its `let` line.
func (e *seEnv) assign(st ast.Stmt) (v, line string, err error) {
	target := func(x ast.Expr) (string, error) {
		id, ok := x.(*ast.Ident)
		if !ok || !e.isLocal(id.Name) {
			return "", e.s.bad(st, "assignment to %s, which is not an int local", e.s.str(x))
		}
		return id.Name, nil
	}
	switch t := st.(type) {
	case *ast.IncDecStmt:
		v, err = target(t.X)
		if err != nil {
			return "", "", err
		}
		op := "+"
		if t.Tok == token.DEC {
			op = "-"
		}
		return v, fmt.Sprintf("let %s := %s %s 1", v, v, op), nil
	case *ast.AssignStmt:
		if len(t.Lhs) != 1 || len(t.Rhs) != 1 {
			return "", "", e.s.bad(st, "multiple assignment")
		}
		switch t.Tok {
		case token.ASSIGN:
			v, err = target(t.Lhs[0])
			if err != nil {
				return "", "", err
			}
			val, err := e.top(t.Rhs[0])
			if err != nil {
				return "", "", err
			}
			return v, fmt.Sprintf("let %s := %s", v, val), nil
		case token.ADD_ASSIGN, token.SUB_ASSIGN:
			v, err = target(t.Lhs[0])
			if err != nil {
				return "", "", err
			}
			val, err := e.arg(t.Rhs[0])
			if err != nil {
				return "", "", err
			}
			op := "+"
			if t.Tok == token.SUB_ASSIGN {
				op = "-"
			}
			return v, fmt.Sprintf("let %s := %s %s %s", v, v, op, val), nil
		case token.DEFINE:
			return "", "", e.s.bad(st, "declaration inside the loop")
		}
		return "", "", e.s.bad(st, "assignment operator %s outside the subset", t.Tok)
	}
	return "", "", e.s.bad(st, "statement %s outside the subset", e.s.str(st))
}

// decl: a top-level DECL.
func (e *seEnv) decl(st ast.Stmt) (string, error) {
	t, ok := st.(*ast.AssignStmt)
	if !ok || t.Tok != token.DEFINE {
		_, line, err := e.assign(st)
		return line, err
	}
	if len(t.Lhs) != len(t.Rhs) || len(t.Lhs) == 0 {
		return "", e.s.bad(st, "declaration %s outside the subset", e.s.str(st))
	}
	var vals []string
	for _, r := range t.Rhs { // all right sides first: they cannot see the new names
		v, err := e.top(r)
		if err != nil {
			return "", err
		}
		vals = append(vals, v)
	}
	var names []string
	for _, l := range t.Lhs {
		id, ok := l.(*ast.Ident)
		if !ok {
			return "", e.s.bad(st, "left side %s", e.s.str(l))
		}
		n, err := e.fresh(id)
		if err != nil {
			return "", err
		}
		for _, m := range names {
			if m == n {
				return "", e.s.bad(id, "%s declared twice", n)
			}
		}
		names = append(names, n)
	}
	e.locals = append(e.locals, names...)
	if len(names) == 1 {
		return fmt.Sprintf("let %s := %s", names[0], vals[0]), nil
	}
	return fmt.Sprintf("let (%s) := (%s)", strings.Join(names, ", "), strings.Join(vals, ", ")), nil
}

// assignedIn: the int locals assigned anywhere in the statements, in declaration order.
func (e *seEnv) assignedIn(list []ast.Stmt) []string {
	hit := map[string]bool{}
	note := func(x ast.Expr) {
		if id, ok := x.(*ast.Ident); ok && e.isLocal(id.Name) {
			hit[id.Name] = true
		}
	}
	for _, st := range list {
		ast.Inspect(st, func(n ast.Node) bool {
			switch t := n.(type) {
			case *ast.AssignStmt:
				for _, l := range t.Lhs {
					note(l)
				}
			case *ast.IncDecStmt:
				note(t.X)
			}
			return true
		})
	}
	var out []string
	for _, l := range e.locals {
		if hit[l] {
			out = append(out, l)
		}
	}
	return out
}

func seIndent(ls []string, by string) []string {
	out := make([]string, len(ls))
	for i, l := range ls {
		out[i] = by + l
	}
	return out
}

// body translates the statements of the loop body to the lines of a term of type `Step σ`.
func (e *seEnv) body(list []ast.Stmt, state string) ([]string, error) {
	var out []string
	for i, st := range list {
		switch t := st.(type) {
		case *ast.BranchStmt:
			if t.Tok != token.BREAK || t.Label != nil {
				return nil, e.s.bad(st, "statement %s outside the subset", e.s.str(st))
			}
			if i != len(list)-1 {
				return nil, e.s.bad(list[i+1], "statement after break (unreachable)")
			}
			return append(out, "Step.brk "+state), nil
		case *ast.IfStmt:
			if t.Init != nil || t.Else != nil {
				return nil, e.s.bad(st, "if with init or else")
			}
			c, err := e.cond(t.Cond)
			if err != nil {
				return nil, err
			}
			inner := t.Body.List
			breaks := false
			if n := len(inner); n > 0 {
				if br, ok := inner[n-1].(*ast.BranchStmt); ok {
					if br.Tok != token.BREAK || br.Label != nil {
						return nil, e.s.bad(br, "statement %s outside the subset", e.s.str(br))
					}
					breaks = true
					inner = inner[:n-1]
				}
			}
			if !breaks && len(inner) == 0 {
				return nil, e.s.bad(st, "if with an empty body")
			}
			var lets []string
			for _, in := range inner {
				_, line, err := e.assign(in)
				if err != nil {
					return nil, err
				}
				lets = append(lets, line)
			}
			if breaks {
				out = append(out, "if "+c+" then")
				out = append(out, seIndent(lets, "  ")...)
				out = append(out, "  Step.brk "+state, "else")
				continue // the rest of the body is the else branch, at the same indentation
			}
			out = append(out, "let "+state+" :=", "  if "+c+" then")
			out = append(out, seIndent(lets, "    ")...)
			out = append(out, "    "+state, "  else "+state)
		default:
			_, line, err := e.assign(st)
			if err != nil {
				return nil, err
			}
			out = append(out, line)
		}
	}
	return append(out, "Step.next "+state), nil
}

func (e *seEnv) loop(t *ast.RangeStmt) ([]string, error) {
	k, ok := t.Key.(*ast.Ident)
	if !ok || t.Tok != token.DEFINE || !tiIsIdent(t.X, e.buffer) || (t.Value != nil && !tiIsIdent(t.Value, "_")) {
		return nil, e.s.bad(t, "loop header outside the subset (want `for K := range %s`)", e.buffer)
	}
	kn, err := e.fresh(k)
	if err != nil {
		return nil, err
	}
	upd := e.assignedIn(t.Body.List)
	if len(upd) == 0 {
		return nil, e.s.bad(t, "loop without effect")
	}
	state := upd[0]
	if len(upd) > 1 {
		state = "(" + strings.Join(upd, ", ") + ")"
	}
	e.idx, e.key = kn, kn
	body, err := e.body(t.Body.List, state)
	e.idx = ""
	if err != nil {
		return nil, err
	}
	out := []string{fmt.Sprintf("let %s := forRange (rangeStarts %s) %s (fun st %s =>", state, e.buffer, state, kn)}
	out = append(out, "  let "+state+" := st")
	out = append(out, seIndent(body, "  ")...)
	out[len(out)-1] += ")"
	return out, nil
}

func (e *seEnv) ret(st ast.Stmt) ([]string, error) {
	r, ok := st.(*ast.ReturnStmt)
	if !ok || len(r.Results) != 1 {
		return nil, e.s.bad(st, "the last statement must be `return ErrorInvalidSyntax{…}`")
	}
	cl, ok := r.Results[0].(*ast.CompositeLit)
	if !ok || !tiIsIdent(cl.Type, "ErrorInvalidSyntax") {
		return nil, e.s.bad(st, "the last statement must be `return ErrorInvalidSyntax{…}`")
	}
	field := map[string]ast.Expr{}
	for _, el := range cl.Elts {
		kv, ok := el.(*ast.KeyValueExpr)
		if !ok {
			return nil, e.s.bad(el, "unkeyed field in the ErrorInvalidSyntax literal")
		}
		key, ok := kv.Key.(*ast.Ident)
		if !ok || (key.Name != "position" && key.Name != "reason" && key.Name != "near") {
			return nil, e.s.bad(el, "field %s outside the subset", e.s.str(kv.Key))
		}
		if field[key.Name] != nil {
			return nil, e.s.bad(el, "field %s given twice", key.Name)
		}
		field[key.Name] = kv.Value
	}
	for _, k := range []string{"position", "reason", "near"} {
		if field[k] == nil {
			return nil, e.s.bad(cl, "field %s missing in the ErrorInvalidSyntax literal", k)
		}
	}
	position, err := e.top(field["position"])
	if err != nil {
		return nil, err
	}
	if !tiIsIdent(field["reason"], e.reason) {
		return nil, e.s.bad(field["reason"], "reason must be the parameter %s", e.reason)
	}
	se, ok := field["near"].(*ast.SliceExpr)
	if !ok || !tiIsIdent(se.X, e.buffer) || se.Low == nil || se.High != nil || se.Max != nil || se.Slice3 {
		return nil, e.s.bad(field["near"], "near must be %s[IEXPR:]", e.buffer)
	}
	low, err := e.arg(se.Low)
	if err != nil {
		return nil, err
	}
	return []string{
		fmt.Sprintf("let near_ ← sliceFrom %s %s", e.buffer, low),
		fmt.Sprintf("pure { position := %s, reason := %s, near := near_ }", position, e.reason),
	}, nil
}

func genSyntaxErr(repo, out string) error {
	s := tiNew(repo)
	// syntaxErr declares `byteOffset, runeCount := len(buffer), 0`: keep short declarations and
	// len locals as written
	s.norm.keepIntShort = true
	s.norm.keepLenLocals = true
	s.norm.joinDefs = true // canonical: `byteOffset, runeCount := len(buffer), 0` in one statement
	const file = "jsonpath_parser.go"
	f, err := s.parse(file)
	if err != nil {
		return err
	}
	var fd *ast.FuncDecl
	for _, d := range f.Decls {
		if x, ok := d.(*ast.FuncDecl); ok && x.Name.Name == "syntaxErr" {
			if fd != nil {
				return s.bad(x, "syntaxErr declared twice")
			}
			fd = x
		}
	}
	if fd == nil {
		return s.badFile(file, "method syntaxErr not found")
	}
	typ, recv, ptr := tiRecvType(fd)
	if typ != "jsonPathParser" || !ptr || fd.Body == nil || fd.Type.TypeParams != nil {
		return s.bad(fd, "syntaxErr must be a method with receiver *jsonPathParser")
	}
	var pids []*ast.Ident
	var ptypes []ast.Expr
	for _, fl := range fd.Type.Params.List {
		if len(fl.Names) == 0 {
			return s.bad(fd, "syntaxErr must take three named parameters")
		}
		for _, n := range fl.Names {
			pids = append(pids, n)
			ptypes = append(ptypes, fl.Type)
		}
	}
	if len(pids) != 3 || !tiIsIdent(ptypes[0], "int") || !tiIsIdent(ptypes[1], "string") || !tiIsIdent(ptypes[2], "string") {
		return s.bad(fd, "syntaxErr must take (int, string, string)")
	}
	rnames, rtypes := tiFlatParams(fd.Type.Results)
	if len(rtypes) != 1 || rnames[0] != "" || !tiIsIdent(rtypes[0], "error") {
		return s.bad(fd, "syntaxErr must return one unnamed error")
	}
	e := &seEnv{s: s, key: "index"}
	var pn [3]string
	for i, id := range pids {
		if pn[i], err = e.name(id); err != nil {
			return err
		}
		for j := 0; j < i; j++ {
			if pn[j] == pn[i] {
				return s.bad(id, "parameter %s declared twice", pn[i])
			}
		}
	}
	e.pos, e.reason, e.buffer = pn[0], pn[1], pn[2]
	if recv != "" && recv != "_" {
		if e.taken(recv) {
			return s.bad(fd, "receiver %s shadowed by a parameter", recv)
		}
		var hit ast.Node
		ast.Inspect(fd.Body, func(n ast.Node) bool {
			if id, ok := n.(*ast.Ident); ok && id.Name == recv && hit == nil {
				hit = id
			}
			return hit == nil
		})
		if hit != nil {
			return s.bad(hit, "the receiver %s is used", recv)
		}
	}
	list := fd.Body.List
	if len(list) == 0 {
		return s.bad(fd, "empty body")
	}
	var lines []string
	seenLoop := false
	for _, st := range list[:len(list)-1] {
		if rs, ok := st.(*ast.RangeStmt); ok {
			if seenLoop {
				return s.bad(st, "a second loop")
			}
			seenLoop = true
			ls, err := e.loop(rs)
			if err != nil {
				return err
			}
			lines = append(lines, ls...)
			continue
		}
		if seenLoop {
			return s.bad(st, "statement between the loop and the return")
		}
		l, err := e.decl(st)
		if err != nil {
			return err
		}
		lines = append(lines, l)
	}
	rl, err := e.ret(list[len(list)-1])
	if err != nil {
		return err
	}
	lines = append(lines, rl...)

	hdr, err := s.header("syntaxerr", []string{file},
		"`(*jsonPathParser).syntaxErr` (jsonpath_parser.go), statement by statement, following the control flow.\n"+
			"A Go string is taken at the level of its bytes (`Bytes`, not necessarily valid UTF-8); Go `int` is\n"+
			"`Int`. `forRange (rangeStarts "+e.buffer+")` models `for "+e.key+" := range "+e.buffer+"`: the loop body as a\n"+
			"function of the state of the variables it assigns and of the index, run over the byte offsets at\n"+
			"which the range loop starts a rune; `Step.next` = fall through to the next iteration, `Step.brk` =\n"+
			"`break`. `sliceFrom "+e.buffer+" off` = `"+e.buffer+"[off:]`, with `none` = the Go panic (slice bounds out of\n"+
			"range). Vocabulary: JPV/Peg/GoString.lean (hand-written, validated against the Go runtime by the\n"+
			"C17 runner).")
	if err != nil {
		return err
	}
	var b strings.Builder
	b.WriteString(hdr)
	b.WriteString("import JPV.Peg.GoString\nset_option linter.unusedVariables false\nnamespace JPV\nnamespace Gen\nnamespace SyntaxErrGo\nopen JPV.GoString\n\n")
	b.WriteString("/-- the fields of `ErrorInvalidSyntax` that `syntaxErr` fills; `reason` is passed through untouched, so\n    its type is a parameter -/\n")
	b.WriteString("structure ErrorInvalidSyntax (ρ : Type) where\n  position : Int\n  reason : ρ\n  near : Bytes\n\n")
	fmt.Fprintf(&b, "/-- %s:%d -/\n", file, s.line(fd))
	fmt.Fprintf(&b, "def syntaxErr {ρ : Type} (%s : Int) (%s : ρ) (%s : Bytes) : Option (ErrorInvalidSyntax ρ) := do\n", e.pos, e.reason, e.buffer)
	for _, l := range lines {
		b.WriteString("  " + l + "\n")
	}
	b.WriteString("\nend SyntaxErrGo\nend Gen\nend JPV\n")
	return tiWrite(out, "SyntaxErrGo.lean", b.String())
}
