// slices.go — generator "slices": the index / slice / wildcard subscript arithmetic of
// /repo as Lean definitions (lean/JPV/Gen/SliceGo.lean, tie T1 for property C11).
//
// What is read: the struct declarations and every method of
//
//	syntaxIndexSubscript, syntaxSlicePositiveStepSubscript,
//	syntaxSliceNegativeStepSubscript, syntaxWildcardSubscript
//
// in the four files named in sliceFiles. What is written: one Lean function per method whose
// body is a statement-by-statement transcription of the Go body:
//
//	Go `int`                      Lean `Int`; every + - (binary), unary -, += -= ++ -- goes through `wrap64`
//	x := e / x = e / x op= e      `let x := …` (shadowing)
//	if c { … } (no return inside) `let (assigned vars) := if c then … else …`
//	if c { …; return e }          `if c then … else <rest of the function>`
//	for i := a; c; post { body }  an auxiliary function recursive on `fuel : Nat` over the tuple of variables
//	                              assigned in the loop; fuel 0 ⇒ `.error .outOfFuel`
//	make([]int, n)                `mkSlice n`   (length-n list of zeros; negative n ⇒ error)
//	r[i] = e                      `setIdx r i e` (0 ≤ i < len r, else `.error .indexOutOfRange`)
//	r[:i]                         `takeChecked r i` (0 ≤ i ≤ len r, else `.error .indexOutOfRange`)
//	[]int{…}                      a list literal
//	s.f.number / s.f.isOmitted    fields of `Bound` (`number`, `omitted`)
//
// Methods without loops, index writes, slicing or make are emitted as plain functions, the others in
// `Except Impl.Panic`. Anything else — other statements, operators, types, shadowing, calls to
// anything but methods of the same receiver — stops the generator with
// `untranslatable: <file>:<line>: <why>`; nothing is guessed and nothing is defaulted.
package main

import (
	"crypto/sha256"
	"fmt"
	"go/ast"
	"go/parser"
	"go/token"
	"os"
	"path/filepath"
	"strconv"
	"strings"
)

func init() { register("slices", genSlices) }

var sliceFiles = []string{
	"syntax_subscript_index.go",
	"syntax_subscript_slice_positive_step.go",
	"syntax_subscript_slice_negative_step.go",
	"syntax_subscript_wildcard.go",
}

// Go struct type -> Lean namespace of its methods (and, except for the index subscript, Lean structure name)
var sliceTypes = []struct{ goName, lean string }{
	{"syntaxIndexSubscript", "Index"},
	{"syntaxSlicePositiveStepSubscript", "SlicePositiveStep"},
	{"syntaxSliceNegativeStepSubscript", "SliceNegativeStep"},
	{"syntaxWildcardSubscript", "Wildcard"},
}

const (
	slTyInt   = "Int"
	slTyBool  = "Bool"
	slTyList  = "List Int"
	slTyBound = "Bound"
)

type slField struct {
	goName, lean, ty string
}

type slStruct struct {
	goName, lean string
	leanTy       string // Lean type of a receiver value
	fields       []slField
	file         string
	line         int
}

type slParam struct{ name, ty string }

type slMethod struct {
	st       *slStruct
	recv     string // "" when unnamed
	name     string
	params   []slParam
	ret      string
	decl     *ast.FuncDecl
	file     string
	impure   bool
	fuel     bool
	leanName string
}

type slGen struct {
	fset    *token.FileSet
	structs map[string]*slStruct // by Go name
	methods map[string]*slMethod // by Go "Type.method"
	order   []*slMethod
}

type slErr struct{ msg string }

func (e *slErr) Error() string { return e.msg }

func (g *slGen) bad(n ast.Node, why string, args ...interface{}) error {
	p := g.fset.Position(n.Pos())
	return &slErr{fmt.Sprintf("untranslatable: %s:%d: %s", filepath.Base(p.Filename), p.Line, fmt.Sprintf(why, args...))}
}

var leanReserved = map[string]bool{}

func init() {
	for _, w := range strings.Fields(`abbrev at axiom break by calc catch class continue def deriving do else end example
		export extends finally for from fun have if import in inductive infix infixl infixr instance let macro match mut mutual
		namespace nomatch nofun notation obtain open opaque partial postfix prefix private protected return section show
		structure suffices syntax then theorem try universe unless unsafe using variable where while with
		Type Sort Prop Int Nat Bool List Except`) {
		leanReserved[w] = true
	}
}

// names the generated text uses itself: a Go variable of that name would capture them
var slOwnNames = map[string]bool{"fuel": true, "wrap64": true, "setIdx": true, "mkSlice": true,
	"takeChecked": true, "pure": true, "getIndexes": true, "Bound": true, "SubI": true, "Impl": true}

func (g *slGen) ident(id *ast.Ident) (string, error) {
	if slOwnNames[id.Name] || id.Name == "_" {
		return "", g.bad(id, "identifier %q clashes with a name the generated text uses", id.Name)
	}
	for _, r := range id.Name {
		if !(r == '_' || r >= '0' && r <= '9' || r >= 'a' && r <= 'z' || r >= 'A' && r <= 'Z') {
			return "", g.bad(id, "identifier %q: only ASCII letters, digits, _", id.Name)
		}
	}
	if leanReserved[id.Name] {
		return id.Name + "_", nil
	}
	return id.Name, nil
}

func genSlices(repo, out string) error {
	// fail closed: a stale file from an earlier run must not survive a failed translation
	if err := os.Remove(filepath.Join(out, "SliceGo.lean")); err != nil && !os.IsNotExist(err) {
		return err
	}
	g := &slGen{fset: token.NewFileSet(), structs: map[string]*slStruct{}, methods: map[string]*slMethod{}}
	h := sha256.New()
	var hashes []string
	var files []*ast.File
	for _, fn := range sliceFiles {
		src, err := os.ReadFile(filepath.Join(repo, fn))
		if err != nil {
			return fmt.Errorf("untranslatable: %s:0: cannot read: %v", fn, err)
		}
		h.Write([]byte(fn))
		h.Write([]byte{0})
		h.Write(src)
		h.Write([]byte{0})
		hashes = append(hashes, fmt.Sprintf("%s sha256=%x", fn, sha256.Sum256(src)))
		f, err := parser.ParseFile(g.fset, filepath.Join(repo, fn), src, parser.SkipObjectResolution)
		if err != nil {
			return fmt.Errorf("untranslatable: %s:0: does not parse: %v", fn, err)
		}
		// the slice methods declare their counters in the short form (`index, result := 0, make(…)`):
		// `var x int` is read as `x := 0` (ruleShortIntDecl), and `x := 0` is kept
		normalizeFileWith(g.fset, f, normProfile{keepIntShort: true, shortIntDecl: true})
		files = append(files, f)
	}
	lean := map[string]string{}
	for _, t := range sliceTypes {
		lean[t.goName] = t.lean
	}
	// pass 1: declarations
	for _, f := range files {
		for _, d := range f.Decls {
			switch d := d.(type) {
			case *ast.GenDecl:
				if d.Tok == token.IMPORT {
					return g.bad(d, "import in a subscript file")
				}
				if d.Tok != token.TYPE {
					return g.bad(d, "package-level %s declaration", d.Tok)
				}
				for _, sp := range d.Specs {
					if err := g.structDecl(sp.(*ast.TypeSpec), lean); err != nil {
						return err
					}
				}
			case *ast.FuncDecl:
				if err := g.funcDecl(d, lean); err != nil {
					return err
				}
			default:
				return g.bad(d, "unknown declaration")
			}
		}
	}
	for _, t := range sliceTypes {
		if g.structs[t.goName] == nil {
			return fmt.Errorf("untranslatable: %s:0: type %s not found", strings.Join(sliceFiles, ","), t.goName)
		}
	}
	if err := g.resolveFieldTypes(); err != nil {
		return err
	}
	if err := g.analyse(); err != nil {
		return err
	}
	// pass 2: bodies
	var b strings.Builder
	b.WriteString("/-\nGENERATED by /verif/harness/cmd/translate (generator `slices`) — do not edit, never committed.\n")
	b.WriteString("Source (relative to the library tree):\n")
	for _, l := range hashes {
		b.WriteString("  " + l + "\n")
	}
	fmt.Fprintf(&b, "combined sha256=%x\n", h.Sum(nil))
	b.WriteString(slPreludeDoc)
	b.WriteString("-/\nimport JPV.Tree\nimport JPV.Impl.Basic\nset_option linter.unusedVariables false\nnamespace JPV.Gen.SliceGo\nopen JPV\n\n")
	b.WriteString(slPrelude)
	for _, t := range sliceTypes {
		st := g.structs[t.goName]
		if st.leanTy == st.lean && len(st.fields) > 0 {
			fmt.Fprintf(&b, "/-- %s (%s:%d) -/\nstructure %s where\n", st.goName, st.file, st.line, st.lean)
			for _, f := range st.fields {
				fmt.Fprintf(&b, "  %s : %s\n", f.lean, f.ty)
			}
			b.WriteString("\n")
		}
	}
	// callees first
	emitted := map[*slMethod]bool{}
	var emit func(m *slMethod, stack []*slMethod) error
	emit = func(m *slMethod, stack []*slMethod) error {
		if emitted[m] {
			return nil
		}
		for _, s := range stack {
			if s == m {
				return g.bad(m.decl, "recursive method %s", m.name)
			}
		}
		for _, c := range g.callees(m) {
			if err := emit(c, append(stack, m)); err != nil {
				return err
			}
		}
		txt, err := g.method(m)
		if err != nil {
			return err
		}
		b.WriteString(txt)
		emitted[m] = true
		return nil
	}
	for _, m := range g.order {
		if err := emit(m, nil); err != nil {
			return err
		}
	}
	disp, err := g.dispatcher()
	if err != nil {
		return err
	}
	b.WriteString(disp)
	b.WriteString("end JPV.Gen.SliceGo\n")
	return os.WriteFile(filepath.Join(out, "SliceGo.lean"), []byte(b.String()), 0o644)
}

const slPreludeDoc = `
Conventions: Go int = Int with wrap64 (64-bit two's complement) around every + - and unary -;
a panic is an explicit .error; a for loop is a function recursive on fuel over the variables the loop assigns.
`

const slPrelude = `/-- 64-bit two's complement wrap-around, written with literals so that omega can eliminate it -/
def wrap64 (x : Int) : Int :=
  (x + 9223372036854775808) % 18446744073709551616 - 9223372036854775808

/-- make([]int, n): Go panics for a negative length -/
def mkSlice (n : Int) : Except Impl.Panic (List Int) :=
  if n < 0 then .error .indexOutOfRange else .ok (List.replicate n.toNat 0)

/-- r[i] = v -/
def setIdx (r : List Int) (i v : Int) : Except Impl.Panic (List Int) :=
  if 0 ≤ i ∧ i < (r.length : Int) then .ok (r.set i.toNat v) else .error .indexOutOfRange

/-- r[:i] (checked against the length; every slice here comes from make, so cap = len) -/
def takeChecked (r : List Int) (i : Int) : Except Impl.Panic (List Int) :=
  if 0 ≤ i ∧ i ≤ (r.length : Int) then .ok (r.take i.toNat) else .error .indexOutOfRange

`

func (g *slGen) structDecl(ts *ast.TypeSpec, lean map[string]string) error {
	ln, ok := lean[ts.Name.Name]
	if !ok {
		return g.bad(ts, "unexpected type %s", ts.Name.Name)
	}
	if ts.TypeParams != nil || ts.Assign != token.NoPos {
		return g.bad(ts, "generic or alias type")
	}
	stt, ok := ts.Type.(*ast.StructType)
	if !ok {
		return g.bad(ts, "%s is not a struct", ts.Name.Name)
	}
	if g.structs[ts.Name.Name] != nil {
		return g.bad(ts, "%s declared twice", ts.Name.Name)
	}
	p := g.fset.Position(ts.Pos())
	st := &slStruct{goName: ts.Name.Name, lean: ln, leanTy: ln, file: filepath.Base(p.Filename), line: p.Line}
	for _, f := range stt.Fields.List {
		if len(f.Names) == 0 {
			// embedded: only the common base is allowed; its members are not visible to the translation
			if se, ok := f.Type.(*ast.StarExpr); ok {
				if id, ok := se.X.(*ast.Ident); ok && id.Name == "syntaxBasicSubscript" {
					continue
				}
			}
			return g.bad(f, "embedded field other than *syntaxBasicSubscript")
		}
		for _, n := range f.Names {
			ln, err := g.ident(n)
			if err != nil {
				return err
			}
			var ty string
			switch t := f.Type.(type) {
			case *ast.Ident:
				switch t.Name {
				case "int":
					ty = slTyInt
				case "bool":
					ty = slTyBool
				default:
					return g.bad(f, "field type %s", t.Name)
				}
			case *ast.StarExpr:
				id, ok := t.X.(*ast.Ident)
				if !ok {
					return g.bad(f, "field type")
				}
				ty = "*" + id.Name // resolved later
			default:
				return g.bad(f, "field type")
			}
			st.fields = append(st.fields, slField{n.Name, ln, ty})
		}
	}
	if st.goName == "syntaxIndexSubscript" {
		// this one IS JPV.Bound (Tree.lean): number : Int, omitted : Bool
		if len(st.fields) != 2 || st.fields[0] != (slField{"number", "number", slTyInt}) ||
			st.fields[1] != (slField{"isOmitted", "isOmitted", slTyBool}) {
			return g.bad(ts, "syntaxIndexSubscript must be {number int; isOmitted bool} to be JPV.Bound")
		}
		st.fields[1].lean = "omitted"
		st.leanTy = slTyBound
	}
	g.structs[st.goName] = st
	return nil
}

func (g *slGen) funcDecl(d *ast.FuncDecl, lean map[string]string) error {
	if d.Recv == nil || len(d.Recv.List) != 1 {
		return g.bad(d, "function %s is not a method", d.Name.Name)
	}
	if d.Type.TypeParams != nil {
		return g.bad(d, "generic method")
	}
	r := d.Recv.List[0]
	se, ok := r.Type.(*ast.StarExpr)
	if !ok {
		return g.bad(d, "receiver of %s is not a pointer", d.Name.Name)
	}
	tid, ok := se.X.(*ast.Ident)
	if !ok || lean[tid.Name] == "" {
		return g.bad(d, "receiver type of %s", d.Name.Name)
	}
	m := &slMethod{name: d.Name.Name, decl: d}
	m.file = filepath.Base(g.fset.Position(d.Pos()).Filename)
	if len(r.Names) > 1 {
		return g.bad(d, "receiver names")
	}
	if len(r.Names) == 1 && r.Names[0].Name != "_" {
		n, err := g.ident(r.Names[0])
		if err != nil {
			return err
		}
		m.recv = n
	}
	for _, p := range d.Type.Params.List {
		id, ok := p.Type.(*ast.Ident)
		if !ok || id.Name != "int" {
			return g.bad(p, "parameter type (only int)")
		}
		if len(p.Names) == 0 {
			return g.bad(p, "unnamed parameter")
		}
		for _, n := range p.Names {
			ln, err := g.ident(n)
			if err != nil {
				return err
			}
			m.params = append(m.params, slParam{ln, slTyInt})
		}
	}
	if d.Type.Results == nil || len(d.Type.Results.List) != 1 || len(d.Type.Results.List[0].Names) != 0 {
		return g.bad(d, "method %s must have exactly one unnamed result", d.Name.Name)
	}
	switch t := d.Type.Results.List[0].Type.(type) {
	case *ast.Ident:
		if t.Name != "int" {
			return g.bad(d, "result type %s", t.Name)
		}
		m.ret = slTyInt
	case *ast.ArrayType:
		id, ok := t.Elt.(*ast.Ident)
		if t.Len != nil || !ok || id.Name != "int" {
			return g.bad(d, "result type (only int, []int)")
		}
		m.ret = slTyList
	default:
		return g.bad(d, "result type (only int, []int)")
	}
	if d.Body == nil {
		return g.bad(d, "method without body")
	}
	key := tid.Name + "." + m.name
	if g.methods[key] != nil {
		return g.bad(d, "method %s declared twice", key)
	}
	g.methods[key] = m
	g.order = append(g.order, m)
	m.leanName = lean[tid.Name] + "." + m.name
	// struct may be declared later in the file: resolved in resolveFieldTypes
	m.st = &slStruct{goName: tid.Name}
	return nil
}

func (g *slGen) resolveFieldTypes() error {
	for _, st := range g.structs {
		for i, f := range st.fields {
			if strings.HasPrefix(f.ty, "*") {
				if f.ty != "*syntaxIndexSubscript" {
					return &slErr{fmt.Sprintf("untranslatable: %s:%d: field %s has type %s", st.file, st.line, f.goName, f.ty)}
				}
				st.fields[i].ty = slTyBound
			}
		}
	}
	for _, m := range g.order {
		st := g.structs[m.st.goName]
		if st == nil {
			return g.bad(m.decl, "receiver type %s not declared", m.st.goName)
		}
		m.st = st
		if leanReserved[m.name] {
			return g.bad(m.decl, "method name %s is a Lean keyword", m.name)
		}
	}
	return nil
}

// ---- which methods can panic / need fuel ----------------------------------------------

func (g *slGen) callees(m *slMethod) []*slMethod {
	var out []*slMethod
	seen := map[*slMethod]bool{}
	ast.Inspect(m.decl.Body, func(n ast.Node) bool {
		if c, ok := n.(*ast.CallExpr); ok {
			if se, ok := c.Fun.(*ast.SelectorExpr); ok {
				if cm := g.methods[m.st.goName+"."+se.Sel.Name]; cm != nil && !seen[cm] {
					seen[cm] = true
					out = append(out, cm)
				}
			}
		}
		return true
	})
	return out
}

func slStmtImpure(n ast.Node) (impure, loop bool) {
	ast.Inspect(n, func(n ast.Node) bool {
		switch n := n.(type) {
		case *ast.ForStmt, *ast.RangeStmt:
			impure, loop = true, true
		case *ast.IndexExpr, *ast.SliceExpr:
			impure = true
		case *ast.CallExpr:
			if id, ok := n.Fun.(*ast.Ident); ok && id.Name == "make" {
				impure = true
			}
		}
		return true
	})
	return
}

func (g *slGen) analyse() error {
	for _, m := range g.order {
		m.impure, m.fuel = slStmtImpure(m.decl.Body)
	}
	for changed := true; changed; {
		changed = false
		for _, m := range g.order {
			for _, c := range g.callees(m) {
				if c.impure && !m.impure {
					m.impure, changed = true, true
				}
				if c.fuel && !m.fuel {
					m.fuel, changed = true, true
				}
			}
		}
	}
	return nil
}

// does this statement list (syntactically) contain something that needs the Except monad?
func (g *slGen) stmtsImpure(m *slMethod, ss []ast.Stmt) bool {
	for _, s := range ss {
		if imp, _ := slStmtImpure(s); imp {
			return true
		}
		bad := false
		ast.Inspect(s, func(n ast.Node) bool {
			if c, ok := n.(*ast.CallExpr); ok {
				if se, ok := c.Fun.(*ast.SelectorExpr); ok {
					if cm := g.methods[m.st.goName+"."+se.Sel.Name]; cm != nil && cm.impure {
						bad = true
					}
				}
			}
			return true
		})
		if bad {
			return true
		}
	}
	return false
}

// ---- translation of one method ---------------------------------------------------------

type slCtx struct {
	g     *slGen
	m     *slMethod
	env   map[string]string // Lean variable name -> type (everything in scope)
	aux   *[]string         // loop functions, emitted before the method (shared by forks)
	loops *int
}

func (c *slCtx) fork() *slCtx {
	e := map[string]string{}
	for k, v := range c.env {
		e[k] = v
	}
	return &slCtx{g: c.g, m: c.m, env: e, aux: c.aux, loops: c.loops}
}

func ind(lines []string, by string) []string {
	out := make([]string, len(lines))
	for i, l := range lines {
		out[i] = by + l
	}
	return out
}

func tuple(vs []string) string {
	if len(vs) == 1 {
		return vs[0]
	}
	return "(" + strings.Join(vs, ", ") + ")"
}

func (c *slCtx) tupleTy(vs []string) string {
	var ts []string
	for _, v := range vs {
		ts = append(ts, c.env[v])
	}
	return strings.Join(ts, " × ")
}

func (g *slGen) method(m *slMethod) (string, error) {
	c := &slCtx{g: g, m: m, env: map[string]string{}, aux: new([]string), loops: new(int)}
	var sig []string
	if len(m.st.fields) > 0 {
		r := m.recv
		if r == "" {
			r = "_recv"
		} else {
			c.env[r] = m.st.leanTy
		}
		sig = append(sig, fmt.Sprintf("(%s : %s)", r, m.st.leanTy))
	}
	// (a named receiver without translatable fields is not in scope: any use of it is rejected in expr)
	if m.fuel {
		sig = append(sig, "(fuel : Nat)")
	}
	for _, p := range m.params {
		if _, dup := c.env[p.name]; dup {
			return "", g.bad(m.decl, "parameter %s declared twice", p.name)
		}
		c.env[p.name] = p.ty
		sig = append(sig, fmt.Sprintf("(%s : %s)", p.name, p.ty))
	}
	noFall := func(*slCtx) ([]string, error) {
		return nil, g.bad(m.decl, "method %s can reach the end of its body without return", m.name)
	}
	body, err := c.seq(m.decl.Body.List, m.impure, noFall)
	if err != nil {
		return "", err
	}
	var b strings.Builder
	for _, a := range *c.aux {
		b.WriteString(a)
	}
	ret := m.ret
	p := g.fset.Position(m.decl.Pos())
	fmt.Fprintf(&b, "/-- (*%s).%s — %s:%d -/\n", m.st.goName, m.name, filepath.Base(p.Filename), p.Line)
	if m.impure {
		fmt.Fprintf(&b, "def %s %s : Except Impl.Panic (%s) := do\n", m.leanName, strings.Join(sig, " "), ret)
	} else {
		fmt.Fprintf(&b, "def %s %s : %s :=\n", m.leanName, strings.Join(sig, " "), ret)
	}
	b.WriteString(strings.Join(ind(body, "  "), "\n"))
	b.WriteString("\n\n")
	return b.String(), nil
}

// variables assigned (not declared) by a statement list, in order of first occurrence
func (c *slCtx) assigned(ss []ast.Stmt) ([]string, error) {
	var out []string
	seen := map[string]bool{}
	declared := map[string]bool{}
	add := func(e ast.Expr) error {
		if ix, ok := e.(*ast.IndexExpr); ok {
			e = ix.X
		}
		id, ok := e.(*ast.Ident)
		if !ok {
			return c.g.bad(e, "assignment target")
		}
		n, err := c.g.ident(id)
		if err != nil {
			return err
		}
		if !seen[n] && !declared[n] {
			seen[n] = true
			out = append(out, n)
		}
		return nil
	}
	var walk func(ss []ast.Stmt) error
	walk = func(ss []ast.Stmt) error {
		for _, s := range ss {
			switch s := s.(type) {
			case *ast.AssignStmt:
				for _, l := range s.Lhs {
					if s.Tok == token.DEFINE {
						if id, ok := l.(*ast.Ident); ok {
							n, err := c.g.ident(id)
							if err != nil {
								return err
							}
							declared[n] = true
							continue
						}
						return c.g.bad(l, "declaration target")
					}
					if err := add(l); err != nil {
						return err
					}
				}
			case *ast.IncDecStmt:
				if err := add(s.X); err != nil {
					return err
				}
			case *ast.IfStmt:
				if s.Init != nil {
					return c.g.bad(s, "if with init statement")
				}
				if err := walk(s.Body.List); err != nil {
					return err
				}
				if s.Else != nil {
					eb, ok := s.Else.(*ast.BlockStmt)
					if !ok {
						return c.g.bad(s.Else, "else-if chain")
					}
					if err := walk(eb.List); err != nil {
						return err
					}
				}
			case *ast.ForStmt:
				var l []ast.Stmt
				if s.Init != nil {
					l = append(l, s.Init)
				}
				l = append(l, s.Body.List...)
				if s.Post != nil {
					l = append(l, s.Post)
				}
				if err := walk(l); err != nil {
					return err
				}
			case *ast.ReturnStmt:
			default:
				return c.g.bad(s, "statement %T", s)
			}
		}
		return nil
	}
	if err := walk(ss); err != nil {
		return nil, err
	}
	return out, nil
}

func slTerminates(ss []ast.Stmt) bool {
	if len(ss) == 0 {
		return false
	}
	switch s := ss[len(ss)-1].(type) {
	case *ast.ReturnStmt:
		return true
	case *ast.IfStmt:
		if eb, ok := s.Else.(*ast.BlockStmt); ok {
			return slTerminates(s.Body.List) && slTerminates(eb.List)
		}
	}
	return false
}

func slHasReturn(ss []ast.Stmt) bool {
	found := false
	for _, s := range ss {
		ast.Inspect(s, func(n ast.Node) bool {
			if _, ok := n.(*ast.ReturnStmt); ok {
				found = true
			}
			return true
		})
	}
	return found
}

// seq translates a statement list to the lines of a Lean term (monadic: the elements of a `do`
// block). `fall` produces what follows when control reaches the end of the list.
func (c *slCtx) seq(ss []ast.Stmt, monadic bool, fall func(*slCtx) ([]string, error)) ([]string, error) {
	if len(ss) == 0 {
		return fall(c)
	}
	s, rest := ss[0], ss[1:]
	g := c.g
	switch s := s.(type) {
	case *ast.AssignStmt:
		var lines []string
		switch s.Tok {
		case token.DEFINE, token.ASSIGN:
			if len(s.Lhs) != len(s.Rhs) {
				return nil, g.bad(s, "assignment count mismatch")
			}
			// parallel assignment is emitted sequentially: no right-hand side may mention a target
			if len(s.Lhs) > 1 {
				targets := map[string]bool{}
				for _, l := range s.Lhs {
					if id, ok := l.(*ast.Ident); ok {
						targets[id.Name] = true
					} else {
						return nil, g.bad(l, "target of a parallel assignment")
					}
				}
				for _, r := range s.Rhs {
					for _, n := range slIdents(r) {
						if targets[n.Name] {
							return nil, g.bad(s, "parallel assignment whose right-hand side mentions a target")
						}
					}
				}
			}
			for i := range s.Lhs {
				if ix, ok := s.Lhs[i].(*ast.IndexExpr); ok {
					if s.Tok != token.ASSIGN {
						return nil, g.bad(s, "declaration of an element")
					}
					l, err := c.indexAssign(ix, s.Rhs[i], monadic)
					if err != nil {
						return nil, err
					}
					lines = append(lines, l)
					continue
				}
				id, ok := s.Lhs[i].(*ast.Ident)
				if !ok {
					return nil, g.bad(s.Lhs[i], "assignment target")
				}
				v, err := g.ident(id)
				if err != nil {
					return nil, err
				}
				rhs, ty, imp, err := c.expr(s.Rhs[i])
				if err != nil {
					return nil, err
				}
				old, exists := c.env[v]
				if s.Tok == token.DEFINE {
					if exists {
						return nil, g.bad(s, "%s redeclared or shadowed", v)
					}
				} else {
					if !exists {
						return nil, g.bad(s, "assignment to undeclared %s", v)
					}
					if old != ty {
						return nil, g.bad(s, "assignment changes the type of %s", v)
					}
				}
				if ty != slTyInt && ty != slTyList {
					return nil, g.bad(s, "variable of type %s", ty)
				}
				if imp {
					if !monadic {
						return nil, g.bad(s, "internal: effect in a pure block")
					}
					lines = append(lines, fmt.Sprintf("let %s ← %s", v, rhs))
				} else {
					lines = append(lines, fmt.Sprintf("let %s : %s := %s", v, ty, rhs))
				}
				c.env[v] = ty
			}
		case token.ADD_ASSIGN, token.SUB_ASSIGN:
			if len(s.Lhs) != 1 || len(s.Rhs) != 1 {
				return nil, g.bad(s, "op-assignment shape")
			}
			id, ok := s.Lhs[0].(*ast.Ident)
			if !ok {
				return nil, g.bad(s, "op-assignment target")
			}
			v, err := g.ident(id)
			if err != nil {
				return nil, err
			}
			if c.env[v] != slTyInt {
				return nil, g.bad(s, "op-assignment to %s which is not a declared int", v)
			}
			rhs, ty, imp, err := c.expr(s.Rhs[0])
			if err != nil {
				return nil, err
			}
			if ty != slTyInt || imp {
				return nil, g.bad(s, "op-assignment operand")
			}
			op := "+"
			if s.Tok == token.SUB_ASSIGN {
				op = "-"
			}
			lines = append(lines, fmt.Sprintf("let %s : Int := wrap64 (%s %s %s)", v, v, op, rhs))
		default:
			return nil, g.bad(s, "assignment operator %s", s.Tok)
		}
		r, err := c.seq(rest, monadic, fall)
		if err != nil {
			return nil, err
		}
		return append(lines, r...), nil

	case *ast.IncDecStmt:
		id, ok := s.X.(*ast.Ident)
		if !ok {
			return nil, g.bad(s, "++/-- target")
		}
		v, err := g.ident(id)
		if err != nil {
			return nil, err
		}
		if c.env[v] != slTyInt {
			return nil, g.bad(s, "++/-- on %s which is not a declared int", v)
		}
		op := "+"
		if s.Tok == token.DEC {
			op = "-"
		}
		line := fmt.Sprintf("let %s : Int := wrap64 (%s %s (1 : Int))", v, v, op)
		r, err := c.seq(rest, monadic, fall)
		if err != nil {
			return nil, err
		}
		return append([]string{line}, r...), nil

	case *ast.ReturnStmt:
		if len(rest) != 0 {
			return nil, g.bad(rest[0], "statement after return")
		}
		if len(s.Results) != 1 {
			return nil, g.bad(s, "return with %d values", len(s.Results))
		}
		e, ty, imp, err := c.expr(s.Results[0])
		if err != nil {
			return nil, err
		}
		if ty != c.m.ret {
			return nil, g.bad(s, "return of a %s from a method returning %s", ty, c.m.ret)
		}
		if !c.m.impure {
			if imp || monadic {
				return nil, g.bad(s, "internal: effect in a pure method")
			}
			return []string{e}, nil
		}
		if !monadic {
			return nil, g.bad(s, "internal: return inside a pure block of a monadic method")
		}
		if imp {
			return []string{e}, nil
		}
		return []string{"pure (" + e + ")"}, nil

	case *ast.IfStmt:
		if s.Init != nil {
			return nil, g.bad(s, "if with init statement")
		}
		cond, err := c.cond(s.Cond)
		if err != nil {
			return nil, err
		}
		var els []ast.Stmt
		if s.Else != nil {
			eb, ok := s.Else.(*ast.BlockStmt)
			if !ok {
				return nil, g.bad(s.Else, "else-if chain")
			}
			els = eb.List
		}
		do := ""
		if monadic {
			do = " do"
		}
		if slTerminates(s.Body.List) {
			// if c { …; return } [else { A }] ; B   ==   if c then … else (A; B)
			thenL, err := c.fork().seq(s.Body.List, monadic, func(*slCtx) ([]string, error) {
				return nil, g.bad(s, "internal: terminating block falls through")
			})
			if err != nil {
				return nil, err
			}
			ec := c.fork()
			elseL, err := ec.seq(append(append([]ast.Stmt{}, els...), rest...), monadic, fall)
			if err != nil {
				return nil, err
			}
			out := []string{"if " + cond + " then" + do}
			out = append(out, ind(thenL, "  ")...)
			out = append(out, "else"+do)
			out = append(out, ind(elseL, "  ")...)
			return out, nil
		}
		if slHasReturn(s.Body.List) || slHasReturn(els) {
			return nil, g.bad(s, "return inside a branch that does not always return")
		}
		vs, err := c.assigned(append(append([]ast.Stmt{}, s.Body.List...), els...))
		if err != nil {
			return nil, err
		}
		if len(vs) == 0 {
			return nil, g.bad(s, "if statement without effect")
		}
		for _, v := range vs {
			if _, ok := c.env[v]; !ok {
				return nil, g.bad(s, "assignment to undeclared %s", v)
			}
		}
		sub := monadic && (c.g.stmtsImpure(c.m, s.Body.List) || c.g.stmtsImpure(c.m, els))
		if sub && !monadic {
			return nil, g.bad(s, "internal: effect in a pure block")
		}
		tail := func(cc *slCtx) ([]string, error) {
			for _, v := range vs {
				if cc.env[v] != c.env[v] {
					return nil, g.bad(s, "type of %s changes in a branch", v)
				}
			}
			if sub {
				return []string{"pure " + tuple(vs)}, nil
			}
			return []string{tuple(vs)}, nil
		}
		thenL, err := c.fork().seq(s.Body.List, sub, tail)
		if err != nil {
			return nil, err
		}
		elseL, err := c.fork().seq(els, sub, tail)
		if err != nil {
			return nil, err
		}
		subdo := ""
		arrow := fmt.Sprintf(" : %s :=", c.tupleTy(vs))
		if len(vs) > 1 {
			arrow = " :="
		}
		if sub {
			subdo, arrow = " do", " ←"
		}
		out := []string{"let " + tuple(vs) + arrow}
		out = append(out, "  if "+cond+" then"+subdo)
		out = append(out, ind(thenL, "    ")...)
		out = append(out, "  else"+subdo)
		out = append(out, ind(elseL, "    ")...)
		r, err := c.seq(rest, monadic, fall)
		if err != nil {
			return nil, err
		}
		return append(out, r...), nil

	case *ast.ForStmt:
		if !monadic {
			return nil, g.bad(s, "internal: loop in a pure block")
		}
		lines, err := c.loop(s)
		if err != nil {
			return nil, err
		}
		r, err := c.seq(rest, monadic, fall)
		if err != nil {
			return nil, err
		}
		return append(lines, r...), nil
	}
	return nil, g.bad(s, "statement %T", s)
}

func (c *slCtx) indexAssign(ix *ast.IndexExpr, rhs ast.Expr, monadic bool) (string, error) {
	g := c.g
	if !monadic {
		return "", g.bad(ix, "internal: element assignment in a pure block")
	}
	id, ok := ix.X.(*ast.Ident)
	if !ok {
		return "", g.bad(ix, "element assignment to something that is not a variable")
	}
	v, err := g.ident(id)
	if err != nil {
		return "", err
	}
	if c.env[v] != slTyList {
		return "", g.bad(ix, "element assignment to %s which is not a declared []int", v)
	}
	i, ity, iimp, err := c.expr(ix.Index)
	if err != nil {
		return "", err
	}
	e, ety, eimp, err := c.expr(rhs)
	if err != nil {
		return "", err
	}
	if ity != slTyInt || ety != slTyInt || iimp || eimp {
		return "", g.bad(ix, "element assignment operands")
	}
	return fmt.Sprintf("let %s ← setIdx %s %s %s", v, v, i, e), nil
}

// identifiers used as values (selector field names and called names are not values)
func slIdents(n ast.Node) []*ast.Ident {
	var out []*ast.Ident
	var walk func(n ast.Node)
	walk = func(n ast.Node) {
		ast.Inspect(n, func(n ast.Node) bool {
			switch n := n.(type) {
			case *ast.SelectorExpr:
				walk(n.X)
				return false
			case *ast.CallExpr:
				switch f := n.Fun.(type) {
				case *ast.Ident:
				case *ast.SelectorExpr:
					walk(f.X)
				default:
					walk(f)
				}
				for _, a := range n.Args {
					walk(a)
				}
				return false
			case *ast.CompositeLit:
				for _, e := range n.Elts {
					walk(e)
				}
				return false
			case *ast.Ident:
				out = append(out, n)
			}
			return true
		})
	}
	walk(n)
	return out
}

func (c *slCtx) loop(s *ast.ForStmt) ([]string, error) {
	g := c.g
	init, ok := s.Init.(*ast.AssignStmt)
	if !ok || init.Tok != token.DEFINE || len(init.Lhs) != 1 || len(init.Rhs) != 1 {
		return nil, g.bad(s, "for loop must start with `v := e`")
	}
	lvId, ok := init.Lhs[0].(*ast.Ident)
	if !ok {
		return nil, g.bad(s, "loop variable")
	}
	lv, err := g.ident(lvId)
	if err != nil {
		return nil, err
	}
	if _, exists := c.env[lv]; exists {
		return nil, g.bad(s, "loop variable %s shadows", lv)
	}
	initE, ty, imp, err := c.expr(init.Rhs[0])
	if err != nil {
		return nil, err
	}
	if ty != slTyInt || imp {
		return nil, g.bad(s, "loop variable must be an int")
	}
	if s.Cond == nil {
		return nil, g.bad(s, "for loop without condition")
	}
	if slHasReturn(s.Body.List) {
		return nil, g.bad(s, "return inside a loop")
	}
	var post []ast.Stmt
	if s.Post != nil {
		post = []ast.Stmt{s.Post}
	}
	all := append(append([]ast.Stmt{}, s.Body.List...), post...)
	as, err := c.assigned(all)
	if err != nil {
		return nil, err
	}
	state := []string{lv}
	var exported []string
	for _, v := range as {
		if v == lv {
			continue
		}
		if _, ok := c.env[v]; !ok {
			return nil, g.bad(s, "loop assigns undeclared %s", v)
		}
		state = append(state, v)
		exported = append(exported, v)
	}
	if len(exported) == 0 {
		return nil, g.bad(s, "loop without effect")
	}
	// read-only variables of the enclosing scope
	isState := map[string]bool{}
	for _, v := range state {
		isState[v] = true
	}
	var free []string
	seen := map[string]bool{}
	nodes := []ast.Node{s.Cond}
	for _, st := range all {
		nodes = append(nodes, st)
	}
	for _, n := range nodes {
		for _, id := range slIdents(n) {
			v, err := g.ident(id)
			if err != nil {
				return nil, err
			}
			if _, ok := c.env[v]; ok && !isState[v] && !seen[v] {
				seen[v] = true
				free = append(free, v)
			}
		}
	}
	lc := c.fork()
	lc.env[lv] = slTyInt
	// calls that need fuel inside a loop: not supported
	for _, n := range nodes {
		bad := false
		ast.Inspect(n, func(n ast.Node) bool {
			if ce, ok := n.(*ast.CallExpr); ok {
				if se, ok := ce.Fun.(*ast.SelectorExpr); ok {
					if cm := g.methods[c.m.st.goName+"."+se.Sel.Name]; cm != nil && cm.fuel {
						bad = true
					}
				}
			}
			if _, ok := n.(*ast.ForStmt); ok {
				bad = true
			}
			return true
		})
		if bad {
			return nil, g.bad(s, "nested loop or call of a looping method inside a loop")
		}
	}
	cond, err := lc.cond(s.Cond)
	if err != nil {
		return nil, err
	}
	*c.loops++
	name := fmt.Sprintf("%s.loop%d", c.m.leanName, *c.loops)
	var fp []string
	for _, v := range free {
		fp = append(fp, fmt.Sprintf("(%s : %s)", v, c.env[v]))
	}
	callPrefix := name
	if len(free) > 0 {
		callPrefix += " " + strings.Join(free, " ")
	}
	body, err := lc.seq(all, true, func(cc *slCtx) ([]string, error) {
		for _, v := range state {
			if cc.env[v] != lc.env[v] {
				return nil, g.bad(s, "type of %s changes in the loop", v)
			}
		}
		return []string{callPrefix + " fuel " + strings.Join(state, " ")}, nil
	})
	if err != nil {
		return nil, err
	}
	var stTys, wild []string
	for _, v := range state {
		stTys = append(stTys, lc.env[v])
		wild = append(wild, "_")
	}
	p := g.fset.Position(s.Pos())
	var b strings.Builder
	fmt.Fprintf(&b, "/-- the for loop at %s:%d; state (%s) -/\n", filepath.Base(p.Filename), p.Line, strings.Join(state, ", "))
	fmt.Fprintf(&b, "def %s %s: Nat → %s → Except Impl.Panic (%s)\n", name, strings.Join(fp, " ")+" ", strings.Join(stTys, " → "), c.tupleTy(exported))
	fmt.Fprintf(&b, "  | 0, %s => .error .outOfFuel\n", strings.Join(wild, ", "))
	fmt.Fprintf(&b, "  | fuel + 1, %s =>\n", strings.Join(state, ", "))
	fmt.Fprintf(&b, "    if %s then do\n", cond)
	b.WriteString(strings.Join(ind(body, "      "), "\n"))
	fmt.Fprintf(&b, "\n    else\n      pure %s\n\n", tuple(exported))
	*c.aux = append(*c.aux, b.String())
	return []string{fmt.Sprintf("let %s ← %s fuel %s %s", tuple(exported), callPrefix, initE, strings.Join(exported, " "))}, nil
}

// ---- expressions ----------------------------------------------------------------------------

func paren(s string) string {
	simple := true
	for _, r := range s {
		if !(r == '_' || r == '.' || r >= '0' && r <= '9' || r >= 'a' && r <= 'z' || r >= 'A' && r <= 'Z') {
			simple = false
		}
	}
	if simple || (strings.HasPrefix(s, "(") && strings.HasSuffix(s, ")") && balanced(s[1:len(s)-1])) ||
		(strings.HasPrefix(s, "[") && strings.HasSuffix(s, "]")) {
		return s
	}
	return "(" + s + ")"
}

func balanced(s string) bool {
	d := 0
	for _, r := range s {
		switch r {
		case '(':
			d++
		case ')':
			d--
			if d < 0 {
				return false
			}
		}
	}
	return d == 0
}

// cond translates a Go boolean expression to a decidable Lean proposition
func (c *slCtx) cond(e ast.Expr) (string, error) {
	g := c.g
	switch e := e.(type) {
	case *ast.ParenExpr:
		return c.cond(e.X)
	case *ast.UnaryExpr:
		if e.Op == token.NOT {
			x, err := c.cond(e.X)
			if err != nil {
				return "", err
			}
			return "¬ " + paren(x), nil
		}
	case *ast.BinaryExpr:
		switch e.Op {
		case token.LAND, token.LOR:
			// Go evaluates the right operand only when needed; operands here have no effects, so ∧/∨ agree
			x, err := c.cond(e.X)
			if err != nil {
				return "", err
			}
			y, err := c.cond(e.Y)
			if err != nil {
				return "", err
			}
			op := " ∧ "
			if e.Op == token.LOR {
				op = " ∨ "
			}
			return paren(x) + op + paren(y), nil
		case token.LSS, token.LEQ, token.GTR, token.GEQ, token.EQL, token.NEQ:
			x, tx, ix, err := c.expr(e.X)
			if err != nil {
				return "", err
			}
			y, ty, iy, err := c.expr(e.Y)
			if err != nil {
				return "", err
			}
			if tx != slTyInt || ty != slTyInt || ix || iy {
				return "", g.bad(e, "comparison of something other than two ints")
			}
			op := map[token.Token]string{token.LSS: "<", token.LEQ: "≤", token.GTR: ">", token.GEQ: "≥",
				token.EQL: "=", token.NEQ: "≠"}[e.Op]
			return paren(x) + " " + op + " " + paren(y), nil
		}
	}
	x, ty, imp, err := c.expr(e)
	if err != nil {
		return "", err
	}
	if ty != slTyBool || imp {
		return "", g.bad(e, "condition")
	}
	return paren(x) + " = true", nil
}

// expr translates a Go value expression; impure ⇒ the Lean term is in Except Impl.Panic
func (c *slCtx) expr(e ast.Expr) (lean, ty string, impure bool, err error) {
	g := c.g
	switch e := e.(type) {
	case *ast.ParenExpr:
		return c.expr(e.X)
	case *ast.BasicLit:
		if e.Kind != token.INT {
			return "", "", false, g.bad(e, "literal %s", e.Value)
		}
		v, perr := strconv.ParseInt(e.Value, 0, 64)
		if perr != nil {
			return "", "", false, g.bad(e, "integer literal %s", e.Value)
		}
		return fmt.Sprintf("(%d : Int)", v), slTyInt, false, nil
	case *ast.Ident:
		v, err := g.ident(e)
		if err != nil {
			return "", "", false, err
		}
		t, ok := c.env[v]
		if !ok {
			return "", "", false, g.bad(e, "unknown identifier %s", e.Name)
		}
		if t != slTyInt && t != slTyList {
			return "", "", false, g.bad(e, "%s used as a value", e.Name)
		}
		return v, t, false, nil
	case *ast.SelectorExpr:
		return c.selector(e)
	case *ast.UnaryExpr:
		switch e.Op {
		case token.SUB:
			x, t, imp, err := c.expr(e.X)
			if err != nil {
				return "", "", false, err
			}
			if t != slTyInt || imp {
				return "", "", false, g.bad(e, "unary minus operand")
			}
			return "wrap64 (-" + paren(x) + ")", slTyInt, false, nil
		case token.ADD:
			x, t, imp, err := c.expr(e.X)
			if err != nil {
				return "", "", false, err
			}
			if t != slTyInt || imp {
				return "", "", false, g.bad(e, "unary plus operand")
			}
			return x, slTyInt, false, nil
		}
		return "", "", false, g.bad(e, "unary operator %s", e.Op)
	case *ast.BinaryExpr:
		if e.Op != token.ADD && e.Op != token.SUB {
			return "", "", false, g.bad(e, "operator %s in a value", e.Op)
		}
		x, tx, ix, err := c.expr(e.X)
		if err != nil {
			return "", "", false, err
		}
		y, ty, iy, err := c.expr(e.Y)
		if err != nil {
			return "", "", false, err
		}
		if tx != slTyInt || ty != slTyInt || ix || iy {
			return "", "", false, g.bad(e, "operands of %s", e.Op)
		}
		return fmt.Sprintf("wrap64 (%s %s %s)", paren(x), e.Op, paren(y)), slTyInt, false, nil
	case *ast.CompositeLit:
		at, ok := e.Type.(*ast.ArrayType)
		if !ok || at.Len != nil {
			return "", "", false, g.bad(e, "composite literal")
		}
		if id, ok := at.Elt.(*ast.Ident); !ok || id.Name != "int" {
			return "", "", false, g.bad(e, "composite literal element type")
		}
		var xs []string
		for _, el := range e.Elts {
			if _, kv := el.(*ast.KeyValueExpr); kv {
				return "", "", false, g.bad(el, "keyed element")
			}
			x, t, imp, err := c.expr(el)
			if err != nil {
				return "", "", false, err
			}
			if t != slTyInt || imp {
				return "", "", false, g.bad(el, "literal element")
			}
			xs = append(xs, x)
		}
		if len(xs) == 0 {
			return "([] : List Int)", slTyList, false, nil
		}
		return "[" + strings.Join(xs, ", ") + "]", slTyList, false, nil
	case *ast.SliceExpr:
		id, ok := e.X.(*ast.Ident)
		if !ok || e.Low != nil || e.High == nil || e.Max != nil || e.Slice3 {
			return "", "", false, g.bad(e, "slice expression other than v[:n]")
		}
		v, err := g.ident(id)
		if err != nil {
			return "", "", false, err
		}
		if c.env[v] != slTyList {
			return "", "", false, g.bad(e, "slicing of %s which is not a declared []int", v)
		}
		h, t, imp, err := c.expr(e.High)
		if err != nil {
			return "", "", false, err
		}
		if t != slTyInt || imp {
			return "", "", false, g.bad(e, "slice bound")
		}
		return fmt.Sprintf("takeChecked %s %s", v, paren(h)), slTyList, true, nil
	case *ast.CallExpr:
		if e.Ellipsis != token.NoPos {
			return "", "", false, g.bad(e, "variadic call")
		}
		switch f := e.Fun.(type) {
		case *ast.Ident:
			if f.Name != "make" {
				return "", "", false, g.bad(e, "call of %s", f.Name)
			}
			if len(e.Args) != 2 {
				return "", "", false, g.bad(e, "make with %d arguments", len(e.Args))
			}
			at, ok := e.Args[0].(*ast.ArrayType)
			if !ok || at.Len != nil {
				return "", "", false, g.bad(e, "make of something other than []int")
			}
			if id, ok := at.Elt.(*ast.Ident); !ok || id.Name != "int" {
				return "", "", false, g.bad(e, "make of something other than []int")
			}
			n, t, imp, err := c.expr(e.Args[1])
			if err != nil {
				return "", "", false, err
			}
			if t != slTyInt || imp {
				return "", "", false, g.bad(e, "make length")
			}
			return "mkSlice " + paren(n), slTyList, true, nil
		case *ast.SelectorExpr:
			rid, ok := f.X.(*ast.Ident)
			if !ok || c.m.recv == "" || rid.Name != c.m.decl.Recv.List[0].Names[0].Name {
				return "", "", false, g.bad(e, "call of something other than a method of the receiver")
			}
			cm := g.methods[c.m.st.goName+"."+f.Sel.Name]
			if cm == nil {
				return "", "", false, g.bad(e, "unknown method %s", f.Sel.Name)
			}
			if len(e.Args) != len(cm.params) {
				return "", "", false, g.bad(e, "argument count")
			}
			parts := []string{cm.leanName}
			if len(cm.st.fields) > 0 {
				parts = append(parts, c.m.recv)
			}
			if cm.fuel {
				parts = append(parts, "fuel")
			}
			for _, a := range e.Args {
				x, t, imp, err := c.expr(a)
				if err != nil {
					return "", "", false, err
				}
				if t != slTyInt || imp {
					return "", "", false, g.bad(a, "argument")
				}
				parts = append(parts, paren(x))
			}
			return strings.Join(parts, " "), cm.ret, cm.impure, nil
		}
		return "", "", false, g.bad(e, "call")
	}
	return "", "", false, g.bad(e, "expression %T", e)
}

// receiver.field or receiver.field.field
func (c *slCtx) selector(e *ast.SelectorExpr) (string, string, bool, error) {
	g := c.g
	var path []*ast.Ident
	var cur ast.Expr = e
	for {
		if se, ok := cur.(*ast.SelectorExpr); ok {
			path = append([]*ast.Ident{se.Sel}, path...)
			cur = se.X
			continue
		}
		break
	}
	rid, ok := cur.(*ast.Ident)
	if !ok || c.m.recv == "" || len(c.m.decl.Recv.List[0].Names) != 1 || rid.Name != c.m.decl.Recv.List[0].Names[0].Name {
		return "", "", false, g.bad(e, "field access on something other than the receiver")
	}
	st := c.m.st
	out := c.m.recv
	ty := st.leanTy
	for _, p := range path {
		var fields []slField
		switch ty {
		case slTyBound:
			fields = g.structs["syntaxIndexSubscript"].fields
		case st.leanTy:
			fields = st.fields
		default:
			return "", "", false, g.bad(e, "field %s of a %s", p.Name, ty)
		}
		found := false
		for _, f := range fields {
			if f.goName == p.Name {
				out += "." + f.lean
				ty = f.ty
				found = true
			}
		}
		if !found {
			return "", "", false, g.bad(e, "unknown field %s", p.Name)
		}
	}
	if ty != slTyInt && ty != slTyBool {
		return "", "", false, g.bad(e, "field of type %s used as a value", ty)
	}
	return out, ty, false, nil
}

// ---- dispatcher -----------------------------------------------------------------------------

func (g *slGen) dispatcher() (string, error) {
	call := func(goType string, recv string) (string, error) {
		m := g.methods[goType+".getIndexes"]
		if m == nil {
			return "", fmt.Errorf("untranslatable: %s:0: (*%s).getIndexes not found", strings.Join(sliceFiles, ","), goType)
		}
		if len(m.params) != 1 || m.ret != slTyList {
			return "", g.bad(m.decl, "getIndexes must be func(int) []int")
		}
		parts := []string{m.leanName}
		if len(m.st.fields) > 0 {
			parts = append(parts, recv)
		}
		if m.fuel {
			parts = append(parts, "(srcLength + 2)")
		}
		parts = append(parts, "(srcLength : Int)")
		s := strings.Join(parts, " ")
		if !m.impure {
			s = "pure (" + s + ")"
		}
		return s, nil
	}
	for _, t := range []string{"syntaxSlicePositiveStepSubscript", "syntaxSliceNegativeStepSubscript"} {
		st := g.structs[t]
		want := []slField{{"start", "start", slTyBound}, {"end", "end_", slTyBound}, {"step", "step", slTyBound}}
		if len(st.fields) != 3 || st.fields[0] != want[0] || st.fields[1] != want[1] || st.fields[2] != want[2] {
			return "", &slErr{fmt.Sprintf("untranslatable: %s:%d: %s must be {start, end, step *syntaxIndexSubscript}", st.file, st.line, t)}
		}
	}
	if len(g.structs["syntaxWildcardSubscript"].fields) != 0 {
		st := g.structs["syntaxWildcardSubscript"]
		return "", &slErr{fmt.Sprintf("untranslatable: %s:%d: syntaxWildcardSubscript must have no fields of its own", st.file, st.line)}
	}
	idx, err := call("syntaxIndexSubscript", "⟨n, false⟩")
	if err != nil {
		return "", err
	}
	pos, err := call("syntaxSlicePositiveStepSubscript", "⟨s, e, t⟩")
	if err != nil {
		return "", err
	}
	neg, err := call("syntaxSliceNegativeStepSubscript", "⟨s, e, t⟩")
	if err != nil {
		return "", err
	}
	wild, err := call("syntaxWildcardSubscript", "")
	if err != nil {
		return "", err
	}
	var b strings.Builder
	b.WriteString("/-- the interface call `subscript.getIndexes(len)`: one implementation per constructor;\n")
	b.WriteString("    loops get fuel `srcLength + 2` -/\n")
	b.WriteString("def getIndexes (sub : SubI) (srcLength : Nat) : Except Impl.Panic (List Int) :=\n")
	b.WriteString("  match sub with\n")
	fmt.Fprintf(&b, "  | .idx n => %s\n", idx)
	fmt.Fprintf(&b, "  | .slicePos s e t => %s\n", pos)
	fmt.Fprintf(&b, "  | .sliceNeg s e t => %s\n", neg)
	fmt.Fprintf(&b, "  | .wild => %s\n\n", wild)
	return b.String(), nil
}
