// pegruntime.go: translator for the small RUNTIME of jsonpath.peg.go around the rule table: the methods
// tokens32.Add / Trim / Tokens and, inside (*pegJSONPathParser).Init, the closures reset, add, memoize,
// memoizedResult, matchDot. Unlike `pegrules` (which pins their text) this generator translates the BODIES,
// statement by statement from go/ast, into Lean functions over the explicit runtime state `RT` of
// lean/JPV/Peg/RuntimeModel.lean. Props/PegRuntimeGen.lean proves the local claims (`PR_*`) about the result.
//
// Emits Gen/PegRuntimeGo.lean:
//
//	def endSymbol : Nat
//	def tokens32_Add (rule begin end_ index : Nat) (s : List Tok) : Option (List Tok)
//	def tokens32_Trim (length : Nat) (s : List Tok) : Option (List Tok)
//	def tokens32_Tokens (s : List Tok) : Option (List Tok × List Tok)
//	def reset (s : RT) : Option RT
//	def add (rule begin : Nat) (s : RT) : Option RT
//	def memoize (rule begin tokenIndexStart : Nat) (matched : Bool) (s : RT) : Option RT
//	def memoizedResult (m : Memo) (s : RT) : Option (Bool × RT)
//	def matchDot (s : RT) : Option (Bool × RT)
//	def parse (ruleFn : Int → RT → Option (Bool × RT)) (rule : List Int) (s : RT) : Option (Option Tok × RT)   (L30, scheme at parseClosure)
//	def Parse … := parse …      def Reset (s : RT) : Option RT := reset s
//
// Translation scheme (every path of a body ends in `some …`; `none` = a Go panic):
//
//	x := e                       let x := E                      (locals are never reassigned: refused)
//	v = e  /  a, b = e1, e2      let s := { s with v := E }      (right-hand sides first)
//	v++ / v += e (uint32)        let s := { s with v := u32 (s.v + …) }
//	memoization[k] = e           let s := { s with memo := store s.memo K E }
//	l[i] / l[:n] / l[a:b]        (getAt …).bind fun xN =>  …     hoisted in evaluation order; the right operand
//	                             of || and && is evaluated only when Go evaluates it
//	tree.Add(a, b, c, d)         (tokens32_Add A B C D s.tree).bind fun tN => let s := { s with tree := tN }
//	if c { A }; R                if C then ⟦A; R⟧ else ⟦R⟧        (the rest is duplicated into both branches)
//	x := make([]token32, len(y)); copy(x, y)      let x := Y    (a fresh slice with the elements of y)
//	tree, i := t.tree, int(index) … tree[i] = v   `tree` is an alias of the field: the write goes to t.tree
//
// Fails closed: `untranslatable: jsonpath.peg.go:LINE: why` on any other statement or expression shape, on a
// declared type of a state variable or of token32/memo/memoKey/tokens32 other than the one RuntimeModel.lean
// mirrors, and on slice-typed locals that could alias (see RuntimeModel.lean).
package main

import (
	"fmt"
	"go/ast"
	"go/parser"
	"go/token"
	"os"
	"path/filepath"
	"strconv"
	"strings"
)

func init() { register("pegruntime", genPegRuntime) }

type rtVal struct {
	term string
	typ  string // u32 int rune bool toks runes tok memo key memotab num
}

type rtEnv struct {
	inInit  bool              // closures of Init (state RT) or methods of tokens32 (state List Tok)
	recv    string            // receiver name of a tokens32 method
	locals  map[string]rtVal  // Go name → Lean term
	alias   map[string]string // slice-typed local → state field it aliases
	aliasV  map[string]int    // version of that field when the alias was taken
	version map[string]int    // number of assignments to a state field so far
	window  map[string]bool   // read-only re-slice of a state field (may only be copied)
	ret     string            // "", "bool", "toks"
}

func (e *rtEnv) clone() *rtEnv {
	c := &rtEnv{inInit: e.inInit, recv: e.recv, ret: e.ret, locals: map[string]rtVal{}, alias: map[string]string{},
		aliasV: map[string]int{}, version: map[string]int{}, window: map[string]bool{}}
	for k, v := range e.locals {
		c.locals[k] = v
	}
	for k, v := range e.alias {
		c.alias[k] = v
	}
	for k, v := range e.aliasV {
		c.aliasV[k] = v
	}
	for k, v := range e.version {
		c.version[k] = v
	}
	for k, v := range e.window {
		c.window[k] = v
	}
	return c
}

type rtGen struct {
	fset  *token.FileSet
	path  string
	fresh int
	have  map[string]bool // tokens32 methods translated so far
}

func (g *rtGen) fail(pos token.Pos, why string) {
	panic(pegErr{fmt.Sprintf("untranslatable: %s:%d: %s", filepath.Base(g.path), g.fset.Position(pos).Line, why)})
}

func (g *rtGen) name(prefix string) string {
	g.fresh++
	return prefix + strconv.Itoa(g.fresh)
}

func rtLocalName(n string) string {
	switch n {
	case `end`, `at`, `from`, `do`, `then`, `else`, `fun`, `let`, `in`, `show`, `have`, `open`, `def`, `max`, `s`, `matches`, `match`:
		return n + `_`
	}
	return n
}

// state variables of Init's closures: Go spelling → (field of RT, type)
var rtInitVars = map[string]rtVal{
	`position`: {`position`, `u32`}, `tokenIndex`: {`tokenIndex`, `u32`}, `max`: {`max`, `tok`},
	`buffer`: {`buffer`, `runes`}, `memoization`: {`memo`, `memotab`},
	`tree.tree`: {`tree`, `toks`}, `p.buffer`: {`pbuffer`, `runes`}, `p.disableMemoize`: {`disableMemoize`, `bool`},
}

func rtSelName(e ast.Expr) string {
	if s, ok := e.(*ast.SelectorExpr); ok {
		if x := prIdentName(s.X); x != `` {
			return x + `.` + s.Sel.Name
		}
	}
	return prIdentName(e)
}

// stateRef: is e a state variable? returns the Lean read term, the field name and the type
func (g *rtGen) stateRef(e ast.Expr, env *rtEnv) (read, field, typ string, ok bool) {
	n := rtSelName(e)
	if n == `` {
		return
	}
	if id, isId := e.(*ast.Ident); isId {
		if _, isLocal := env.locals[id.Name]; isLocal {
			return
		}
	}
	if env.inInit {
		if v, has := rtInitVars[n]; has {
			return `s.` + v.term, v.term, v.typ, true
		}
		return
	}
	if n == env.recv+`.tree` {
		return `s`, `tree`, `toks`, true
	}
	return
}

func (g *rtGen) setState(field, term string, env *rtEnv) string {
	env.version[field]++
	if env.inInit {
		return fmt.Sprintf("let s := { s with %s := %s }", field, term)
	}
	return fmt.Sprintf("let s := %s", term)
}

func rtElem(typ string) string {
	switch typ {
	case `toks`:
		return `tok`
	case `runes`:
		return `rune`
	}
	return ``
}

func rtArith(t string) bool { return t == `u32` || t == `int` || t == `rune` || t == `num` }

// unify the types of two operands (an untyped constant takes the other side's type)
func (g *rtGen) unify(pos token.Pos, a, b rtVal) string {
	switch {
	case a.typ == b.typ:
		return a.typ
	case a.typ == `num`:
		return b.typ
	case b.typ == `num`:
		return a.typ
	}
	g.fail(pos, fmt.Sprintf(`operands of types %s and %s`, a.typ, b.typ))
	return ``
}

// expr translates a Go expression; partial operations are appended to *hoist as "(op).bind fun x =>" lines
func (g *rtGen) expr(e ast.Expr, env *rtEnv, hoist *[]string) rtVal {
	switch t := e.(type) {
	case *ast.ParenExpr:
		return g.expr(t.X, env, hoist)
	case *ast.BasicLit:
		if t.Kind == token.INT {
			if _, err := strconv.ParseUint(t.Value, 10, 32); err == nil {
				return rtVal{t.Value, `num`}
			}
		}
		g.fail(t.Pos(), `literal `+t.Value)
	case *ast.Ident:
		if v, ok := env.locals[t.Name]; ok {
			if env.window[t.Name] {
				g.fail(t.Pos(), `the re-slice `+t.Name+` is used other than as the source of make+copy`)
			}
			return v
		}
		switch t.Name {
		case `true`, `false`:
			return rtVal{t.Name, `bool`}
		case `endSymbol`:
			return rtVal{`endSymbol`, `rune`}
		}
		if read, _, typ, ok := g.stateRef(t, env); ok {
			return rtVal{read, typ}
		}
		g.fail(t.Pos(), `identifier `+t.Name)
	case *ast.SelectorExpr:
		if read, _, typ, ok := g.stateRef(t, env); ok {
			return rtVal{read, typ}
		}
		x := g.expr(t.X, env, hoist)
		switch x.typ + `.` + t.Sel.Name {
		case `tok.pegRule`:
			return rtVal{x.term + `.rule`, `u32`}
		case `tok.begin`:
			return rtVal{x.term + `.b`, `u32`}
		case `tok.end`:
			return rtVal{x.term + `.e`, `u32`}
		case `memo.Matched`:
			return rtVal{x.term + `.matched`, `bool`}
		case `memo.Partial`:
			return rtVal{x.term + `.partialToks`, `toks`}
		}
		g.fail(t.Pos(), `selector .`+t.Sel.Name+` on a value of type `+x.typ)
	case *ast.UnaryExpr:
		if t.Op == token.NOT {
			x := g.expr(t.X, env, hoist)
			if x.typ != `bool` {
				g.fail(t.Pos(), `! on a non-boolean`)
			}
			return rtVal{`(!` + x.term + `)`, `bool`}
		}
		g.fail(t.Pos(), `unary operator `+t.Op.String())
	case *ast.BinaryExpr:
		if t.Op == token.LOR || t.Op == token.LAND {
			a := g.expr(t.X, env, hoist)
			var rh []string
			b := g.expr(t.Y, env, &rh)
			if len(rh) > 0 {
				g.fail(t.Y.Pos(), `a partial operation in the right operand of `+t.Op.String()+` outside an if condition`)
			}
			if a.typ != `bool` || b.typ != `bool` {
				g.fail(t.Pos(), `non-boolean operand of `+t.Op.String())
			}
			return rtVal{`(` + a.term + ` ` + t.Op.String() + ` ` + b.term + `)`, `bool`}
		}
		a := g.expr(t.X, env, hoist)
		b := g.expr(t.Y, env, hoist)
		ty := g.unify(t.Pos(), a, b)
		if !rtArith(ty) {
			g.fail(t.Pos(), `operator `+t.Op.String()+` on operands of type `+ty)
		}
		switch t.Op {
		case token.EQL:
			return rtVal{`(` + a.term + ` == ` + b.term + `)`, `bool`}
		case token.NEQ:
			return rtVal{`(` + a.term + ` != ` + b.term + `)`, `bool`}
		case token.LSS, token.LEQ, token.GTR, token.GEQ:
			op := map[token.Token]string{token.LSS: `<`, token.LEQ: `≤`, token.GTR: `>`, token.GEQ: `≥`}[t.Op]
			return rtVal{`(decide (` + a.term + ` ` + op + ` ` + b.term + `))`, `bool`}
		case token.ADD:
			if ty == `u32` {
				return rtVal{`(u32 (` + a.term + ` + ` + b.term + `))`, ty}
			}
			if ty == `int` {
				return rtVal{`(` + a.term + ` + ` + b.term + `)`, ty}
			}
		case token.SUB:
			if ty == `u32` {
				return rtVal{`(u32sub ` + a.term + ` ` + b.term + `)`, ty}
			}
			if ty == `int` {
				return rtVal{`(` + a.term + ` - ` + b.term + `)`, ty}
			}
		}
		g.fail(t.Pos(), `operator `+t.Op.String()+` on operands of type `+ty)
	case *ast.IndexExpr:
		x := g.expr(t.X, env, hoist)
		el := rtElem(x.typ)
		if el == `` {
			g.fail(t.Pos(), `index into a value of type `+x.typ)
		}
		i := g.expr(t.Index, env, hoist)
		v := g.name(`x`)
		switch i.typ {
		case `u32`, `num`:
			*hoist = append(*hoist, fmt.Sprintf("(getAt %s %s).bind fun %s =>", x.term, i.term, v))
		case `int`:
			*hoist = append(*hoist, fmt.Sprintf("(getAtI %s %s).bind fun %s =>", x.term, i.term, v))
		default:
			g.fail(t.Index.Pos(), `index of type `+i.typ)
		}
		return rtVal{v, el}
	case *ast.SliceExpr:
		if t.Slice3 || t.High == nil {
			g.fail(t.Pos(), `slice expression without upper bound or with capacity`)
		}
		x := g.expr(t.X, env, hoist)
		if x.typ != `toks` {
			g.fail(t.Pos(), `slice of a value of type `+x.typ)
		}
		v := g.name(`x`)
		hi := g.expr(t.High, env, hoist)
		if hi.typ != `u32` {
			g.fail(t.High.Pos(), `slice bound of type `+hi.typ)
		}
		if t.Low == nil {
			*hoist = append(*hoist, fmt.Sprintf("(sliceTo %s %s).bind fun %s =>", x.term, hi.term, v))
		} else {
			lo := g.expr(t.Low, env, hoist)
			if lo.typ != `u32` {
				g.fail(t.Low.Pos(), `slice bound of type `+lo.typ)
			}
			*hoist = append(*hoist, fmt.Sprintf("(slice %s %s %s).bind fun %s =>", x.term, lo.term, hi.term, v))
		}
		return rtVal{v, `toks`}
	case *ast.CompositeLit:
		return g.composite(t, env, hoist)
	case *ast.CallExpr:
		return g.call(t, env, hoist)
	}
	g.fail(e.Pos(), fmt.Sprintf(`expression %T`, e))
	return rtVal{}
}

func (g *rtGen) composite(t *ast.CompositeLit, env *rtEnv, hoist *[]string) rtVal {
	fields := func(names []string, zero []string) []string {
		out := append([]string(nil), zero...)
		keyed := false
		for i, el := range t.Elts {
			if kv, ok := el.(*ast.KeyValueExpr); ok {
				keyed = true
				k := prIdentName(kv.Key)
				idx := -1
				for j, n := range names {
					if n == k {
						idx = j
					}
				}
				if idx < 0 {
					g.fail(kv.Pos(), `unknown field `+k)
				}
				out[idx] = g.expr(kv.Value, env, hoist).term
			} else {
				if keyed || len(t.Elts) != len(names) {
					g.fail(el.Pos(), `positional composite literal with the wrong number of fields`)
				}
				out[i] = g.expr(el, env, hoist).term
			}
		}
		return out
	}
	switch prIdentName(t.Type) {
	case `token32`:
		f := fields([]string{`pegRule`, `begin`, `end`}, []string{`0`, `0`, `0`})
		return rtVal{`(⟨` + strings.Join(f, `, `) + `⟩ : Tok)`, `tok`}
	case `memoKey`:
		f := fields([]string{`Rule`, `Position`}, []string{`0`, `0`})
		return rtVal{`((` + strings.Join(f, `, `) + `) : Key)`, `key`}
	case `memo`:
		f := fields([]string{`Matched`, `Partial`}, []string{`false`, `[]`})
		return rtVal{`(⟨` + strings.Join(f, `, `) + `⟩ : Memo)`, `memo`}
	}
	g.fail(t.Pos(), `composite literal of an unknown type`)
	return rtVal{}
}

func (g *rtGen) call(t *ast.CallExpr, env *rtEnv, hoist *[]string) rtVal {
	// []rune(p.Buffer)
	if at, ok := t.Fun.(*ast.ArrayType); ok && at.Len == nil && prIdent(at.Elt, `rune`) && len(t.Args) == 1 {
		if env.inInit && rtSelName(t.Args[0]) == `p.Buffer` {
			return rtVal{`s.Buffer`, `runes`}
		}
		g.fail(t.Pos(), `[]rune(…) of something other than p.Buffer`)
	}
	switch prIdentName(t.Fun) {
	case `len`:
		if len(t.Args) == 1 {
			x := g.expr(t.Args[0], env, hoist)
			if rtElem(x.typ) != `` {
				return rtVal{`(` + x.term + `.length : Int)`, `int`}
			}
		}
	case `int`:
		if len(t.Args) == 1 {
			x := g.expr(t.Args[0], env, hoist)
			if x.typ == `u32` {
				return rtVal{`(` + x.term + ` : Int)`, `int`}
			}
		}
	case `uint32`:
		if len(t.Args) == 1 {
			x := g.expr(t.Args[0], env, hoist)
			if x.typ == `int` {
				return rtVal{`(u32i ` + x.term + `)`, `u32`}
			}
		}
	case `append`:
		if len(t.Args) == 2 {
			x := g.expr(t.Args[0], env, hoist)
			y := g.expr(t.Args[1], env, hoist)
			if t.Ellipsis.IsValid() {
				if x.typ == y.typ && rtElem(x.typ) != `` {
					return rtVal{`(` + x.term + ` ++ ` + y.term + `)`, x.typ}
				}
			} else if rtElem(x.typ) == y.typ && y.typ != `` {
				return rtVal{`(` + x.term + ` ++ [` + y.term + `])`, x.typ}
			}
		}
	case `make`:
		if len(t.Args) == 1 {
			if mt, ok := t.Args[0].(*ast.MapType); ok && prIdent(mt.Key, `memoKey`) && prIdent(mt.Value, `memo`) {
				return rtVal{`([] : List (Key × Memo))`, `memotab`}
			}
		}
	}
	g.fail(t.Pos(), `call `+prPrint(g.fset, t))
	return rtVal{}
}

// cond translates an if condition. The result is a Bool term, or (opt = true) an Option Bool term when the
// right operand of || / && contains a partial operation that Go evaluates only conditionally.
func (g *rtGen) cond(e ast.Expr, env *rtEnv, hoist *[]string) (term string, opt bool) {
	if p, ok := e.(*ast.ParenExpr); ok {
		return g.cond(p.X, env, hoist)
	}
	if b, ok := e.(*ast.BinaryExpr); ok && (b.Op == token.LOR || b.Op == token.LAND) {
		var rh []string
		probe := *g
		probe.expr(b.Y, env, &rh) // only to see whether the right operand is partial
		if len(rh) > 0 {
			l, lopt := g.cond(b.X, env, hoist)
			if lopt {
				g.fail(b.Pos(), `nested conditional partial operations`)
			}
			var rh2 []string
			r := g.expr(b.Y, env, &rh2)
			if r.typ != `bool` {
				g.fail(b.Y.Pos(), `non-boolean operand`)
			}
			inner := strings.Join(rh2, ` `) + ` some ` + r.term
			if b.Op == token.LOR {
				return `(if ` + l + ` then some true else ` + inner + `)`, true
			}
			return `(if ` + l + ` then ` + inner + ` else some false)`, true
		}
	}
	v := g.expr(e, env, hoist)
	if v.typ != `bool` {
		g.fail(e.Pos(), `condition of type `+v.typ)
	}
	return v.term, false
}

func rtIsReturn(st ast.Stmt) bool {
	_, ok := st.(*ast.ReturnStmt)
	return ok
}

func (g *rtGen) finish(env *rtEnv, ind string, pos token.Pos) string {
	if env.ret != `` {
		g.fail(pos, `the function can end without a return`)
	}
	return ind + "some s\n"
}

// stmts translates a statement list followed by nothing (the end of the function body)
func (g *rtGen) stmts(list []ast.Stmt, env *rtEnv, ind string, end token.Pos) string {
	if len(list) == 0 {
		return g.finish(env, ind, end)
	}
	st, rest := list[0], list[1:]
	var hoist []string
	var lines []string
	emit := func() string {
		var b strings.Builder
		for _, h := range hoist {
			b.WriteString(ind + h + "\n")
		}
		for _, l := range lines {
			b.WriteString(ind + l + "\n")
		}
		return b.String()
	}
	switch t := st.(type) {
	case *ast.ReturnStmt:
		if len(rest) != 0 {
			g.fail(rest[0].Pos(), `statement after return`)
		}
		switch {
		case len(t.Results) == 0 && env.ret == ``:
			return ind + "some s\n"
		case len(t.Results) == 1 && env.ret != ``:
			v := g.expr(t.Results[0], env, &hoist)
			if v.typ != env.ret {
				g.fail(t.Pos(), `return of a value of type `+v.typ)
			}
			lines = append(lines, `some (`+v.term+`, s)`)
			return emit()
		}
		g.fail(t.Pos(), `return with the wrong number of results`)
	case *ast.IfStmt:
		if t.Init != nil {
			g.fail(t.Pos(), `if with an init statement`)
		}
		var elseList []ast.Stmt
		if t.Else != nil {
			eb, ok := t.Else.(*ast.BlockStmt)
			if !ok {
				g.fail(t.Else.Pos(), `else that is not a block`)
			}
			elseList = eb.List
		}
		c, opt := g.cond(t.Cond, env, &hoist)
		if opt {
			cv := g.name(`c`)
			hoist = append(hoist, c+`.bind fun `+cv+` =>`)
			c = cv
		}
		branch := func(body []ast.Stmt) string {
			all := append([]ast.Stmt(nil), body...)
			if n := len(body); n == 0 || !rtIsReturn(body[n-1]) {
				all = append(all, rest...) // the rest of the function is duplicated into a branch that falls through
			}
			return g.stmts(all, env.clone(), ind+`  `, end)
		}
		thenS := branch(t.Body.List)
		elseS := branch(elseList)
		return emit() + ind + "if " + c + " then\n" + thenS + ind + "else\n" + elseS
	case *ast.IncDecStmt:
		_, field, typ, ok := g.stateRef(t.X, env)
		if !ok || typ != `u32` || t.Tok != token.INC {
			g.fail(t.Pos(), `++/-- on something other than a uint32 state variable`)
		}
		lines = append(lines, g.setState(field, `u32 (s.`+field+` + 1)`, env))
	case *ast.ExprStmt:
		call, ok := t.X.(*ast.CallExpr)
		if !ok {
			g.fail(t.Pos(), `expression statement`)
		}
		sel, ok := call.Fun.(*ast.SelectorExpr)
		if !ok || !env.inInit || !prIdent(sel.X, `tree`) || !g.have[sel.Sel.Name] || sel.Sel.Name == `Tokens` {
			g.fail(t.Pos(), `call statement `+prPrint(g.fset, call))
		}
		var args []string
		for _, a := range call.Args {
			v := g.expr(a, env, &hoist)
			if v.typ != `u32` {
				g.fail(a.Pos(), `argument of type `+v.typ)
			}
			args = append(args, v.term)
		}
		want := map[string]int{`Add`: 4, `Trim`: 1}[sel.Sel.Name]
		if len(args) != want {
			g.fail(t.Pos(), `wrong number of arguments`)
		}
		tv := g.name(`t`)
		hoist = append(hoist, fmt.Sprintf("(tokens32_%s %s s.tree).bind fun %s =>", sel.Sel.Name, strings.Join(args, ` `), tv))
		lines = append(lines, g.setState(`tree`, tv, env))
	case *ast.AssignStmt:
		switch t.Tok {
		case token.DEFINE:
			// x := make([]token32, len(y)); copy(x, y)
			if len(t.Lhs) == 1 && len(t.Rhs) == 1 {
				if y, ok := g.makeCopy(t, rest, env); ok {
					x := prIdentName(t.Lhs[0])
					src := env.locals[y]
					ln := rtLocalName(x)
					lines = append(lines, fmt.Sprintf("let %s := %s", ln, src.term))
					env.locals[x] = rtVal{ln, src.typ}
					return emit() + g.stmts(rest[1:], env, ind, end)
				}
			}
			if len(t.Lhs) != len(t.Rhs) {
				g.fail(t.Pos(), `:= with a different number of variables and values`)
			}
			type def struct {
				name string
				v    rtVal
				fld  string
				win  bool
			}
			var defs []def
			for i, l := range t.Lhs {
				n := prIdentName(l)
				if n == `` || n == `_` {
					g.fail(l.Pos(), `:= to something other than a new variable`)
				}
				if _, dup := env.locals[n]; dup {
					g.fail(l.Pos(), `local `+n+` is assigned twice`)
				}
				d := def{name: n}
				if _, field, typ, ok := g.stateRef(t.Rhs[i], env); ok && rtElem(typ) != `` {
					d.fld = field
				}
				if se, ok := t.Rhs[i].(*ast.SliceExpr); ok {
					if _, _, _, isState := g.stateRef(se.X, env); isState {
						d.win = true
					}
				}
				d.v = g.expr(t.Rhs[i], env, &hoist)
				if d.v.typ == `num` {
					g.fail(t.Rhs[i].Pos(), `untyped constant`)
				}
				if rtElem(d.v.typ) != `` && d.fld == `` && !d.win {
					g.fail(t.Rhs[i].Pos(), `slice-typed local that is neither an alias of a state field nor a window to copy`)
				}
				defs = append(defs, d)
			}
			for _, d := range defs {
				ln := rtLocalName(d.name)
				lines = append(lines, fmt.Sprintf("let %s := %s", ln, d.v.term))
				env.locals[d.name] = rtVal{ln, d.v.typ}
				if d.fld != `` {
					env.alias[d.name], env.aliasV[d.name] = d.fld, env.version[d.fld]
				}
				if d.win {
					env.window[d.name] = true
				}
			}
		case token.ASSIGN:
			if len(t.Lhs) != len(t.Rhs) {
				g.fail(t.Pos(), `= with a different number of targets and values`)
			}
			// indexed targets
			if len(t.Lhs) == 1 {
				if ix, ok := t.Lhs[0].(*ast.IndexExpr); ok {
					lines = g.indexedAssign(ix, t.Rhs[0], env, &hoist)
					return emit() + g.stmts(rest, env, ind, end)
				}
			}
			var fields, vals []string
			for i, l := range t.Lhs {
				_, field, typ, ok := g.stateRef(l, env)
				if !ok {
					g.fail(l.Pos(), `assignment to something other than a state variable`)
				}
				v := g.expr(t.Rhs[i], env, &hoist)
				if v.typ != typ && !(v.typ == `num` && rtArith(typ)) {
					g.fail(t.Rhs[i].Pos(), fmt.Sprintf(`value of type %s assigned to %s`, v.typ, typ))
				}
				fields, vals = append(fields, field), append(vals, v.term)
			}
			if len(fields) == 1 {
				lines = append(lines, g.setState(fields[0], vals[0], env))
			} else {
				var tmps []string
				for _, v := range vals {
					tv := g.name(`v`)
					lines = append(lines, fmt.Sprintf("let %s := %s", tv, v))
					tmps = append(tmps, tv)
				}
				for i, f := range fields {
					lines = append(lines, g.setState(f, tmps[i], env))
				}
			}
		case token.ADD_ASSIGN:
			if len(t.Lhs) != 1 || len(t.Rhs) != 1 {
				g.fail(t.Pos(), `+= shape`)
			}
			_, field, typ, ok := g.stateRef(t.Lhs[0], env)
			v := g.expr(t.Rhs[0], env, &hoist)
			if !ok || typ != `u32` || (v.typ != `u32` && v.typ != `num`) {
				g.fail(t.Pos(), `+= on something other than a uint32 state variable`)
			}
			lines = append(lines, g.setState(field, `u32 (s.`+field+` + `+v.term+`)`, env))
		default:
			g.fail(t.Pos(), `assignment operator `+t.Tok.String())
		}
	default:
		g.fail(st.Pos(), fmt.Sprintf(`statement %T`, st))
	}
	return emit() + g.stmts(rest, env, ind, end)
}

// makeCopy recognises  x := make([]token32, len(y)) ; copy(x, y)  with y a window local; returns y
func (g *rtGen) makeCopy(t *ast.AssignStmt, rest []ast.Stmt, env *rtEnv) (string, bool) {
	mk, ok := t.Rhs[0].(*ast.CallExpr)
	if !ok || !prIdent(mk.Fun, `make`) {
		return ``, false
	}
	x := prIdentName(t.Lhs[0])
	if len(mk.Args) != 2 || x == `` {
		return ``, false
	}
	at, ok := mk.Args[0].(*ast.ArrayType)
	if !ok || at.Len != nil || !prIdent(at.Elt, `token32`) {
		g.fail(mk.Pos(), `make of something other than []token32`)
	}
	ln, ok := mk.Args[1].(*ast.CallExpr)
	if !ok || !prIdent(ln.Fun, `len`) || len(ln.Args) != 1 {
		g.fail(mk.Pos(), `make([]token32, n) where n is not len(y)`)
	}
	y := prIdentName(ln.Args[0])
	if _, isLocal := env.locals[y]; !isLocal || !env.window[y] {
		g.fail(mk.Pos(), `make([]token32, len(y)) where y is not a local re-slice`)
	}
	if len(rest) == 0 {
		g.fail(t.Pos(), `make without the following copy`)
	}
	es, ok := rest[0].(*ast.ExprStmt)
	if !ok {
		g.fail(rest[0].Pos(), `make without the following copy`)
	}
	cp, ok := es.X.(*ast.CallExpr)
	if !ok || !prIdent(cp.Fun, `copy`) || len(cp.Args) != 2 || !prIdent(cp.Args[0], x) || !prIdent(cp.Args[1], y) {
		g.fail(rest[0].Pos(), `make([]token32, len(`+y+`)) not followed by copy(`+x+`, `+y+`)`)
	}
	return y, true
}

func (g *rtGen) indexedAssign(ix *ast.IndexExpr, rhs ast.Expr, env *rtEnv, hoist *[]string) []string {
	// memoization[key] = v
	if _, field, typ, ok := g.stateRef(ix.X, env); ok && typ == `memotab` {
		k := g.expr(ix.Index, env, hoist)
		v := g.expr(rhs, env, hoist)
		if k.typ != `key` || v.typ != `memo` {
			g.fail(ix.Pos(), `memo table assignment with a key or value of the wrong type`)
		}
		return []string{g.setState(field, fmt.Sprintf("store s.%s %s %s", field, k.term, v.term), env)}
	}
	// alias[i] = v  where alias is a local alias of a slice state field that has not been reassigned since
	n := prIdentName(ix.X)
	field, isAlias := env.alias[n]
	if !isAlias {
		g.fail(ix.Pos(), `indexed assignment to something other than the memo table or an alias of t.tree`)
	}
	if env.version[field] != env.aliasV[n] {
		g.fail(ix.Pos(), `write through `+n+` after the field it aliased was reassigned`)
	}
	i := g.expr(ix.Index, env, hoist)
	v := g.expr(rhs, env, hoist)
	if i.typ != `int` || v.typ != `tok` {
		g.fail(ix.Pos(), `indexed write with an index or value of the wrong type`)
	}
	tv := g.name(`t`)
	read := `s`
	if env.inInit {
		read = `s.` + field
	}
	*hoist = append(*hoist, fmt.Sprintf("(setAtI %s %s %s).bind fun %s =>", read, i.term, v.term, tv))
	return []string{g.setState(field, tv, env)}
}

// params: Lean binders for the Go parameters
func (g *rtGen) params(ft *ast.FuncType, env *rtEnv) string {
	var out []string
	if ft.Params != nil {
		for _, f := range ft.Params.List {
			ty, lt := ``, ``
			switch prIdentName(f.Type) {
			case `uint32`, `pegRule`:
				ty, lt = `u32`, `Nat`
			case `bool`:
				ty, lt = `bool`, `Bool`
			case `memo`:
				ty, lt = `memo`, `Memo`
			default:
				g.fail(f.Pos(), `parameter type `+prPrint(g.fset, f.Type))
			}
			for _, n := range f.Names {
				ln := rtLocalName(n.Name)
				env.locals[n.Name] = rtVal{ln, ty}
				out = append(out, fmt.Sprintf("(%s : %s)", ln, lt))
			}
		}
	}
	env.ret = ``
	if ft.Results != nil && len(ft.Results.List) > 0 {
		if len(ft.Results.List) != 1 || len(ft.Results.List[0].Names) != 0 {
			g.fail(ft.Pos(), `more than one result`)
		}
		switch prPrint(g.fset, ft.Results.List[0].Type) {
		case `bool`:
			env.ret = `bool`
		case `[]token32`:
			env.ret = `toks`
		default:
			g.fail(ft.Pos(), `result type`)
		}
	}
	return strings.Join(out, ` `)
}

func (g *rtGen) function(b *strings.Builder, leanName string, ft *ast.FuncType, body *ast.BlockStmt, env *rtEnv) {
	ps := g.params(ft, env)
	st := `RT`
	if !env.inInit {
		st = `List Tok`
	}
	res := st
	switch env.ret {
	case `bool`:
		res = `Bool × ` + st
	case `toks`:
		res = `List Tok × ` + st
	}
	if ps != `` {
		ps += ` `
	}
	g.fresh = 0
	fmt.Fprintf(b, "/-- jsonpath.peg.go:%d -/\ndef %s %s(s : %s) : Option (%s) :=\n", g.fset.Position(body.Pos()).Line, leanName, ps, st, res)
	b.WriteString(g.stmts(body.List, env, `  `, body.End()))
	b.WriteString("\n")
}

func newRtEnv(inInit bool, recv string) *rtEnv {
	return &rtEnv{inInit: inInit, recv: recv, locals: map[string]rtVal{}, alias: map[string]string{}, aliasV: map[string]int{},
		version: map[string]int{}, window: map[string]bool{}}
}

// the declarations RuntimeModel.lean mirrors
var rtTypeWant = map[string]string{
	`token32`:  `token32 struct { pegRule begin, end uint32 }`,
	`tokens32`: `tokens32 struct { tree []token32 }`,
	`memo`:     `memo struct { Matched bool Partial []token32 }`,
	`memoKey`:  `memoKey struct { Rule uint32 Position uint32 }`,
}

var rtVarWant = []string{`max token32`, `position, tokenIndex uint32`, `buffer []rune`, `memoization map[memoKey]memo`}

func genPegRuntime(repo, out string) (err error) {
	defer func() {
		if x := recover(); x != nil {
			if pe, ok := x.(pegErr); ok {
				err = fmt.Errorf("%s", pe.msg)
				return
			}
			panic(x)
		}
	}()
	path := filepath.Join(repo, `jsonpath.peg.go`)
	src, rerr := os.ReadFile(path)
	if rerr != nil {
		return rerr
	}
	fset := token.NewFileSet()
	file, perr := parser.ParseFile(fset, path, src, parser.ParseComments)
	if perr != nil {
		return fmt.Errorf("untranslatable: %s:1: does not parse: %v", filepath.Base(path), perr)
	}
	// normalisation before translation (normalize.go): the shapes matched below are the canonical ones
	normalizeFileWith(fset, file, normProfilePegRuntime)
	g := &rtGen{fset: fset, path: path, have: map[string]bool{}}

	var initFn *ast.FuncDecl
	methods := map[string]*ast.FuncDecl{}
	pmethods := map[string]*ast.FuncDecl{}
	endSymbol := ``
	seenType := map[string]bool{}
	for _, decl := range file.Decls {
		switch t := decl.(type) {
		case *ast.FuncDecl:
			if t.Recv == nil || len(t.Recv.List) != 1 {
				continue
			}
			st, ok := t.Recv.List[0].Type.(*ast.StarExpr)
			if !ok {
				continue
			}
			switch prIdentName(st.X) {
			case `pegJSONPathParser`:
				if t.Name.Name == `Init` {
					if initFn != nil {
						g.fail(t.Pos(), `two Init methods`)
					}
					initFn = t
				}
				if t.Name.Name == `Parse` || t.Name.Name == `Reset` {
					if _, dup := pmethods[t.Name.Name]; dup {
						g.fail(t.Pos(), `method declared twice`)
					}
					pmethods[t.Name.Name] = t
				}
			case `tokens32`:
				if _, dup := methods[t.Name.Name]; dup {
					g.fail(t.Pos(), `method declared twice`)
				}
				methods[t.Name.Name] = t
			}
		case *ast.GenDecl:
			for _, s := range t.Specs {
				switch sp := s.(type) {
				case *ast.ValueSpec:
					if t.Tok == token.CONST && len(sp.Names) == 1 && sp.Names[0].Name == `endSymbol` {
						if !prIdent(sp.Type, `rune`) || len(sp.Values) != 1 {
							g.fail(sp.Pos(), `endSymbol is not "rune = <literal>"`)
						}
						bl, ok := sp.Values[0].(*ast.BasicLit)
						if !ok || bl.Kind != token.INT || !isDigits(bl.Value) {
							g.fail(sp.Pos(), `endSymbol is not a decimal literal`)
						}
						endSymbol = bl.Value
					}
				case *ast.TypeSpec:
					if want, ok := rtTypeWant[sp.Name.Name]; ok {
						cp := *sp
						cp.Doc, cp.Comment = nil, nil
						if got := prPrint(fset, &cp); got != want {
							g.fail(sp.Pos(), `type `+sp.Name.Name+` is declared as "`+got+`", the Lean vocabulary mirrors "`+want+`"`)
						}
						seenType[sp.Name.Name] = true
					}
				}
			}
		}
	}
	if initFn == nil || initFn.Body == nil {
		g.fail(file.Pos(), `no Init method`)
	}
	if endSymbol == `` {
		g.fail(file.Pos(), `no constant endSymbol`)
	}
	for _, n := range []string{`memo`, `memoKey`, `token32`, `tokens32`} {
		if !seenType[n] {
			g.fail(file.Pos(), `type `+n+` not found`)
		}
	}

	var b strings.Builder
	b.WriteString("/- GENERATED by harness/cmd/translate (pegruntime.go) from jsonpath.peg.go — do not edit.\n\n")
	b.WriteString("The bodies of tokens32.Add/Trim/Tokens and of the closures reset, add, memoize, memoizedResult, matchDot of\n")
	b.WriteString("(*pegJSONPathParser).Init, translated statement by statement (scheme: header of pegruntime.go) over the\n")
	b.WriteString("runtime state `RT` of JPV/Peg/RuntimeModel.lean. `none` = a Go panic (index or slice bound out of range).\n")
	b.WriteString("Also (L30) the closure `parse` of Init and the methods Parse / Reset of the parser: `parse` takes the call\n")
	b.WriteString("`p.rules[r]()` as a parameter `ruleFn r` (none = index out of range, nil entry or a panic inside), publishes the\n")
	b.WriteString("token tree (`p.tokens32 = tree` is `ptree := tree`) and returns `none` for a nil error, `some max` for `&parseError{p, max}`.\n")
	b.WriteString("Theorems about these definitions: JPV/Props/PegRuntimeGen.lean (`PR_*`), JPV/Props/RunGoGen.lean (`RG_Parse_*`).\n-/\n")
	b.WriteString("import JPV.Peg.RuntimeModel\nnamespace JPV.Gen.PegRuntime\nopen JPV.Peg.Runtime\n\n")
	fmt.Fprintf(&b, "/-- `const endSymbol rune` -/\ndef endSymbol : Nat := %s\n\n", endSymbol)

	for _, n := range []string{`Add`, `Trim`, `Tokens`} {
		m := methods[n]
		if m == nil || m.Body == nil {
			g.fail(file.Pos(), `method tokens32.`+n+` not found`)
		}
		if len(m.Recv.List[0].Names) != 1 {
			g.fail(m.Pos(), `receiver without a name`)
		}
		env := newRtEnv(false, m.Recv.List[0].Names[0].Name)
		g.function(&b, `tokens32_`+n, m.Type, m.Body, env)
		g.have[n] = true
	}

	// the state variables of Init and `tree := p.tokens32`
	var varSpecs []string
	treeOK := false
	closures := map[string]*ast.FuncLit{}
	for _, st := range initFn.Body.List {
		switch t := st.(type) {
		case *ast.DeclStmt:
			gd, ok := t.Decl.(*ast.GenDecl)
			if !ok || gd.Tok != token.VAR {
				continue
			}
			for _, s := range gd.Specs {
				vs := s.(*ast.ValueSpec)
				cp := *vs
				cp.Doc, cp.Comment = nil, nil
				if len(vs.Values) != 0 {
					g.fail(vs.Pos(), `state variable with an initial value`)
				}
				varSpecs = append(varSpecs, prPrint(fset, &cp))
			}
		case *ast.AssignStmt:
			if len(t.Lhs) != 1 || len(t.Rhs) != 1 {
				continue
			}
			if t.Tok == token.DEFINE && prIdent(t.Lhs[0], `tree`) {
				if rtSelName(t.Rhs[0]) != `p.tokens32` || treeOK {
					g.fail(t.Pos(), `tree is not "tree := p.tokens32"`)
				}
				treeOK = true
			}
			fl, ok := t.Rhs[0].(*ast.FuncLit)
			if !ok {
				continue
			}
			n := rtSelName(t.Lhs[0])
			switch n {
			case `p.reset`, `p.parse`, `add`, `memoize`, `memoizedResult`, `matchDot`:
				if (n == `p.reset` || n == `p.parse`) != (t.Tok == token.ASSIGN) {
					g.fail(t.Pos(), `closure `+n+` bound with the wrong kind of assignment`)
				}
				if _, dup := closures[n]; dup {
					g.fail(t.Pos(), `closure `+n+` assigned twice`)
				}
				closures[n] = fl
			}
		}
	}
	if strings.Join(varSpecs, `; `) != strings.Join(rtVarWant, `; `) {
		g.fail(initFn.Pos(), `the variables of Init are "`+strings.Join(varSpecs, `; `)+`", the Lean state mirrors "`+strings.Join(rtVarWant, `; `)+`"`)
	}
	if !treeOK {
		g.fail(initFn.Pos(), `no "tree := p.tokens32" in Init`)
	}
	if len(initFn.Recv.List[0].Names) != 1 || initFn.Recv.List[0].Names[0].Name != `p` {
		g.fail(initFn.Pos(), `the receiver of Init is not named p`)
	}
	for _, n := range []string{`p.reset`, `add`, `memoize`, `memoizedResult`, `matchDot`} {
		fl := closures[n]
		if fl == nil {
			g.fail(initFn.Pos(), `closure `+n+` not found in Init`)
		}
		g.function(&b, strings.TrimPrefix(n, `p.`), fl.Type, fl.Body, newRtEnv(true, ``))
	}
	if closures[`p.parse`] == nil {
		g.fail(initFn.Pos(), `closure p.parse not found in Init`)
	}
	g.parseClosure(&b, closures[`p.parse`])
	g.parserMethods(&b, pmethods, file)
	b.WriteString("end JPV.Gen.PegRuntime\n")
	return os.WriteFile(filepath.Join(out, `PegRuntimeGo.lean`), []byte(b.String()), 0o644)
}

// ---------------------------------------------------------------- parse / Parse / Reset (L30)
//
// The closure `p.parse = func(rule ...int) error {…}` of Init, statement by statement, with its own small repertoire
// (anything else is refused):
//
//	x := 1                                   let x : Int := 1
//	if len(v) > 0 { x = v[0] }               (if decide ((v.length : Int) > 0) then getAtI v 0 else some x).bind fun x =>
//	m := p.rules[x]()                        (ruleFn x s).bind fun ms => let m := ms.1; let s := ms.2
//	p.tokens32 = tree                        let s := { s with ptree := s.tree }
//	p.Trim(E)                                (tokens32_Trim E s.ptree).bind fun tN => let s := { s with ptree := tN }
//	if m { A }; R                            if m then ⟦A; R⟧ else ⟦R⟧
//	return nil                               some (none, s)
//	return &parseError{p, E}                 some (some E, s)
func (g *rtGen) parseClosure(b *strings.Builder, fl *ast.FuncLit) {
	ft := fl.Type
	if ft.Params == nil || len(ft.Params.List) != 1 || len(ft.Params.List[0].Names) != 1 {
		g.fail(fl.Pos(), `parse does not have exactly one parameter`)
	}
	ell, ok := ft.Params.List[0].Type.(*ast.Ellipsis)
	if !ok || !prIdent(ell.Elt, `int`) {
		g.fail(fl.Pos(), `the parameter of parse is not "...int"`)
	}
	if ft.Results == nil || len(ft.Results.List) != 1 || len(ft.Results.List[0].Names) != 0 || !prIdent(ft.Results.List[0].Type, `error`) {
		g.fail(fl.Pos(), `the result of parse is not "error"`)
	}
	v := ft.Params.List[0].Names[0].Name
	g.fresh = 0
	pc := &rtParse{g: g, v: v, ints: map[string]bool{}, bools: map[string]bool{}, env: newRtEnv(true, ``)}
	fmt.Fprintf(b, "/-- jsonpath.peg.go:%d — the closure `p.parse`; `ruleFn r` is the call `p.rules[r]()` -/\n", g.fset.Position(fl.Body.Pos()).Line)
	fmt.Fprintf(b, "def parse (ruleFn : Int → RT → Option (Bool × RT)) (%s : List Int) (s : RT) : Option (Option Tok × RT) :=\n", rtLocalName(v))
	b.WriteString(pc.stmts(fl.Body.List, `  `, fl.Body.End()))
	b.WriteString("\n")
}

type rtParse struct {
	g     *rtGen
	v     string
	ints  map[string]bool
	bools map[string]bool
	env   *rtEnv
}

func (pc *rtParse) stmts(list []ast.Stmt, ind string, end token.Pos) string {
	g := pc.g
	if len(list) == 0 {
		g.fail(end, `parse can fall off its end without a return`)
	}
	st, rest := list[0], list[1:]
	switch t := st.(type) {
	case *ast.AssignStmt:
		if len(t.Lhs) != 1 || len(t.Rhs) != 1 {
			g.fail(t.Pos(), `assignment in parse`)
		}
		if t.Tok == token.DEFINE {
			x := prIdentName(t.Lhs[0])
			if x == `` || x == pc.v || pc.ints[x] || pc.bools[x] {
				g.fail(t.Pos(), `definition in parse`)
			}
			if bl, ok := t.Rhs[0].(*ast.BasicLit); ok && bl.Kind == token.INT && isDigits(bl.Value) {
				pc.ints[x] = true
				return ind + "let " + rtLocalName(x) + " : Int := " + bl.Value + "\n" + pc.stmts(rest, ind, end)
			}
			if call, ok := t.Rhs[0].(*ast.CallExpr); ok && len(call.Args) == 0 {
				if ix, ok := call.Fun.(*ast.IndexExpr); ok && rtSelName(ix.X) == `p.rules` && pc.ints[prIdentName(ix.Index)] {
					pc.bools[x] = true
					ms := g.name(`ms`)
					return ind + "(ruleFn " + rtLocalName(prIdentName(ix.Index)) + " s).bind fun " + ms + " =>\n" +
						ind + "let " + rtLocalName(x) + " := " + ms + ".1\n" + ind + "let s := " + ms + ".2\n" + pc.stmts(rest, ind, end)
				}
			}
			g.fail(t.Pos(), `definition in parse: `+prPrint(g.fset, t))
		}
		if t.Tok == token.ASSIGN && rtSelName(t.Lhs[0]) == `p.tokens32` && prIdent(t.Rhs[0], `tree`) {
			return ind + "let s := { s with ptree := s.tree }\n" + pc.stmts(rest, ind, end)
		}
		g.fail(t.Pos(), `assignment in parse: `+prPrint(g.fset, t))
	case *ast.IfStmt:
		if t.Init != nil || t.Else != nil {
			g.fail(t.Pos(), `if with init or else in parse`)
		}
		// if len(v) > 0 { x = v[0] }
		if be, ok := t.Cond.(*ast.BinaryExpr); ok {
			call, ok1 := be.X.(*ast.CallExpr)
			lit, ok2 := be.Y.(*ast.BasicLit)
			if be.Op == token.GTR && ok1 && ok2 && lit.Value == `0` && prIdent(call.Fun, `len`) && len(call.Args) == 1 && prIdent(call.Args[0], pc.v) && len(t.Body.List) == 1 {
				if as, ok := t.Body.List[0].(*ast.AssignStmt); ok && as.Tok == token.ASSIGN && len(as.Lhs) == 1 && len(as.Rhs) == 1 && pc.ints[prIdentName(as.Lhs[0])] {
					if ix, ok := as.Rhs[0].(*ast.IndexExpr); ok && prIdent(ix.X, pc.v) {
						if il, ok := ix.Index.(*ast.BasicLit); ok && il.Kind == token.INT && isDigits(il.Value) {
							x := rtLocalName(prIdentName(as.Lhs[0]))
							vv := rtLocalName(pc.v)
							return ind + "(if decide ((" + vv + ".length : Int) > 0) then getAtI " + vv + " " + il.Value + " else some " + x + ").bind fun " + x + " =>\n" + pc.stmts(rest, ind, end)
						}
					}
				}
			}
			g.fail(t.Pos(), `if in parse: `+prPrint(g.fset, t.Cond))
		}
		m := prIdentName(t.Cond)
		if !pc.bools[m] {
			g.fail(t.Pos(), `if in parse: `+prPrint(g.fset, t.Cond))
		}
		body := append([]ast.Stmt(nil), t.Body.List...)
		if n := len(body); n == 0 || !rtIsReturn(body[n-1]) {
			body = append(body, rest...)
		}
		return ind + "if " + rtLocalName(m) + " then\n" + pc.stmts(body, ind+`  `, end) + ind + "else\n" + pc.stmts(rest, ind+`  `, end)
	case *ast.ExprStmt:
		call, ok := t.X.(*ast.CallExpr)
		if ok && rtSelName(call.Fun) == `p.Trim` && len(call.Args) == 1 && g.have[`Trim`] {
			var hoist []string
			a := g.expr(call.Args[0], pc.env, &hoist)
			if a.typ != `u32` || len(hoist) != 0 {
				g.fail(t.Pos(), `argument of p.Trim`)
			}
			tv := g.name(`t`)
			return ind + "(tokens32_Trim " + a.term + " s.ptree).bind fun " + tv + " =>\n" + ind + "let s := { s with ptree := " + tv + " }\n" + pc.stmts(rest, ind, end)
		}
		g.fail(t.Pos(), `statement in parse: `+prPrint(g.fset, t))
	case *ast.ReturnStmt:
		if len(rest) != 0 || len(t.Results) != 1 {
			g.fail(t.Pos(), `return in parse`)
		}
		if prIdent(t.Results[0], `nil`) {
			return ind + "some (none, s)\n"
		}
		if ue, ok := t.Results[0].(*ast.UnaryExpr); ok && ue.Op == token.AND {
			if cl, ok := ue.X.(*ast.CompositeLit); ok && prIdent(cl.Type, `parseError`) && len(cl.Elts) == 2 && prIdent(cl.Elts[0], `p`) {
				var hoist []string
				e := g.expr(cl.Elts[1], pc.env, &hoist)
				if e.typ != `tok` || len(hoist) != 0 {
					g.fail(t.Pos(), `second field of parseError`)
				}
				return ind + "some (some " + e.term + ", s)\n"
			}
		}
		g.fail(t.Pos(), `return in parse: `+prPrint(g.fset, t))
	}
	g.fail(st.Pos(), `statement in parse: `+prPrint(g.fset, st))
	return ``
}

// (*pegJSONPathParser).Parse = `return p.parse(rule...)`, Reset = `p.reset()`
func (g *rtGen) parserMethods(b *strings.Builder, pm map[string]*ast.FuncDecl, file *ast.File) {
	m := pm[`Parse`]
	if m == nil || m.Body == nil {
		g.fail(file.Pos(), `method Parse not found`)
	}
	ok := len(m.Recv.List[0].Names) == 1 && m.Recv.List[0].Names[0].Name == `p` && len(m.Body.List) == 1 &&
		m.Type.Params != nil && len(m.Type.Params.List) == 1 && len(m.Type.Params.List[0].Names) == 1
	var v string
	if ok {
		v = m.Type.Params.List[0].Names[0].Name
		ell, isEll := m.Type.Params.List[0].Type.(*ast.Ellipsis)
		ok = isEll && prIdent(ell.Elt, `int`) && m.Type.Results != nil && len(m.Type.Results.List) == 1 && prIdent(m.Type.Results.List[0].Type, `error`)
	}
	if ok {
		rs, isRet := m.Body.List[0].(*ast.ReturnStmt)
		ok = isRet && len(rs.Results) == 1
		if ok {
			call, isCall := rs.Results[0].(*ast.CallExpr)
			ok = isCall && rtSelName(call.Fun) == `p.parse` && len(call.Args) == 1 && prIdent(call.Args[0], v) && call.Ellipsis.IsValid()
		}
	}
	if !ok {
		g.fail(m.Pos(), `Parse is not "func (p *pegJSONPathParser) Parse(rule ...int) error { return p.parse(rule...) }"`)
	}
	fmt.Fprintf(b, "/-- jsonpath.peg.go:%d -/\ndef Parse (ruleFn : Int → RT → Option (Bool × RT)) (%s : List Int) (s : RT) : Option (Option Tok × RT) :=\n  parse ruleFn %s s\n\n",
		g.fset.Position(m.Body.Pos()).Line, rtLocalName(v), rtLocalName(v))
	r := pm[`Reset`]
	if r == nil || r.Body == nil {
		g.fail(file.Pos(), `method Reset not found`)
	}
	ok = len(r.Recv.List[0].Names) == 1 && r.Recv.List[0].Names[0].Name == `p` && len(r.Body.List) == 1 &&
		(r.Type.Params == nil || len(r.Type.Params.List) == 0) && (r.Type.Results == nil || len(r.Type.Results.List) == 0)
	if ok {
		es, isExpr := r.Body.List[0].(*ast.ExprStmt)
		ok = isExpr
		if ok {
			call, isCall := es.X.(*ast.CallExpr)
			ok = isCall && rtSelName(call.Fun) == `p.reset` && len(call.Args) == 0
		}
	}
	if !ok {
		g.fail(r.Pos(), `Reset is not "func (p *pegJSONPathParser) Reset() { p.reset() }"`)
	}
	fmt.Fprintf(b, "/-- jsonpath.peg.go:%d -/\ndef Reset (s : RT) : Option (RT) :=\n  reset s\n\n", g.fset.Position(r.Body.Pos()).Line)
}
