// operand_order.go — generator "operand_order": the operand-ordering functions of the parser as
// Lean functions (lean/JPV/Gen/OperandOrder.lean, tie T1; consumed by Lemmas/Ties.lean, Props/Ties.lean).
//
// What is read: in jsonpath_parser.go the six methods pushCompareEQ/NE/GE/GT/LE/LT of *jsonPathParser
// and, transitively, every method of *jsonPathParser they call (except the primitives push and pop).
// A called method is one of
//
//	procedure   func (p *jsonPathParser) f(a, b *syntaxBasicCompareParameter)            -- pushes on the parser stack
//	pure        func (p *jsonPathParser) f(a… *syntaxBasicCompareParameter) (int|bool)   -- e.g. compareParameterRank
//	constructor func (p *jsonPathParser) f(l, r *syntaxBasicCompareParameter, c syntaxComparator) syntaxQuery
//	            { return &syntaxBasicCompareQuery{leftParam: …, rightParam: …, comparator: …} }
//
// Translation (operands are abstract `Ties.Opnd`: kind of `param`, the `isLiteral` flag, and which argument
// it was; the parser stack is a `List QTag`):
//
//	procedure f            `f : Nat → Opnd → … → Stack → Except PushErr Stack`, all procedures in one `mutual`
//	                       block, structurally recursive on the first argument (fuel); fuel 0 = `.error .outOfFuel`;
//	                       a call of a procedure passes the predecessor fuel — so an endless mutual recursion
//	                       shows as outOfFuel for every fuel
//	if c { A } [else {B}]; R      `if c then ⟦A; R⟧ else ⟦B; R⟧`   (R is dropped after a `return`)
//	if x, ok := v.param.(*syntaxQueryParam(Literal|Root|CurrentRoot)); ok { A }; R
//	                       `if v.param.is…Param then (let x := v; ⟦A; R⟧) else ⟦R⟧`
//	switch x.literal[0].(type) { case float64|bool|string|nil: A … [default: D] }; R
//	                       `match x.param.litTy with | .float64 => ⟦A; R⟧ … | _ => ⟦D; R⟧`
//	a, b = b, a            `let (a, b) := (b, a)`
//	p.push(Q)              `let stk := Q :: stk`
//	p.pop().(syntaxQuery)  `match stk with | [] => .error .popEmpty | q :: stk => …` (at most one per statement)
//	p.f(a, b)              `match f fuel a b stk with | .error e => .error e | .ok stk => …`
//	&syntaxCompareXX{}, &syntaxCompareDirectEQ{syntaxTypeValidator: &syntaxBasicYTypeValidator{}}   a `CmpTag`
//	&syntaxLogicalNot{query: Q}   `.not Q`;   &syntaxBasicCompareQuery{…}   `.cmp l r c`
//	pure bodies: `if c { return e }`, the type-assertion `if`, `return e` with e built from integer literals,
//	true/false, v.isLiteral, calls of pure methods, comparisons, && || !
//
// Anything else stops with `untranslatable: file:line: why`.
package main

import (
	"fmt"
	"go/ast"
	"go/token"
	"strings"
)

func init() { register("operand_order", genOperandOrder) }

const ooFile = "jsonpath_parser.go"

var ooRoots = []string{"pushCompareEQ", "pushCompareNE", "pushCompareGE", "pushCompareGT", "pushCompareLE", "pushCompareLT"}

var ooParamTypes = map[string]string{
	"syntaxQueryParamLiteral":     "isLiteralParam",
	"syntaxQueryParamRoot":        "isRootParam",
	"syntaxQueryParamCurrentRoot": "isCurrentRootParam",
}

var ooPlainCmp = map[string]string{
	"syntaxCompareDeepEQ": ".deepEQ",
	"syntaxCompareLT":     ".lt",
	"syntaxCompareLE":     ".le",
	"syntaxCompareGT":     ".gt",
	"syntaxCompareGE":     ".ge",
}

var ooLitCase = map[string]string{"float64": ".float64", "bool": ".bool", "string": ".string", "nil": ".nil"}

type ooKind int

const (
	ooProc ooKind = iota
	ooPure
	ooCtor
)

type ooFunc struct {
	name   string
	kind   ooKind
	decl   *ast.FuncDecl
	recv   string
	params []string
	ret    string // "Int" | "Bool" for pure
	lean   []string
	calls  []string // pure callees (for ordering)
}

type ooGen struct {
	s       *tiSrc
	methods map[string]*ast.FuncDecl
	funcs   map[string]*ooFunc
	order   []string // discovery order
}

func ooIsOpndPtr(e ast.Expr) bool {
	st, ok := e.(*ast.StarExpr)
	return ok && tiIsIdent(st.X, "syntaxBasicCompareParameter")
}

func (g *ooGen) ident(n ast.Node, name string) (string, error) {
	if name == "_" || name == "" {
		return "", g.s.bad(n, "blank identifier")
	}
	if leanReservedOO[name] || name == "stk" || name == "fuel" || strings.HasPrefix(name, "popped") {
		return "", g.s.bad(n, "identifier %q cannot be used in the Lean output", name)
	}
	for _, r := range name {
		if !(r == '_' || r >= '0' && r <= '9' || r >= 'a' && r <= 'z' || r >= 'A' && r <= 'Z') {
			return "", g.s.bad(n, "identifier %q cannot be used in the Lean output", name)
		}
	}
	return name, nil
}

var leanReservedOO = map[string]bool{}

func init() {
	for _, w := range strings.Fields(`abbrev at axiom break by calc catch class continue def deriving do else end example
		export extends finally for from fun have if import in inductive infix infixl infixr instance let macro match mut mutual
		namespace nomatch nofun notation obtain open opaque partial postfix prefix private protected return section show
		structure suffices syntax then theorem try universe unless unsafe using variable where while with
		Type Sort Prop Int Nat Bool List Except Opnd Stack QTag CmpTag`) {
		leanReservedOO[w] = true
	}
}

// need classifies method `name` (declaring it on first use) and returns it.
func (g *ooGen) need(at ast.Node, name string) (*ooFunc, error) {
	if f, ok := g.funcs[name]; ok {
		return f, nil
	}
	fd, ok := g.methods[name]
	if !ok {
		return nil, g.s.bad(at, "method %s of *jsonPathParser not found in %s", name, ooFile)
	}
	if _, err := g.ident(fd, name); err != nil {
		return nil, err
	}
	_, recv, ptr := tiRecvType(fd)
	if !ptr || fd.Type.TypeParams != nil || fd.Body == nil {
		return nil, g.s.bad(fd, "method %s: expected a pointer receiver and a body", name)
	}
	f := &ooFunc{name: name, decl: fd, recv: recv}
	pn, pt := tiFlatParams(fd.Type.Params)
	rn, rt := tiFlatParams(fd.Type.Results)
	nOpnd := 0
	for i := range pn {
		if ooIsOpndPtr(pt[i]) {
			nOpnd++
		}
		id, err := g.ident(fd, pn[i])
		if err != nil {
			return nil, err
		}
		f.params = append(f.params, id)
	}
	for i := range f.params {
		for j := 0; j < i; j++ {
			if f.params[i] == f.params[j] {
				return nil, g.s.bad(fd, "duplicate parameter name")
			}
		}
		if f.params[i] == recv {
			return nil, g.s.bad(fd, "parameter shadows the receiver")
		}
	}
	switch {
	case len(rn) == 0 && nOpnd == len(pn) && len(pn) >= 1:
		f.kind = ooProc
	case len(rn) == 1 && rn[0] == "" && nOpnd == len(pn) && len(pn) >= 1 && (tiIsIdent(rt[0], "int") || tiIsIdent(rt[0], "bool")):
		f.kind = ooPure
		if tiIsIdent(rt[0], "int") {
			f.ret = "Int"
		} else {
			f.ret = "Bool"
		}
	case len(rn) == 1 && rn[0] == "" && tiIsIdent(rt[0], "syntaxQuery") && len(pn) == 3 &&
		ooIsOpndPtr(pt[0]) && ooIsOpndPtr(pt[1]) && tiIsIdent(pt[2], "syntaxComparator"):
		f.kind = ooCtor
	default:
		return nil, g.s.bad(fd, "method %s has a signature outside the modelled set", name)
	}
	g.funcs[name] = f
	g.order = append(g.order, name)
	return f, nil
}

// ---------- pure functions ----------

type ooEnv map[string]string // variable -> "opnd" | "lit" (a literal view of an operand) | "cmp" (ctor's comparator)

func (e ooEnv) with(name, kind string) ooEnv {
	n := ooEnv{}
	for k, v := range e {
		n[k] = v
	}
	n[name] = kind
	return n
}

// recvCall returns (method name, args) when e is `recv.m(args…)`.
func ooRecvCall(e ast.Expr, recv string) (string, []ast.Expr, bool) {
	call, ok := e.(*ast.CallExpr)
	if !ok || call.Ellipsis.IsValid() || recv == "" {
		return "", nil, false
	}
	sel, ok := call.Fun.(*ast.SelectorExpr)
	if !ok || !tiIsIdent(sel.X, recv) {
		return "", nil, false
	}
	return sel.Sel.Name, call.Args, true
}

func (g *ooGen) opndArgs(f *ooFunc, env ooEnv, callee *ooFunc, args []ast.Expr, at ast.Node) (string, error) {
	if len(args) != len(callee.params) {
		return "", g.s.bad(at, "wrong number of arguments for %s", callee.name)
	}
	var out []string
	for _, a := range args {
		id, ok := a.(*ast.Ident)
		if !ok || env[id.Name] != "opnd" {
			return "", g.s.bad(a, "argument %q is not an operand variable", g.s.str(a))
		}
		out = append(out, id.Name)
	}
	return strings.Join(out, " "), nil
}

// pureExpr translates an int/bool expression; returns the Lean text and its type.
func (g *ooGen) pureExpr(f *ooFunc, env ooEnv, e ast.Expr) (string, string, error) {
	switch x := e.(type) {
	case *ast.ParenExpr:
		return g.pureExpr(f, env, x.X)
	case *ast.BasicLit:
		if x.Kind == token.INT {
			for _, r := range x.Value {
				if r < '0' || r > '9' {
					return "", "", g.s.bad(e, "integer literal %s", x.Value)
				}
			}
			return "(" + x.Value + " : Int)", "Int", nil
		}
	case *ast.Ident:
		if x.Name == "true" || x.Name == "false" {
			return x.Name, "Bool", nil
		}
	case *ast.SelectorExpr:
		if id, ok := x.X.(*ast.Ident); ok && env[id.Name] == "opnd" && x.Sel.Name == "isLiteral" {
			return id.Name + ".isLiteral", "Bool", nil
		}
	case *ast.UnaryExpr:
		if x.Op == token.NOT {
			a, t, err := g.pureExpr(f, env, x.X)
			if err != nil {
				return "", "", err
			}
			if t != "Bool" {
				return "", "", g.s.bad(e, "! on a non-Boolean")
			}
			return "(!" + a + ")", "Bool", nil
		}
	case *ast.BinaryExpr:
		a, ta, err := g.pureExpr(f, env, x.X)
		if err != nil {
			return "", "", err
		}
		b, tb, err := g.pureExpr(f, env, x.Y)
		if err != nil {
			return "", "", err
		}
		if ta != tb {
			return "", "", g.s.bad(e, "operands of different types")
		}
		switch x.Op {
		case token.LAND, token.LOR:
			if ta != "Bool" {
				return "", "", g.s.bad(e, "logical operator on integers")
			}
			op := "&&"
			if x.Op == token.LOR {
				op = "||"
			}
			return "(" + a + " " + op + " " + b + ")", "Bool", nil
		case token.LSS, token.LEQ, token.GTR, token.GEQ:
			if ta != "Int" {
				return "", "", g.s.bad(e, "ordering on Booleans")
			}
			op := map[token.Token]string{token.LSS: "<", token.LEQ: "≤", token.GTR: ">", token.GEQ: "≥"}[x.Op]
			return "(decide (" + a + " " + op + " " + b + "))", "Bool", nil
		case token.EQL:
			return "(" + a + " == " + b + ")", "Bool", nil
		case token.NEQ:
			return "(" + a + " != " + b + ")", "Bool", nil
		}
	case *ast.CallExpr:
		if name, args, ok := ooRecvCall(e, f.recv); ok {
			if name == "push" || name == "pop" {
				return "", "", g.s.bad(e, "stack access in an expression")
			}
			callee, err := g.need(e, name)
			if err != nil {
				return "", "", err
			}
			if callee.kind != ooPure {
				return "", "", g.s.bad(e, "%s is not a pure helper", name)
			}
			as, err := g.opndArgs(f, env, callee, args, e)
			if err != nil {
				return "", "", err
			}
			f.calls = append(f.calls, name)
			return "(" + name + " " + as + ")", callee.ret, nil
		}
	}
	return "", "", g.s.bad(e, "expression %q is outside the modelled set", g.s.str(e))
}

// assertIf recognises `if x, ok := v.param.(*T); ok {` and returns (x, v, predicate).
func (g *ooGen) assertIf(env ooEnv, is *ast.IfStmt) (x, v, pred string, ok bool, err error) {
	as, isAssign := is.Init.(*ast.AssignStmt)
	if is.Init == nil {
		return "", "", "", false, nil
	}
	if !isAssign || as.Tok != token.DEFINE || len(as.Lhs) != 2 || len(as.Rhs) != 1 {
		return "", "", "", false, g.s.bad(is, "if-initialiser outside the modelled set")
	}
	okId, isId := as.Lhs[1].(*ast.Ident)
	xId, isId2 := as.Lhs[0].(*ast.Ident)
	if !isId || !isId2 || okId.Name == "_" || !tiIsIdent(is.Cond, okId.Name) || env[okId.Name] != "" {
		return "", "", "", false, g.s.bad(is, "expected `if x, ok := v.param.(*T); ok`")
	}
	ta, isTa := as.Rhs[0].(*ast.TypeAssertExpr)
	if !isTa || ta.Type == nil {
		return "", "", "", false, g.s.bad(is, "expected `if x, ok := v.param.(*T); ok`")
	}
	sel, isSel := ta.X.(*ast.SelectorExpr)
	if !isSel || sel.Sel.Name != "param" {
		return "", "", "", false, g.s.bad(is, "expected `if x, ok := v.param.(*T); ok`")
	}
	vId, isV := sel.X.(*ast.Ident)
	if !isV || env[vId.Name] != "opnd" {
		return "", "", "", false, g.s.bad(is, "type assertion on something that is not an operand's param")
	}
	star, isStar := ta.Type.(*ast.StarExpr)
	if !isStar {
		return "", "", "", false, g.s.bad(ta.Type, "asserted type outside the modelled set")
	}
	tid, isT := star.X.(*ast.Ident)
	if !isT || ooParamTypes[tid.Name] == "" {
		return "", "", "", false, g.s.bad(ta.Type, "asserted type outside the modelled set")
	}
	x = xId.Name
	if x != "_" {
		if _, err := g.ident(xId, x); err != nil {
			return "", "", "", false, err
		}
		if env[x] != "" || x == okId.Name {
			return "", "", "", false, g.s.bad(xId, "shadowing")
		}
		if tid.Name != "syntaxQueryParamLiteral" {
			// a root / current-root view has nothing we model: only `_` may be bound
			return "", "", "", false, g.s.bad(xId, "binding a non-literal param view")
		}
	}
	return x, vId.Name, ooParamTypes[tid.Name], true, nil
}

func ooTerminates(ss []ast.Stmt) bool {
	if len(ss) == 0 {
		return false
	}
	switch l := ss[len(ss)-1].(type) {
	case *ast.ReturnStmt:
		return true
	case *ast.IfStmt:
		if l.Else == nil {
			return false
		}
		eb, ok := l.Else.(*ast.BlockStmt)
		return ok && ooTerminates(l.Body.List) && ooTerminates(eb.List)
	}
	return false
}

func ooInd(n int) string { return strings.Repeat("  ", n) }

// pureStmts translates a terminating statement list of a pure function.
func (g *ooGen) pureStmts(f *ooFunc, env ooEnv, ss []ast.Stmt, at ast.Node, d int) ([]string, error) {
	if len(ss) == 0 {
		return nil, g.s.bad(at, "control reaches the end of a function with a result")
	}
	switch st := ss[0].(type) {
	case *ast.ReturnStmt:
		if len(st.Results) != 1 {
			return nil, g.s.bad(st, "return without exactly one value")
		}
		e, t, err := g.pureExpr(f, env, st.Results[0])
		if err != nil {
			return nil, err
		}
		if t != f.ret {
			return nil, g.s.bad(st, "returned value has the wrong type")
		}
		return []string{ooInd(d) + e}, nil
	case *ast.IfStmt:
		var cond string
		thenEnv := env
		x, v, pred, isAssert, err := g.assertIf(env, st)
		if err != nil {
			return nil, err
		}
		if isAssert {
			cond = v + ".param." + pred
			if x != "_" {
				return nil, g.s.bad(st, "binding the asserted value in a pure helper")
			}
		} else {
			c, t, err := g.pureExpr(f, env, st.Cond)
			if err != nil {
				return nil, err
			}
			if t != "Bool" {
				return nil, g.s.bad(st.Cond, "condition is not Boolean")
			}
			cond = c
		}
		thenSS := append(append([]ast.Stmt{}, st.Body.List...), nil...)
		var elseSS []ast.Stmt
		if st.Else != nil {
			eb, ok := st.Else.(*ast.BlockStmt)
			if !ok {
				return nil, g.s.bad(st.Else, "else-if")
			}
			elseSS = eb.List
		}
		rest := ss[1:]
		if !ooTerminates(thenSS) {
			thenSS = append(thenSS, rest...)
		}
		if !ooTerminates(elseSS) {
			elseSS = append(append([]ast.Stmt{}, elseSS...), rest...)
		}
		a, err := g.pureStmts(f, thenEnv, thenSS, st, d+1)
		if err != nil {
			return nil, err
		}
		b, err := g.pureStmts(f, env, elseSS, st, d+1)
		if err != nil {
			return nil, err
		}
		out := []string{ooInd(d) + "if " + cond + " then"}
		out = append(out, a...)
		out = append(out, ooInd(d)+"else")
		out = append(out, b...)
		return out, nil
	}
	return nil, g.s.bad(ss[0], "statement %q in a pure helper", g.s.str(ss[0]))
}

// ---------- constructor ----------

func (g *ooGen) ctorBody(f *ooFunc) error {
	b := f.decl.Body.List
	if len(b) != 1 {
		return g.s.bad(f.decl, "constructor helper must be a single return")
	}
	rs, ok := b[0].(*ast.ReturnStmt)
	if !ok || len(rs.Results) != 1 {
		return g.s.bad(b[0], "constructor helper must be a single return")
	}
	env := ooEnv{f.params[0]: "opnd", f.params[1]: "opnd", f.params[2]: "cmp"}
	q, err := g.queryLit(f, env, rs.Results[0])
	if err != nil {
		return err
	}
	f.lean = []string{
		fmt.Sprintf("def %s (%s %s : Opnd) (%s : CmpTag) : QTag :=", f.name, f.params[0], f.params[1], f.params[2]),
		"  " + q,
	}
	return nil
}

// addrLit returns (type name, key→value) of `&T{k: v, …}`.
func (g *ooGen) addrLit(e ast.Expr) (string, map[string]ast.Expr, *ast.CompositeLit, bool, error) {
	u, ok := e.(*ast.UnaryExpr)
	if !ok || u.Op != token.AND {
		return "", nil, nil, false, nil
	}
	cl, ok := u.X.(*ast.CompositeLit)
	if !ok {
		return "", nil, nil, false, nil
	}
	tid, ok := cl.Type.(*ast.Ident)
	if !ok {
		return "", nil, nil, false, g.s.bad(e, "composite literal of a non-local type")
	}
	kv := map[string]ast.Expr{}
	for _, el := range cl.Elts {
		k, ok := el.(*ast.KeyValueExpr)
		if !ok {
			return "", nil, nil, false, g.s.bad(el, "positional field in a composite literal")
		}
		kid, ok := k.Key.(*ast.Ident)
		if !ok || kv[kid.Name] != nil {
			return "", nil, nil, false, g.s.bad(el, "field key")
		}
		kv[kid.Name] = k.Value
	}
	return tid.Name, kv, cl, true, nil
}

func (g *ooGen) cmpExpr(f *ooFunc, env ooEnv, e ast.Expr) (string, error) {
	if id, ok := e.(*ast.Ident); ok && env[id.Name] == "cmp" {
		return id.Name, nil
	}
	typ, kv, _, ok, err := g.addrLit(e)
	if err != nil {
		return "", err
	}
	if !ok {
		return "", g.s.bad(e, "comparator expression %q is outside the modelled set", g.s.str(e))
	}
	if tag, ok := ooPlainCmp[typ]; ok {
		if len(kv) != 0 {
			return "", g.s.bad(e, "%s constructed with fields", typ)
		}
		return tag, nil
	}
	if typ == "syntaxCompareDirectEQ" {
		v, ok := kv["syntaxTypeValidator"]
		if !ok || len(kv) != 1 {
			return "", g.s.bad(e, "expected &syntaxCompareDirectEQ{syntaxTypeValidator: &V{}}")
		}
		vt, vkv, _, ok, err := g.addrLit(v)
		if err != nil {
			return "", err
		}
		if !ok || len(vkv) != 0 || cpValidatorRef[vt] == "" {
			return "", g.s.bad(v, "validator expression %q is outside the modelled set", g.s.str(v))
		}
		return "(.directEQ ." + cpValidatorRef[vt] + ")", nil
	}
	return "", g.s.bad(e, "comparator type %s is outside the modelled set", typ)
}

// queryLit translates a query-valued expression without stack access
// (pops have been replaced by identifiers of kind "query" in env).
func (g *ooGen) queryLit(f *ooFunc, env ooEnv, e ast.Expr) (string, error) {
	if id, ok := e.(*ast.Ident); ok && env[id.Name] == "query" {
		return id.Name, nil
	}
	if name, args, ok := ooRecvCall(e, f.recv); ok {
		if name == "push" || name == "pop" {
			return "", g.s.bad(e, "stack access inside an expression")
		}
		callee, err := g.need(e, name)
		if err != nil {
			return "", err
		}
		if callee.kind != ooCtor {
			return "", g.s.bad(e, "%s is not a query constructor", name)
		}
		if len(args) != 3 {
			return "", g.s.bad(e, "wrong number of arguments")
		}
		as, err := g.opndArgs(f, env, &ooFunc{name: name, params: callee.params[:2]}, args[:2], e)
		if err != nil {
			return "", err
		}
		c, err := g.cmpExpr(f, env, args[2])
		if err != nil {
			return "", err
		}
		return "(" + name + " " + as + " " + c + ")", nil
	}
	typ, kv, _, ok, err := g.addrLit(e)
	if err != nil {
		return "", err
	}
	if ok {
		switch typ {
		case "syntaxBasicCompareQuery":
			l, okl := kv["leftParam"].(*ast.Ident)
			r, okr := kv["rightParam"].(*ast.Ident)
			c := kv["comparator"]
			if len(kv) != 3 || !okl || !okr || c == nil || env[l.Name] != "opnd" || env[r.Name] != "opnd" {
				return "", g.s.bad(e, "expected &syntaxBasicCompareQuery{leftParam: a, rightParam: b, comparator: c}")
			}
			ct, err := g.cmpExpr(f, env, c)
			if err != nil {
				return "", err
			}
			return "(.cmp " + l.Name + " " + r.Name + " " + ct + ")", nil
		case "syntaxLogicalNot":
			q := kv["query"]
			if len(kv) != 1 || q == nil {
				return "", g.s.bad(e, "expected &syntaxLogicalNot{query: q}")
			}
			qt, err := g.queryLit(f, env, q)
			if err != nil {
				return "", err
			}
			return "(.not " + qt + ")", nil
		}
	}
	return "", g.s.bad(e, "query expression %q is outside the modelled set", g.s.str(e))
}

// ---------- procedures ----------

// hoistPop replaces the single `recv.pop().(syntaxQuery)` inside e (if any) by the identifier `popped`.
func (g *ooGen) hoistPop(f *ooFunc, e ast.Expr) (ast.Expr, int, error) {
	count := 0
	var bad error
	var rewrite func(e ast.Expr) ast.Expr
	isPop := func(e ast.Expr) bool {
		name, args, ok := ooRecvCall(e, f.recv)
		return ok && name == "pop" && len(args) == 0
	}
	rewrite = func(e ast.Expr) ast.Expr {
		switch x := e.(type) {
		case *ast.TypeAssertExpr:
			if isPop(x.X) {
				if x.Type == nil || !tiIsIdent(x.Type, "syntaxQuery") {
					bad = g.s.bad(e, "popped value asserted to something other than syntaxQuery")
					return e
				}
				count++
				return &ast.Ident{NamePos: e.Pos(), Name: "popped"}
			}
		case *ast.CallExpr:
			if isPop(x) {
				bad = g.s.bad(e, "p.pop() without `.(syntaxQuery)`")
				return e
			}
			n := *x
			n.Args = nil
			for _, a := range x.Args {
				n.Args = append(n.Args, rewrite(a))
			}
			return &n
		case *ast.UnaryExpr:
			n := *x
			n.X = rewrite(x.X)
			return &n
		case *ast.CompositeLit:
			n := *x
			n.Elts = nil
			for _, el := range x.Elts {
				if kv, ok := el.(*ast.KeyValueExpr); ok {
					k := *kv
					k.Value = rewrite(kv.Value)
					n.Elts = append(n.Elts, &k)
				} else {
					n.Elts = append(n.Elts, rewrite(el))
				}
			}
			return &n
		case *ast.ParenExpr:
			return rewrite(x.X)
		}
		return e
	}
	out := rewrite(e)
	if bad != nil {
		return nil, 0, bad
	}
	if count > 1 {
		return nil, 0, g.s.bad(e, "more than one pop in one statement")
	}
	return out, count, nil
}

// procStmts translates ss followed by "return the stack".
func (g *ooGen) procStmts(f *ooFunc, env ooEnv, ss []ast.Stmt, d int) ([]string, error) {
	if len(ss) == 0 {
		return []string{ooInd(d) + ".ok stk"}, nil
	}
	rest := ss[1:]
	switch st := ss[0].(type) {
	case *ast.ReturnStmt:
		if len(st.Results) != 0 {
			return nil, g.s.bad(st, "return with a value in a procedure")
		}
		return []string{ooInd(d) + ".ok stk"}, nil

	case *ast.ExprStmt:
		name, args, ok := ooRecvCall(st.X, f.recv)
		if !ok {
			return nil, g.s.bad(st, "statement %q is outside the modelled set", g.s.str(st))
		}
		if name == "push" {
			if len(args) != 1 {
				return nil, g.s.bad(st, "push with %d arguments", len(args))
			}
			arg, pops, err := g.hoistPop(f, args[0])
			if err != nil {
				return nil, err
			}
			var out []string
			env2 := env
			dd := d
			if pops == 1 {
				if env["popped"] != "" {
					return nil, g.s.bad(st, "identifier clash")
				}
				out = append(out, ooInd(d)+"match stk with", ooInd(d)+"| [] => .error .popEmpty", ooInd(d)+"| popped :: stk =>")
				env2 = env.with("popped", "query")
				dd = d + 1
			}
			q, err := g.queryLit(f, env2, arg)
			if err != nil {
				return nil, err
			}
			out = append(out, ooInd(dd)+"let stk := "+q+" :: stk")
			k, err := g.procStmts(f, env, rest, dd)
			if err != nil {
				return nil, err
			}
			return append(out, k...), nil
		}
		if name == "pop" {
			return nil, g.s.bad(st, "pop as a statement")
		}
		callee, err := g.need(st, name)
		if err != nil {
			return nil, err
		}
		if callee.kind != ooProc {
			return nil, g.s.bad(st, "call of %s as a statement", name)
		}
		as, err := g.opndArgs(f, env, callee, args, st)
		if err != nil {
			return nil, err
		}
		out := []string{
			ooInd(d) + "match " + name + " fuel " + as + " stk with",
			ooInd(d) + "| .error e => .error e",
			ooInd(d) + "| .ok stk =>",
		}
		k, err := g.procStmts(f, env, rest, d+1)
		if err != nil {
			return nil, err
		}
		return append(out, k...), nil

	case *ast.AssignStmt:
		if st.Tok != token.ASSIGN || len(st.Lhs) != len(st.Rhs) {
			return nil, g.s.bad(st, "assignment %q is outside the modelled set", g.s.str(st))
		}
		var l, r []string
		for i := range st.Lhs {
			a, oka := st.Lhs[i].(*ast.Ident)
			b, okb := st.Rhs[i].(*ast.Ident)
			if !oka || !okb || env[a.Name] != "opnd" || env[b.Name] != "opnd" {
				return nil, g.s.bad(st, "assignment %q is outside the modelled set", g.s.str(st))
			}
			for _, prev := range l {
				if prev == a.Name {
					return nil, g.s.bad(st, "variable assigned twice")
				}
			}
			l = append(l, a.Name)
			r = append(r, b.Name)
		}
		line := ""
		if len(l) == 1 {
			line = "let " + l[0] + " := " + r[0]
		} else {
			line = "let (" + strings.Join(l, ", ") + ") := (" + strings.Join(r, ", ") + ")"
		}
		k, err := g.procStmts(f, env, rest, d)
		if err != nil {
			return nil, err
		}
		return append([]string{ooInd(d) + line}, k...), nil

	case *ast.IfStmt:
		var cond string
		var bind string
		thenEnv := env
		x, v, pred, isAssert, err := g.assertIf(env, st)
		if err != nil {
			return nil, err
		}
		if isAssert {
			cond = v + ".param." + pred
			if x != "_" {
				bind = "let " + x + " := " + v
				thenEnv = env.with(x, "lit")
			}
		} else {
			c, t, err := g.pureExpr(f, env, st.Cond)
			if err != nil {
				return nil, err
			}
			if t != "Bool" {
				return nil, g.s.bad(st.Cond, "condition is not Boolean")
			}
			cond = c
		}
		thenSS := append([]ast.Stmt{}, st.Body.List...)
		thenSS = append(thenSS, rest...)
		var elseSS []ast.Stmt
		if st.Else != nil {
			eb, ok := st.Else.(*ast.BlockStmt)
			if !ok {
				return nil, g.s.bad(st.Else, "else-if")
			}
			elseSS = append(elseSS, eb.List...)
		}
		elseSS = append(elseSS, rest...)
		// statements after a `return` inside the block are dropped by procStmts itself; but a `return`
		// in the middle of a block would make the appended rest unreachable only if it is the last one:
		for i, s2 := range st.Body.List {
			if _, isRet := s2.(*ast.ReturnStmt); isRet && i != len(st.Body.List)-1 {
				return nil, g.s.bad(s2, "return in the middle of a block")
			}
		}
		a, err := g.procStmts(f, thenEnv, thenSS, d+1)
		if err != nil {
			return nil, err
		}
		b, err := g.procStmts(f, env, elseSS, d+1)
		if err != nil {
			return nil, err
		}
		out := []string{ooInd(d) + "if " + cond + " then"}
		if bind != "" {
			out = append(out, ooInd(d+1)+bind)
		}
		out = append(out, a...)
		out = append(out, ooInd(d)+"else")
		out = append(out, b...)
		return out, nil

	case *ast.TypeSwitchStmt:
		if st.Init != nil {
			return nil, g.s.bad(st, "type switch with an initialiser")
		}
		es, ok := st.Assign.(*ast.ExprStmt)
		if !ok {
			return nil, g.s.bad(st, "type switch binding a variable")
		}
		ta, ok := es.X.(*ast.TypeAssertExpr)
		if !ok || ta.Type != nil {
			return nil, g.s.bad(st, "type switch header")
		}
		ix, ok := ta.X.(*ast.IndexExpr)
		if !ok {
			return nil, g.s.bad(st, "expected `switch x.literal[0].(type)`")
		}
		lit, ok := ix.Index.(*ast.BasicLit)
		sel, ok2 := ix.X.(*ast.SelectorExpr)
		if !ok || !ok2 || lit.Kind != token.INT || lit.Value != "0" || sel.Sel.Name != "literal" {
			return nil, g.s.bad(st, "expected `switch x.literal[0].(type)`")
		}
		xid, ok := sel.X.(*ast.Ident)
		if !ok || env[xid.Name] != "lit" {
			return nil, g.s.bad(st, "`.literal[0]` of something not obtained by `.param.(*syntaxQueryParamLiteral)`")
		}
		out := []string{ooInd(d) + "match " + xid.Name + ".param.litTy with"}
		var dflt []ast.Stmt
		haveDefault := false
		seen := map[string]bool{}
		for _, c := range st.Body.List {
			cc := c.(*ast.CaseClause)
			for i, s2 := range cc.Body {
				switch s2 := s2.(type) {
				case *ast.BranchStmt:
					return nil, g.s.bad(s2, "%s inside a case", s2.Tok)
				case *ast.ReturnStmt:
					if i != len(cc.Body)-1 {
						return nil, g.s.bad(s2, "return in the middle of a block")
					}
				}
			}
			if cc.List == nil {
				if haveDefault {
					return nil, g.s.bad(cc, "two default clauses")
				}
				haveDefault = true
				dflt = cc.Body
				continue
			}
			var pats []string
			for _, te := range cc.List {
				id, ok := te.(*ast.Ident)
				if !ok || ooLitCase[id.Name] == "" {
					return nil, g.s.bad(te, "case type %s is outside the modelled set", g.s.str(te))
				}
				if seen[id.Name] {
					return nil, g.s.bad(te, "type listed twice")
				}
				seen[id.Name] = true
				pats = append(pats, ooLitCase[id.Name])
			}
			body := append(append([]ast.Stmt{}, cc.Body...), rest...)
			k, err := g.procStmts(f, env, body, d+1)
			if err != nil {
				return nil, err
			}
			out = append(out, ooInd(d)+"| "+strings.Join(pats, " | ")+" =>")
			out = append(out, k...)
		}
		body := append(append([]ast.Stmt{}, dflt...), rest...)
		k, err := g.procStmts(f, env, body, d+1)
		if err != nil {
			return nil, err
		}
		out = append(out, ooInd(d)+"| _ =>")
		out = append(out, k...)
		return out, nil
	}
	return nil, g.s.bad(ss[0], "statement %q is outside the modelled set", g.s.str(ss[0]))
}

func (g *ooGen) translate(f *ooFunc) error {
	switch f.kind {
	case ooCtor:
		return g.ctorBody(f)
	case ooPure:
		env := ooEnv{}
		for _, p := range f.params {
			env[p] = "opnd"
		}
		body, err := g.pureStmts(f, env, f.decl.Body.List, f.decl, 1)
		if err != nil {
			return err
		}
		f.lean = append([]string{fmt.Sprintf("def %s (%s : Opnd) : %s :=", f.name, strings.Join(f.params, " "), f.ret)}, body...)
		return nil
	default:
		env := ooEnv{}
		for _, p := range f.params {
			env[p] = "opnd"
		}
		body, err := g.procStmts(f, env, f.decl.Body.List, 2)
		if err != nil {
			return err
		}
		ty := "Nat → " + strings.Repeat("Opnd → ", len(f.params)) + "Stack → PushM"
		under := strings.Repeat(", _", len(f.params)+1)
		f.lean = []string{
			fmt.Sprintf("def %s : %s", f.name, ty),
			fmt.Sprintf("  | 0%s => .error .outOfFuel", under),
			fmt.Sprintf("  | fuel + 1, %s, stk =>", strings.Join(f.params, ", ")),
		}
		f.lean = append(f.lean, body...)
		return nil
	}
}

func genOperandOrder(repo, out string) error {
	s := tiNew(repo)
	hdr, err := s.header("operand_order", []string{ooFile},
		"pushCompareEQ/NE/GE/GT/LE/LT and the helpers they call, over abstract operands (Ties.Opnd) and an\n"+
			"explicit parser stack (List QTag). Procedures are structurally recursive on fuel.")
	if err != nil {
		return err
	}
	file, err := s.parse(ooFile)
	if err != nil {
		return err
	}
	g := &ooGen{s: s, methods: map[string]*ast.FuncDecl{}, funcs: map[string]*ooFunc{}}
	for _, d := range file.Decls {
		fd, ok := d.(*ast.FuncDecl)
		if !ok || fd.Recv == nil {
			continue
		}
		if typ, _, _ := tiRecvType(fd); typ == "jsonPathParser" {
			if g.methods[fd.Name.Name] != nil {
				return s.bad(fd, "method declared twice")
			}
			g.methods[fd.Name.Name] = fd
		}
	}
	for _, r := range ooRoots {
		f, err := g.need(file, r)
		if err != nil {
			return err
		}
		if f.kind != ooProc || len(f.params) != 2 {
			return s.bad(f.decl, "%s must be a procedure of two operands", r)
		}
	}
	// translate; the work list grows while translating
	for i := 0; i < len(g.order); i++ {
		if err := g.translate(g.funcs[g.order[i]]); err != nil {
			return err
		}
	}
	// order the pure helpers and constructors: callees first; a cycle among pure helpers is not translatable
	var emitted []string
	state := map[string]int{}
	var visit func(name string, at ast.Node) error
	visit = func(name string, at ast.Node) error {
		f := g.funcs[name]
		switch state[name] {
		case 1:
			return s.bad(f.decl, "recursive pure helper %s", name)
		case 2:
			return nil
		}
		state[name] = 1
		for _, c := range f.calls {
			if err := visit(c, f.decl); err != nil {
				return err
			}
		}
		state[name] = 2
		emitted = append(emitted, name)
		return nil
	}
	for _, n := range g.order {
		if g.funcs[n].kind != ooProc {
			if err := visit(n, nil); err != nil {
				return err
			}
		}
	}
	var b strings.Builder
	b.WriteString(hdr)
	b.WriteString("import JPV.Ties.Types\nset_option linter.unusedVariables false\nnamespace JPV.Gen.OperandOrder\nopen JPV.Ties\n\n")
	for _, n := range emitted {
		f := g.funcs[n]
		fmt.Fprintf(&b, "/-- %s (%s:%d) -/\n%s\n\n", n, ooFile, s.line(f.decl), strings.Join(f.lean, "\n"))
	}
	b.WriteString("mutual\n")
	var procs []string
	for _, n := range g.order {
		f := g.funcs[n]
		if f.kind == ooProc {
			procs = append(procs, n)
			fmt.Fprintf(&b, "/-- %s (%s:%d) -/\n%s\n", n, ooFile, s.line(f.decl), strings.Join(f.lean, "\n"))
		}
	}
	b.WriteString("end\n\n")
	// the procedures by name, for enumeration in the ties
	b.WriteString("/-- the two-operand procedures, by Go name -/\ndef procedures : List (String × (Nat → Opnd → Opnd → Stack → PushM)) :=\n  [")
	first := true
	for _, n := range procs {
		if len(g.funcs[n].params) != 2 {
			continue
		}
		if !first {
			b.WriteString(",\n   ")
		}
		first = false
		fmt.Fprintf(&b, "(%s, %s)", tiLeanStr(n), n)
	}
	b.WriteString("]\n\nend JPV.Gen.OperandOrder\n")
	return tiWrite(out, "OperandOrder.lean", b.String())
}
