// errors.go — generator "errors": the runtime-error bookkeeping of the retrieve methods
// (lean/JPV/Gen/ErrorsGo.lean, ties T1/T2 for property C15; consumed by lean/JPV/Props/C15Gen.lean).
//
// Four things are read, with go/parser + go/ast only, all names prefixed `eg`:
//
//  1. `addDeepestError` (syntax_basic_node.go), statement by statement, as a Lean function over an
//     abstract error type ε with `textLen : ε → Nat` (= len(err.getSyntaxNode().getConnectedText()))
//     and `isTypeUnmatched : ε → Bool` (= the type assertion `.(ErrorTypeUnmatched)`; false on nil).
//     Accepted statements:
//     X := INT ; if BOOL { … } ; if _, ok := V.(ErrorTypeUnmatched); ok { … } ; return INT, ERR
//     INT  ::= int variable | literal | len(err.getSyntaxNode().getConnectedText())
//     BOOL ::= INT (==|!=|<|<=|>|>=) INT | BOOL || BOOL | BOOL && BOOL | !BOOL | (BOOL)
//     ERR  ::= err | deepestError | nil
//
//  2. every method that declares `var deepestTextLen int` (the fan-out loops of the value-group
//     nodes): each statement `if err := CALL; err != nil { BODY }` anywhere in it is a RECORD site,
//     BODY ::= if BOOL { BODY } | deepestTextLen, deepestError = R.addDeepestError(err, deepestTextLen, deepestError)
//     with `len(container.result)` as a further INT (`resultLen`); the statements after the last loop
//     are the FINISH section: (if BOOL { return RET })* return RET,
//     RET ::= nil | deepestError | ErrorMemberNotExist{errorBasicRuntime: R.errorRuntime},
//     BOOL also `deepestError == nil` / `!= nil`. Any other mention of the two variables is refused.
//     Output: one Lean function per record site and per finish section, the tables `recordSites`,
//     `finishSites` (name ↦ function), `recordCalls` (name ↦ text of CALL, receiver written `self`),
//     `loopGuards` (record site ↦ source text of the statements before it in its innermost loop body
//     that contain continue/return: the `continue`s of the model's branches) and `preLoopReturns`
//     (method ↦ source text of the top-level statements before the last loop that contain a return).
//     `break` and `goto` are refused in these methods.
//
//  3. `typeDispatch`: for every `retrieve` method that returns an ErrorTypeUnmatched literal: the
//     VALUE of the constant given as expectedType (constants.go), how foundType is computed
//     (`nullOr(reflect)` for: msgTypeNull, overwritten by reflect.TypeOf(current).String() when
//     current != nil), and the dynamic types of `current` it tests for (type switch cases and type
//     assertions on the second parameter).
//
//  4. `returns`: every return statement of the retrieve-family methods, classified (T2 facts):
//     nil | err | deepestError | call:<callee> | memberNotExist:<node> | typeUnmatched:<node>:<const>:<found> |
//     functionFailed:<node>:<err>, where <node> is `self` iff the literal says
//     `errorBasicRuntime: R.errorRuntime` with R the receiver — the error names THIS node.
//
// Anything outside these shapes stops with `untranslatable: file:line: why`.
package main

import (
	"fmt"
	"go/ast"
	"go/token"
	"sort"
	"strconv"
	"strings"
)

func init() { register("errors", genErrors) }

var egGroupFiles = []string{
	"syntax_node_identifier_child_multi.go",
	"syntax_node_identifier_child_wildcard.go",
	"syntax_node_identifier_recursive_child.go",
	"syntax_node_qualifier_filter.go",
	"syntax_node_qualifier_union.go",
}

var egOtherFiles = []string{
	"syntax_basic_node.go",
	"syntax_node_function_aggregate.go",
	"syntax_node_function_filter.go",
	"syntax_node_identifier_child_single.go",
	"syntax_node_identifier_current_root.go",
	"syntax_node_identifier_root.go",
}

var egRetrieveFamily = map[string]bool{
	"retrieve": true, "retrieveMap": true, "retrieveList": true,
	"retrieveMapNext": true, "retrieveListNext": true, "retrieveAnyValueNext": true,
}

type egGen struct {
	s      *tiSrc
	consts map[string]string
}

// ---------------------------------------------------------------- expressions

type egScope struct {
	g         *egGen
	recv      string          // receiver variable
	ints      map[string]bool // int variables in scope
	container string          // the *bufferContainer parameter ("" if none)
	errVar    string          // the non-nil error variable (`err`)
	optVar    string          // the possibly-nil error variable (`deepestError`)
}

func (sc *egScope) intExpr(x ast.Expr) (string, error) {
	switch t := x.(type) {
	case *ast.ParenExpr:
		return sc.intExpr(t.X)
	case *ast.Ident:
		if sc.ints[t.Name] {
			return t.Name, nil
		}
	case *ast.BasicLit:
		if t.Kind == token.INT {
			n, err := strconv.ParseUint(t.Value, 0, 62)
			if err == nil {
				return strconv.FormatUint(n, 10), nil
			}
		}
	case *ast.CallExpr:
		if tiIsIdent(t.Fun, "len") && len(t.Args) == 1 && t.Ellipsis == token.NoPos {
			a := sc.g.s.str(t.Args[0])
			if sc.errVar != "" && a == sc.errVar+".getSyntaxNode().getConnectedText()" {
				return "textLen " + sc.errVar, nil
			}
			if sc.container != "" && a == sc.container+".result" {
				return "resultLen", nil
			}
		}
	}
	return "", sc.g.s.bad(x, "integer expression %s outside the subset", sc.g.s.str(x))
}

func (sc *egScope) boolExpr(x ast.Expr) (string, error) {
	switch t := x.(type) {
	case *ast.ParenExpr:
		return sc.boolExpr(t.X)
	case *ast.UnaryExpr:
		if t.Op == token.NOT {
			a, err := sc.boolExpr(t.X)
			if err != nil {
				return "", err
			}
			return "(!" + a + ")", nil
		}
	case *ast.BinaryExpr:
		switch t.Op {
		case token.LOR, token.LAND:
			a, err := sc.boolExpr(t.X)
			if err != nil {
				return "", err
			}
			b, err := sc.boolExpr(t.Y)
			if err != nil {
				return "", err
			}
			op := "||"
			if t.Op == token.LAND {
				op = "&&"
			}
			return "(" + a + " " + op + " " + b + ")", nil
		case token.EQL, token.NEQ, token.LSS, token.LEQ, token.GTR, token.GEQ:
			// comparison of the possibly-nil error with nil
			if sc.optVar != "" && (t.Op == token.EQL || t.Op == token.NEQ) {
				var other ast.Expr
				if tiIsIdent(t.X, sc.optVar) {
					other = t.Y
				} else if tiIsIdent(t.Y, sc.optVar) {
					other = t.X
				}
				if other != nil {
					if !tiIsIdent(other, "nil") {
						return "", sc.g.s.bad(x, "%s compared with something other than nil", sc.optVar)
					}
					if t.Op == token.EQL {
						return sc.optVar + ".isNone", nil
					}
					return sc.optVar + ".isSome", nil
				}
			}
			a, err := sc.intExpr(t.X)
			if err != nil {
				return "", err
			}
			b, err := sc.intExpr(t.Y)
			if err != nil {
				return "", err
			}
			switch t.Op {
			case token.EQL:
				return "(" + a + " == " + b + ")", nil
			case token.NEQ:
				return "(" + a + " != " + b + ")", nil
			case token.LSS:
				return "decide (" + a + " < " + b + ")", nil
			case token.LEQ:
				return "decide (" + a + " ≤ " + b + ")", nil
			case token.GTR:
				return "decide (" + a + " > " + b + ")", nil
			default:
				return "decide (" + a + " ≥ " + b + ")", nil
			}
		}
	}
	return "", sc.g.s.bad(x, "condition %s outside the subset", sc.g.s.str(x))
}

var egLeanReserved = map[string]bool{
	"textLen": true, "isTypeUnmatched": true, "resultLen": true, "memberNotExist": true, "addDeepestError": true,
	"at": true, "by": true, "do": true, "else": true, "end": true, "from": true, "fun": true, "have": true, "if": true,
	"in": true, "let": true, "match": true, "then": true, "with": true, "show": true, "def": true, "theorem": true,
	"where": true, "open": true, "some": true, "none": true, "decide": true, "true": true, "false": true, "d": true,
}

func (g *egGen) leanName(id *ast.Ident) (string, error) {
	if egLeanReserved[id.Name] || id.Name == "_" {
		return "", g.s.bad(id, "identifier %q cannot be used as a Lean variable here", id.Name)
	}
	for _, r := range id.Name {
		if !(r >= 'a' && r <= 'z' || r >= 'A' && r <= 'Z' || r >= '0' && r <= '9' || r == '_') {
			return "", g.s.bad(id, "identifier %q outside the subset", id.Name)
		}
	}
	return id.Name, nil
}

// ---------------------------------------------------------------- 1. addDeepestError

// typeAssertCond recognises `_, ok := V.(ErrorTypeUnmatched)` + condition `ok`.
func (sc *egScope) typeAssertCond(st *ast.IfStmt) (string, bool, error) {
	as, ok := st.Init.(*ast.AssignStmt)
	if !ok {
		return "", false, nil
	}
	if as.Tok != token.DEFINE || len(as.Lhs) != 2 || len(as.Rhs) != 1 || !tiIsIdent(as.Lhs[0], "_") {
		return "", false, sc.g.s.bad(st, "if-initialiser %s outside the subset", sc.g.s.str(as))
	}
	okVar, isId := as.Lhs[1].(*ast.Ident)
	ta, isTa := as.Rhs[0].(*ast.TypeAssertExpr)
	if !isId || !isTa || ta.Type == nil || !tiIsIdent(ta.Type, "ErrorTypeUnmatched") || !tiIsIdent(st.Cond, okVar.Name) {
		return "", false, sc.g.s.bad(st, "expected `if _, ok := V.(ErrorTypeUnmatched); ok`")
	}
	switch {
	case sc.optVar != "" && tiIsIdent(ta.X, sc.optVar):
		return "(match " + sc.optVar + " with | some d => isTypeUnmatched d | none => false)", true, nil
	case sc.errVar != "" && tiIsIdent(ta.X, sc.errVar):
		return "isTypeUnmatched " + sc.errVar, true, nil
	}
	return "", false, sc.g.s.bad(ta, "type assertion on %s", sc.g.s.str(ta.X))
}

func (sc *egScope) errResult(x ast.Expr) (string, error) {
	switch {
	case sc.errVar != "" && tiIsIdent(x, sc.errVar):
		return "some " + sc.errVar, nil
	case sc.optVar != "" && tiIsIdent(x, sc.optVar):
		return sc.optVar, nil
	case tiIsIdent(x, "nil"):
		return "none", nil
	}
	return "", sc.g.s.bad(x, "error result %s outside the subset", sc.g.s.str(x))
}

// pairBlock translates statements of a function returning (int, errorRuntime); k is the Lean
// text of what follows the list ("" = nothing: control must not fall off the end).
func (sc *egScope) pairBlock(stmts []ast.Stmt, k string, ind string, at ast.Node) (string, error) {
	if len(stmts) == 0 {
		if k == "" {
			return "", sc.g.s.bad(at, "control reaches the end without a return")
		}
		return k, nil
	}
	st, rest := stmts[0], stmts[1:]
	switch t := st.(type) {
	case *ast.ReturnStmt:
		if len(t.Results) != 2 {
			return "", sc.g.s.bad(st, "return with %d results", len(t.Results))
		}
		a, err := sc.intExpr(t.Results[0])
		if err != nil {
			return "", err
		}
		b, err := sc.errResult(t.Results[1])
		if err != nil {
			return "", err
		}
		return "(" + a + ", " + b + ")", nil
	case *ast.AssignStmt:
		if t.Tok != token.DEFINE || len(t.Lhs) != 1 || len(t.Rhs) != 1 {
			return "", sc.g.s.bad(st, "statement %s outside the subset", sc.g.s.str(st))
		}
		id, ok := t.Lhs[0].(*ast.Ident)
		if !ok {
			return "", sc.g.s.bad(st, "left side %s", sc.g.s.str(t.Lhs[0]))
		}
		name, err := sc.g.leanName(id)
		if err != nil {
			return "", err
		}
		if sc.ints[name] || name == sc.errVar || name == sc.optVar {
			return "", sc.g.s.bad(st, "%s declared twice", name)
		}
		v, err := sc.intExpr(t.Rhs[0])
		if err != nil {
			return "", err
		}
		sc.ints[name] = true
		r, err := sc.pairBlock(rest, k, ind, st)
		if err != nil {
			return "", err
		}
		return "let " + name + " := " + v + "\n" + ind + r, nil
	case *ast.IfStmt:
		if t.Else != nil {
			return "", sc.g.s.bad(st, "else branch")
		}
		cond, isTa, err := sc.typeAssertCond(t)
		if err != nil {
			return "", err
		}
		if !isTa {
			if t.Init != nil {
				return "", sc.g.s.bad(st, "if-initialiser outside the subset")
			}
			if cond, err = sc.boolExpr(t.Cond); err != nil {
				return "", err
			}
		}
		// declarations inside the branch stay inside
		saved := map[string]bool{}
		for n := range sc.ints {
			saved[n] = true
		}
		after, err := sc.pairBlock(rest, k, ind+"  ", st)
		if err != nil {
			return "", err
		}
		then, err := sc.pairBlock(t.Body.List, after, ind+"  ", st)
		if err != nil {
			return "", err
		}
		sc.ints = saved
		return "if " + cond + " then\n" + ind + "  " + then + "\n" + ind + "else\n" + ind + "  " + after, nil
	}
	return "", sc.g.s.bad(st, "statement %s outside the subset", sc.g.s.str(st))
}

func (g *egGen) addDeepest(f *ast.File) (string, error) {
	var fd *ast.FuncDecl
	for _, d := range f.Decls {
		if x, ok := d.(*ast.FuncDecl); ok && x.Name.Name == "addDeepestError" {
			if fd != nil {
				return "", g.s.bad(x, "second declaration of addDeepestError")
			}
			fd = x
		}
	}
	if fd == nil || fd.Body == nil {
		return "", g.s.badFile("syntax_basic_node.go", "no function addDeepestError")
	}
	names, types := tiFlatParams(fd.Type.Params)
	if len(names) != 3 || g.s.str(types[0]) != "errorRuntime" || g.s.str(types[1]) != "int" || g.s.str(types[2]) != "errorRuntime" {
		return "", g.s.bad(fd, "parameters of addDeepestError are not (errorRuntime, int, errorRuntime)")
	}
	_, rtypes := tiFlatParams(fd.Type.Results)
	if len(rtypes) != 2 || g.s.str(rtypes[0]) != "int" || g.s.str(rtypes[1]) != "errorRuntime" {
		return "", g.s.bad(fd, "results of addDeepestError are not (int, errorRuntime)")
	}
	for _, n := range names {
		if egLeanReserved[n] || n == "_" || n == "" {
			return "", g.s.bad(fd, "parameter name %q", n)
		}
	}
	_, recv, _ := tiRecvType(fd)
	sc := &egScope{g: g, recv: recv, ints: map[string]bool{names[1]: true}, errVar: names[0], optVar: names[2]}
	body, err := sc.pairBlock(fd.Body.List, "", "  ", fd)
	if err != nil {
		return "", err
	}
	var b strings.Builder
	fmt.Fprintf(&b, "/-- syntax_basic_node.go:%d -/\n", g.s.line(fd))
	fmt.Fprintf(&b, "def addDeepestError {ε : Type} (textLen : ε → Nat) (isTypeUnmatched : ε → Bool)\n    (%s : ε) (%s : Nat) (%s : Option ε) : Nat × Option ε :=\n  %s\n\n", names[0], names[1], names[2], body)
	return b.String(), nil
}

// ---------------------------------------------------------------- 2. group functions

type egSite struct {
	name   string // record_<Type>_<method>_<n> / finish_<Type>_<method>
	call   string
	line   int
	body   string
	guards []string // statements with `continue` that precede the site in its innermost loop body
}

func egHasBranch(n ast.Node, tok token.Token) bool {
	found := false
	ast.Inspect(n, func(x ast.Node) bool {
		switch t := x.(type) {
		case *ast.FuncLit:
			return false
		case *ast.BranchStmt:
			if t.Tok == tok {
				found = true
			}
		}
		return !found
	})
	return found
}

func egHasReturn(n ast.Node) bool {
	found := false
	ast.Inspect(n, func(x ast.Node) bool {
		switch x.(type) {
		case *ast.FuncLit:
			return false
		case *ast.ReturnStmt:
			found = true
		}
		return !found
	})
	return found
}

// guardsBefore: the statements of the innermost loop body enclosing `site` that come before the
// statement containing it and can leave the iteration (`continue`, `break`, `goto`).
func (g *egGen) guardsBefore(fn *ast.FuncDecl, site ast.Stmt) []string {
	var best *ast.BlockStmt
	var search func(n ast.Node, loopBody *ast.BlockStmt)
	search = func(n ast.Node, loopBody *ast.BlockStmt) {
		ast.Inspect(n, func(x ast.Node) bool {
			if x == nil {
				return false
			}
			if x == ast.Node(site) {
				best = loopBody
				return false
			}
			switch t := x.(type) {
			case *ast.ForStmt:
				if t != n {
					search(t.Body, t.Body)
					return false
				}
			case *ast.RangeStmt:
				if t != n {
					search(t.Body, t.Body)
					return false
				}
			}
			return true
		})
	}
	search(fn.Body, nil)
	var out []string
	if best == nil {
		return out
	}
	for _, st := range best.List {
		if st.Pos() <= site.Pos() && site.End() <= st.End() {
			break
		}
		if egHasBranch(st, token.CONTINUE) || egHasBranch(st, token.BREAK) || egHasBranch(st, token.GOTO) || egHasReturn(st) {
			out = append(out, g.s.str(st))
		}
	}
	return out
}

func egIsVarDecl(st ast.Stmt, name, typ string, g *egGen) bool {
	ds, ok := st.(*ast.DeclStmt)
	if !ok {
		return false
	}
	gd, ok := ds.Decl.(*ast.GenDecl)
	if !ok || gd.Tok != token.VAR || len(gd.Specs) != 1 {
		return false
	}
	vs, ok := gd.Specs[0].(*ast.ValueSpec)
	return ok && len(vs.Names) == 1 && vs.Names[0].Name == name && len(vs.Values) == 0 && vs.Type != nil && g.s.str(vs.Type) == typ
}

func egMentions(n ast.Node, names ...string) bool {
	found := false
	ast.Inspect(n, func(x ast.Node) bool {
		if id, ok := x.(*ast.Ident); ok {
			for _, nm := range names {
				if id.Name == nm {
					found = true
				}
			}
		}
		return !found
	})
	return found
}

// stateBlock: BODY of a record site, as a Lean expression of type Nat × Option ε.
func (sc *egScope) stateBlock(stmts []ast.Stmt, ind string, at ast.Node) (string, error) {
	cur := "(deepestTextLen, deepestError)"
	if len(stmts) == 0 {
		return cur, nil
	}
	var parts []string
	for _, st := range stmts {
		var e string
		switch t := st.(type) {
		case *ast.IfStmt:
			if t.Init != nil || t.Else != nil {
				return "", sc.g.s.bad(st, "if with initialiser or else in a record site")
			}
			c, err := sc.boolExpr(t.Cond)
			if err != nil {
				return "", err
			}
			inner, err := sc.stateBlock(t.Body.List, ind+"  ", st)
			if err != nil {
				return "", err
			}
			e = "if " + c + " then\n" + ind + "  " + inner + "\n" + ind + "else (deepestTextLen, deepestError)"
		case *ast.AssignStmt:
			okShape := t.Tok == token.ASSIGN && len(t.Lhs) == 2 && len(t.Rhs) == 1 &&
				tiIsIdent(t.Lhs[0], "deepestTextLen") && tiIsIdent(t.Lhs[1], "deepestError")
			var c *ast.CallExpr
			if okShape {
				c, okShape = t.Rhs[0].(*ast.CallExpr)
			}
			if okShape {
				okShape = tiIsSel(c.Fun, sc.recv, "addDeepestError") && len(c.Args) == 3 && c.Ellipsis == token.NoPos &&
					tiIsIdent(c.Args[0], sc.errVar) && tiIsIdent(c.Args[1], "deepestTextLen") && tiIsIdent(c.Args[2], "deepestError")
			}
			if !okShape {
				return "", sc.g.s.bad(st, "expected `deepestTextLen, deepestError = %s.addDeepestError(%s, deepestTextLen, deepestError)`", sc.recv, sc.errVar)
			}
			e = "addDeepestError textLen isTypeUnmatched " + sc.errVar + " deepestTextLen deepestError"
		default:
			return "", sc.g.s.bad(st, "statement %s in a record site", sc.g.s.str(st))
		}
		parts = append(parts, e)
	}
	if len(parts) == 1 {
		return parts[0], nil
	}
	var b strings.Builder
	for _, p := range parts {
		b.WriteString("let (deepestTextLen, deepestError) := (" + p + ")\n" + ind)
	}
	b.WriteString(cur)
	return b.String(), nil
}

func (sc *egScope) finishRet(x ast.Expr) (string, error) {
	switch {
	case tiIsIdent(x, "nil"):
		return "none", nil
	case tiIsIdent(x, "deepestError"):
		return "deepestError", nil
	}
	if kind, node, _ := sc.g.errLit(x, sc.recv); kind == "memberNotExist" && node == "self" {
		return "some memberNotExist", nil
	}
	return "", sc.g.s.bad(x, "result %s of a finish section outside the subset", sc.g.s.str(x))
}

func (sc *egScope) finishBlock(stmts []ast.Stmt, ind string, at ast.Node) (string, error) {
	if len(stmts) == 0 {
		return "", sc.g.s.bad(at, "the finish section does not end with a return")
	}
	switch t := stmts[0].(type) {
	case *ast.ReturnStmt:
		if len(t.Results) != 1 {
			return "", sc.g.s.bad(t, "return with %d results", len(t.Results))
		}
		if len(stmts) != 1 {
			return "", sc.g.s.bad(stmts[1], "statement after return")
		}
		return sc.finishRet(t.Results[0])
	case *ast.IfStmt:
		if t.Init != nil || t.Else != nil || len(t.Body.List) != 1 {
			return "", sc.g.s.bad(t, "finish section: expected `if COND { return … }`")
		}
		rs, ok := t.Body.List[0].(*ast.ReturnStmt)
		if !ok || len(rs.Results) != 1 {
			return "", sc.g.s.bad(t, "finish section: expected `if COND { return … }`")
		}
		c, err := sc.boolExpr(t.Cond)
		if err != nil {
			return "", err
		}
		v, err := sc.finishRet(rs.Results[0])
		if err != nil {
			return "", err
		}
		rest, err := sc.finishBlock(stmts[1:], ind, t)
		if err != nil {
			return "", err
		}
		return "if " + c + " then " + v + "\n" + ind + "else " + rest, nil
	}
	return "", sc.g.s.bad(stmts[0], "statement %s in a finish section", sc.g.s.str(stmts[0]))
}

func egIsLoop(st ast.Stmt) bool {
	switch st.(type) {
	case *ast.ForStmt, *ast.RangeStmt:
		return true
	}
	return false
}

func egIsPut(st ast.Stmt) bool {
	es, ok := st.(*ast.ExprStmt)
	if !ok {
		return false
	}
	c, ok := es.X.(*ast.CallExpr)
	return ok && tiIsIdent(c.Fun, "putSortSlice")
}

func (g *egGen) selfText(x ast.Node, recv string) string {
	t := g.s.str(x)
	if recv != "" && strings.HasPrefix(t, recv+".") {
		return "self." + t[len(recv)+1:]
	}
	return t
}

// groupFunc handles one method that declares `var deepestTextLen int`.
func (g *egGen) groupFunc(fd *ast.FuncDecl, typ, recv string) (records []egSite, finish egSite, err error) {
	base := typ + "_" + fd.Name.Name
	sc := &egScope{g: g, recv: recv, ints: map[string]bool{"deepestTextLen": true}, errVar: "err", optVar: "deepestError"}
	names, types := tiFlatParams(fd.Type.Params)
	for i, t := range types {
		if g.s.str(t) == "*bufferContainer" {
			if sc.container != "" {
				return nil, finish, g.s.bad(fd, "two *bufferContainer parameters")
			}
			sc.container = names[i]
		}
	}
	if sc.container == "" {
		return nil, finish, g.s.bad(fd, "no *bufferContainer parameter")
	}
	_, rtypes := tiFlatParams(fd.Type.Results)
	if len(rtypes) != 1 || g.s.str(rtypes[0]) != "errorRuntime" {
		return nil, finish, g.s.bad(fd, "result type is not errorRuntime")
	}
	top := fd.Body.List
	nLen, nErr, lastLoop := 0, 0, -1
	for i, st := range top {
		if egIsVarDecl(st, "deepestTextLen", "int", g) {
			nLen++
		}
		if egIsVarDecl(st, "deepestError", "errorRuntime", g) {
			nErr++
		}
		if egIsLoop(st) {
			lastLoop = i
		}
	}
	if nLen != 1 || nErr != 1 {
		return nil, finish, g.s.bad(fd, "expected exactly one `var deepestTextLen int` and one `var deepestError errorRuntime` at the top level")
	}
	if lastLoop < 0 {
		return nil, finish, g.s.bad(fd, "no loop")
	}
	// record sites, in source order; every other mention of the two variables before the finish section is refused
	var walk func(n ast.Node) error
	walk = func(n ast.Node) error {
		var werr error
		ast.Inspect(n, func(x ast.Node) bool {
			if werr != nil || x == nil {
				return false
			}
			switch t := x.(type) {
			case *ast.FuncLit:
				if egMentions(t, "deepestTextLen", "deepestError") {
					werr = g.s.bad(t, "closure mentions the deepest-error variables")
				}
				return false
			case *ast.IfStmt:
				as, ok := t.Init.(*ast.AssignStmt)
				if ok && as.Tok == token.DEFINE && len(as.Lhs) == 1 && tiIsIdent(as.Lhs[0], "err") && len(as.Rhs) == 1 {
					call, isCall := as.Rhs[0].(*ast.CallExpr)
					be, isBin := t.Cond.(*ast.BinaryExpr)
					if !isCall || !isBin || be.Op != token.NEQ || !tiIsIdent(be.X, "err") || !tiIsIdent(be.Y, "nil") || t.Else != nil {
						werr = g.s.bad(t, "expected `if err := CALL; err != nil { … }` without else")
						return false
					}
					if egMentions(call, "deepestTextLen", "deepestError") {
						werr = g.s.bad(call, "the call mentions the deepest-error variables")
						return false
					}
					body, e := sc.stateBlock(t.Body.List, "    ", t)
					if e != nil {
						werr = e
						return false
					}
					records = append(records, egSite{
						name: fmt.Sprintf("record_%s_%d", base, len(records)+1),
						call: g.selfText(call, recv), line: g.s.line(t), body: body, guards: g.guardsBefore(fd, t)})
					return false
				}
			case *ast.Ident:
				if t.Name == "deepestTextLen" || t.Name == "deepestError" {
					werr = g.s.bad(t, "%s used outside a record site or the finish section", t.Name)
					return false
				}
			}
			return true
		})
		return werr
	}
	for i, st := range top[:lastLoop+1] {
		_ = i
		if egIsVarDecl(st, "deepestTextLen", "int", g) || egIsVarDecl(st, "deepestError", "errorRuntime", g) {
			continue
		}
		if err := walk(st); err != nil {
			return nil, finish, err
		}
	}
	if len(records) == 0 {
		return nil, finish, g.s.bad(fd, "no record site")
	}
	if egHasBranch(fd.Body, token.BREAK) || egHasBranch(fd.Body, token.GOTO) {
		return nil, finish, g.s.bad(fd, "break or goto in a method with a deepest-error loop")
	}
	// statements before the last loop that can return (early exits; the type dispatch of `retrieve`)
	for _, st := range top[:lastLoop] {
		if egHasReturn(st) {
			finish.guards = append(finish.guards, g.s.str(st))
		}
	}
	pre := finish.guards
	var fin []ast.Stmt
	for _, st := range top[lastLoop+1:] {
		if egIsPut(st) {
			continue
		}
		fin = append(fin, st)
	}
	body, err := sc.finishBlock(fin, "  ", fd)
	if err != nil {
		return nil, finish, err
	}
	finish = egSite{name: "finish_" + base, line: g.s.line(top[lastLoop]), body: body, guards: pre}
	return records, finish, nil
}

// ---------------------------------------------------------------- 3./4. error literals, returns, type dispatch

// errLit classifies a composite literal of one of the three runtime errors.
// node = "self" iff the literal has `errorBasicRuntime: R.errorRuntime` with R the receiver.
func (g *egGen) errLit(x ast.Expr, recv string) (kind, node string, fields map[string]ast.Expr) {
	cl, ok := x.(*ast.CompositeLit)
	if !ok {
		return "", "", nil
	}
	id, ok := cl.Type.(*ast.Ident)
	if !ok {
		return "", "", nil
	}
	switch id.Name {
	case "ErrorMemberNotExist":
		kind = "memberNotExist"
	case "ErrorTypeUnmatched":
		kind = "typeUnmatched"
	case "ErrorFunctionFailed":
		kind = "functionFailed"
	default:
		return "", "", nil
	}
	fields = map[string]ast.Expr{}
	node = "?"
	for _, el := range cl.Elts {
		kv, ok := el.(*ast.KeyValueExpr)
		if !ok {
			return kind, "?" + g.s.str(x), fields
		}
		k, ok := kv.Key.(*ast.Ident)
		if !ok {
			return kind, "?" + g.s.str(x), fields
		}
		if _, dup := fields[k.Name]; dup {
			return kind, "?" + g.s.str(x), fields
		}
		fields[k.Name] = kv.Value
	}
	if v, ok := fields["errorBasicRuntime"]; ok {
		if recv != "" && tiIsSel(v, recv, "errorRuntime") {
			node = "self"
		} else {
			node = g.s.str(v)
		}
	}
	return kind, node, fields
}

func (g *egGen) classifyReturn(x ast.Expr, recv string) string {
	switch {
	case tiIsIdent(x, "nil"):
		return "nil"
	case tiIsIdent(x, "err"):
		return "err"
	case tiIsIdent(x, "deepestError"):
		return "deepestError"
	}
	if c, ok := x.(*ast.CallExpr); ok {
		return "call:" + g.selfText(c.Fun, recv)
	}
	kind, node, fields := g.errLit(x, recv)
	switch kind {
	case "memberNotExist":
		if len(fields) == 1 {
			return "memberNotExist:" + node
		}
	case "typeUnmatched":
		e, ok1 := fields["expectedType"]
		f, ok2 := fields["foundType"]
		if ok1 && ok2 && len(fields) == 3 {
			return "typeUnmatched:" + node + ":" + g.s.str(e) + ":" + g.s.str(f)
		}
	case "functionFailed":
		e, ok1 := fields["err"]
		if ok1 && len(fields) == 2 {
			return "functionFailed:" + node + ":" + g.s.str(e)
		}
	}
	return "other:" + g.s.str(x)
}

func egTypeText(g *egGen, t ast.Expr) string {
	return strings.ReplaceAll(g.s.str(t), " ", "")
}

// dispatch reads the `retrieve` method of a node type: the dynamic types it tests `current` for,
// the expected-type constant and the computation of foundType.
func (g *egGen) dispatch(fd *ast.FuncDecl, recv string) (row []string, found bool, err error) {
	names, _ := tiFlatParams(fd.Type.Params)
	if len(names) != 3 {
		return nil, false, g.s.bad(fd, "retrieve does not have three parameters")
	}
	current := names[1]
	var lit *ast.CompositeLit
	var accepted []string
	seen := map[string]bool{}
	add := func(t ast.Expr) {
		s := egTypeText(g, t)
		if !seen[s] {
			seen[s] = true
			accepted = append(accepted, s)
		}
	}
	var ierr error
	ast.Inspect(fd.Body, func(x ast.Node) bool {
		switch t := x.(type) {
		case *ast.CompositeLit:
			if tiIsIdent(t.Type, "ErrorTypeUnmatched") {
				if lit != nil {
					ierr = g.s.bad(t, "second ErrorTypeUnmatched literal in one retrieve method")
				}
				lit = t
			}
		case *ast.TypeSwitchStmt:
			var ta *ast.TypeAssertExpr
			switch a := t.Assign.(type) {
			case *ast.ExprStmt:
				ta, _ = a.X.(*ast.TypeAssertExpr)
			case *ast.AssignStmt:
				if len(a.Rhs) == 1 {
					ta, _ = a.Rhs[0].(*ast.TypeAssertExpr)
				}
			}
			if ta != nil && tiIsIdent(ta.X, current) {
				for _, c := range t.Body.List {
					cc := c.(*ast.CaseClause)
					for _, ty := range cc.List {
						add(ty)
					}
				}
			}
		case *ast.TypeAssertExpr:
			if t.Type != nil && tiIsIdent(t.X, current) {
				add(t.Type)
			}
		}
		return ierr == nil
	})
	if ierr != nil {
		return nil, false, ierr
	}
	if lit == nil {
		return nil, false, nil
	}
	kind, node, fields := g.errLit(lit, recv)
	if kind != "typeUnmatched" || len(fields) != 3 || fields["expectedType"] == nil || fields["foundType"] == nil {
		return nil, false, g.s.bad(lit, "ErrorTypeUnmatched literal without exactly errorBasicRuntime, expectedType, foundType")
	}
	exp, ok := fields["expectedType"].(*ast.Ident)
	if !ok {
		return nil, false, g.s.bad(fields["expectedType"], "expectedType is not a constant name")
	}
	val, ok := g.consts[exp.Name]
	if !ok {
		return nil, false, g.s.bad(exp, "%s is not a string constant of constants.go", exp.Name)
	}
	// foundType: `F := msgTypeNull` ; `if current != nil { F = reflect.TypeOf(current).String() }`
	foundClass := "other:" + g.s.str(fields["foundType"])
	if fid, ok := fields["foundType"].(*ast.Ident); ok {
		nInit, nSet, nOther := 0, 0, 0
		ast.Inspect(fd.Body, func(x ast.Node) bool {
			switch t := x.(type) {
			case *ast.AssignStmt:
				for _, l := range t.Lhs {
					if !tiIsIdent(l, fid.Name) {
						continue
					}
					switch {
					case t.Tok == token.DEFINE && len(t.Lhs) == 1 && len(t.Rhs) == 1 && tiIsIdent(t.Rhs[0], "msgTypeNull"):
						nInit++
					case t.Tok == token.ASSIGN && len(t.Lhs) == 1 && len(t.Rhs) == 1 && g.s.str(t.Rhs[0]) == "reflect.TypeOf("+current+").String()":
						nSet++
					default:
						nOther++
					}
				}
			case *ast.IfStmt:
				// the overwrite must sit directly under `if current != nil`
				if len(t.Body.List) == 1 {
					if as, ok := t.Body.List[0].(*ast.AssignStmt); ok && len(as.Lhs) == 1 && tiIsIdent(as.Lhs[0], fid.Name) && as.Tok == token.ASSIGN {
						if g.s.str(t.Cond) != current+" != nil" || t.Init != nil || t.Else != nil {
							nOther++
						}
					}
				}
			}
			return true
		})
		if nInit == 1 && nSet == 1 && nOther == 0 {
			foundClass = "nullOr(reflect)"
		}
	}
	sort.Strings(accepted)
	return append([]string{node, val, foundClass}, accepted...), true, nil
}

// ---------------------------------------------------------------- driver

func (g *egGen) readConsts() error {
	f, err := g.s.parse("constants.go")
	if err != nil {
		return err
	}
	g.consts = map[string]string{}
	for _, d := range f.Decls {
		gd, ok := d.(*ast.GenDecl)
		if !ok || gd.Tok != token.CONST {
			continue
		}
		for _, sp := range gd.Specs {
			vs := sp.(*ast.ValueSpec)
			if len(vs.Names) != len(vs.Values) {
				continue
			}
			for i, n := range vs.Names {
				bl, ok := vs.Values[i].(*ast.BasicLit)
				if !ok || bl.Kind != token.STRING {
					continue
				}
				v, err := strconv.Unquote(bl.Value)
				if err != nil {
					return g.s.bad(bl, "string literal %s", bl.Value)
				}
				g.consts[n.Name] = v
			}
		}
	}
	for _, n := range []string{"msgTypeNull", "msgTypeObject", "msgTypeArray", "msgTypeObjectOrArray"} {
		if _, ok := g.consts[n]; !ok {
			return g.s.badFile("constants.go", "no string constant %s", n)
		}
	}
	return nil
}

func egStrList(xs []string) string {
	q := make([]string, len(xs))
	for i, x := range xs {
		q[i] = tiLeanStr(x)
	}
	return "[" + strings.Join(q, ", ") + "]"
}

func genErrors(repo, out string) error {
	g := &egGen{s: tiNew(repo)}
	if err := g.readConsts(); err != nil {
		return err
	}
	files := append(append([]string{"constants.go"}, egGroupFiles...), egOtherFiles...)
	sort.Strings(files)
	notes := "The runtime-error bookkeeping of the retrieve methods: `addDeepestError` statement by statement, the\n" +
		"record sites and finish sections of every fan-out loop, the type dispatch of every node, and the\n" +
		"classified return statements. ε: the error type; `textLen e` = len(e.getSyntaxNode().getConnectedText());\n" +
		"`isTypeUnmatched e` = the type assertion e.(ErrorTypeUnmatched); `resultLen` = len(container.result);\n" +
		"`memberNotExist` = ErrorMemberNotExist{errorBasicRuntime: <receiver>.errorRuntime}."
	header, err := g.s.header("errors", files, notes)
	if err != nil {
		return err
	}
	var b strings.Builder
	b.WriteString(header)
	b.WriteString("set_option linter.unusedVariables false\nnamespace JPV\nnamespace Gen\nnamespace ErrorsGo\n\n")

	var records, finishes []egSite
	var groupRows, dispatchRows, returnRows [][]string
	for _, file := range files {
		if file == "constants.go" {
			continue
		}
		f, err := g.s.parse(file)
		if err != nil {
			return err
		}
		if file == "syntax_basic_node.go" {
			txt, err := g.addDeepest(f)
			if err != nil {
				return err
			}
			b.WriteString(txt)
		}
		isGroupFile := false
		for _, gf := range egGroupFiles {
			if gf == file {
				isGroupFile = true
			}
		}
		for _, d := range f.Decls {
			fd, ok := d.(*ast.FuncDecl)
			if !ok || fd.Body == nil || fd.Recv == nil {
				continue
			}
			typ, recv, _ := tiRecvType(fd)
			if typ == "" {
				return g.s.bad(fd, "receiver type outside the subset")
			}
			declares := false
			for _, st := range fd.Body.List {
				if egIsVarDecl(st, "deepestTextLen", "int", g) {
					declares = true
				}
			}
			if declares {
				if !isGroupFile {
					return g.s.bad(fd, "deepest-error loop in a file the generator does not expect")
				}
				rs, fin, err := g.groupFunc(fd, typ, recv)
				if err != nil {
					return err
				}
				records = append(records, rs...)
				finishes = append(finishes, fin)
				groupRows = append(groupRows, []string{typ + "." + fd.Name.Name, strconv.Itoa(len(rs))})
			} else if fd.Name.Name != "addDeepestError" && egMentions(fd.Body, "deepestTextLen", "deepestError", "addDeepestError") {
				return g.s.bad(fd, "deepest-error bookkeeping outside a method that declares `var deepestTextLen int`")
			}
			if egRetrieveFamily[fd.Name.Name] {
				var classes []string
				var ierr error
				ast.Inspect(fd.Body, func(x ast.Node) bool {
					switch t := x.(type) {
					case *ast.FuncLit:
						return false
					case *ast.ReturnStmt:
						if len(t.Results) != 1 {
							ierr = g.s.bad(t, "return with %d results in a retrieve method", len(t.Results))
							return false
						}
						classes = append(classes, g.classifyReturn(t.Results[0], recv))
					}
					return ierr == nil
				})
				if ierr != nil {
					return ierr
				}
				returnRows = append(returnRows, append([]string{typ + "." + fd.Name.Name}, classes...))
				if fd.Name.Name == "retrieve" {
					row, found, err := g.dispatch(fd, recv)
					if err != nil {
						return err
					}
					if found {
						dispatchRows = append(dispatchRows, append([]string{typ}, row...))
					}
				}
			}
		}
	}
	// every mention of addDeepestError in the remaining library files is refused by `facts`-style scan:
	// here: the group files and the other files are the only ones this generator vouches for.

	for _, r := range records {
		fmt.Fprintf(&b, "/-- line %d: `if err := %s; err != nil { … }` -/\n", r.line, r.call)
		fmt.Fprintf(&b, "def %s {ε : Type} (textLen : ε → Nat) (isTypeUnmatched : ε → Bool)\n    (resultLen : Nat) (err : ε) (deepestTextLen : Nat) (deepestError : Option ε) : Nat × Option ε :=\n  %s\n\n", r.name, r.body)
	}
	for _, r := range finishes {
		fmt.Fprintf(&b, "/-- the statements after the last loop (line %d) -/\n", r.line)
		fmt.Fprintf(&b, "def %s {ε : Type} (memberNotExist : ε) (resultLen : Nat) (deepestError : Option ε) : Option ε :=\n  %s\n\n", r.name, r.body)
	}
	b.WriteString("def recordSites {ε : Type} (textLen : ε → Nat) (isTypeUnmatched : ε → Bool) :\n    List (String × (Nat → ε → Nat → Option ε → Nat × Option ε)) :=\n  [")
	for i, r := range records {
		if i > 0 {
			b.WriteString(",\n   ")
		}
		fmt.Fprintf(&b, "(%s, %s textLen isTypeUnmatched)", tiLeanStr(r.name), r.name)
	}
	b.WriteString("]\n\n")
	b.WriteString("def finishSites {ε : Type} : List (String × (ε → Nat → Option ε → Option ε)) :=\n  [")
	for i, r := range finishes {
		if i > 0 {
			b.WriteString(",\n   ")
		}
		fmt.Fprintf(&b, "(%s, %s)", tiLeanStr(r.name), r.name)
	}
	b.WriteString("]\n\n")
	b.WriteString("/-- (record site, the call whose error is recorded; the receiver written `self`) -/\ndef recordCalls : List (String × String) :=\n  [")
	for i, r := range records {
		if i > 0 {
			b.WriteString(",\n   ")
		}
		fmt.Fprintf(&b, "(%s, %s)", tiLeanStr(r.name), tiLeanStr(r.call))
	}
	b.WriteString("]\n\n")
	var guardRows, preRows [][]string
	for _, r := range records {
		guardRows = append(guardRows, append([]string{r.name}, r.guards...))
	}
	for _, r := range finishes {
		preRows = append(preRows, append([]string{strings.TrimPrefix(r.name, "finish_")}, r.guards...))
	}
	table := func(name, doc string, rows [][]string) {
		sort.SliceStable(rows, func(i, j int) bool { return strings.Join(rows[i], "\x00") < strings.Join(rows[j], "\x00") })
		fmt.Fprintf(&b, "/-- %s -/\ndef %s : List (List String) :=\n  [", doc, name)
		for i, r := range rows {
			if i > 0 {
				b.WriteString(",\n   ")
			}
			b.WriteString(egStrList(r))
		}
		b.WriteString("]\n\n")
	}
	table("groupFunctions", "[method, number of record sites]", groupRows)
	table("loopGuards", "[record site, the statements before it in its loop body that can leave the iteration …]", guardRows)
	table("preLoopReturns", "[method, the statements before its last loop that can return …]", preRows)
	table("typeDispatch", "[node type, node named by the error, VALUE of expectedType, foundType, dynamic types `current` is tested for …]", dispatchRows)
	table("returns", "[method, class of each return statement in source order]", returnRows)
	fmt.Fprintf(&b, "def msgTypeNull : String := %s\n\n", tiLeanStr(g.consts["msgTypeNull"]))
	b.WriteString("end ErrorsGo\nend Gen\nend JPV\n")
	return tiWrite(out, "ErrorsGo.lean", b.String())
}
