// accessor.go — generator "accessor": lean/JPV/Gen/AccessorGo.lean (ties T1/T2 for C12 / C13).
//
// What the accessor-mode model (lean/JPV/Impl/Retrieve.lean: the empty-chain equation of `retrieve`,
// `ext`, `Res.acc`; lean/JPV/Acc/Loc.lean: `Res.get`, `Res.set`) assumes about the Go source, extracted
// with go/parser + go/ast only and compared / interpreted in lean/JPV/Acc/Ties.lean:
//
//	helpers        the `retrieve…Next` methods of syntaxBasicNode as STRUCTURED values: the optional map
//	               lookup, the value handed to `next.retrieve`, what the Get closure returns, what the Set
//	               closure assigns (or nil), what is appended when the flag is off. The body must have
//	               exactly the recognised skeleton, otherwise the generator stops.
//	helperCalls    [function, helper, arguments]      every call of a `retrieve…Next` method
//	flagUses       [function, kind, text, count]      every mention of the field `accessorMode`
//	               (kind: if = the whole condition of an if; set = assigned; key = composite-literal key;
//	               use = anything else)
//	resultWrites   [function, statement, count]       every assignment to a field `result`
//	modeCalls      [function, callee, arguments]      every call of updateAccessorMode / setAccessorMode
//	retrieveCalls  [function, callee, arguments]      every call of a method named `retrieve`
//
// Files: every non-test .go file of the library except the generated recogniser and the hook files.
// Fail closed: anything outside the recognised subset is `untranslatable: file:line: why`.
package main

import (
	"bytes"
	"crypto/sha256"
	"fmt"
	"go/ast"
	"go/parser"
	"go/printer"
	"go/token"
	"os"
	"path/filepath"
	"sort"
	"strings"
)

func init() { register("accessor", genAccessor) }

var axSkip = map[string]bool{"jsonpath.peg.go": true, "verif_on.go": true, "verif_off.go": true}

type axGen struct {
	repo  string
	fset  *token.FileSet
	files []string
	asts  map[string]*ast.File
}

func (g *axGen) bad(n ast.Node, why string, args ...interface{}) error {
	p := g.fset.Position(n.Pos())
	return fmt.Errorf("untranslatable: %s:%d: %s", filepath.Base(p.Filename), p.Line, fmt.Sprintf(why, args...))
}

func (g *axGen) str(n ast.Node) string {
	var b bytes.Buffer
	if err := printer.Fprint(&b, g.fset, n); err != nil {
		return "<unprintable>"
	}
	return strings.Join(strings.Fields(b.String()), " ")
}

func axLeanStr(s string) string {
	var b strings.Builder
	b.WriteByte('"')
	for _, r := range s {
		switch {
		case r == '"':
			b.WriteString(`\"`)
		case r == '\\':
			b.WriteString(`\\`)
		case r == '\n':
			b.WriteString(`\n`)
		case r == '\t':
			b.WriteString(`\t`)
		case r < 0x20 || r == 0x7f:
			fmt.Fprintf(&b, `\x%02x`, r)
		default:
			b.WriteRune(r)
		}
	}
	b.WriteByte('"')
	return b.String()
}

func axFuncName(fd *ast.FuncDecl) string {
	if fd.Recv != nil && len(fd.Recv.List) == 1 {
		t := fd.Recv.List[0].Type
		if st, ok := t.(*ast.StarExpr); ok {
			t = st.X
		}
		if id, ok := t.(*ast.Ident); ok {
			return id.Name + "." + fd.Name.Name
		}
	}
	return fd.Name.Name
}

func axIdent(e ast.Expr) (string, bool) {
	id, ok := e.(*ast.Ident)
	if !ok {
		return "", false
	}
	return id.Name, true
}

func axIsSel(e ast.Expr, x, sel string) bool {
	s, ok := e.(*ast.SelectorExpr)
	if !ok || s.Sel.Name != sel {
		return false
	}
	n, ok := axIdent(s.X)
	return ok && n == x
}

// ---------------------------------------------------------------------------------------------
// helpers

type axHelper struct {
	name   string
	params []string
	lookup []string // nil or [bound, map, key]
	passOn string   // Lean term of type Src
	get    string
	set    string // "none" or "some (…)"
	plain  string
}

type axScope struct {
	g      *axGen
	recv   string
	params map[string]bool
	bound  string
}

// src classifies an expression of a helper body.
func (s *axScope) src(e ast.Expr) (string, error) {
	switch x := e.(type) {
	case *ast.Ident:
		if s.bound != "" && x.Name == s.bound {
			return ".bound " + axLeanStr(x.Name), nil
		}
		if s.params[x.Name] {
			return ".param " + axLeanStr(x.Name), nil
		}
		return "", s.g.bad(e, "identifier %s is neither a parameter nor the looked-up variable", x.Name)
	case *ast.IndexExpr:
		c, ok1 := axIdent(x.X)
		k, ok2 := axIdent(x.Index)
		if ok1 && ok2 && s.params[c] && s.params[k] {
			return ".elem " + axLeanStr(c) + " " + axLeanStr(k), nil
		}
		return "", s.g.bad(e, "index expression %s is not parameter[parameter]", s.g.str(e))
	}
	return "", s.g.bad(e, "expression %s outside the subset (parameter, looked-up variable, parameter[parameter])", s.g.str(e))
}

// appendResult recognises `container.result = append(container.result, X)` and returns X.
func (s *axScope) appendResult(st ast.Stmt, cont string) (ast.Expr, error) {
	as, ok := st.(*ast.AssignStmt)
	if !ok || as.Tok != token.ASSIGN || len(as.Lhs) != 1 || len(as.Rhs) != 1 || !axIsSel(as.Lhs[0], cont, "result") {
		return nil, s.g.bad(st, "expected `%s.result = append(%s.result, …)`", cont, cont)
	}
	call, ok := as.Rhs[0].(*ast.CallExpr)
	if !ok || len(call.Args) != 2 || call.Ellipsis.IsValid() {
		return nil, s.g.bad(st, "expected `append(%s.result, x)`", cont)
	}
	if fn, ok := axIdent(call.Fun); !ok || fn != "append" || !axIsSel(call.Args[0], cont, "result") {
		return nil, s.g.bad(st, "expected `append(%s.result, x)`", cont)
	}
	return call.Args[1], nil
}

func (g *axGen) helper(fd *ast.FuncDecl) (*axHelper, error) {
	h := &axHelper{name: fd.Name.Name, set: "none"}
	if fd.Recv == nil || len(fd.Recv.List) != 1 || len(fd.Recv.List[0].Names) != 1 {
		return nil, g.bad(fd, "helper without a named receiver")
	}
	sc := &axScope{g: g, recv: fd.Recv.List[0].Names[0].Name, params: map[string]bool{}}
	for _, f := range fd.Type.Params.List {
		for _, n := range f.Names {
			h.params = append(h.params, n.Name)
			sc.params[n.Name] = true
		}
	}
	if len(h.params) < 3 || h.params[0] != "root" || h.params[len(h.params)-1] != "container" {
		return nil, g.bad(fd, "helper parameters are not (root, …, container)")
	}
	body := fd.Body.List
	// optional lookup: `x, ok := m[k]` ; `if !ok { return ErrorMemberNotExist{…} }`
	if len(body) >= 2 {
		if as, ok := body[0].(*ast.AssignStmt); ok && as.Tok == token.DEFINE {
			if len(as.Lhs) != 2 || len(as.Rhs) != 1 {
				return nil, g.bad(as, "unrecognised definition at the head of the helper")
			}
			x, ok1 := axIdent(as.Lhs[0])
			okv, ok2 := axIdent(as.Lhs[1])
			ix, ok3 := as.Rhs[0].(*ast.IndexExpr)
			if !ok1 || !ok2 || !ok3 {
				return nil, g.bad(as, "expected `x, ok := m[k]`")
			}
			m, ok4 := axIdent(ix.X)
			k, ok5 := axIdent(ix.Index)
			if !ok4 || !ok5 || !sc.params[m] || !sc.params[k] || sc.params[x] {
				return nil, g.bad(as, "expected `x, ok := parameter[parameter]`")
			}
			ifs, ok := body[1].(*ast.IfStmt)
			if !ok || ifs.Init != nil || ifs.Else != nil || len(ifs.Body.List) != 1 {
				return nil, g.bad(body[1], "expected `if !ok { return ErrorMemberNotExist{…} }`")
			}
			un, ok := ifs.Cond.(*ast.UnaryExpr)
			if !ok || un.Op != token.NOT {
				return nil, g.bad(ifs, "expected condition `!ok`")
			}
			if c, ok := axIdent(un.X); !ok || c != okv {
				return nil, g.bad(ifs, "expected condition `!%s`", okv)
			}
			ret, ok := ifs.Body.List[0].(*ast.ReturnStmt)
			if !ok || len(ret.Results) != 1 {
				return nil, g.bad(ifs, "expected a single return in the not-found branch")
			}
			cl, ok := ret.Results[0].(*ast.CompositeLit)
			if !ok {
				return nil, g.bad(ret, "expected `return ErrorMemberNotExist{…}`")
			}
			if tn, ok := axIdent(cl.Type); !ok || tn != "ErrorMemberNotExist" {
				return nil, g.bad(ret, "expected `return ErrorMemberNotExist{…}`")
			}
			if len(cl.Elts) != 1 {
				return nil, g.bad(ret, "expected ErrorMemberNotExist{errorBasicRuntime: %s.errorRuntime}", sc.recv)
			}
			kv, ok := cl.Elts[0].(*ast.KeyValueExpr)
			if !ok || !axIsSel(kv.Value, sc.recv, "errorRuntime") {
				return nil, g.bad(ret, "expected ErrorMemberNotExist{errorBasicRuntime: %s.errorRuntime}", sc.recv)
			}
			if kn, ok := axIdent(kv.Key); !ok || kn != "errorBasicRuntime" {
				return nil, g.bad(ret, "expected ErrorMemberNotExist{errorBasicRuntime: %s.errorRuntime}", sc.recv)
			}
			h.lookup = []string{x, m, k}
			sc.bound = x
			body = body[2:]
		}
	}
	if len(body) != 3 {
		return nil, g.bad(fd, "helper body is not [lookup;] if next != nil {…}; if accessorMode {…} else {…}; return nil")
	}
	// `if i.next != nil { return i.next.retrieve(root, V, container) }`
	ifn, ok := body[0].(*ast.IfStmt)
	if !ok || ifn.Init != nil || ifn.Else != nil || len(ifn.Body.List) != 1 {
		return nil, g.bad(body[0], "expected `if %s.next != nil { return %s.next.retrieve(root, v, container) }`", sc.recv, sc.recv)
	}
	be, ok := ifn.Cond.(*ast.BinaryExpr)
	if !ok || be.Op != token.NEQ || !axIsSel(be.X, sc.recv, "next") {
		return nil, g.bad(ifn, "expected condition `%s.next != nil`", sc.recv)
	}
	if n, ok := axIdent(be.Y); !ok || n != "nil" {
		return nil, g.bad(ifn, "expected condition `%s.next != nil`", sc.recv)
	}
	ret, ok := ifn.Body.List[0].(*ast.ReturnStmt)
	if !ok || len(ret.Results) != 1 {
		return nil, g.bad(ifn, "expected `return %s.next.retrieve(…)`", sc.recv)
	}
	call, ok := ret.Results[0].(*ast.CallExpr)
	if !ok || len(call.Args) != 3 {
		return nil, g.bad(ret, "expected `return %s.next.retrieve(root, v, container)`", sc.recv)
	}
	fsel, ok := call.Fun.(*ast.SelectorExpr)
	if !ok || fsel.Sel.Name != "retrieve" || !axIsSel(fsel.X, sc.recv, "next") {
		return nil, g.bad(ret, "expected `return %s.next.retrieve(root, v, container)`", sc.recv)
	}
	if a, ok := axIdent(call.Args[0]); !ok || a != "root" {
		return nil, g.bad(ret, "first argument of next.retrieve is not root")
	}
	if a, ok := axIdent(call.Args[2]); !ok || a != "container" {
		return nil, g.bad(ret, "third argument of next.retrieve is not container")
	}
	var err error
	if h.passOn, err = sc.src(call.Args[1]); err != nil {
		return nil, err
	}
	// `if i.accessorMode { container.result = append(container.result, Accessor{Get: …, Set: …}) } else { … }`
	ifa, ok := body[1].(*ast.IfStmt)
	if !ok || ifa.Init != nil || ifa.Else == nil || len(ifa.Body.List) != 1 || !axIsSel(ifa.Cond, sc.recv, "accessorMode") {
		return nil, g.bad(body[1], "expected `if %s.accessorMode { … } else { … }` with one statement per branch", sc.recv)
	}
	els, ok := ifa.Else.(*ast.BlockStmt)
	if !ok || len(els.List) != 1 {
		return nil, g.bad(ifa, "expected a one-statement else branch")
	}
	accE, err := sc.appendResult(ifa.Body.List[0], "container")
	if err != nil {
		return nil, err
	}
	plainE, err := sc.appendResult(els.List[0], "container")
	if err != nil {
		return nil, err
	}
	if h.plain, err = sc.src(plainE); err != nil {
		return nil, err
	}
	lit, ok := accE.(*ast.CompositeLit)
	if !ok || len(lit.Elts) != 2 {
		return nil, g.bad(accE, "expected Accessor{Get: …, Set: …}")
	}
	if tn, ok := axIdent(lit.Type); !ok || tn != "Accessor" {
		return nil, g.bad(accE, "expected Accessor{Get: …, Set: …}")
	}
	seen := map[string]bool{}
	for _, el := range lit.Elts {
		kv, ok := el.(*ast.KeyValueExpr)
		if !ok {
			return nil, g.bad(el, "expected keyed fields in the Accessor literal")
		}
		key, _ := axIdent(kv.Key)
		if seen[key] {
			return nil, g.bad(el, "field %s twice", key)
		}
		seen[key] = true
		switch key {
		case "Get":
			fl, ok := kv.Value.(*ast.FuncLit)
			if !ok || len(fl.Type.Params.List) != 0 || fl.Type.Results == nil || len(fl.Type.Results.List) != 1 || len(fl.Body.List) != 1 {
				return nil, g.bad(kv.Value, "expected `Get: func() interface{} { return x }`")
			}
			r, ok := fl.Body.List[0].(*ast.ReturnStmt)
			if !ok || len(r.Results) != 1 {
				return nil, g.bad(kv.Value, "expected `Get: func() interface{} { return x }`")
			}
			if h.get, err = sc.src(r.Results[0]); err != nil {
				return nil, err
			}
		case "Set":
			if n, ok := axIdent(kv.Value); ok && n == "nil" {
				h.set = "none"
				continue
			}
			fl, ok := kv.Value.(*ast.FuncLit)
			if !ok || len(fl.Type.Params.List) != 1 || len(fl.Type.Params.List[0].Names) != 1 || fl.Type.Results != nil || len(fl.Body.List) != 1 {
				return nil, g.bad(kv.Value, "expected `Set: nil` or `Set: func(value interface{}) { x = value }`")
			}
			pv := fl.Type.Params.List[0].Names[0].Name
			if sc.params[pv] || pv == sc.bound {
				return nil, g.bad(kv.Value, "the parameter of Set shadows %s", pv)
			}
			as, ok := fl.Body.List[0].(*ast.AssignStmt)
			if !ok || as.Tok != token.ASSIGN || len(as.Lhs) != 1 || len(as.Rhs) != 1 {
				return nil, g.bad(kv.Value, "expected `Set: func(value interface{}) { x = value }`")
			}
			if r, ok := axIdent(as.Rhs[0]); !ok || r != pv {
				return nil, g.bad(as, "Set does not assign its parameter")
			}
			if _, isIdx := as.Lhs[0].(*ast.IndexExpr); !isIdx {
				return nil, g.bad(as, "Set does not assign an element parameter[parameter]")
			}
			t, err := sc.src(as.Lhs[0])
			if err != nil {
				return nil, err
			}
			h.set = "some (" + t + ")"
		default:
			return nil, g.bad(el, "unknown Accessor field %s", key)
		}
	}
	if !seen["Get"] || !seen["Set"] {
		return nil, g.bad(accE, "Accessor literal without Get or Set")
	}
	// `return nil`
	rn, ok := body[2].(*ast.ReturnStmt)
	if !ok || len(rn.Results) != 1 {
		return nil, g.bad(body[2], "expected `return nil`")
	}
	if n, ok := axIdent(rn.Results[0]); !ok || n != "nil" {
		return nil, g.bad(body[2], "expected `return nil`")
	}
	return h, nil
}

// ---------------------------------------------------------------------------------------------
// tables

type axTable [][]string

func (t axTable) sorted() axTable {
	out := append(axTable{}, t...)
	sort.SliceStable(out, func(i, j int) bool { return strings.Join(out[i], "\x00") < strings.Join(out[j], "\x00") })
	return out
}

// counted collapses equal rows and appends their multiplicity.
func (t axTable) counted() axTable {
	s := t.sorted()
	var out axTable
	for i := 0; i < len(s); {
		j := i
		for j < len(s) && strings.Join(s[j], "\x00") == strings.Join(s[i], "\x00") {
			j++
		}
		out = append(out, append(append([]string{}, s[i]...), fmt.Sprint(j-i)))
		i = j
	}
	return out
}

func (t axTable) lean(name, doc string) string {
	var b strings.Builder
	fmt.Fprintf(&b, "/-- %s -/\ndef %s : List (List String) := [", doc, name)
	for i, row := range t {
		if i > 0 {
			b.WriteString(",")
		}
		b.WriteString("\n  [")
		for j, c := range row {
			if j > 0 {
				b.WriteString(", ")
			}
			b.WriteString(axLeanStr(c))
		}
		b.WriteString("]")
	}
	b.WriteString("]\n\n")
	return b.String()
}

func isHelperName(n string) bool {
	return strings.HasPrefix(n, "retrieve") && strings.HasSuffix(n, "Next") && n != "retrieveNext"
}

func genAccessor(repo, outDir string) error {
	g := &axGen{repo: repo, fset: token.NewFileSet(), asts: map[string]*ast.File{}}
	ents, err := os.ReadDir(repo)
	if err != nil {
		return fmt.Errorf("untranslatable: %s:1: cannot list: %v", repo, err)
	}
	for _, e := range ents {
		n := e.Name()
		if e.IsDir() || !strings.HasSuffix(n, ".go") || strings.HasSuffix(n, "_test.go") || axSkip[n] {
			continue
		}
		g.files = append(g.files, n)
	}
	sort.Strings(g.files)
	for _, f := range g.files {
		a, err := parser.ParseFile(g.fset, filepath.Join(repo, f), nil, parser.SkipObjectResolution)
		if err != nil {
			return fmt.Errorf("untranslatable: %s:1: does not parse: %v", f, err)
		}
		normalizeFile(g.fset, a)
		g.asts[f] = a
	}

	var helpers []*axHelper
	var helperCalls, flagUses, resultWrites, modeCalls, retrieveCalls axTable

	for _, f := range g.files {
		for _, d := range g.asts[f].Decls {
			fd, ok := d.(*ast.FuncDecl)
			if !ok {
				// a field named accessorMode may be declared in a struct type; any other mention outside
				// a function is outside the subset
				var bad error
				ast.Inspect(d, func(n ast.Node) bool {
					if se, ok := n.(*ast.SelectorExpr); ok && se.Sel.Name == "accessorMode" && bad == nil {
						bad = g.bad(se, "accessorMode mentioned outside a function")
					}
					return true
				})
				if bad != nil {
					return bad
				}
				continue
			}
			if fd.Body == nil {
				continue
			}
			fn := axFuncName(fd)
			if isHelperName(fd.Name.Name) {
				if !strings.HasPrefix(fn, "syntaxBasicNode.") {
					return g.bad(fd, "a retrieve…Next method outside syntaxBasicNode")
				}
				h, err := g.helper(fd)
				if err != nil {
					return err
				}
				helpers = append(helpers, h)
			}
			// parents for classification of accessorMode mentions
			var stack []ast.Node
			var walkErr error
			ast.Inspect(fd.Body, func(n ast.Node) bool {
				if n == nil {
					stack = stack[:len(stack)-1]
					return true
				}
				var parent ast.Node
				if len(stack) > 0 {
					parent = stack[len(stack)-1]
				}
				stack = append(stack, n)
				switch x := n.(type) {
				case *ast.SelectorExpr:
					if x.Sel.Name == "accessorMode" {
						kind, text := "use", g.str(x)
						switch p := parent.(type) {
						case *ast.IfStmt:
							if p.Cond == ast.Expr(x) {
								kind = "if"
							}
						case *ast.AssignStmt:
							for _, l := range p.Lhs {
								if l == ast.Expr(x) {
									kind, text = "set", g.str(p)
								}
							}
							if kind == "use" {
								text = g.str(p)
							}
						case *ast.KeyValueExpr:
							if p.Value == ast.Expr(x) {
								if k, ok := axIdent(p.Key); ok && k == "accessorMode" {
									// counted under "key" below
									return true
								}
							}
							text = g.str(p)
						default:
							if parent != nil {
								text = g.str(parent)
							}
						}
						flagUses = append(flagUses, []string{fn, kind, text})
					}
				case *ast.KeyValueExpr:
					if k, ok := axIdent(x.Key); ok && k == "accessorMode" {
						flagUses = append(flagUses, []string{fn, "key", g.str(x.Value)})
					}
				case *ast.AssignStmt:
					for _, l := range x.Lhs {
						if se, ok := l.(*ast.SelectorExpr); ok && se.Sel.Name == "result" {
							resultWrites = append(resultWrites, []string{fn, g.str(x)})
						}
					}
				case *ast.IncDecStmt:
					if se, ok := x.X.(*ast.SelectorExpr); ok && se.Sel.Name == "result" {
						walkErr = g.bad(x, "increment of a field named result")
					}
				case *ast.CallExpr:
					se, ok := x.Fun.(*ast.SelectorExpr)
					if !ok {
						break
					}
					args := make([]string, len(x.Args))
					for i, a := range x.Args {
						args[i] = g.str(a)
					}
					switch {
					case isHelperName(se.Sel.Name):
						helperCalls = append(helperCalls, []string{fn, se.Sel.Name, strings.Join(args, ", ")})
					case se.Sel.Name == "updateAccessorMode" || se.Sel.Name == "setAccessorMode":
						modeCalls = append(modeCalls, []string{fn, g.str(se), strings.Join(args, ", ")})
					case se.Sel.Name == "retrieve":
						retrieveCalls = append(retrieveCalls, []string{fn, g.str(se), strings.Join(args, ", ")})
					}
				}
				return true
			})
			if walkErr != nil {
				return walkErr
			}
		}
	}
	sort.Slice(helpers, func(i, j int) bool { return helpers[i].name < helpers[j].name })

	var b strings.Builder
	fmt.Fprintf(&b, "/-\nGENERATED by /verif/harness/cmd/translate (generator `accessor`) — do not edit, never committed.\nSource (relative to the library tree):\n")
	all := sha256.New()
	for _, f := range g.files {
		data, err := os.ReadFile(filepath.Join(repo, f))
		if err != nil {
			return fmt.Errorf("untranslatable: %s:1: cannot read: %v", f, err)
		}
		all.Write(data)
	}
	basic, err := os.ReadFile(filepath.Join(repo, "syntax_basic_node.go"))
	if err != nil {
		return fmt.Errorf("untranslatable: syntax_basic_node.go:1: cannot read: %v", err)
	}
	fmt.Fprintf(&b, "  syntax_basic_node.go sha256=%x\n  all %d hand-written files combined sha256=%x\n", sha256.Sum256(basic), len(g.files), all.Sum(nil))
	b.WriteString("Meaning of the values: JPV/Acc/GoTypes.lean; compared and interpreted in JPV/Acc/Ties.lean.\n-/\n")
	b.WriteString("import JPV.Acc.GoTypes\nnamespace JPV.Gen.AccessorGo\nopen JPV.Acc.Go\n\n")
	b.WriteString("/-- the `retrieve…Next` methods of syntaxBasicNode, in name order -/\ndef helpers : List Helper := [")
	for i, h := range helpers {
		if i > 0 {
			b.WriteString(",")
		}
		ps := make([]string, len(h.params))
		for j, p := range h.params {
			ps[j] = axLeanStr(p)
		}
		lk := "none"
		if h.lookup != nil {
			lk = fmt.Sprintf("some (%s, %s, %s)", axLeanStr(h.lookup[0]), axLeanStr(h.lookup[1]), axLeanStr(h.lookup[2]))
		}
		fmt.Fprintf(&b, "\n  { name := %s, params := [%s], lookup := %s,\n    passOn := %s, get := %s, set := %s, plain := %s }",
			axLeanStr(h.name), strings.Join(ps, ", "), lk, h.passOn, h.get, h.set, h.plain)
	}
	b.WriteString("]\n\n")
	b.WriteString(helperCalls.sorted().lean("helperCalls", "[function, helper, arguments] every call of a `retrieve…Next` method"))
	b.WriteString(flagUses.counted().lean("flagUses", "[function, kind, text, count] every mention of the field `accessorMode`"))
	b.WriteString(resultWrites.counted().lean("resultWrites", "[function, statement, count] every assignment to a field `result`"))
	b.WriteString(modeCalls.sorted().lean("modeCalls", "[function, callee, arguments] every call of updateAccessorMode / setAccessorMode"))
	b.WriteString(retrieveCalls.sorted().lean("retrieveCalls", "[function, callee, arguments] every call of a method named `retrieve`"))
	b.WriteString("end JPV.Gen.AccessorGo\n")
	return os.WriteFile(filepath.Join(outDir, "AccessorGo.lean"), []byte(b.String()), 0o644)
}
