// configgo.go: generator `configgo` — the setters of config.go as Lean functions over a model of Config.
//
// Emits Gen/ConfigGo.lean:
//
//	structure Config (α β) where filterFunctions, aggregateFunctions : Option (List (String × _)), accessorMode : Bool
//	def SetFilterFunction / SetAggregateFunction / SetAccessorMode
//
// Accepted shape of a function setter (after normalisation; receiver and parameter names are free):
//
//	func (c *Config) SetXFunction(id string, function F) {
//	    if c.M == nil { c.M = map[string]F{} }      // or make(map[string]F)
//	    c.M[id] = function
//	}
//
// and of SetAccessorMode: the single statement `c.accessorMode = true`. Anything else — an extra statement,
// another key expression (a lower-cased alias …), another field, a second write — is refused
// (`untranslatable: config.go:LINE: why`). The exported method set of *Config is part of the output.
package main

import (
	"fmt"
	"go/ast"
	"go/token"
	"os"
	"path/filepath"
	"sort"
	"strings"
)

func init() { register("configgo", genConfigGo) }

func genConfigGo(repo, out string) error {
	s := tiNew(repo)
	f, err := s.parse("config.go")
	if err != nil {
		return err
	}
	type setter struct {
		name, field string
		line        int
	}
	var fnSetters []setter
	accLine := 0
	var methods []string
	for _, d := range f.Decls {
		fd, ok := d.(*ast.FuncDecl)
		if !ok {
			if gd, ok := d.(*ast.GenDecl); ok && gd.Tok == token.VAR {
				return s.bad(gd, "package variable in config.go")
			}
			continue
		}
		if fd.Recv == nil {
			return s.bad(fd, "function %s without receiver in config.go (init functions and helpers are outside the subset)", fd.Name.Name)
		}
		if len(fd.Recv.List) != 1 || len(fd.Recv.List[0].Names) != 1 || s.str(fd.Recv.List[0].Type) != "*Config" {
			return s.bad(fd, "receiver of %s is not a named *Config", fd.Name.Name)
		}
		recv := fd.Recv.List[0].Names[0].Name
		methods = append(methods, fd.Name.Name)
		if fd.Type.Results != nil && len(fd.Type.Results.List) > 0 {
			return s.bad(fd, "%s returns a value", fd.Name.Name)
		}
		switch fd.Name.Name {
		case "SetAccessorMode":
			if len(fd.Type.Params.List) != 0 || len(fd.Body.List) != 1 {
				return s.bad(fd, "SetAccessorMode is not the single statement c.accessorMode = true")
			}
			as, ok := fd.Body.List[0].(*ast.AssignStmt)
			if !ok || as.Tok != token.ASSIGN || len(as.Lhs) != 1 || s.str(as.Lhs[0]) != recv+".accessorMode" || s.str(as.Rhs[0]) != "true" {
				return s.bad(fd.Body.List[0], "SetAccessorMode is not the single statement c.accessorMode = true")
			}
			accLine = s.line(fd)
		case "SetFilterFunction", "SetAggregateFunction":
			field := "filterFunctions"
			if fd.Name.Name == "SetAggregateFunction" {
				field = "aggregateFunctions"
			}
			var params []string
			for _, p := range fd.Type.Params.List {
				for _, n := range p.Names {
					params = append(params, n.Name)
				}
			}
			if len(params) != 2 || s.str(fd.Type.Params.List[0].Type) != "string" {
				return s.bad(fd, "%s does not take (name string, function F)", fd.Name.Name)
			}
			ftype := s.str(fd.Type.Params.List[len(fd.Type.Params.List)-1].Type)
			if len(fd.Body.List) != 2 {
				return s.bad(fd, "%s has %d statements, expected the nil check and the store", fd.Name.Name, len(fd.Body.List))
			}
			ifs, ok := fd.Body.List[0].(*ast.IfStmt)
			if !ok || ifs.Init != nil || ifs.Else != nil || s.str(ifs.Cond) != recv+"."+field+" == nil" || len(ifs.Body.List) != 1 {
				return s.bad(fd.Body.List[0], "expected `if %s.%s == nil { %s.%s = <empty map> }`", recv, field, recv, field)
			}
			mk, ok := ifs.Body.List[0].(*ast.AssignStmt)
			empty1 := "map[string]" + ftype + "{}"
			empty2 := "make(map[string]" + ftype + ")"
			if !ok || mk.Tok != token.ASSIGN || len(mk.Lhs) != 1 || s.str(mk.Lhs[0]) != recv+"."+field || (s.str(mk.Rhs[0]) != empty1 && s.str(mk.Rhs[0]) != empty2) {
				return s.bad(ifs.Body.List[0], "expected `%s.%s = %s`", recv, field, empty1)
			}
			st, ok := fd.Body.List[1].(*ast.AssignStmt)
			if !ok || st.Tok != token.ASSIGN || len(st.Lhs) != 1 || s.str(st.Lhs[0]) != recv+"."+field+"["+params[0]+"]" || s.str(st.Rhs[0]) != params[1] {
				return s.bad(fd.Body.List[1], "expected the single store `%s.%s[%s] = %s`", recv, field, params[0], params[1])
			}
			fnSetters = append(fnSetters, setter{fd.Name.Name, field, s.line(fd)})
		default:
			return s.bad(fd, "method %s of *Config is outside the subset", fd.Name.Name)
		}
	}
	if len(fnSetters) != 2 || accLine == 0 {
		return s.badFile("config.go", "expected exactly SetFilterFunction, SetAggregateFunction, SetAccessorMode")
	}
	sort.Strings(methods)
	hdr, err := s.header("configgo", []string{"config.go"}, "the three setters of *Config over a model of Config (maps as optional association lists: nil vs empty is kept)")
	if err != nil {
		return err
	}
	var b strings.Builder
	b.WriteString(hdr)
	b.WriteString("namespace JPV.Gen.ConfigGo\n\n")
	b.WriteString("/-- a Go map[string]F: `none` = nil map; insertion overwrites the entry of the same key -/\n")
	b.WriteString("abbrev GoMap (φ : Type) := Option (List (String × φ))\n\n")
	b.WriteString("def GoMap.store {φ : Type} (m : List (String × φ)) (k : String) (v : φ) : List (String × φ) :=\n  (k, v) :: m.filter (fun e => e.1 != k)\n\n")
	b.WriteString("structure Config (α β : Type) where\n  filterFunctions : GoMap α\n  aggregateFunctions : GoMap β\n  accessorMode : Bool\n\n")
	for _, st := range fnSetters {
		ty := "α"
		if st.field == "aggregateFunctions" {
			ty = "β"
		}
		fmt.Fprintf(&b, "/-- config.go:%d -/\ndef %s {α β : Type} (c : Config α β) (id : String) (function : %s) : Config α β :=\n", st.line, st.name, ty)
		fmt.Fprintf(&b, "  let c := if c.%s.isNone then { c with %s := some [] } else c   -- if c.%s == nil { c.%s = map…{} }\n", st.field, st.field, st.field, st.field)
		fmt.Fprintf(&b, "  { c with %s := c.%s.map (fun m => GoMap.store m id function) }   -- c.%s[id] = function\n\n", st.field, st.field, st.field)
	}
	fmt.Fprintf(&b, "/-- config.go:%d -/\ndef SetAccessorMode {α β : Type} (c : Config α β) : Config α β :=\n  { c with accessorMode := true }   -- c.accessorMode = true\n\n", accLine)
	fmt.Fprintf(&b, "/-- the methods of *Config -/\ndef methods : List String := [%s]\n\n", `"`+strings.Join(methods, `", "`)+`"`)
	b.WriteString("end JPV.Gen.ConfigGo\n")
	return os.WriteFile(filepath.Join(out, "ConfigGo.lean"), []byte(b.String()), 0o644)
}
