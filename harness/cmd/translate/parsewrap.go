// parsewrap.go — generator "parsewrap": jsonpath.go `Parse` (with its deferred function and the function it
// returns), `Retrieve`, and cache.go `getContainer` / `putContainer` / `putSortSlice` as Lean functions over the
// explicit global state of lean/JPV/Glob/State.lean (lean/JPV/Gen/ParseWrapGo.lean, tie T1; consumed by
// Lemmas/GlobState.lean, Lemmas/GlobHistory.lean, Glob/Tie.lean, Props/C05State.lean, C06State.lean, C19State.lean,
// RetrieveState.lean).
//
// Translation scheme (statement by statement; `w` is the World, threaded through every statement):
//
//	a Go function            def F (params…) (w : World) : results… × World
//	a statement that cannot  `let w := w.<primitive> …`          (every primitive that touches the package
//	  panic                                                        variable `parser` logs an event)
//	a statement that can     `match <primitive> with | (w, some p) => <panic exit> | (w, none) => <rest>`
//	`defer func() {…}()`     a separate def `<F>_defer<k>`; the body of F after its defers is `<F>_body`; F runs
//	                         the body, then the deferred functions in reverse order ON EVERY EXIT
//	named results, recover   the deferred functions of Parse take and return (panicking, f, err);
//	                         `x := recover()` is `let x := panicking; let panicking := none`
//	the returned closure     def Parse_func (ops) (<captured variables>) : Closure — what it closes over is what
//	                         the def takes; a mention of `parser` inside would be a logged access
//	parser.Parse(); parser.Execute()   the ONE opaque operation `w.runActions ops`
//	<tree>.retrieve(a, b, c)           the opaque operation `w.retrieve ops <tree> a b c o`
//	sync.Pool.Get            `w.resultPoolGet <New> ch`, `ch` the nondeterministic choice
//	F, E := Parse(P, C...)   `match Parse ops P C w with` — one arm per way `Parse` can end (ParseRet)
//	F(S), F a func value     `match F with | none => nil-function panic | some F => F S ch o w`
//
// Accepted shapes, exactly (anything else: `untranslatable: file:line: why`, nothing is emitted):
//
//	jsonpath.go   var parseMutex sync.Mutex; var parser = pegJSONPathParser{}; var unescapeRegex = <call>
//	  func Parse(P string, C ...Config) (F func(src interface{}) ([]interface{}, error), E error) {
//	      PSTMT*  (no panic, no if)   then   defer func() { DSTMT* }() *   then   BSTMT*   return func(S interface{}) ([]interface{}, error) {…}, nil }
//	  PSTMT ::= parseMutex.Lock() | SIMPLE
//	  SIMPLE ::= parseMutex.Unlock() | parser.Buffer = P | parser.jsonPathParser = jsonPathParser{}
//	         | parser[.jsonPathParser].FIELD = nil | false | true | unescapeRegex     (as the field's type allows)
//	  DSTMT ::= SIMPLE | if X := recover(); X != nil { (if Y, ok := X.(error); ok { E = Y })* }
//	  BSTMT ::= SIMPLE | parser.Init() | parser.Reset() | parser.Parse() parser.Execute()
//	         | parser[.jsonPathParser].FIELD = C[n].FIELD
//	         | R := parser[.jsonPathParser].root | verifParsed(R)   (only if verif_off.go gives it an empty body)
//	         | if parser.parse (==|!=) nil { BSTMT* } [else { BSTMT* }] | if len(C) OP n { BSTMT* } [else { BSTMT* }]
//	  closure ::= K := getContainer()   defer func() { putContainer(K) }() *   CSTMT*
//	  CSTMT ::= if e := R.retrieve(S, S, K); e != nil { return nil, e[.(error)] }
//	         | if len(SL) OP ATOM { return … }  | V := make([]interface{}, len(SL) | n)
//	         | for I := range V { V[I] = SL[I] } | return (nil | SL), nil          SL ::= V | K.result
//	  func Retrieve(P string, S interface{}, C ...Config) ([]interface{}, error) {      (→ `def Retrieve`, RetrieveRet)
//	      F, E := Parse(P, C...)   if E != nil { return nil, E }   return F(S) }
//	    these three statements in this order and nothing else: no other statement, no lock, no loop, no
//	    package-level variable, no second call
//	cache.go      the two pools with New: func() interface{} { return new(T) };
//	  func getContainer() *bufferContainer { return resultSyncPool.Get().(*bufferContainer) }
//	  func putContainer(K *bufferContainer) { (K.result = K.result[:0])* resultSyncPool.Put(K) }
//	  func putSortSlice(V *sort.StringSlice) { if V != nil { sortSliceSyncPool.Put(V) } }
//	struct shapes  jsonPathParser (the seven fields the state model has — a new field is refused), Config,
//	  bufferContainer, pegJSONPathParser (embeds jsonPathParser; Buffer, parse, reset), and its methods
//	  Parse / Reset (`return p.parse(rule...)`, `p.reset()`).
package main

import (
	"fmt"
	"go/ast"
	"go/token"
	"strconv"
	"strings"
)

func init() { register("parsewrap", genParseWrap) }

type pwCtx struct {
	panicFmt     string // what a panic yields (one %s: the panic value); "": statements that can panic are refused
	end          string // value at the normal end of the block; "": the block must end in a return
	allowLock    bool
	allowRecover bool
	allowConfig  bool // C[n].FIELD may be read
	allowBody    bool // Init / Reset / Parse+Execute / root read / hook / if
}

type pwGen struct {
	s        *tiSrc
	cur      *[]string
	closure  []string // defs of the returned function
	xn, cn   int
	pathVar  string          // Parse's string parameter
	cfgVar   string          // Parse's variadic Config parameter
	fRes     string          // named results
	errRes   string          //
	treeVars map[string]bool // locals of Parse that hold parser.jsonPathParser.root
	hookOK   bool            // verif_off.go: func verifParsed(root syntaxNode) {}
	consts   map[string]string
}

var pwReserved = map[string]bool{
	"w": true, "ops": true, "ch": true, "o": true, "p": true, "panicking": true, "ret": true, "elemAt": true,
	"at": true, "by": true, "do": true, "else": true, "end": true, "from": true, "fun": true, "have": true,
	"if": true, "in": true, "let": true, "match": true, "then": true, "with": true, "show": true,
	"def": true, "theorem": true, "where": true, "open": true, "namespace": true, "section": true,
	"pure": true, "some": true, "none": true, "return": true, "mut": true, "for": true, "List": true,
	"Nat": true, "String": true, "Option": true, "Type": true, "Prop": true, "Sort": true, "World": true,
	"Slice": true, "Container": true, "Closure": true, "Parse": true, "Retrieve": true, "forRange": true, "asError": true,
	"getContainer": true, "putContainer": true, "putSortSlice": true, "instance": true, "structure": true,
	"inductive": true, "variable": true, "universe": true, "true": true, "false": true, "not": true,
}

func (g *pwGen) name(id *ast.Ident) (string, error) {
	n := id.Name
	if pwReserved[n] || n == "_" || strings.ContainsAny(n, "'.") || strings.HasPrefix(n, "Parse_") ||
		(len(n) > 1 && (n[0] == 'x' || n[0] == 'c') && strings.Trim(n[1:], "0123456789") == "") {
		return "", g.s.bad(id, "identifier %q cannot be used as a Lean variable here", n)
	}
	for _, r := range n {
		if r > 0x7f {
			return "", g.s.bad(id, "non-ASCII identifier %q", n)
		}
	}
	return n, nil
}

// ln emits one line of Lean with the Go statement it stands for as a comment.
func (g *pwGen) ln(ind int, code, comment string) {
	l := strings.Repeat(" ", ind) + code
	if comment != "" {
		for len(l) < 66 {
			l += " "
		}
		l += " -- " + strings.ReplaceAll(comment, "\n", " ")
	}
	*g.cur = append(*g.cur, l)
}

func (g *pwGen) freshX() string { g.xn++; return "x" + strconv.Itoa(g.xn) }
func (g *pwGen) freshC() string { g.cn++; return "c" + strconv.Itoa(g.cn) }

// pwSelPath flattens a.b.c into its identifiers.
func pwSelPath(e ast.Expr) []string {
	switch t := e.(type) {
	case *ast.Ident:
		return []string{t.Name}
	case *ast.SelectorExpr:
		p := pwSelPath(t.X)
		if p == nil {
			return nil
		}
		return append(p, t.Sel.Name)
	}
	return nil
}

var pwJPFields = [][2]string{
	{"root", "syntaxNode"},
	{"paramsList", "[][]interface{}"},
	{"params", "[]interface{}"},
	{"unescapeRegex", "*regexp.Regexp"},
	{"filterFunctions", "map[string]func(interface{}) (interface{}, error)"},
	{"aggregateFunctions", "map[string]func([]interface{}) (interface{}, error)"},
	{"accessorMode", "bool"},
}

func pwIsJPField(n string) bool {
	for _, f := range pwJPFields {
		if f[0] == n {
			return true
		}
	}
	return false
}

// parserField: `parser.X` / `parser.jsonPathParser.X` → X (a field of the embedded struct);
// `parser.jsonPathParser` → "jsonPathParser"; `parser.Buffer` → "Buffer"; `parser.parse` → "parse".
func pwParserField(e ast.Expr) (string, bool) {
	p := pwSelPath(e)
	if len(p) < 2 || p[0] != "parser" {
		return "", false
	}
	if len(p) == 2 {
		if p[1] == "jsonPathParser" || p[1] == "Buffer" || p[1] == "parse" || pwIsJPField(p[1]) {
			return p[1], true
		}
		return "", false
	}
	if len(p) == 3 && p[1] == "jsonPathParser" && pwIsJPField(p[2]) {
		return p[2], true
	}
	return "", false
}

// pwMethodCall: `recv.m()` with no arguments → (recv path, m).
func pwMethodCall(e ast.Expr) ([]string, string, bool) {
	c, ok := e.(*ast.CallExpr)
	if !ok || len(c.Args) != 0 || c.Ellipsis != token.NoPos {
		return nil, "", false
	}
	sel, ok := c.Fun.(*ast.SelectorExpr)
	if !ok {
		return nil, "", false
	}
	p := pwSelPath(sel.X)
	if p == nil {
		return nil, "", false
	}
	return p, sel.Sel.Name, true
}

func pwSetter(field string) string {
	return "set" + strings.ToUpper(field[:1]) + field[1:]
}

func (g *pwGen) natLit(x ast.Expr) (string, bool) {
	if bl, ok := x.(*ast.BasicLit); ok && bl.Kind == token.INT {
		n, err := strconv.ParseUint(bl.Value, 0, 62)
		if err == nil {
			return strconv.FormatUint(n, 10), true
		}
	}
	if id, ok := x.(*ast.Ident); ok {
		if v, ok := g.consts[id.Name]; ok {
			return v, true
		}
	}
	return "", false
}

func pwCmpOp(op token.Token) (string, bool) {
	switch op {
	case token.LSS:
		return "<", true
	case token.LEQ:
		return "≤", true
	case token.GTR:
		return ">", true
	case token.GEQ:
		return "≥", true
	case token.EQL:
		return "=", true
	case token.NEQ:
		return "≠", true
	}
	return "", false
}

func (g *pwGen) panicOut(ctx pwCtx, p string) string { return fmt.Sprintf(ctx.panicFmt, p) }

// mayPanic emits `match EXPR with | (w, some p) => <panic exit> | (w, none) =>`.
func (g *pwGen) mayPanic(n ast.Node, ind int, ctx pwCtx, expr, comment string) error {
	if ctx.panicFmt == "" {
		return g.s.bad(n, "a statement that can panic is not accepted here: %s", g.s.str(n))
	}
	g.ln(ind, "match "+expr+" with", comment)
	g.ln(ind, "| (w, some p) => "+g.panicOut(ctx, "p"), "")
	g.ln(ind, "| (w, none) =>", "")
	return nil
}

// fieldAssign translates `parser[.jsonPathParser].FIELD = RHS`.
func (g *pwGen) fieldAssign(st *ast.AssignStmt, field string, ind int, ctx pwCtx) error {
	rhs := st.Rhs[0]
	cm := g.s.str(st)
	lit := func(v string) error {
		g.ln(ind, "let w := w."+pwSetter(field)+" "+v, cm)
		return nil
	}
	switch field {
	case "Buffer":
		if id, ok := rhs.(*ast.Ident); ok && id.Name == g.pathVar && ctx.allowConfig {
			return lit(g.pathVar)
		}
		return g.s.bad(st, "parser.Buffer may only be assigned the path parameter")
	case "jsonPathParser":
		if cl, ok := rhs.(*ast.CompositeLit); ok && tiIsIdent(cl.Type, "jsonPathParser") && len(cl.Elts) == 0 {
			return lit("{}")
		}
		return g.s.bad(st, "parser.jsonPathParser may only be assigned jsonPathParser{}")
	case "parse":
		return g.s.bad(st, "assignment to parser.parse")
	}
	isNil := tiIsIdent(rhs, "nil")
	switch field {
	case "root":
		if isNil {
			return lit("none")
		}
	case "params", "paramsList":
		if isNil {
			return lit("[]")
		}
	case "unescapeRegex":
		if isNil {
			return lit("false")
		}
		if tiIsIdent(rhs, "unescapeRegex") {
			return lit("true")
		}
	case "filterFunctions", "aggregateFunctions":
		if isNil {
			return lit("(fun _ => none)")
		}
	case "accessorMode":
		if tiIsIdent(rhs, "true") || tiIsIdent(rhs, "false") {
			return lit(rhs.(*ast.Ident).Name)
		}
	}
	// C[n].FIELD
	if sel, ok := rhs.(*ast.SelectorExpr); ok && ctx.allowConfig {
		if ix, ok := sel.X.(*ast.IndexExpr); ok && tiIsIdent(ix.X, g.cfgVar) {
			n, okN := g.natLit(ix.Index)
			if okN && sel.Sel.Name == field && (field == "filterFunctions" || field == "aggregateFunctions" || field == "accessorMode") {
				if ctx.panicFmt == "" {
					return g.s.bad(st, "an index expression (can panic) is not accepted here")
				}
				x := g.freshX()
				g.ln(ind, fmt.Sprintf("match elemAt %s %s with", g.cfgVar, n), cm)
				g.ln(ind, "| none => "+g.panicOut(ctx, "PanicVal.index"), "")
				g.ln(ind, "| some "+x+" =>", "")
				g.ln(ind, fmt.Sprintf("let w := w.%s %s.%s", pwSetter(field), x, field), "")
				return nil
			}
		}
	}
	return g.s.bad(st, "assignment %s outside the subset", cm)
}

// recoverIf translates `if X := recover(); X != nil { (if Y, ok := X.(error); ok { E = Y })* }`.
func (g *pwGen) recoverIf(t *ast.IfStmt, ind int) (bool, error) {
	as, ok := t.Init.(*ast.AssignStmt)
	if !ok || as.Tok != token.DEFINE || len(as.Lhs) != 1 || len(as.Rhs) != 1 {
		return false, nil
	}
	c, ok := as.Rhs[0].(*ast.CallExpr)
	if !ok || !tiIsIdent(c.Fun, "recover") || len(c.Args) != 0 {
		return false, nil
	}
	xid, ok := as.Lhs[0].(*ast.Ident)
	if !ok {
		return true, g.s.bad(t, "recover() must be bound to a variable")
	}
	x, err := g.name(xid)
	if err != nil {
		return true, err
	}
	if x == g.errRes || x == g.fRes {
		return true, g.s.bad(t, "recover() bound to a named result")
	}
	b, ok := t.Cond.(*ast.BinaryExpr)
	if !ok || b.Op != token.NEQ || !tiIsIdent(b.X, x) || !tiIsIdent(b.Y, "nil") || t.Else != nil {
		return true, g.s.bad(t, "the recover statement must be `if %s := recover(); %s != nil {…}` without else", x, x)
	}
	e := g.errRes
	g.ln(ind, "let "+x+" := panicking", "if "+g.s.str(t.Init)+"; "+g.s.str(t.Cond)+" {")
	g.ln(ind, "let panicking : Option PanicVal := none", "")
	g.ln(ind, "let "+e+" := (match "+x+" with", "")
	g.ln(ind+2, "| none => "+e, "")
	g.ln(ind+2, "| some "+x+" =>", "")
	for _, inner := range t.Body.List {
		it, ok := inner.(*ast.IfStmt)
		if !ok || it.Else != nil {
			return true, g.s.bad(inner, "inside the recover block only `if y, ok := %s.(error); ok { %s = y }` is accepted", x, e)
		}
		ias, ok := it.Init.(*ast.AssignStmt)
		if !ok || ias.Tok != token.DEFINE || len(ias.Lhs) != 2 || len(ias.Rhs) != 1 {
			return true, g.s.bad(inner, "inside the recover block only `if y, ok := %s.(error); ok { %s = y }` is accepted", x, e)
		}
		ta, ok := ias.Rhs[0].(*ast.TypeAssertExpr)
		yid, okY := ias.Lhs[0].(*ast.Ident)
		okid, okO := ias.Lhs[1].(*ast.Ident)
		if !ok || !okY || !okO || !tiIsIdent(ta.X, x) || !tiIsIdent(ta.Type, "error") || !tiIsIdent(it.Cond, okid.Name) {
			return true, g.s.bad(inner, "inside the recover block only `if y, ok := %s.(error); ok { %s = y }` is accepted", x, e)
		}
		y, err := g.name(yid)
		if err != nil {
			return true, err
		}
		if y == x || y == e || y == g.fRes {
			return true, g.s.bad(inner, "variable %s shadows", y)
		}
		g.ln(ind+4, "let "+e+" := (match asError ops "+x+" with", "if "+g.s.str(it.Init)+"; "+g.s.str(it.Cond)+" {")
		g.ln(ind+6, "| none => "+e, "")
		g.ln(ind+6, "| some "+y+" =>", "")
		for _, s2 := range it.Body.List {
			a2, ok := s2.(*ast.AssignStmt)
			if !ok || a2.Tok != token.ASSIGN || len(a2.Lhs) != 1 || len(a2.Rhs) != 1 || !tiIsIdent(a2.Lhs[0], e) || !tiIsIdent(a2.Rhs[0], y) {
				return true, g.s.bad(s2, "only `%s = %s` is accepted here", e, y)
			}
			g.ln(ind+8, "let "+e+" := some "+y, g.s.str(s2))
		}
		g.ln(ind+8, e+")", "")
	}
	g.ln(ind+4, e+")", "")
	return true, nil
}

// stmts translates a statement list of Parse (top level, an if block, or a deferred function).
func (g *pwGen) stmts(list []ast.Stmt, ind int, ctx pwCtx) error {
	for i := 0; i < len(list); i++ {
		st := list[i]
		switch t := st.(type) {
		case *ast.ExprStmt:
			recv, m, isM := pwMethodCall(t.X)
			switch {
			case isM && len(recv) == 1 && recv[0] == "parseMutex" && m == "Unlock":
				g.ln(ind, "let w := w.unlock", g.s.str(st))
			case isM && len(recv) == 1 && recv[0] == "parseMutex" && m == "Lock":
				if !ctx.allowLock {
					return g.s.bad(st, "parseMutex.Lock() is only accepted at the top of Parse, before the defer")
				}
				g.ln(ind, "match w.lock with", g.s.str(st))
				g.ln(ind, "| none => (w, .blocked)", "")
				g.ln(ind, "| some w =>", "")
			case isM && len(recv) == 1 && recv[0] == "parser" && ctx.allowBody && m == "Init":
				if err := g.mayPanic(st, ind, ctx, "w.pegInit", g.s.str(st)); err != nil {
					return err
				}
			case isM && len(recv) == 1 && recv[0] == "parser" && ctx.allowBody && m == "Reset":
				if err := g.mayPanic(st, ind, ctx, "w.pegReset", g.s.str(st)); err != nil {
					return err
				}
			case isM && len(recv) == 1 && recv[0] == "parser" && ctx.allowBody && m == "Parse":
				if i+1 >= len(list) {
					return g.s.bad(st, "parser.Parse() must be followed immediately by parser.Execute()")
				}
				nx, ok := list[i+1].(*ast.ExprStmt)
				if !ok {
					return g.s.bad(st, "parser.Parse() must be followed immediately by parser.Execute()")
				}
				r2, m2, ok2 := pwMethodCall(nx.X)
				if !ok2 || len(r2) != 1 || r2[0] != "parser" || m2 != "Execute" {
					return g.s.bad(st, "parser.Parse() must be followed immediately by parser.Execute()")
				}
				if err := g.mayPanic(st, ind, ctx, "w.runActions ops", g.s.str(st)+"; "+g.s.str(nx)); err != nil {
					return err
				}
				i++
			default:
				// verifParsed(R)
				if c, ok := t.X.(*ast.CallExpr); ok && tiIsIdent(c.Fun, "verifParsed") && len(c.Args) == 1 && ctx.allowBody {
					id, ok := c.Args[0].(*ast.Ident)
					if ok && g.treeVars[id.Name] && g.hookOK {
						g.ln(ind, "-- "+g.s.str(st)+": observation hook, empty body without build tag `verif` (verif_off.go)", "")
						continue
					}
				}
				return g.s.bad(st, "statement %s outside the subset", g.s.str(st))
			}
		case *ast.AssignStmt:
			if len(t.Lhs) != 1 || len(t.Rhs) != 1 {
				return g.s.bad(st, "multiple assignment")
			}
			if t.Tok == token.DEFINE {
				id, ok := t.Lhs[0].(*ast.Ident)
				f, okF := pwParserField(t.Rhs[0])
				if ok && okF && f == "root" && ctx.allowBody && ctx.end == "" {
					r, err := g.name(id)
					if err != nil {
						return err
					}
					if r == g.pathVar || r == g.cfgVar || r == g.fRes || r == g.errRes || g.treeVars[r] {
						return g.s.bad(st, "%s declared twice", r)
					}
					g.treeVars[r] = true
					g.ln(ind, "let ("+r+", w) := w.getRoot", g.s.str(st))
					continue
				}
				return g.s.bad(st, "declaration %s outside the subset", g.s.str(st))
			}
			if t.Tok != token.ASSIGN {
				return g.s.bad(st, "assignment operator %s", t.Tok)
			}
			f, ok := pwParserField(t.Lhs[0])
			if !ok {
				return g.s.bad(st, "assignment %s outside the subset", g.s.str(st))
			}
			if err := g.fieldAssign(t, f, ind, ctx); err != nil {
				return err
			}
		case *ast.IfStmt:
			if ctx.allowRecover {
				done, err := g.recoverIf(t, ind)
				if err != nil {
					return err
				}
				if done {
					continue
				}
			}
			if !ctx.allowBody || t.Init != nil {
				return g.s.bad(st, "if statement outside the subset: %s", g.s.str(t.Cond))
			}
			b, ok := t.Cond.(*ast.BinaryExpr)
			if !ok {
				return g.s.bad(st, "condition %s outside the subset", g.s.str(t.Cond))
			}
			hdr := "if " + g.s.str(t.Cond) + " {"
			var cond string
			if f, okF := pwParserField(b.X); okF && f == "parse" && tiIsIdent(b.Y, "nil") && (b.Op == token.EQL || b.Op == token.NEQ) {
				c := g.freshC()
				g.ln(ind, "let ("+c+", w) := w.parseIsNil", hdr)
				hdr = ""
				cond = c
				if b.Op == token.NEQ {
					cond = "!" + c
				}
			} else if c, okC := b.X.(*ast.CallExpr); okC && tiIsIdent(c.Fun, "len") && len(c.Args) == 1 && tiIsIdent(c.Args[0], g.cfgVar) && ctx.allowConfig {
				op, okO := pwCmpOp(b.Op)
				n, okN := g.natLit(b.Y)
				if !okO || !okN {
					return g.s.bad(st, "condition %s outside the subset", g.s.str(t.Cond))
				}
				cond = fmt.Sprintf("%s.length %s %s", g.cfgVar, op, n)
			} else {
				return g.s.bad(st, "condition %s outside the subset", g.s.str(t.Cond))
			}
			if ctx.panicFmt == "" {
				return g.s.bad(st, "if statement not accepted here")
			}
			sub := pwCtx{panicFmt: "(w, some %s)", end: "(w, none)", allowConfig: ctx.allowConfig, allowBody: true}
			g.ln(ind, "match (if "+cond+" then", hdr)
			if err := g.stmts(t.Body.List, ind+4, sub); err != nil {
				return err
			}
			g.ln(ind+2, "else", "")
			if t.Else != nil {
				eb, ok := t.Else.(*ast.BlockStmt)
				if !ok {
					return g.s.bad(t.Else, "else-if")
				}
				if err := g.stmts(eb.List, ind+4, sub); err != nil {
					return err
				}
			} else {
				g.ln(ind+4, "(w, none)", "")
			}
			// close the parenthesis on the last emitted line
			(*g.cur)[len(*g.cur)-1] = pwCloseParen((*g.cur)[len(*g.cur)-1])
			g.ln(ind, "| (w, some p) => "+g.panicOut(ctx, "p"), "")
			g.ln(ind, "| (w, none) =>", "")
		case *ast.ReturnStmt:
			if ctx.end != "" || i != len(list)-1 {
				return g.s.bad(st, "return is only accepted as the last statement of Parse")
			}
			return g.parseReturn(t, ind)
		default:
			return g.s.bad(st, "statement %s outside the subset", g.s.str(st))
		}
	}
	if ctx.end == "" {
		if len(list) == 0 {
			return fmt.Errorf("untranslatable: jsonpath.go:1: Parse has no return statement")
		}
		return g.s.bad(list[len(list)-1], "the last statement of Parse must be a return")
	}
	g.ln(ind, ctx.end, "")
	return nil
}

// pwCloseParen appends `) with` to the code part of a line (before its comment).
func pwCloseParen(l string) string {
	if i := strings.Index(l, " -- "); i >= 0 {
		return strings.TrimRight(l[:i], " ") + ") with" + l[i:]
	}
	return l + ") with"
}

// parseReturn: `return func(S interface{}) ([]interface{}, error) {…}, nil`
func (g *pwGen) parseReturn(t *ast.ReturnStmt, ind int) error {
	if len(t.Results) != 2 {
		return g.s.bad(t, "Parse must return two values")
	}
	fl, ok := t.Results[0].(*ast.FuncLit)
	if !ok || !tiIsIdent(t.Results[1], "nil") {
		return g.s.bad(t, "Parse must end with `return func(…) {…}, nil`")
	}
	captured, err := g.closureDefs(fl)
	if err != nil {
		return err
	}
	g.ln(ind, fmt.Sprintf("(w, .returned (some (Parse_func ops %s)) none)", captured), "return func(…) (…) {…}, nil")
	return nil
}

// closureDefs translates the function literal into Parse_func_defer<k>, Parse_func_body, Parse_func;
// returns the captured tree variable.
func (g *pwGen) closureDefs(fl *ast.FuncLit) (string, error) {
	s := g.s
	names, types := tiFlatParams(fl.Type.Params)
	if len(names) != 1 || names[0] == "" || !tiIsEmptyIface(types[0]) {
		return "", s.bad(fl, "the returned function must take one named interface{} parameter")
	}
	rn, rt := tiFlatParams(fl.Type.Results)
	if len(rt) != 2 || rn[0] != "" || rn[1] != "" || !tiIsIfaceSlice(rt[0]) || !tiIsIdent(rt[1], "error") {
		return "", s.bad(fl, "the returned function must return ([]interface{}, error), unnamed")
	}
	src, err := g.name(fl.Type.Params.List[0].Names[0])
	if err != nil {
		return "", err
	}
	if src == g.pathVar || src == g.cfgVar || g.treeVars[src] || src == g.fRes || src == g.errRes {
		return "", s.bad(fl, "parameter %s shadows a variable of Parse", src)
	}
	list := fl.Body.List
	// K := getContainer()
	if len(list) == 0 {
		return "", s.bad(fl, "empty function")
	}
	as, ok := list[0].(*ast.AssignStmt)
	if !ok || as.Tok != token.DEFINE || len(as.Lhs) != 1 || len(as.Rhs) != 1 {
		return "", s.bad(list[0], "the returned function must start with `K := getContainer()`")
	}
	kc, ok := as.Rhs[0].(*ast.CallExpr)
	kid, okK := as.Lhs[0].(*ast.Ident)
	if !ok || !okK || !tiIsIdent(kc.Fun, "getContainer") || len(kc.Args) != 0 {
		return "", s.bad(list[0], "the returned function must start with `K := getContainer()`")
	}
	k, err := g.name(kid)
	if err != nil {
		return "", err
	}
	if k == src || k == g.pathVar || k == g.cfgVar || g.treeVars[k] {
		return "", s.bad(list[0], "variable %s shadows", k)
	}
	c := &pwClosure{g: g, src: src, k: k, slices: map[string]bool{}}
	saved := g.cur
	g.cur = &g.closure
	defer func() { g.cur = saved }()
	// defers
	i := 1
	nDef := 0
	for ; i < len(list); i++ {
		d, ok := list[i].(*ast.DeferStmt)
		if !ok {
			break
		}
		dl, ok := d.Call.Fun.(*ast.FuncLit)
		if !ok || len(d.Call.Args) != 0 || (dl.Type.Params != nil && len(dl.Type.Params.List) != 0) || (dl.Type.Results != nil && len(dl.Type.Results.List) != 0) {
			return "", s.bad(d, "only `defer func() {…}()` is accepted")
		}
		nDef++
		g.ln(0, fmt.Sprintf("/-- jsonpath.go:%d deferred function %d of the function returned by `Parse` -/", s.line(d), nDef), "")
		g.ln(0, fmt.Sprintf("def Parse_func_defer%d (%s : Container) (w : World) : World :=", nDef, k), "")
		for _, ds := range dl.Body.List {
			es, ok := ds.(*ast.ExprStmt)
			var call *ast.CallExpr
			if ok {
				call, ok = es.X.(*ast.CallExpr)
			}
			if !ok || !tiIsIdent(call.Fun, "putContainer") || len(call.Args) != 1 || !tiIsIdent(call.Args[0], k) {
				return "", s.bad(ds, "in the deferred function only `putContainer(%s)` is accepted", k)
			}
			g.ln(2, fmt.Sprintf("let w := putContainer %s w", k), s.str(ds))
		}
		g.ln(2, "w", "")
		g.ln(0, "", "")
	}
	for _, st := range list[i:] {
		if _, ok := st.(*ast.DeferStmt); ok {
			return "", s.bad(st, "defer after the first ordinary statement")
		}
	}
	// body
	g.ln(0, fmt.Sprintf("/-- jsonpath.go:%d the function returned by `Parse`, after its defers -/", s.line(fl)), "")
	g.ln(0, fmt.Sprintf("def Parse_func_body (ops : Ops ι) (%%TREE%% : Option Tree) (%s : Val) (o : ι) (%s : Container) (w : World) :", src, k), "")
	g.ln(4, "Container × World × CallRet :=", "")
	hdrIdx := len(*g.cur) - 2
	if err := c.body(list[i:], 2); err != nil {
		return "", err
	}
	if c.tree == "" {
		return "", s.bad(fl, "the returned function never calls retrieve on a captured tree")
	}
	(*g.cur)[hdrIdx] = strings.Replace((*g.cur)[hdrIdx], "%TREE%", c.tree, 1)
	g.ln(0, "", "")
	g.ln(0, fmt.Sprintf("/-- jsonpath.go:%d the function returned by `Parse`; it closes over: %s -/", s.line(fl), c.tree), "")
	g.ln(0, fmt.Sprintf("def Parse_func (ops : Ops ι) (%s : Option Tree) : Closure ι := fun %s ch o w =>", c.tree, src), "")
	g.ln(2, fmt.Sprintf("let (%s, w) := getContainer ch w", k), s.str(list[0]))
	g.ln(2, fmt.Sprintf("let (%s, w, ret) := Parse_func_body ops %s %s o %s w", k, c.tree, src, k), "")
	for d := nDef; d >= 1; d-- {
		g.ln(2, fmt.Sprintf("let w := Parse_func_defer%d %s w", d, k), "defer func() {…}()")
	}
	g.ln(2, "(w, ret)", "")
	g.ln(0, "", "")
	return c.tree, nil
}

type pwClosure struct {
	g      *pwGen
	src, k string
	tree   string          // the captured tree variable
	slices map[string]bool // local slice variables
}

// sliceExpr: V | K.result
func (c *pwClosure) sliceExpr(e ast.Expr) (string, bool) {
	if id, ok := e.(*ast.Ident); ok && c.slices[id.Name] {
		return id.Name, true
	}
	if tiIsSel(e, c.k, "result") {
		return c.k + ".result", true
	}
	return "", false
}

// lenAtom: len(SL) | n
func (c *pwClosure) lenAtom(e ast.Expr) (string, bool) {
	if call, ok := e.(*ast.CallExpr); ok && tiIsIdent(call.Fun, "len") && len(call.Args) == 1 && call.Ellipsis == token.NoPos {
		if sl, ok := c.sliceExpr(call.Args[0]); ok {
			return sl + ".len", true
		}
		return "", false
	}
	return c.g.natLit(e)
}

func (c *pwClosure) ret(t *ast.ReturnStmt, errVar string) (string, error) {
	g := c.g
	if len(t.Results) != 2 {
		return "", g.s.bad(t, "the returned function must return two values")
	}
	var r, e string
	if tiIsIdent(t.Results[0], "nil") {
		r = "none"
	} else if sl, ok := c.sliceExpr(t.Results[0]); ok {
		if strings.Contains(sl, ".") {
			r = "(some " + sl + ")"
		} else {
			r = "(some " + sl + ")"
		}
	} else {
		return "", g.s.bad(t, "returned value %s outside the subset", g.s.str(t.Results[0]))
	}
	x := t.Results[1]
	if ta, ok := x.(*ast.TypeAssertExpr); ok && tiIsIdent(ta.Type, "error") {
		x = ta.X // errorRuntime values are errors: every implementation has an Error method
	}
	if tiIsIdent(x, "nil") {
		e = "none"
	} else if errVar != "" && tiIsIdent(x, errVar) {
		e = "(some " + errVar + ")"
	} else {
		return "", g.s.bad(t, "returned error %s outside the subset", g.s.str(t.Results[1]))
	}
	return fmt.Sprintf("(%s, w, .returned %s %s)", c.k, r, e), nil
}

func (c *pwClosure) body(list []ast.Stmt, ind int) error {
	g := c.g
	s := g.s
	if len(list) == 0 {
		return fmt.Errorf("untranslatable: jsonpath.go:1: the returned function has no return statement")
	}
	for i, st := range list {
		last := i == len(list)-1
		switch t := st.(type) {
		case *ast.IfStmt:
			if t.Else != nil || len(t.Body.List) != 1 {
				return s.bad(st, "if with else, or with a body that is not a single return")
			}
			rs, ok := t.Body.List[0].(*ast.ReturnStmt)
			if !ok {
				return s.bad(st, "if body must be a single return")
			}
			if t.Init != nil {
				// if e := R.retrieve(S, S, K); e != nil { return nil, e.(error) }
				as, ok := t.Init.(*ast.AssignStmt)
				if !ok || as.Tok != token.DEFINE || len(as.Lhs) != 1 || len(as.Rhs) != 1 {
					return s.bad(st, "if initialiser outside the subset")
				}
				eid, okE := as.Lhs[0].(*ast.Ident)
				call, okC := as.Rhs[0].(*ast.CallExpr)
				if !okE || !okC || len(call.Args) != 3 || call.Ellipsis != token.NoPos {
					return s.bad(st, "if initialiser outside the subset")
				}
				sel, ok := call.Fun.(*ast.SelectorExpr)
				if !ok || sel.Sel.Name != "retrieve" {
					return s.bad(st, "if initialiser outside the subset")
				}
				rid, ok := sel.X.(*ast.Ident)
				if !ok || !g.treeVars[rid.Name] {
					return s.bad(st, "retrieve must be called on a variable of Parse that holds parser.jsonPathParser.root")
				}
				if c.tree != "" && c.tree != rid.Name {
					return s.bad(st, "two captured trees")
				}
				if c.tree != "" {
					return s.bad(st, "retrieve called twice")
				}
				c.tree = rid.Name
				if !tiIsIdent(call.Args[0], c.src) || !tiIsIdent(call.Args[1], c.src) || !tiIsIdent(call.Args[2], c.k) {
					return s.bad(st, "retrieve must be called as retrieve(%s, %s, %s)", c.src, c.src, c.k)
				}
				ev, err := g.name(eid)
				if err != nil {
					return err
				}
				if ev == c.src || ev == c.k || ev == c.tree || c.slices[ev] {
					return s.bad(st, "variable %s shadows", ev)
				}
				b, ok := t.Cond.(*ast.BinaryExpr)
				if !ok || b.Op != token.NEQ || !tiIsIdent(b.X, ev) || !tiIsIdent(b.Y, "nil") {
					return s.bad(st, "condition must be `%s != nil`", ev)
				}
				r, err := c.ret(rs, ev)
				if err != nil {
					return err
				}
				g.ln(ind, fmt.Sprintf("match w.retrieve ops %s %s %s %s o with", c.tree, c.src, c.src, c.k), "if "+s.str(t.Init)+"; "+s.str(t.Cond)+" {")
				g.ln(ind, fmt.Sprintf("| (%s, w, .panic p) => (%s, w, .panicked p)", c.k, c.k), "")
				g.ln(ind, fmt.Sprintf("| (%s, w, .ret (some %s)) =>", c.k, ev), "")
				g.ln(ind+2, r, s.str(rs))
				g.ln(ind, fmt.Sprintf("| (%s, w, .ret none) =>", c.k), "")
				continue
			}
			// if len(SL) OP ATOM { return … }
			b, ok := t.Cond.(*ast.BinaryExpr)
			if !ok {
				return s.bad(st, "condition %s outside the subset", s.str(t.Cond))
			}
			op, okO := pwCmpOp(b.Op)
			l, okL := c.lenAtom(b.X)
			rr, okR := c.lenAtom(b.Y)
			if !okO || !okL || !okR {
				return s.bad(st, "condition %s outside the subset", s.str(t.Cond))
			}
			r, err := c.ret(rs, "")
			if err != nil {
				return err
			}
			g.ln(ind, fmt.Sprintf("if %s %s %s then", l, op, rr), "if "+s.str(t.Cond)+" {")
			g.ln(ind+2, r, s.str(rs))
			g.ln(ind, "else", "")
		case *ast.AssignStmt:
			// V := make([]interface{}, ATOM)
			if t.Tok != token.DEFINE || len(t.Lhs) != 1 || len(t.Rhs) != 1 {
				return s.bad(st, "assignment %s outside the subset", s.str(st))
			}
			vid, okV := t.Lhs[0].(*ast.Ident)
			call, okC := t.Rhs[0].(*ast.CallExpr)
			if !okV || !okC || !tiIsIdent(call.Fun, "make") || len(call.Args) != 2 || !tiIsIfaceSlice(call.Args[0]) {
				return s.bad(st, "declaration %s outside the subset", s.str(st))
			}
			n, ok := c.lenAtom(call.Args[1])
			if !ok {
				return s.bad(st, "length %s outside the subset", s.str(call.Args[1]))
			}
			v, err := g.name(vid)
			if err != nil {
				return err
			}
			if v == c.src || v == c.k || v == c.tree || c.slices[v] || g.treeVars[v] {
				return s.bad(st, "variable %s shadows", v)
			}
			c.slices[v] = true
			g.ln(ind, fmt.Sprintf("let %s := Slice.make %s", v, n), s.str(st))
		case *ast.RangeStmt:
			// for I := range V { V[I] = SL[I] }
			iid, okI := t.Key.(*ast.Ident)
			vid, okV := t.X.(*ast.Ident)
			if !okI || !okV || t.Value != nil || t.Tok != token.DEFINE || !c.slices[vid.Name] || len(t.Body.List) != 1 {
				return s.bad(st, "loop outside the subset")
			}
			iv, err := g.name(iid)
			if err != nil {
				return err
			}
			if iv == c.src || iv == c.k || iv == c.tree || c.slices[iv] {
				return s.bad(st, "variable %s shadows", iv)
			}
			as, ok := t.Body.List[0].(*ast.AssignStmt)
			if !ok || as.Tok != token.ASSIGN || len(as.Lhs) != 1 || len(as.Rhs) != 1 {
				return s.bad(st, "loop body outside the subset")
			}
			li, okL := as.Lhs[0].(*ast.IndexExpr)
			ri, okR := as.Rhs[0].(*ast.IndexExpr)
			if !okL || !okR || !tiIsIdent(li.X, vid.Name) || !tiIsIdent(li.Index, iid.Name) || !tiIsIdent(ri.Index, iid.Name) {
				return s.bad(st, "loop body must be `%s[%s] = SL[%s]`", vid.Name, iid.Name, iid.Name)
			}
			sl, ok := c.sliceExpr(ri.X)
			if !ok {
				return s.bad(st, "loop body reads %s", s.str(ri.X))
			}
			x := g.freshX()
			v := vid.Name
			g.ln(ind, fmt.Sprintf("match forRange %s.len %s (fun %s %s =>", v, v, iv, v), "for "+s.str(t.Key)+" := range "+s.str(t.X)+" {")
			g.ln(ind+4, fmt.Sprintf("(%s.get %s).bind (fun %s => %s.set %s %s)) with", sl, iv, x, v, iv, x), s.str(as))
			g.ln(ind, fmt.Sprintf("| .error p => (%s, w, .panicked p)", c.k), "")
			g.ln(ind, fmt.Sprintf("| .ok %s =>", v), "")
		case *ast.ReturnStmt:
			if !last {
				return s.bad(st, "return before the end")
			}
			r, err := c.ret(t, "")
			if err != nil {
				return err
			}
			g.ln(ind, r, s.str(st))
			return nil
		default:
			return s.bad(st, "statement %s outside the subset", s.str(st))
		}
	}
	return s.bad(list[len(list)-1], "the returned function must end with a return")
}

// ---- Retrieve -----------------------------------------------------------------------------------------

// retrieveDef translates
//
//	func Retrieve(P string, S interface{}, C ...Config) ([]interface{}, error) {
//	    F, E := Parse(P, C...)
//	    if E != nil { return nil, E }
//	    return F(S)
//	}
//
// statement by statement into `def Retrieve`; every other shape is refused.
func (g *pwGen) retrieveDef(jf *ast.File) error {
	s := g.s
	fd, n := pwFindFunc(jf, "Retrieve")
	if n != 1 || fd.Body == nil || fd.Type.TypeParams != nil {
		return s.badFile("jsonpath.go", "func Retrieve not found (or declared twice)")
	}
	var ids []*ast.Ident
	for _, f := range fd.Type.Params.List {
		ids = append(ids, f.Names...)
	}
	_, pt := tiFlatParams(fd.Type.Params)
	if len(ids) != 3 || len(pt) != 3 || !tiIsIdent(pt[0], "string") || !tiIsEmptyIface(pt[1]) {
		return s.bad(fd, "Retrieve must be Retrieve(path string, src interface{}, config ...Config)")
	}
	if el, ok := pt[2].(*ast.Ellipsis); !ok || !tiIsIdent(el.Elt, "Config") {
		return s.bad(fd, "Retrieve must be Retrieve(path string, src interface{}, config ...Config)")
	}
	rn, rt := tiFlatParams(fd.Type.Results)
	if len(rt) != 2 || rn[0] != "" || rn[1] != "" || !tiIsIfaceSlice(rt[0]) || !tiIsIdent(rt[1], "error") {
		return s.bad(fd, "Retrieve must return ([]interface{}, error), unnamed")
	}
	var path, src, cfg string
	var err error
	if path, err = g.name(ids[0]); err != nil {
		return err
	}
	if src, err = g.name(ids[1]); err != nil {
		return err
	}
	if cfg, err = g.name(ids[2]); err != nil {
		return err
	}
	list := fd.Body.List
	if len(list) == 0 {
		return s.bad(fd, "Retrieve has no statements")
	}
	// F, E := Parse(P, C...)
	const want0 = "the first statement of Retrieve must be `F, E := Parse(%s, %s...)`"
	as, ok := list[0].(*ast.AssignStmt)
	if !ok || as.Tok != token.DEFINE || len(as.Lhs) != 2 || len(as.Rhs) != 1 {
		return s.bad(list[0], want0, path, cfg)
	}
	fid, okF := as.Lhs[0].(*ast.Ident)
	eid, okE := as.Lhs[1].(*ast.Ident)
	call, okC := as.Rhs[0].(*ast.CallExpr)
	if !okF || !okE || !okC || !tiIsIdent(call.Fun, "Parse") || len(call.Args) != 2 || call.Ellipsis == token.NoPos ||
		!tiIsIdent(call.Args[0], path) || !tiIsIdent(call.Args[1], cfg) {
		return s.bad(list[0], want0, path, cfg)
	}
	var fv, ev string
	if fv, err = g.name(fid); err != nil {
		return err
	}
	if ev, err = g.name(eid); err != nil {
		return err
	}
	seen := map[string]bool{}
	for _, x := range []string{path, src, cfg, fv, ev} {
		if seen[x] {
			return s.bad(list[0], "name %s used twice in Retrieve", x)
		}
		seen[x] = true
	}
	g.ln(0, fmt.Sprintf("/-- jsonpath.go:%d -/", s.line(fd)), "")
	g.ln(0, fmt.Sprintf("def Retrieve (ops : Ops ι) (%s : String) (%s : Val) (%s : List Config) (ch : Choice) (o : ι) (w : World) :", path, src, cfg), "")
	g.ln(4, "World × RetrieveRet :=", "")
	g.ln(2, fmt.Sprintf("match Parse ops %s %s w with", path, cfg), s.str(list[0]))
	g.ln(2, "| (w, .blocked) => (w, .blocked)", "")
	g.ln(2, "| (w, .panicked p) => (w, .panicked p)", "")
	g.ln(2, fmt.Sprintf("| (w, .returned %s %s) =>", fv, ev), "")
	// if E != nil { return nil, E }
	if len(list) < 2 {
		return s.bad(list[0], "Retrieve must go on with `if %s != nil { return nil, %s }`", ev, ev)
	}
	it, ok := list[1].(*ast.IfStmt)
	if !ok || it.Init != nil || it.Else != nil || len(it.Body.List) != 1 {
		return s.bad(list[1], "the second statement of Retrieve must be `if %s != nil { return nil, %s }`", ev, ev)
	}
	b, okB := it.Cond.(*ast.BinaryExpr)
	rs, okR := it.Body.List[0].(*ast.ReturnStmt)
	if !okB || !okR || b.Op != token.NEQ || !tiIsIdent(b.X, ev) || !tiIsIdent(b.Y, "nil") ||
		len(rs.Results) != 2 || !tiIsIdent(rs.Results[0], "nil") || !tiIsIdent(rs.Results[1], ev) {
		return s.bad(list[1], "the second statement of Retrieve must be `if %s != nil { return nil, %s }`", ev, ev)
	}
	g.ln(2, fmt.Sprintf("match %s with", ev), "if "+s.str(it.Cond)+" {")
	g.ln(2, fmt.Sprintf("| some %s =>", ev), "")
	g.ln(4, fmt.Sprintf("(w, .parseErr %s)", ev), s.str(rs))
	g.ln(2, "| none =>", "")
	// return F(S)
	if len(list) < 3 {
		return s.bad(list[1], "Retrieve must end with `return %s(%s)`", fv, src)
	}
	rs, ok = list[2].(*ast.ReturnStmt)
	if !ok || len(rs.Results) != 1 {
		return s.bad(list[2], "the third statement of Retrieve must be `return %s(%s)`", fv, src)
	}
	call, ok = rs.Results[0].(*ast.CallExpr)
	if !ok || !tiIsIdent(call.Fun, fv) || len(call.Args) != 1 || call.Ellipsis != token.NoPos || !tiIsIdent(call.Args[0], src) {
		return s.bad(list[2], "the third statement of Retrieve must be `return %s(%s)`", fv, src)
	}
	if len(list) > 3 {
		return s.bad(list[3], "statement after the return of Retrieve")
	}
	g.ln(2, fmt.Sprintf("match %s with", fv), s.str(rs))
	g.ln(2, "| none => (w, .nilFunc)", "")
	g.ln(2, fmt.Sprintf("| some %s =>", fv), "")
	g.ln(2, fmt.Sprintf("let (w, ret) := %s %s ch o w", fv, src), "")
	g.ln(2, "(w, .called ret)", "")
	g.ln(0, "", "")
	return nil
}

// ---- declarations -------------------------------------------------------------------------------------

func pwFindFunc(f *ast.File, name string) (*ast.FuncDecl, int) {
	var fd *ast.FuncDecl
	n := 0
	for _, d := range f.Decls {
		if x, ok := d.(*ast.FuncDecl); ok && x.Name.Name == name && x.Recv == nil {
			fd = x
			n++
		}
	}
	return fd, n
}

func pwFindMethod(f *ast.File, recv, name string) *ast.FuncDecl {
	for _, d := range f.Decls {
		if x, ok := d.(*ast.FuncDecl); ok && x.Name.Name == name && x.Recv != nil {
			if t, _, ptr := tiRecvType(x); t == recv && ptr {
				return x
			}
		}
	}
	return nil
}

func pwFindStruct(f *ast.File, name string) *ast.StructType {
	for _, d := range f.Decls {
		gd, ok := d.(*ast.GenDecl)
		if !ok || gd.Tok != token.TYPE {
			continue
		}
		for _, sp := range gd.Specs {
			ts := sp.(*ast.TypeSpec)
			if ts.Name.Name == name {
				if st, ok := ts.Type.(*ast.StructType); ok {
					return st
				}
			}
		}
	}
	return nil
}

// pwVar finds the package-level `var name …` (single name, single spec value or none).
func pwVar(f *ast.File, name string) *ast.ValueSpec {
	for _, d := range f.Decls {
		gd, ok := d.(*ast.GenDecl)
		if !ok || gd.Tok != token.VAR {
			continue
		}
		for _, sp := range gd.Specs {
			vs := sp.(*ast.ValueSpec)
			for _, n := range vs.Names {
				if n.Name == name {
					if len(vs.Names) != 1 {
						return nil
					}
					return vs
				}
			}
		}
	}
	return nil
}

func (g *pwGen) structFields(file string, f *ast.File, name string) ([][2]string, error) {
	st := pwFindStruct(f, name)
	if st == nil {
		return nil, g.s.badFile(file, "type %s struct not found", name)
	}
	var out [][2]string
	for _, fl := range st.Fields.List {
		if len(fl.Names) == 0 {
			out = append(out, [2]string{"", g.s.str(fl.Type)})
		}
		for _, n := range fl.Names {
			out = append(out, [2]string{n.Name, g.s.str(fl.Type)})
		}
	}
	return out, nil
}

// poolNew checks `var NAME = &sync.Pool{New: func() interface{} { return new(T) }}` and returns T.
func (g *pwGen) poolNew(file string, f *ast.File, name string) (string, int, error) {
	vs := pwVar(f, name)
	if vs == nil || len(vs.Values) != 1 {
		return "", 0, g.s.badFile(file, "var %s = &sync.Pool{…} not found", name)
	}
	u, ok := vs.Values[0].(*ast.UnaryExpr)
	if !ok || u.Op != token.AND {
		return "", 0, g.s.bad(vs, "%s must be &sync.Pool{New: …}", name)
	}
	cl, ok := u.X.(*ast.CompositeLit)
	if !ok || !tiIsSel(cl.Type, "sync", "Pool") || len(cl.Elts) != 1 {
		return "", 0, g.s.bad(vs, "%s must be &sync.Pool{New: …}", name)
	}
	kv, ok := cl.Elts[0].(*ast.KeyValueExpr)
	if !ok || !tiIsIdent(kv.Key, "New") {
		return "", 0, g.s.bad(vs, "%s must be &sync.Pool{New: …}", name)
	}
	fl, ok := kv.Value.(*ast.FuncLit)
	if !ok || len(fl.Body.List) != 1 {
		return "", 0, g.s.bad(vs, "%s.New must be func() interface{} { return new(T) }", name)
	}
	rs, ok := fl.Body.List[0].(*ast.ReturnStmt)
	if !ok || len(rs.Results) != 1 {
		return "", 0, g.s.bad(vs, "%s.New must be func() interface{} { return new(T) }", name)
	}
	c, ok := rs.Results[0].(*ast.CallExpr)
	if !ok || !tiIsIdent(c.Fun, "new") || len(c.Args) != 1 {
		return "", 0, g.s.bad(vs, "%s.New must be func() interface{} { return new(T) }", name)
	}
	return g.s.str(c.Args[0]), g.s.line(vs), nil
}

func genParseWrap(repo, out string) error {
	s := tiNew(repo)
	g := &pwGen{s: s, treeVars: map[string]bool{}, consts: map[string]string{}}
	files := []string{"jsonpath.go", "cache.go", "jsonpath_parser.go", "config.go", "buffer_container.go", "jsonpath.peg.go", "verif_off.go"}
	asts := map[string]*ast.File{}
	for _, fn := range files {
		f, err := s.parse(fn)
		if err != nil {
			return err
		}
		asts[fn] = f
	}

	// ---- struct shapes -------------------------------------------------------------------------------
	jp, err := g.structFields("jsonpath_parser.go", asts["jsonpath_parser.go"], "jsonPathParser")
	if err != nil {
		return err
	}
	if len(jp) != len(pwJPFields) {
		return s.badFile("jsonpath_parser.go", "jsonPathParser has %d fields, the state model (Glob/State.lean) has %d", len(jp), len(pwJPFields))
	}
	for i, f := range pwJPFields {
		if jp[i] != f {
			return s.badFile("jsonpath_parser.go", "field %d of jsonPathParser is `%s %s`, the state model has `%s %s`", i+1, jp[i][0], jp[i][1], f[0], f[1])
		}
	}
	cf, err := g.structFields("config.go", asts["config.go"], "Config")
	if err != nil {
		return err
	}
	if len(cf) != 3 || cf[0] != pwJPFields[4] || cf[1] != pwJPFields[5] || cf[2] != pwJPFields[6] {
		return s.badFile("config.go", "Config must have exactly the fields filterFunctions, aggregateFunctions, accessorMode with the types of jsonPathParser")
	}
	bc, err := g.structFields("buffer_container.go", asts["buffer_container.go"], "bufferContainer")
	if err != nil {
		return err
	}
	if len(bc) != 1 || bc[0] != [2]string{"result", "[]interface{}"} {
		return s.badFile("buffer_container.go", "bufferContainer must be struct { result []interface{} }")
	}
	pp, err := g.structFields("jsonpath.peg.go", asts["jsonpath.peg.go"], "pegJSONPathParser")
	if err != nil {
		return err
	}
	want := map[[2]string]bool{{"", "jsonPathParser"}: false, {"Buffer", "string"}: false, {"parse", "func(rule ...int) error"}: false, {"reset", "func()"}: false}
	for _, f := range pp {
		if _, ok := want[f]; ok {
			want[f] = true
		}
	}
	for _, k := range [][2]string{{"", "jsonPathParser"}, {"Buffer", "string"}, {"parse", "func(rule ...int) error"}, {"reset", "func()"}} {
		if !want[k] {
			return s.badFile("jsonpath.peg.go", "pegJSONPathParser lacks the field `%s %s`", k[0], k[1])
		}
	}
	if len(pp) == 0 || pp[0] != [2]string{"", "jsonPathParser"} {
		return s.badFile("jsonpath.peg.go", "pegJSONPathParser must embed jsonPathParser first")
	}
	for _, m := range [][2]string{{"Parse", "{ return p.parse(rule...) }"}, {"Reset", "{ p.reset() }"}} {
		fd := pwFindMethod(asts["jsonpath.peg.go"], "pegJSONPathParser", m[0])
		if fd == nil || fd.Body == nil || s.str(fd.Body) != m[1] {
			return s.badFile("jsonpath.peg.go", "method (*pegJSONPathParser).%s must have the body %s", m[0], m[1])
		}
	}
	for _, m := range []string{"Init", "Execute"} {
		if pwFindMethod(asts["jsonpath.peg.go"], "pegJSONPathParser", m) == nil {
			return s.badFile("jsonpath.peg.go", "method (*pegJSONPathParser).%s not found", m)
		}
	}
	if fd, n := pwFindFunc(asts["verif_off.go"], "verifParsed"); n == 1 && fd.Body != nil && len(fd.Body.List) == 0 {
		g.hookOK = true
	}

	// ---- package variables and constants of jsonpath.go ------------------------------------------------
	jf := asts["jsonpath.go"]
	if vs := pwVar(jf, "parseMutex"); vs == nil || vs.Type == nil || !tiIsSel(vs.Type, "sync", "Mutex") || len(vs.Values) != 0 {
		return s.badFile("jsonpath.go", "`var parseMutex sync.Mutex` not found")
	}
	vs := pwVar(jf, "parser")
	if vs == nil || len(vs.Values) != 1 {
		return s.badFile("jsonpath.go", "`var parser = pegJSONPathParser{}` not found")
	}
	if cl, ok := vs.Values[0].(*ast.CompositeLit); !ok || !tiIsIdent(cl.Type, "pegJSONPathParser") || len(cl.Elts) != 0 {
		return s.bad(vs, "the package variable parser must start as pegJSONPathParser{} (the zero state of the model), found %s", s.str(vs.Values[0]))
	}
	vs = pwVar(jf, "unescapeRegex")
	if vs == nil || len(vs.Values) != 1 {
		return s.badFile("jsonpath.go", "`var unescapeRegex = …` not found")
	}
	if c, ok := vs.Values[0].(*ast.CallExpr); !ok || !tiIsSel(c.Fun, "regexp", "MustCompile") {
		return s.bad(vs, "unescapeRegex must be initialised with regexp.MustCompile(…) (non-nil)")
	}
	for _, d := range jf.Decls {
		gd, ok := d.(*ast.GenDecl)
		if !ok || gd.Tok != token.CONST {
			continue
		}
		for _, sp := range gd.Specs {
			cs := sp.(*ast.ValueSpec)
			if len(cs.Names) == 1 && len(cs.Values) == 1 {
				if bl, ok := cs.Values[0].(*ast.BasicLit); ok && bl.Kind == token.INT {
					if n, err := strconv.ParseUint(bl.Value, 0, 62); err == nil {
						g.consts[cs.Names[0].Name] = strconv.FormatUint(n, 10)
					}
				}
			}
		}
	}

	// ---- cache.go ------------------------------------------------------------------------------------
	var cache []string
	g.cur = &cache
	cfile := asts["cache.go"]
	for _, pn := range [][3]string{{"resultSyncPool", "bufferContainer", "def resultSyncPool_New : Container := Container.new"},
		{"sortSliceSyncPool", "sort.StringSlice", "def sortSliceSyncPool_New : List String := []"}} {
		t, line, err := g.poolNew("cache.go", cfile, pn[0])
		if err != nil {
			return err
		}
		if t != pn[1] {
			return s.badFile("cache.go", "%s.New must return new(%s), found new(%s)", pn[0], pn[1], t)
		}
		g.ln(0, fmt.Sprintf("/-- cache.go:%d `%s.New` -/", line, pn[0]), "")
		g.ln(0, pn[2], "new("+t+")")
		g.ln(0, "", "")
	}
	// putSortSlice
	{
		fd, n := pwFindFunc(cfile, "putSortSlice")
		if n != 1 || fd.Body == nil {
			return s.badFile("cache.go", "func putSortSlice not found (or declared twice)")
		}
		names, types := tiFlatParams(fd.Type.Params)
		if len(names) != 1 || names[0] == "" || fd.Type.Results != nil {
			return s.bad(fd, "putSortSlice must take one named parameter and return nothing")
		}
		if st, ok := types[0].(*ast.StarExpr); !ok || !tiIsSel(st.X, "sort", "StringSlice") {
			return s.bad(fd, "parameter type must be *sort.StringSlice")
		}
		v, err := g.name(fd.Type.Params.List[0].Names[0])
		if err != nil {
			return err
		}
		g.ln(0, fmt.Sprintf("/-- cache.go:%d -/", s.line(fd)), "")
		g.ln(0, fmt.Sprintf("def putSortSlice (%s : Option (List String)) (w : World) : World :=", v), "")
		for _, st := range fd.Body.List {
			it, ok := st.(*ast.IfStmt)
			if !ok || it.Init != nil || it.Else != nil {
				return s.bad(st, "in putSortSlice only `if %s != nil { sortSliceSyncPool.Put(%s) }` is accepted", v, v)
			}
			b, ok := it.Cond.(*ast.BinaryExpr)
			if !ok || b.Op != token.NEQ || !tiIsIdent(b.X, v) || !tiIsIdent(b.Y, "nil") {
				return s.bad(st, "in putSortSlice only `if %s != nil { sortSliceSyncPool.Put(%s) }` is accepted", v, v)
			}
			g.ln(2, "let w := (match "+v+" with", "if "+s.str(it.Cond)+" {")
			g.ln(4, "| none => w", "")
			g.ln(4, "| some "+v+" =>", "")
			for _, s2 := range it.Body.List {
				es, ok := s2.(*ast.ExprStmt)
				var call *ast.CallExpr
				if ok {
					call, ok = es.X.(*ast.CallExpr)
				}
				if !ok || !tiIsSel(call.Fun, "sortSliceSyncPool", "Put") || len(call.Args) != 1 || !tiIsIdent(call.Args[0], v) {
					return s.bad(s2, "in putSortSlice only `sortSliceSyncPool.Put(%s)` is accepted here", v)
				}
				g.ln(6, "let w := w.sortPoolPut "+v, s.str(s2))
			}
			g.ln(6, "w)", "")
		}
		g.ln(2, "w", "")
		g.ln(0, "", "")
	}
	// getContainer
	{
		fd, n := pwFindFunc(cfile, "getContainer")
		if n != 1 || fd.Body == nil {
			return s.badFile("cache.go", "func getContainer not found (or declared twice)")
		}
		_, rt := tiFlatParams(fd.Type.Results)
		if fd.Type.Params != nil && len(fd.Type.Params.List) != 0 || len(rt) != 1 || s.str(rt[0]) != "*bufferContainer" || len(fd.Body.List) != 1 {
			return s.bad(fd, "getContainer must be `func getContainer() *bufferContainer { return resultSyncPool.Get().(*bufferContainer) }`")
		}
		rs, ok := fd.Body.List[0].(*ast.ReturnStmt)
		if !ok || len(rs.Results) != 1 || s.str(rs.Results[0]) != "resultSyncPool.Get().(*bufferContainer)" {
			return s.bad(fd.Body.List[0], "getContainer must return resultSyncPool.Get().(*bufferContainer)")
		}
		g.ln(0, fmt.Sprintf("/-- cache.go:%d -/", s.line(fd)), "")
		g.ln(0, "def getContainer (ch : Choice) (w : World) : Container × World :=", "")
		g.ln(2, "w.resultPoolGet resultSyncPool_New ch", s.str(rs))
		g.ln(0, "", "")
	}
	// putContainer
	{
		fd, n := pwFindFunc(cfile, "putContainer")
		if n != 1 || fd.Body == nil {
			return s.badFile("cache.go", "func putContainer not found (or declared twice)")
		}
		names, types := tiFlatParams(fd.Type.Params)
		if len(names) != 1 || names[0] == "" || fd.Type.Results != nil || s.str(types[0]) != "*bufferContainer" {
			return s.bad(fd, "putContainer must take one named *bufferContainer and return nothing")
		}
		k, err := g.name(fd.Type.Params.List[0].Names[0])
		if err != nil {
			return err
		}
		g.ln(0, fmt.Sprintf("/-- cache.go:%d -/", s.line(fd)), "")
		g.ln(0, fmt.Sprintf("def putContainer (%s : Container) (w : World) : World :=", k), "")
		put := false
		for _, st := range fd.Body.List {
			if put {
				return s.bad(st, "statement after resultSyncPool.Put(%s): the object is no longer owned", k)
			}
			switch t := st.(type) {
			case *ast.AssignStmt:
				// K.result = K.result[:0]
				ok := t.Tok == token.ASSIGN && len(t.Lhs) == 1 && len(t.Rhs) == 1 && tiIsSel(t.Lhs[0], k, "result")
				var se *ast.SliceExpr
				if ok {
					se, ok = t.Rhs[0].(*ast.SliceExpr)
				}
				if !ok || !tiIsSel(se.X, k, "result") || se.Low != nil || se.Slice3 || se.High == nil {
					return s.bad(st, "in putContainer only `%s.result = %s.result[:0]` and `resultSyncPool.Put(%s)` are accepted", k, k, k)
				}
				if bl, ok := se.High.(*ast.BasicLit); !ok || bl.Kind != token.INT || bl.Value != "0" {
					return s.bad(st, "only the truncation [:0] is modelled")
				}
				g.ln(2, fmt.Sprintf("let %s := %s.setResult %s.result.truncate0", k, k, k), s.str(st))
			case *ast.ExprStmt:
				call, ok := t.X.(*ast.CallExpr)
				if !ok || !tiIsSel(call.Fun, "resultSyncPool", "Put") || len(call.Args) != 1 || !tiIsIdent(call.Args[0], k) {
					return s.bad(st, "in putContainer only `%s.result = %s.result[:0]` and `resultSyncPool.Put(%s)` are accepted", k, k, k)
				}
				g.ln(2, "let w := w.resultPoolPut "+k, s.str(st))
				put = true
			default:
				return s.bad(st, "in putContainer only `%s.result = %s.result[:0]` and `resultSyncPool.Put(%s)` are accepted", k, k, k)
			}
		}
		g.ln(2, "w", "")
		g.ln(0, "", "")
	}

	// ---- Parse -----------------------------------------------------------------------------------------
	fd, n := pwFindFunc(jf, "Parse")
	if n != 1 || fd.Body == nil || fd.Type.TypeParams != nil {
		return s.badFile("jsonpath.go", "func Parse not found (or declared twice)")
	}
	pn, pt := tiFlatParams(fd.Type.Params)
	if len(pn) != 2 || pn[0] == "" || pn[1] == "" || !tiIsIdent(pt[0], "string") {
		return s.bad(fd, "Parse must be Parse(path string, config ...Config)")
	}
	if el, ok := pt[1].(*ast.Ellipsis); !ok || !tiIsIdent(el.Elt, "Config") {
		return s.bad(fd, "Parse must be Parse(path string, config ...Config)")
	}
	rn, rt := tiFlatParams(fd.Type.Results)
	if len(rn) != 2 || rn[0] == "" || rn[1] == "" || !tiIsIdent(rt[1], "error") || s.str(rt[0]) != "func(src interface{}) ([]interface{}, error)" {
		return s.bad(fd, "Parse must have the named results (f func(src interface{}) ([]interface{}, error), err error)")
	}
	if g.pathVar, err = g.name(fd.Type.Params.List[0].Names[0]); err != nil {
		return err
	}
	if g.cfgVar, err = g.name(fd.Type.Params.List[1].Names[0]); err != nil {
		return err
	}
	if g.fRes, err = g.name(fd.Type.Results.List[0].Names[0]); err != nil {
		return err
	}
	if g.errRes, err = g.name(fd.Type.Results.List[1].Names[0]); err != nil {
		return err
	}
	seen := map[string]bool{}
	for _, x := range []string{g.pathVar, g.cfgVar, g.fRes, g.errRes} {
		if seen[x] {
			return s.bad(fd, "parameter/result name %s used twice", x)
		}
		seen[x] = true
	}
	list := fd.Body.List
	i := 0
	for ; i < len(list); i++ {
		if _, ok := list[i].(*ast.DeferStmt); ok {
			break
		}
	}
	if i == len(list) {
		i = 0 // no defer: everything is body, Lock included (it will be refused there)
		for i < len(list) {
			es, ok := list[i].(*ast.ExprStmt)
			if !ok {
				break
			}
			if r, m, ok := pwMethodCall(es.X); !ok || len(r) != 1 || r[0] != "parseMutex" || m != "Lock" {
				break
			}
			i++
		}
	}
	pre := list[:i]
	j := i
	for ; j < len(list); j++ {
		if _, ok := list[j].(*ast.DeferStmt); !ok {
			break
		}
	}
	defers := list[i:j]
	body := list[j:]
	for _, st := range body {
		if _, ok := st.(*ast.DeferStmt); ok {
			return s.bad(st, "defer after the first ordinary statement")
		}
	}

	var deferLines, bodyLines, parseLines []string
	// deferred functions
	g.cur = &deferLines
	for d, st := range defers {
		ds := st.(*ast.DeferStmt)
		dl, ok := ds.Call.Fun.(*ast.FuncLit)
		if !ok || len(ds.Call.Args) != 0 || (dl.Type.Params != nil && len(dl.Type.Params.List) != 0) || (dl.Type.Results != nil && len(dl.Type.Results.List) != 0) {
			return s.bad(ds, "only `defer func() {…}()` is accepted")
		}
		g.ln(0, fmt.Sprintf("/-- jsonpath.go:%d deferred function %d of `Parse` -/", s.line(ds), d+1), "")
		g.ln(0, fmt.Sprintf("def Parse_defer%d (ops : Ops ι) (panicking : Option PanicVal) (%s : Option (Closure ι)) (%s : Option PanicVal) (w : World) :", d+1, g.fRes, g.errRes), "")
		g.ln(4, "Option PanicVal × Option (Closure ι) × Option PanicVal × World :=", "")
		ctx := pwCtx{end: fmt.Sprintf("(panicking, %s, %s, w)", g.fRes, g.errRes), allowRecover: true}
		if err := g.stmts(dl.Body.List, 2, ctx); err != nil {
			return err
		}
		g.ln(0, "", "")
	}
	// body
	g.cur = &bodyLines
	g.ln(0, fmt.Sprintf("/-- jsonpath.go:%d `Parse` after its defers -/", s.line(fd)), "")
	g.ln(0, fmt.Sprintf("def Parse_body (ops : Ops ι) (%s : String) (%s : List Config) (w : World) : World × BodyRet ι :=", g.pathVar, g.cfgVar), "")
	if err := g.stmts(body, 2, pwCtx{panicFmt: "(w, .panicked %s)", allowConfig: true, allowBody: true}); err != nil {
		return err
	}
	g.ln(0, "", "")
	// Parse
	g.cur = &parseLines
	g.ln(0, fmt.Sprintf("/-- jsonpath.go:%d -/", s.line(fd)), "")
	g.ln(0, fmt.Sprintf("def Parse (ops : Ops ι) (%s : String) (%s : List Config) (w : World) : World × ParseRet ι :=", g.pathVar, g.cfgVar), "")
	if err := g.stmts(pre, 2, pwCtx{end: "-- body", allowLock: true, allowConfig: true}); err != nil {
		return err
	}
	parseLines = parseLines[:len(parseLines)-1] // drop the placeholder end
	g.ln(2, fmt.Sprintf("let (w, ret) := Parse_body ops %s %s w", g.pathVar, g.cfgVar), "")
	g.ln(2, fmt.Sprintf("let (panicking, %s, %s) := ret.frame", g.fRes, g.errRes), "")
	for d := len(defers); d >= 1; d-- {
		g.ln(2, fmt.Sprintf("let (panicking, %s, %s, w) := Parse_defer%d ops panicking %s %s w", g.fRes, g.errRes, d, g.fRes, g.errRes), "defer func() {…}()")
	}
	g.ln(2, fmt.Sprintf("(w, ParseRet.ofFrame panicking %s %s)", g.fRes, g.errRes), "")
	g.ln(0, "", "")

	// ---- Retrieve --------------------------------------------------------------------------------------
	var retrieveLines []string
	g.cur = &retrieveLines
	if err := g.retrieveDef(jf); err != nil {
		return err
	}

	hdr, err := s.header("parsewrap", files,
		"`Parse` of jsonpath.go (its deferred function, the function it returns) and `getContainer`, `putContainer`,\n"+
			"`putSortSlice` of cache.go, statement by statement over the explicit global state and the operations of\n"+
			"JPV/Glob/State.lean (translation scheme: the head of /verif/harness/cmd/translate/parsewrap.go).\n"+
			"`w`: the world; `ops`: the opaque operations; `ch`, `o`: the nondeterminism of one call.")
	if err != nil {
		return err
	}
	var b strings.Builder
	b.WriteString(hdr)
	b.WriteString("import JPV.Glob.State\nset_option linter.unusedVariables false\nnamespace JPV\nnamespace Gen\nnamespace ParseWrapGo\nopen JPV.Glob\nvariable {ι : Type}\n\n")
	for _, sec := range [][]string{cache, g.closure, deferLines, bodyLines, parseLines, retrieveLines} {
		for _, l := range sec {
			b.WriteString(strings.TrimRight(l, " ") + "\n")
		}
	}
	b.WriteString("end ParseWrapGo\nend Gen\nend JPV\n")
	return tiWrite(out, "ParseWrapGo.lean", b.String())
}
