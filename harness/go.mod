module jpvharness

go 1.15

require github.com/AsaiYusuke/jsonpath v0.0.0

replace github.com/AsaiYusuke/jsonpath => /repo
