package jph

import (
	"fmt"
	"sort"
	"strings"

	"github.com/AsaiYusuke/jsonpath"
)

// C09 — filter logic is Boolean algebra over the members of one container; comparisons
// obey their dualities.
//
// Relational, on the real library alone. The document is {"m": CONTAINER, …root values…};
// every sub-expression E of a generated filter expression is evaluated on its own as
// `$.m[?(E)]` and turned into the set of member positions it selects (members are pairwise
// distinct by construction, the result must be a sub-sequence of the members in container
// order; "selects nothing" = ErrorMemberNotExist = the empty set). Then
//
//	sel(A && B) = sel(A) ∩ sel(B)         sel(A || B) = sel(A) ∪ sel(B)
//	sel(!p)     = complement of sel(p)     sel(x != y) = complement of sel(x == y)
//	sel(a op b) = sel(b mirror(op) a)
//	sel(x <= n) = sel(x < n) ∪ sel(x == n) (>= likewise) for a number literal n
//	sel(p =~ /re/) ⊆ sel(p)
//
// plus a differential of the whole expression against jpv-spec.
// Tier thorough starts with an exhaustive block: every expression to depth 2 over a reduced
// family of 11 leaves, each over every container of 0..3 members of 5 member types, as an
// array and as an object.

type c09 struct{}

func init() { Props["C09"] = c09{} }

const c09Random = 300000

func (c09) Count(tier string) int {
	if tier == "thorough" {
		return c09ExCount() + c09Random
	}
	return 30000
}

// ---------- small AST helpers ----------

func c09Child(k string) *Step { return &Step{Kind: StChild, Key: k} }
func c09Idx(n int) *Step      { return &Step{Kind: StUnion, Subs: []Sub{{Kind: SubIdx, N: int64(n)}}} }

func c09Cur(steps ...*Step) *Path  { return &Path{Head: HeadCur, Steps: steps} }
func c09Root(steps ...*Step) *Path { return &Path{Head: HeadRoot, Steps: steps} }

func c09P(p *Path) *Operand    { return &Operand{Path: p} }
func c09Num(n int64) *Operand  { return &Operand{IsLit: true, Lit: Lit{Kind: LitNum, N: n}} }
func c09Str(s string) *Operand { return &Operand{IsLit: true, Lit: Lit{Kind: LitStr, S: s}} }

const (
	c09EQ = 0
	c09NE = 1
	c09LT = 2
	c09LE = 3
	c09GT = 4
	c09GE = 5
)

var c09Mirror = []int{c09EQ, c09NE, c09GT, c09GE, c09LT, c09LE}

func c09Cmp(op int, l, r *Operand) *Query { return &Query{Kind: QCmp, Op: op, L: l, R: r} }

func c09ClonePath(p *Path) *Path {
	if p == nil {
		return nil
	}
	q := &Path{Head: p.Head, Fns: append([]Fn(nil), p.Fns...)}
	for _, s := range p.Steps {
		q.Steps = append(q.Steps, c09CloneStep(s))
	}
	return q
}

func c09CloneStep(s *Step) *Step {
	if s == nil {
		return nil
	}
	t := *s
	t.Names = append([]Name(nil), s.Names...)
	t.Subs = append([]Sub(nil), s.Subs...)
	t.Q = c09CloneQuery(s.Q)
	t.Inner = c09CloneStep(s.Inner)
	return &t
}

func c09CloneOperand(o *Operand) *Operand {
	if o == nil {
		return nil
	}
	return &Operand{IsLit: o.IsLit, Lit: o.Lit, Path: c09ClonePath(o.Path)}
}

func c09CloneQuery(q *Query) *Query {
	if q == nil {
		return nil
	}
	t := *q
	t.A, t.B = c09CloneQuery(q.A), c09CloneQuery(q.B)
	t.P = c09ClonePath(q.P)
	t.L, t.R = c09CloneOperand(q.L), c09CloneOperand(q.R)
	return &t
}

func c09OperandKind(o *Operand) string {
	if o.IsLit {
		return "lit-" + []string{"num", "bool", "str", "null"}[o.Lit.Kind]
	}
	if o.Path.Head == HeadCur {
		return "@"
	}
	return "$"
}

// ---------- evaluation context ----------

type c09Sel []bool

func (s c09Sel) String() string {
	var b strings.Builder
	b.WriteByte('{')
	first := true
	for i, x := range s {
		if x {
			if !first {
				b.WriteByte(',')
			}
			first = false
			fmt.Fprint(&b, i)
		}
	}
	b.WriteByte('}')
	return b.String()
}

func c09Equal(a, b c09Sel) bool {
	if len(a) != len(b) {
		return false
	}
	for i := range a {
		if a[i] != b[i] {
			return false
		}
	}
	return true
}

type c09Ctx struct {
	cfg     *jsonpath.Config
	parsed  map[string]Parsed // per expression text (shared over the containers of a case)
	doc     interface{}
	members []string // canonical text of every member, in container order
	memo    map[string]c09Sel
	viol    string
	cls     string
	calls   int
}

func (c *c09Ctx) fail(cls, format string, args ...interface{}) {
	if c.viol == "" {
		c.viol = fmt.Sprintf(format, args...)
		c.cls = cls
	}
}

func c09FilterPath(q *Query) *Path {
	return &Path{Head: HeadRoot, Steps: []*Step{c09Child("m"), {Kind: StFilter, Q: q}}}
}

func c09Text(q *Query) string { return Render(c09FilterPath(q), nil) }

// setDoc installs a document {"m": container, …}; members in container order.
func (c *c09Ctx) setDoc(doc map[string]interface{}) {
	c.doc = doc
	c.memo = map[string]c09Sel{}
	c.members = c.members[:0]
	switch m := doc["m"].(type) {
	case []interface{}:
		for _, v := range m {
			c.members = append(c.members, ValSexp(v))
		}
	case map[string]interface{}:
		keys := make([]string, 0, len(m))
		for k := range m {
			keys = append(keys, k)
		}
		sort.Strings(keys)
		for _, k := range keys {
			c.members = append(c.members, ValSexp(m[k]))
		}
	}
}

// outcome runs `$.m[?(q)]` on the current document.
func (c *c09Ctx) outcome(text string) Outcome {
	f, ok := c.parsed[text]
	if !ok {
		var o Outcome
		f, o = SafeParse(text, c.cfg)
		if f == nil {
			c.fail("parse-reject", "%s was rejected by Parse: %s", text, clip(o.Detail(), 500))
		}
		c.parsed[text] = f
	}
	if f == nil {
		return Outcome{ErrKind: "syntax"}
	}
	c.calls++
	return SafeCall(f, c.doc)
}

// sel: the set of member positions `$.m[?(q)]` selects.
func (c *c09Ctx) sel(q *Query) c09Sel {
	text := c09Text(q)
	if s, ok := c.memo[text]; ok {
		return s
	}
	s := c.selOf(text, c.outcome(text))
	c.memo[text] = s
	return s
}

func (c *c09Ctx) selOf(text string, out Outcome) c09Sel {
	s := make(c09Sel, len(c.members))
	if !out.OK {
		if out.ErrKind != "member" || out.Both {
			if out.ErrKind != "syntax" {
				c.fail("abnormal", "%s on %s: abnormal outcome %s", text, JSONText(c.doc), clip(out.Detail(), 500))
			}
		}
		return s
	}
	if len(out.Vals) == 0 {
		c.fail("abnormal", "%s on %s: success with no values", text, JSONText(c.doc))
	}
	j := 0
	for _, v := range out.Vals {
		t := ValSexp(v)
		for j < len(c.members) && c.members[j] != t {
			j++
		}
		if j == len(c.members) {
			c.fail("order", "%s on %s: the result [%s] is not a sub-sequence of the members in container order", text, JSONText(c.doc), clip(ValsSexp(out.Vals), 300))
			return s
		}
		s[j] = true
		j++
	}
	return s
}

// ---------- the relations ----------

type c09Tagger map[string]bool

func (c *c09Ctx) expect(lhsQ *Query, lhs, want c09Sel, law string, parts ...*Query) {
	if c09Equal(lhs, want) {
		return
	}
	var ps []string
	for _, p := range parts {
		ps = append(ps, fmt.Sprintf("%s selects %s", c09Text(p), c.sel(p)))
	}
	c.fail("law", "%s: %s selects %s but must select %s (%s) on %s", law, c09Text(lhsQ), lhs, want, strings.Join(ps, "; "), JSONText(c.doc))
}

// leafLaws checks the dualities of one basic query.
func (c *c09Ctx) leafLaws(q *Query, tags c09Tagger) {
	n := len(c.members)
	switch q.Kind {
	case QExist:
		o := c09CloneQuery(q)
		o.Neg = !q.Neg
		a, b := c.sel(q), c.sel(o)
		want := make(c09Sel, n)
		for i := range want {
			want[i] = !b[i]
		}
		tags["law:!p=complement(p)"] = true
		c.expect(q, a, want, "negation is the complement", o)
	case QRegex:
		e := &Query{Kind: QExist, P: c09ClonePath(q.P)}
		a, b := c.sel(q), c.sel(e)
		for i := range a {
			if a[i] && !b[i] {
				c.fail("law", "a regex match without the operand present: %s selects %s, %s selects %s on %s", c09Text(q), a, c09Text(e), b, JSONText(c.doc))
			}
		}
		tags["law:regex-subset-of-exist"] = true
	case QCmp:
		a := c.sel(q)
		// mirror
		m := c09Cmp(c09Mirror[q.Op], c09CloneOperand(q.R), c09CloneOperand(q.L))
		tags["law:mirror:"+OpNames[q.Op]] = true
		c.expect(q, a, c.sel(m), "swapping the operands and mirroring the operator", m)
		// != is the complement of ==
		if q.Op == c09EQ || q.Op == c09NE {
			o := c09CloneQuery(q)
			o.Op = c09EQ + c09NE - q.Op
			b := c.sel(o)
			want := make(c09Sel, n)
			for i := range want {
				want[i] = !b[i]
			}
			tags["law:ne=complement(eq)"] = true
			c.expect(q, a, want, "!= is the complement of ==", o)
		}
		// <= is < or == against a number literal
		numLit := func(o *Operand) bool { return o.IsLit && o.Lit.Kind == LitNum }
		if (q.Op == c09LE || q.Op == c09GE) && (numLit(q.L) || numLit(q.R)) {
			strict, eq := c09CloneQuery(q), c09CloneQuery(q)
			strict.Op = q.Op - 1 // le→lt, ge→gt
			eq.Op = c09EQ
			s1, s2 := c.sel(strict), c.sel(eq)
			want := make(c09Sel, n)
			for i := range want {
				want[i] = s1[i] || s2[i]
			}
			tags["law:"+OpNames[q.Op]+"=strict∪eq"] = true
			c.expect(q, a, want, OpText[q.Op]+" is "+OpText[strict.Op]+" or ==", strict, eq)
		}
	}
}

// treeLaws checks every node of the expression, bottom-up.
func (c *c09Ctx) treeLaws(q *Query, tags c09Tagger, leaves bool) c09Sel {
	switch q.Kind {
	case QAnd, QOr:
		a, b := c.treeLaws(q.A, tags, leaves), c.treeLaws(q.B, tags, leaves)
		want := make(c09Sel, len(c.members))
		for i := range want {
			if q.Kind == QAnd {
				want[i] = a[i] && b[i]
			} else {
				want[i] = a[i] || b[i]
			}
		}
		got := c.sel(q)
		if q.Kind == QAnd {
			tags["law:and=intersection"] = true
			c.expect(q, got, want, "&& is the intersection", q.A, q.B)
		} else {
			tags["law:or=union"] = true
			c.expect(q, got, want, "|| is the union", q.A, q.B)
		}
		return got
	}
	if leaves {
		c.leafLaws(q, tags)
	}
	return c.sel(q)
}

// ---------- exhaustive block (tier thorough) ----------

const c09ExLeafN = 11

func c09ExLeaf(i int) *Query {
	a, b := c09Cur(c09Child("a")), c09Cur(c09Child("b"))
	x := c09Root(c09Child("x"))
	switch i {
	case 0:
		return &Query{Kind: QExist, P: a}
	case 1:
		return &Query{Kind: QExist, Neg: true, P: a}
	case 2:
		return c09Cmp(c09EQ, c09P(a), c09Num(1))
	case 3:
		return c09Cmp(c09NE, c09P(a), c09Num(1))
	case 4:
		return c09Cmp(c09GT, c09P(a), c09Num(1))
	case 5:
		return c09Cmp(c09GE, c09Num(1), c09P(b))
	case 6:
		return c09Cmp(c09EQ, c09P(a), c09P(x))
	case 7:
		return c09Cmp(c09EQ, c09P(b), c09P(c09Root(c09Child("nope"))))
	case 8:
		return &Query{Kind: QRegex, P: a, Re: "a"}
	case 9:
		return c09Cmp(c09EQ, c09P(x), c09Num(1))
	}
	return c09Cmp(c09NE, c09P(x), c09Num(1))
}

func c09ExCount() int {
	n := c09ExLeafN
	return n + 2*n*n + 8*n*n*n + 8*n*n*n*n
}

func c09Bin(and bool, a, b *Query) *Query {
	k := QOr
	if and {
		k = QAnd
	}
	return &Query{Kind: k, A: a, B: b}
}

// c09ExExpr decodes index i into an expression of depth ≤ 2.
func c09ExExpr(i int) (*Query, string) {
	n := c09ExLeafN
	if i < n {
		return c09ExLeaf(i), "L"
	}
	i -= n
	if i < 2*n*n {
		op := i % 2
		i /= 2
		return c09Bin(op == 1, c09ExLeaf(i%n), c09ExLeaf(i/n)), "L.L"
	}
	i -= 2 * n * n
	if i < 8*n*n*n {
		left := i%2 == 0
		i /= 2
		o1, o2 := i%2 == 1, (i/2)%2 == 1
		i /= 4
		l1, l2, l3 := i%n, (i/n)%n, i/(n*n)
		inner := c09Bin(o1, c09ExLeaf(l1), c09ExLeaf(l2))
		if left {
			return c09Bin(o2, inner, c09ExLeaf(l3)), "(L.L).L"
		}
		return c09Bin(o2, c09ExLeaf(l3), inner), "L.(L.L)"
	}
	i -= 8 * n * n * n
	o1, o2, o3 := i%2 == 1, (i/2)%2 == 1, (i/4)%2 == 1
	i /= 8
	l1, l2, l3, l4 := i%n, (i/n)%n, (i/(n*n))%n, i/(n*n*n)
	return c09Bin(o3, c09Bin(o1, c09ExLeaf(l1), c09ExLeaf(l2)), c09Bin(o2, c09ExLeaf(l3), c09ExLeaf(l4))), "(L.L).(L.L)"
}

func c09ExMember(t, id int) interface{} {
	switch t {
	case 0:
		return map[string]interface{}{"id": float64(10 + id), "a": float64(1)}
	case 1:
		return map[string]interface{}{"id": float64(10 + id), "a": float64(2), "b": float64(1)}
	case 2:
		return map[string]interface{}{"id": float64(10 + id), "a": "a"}
	case 3:
		return map[string]interface{}{"id": float64(10 + id)}
	}
	return []interface{}{float64(100 + id)}
}

// c09ExDocs: every container of 0..3 members over the 5 member types, as array and object.
func c09ExDocs() []map[string]interface{} {
	var docs []map[string]interface{}
	keys := []string{"k0", "k1", "k2"}
	for n := 0; n <= 3; n++ {
		total := 1
		for j := 0; j < n; j++ {
			total *= 5
		}
		for code := 0; code < total; code++ {
			arr := make([]interface{}, n)
			obj := map[string]interface{}{}
			x := code
			for j := 0; j < n; j++ {
				arr[j] = c09ExMember(x%5, j)
				obj[keys[j]] = c09ExMember(x%5, j)
				x /= 5
			}
			docs = append(docs, map[string]interface{}{"m": arr, "x": float64(1)})
			docs = append(docs, map[string]interface{}{"m": obj, "x": float64(1)})
		}
	}
	return docs
}

func c09Exhaustive(idx int, r *Rng) Record {
	q, shape := c09ExExpr(idx)
	cfg := Config(false, nil)
	ctx := &c09Ctx{cfg: &cfg, parsed: map[string]Parsed{}}
	tags := c09Tagger{"mode:exhaustive": true, "shape:" + shape: true}
	rec := Record{Text: c09Text(q), Info: map[string]interface{}{"mode": "exhaustive", "shape": shape}}
	docs := c09ExDocs()
	ask := map[int]bool{r.Intn(len(docs)): true, r.Intn(len(docs)): true}
	some := false
	for di, d := range docs {
		ctx.setDoc(d)
		// only the top node and the leaf laws of a single leaf: the sub-expressions are
		// cases of their own
		var got c09Sel
		switch q.Kind {
		case QAnd, QOr:
			a, b := ctx.sel(q.A), ctx.sel(q.B)
			want := make(c09Sel, len(ctx.members))
			for i := range want {
				if q.Kind == QAnd {
					want[i] = a[i] && b[i]
				} else {
					want[i] = a[i] || b[i]
				}
			}
			got = ctx.sel(q)
			law := "|| is the union"
			if q.Kind == QAnd {
				law = "&& is the intersection"
			}
			ctx.expect(q, got, want, law, q.A, q.B)
		default:
			ctx.leafLaws(q, tags)
			got = ctx.sel(q)
		}
		for _, x := range got {
			if x {
				some = true
			}
		}
		if ctx.viol != "" && rec.Doc == "" {
			rec.Doc = JSONText(d)
		}
		if ask[di] {
			rec.Q = append(rec.Q, c09SpecQ(q, d, ctx.outcome(c09Text(q))))
		}
	}
	if rec.Doc == "" {
		rec.Doc = fmt.Sprintf("(all %d containers of 0..3 members)", len(docs))
	}
	rec.Info["library_calls"] = ctx.calls
	rec.Viol, rec.Class = ctx.viol, ctx.cls
	if some {
		rec.Key = "ex/" + rec.Text
	}
	for t := range tags {
		rec.Tags = append(rec.Tags, t)
	}
	sort.Strings(rec.Tags)
	return rec
}

func c09SpecQ(q *Query, doc interface{}, out Outcome) LeanQ {
	p := c09FilterPath(q)
	Render(p, nil)
	exp := "(q err)"
	if out.OK {
		exp = "(q ok"
		for _, v := range out.Vals {
			exp += " " + ValSexp(v)
		}
		exp += ")"
	}
	return LeanQ{Driver: "spec", Line: "(q run " + p.Sexp() + " " + ValSexp(doc) + ")", Expect: exp, What: "whole expression vs Spec.run"}
}

// ---------- random block ----------

var c09Nums = []int64{1, 2, 3, 1, 2, 0}
var c09Strs = []string{"a", "ab", "b"}

func c09Value(r *Rng) (interface{}, bool) {
	switch r.Weighted([]int{50, 18, 7, 6, 7, 5, 7}) {
	case 0:
		return float64(c09Nums[r.Intn(len(c09Nums))]), true
	case 1:
		return r.Pick(c09Strs), true
	case 2:
		return r.Chance(50), true
	case 3:
		return nil, true
	case 4:
		return map[string]interface{}{"b": float64(c09Nums[r.Intn(len(c09Nums))])}, true
	case 5:
		return []interface{}{float64(c09Nums[r.Intn(len(c09Nums))])}, true
	}
	return nil, false // missing
}

type c09Doc struct {
	doc    map[string]interface{}
	keys   []string // member keys in container order (objects)
	isObj  bool
	n      int
	kindOf []string
}

func c09GenDoc(r *Rng) c09Doc {
	n := r.Weighted([]int{4, 12, 20, 22, 18, 14, 10})
	isObj := r.Chance(45)
	// scalar members must be pairwise distinct: drawn without replacement
	scalars := []interface{}{float64(0), float64(1), float64(2), float64(3), "a", "ab", "b", true, false, nil}
	r.Shuffle(len(scalars), func(i, j int) { scalars[i], scalars[j] = scalars[j], scalars[i] })
	ms := make([]interface{}, n)
	kinds := make([]string, n)
	for j := 0; j < n; j++ {
		switch r.Weighted([]int{72, 15, 13}) {
		case 0:
			m := map[string]interface{}{"id": float64(10 + j)}
			if v, ok := c09Value(r); ok {
				m["a"] = v
			}
			if r.Chance(55) {
				if v, ok := c09Value(r); ok {
					m["b"] = v
				}
			}
			ms[j] = m
			kinds[j] = "object"
		case 1:
			ms[j] = scalars[j]
			kinds[j] = "scalar"
		default:
			v, ok := c09Value(r)
			if !ok {
				v = float64(1)
			}
			ms[j] = []interface{}{v, float64(100 + j)}
			kinds[j] = "array"
		}
	}
	d := c09Doc{isObj: isObj, n: n, kindOf: kinds}
	var container interface{} = ms
	if isObj {
		pool := []string{"a", "b", "c", "d", "e", "f", "aa", "B", "é", "b c"}
		r.Shuffle(len(pool), func(i, j int) { pool[i], pool[j] = pool[j], pool[i] })
		keys := append([]string(nil), pool[:n]...)
		sort.Strings(keys)
		m := map[string]interface{}{}
		for j, k := range keys {
			m[k] = ms[j]
		}
		container = m
		d.keys = keys
	}
	root := map[string]interface{}{"m": container}
	root["x"] = float64(c09Nums[r.Intn(len(c09Nums))])
	root["y"] = r.Pick(c09Strs)
	root["z"] = nil
	root["w"] = r.Chance(50)
	root["v"] = map[string]interface{}{"a": float64(c09Nums[r.Intn(len(c09Nums))]), "b": float64(c09Nums[r.Intn(len(c09Nums))])}
	root["u"] = []interface{}{float64(c09Nums[r.Intn(len(c09Nums))]), r.Pick(c09Strs)}
	d.doc = root
	return d
}

func c09CurPath(r *Rng) *Path {
	var p *Path
	switch r.Weighted([]int{12, 40, 18, 8, 10, 5, 5, 2}) {
	case 0:
		p = c09Cur()
	case 1:
		p = c09Cur(c09Child("a"))
	case 2:
		p = c09Cur(c09Child("b"))
	case 3:
		p = c09Cur(c09Child("a"), c09Child("b"))
	case 4:
		p = c09Cur(c09Idx(0))
	case 5:
		p = c09Cur(&Step{Kind: StChild, Key: "a", Bracket: true})
	case 6:
		p = c09Cur(c09Child("zz"))
	default:
		p = c09Cur(c09Child("a"), c09Idx(-1))
	}
	if r.Chance(5) {
		if r.Chance(70) {
			p.Fns = []Fn{{Name: r.Pick([]string{"id", "twice", "failOdd"})}}
		} else {
			p.Fns = []Fn{{Agg: true, Name: r.Pick([]string{"count", "max", "first"})}}
		}
	}
	return p
}

func c09RootPath(r *Rng, d c09Doc) *Path {
	switch r.Weighted([]int{22, 12, 6, 6, 10, 8, 10, 5, 15, 6}) {
	case 0:
		return c09Root(c09Child("x"))
	case 1:
		return c09Root(c09Child("y"))
	case 2:
		return c09Root(c09Child("z"))
	case 3:
		return c09Root(c09Child("w"))
	case 4:
		return c09Root(c09Child("v"), c09Child("a"))
	case 5:
		return c09Root(c09Child("u"), c09Idx(r.Intn(2)))
	case 6:
		return c09Root(c09Child("nope"))
	case 7:
		return c09Root(c09Child("v"), c09Child("nope"))
	case 8:
		// a field of one of the members
		f := r.Pick([]string{"a", "a", "b"})
		if d.n == 0 {
			return c09Root(c09Child("m"), c09Idx(0), c09Child(f))
		}
		j := r.Intn(d.n)
		if d.isObj {
			return c09Root(c09Child("m"), &Step{Kind: StChild, Key: d.keys[j], Bracket: true}, c09Child(f))
		}
		return c09Root(c09Child("m"), c09Idx(j), c09Child(f))
	}
	return c09Root(c09Child("v"))
}

func c09Lit(r *Rng, numeric bool) *Operand {
	if numeric {
		return c09Num(c09Nums[r.Intn(len(c09Nums))])
	}
	switch r.Weighted([]int{45, 25, 15, 15}) {
	case 0:
		return c09Num(c09Nums[r.Intn(len(c09Nums))])
	case 1:
		return c09Str(r.Pick(c09Strs))
	case 2:
		return &Operand{IsLit: true, Lit: Lit{Kind: LitBool, B: r.Chance(50)}}
	}
	return &Operand{IsLit: true, Lit: Lit{Kind: LitNull}}
}

func c09Leaf(r *Rng, d c09Doc) *Query {
	switch r.Weighted([]int{20, 62, 18}) {
	case 0:
		var p *Path
		switch r.Weighted([]int{78, 12, 6, 4}) {
		case 0:
			p = c09CurPath(r)
		case 1:
			p = c09RootPath(r, d)
		case 2:
			p = c09Cur(&Step{Kind: StWild})
		default:
			p = c09Cur(&Step{Kind: StDesc, Inner: c09Child("b")})
		}
		return &Query{Kind: QExist, Neg: r.Chance(40), P: p}
	case 1:
		op := r.Weighted([]int{25, 20, 14, 14, 13, 14})
		numeric := op >= c09LT
		mk := func(kind int) *Operand {
			switch kind {
			case 0:
				return c09Lit(r, numeric)
			case 1:
				return c09P(c09CurPath(r))
			}
			return c09P(c09RootPath(r, d))
		}
		pairs := [][2]int{{1, 0}, {0, 1}, {1, 2}, {2, 1}, {2, 0}, {0, 2}, {2, 2}, {0, 0}}
		pr := pairs[r.Weighted([]int{34, 18, 16, 12, 6, 6, 4, 4})]
		return c09Cmp(op, mk(pr[0]), mk(pr[1]))
	}
	p := c09CurPath(r)
	p.Fns = nil
	if r.Chance(12) {
		p = c09RootPath(r, d)
	}
	return &Query{Kind: QRegex, P: p, Re: r.Pick([]string{"a", "b", "ab"})}
}

// c09Expr draws an expression; a leaf that selects none or all of the members is redrawn a
// few times (three leaves in four), so that the Boolean laws are exercised on proper subsets.
func c09Expr(r *Rng, d c09Doc, depth int, ctx *c09Ctx) *Query {
	if depth <= 0 || r.Chance(30) {
		tries := 4
		if r.Chance(25) {
			tries = 1
		}
		var q *Query
		for t := 0; t < tries; t++ {
			q = c09Leaf(r, d)
			if tries == 1 {
				break
			}
			cnt := 0
			for _, x := range ctx.sel(q) {
				if x {
					cnt++
				}
			}
			if cnt > 0 && (cnt < d.n || d.n == 1) {
				break
			}
		}
		return q
	}
	q := &Query{Kind: QOr, A: c09Expr(r, d, depth-1, ctx), B: c09Expr(r, d, depth-1, ctx)}
	if r.Chance(40) {
		q.Kind = QAnd
	}
	q.Paren = r.Chance(25)
	return q
}

func c09Depth(q *Query) int {
	if q.Kind == QAnd || q.Kind == QOr {
		a, b := c09Depth(q.A), c09Depth(q.B)
		if b > a {
			a = b
		}
		return a + 1
	}
	return 0
}

func c09LeafTags(q *Query, tags c09Tagger) {
	switch q.Kind {
	case QAnd, QOr:
		c09LeafTags(q.A, tags)
		c09LeafTags(q.B, tags)
	case QExist:
		if q.Neg {
			tags["leaf:!exist"] = true
		} else {
			tags["leaf:exist"] = true
		}
	case QCmp:
		tags["leaf:cmp-"+OpNames[q.Op]] = true
		tags["operands:"+c09OperandKind(q.L)+"|"+c09OperandKind(q.R)] = true
	case QRegex:
		tags["leaf:regex"] = true
	}
}

func (c09) Exec(seed int64, i int, tier string) Record {
	r := CaseRng(seed, "C09", i)
	if tier == "thorough" {
		if i < c09ExCount() {
			return c09Exhaustive(i, r)
		}
	} else if r.Chance(4) {
		// a sample of the exhaustive family in the quick tier
		return c09Exhaustive(r.Intn(c09ExCount()), r)
	}
	d := c09GenDoc(r)
	depth := 1 + r.Weighted([]int{35, 40, 25})
	if r.Chance(15) {
		depth = 0
	}
	jn := r.Chance(30)
	var doc interface{} = d.doc
	if jn {
		doc = ToJnum(d.doc)
	}
	cfg := Config(false, nil)
	ctx := &c09Ctx{cfg: &cfg, parsed: map[string]Parsed{}}
	ctx.setDoc(doc.(map[string]interface{}))
	q := c09Expr(r, d, depth, ctx)
	if ctx.viol != "" {
		// a rejected or abnormal candidate leaf: report it as the case
		q2 := q
		return Record{Text: c09Text(q2), Doc: JSONText(doc), Viol: ctx.viol, Class: ctx.cls}
	}
	ctx.memo = map[string]c09Sel{} // the laws are evaluated afresh
	tags := c09Tagger{"mode:random": true}
	rec := Record{Text: c09Text(q), Doc: JSONText(doc), Info: map[string]interface{}{}}
	got := ctx.treeLaws(q, tags, true)
	c09LeafTags(q, tags)
	tags[fmt.Sprintf("members:%d", d.n)] = true
	tags[fmt.Sprintf("depth:%d", c09Depth(q))] = true
	if d.isObj {
		tags["container:object"] = true
	} else {
		tags["container:array"] = true
	}
	if jn {
		tags["decode:jnum"] = true
	}
	cnt := 0
	for _, x := range got {
		if x {
			cnt++
		}
	}
	cls := "some"
	if cnt == 0 {
		cls = "none"
	} else if cnt == d.n {
		cls = "all"
	}
	tags["selects:"+cls] = true
	rec.Info["selected"] = got.String()
	rec.Info["library_calls"] = ctx.calls
	rec.Viol, rec.Class = ctx.viol, ctx.cls
	if ctx.viol == "" || ctx.cls == "law" {
		rec.Q = []LeanQ{c09SpecQ(q, doc, ctx.outcome(c09Text(q)))}
	}
	// trivial: an empty container, or nothing but empty selections anywhere
	any := false
	for _, s := range ctx.memo {
		for _, x := range s {
			if x {
				any = true
			}
		}
	}
	if d.n > 0 && any {
		ck := "a"
		if d.isObj {
			ck = "o"
		}
		rec.Key = fmt.Sprintf("%s/%s%d/%s", queryShape(q), ck, d.n, cls)
	}
	for t := range tags {
		rec.Tags = append(rec.Tags, t)
	}
	sort.Strings(rec.Tags)
	return rec
}
