package jph

import (
	"fmt"
	"math"
	"reflect"
	"sort"
	"strconv"
	"strings"

	"github.com/AsaiYusuke/jsonpath"
)

// C09 — filter logic is Boolean algebra over the members of one container; comparisons
// obey their dualities.
//
// Relational, on the real library alone. The document is {"m": CONTAINER, …root values…};
// every sub-expression E of a generated filter expression is evaluated on its own as
// `$.m[?(E)]` and turned into the set of member positions it selects (members are pairwise
// distinct by construction, the result must be a sub-sequence of the members in container
// order; "selects nothing" = ErrorMemberNotExist = the empty set). Then
//
//	sel(A && B) = sel(A) ∩ sel(B)         sel(A || B) = sel(A) ∪ sel(B)
//	sel(!p)     = complement of sel(p)     sel(x != y) = complement of sel(x == y)
//	sel(a op b) = sel(b mirror(op) a)
//	sel(x <= n) = sel(x < n) ∪ sel(x == n) (>= likewise) for a number literal n
//	sel(p =~ /re/) ⊆ sel(p)
//
// plus a differential of the whole expression against jpv-spec.
//
// Two further families in the random block (12% each):
//   - near-literal numbers (model-free, no Lean question unless every number is integral):
//     a number literal L (0.3, 0.1, 1, 1e15, 2^53 …, in several spellings) against members
//     that hold L, its floating-point neighbours (math.Nextafter once or a few times in both
//     directions), values a relative 5e-15 … 1e-13 away, the results of inexact
//     calculations (0.1+0.2, L/3*3, (L+1)-1 …), L±1, and non-numbers. All six operators in
//     both operand orders: mirror, != = complement of ==, <= / >= = strict ∪ ==, <, ==, >
//     pairwise disjoint, `P < L || P == L` = `P <= L`, `P <= L && P >= L` = `P == L`, and
//     every selection is the one Go's comparison of the float64 values gives.
//   - structured operands of path-vs-path == / != : objects / arrays (also nested in arrays
//     and objects) that differ in one place — a key renamed (same size, the left-only key
//     holding null or not), a key dropped or added (strict sub- and supersets, {}), a value
//     changed, an element dropped — compared as `@.a == $.v`, `$.v == @.a`, `$.v == $.w`,
//     `$.w == $.v`, `@.a == $.m[j].a` …: mirror, complement, reflect.DeepEqual of the operand
//     values evaluated in Go, and jpv-spec.
// Tier thorough starts with an exhaustive block: every expression to depth 2 over a reduced
// family of 11 leaves, each over every container of 0..3 members of 5 member types, as an
// array and as an object.

type c09 struct{}

func init() { Props["C09"] = c09{} }

const c09Random = 300000

func (c09) Count(tier string) int {
	if tier == "thorough" {
		return c09ExCount() + c09Random
	}
	return 30000
}

// ---------- small AST helpers ----------

func c09Child(k string) *Step { return &Step{Kind: StChild, Key: k} }
func c09Idx(n int) *Step      { return &Step{Kind: StUnion, Subs: []Sub{{Kind: SubIdx, N: int64(n)}}} }

func c09Cur(steps ...*Step) *Path  { return &Path{Head: HeadCur, Steps: steps} }
func c09Root(steps ...*Step) *Path { return &Path{Head: HeadRoot, Steps: steps} }

func c09P(p *Path) *Operand    { return &Operand{Path: p} }
func c09Num(n int64) *Operand  { return &Operand{IsLit: true, Lit: Lit{Kind: LitNum, N: n}} }
func c09Str(s string) *Operand { return &Operand{IsLit: true, Lit: Lit{Kind: LitStr, S: s}} }

const (
	c09EQ = 0
	c09NE = 1
	c09LT = 2
	c09LE = 3
	c09GT = 4
	c09GE = 5
)

var c09Mirror = []int{c09EQ, c09NE, c09GT, c09GE, c09LT, c09LE}

func c09Cmp(op int, l, r *Operand) *Query { return &Query{Kind: QCmp, Op: op, L: l, R: r} }

func c09ClonePath(p *Path) *Path {
	if p == nil {
		return nil
	}
	q := &Path{Head: p.Head, Fns: append([]Fn(nil), p.Fns...)}
	for _, s := range p.Steps {
		q.Steps = append(q.Steps, c09CloneStep(s))
	}
	return q
}

func c09CloneStep(s *Step) *Step {
	if s == nil {
		return nil
	}
	t := *s
	t.Names = append([]Name(nil), s.Names...)
	t.Subs = append([]Sub(nil), s.Subs...)
	t.Q = c09CloneQuery(s.Q)
	t.Inner = c09CloneStep(s.Inner)
	return &t
}

func c09CloneOperand(o *Operand) *Operand {
	if o == nil {
		return nil
	}
	return &Operand{IsLit: o.IsLit, Lit: o.Lit, Path: c09ClonePath(o.Path)}
}

func c09CloneQuery(q *Query) *Query {
	if q == nil {
		return nil
	}
	t := *q
	t.A, t.B = c09CloneQuery(q.A), c09CloneQuery(q.B)
	t.P = c09ClonePath(q.P)
	t.L, t.R = c09CloneOperand(q.L), c09CloneOperand(q.R)
	return &t
}

func c09OperandKind(o *Operand) string {
	if o.IsLit {
		return "lit-" + []string{"num", "bool", "str", "null"}[o.Lit.Kind]
	}
	if o.Path.Head == HeadCur {
		return "@"
	}
	return "$"
}

// ---------- evaluation context ----------

type c09Sel []bool

func (s c09Sel) String() string {
	var b strings.Builder
	b.WriteByte('{')
	first := true
	for i, x := range s {
		if x {
			if !first {
				b.WriteByte(',')
			}
			first = false
			fmt.Fprint(&b, i)
		}
	}
	b.WriteByte('}')
	return b.String()
}

func c09Equal(a, b c09Sel) bool {
	if len(a) != len(b) {
		return false
	}
	for i := range a {
		if a[i] != b[i] {
			return false
		}
	}
	return true
}

type c09Ctx struct {
	cfg     *jsonpath.Config
	parsed  map[string]Parsed // per expression text (shared over the containers of a case)
	doc     interface{}
	members []string // canonical text of every member, in container order
	memo    map[string]c09Sel
	viol    string
	cls     string
	calls   int
	reent   *b7Reent // class reentrant: the function `reent` evaluates the parsed function being called again
}

func (c *c09Ctx) fail(cls, format string, args ...interface{}) {
	if c.viol == "" {
		c.viol = fmt.Sprintf(format, args...)
		c.cls = cls
	}
}

func c09FilterPath(q *Query) *Path {
	return &Path{Head: HeadRoot, Steps: []*Step{c09Child("m"), {Kind: StFilter, Q: q}}}
}

func c09Text(q *Query) string { return Render(c09FilterPath(q), nil) }

// setDoc installs a document {"m": container, …}; members in container order.
func (c *c09Ctx) setDoc(doc map[string]interface{}) {
	c.doc = doc
	c.memo = map[string]c09Sel{}
	c.members = c.members[:0]
	switch m := doc["m"].(type) {
	case []interface{}:
		for _, v := range m {
			c.members = append(c.members, ValSexp(v))
		}
	case map[string]interface{}:
		keys := make([]string, 0, len(m))
		for k := range m {
			keys = append(keys, k)
		}
		sort.Strings(keys)
		for _, k := range keys {
			c.members = append(c.members, ValSexp(m[k]))
		}
	}
}

// outcome runs `$.m[?(q)]` on the current document.
func (c *c09Ctx) outcome(text string) Outcome {
	f, ok := c.parsed[text]
	if !ok {
		var o Outcome
		f, o = SafeParse(text, c.cfg)
		if f == nil {
			c.fail("parse-reject", "%s was rejected by Parse: %s", text, clip(o.Detail(), 500))
		}
		c.parsed[text] = f
	}
	if f == nil {
		return Outcome{ErrKind: "syntax"}
	}
	c.calls++
	if c.reent != nil {
		c.reent.F, c.reent.Budget = f, 200
		defer func() { c.reent.F = nil }()
	}
	return SafeCall(f, c.doc)
}

// selText: the set of member positions the path text selects (same memo as sel).
func (c *c09Ctx) selText(text string) c09Sel {
	if s, ok := c.memo[text]; ok {
		return s
	}
	s := c.selOf(text, c.outcome(text))
	c.memo[text] = s
	return s
}

// sel: the set of member positions `$.m[?(q)]` selects.
func (c *c09Ctx) sel(q *Query) c09Sel {
	text := c09Text(q)
	if s, ok := c.memo[text]; ok {
		return s
	}
	s := c.selOf(text, c.outcome(text))
	c.memo[text] = s
	return s
}

func (c *c09Ctx) selOf(text string, out Outcome) c09Sel {
	s := make(c09Sel, len(c.members))
	if !out.OK {
		if out.ErrKind != "member" || out.Both {
			if out.ErrKind != "syntax" {
				c.fail("abnormal", "%s on %s: abnormal outcome %s", text, JSONText(c.doc), clip(out.Detail(), 500))
			}
		}
		return s
	}
	if len(out.Vals) == 0 {
		c.fail("abnormal", "%s on %s: success with no values", text, JSONText(c.doc))
	}
	j := 0
	for _, v := range out.Vals {
		t := ValSexp(v)
		for j < len(c.members) && c.members[j] != t {
			j++
		}
		if j == len(c.members) {
			c.fail("order", "%s on %s: the result [%s] is not a sub-sequence of the members in container order", text, JSONText(c.doc), clip(ValsSexp(out.Vals), 300))
			return s
		}
		s[j] = true
		j++
	}
	return s
}

// ---------- the relations ----------

type c09Tagger map[string]bool

func (c *c09Ctx) expect(lhsQ *Query, lhs, want c09Sel, law string, parts ...*Query) {
	if c09Equal(lhs, want) {
		return
	}
	var ps []string
	for _, p := range parts {
		ps = append(ps, fmt.Sprintf("%s selects %s", c09Text(p), c.sel(p)))
	}
	c.fail("law", "%s: %s selects %s but must select %s (%s) on %s", law, c09Text(lhsQ), lhs, want, strings.Join(ps, "; "), JSONText(c.doc))
}

// leafLaws checks the dualities of one basic query.
func (c *c09Ctx) leafLaws(q *Query, tags c09Tagger) {
	n := len(c.members)
	switch q.Kind {
	case QExist:
		o := c09CloneQuery(q)
		o.Neg = !q.Neg
		a, b := c.sel(q), c.sel(o)
		want := make(c09Sel, n)
		for i := range want {
			want[i] = !b[i]
		}
		tags["law:!p=complement(p)"] = true
		c.expect(q, a, want, "negation is the complement", o)
	case QRegex:
		e := &Query{Kind: QExist, P: c09ClonePath(q.P)}
		a, b := c.sel(q), c.sel(e)
		for i := range a {
			if a[i] && !b[i] {
				c.fail("law", "a regex match without the operand present: %s selects %s, %s selects %s on %s", c09Text(q), a, c09Text(e), b, JSONText(c.doc))
			}
		}
		tags["law:regex-subset-of-exist"] = true
	case QCmp:
		a := c.sel(q)
		// mirror
		m := c09Cmp(c09Mirror[q.Op], c09CloneOperand(q.R), c09CloneOperand(q.L))
		tags["law:mirror:"+OpNames[q.Op]] = true
		c.expect(q, a, c.sel(m), "swapping the operands and mirroring the operator", m)
		// != is the complement of ==
		if q.Op == c09EQ || q.Op == c09NE {
			o := c09CloneQuery(q)
			o.Op = c09EQ + c09NE - q.Op
			b := c.sel(o)
			want := make(c09Sel, n)
			for i := range want {
				want[i] = !b[i]
			}
			tags["law:ne=complement(eq)"] = true
			c.expect(q, a, want, "!= is the complement of ==", o)
		}
		// <= is < or == against a number literal
		numLit := func(o *Operand) bool { return o.IsLit && o.Lit.Kind == LitNum }
		if (q.Op == c09LE || q.Op == c09GE) && (numLit(q.L) || numLit(q.R)) {
			strict, eq := c09CloneQuery(q), c09CloneQuery(q)
			strict.Op = q.Op - 1 // le→lt, ge→gt
			eq.Op = c09EQ
			s1, s2 := c.sel(strict), c.sel(eq)
			want := make(c09Sel, n)
			for i := range want {
				want[i] = s1[i] || s2[i]
			}
			tags["law:"+OpNames[q.Op]+"=strict∪eq"] = true
			c.expect(q, a, want, OpText[q.Op]+" is "+OpText[strict.Op]+" or ==", strict, eq)
		}
	}
}

// treeLaws checks every node of the expression, bottom-up.
func (c *c09Ctx) treeLaws(q *Query, tags c09Tagger, leaves bool) c09Sel {
	switch q.Kind {
	case QAnd, QOr:
		a, b := c.treeLaws(q.A, tags, leaves), c.treeLaws(q.B, tags, leaves)
		want := make(c09Sel, len(c.members))
		for i := range want {
			if q.Kind == QAnd {
				want[i] = a[i] && b[i]
			} else {
				want[i] = a[i] || b[i]
			}
		}
		got := c.sel(q)
		if q.Kind == QAnd {
			tags["law:and=intersection"] = true
			c.expect(q, got, want, "&& is the intersection", q.A, q.B)
		} else {
			tags["law:or=union"] = true
			c.expect(q, got, want, "|| is the union", q.A, q.B)
		}
		return got
	}
	if leaves {
		c.leafLaws(q, tags)
	}
	return c.sel(q)
}

// ---------- exhaustive block (tier thorough) ----------

const c09ExLeafN = 11

func c09ExLeaf(i int) *Query {
	a, b := c09Cur(c09Child("a")), c09Cur(c09Child("b"))
	x := c09Root(c09Child("x"))
	switch i {
	case 0:
		return &Query{Kind: QExist, P: a}
	case 1:
		return &Query{Kind: QExist, Neg: true, P: a}
	case 2:
		return c09Cmp(c09EQ, c09P(a), c09Num(1))
	case 3:
		return c09Cmp(c09NE, c09P(a), c09Num(1))
	case 4:
		return c09Cmp(c09GT, c09P(a), c09Num(1))
	case 5:
		return c09Cmp(c09GE, c09Num(1), c09P(b))
	case 6:
		return c09Cmp(c09EQ, c09P(a), c09P(x))
	case 7:
		return c09Cmp(c09EQ, c09P(b), c09P(c09Root(c09Child("nope"))))
	case 8:
		return &Query{Kind: QRegex, P: a, Re: "a"}
	case 9:
		return c09Cmp(c09EQ, c09P(x), c09Num(1))
	}
	return c09Cmp(c09NE, c09P(x), c09Num(1))
}

func c09ExCount() int {
	n := c09ExLeafN
	return n + 2*n*n + 8*n*n*n + 8*n*n*n*n
}

func c09Bin(and bool, a, b *Query) *Query {
	k := QOr
	if and {
		k = QAnd
	}
	return &Query{Kind: k, A: a, B: b}
}

// c09ExExpr decodes index i into an expression of depth ≤ 2.
func c09ExExpr(i int) (*Query, string) {
	n := c09ExLeafN
	if i < n {
		return c09ExLeaf(i), "L"
	}
	i -= n
	if i < 2*n*n {
		op := i % 2
		i /= 2
		return c09Bin(op == 1, c09ExLeaf(i%n), c09ExLeaf(i/n)), "L.L"
	}
	i -= 2 * n * n
	if i < 8*n*n*n {
		left := i%2 == 0
		i /= 2
		o1, o2 := i%2 == 1, (i/2)%2 == 1
		i /= 4
		l1, l2, l3 := i%n, (i/n)%n, i/(n*n)
		inner := c09Bin(o1, c09ExLeaf(l1), c09ExLeaf(l2))
		if left {
			return c09Bin(o2, inner, c09ExLeaf(l3)), "(L.L).L"
		}
		return c09Bin(o2, c09ExLeaf(l3), inner), "L.(L.L)"
	}
	i -= 8 * n * n * n
	o1, o2, o3 := i%2 == 1, (i/2)%2 == 1, (i/4)%2 == 1
	i /= 8
	l1, l2, l3, l4 := i%n, (i/n)%n, (i/(n*n))%n, i/(n*n*n)
	return c09Bin(o3, c09Bin(o1, c09ExLeaf(l1), c09ExLeaf(l2)), c09Bin(o2, c09ExLeaf(l3), c09ExLeaf(l4))), "(L.L).(L.L)"
}

func c09ExMember(t, id int) interface{} {
	switch t {
	case 0:
		return map[string]interface{}{"id": float64(10 + id), "a": float64(1)}
	case 1:
		return map[string]interface{}{"id": float64(10 + id), "a": float64(2), "b": float64(1)}
	case 2:
		return map[string]interface{}{"id": float64(10 + id), "a": "a"}
	case 3:
		return map[string]interface{}{"id": float64(10 + id)}
	}
	return []interface{}{float64(100 + id)}
}

// c09ExDocs: every container of 0..3 members over the 5 member types, as array and object.
func c09ExDocs() []map[string]interface{} {
	var docs []map[string]interface{}
	keys := []string{"k0", "k1", "k2"}
	for n := 0; n <= 3; n++ {
		total := 1
		for j := 0; j < n; j++ {
			total *= 5
		}
		for code := 0; code < total; code++ {
			arr := make([]interface{}, n)
			obj := map[string]interface{}{}
			x := code
			for j := 0; j < n; j++ {
				arr[j] = c09ExMember(x%5, j)
				obj[keys[j]] = c09ExMember(x%5, j)
				x /= 5
			}
			docs = append(docs, map[string]interface{}{"m": arr, "x": float64(1)})
			docs = append(docs, map[string]interface{}{"m": obj, "x": float64(1)})
		}
	}
	return docs
}

func c09Exhaustive(idx int, r *Rng) Record {
	q, shape := c09ExExpr(idx)
	cfg := Config(false, nil)
	ctx := &c09Ctx{cfg: &cfg, parsed: map[string]Parsed{}}
	tags := c09Tagger{"mode:exhaustive": true, "shape:" + shape: true}
	rec := Record{Text: c09Text(q), Info: map[string]interface{}{"mode": "exhaustive", "shape": shape}}
	docs := c09ExDocs()
	ask := map[int]bool{r.Intn(len(docs)): true, r.Intn(len(docs)): true}
	some := false
	for di, d := range docs {
		ctx.setDoc(d)
		// only the top node and the leaf laws of a single leaf: the sub-expressions are
		// cases of their own
		var got c09Sel
		switch q.Kind {
		case QAnd, QOr:
			a, b := ctx.sel(q.A), ctx.sel(q.B)
			want := make(c09Sel, len(ctx.members))
			for i := range want {
				if q.Kind == QAnd {
					want[i] = a[i] && b[i]
				} else {
					want[i] = a[i] || b[i]
				}
			}
			got = ctx.sel(q)
			law := "|| is the union"
			if q.Kind == QAnd {
				law = "&& is the intersection"
			}
			ctx.expect(q, got, want, law, q.A, q.B)
		default:
			ctx.leafLaws(q, tags)
			got = ctx.sel(q)
		}
		for _, x := range got {
			if x {
				some = true
			}
		}
		if ctx.viol != "" && rec.Doc == "" {
			rec.Doc = JSONText(d)
		}
		if ask[di] {
			rec.Q = append(rec.Q, c09SpecQ(q, d, ctx.outcome(c09Text(q))))
		}
	}
	if rec.Doc == "" {
		rec.Doc = fmt.Sprintf("(all %d containers of 0..3 members)", len(docs))
	}
	rec.Info["library_calls"] = ctx.calls
	rec.Viol, rec.Class = ctx.viol, ctx.cls
	if some {
		rec.Key = "ex/" + rec.Text
	}
	for t := range tags {
		rec.Tags = append(rec.Tags, t)
	}
	sort.Strings(rec.Tags)
	return rec
}

func c09SpecQ(q *Query, doc interface{}, out Outcome) LeanQ {
	p := c09FilterPath(q)
	Render(p, nil)
	exp := "(q err)"
	if out.OK {
		exp = "(q ok"
		for _, v := range out.Vals {
			exp += " " + ValSexp(v)
		}
		exp += ")"
	}
	return LeanQ{Driver: "spec", Line: "(q run " + p.Sexp() + " " + ValSexp(doc) + ")", Expect: exp, What: "whole expression vs Spec.run"}
}

// ---------- random block ----------

var c09Nums = []int64{1, 2, 3, 1, 2, 0}
var c09Strs = []string{"a", "ab", "b"}

func c09Value(r *Rng) (interface{}, bool) {
	switch r.Weighted([]int{50, 18, 7, 6, 7, 5, 7}) {
	case 0:
		return float64(c09Nums[r.Intn(len(c09Nums))]), true
	case 1:
		return r.Pick(c09Strs), true
	case 2:
		return r.Chance(50), true
	case 3:
		return nil, true
	case 4:
		return map[string]interface{}{"b": float64(c09Nums[r.Intn(len(c09Nums))])}, true
	case 5:
		return []interface{}{float64(c09Nums[r.Intn(len(c09Nums))])}, true
	}
	return nil, false // missing
}

type c09Doc struct {
	doc    map[string]interface{}
	keys   []string // member keys in container order (objects)
	isObj  bool
	n      int
	kindOf []string
}

func c09GenDoc(r *Rng) c09Doc {
	n := r.Weighted([]int{4, 12, 20, 22, 18, 14, 10})
	isObj := r.Chance(45)
	// scalar members must be pairwise distinct: drawn without replacement
	scalars := []interface{}{float64(0), float64(1), float64(2), float64(3), "a", "ab", "b", true, false, nil}
	r.Shuffle(len(scalars), func(i, j int) { scalars[i], scalars[j] = scalars[j], scalars[i] })
	ms := make([]interface{}, n)
	kinds := make([]string, n)
	for j := 0; j < n; j++ {
		switch r.Weighted([]int{72, 15, 13}) {
		case 0:
			m := map[string]interface{}{"id": float64(10 + j)}
			if v, ok := c09Value(r); ok {
				m["a"] = v
			}
			if r.Chance(55) {
				if v, ok := c09Value(r); ok {
					m["b"] = v
				}
			}
			ms[j] = m
			kinds[j] = "object"
		case 1:
			ms[j] = scalars[j]
			kinds[j] = "scalar"
		default:
			v, ok := c09Value(r)
			if !ok {
				v = float64(1)
			}
			ms[j] = []interface{}{v, float64(100 + j)}
			kinds[j] = "array"
		}
	}
	d := c09Doc{isObj: isObj, n: n, kindOf: kinds}
	var container interface{} = ms
	if isObj {
		pool := []string{"a", "b", "c", "d", "e", "f", "aa", "B", "é", "b c"}
		r.Shuffle(len(pool), func(i, j int) { pool[i], pool[j] = pool[j], pool[i] })
		keys := append([]string(nil), pool[:n]...)
		sort.Strings(keys)
		m := map[string]interface{}{}
		for j, k := range keys {
			m[k] = ms[j]
		}
		container = m
		d.keys = keys
	}
	root := map[string]interface{}{"m": container}
	root["x"] = float64(c09Nums[r.Intn(len(c09Nums))])
	root["y"] = r.Pick(c09Strs)
	root["z"] = nil
	root["w"] = r.Chance(50)
	root["v"] = map[string]interface{}{"a": float64(c09Nums[r.Intn(len(c09Nums))]), "b": float64(c09Nums[r.Intn(len(c09Nums))])}
	root["u"] = []interface{}{float64(c09Nums[r.Intn(len(c09Nums))]), r.Pick(c09Strs)}
	d.doc = root
	return d
}

func c09CurPath(r *Rng) *Path {
	var p *Path
	switch r.Weighted([]int{12, 40, 18, 8, 10, 5, 5, 2}) {
	case 0:
		p = c09Cur()
	case 1:
		p = c09Cur(c09Child("a"))
	case 2:
		p = c09Cur(c09Child("b"))
	case 3:
		p = c09Cur(c09Child("a"), c09Child("b"))
	case 4:
		p = c09Cur(c09Idx(0))
	case 5:
		p = c09Cur(&Step{Kind: StChild, Key: "a", Bracket: true})
	case 6:
		p = c09Cur(c09Child("zz"))
	default:
		p = c09Cur(c09Child("a"), c09Idx(-1))
	}
	if r.Chance(5) {
		if r.Chance(70) {
			p.Fns = []Fn{{Name: r.Pick([]string{"id", "twice", "failOdd"})}}
		} else {
			p.Fns = []Fn{{Agg: true, Name: r.Pick([]string{"count", "max", "first"})}}
		}
	}
	return p
}

func c09RootPath(r *Rng, d c09Doc) *Path {
	switch r.Weighted([]int{22, 12, 6, 6, 10, 8, 10, 5, 15, 6}) {
	case 0:
		return c09Root(c09Child("x"))
	case 1:
		return c09Root(c09Child("y"))
	case 2:
		return c09Root(c09Child("z"))
	case 3:
		return c09Root(c09Child("w"))
	case 4:
		return c09Root(c09Child("v"), c09Child("a"))
	case 5:
		return c09Root(c09Child("u"), c09Idx(r.Intn(2)))
	case 6:
		return c09Root(c09Child("nope"))
	case 7:
		return c09Root(c09Child("v"), c09Child("nope"))
	case 8:
		// a field of one of the members
		f := r.Pick([]string{"a", "a", "b"})
		if d.n == 0 {
			return c09Root(c09Child("m"), c09Idx(0), c09Child(f))
		}
		j := r.Intn(d.n)
		if d.isObj {
			return c09Root(c09Child("m"), &Step{Kind: StChild, Key: d.keys[j], Bracket: true}, c09Child(f))
		}
		return c09Root(c09Child("m"), c09Idx(j), c09Child(f))
	}
	return c09Root(c09Child("v"))
}

func c09Lit(r *Rng, numeric bool) *Operand {
	if numeric {
		return c09Num(c09Nums[r.Intn(len(c09Nums))])
	}
	switch r.Weighted([]int{45, 25, 15, 15}) {
	case 0:
		return c09Num(c09Nums[r.Intn(len(c09Nums))])
	case 1:
		return c09Str(r.Pick(c09Strs))
	case 2:
		return &Operand{IsLit: true, Lit: Lit{Kind: LitBool, B: r.Chance(50)}}
	}
	return &Operand{IsLit: true, Lit: Lit{Kind: LitNull}}
}

func c09Leaf(r *Rng, d c09Doc) *Query {
	switch r.Weighted([]int{20, 62, 18}) {
	case 0:
		var p *Path
		switch r.Weighted([]int{78, 12, 6, 4}) {
		case 0:
			p = c09CurPath(r)
		case 1:
			p = c09RootPath(r, d)
		case 2:
			p = c09Cur(&Step{Kind: StWild})
		default:
			p = c09Cur(&Step{Kind: StDesc, Inner: c09Child("b")})
		}
		return &Query{Kind: QExist, Neg: r.Chance(40), P: p}
	case 1:
		op := r.Weighted([]int{25, 20, 14, 14, 13, 14})
		numeric := op >= c09LT
		mk := func(kind int) *Operand {
			switch kind {
			case 0:
				return c09Lit(r, numeric)
			case 1:
				return c09P(c09CurPath(r))
			}
			return c09P(c09RootPath(r, d))
		}
		pairs := [][2]int{{1, 0}, {0, 1}, {1, 2}, {2, 1}, {2, 0}, {0, 2}, {2, 2}, {0, 0}}
		pr := pairs[r.Weighted([]int{34, 18, 16, 12, 6, 6, 4, 4})]
		return c09Cmp(op, mk(pr[0]), mk(pr[1]))
	}
	p := c09CurPath(r)
	p.Fns = nil
	if r.Chance(12) {
		p = c09RootPath(r, d)
	}
	return &Query{Kind: QRegex, P: p, Re: r.Pick([]string{"a", "b", "ab"})}
}

// c09Expr draws an expression; a leaf that selects none or all of the members is redrawn a
// few times (three leaves in four), so that the Boolean laws are exercised on proper subsets.
func c09Expr(r *Rng, d c09Doc, depth int, ctx *c09Ctx) *Query {
	if depth <= 0 || r.Chance(30) {
		tries := 4
		if r.Chance(25) {
			tries = 1
		}
		var q *Query
		for t := 0; t < tries; t++ {
			q = c09Leaf(r, d)
			if tries == 1 {
				break
			}
			cnt := 0
			for _, x := range ctx.sel(q) {
				if x {
					cnt++
				}
			}
			if cnt > 0 && (cnt < d.n || d.n == 1) {
				break
			}
		}
		return q
	}
	q := &Query{Kind: QOr, A: c09Expr(r, d, depth-1, ctx), B: c09Expr(r, d, depth-1, ctx)}
	if r.Chance(40) {
		q.Kind = QAnd
	}
	q.Paren = r.Chance(25)
	return q
}

func c09Depth(q *Query) int {
	if q.Kind == QAnd || q.Kind == QOr {
		a, b := c09Depth(q.A), c09Depth(q.B)
		if b > a {
			a = b
		}
		return a + 1
	}
	return 0
}

func c09LeafTags(q *Query, tags c09Tagger) {
	switch q.Kind {
	case QAnd, QOr:
		c09LeafTags(q.A, tags)
		c09LeafTags(q.B, tags)
	case QExist:
		if q.Neg {
			tags["leaf:!exist"] = true
		} else {
			tags["leaf:exist"] = true
		}
	case QCmp:
		tags["leaf:cmp-"+OpNames[q.Op]] = true
		tags["operands:"+c09OperandKind(q.L)+"|"+c09OperandKind(q.R)] = true
	case QRegex:
		tags["leaf:regex"] = true
	}
}

func (c09) Exec(seed int64, i int, tier string) Record {
	r := CaseRng(seed, "C09", i)
	if i%10 == 7 && (tier != "thorough" || i >= c09ExCount()) {
		return c09ReentCase(r)
	}
	if i%20 == 9 && (tier != "thorough" || i >= c09ExCount()) {
		// classes overlap-probe / kth-fault-probe (b15_overlap.go): functions inside `@`- and `$`-operands first
		return b15Case("C09", r)
	}
	if i%20 == 13 && (tier != "thorough" || i >= c09ExCount()) {
		// a comparison between an aggregate-collapsed operand and a per-member operand, written either way round:
		// one value against EVERY member (the specification is the oracle; see c01AggOperandCase)
		rec := c01AggOperandCase(r)
		rec.Tags = append(rec.Tags, "mode:agg-operand")
		return rec
	}
	if i%20 == 3 && (tier != "thorough" || i >= c09ExCount()) {
		// NaN / ±Inf / -0 members under the laws (b11_helpers.go)
		return c09NonFiniteCase(r)
	}
	if tier == "thorough" {
		if i < c09ExCount() {
			return c09Exhaustive(i, r)
		}
	} else if r.Chance(4) {
		// a sample of the exhaustive family in the quick tier
		return c09Exhaustive(r.Intn(c09ExCount()), r)
	}
	switch r.Weighted([]int{76, 12, 12}) {
	case 1:
		return c09FloatCase(r)
	case 2:
		return c09DeepCase(r)
	}
	d := c09GenDoc(r)
	depth := 1 + r.Weighted([]int{35, 40, 25})
	if r.Chance(15) {
		depth = 0
	}
	jn := r.Chance(30)
	var doc interface{} = d.doc
	if jn {
		doc = ToJnum(d.doc)
	}
	cfg := Config(false, nil)
	ctx := &c09Ctx{cfg: &cfg, parsed: map[string]Parsed{}}
	ctx.setDoc(doc.(map[string]interface{}))
	q := c09Expr(r, d, depth, ctx)
	if ctx.viol != "" {
		// a rejected or abnormal candidate leaf: report it as the case
		q2 := q
		return Record{Text: c09Text(q2), Doc: JSONText(doc), Viol: ctx.viol, Class: ctx.cls}
	}
	ctx.memo = map[string]c09Sel{} // the laws are evaluated afresh
	tags := c09Tagger{"mode:random": true}
	rec := Record{Text: c09Text(q), Doc: JSONText(doc), Info: map[string]interface{}{}}
	got := ctx.treeLaws(q, tags, true)
	c09LeafTags(q, tags)
	tags[fmt.Sprintf("members:%d", d.n)] = true
	tags[fmt.Sprintf("depth:%d", c09Depth(q))] = true
	if d.isObj {
		tags["container:object"] = true
	} else {
		tags["container:array"] = true
	}
	if jn {
		tags["decode:jnum"] = true
	}
	cnt := 0
	for _, x := range got {
		if x {
			cnt++
		}
	}
	cls := "some"
	if cnt == 0 {
		cls = "none"
	} else if cnt == d.n {
		cls = "all"
	}
	tags["selects:"+cls] = true
	rec.Info["selected"] = got.String()
	rec.Info["library_calls"] = ctx.calls
	rec.Viol, rec.Class = ctx.viol, ctx.cls
	if ctx.viol == "" || ctx.cls == "law" {
		rec.Q = []LeanQ{c09SpecQ(q, doc, ctx.outcome(c09Text(q)))}
	}
	// trivial: an empty container, or nothing but empty selections anywhere
	any := false
	for _, s := range ctx.memo {
		for _, x := range s {
			if x {
				any = true
			}
		}
	}
	if d.n > 0 && any {
		ck := "a"
		if d.isObj {
			ck = "o"
		}
		rec.Key = fmt.Sprintf("%s/%s%d/%s", queryShape(q), ck, d.n, cls)
	}
	for t := range tags {
		rec.Tags = append(rec.Tags, t)
	}
	sort.Strings(rec.Tags)
	return rec
}

// ---------- near-literal numbers ----------

var c09FloatLits = []string{"0.3", "0.3", "0.1", "0.7", "1", "1", "3", "1.1", "2.5", "-0.3", "-1", "100", "1e15", "1000000000000000",
	"9007199254740992", "4503599627370496", "1e-7", "123456789.125", "0.30000000000000004", "1.0000000000000002", "1e300", "2.2250738585072014e-308", "65536"}

func c09Steps(x float64, n int) float64 {
	dir := math.Inf(1)
	if n < 0 {
		dir, n = math.Inf(-1), -n
	}
	for ; n > 0; n-- {
		x = math.Nextafter(x, dir)
	}
	return x
}

// c09Near: numbers equal to, next to, or a small relative distance from l.
func c09Near(r *Rng, l float64) float64 {
	one, three, ten := 1.0, 3.0, 10.0
	switch r.Weighted([]int{16, 22, 12, 14, 12, 10, 8, 6}) {
	case 0:
		return l
	case 1:
		return c09Steps(l, []int{1, -1}[r.Intn(2)])
	case 2:
		return c09Steps(l, []int{1, -1}[r.Intn(2)]*r.Range(2, 40))
	case 3:
		rel := []float64{5e-15, 9.9e-15, 1.01e-14, 2e-15, 1e-13, 1e-12, 3e-16}[r.Intn(7)]
		if r.Chance(50) {
			rel = -rel
		}
		return l * (one + rel)
	case 4:
		// inexact calculations that "should" give l
		switch r.Intn(5) {
		case 0:
			return l / three * three
		case 1:
			return (l + one) - one
		case 2:
			return l * ten / ten
		case 3:
			tenth := l / ten
			sum := 0.0
			for i := 0; i < 10; i++ {
				sum += tenth
			}
			return sum
		}
		a := l / three
		return a + a + a
	case 5:
		if r.Chance(50) {
			return l + one
		}
		return l - one
	case 6:
		return -l
	}
	return []float64{0, 1, 2, 0.5}[r.Intn(4)]
}

func c09FloatValue(r *Rng, l float64, litText string) (interface{}, bool) {
	if r.Chance(80) {
		v := c09Near(r, l)
		if math.IsInf(v, 0) || math.IsNaN(v) {
			v = l
		}
		if v == 0 {
			v = 0 // no negative zero: JSON text "-0" and "0" are one value
		}
		return v, true
	}
	switch r.Intn(6) {
	case 0:
		return litText, true
	case 1:
		return nil, true
	case 2:
		return r.Chance(50), true
	case 3:
		return map[string]interface{}{"b": l}, true
	case 4:
		return []interface{}{l}, true
	}
	return nil, false
}

func c09FloatCase(r *Rng) Record {
	litText := r.Pick(c09FloatLits)
	l, err := strconv.ParseFloat(litText, 64)
	rec := Record{Info: map[string]interface{}{"mode": "float", "literal": litText}}
	if err != nil {
		rec.Viol, rec.Class = "harness error: literal "+litText, "harness"
		return rec
	}
	// the document
	n := r.Range(2, 7)
	ms := make([]interface{}, 0, n)
	usedBare := map[string]bool{}
	for j := 0; j < n; j++ {
		v, has := c09FloatValue(r, l, litText)
		switch r.Weighted([]int{60, 22, 18}) {
		case 0:
			m := map[string]interface{}{"id": float64(10 + j)}
			if has {
				m["a"] = v
			}
			ms = append(ms, m)
		case 1:
			if _, isF := v.(float64); !has || !isF || usedBare[ValSexp(v)] {
				ms = append(ms, map[string]interface{}{"id": float64(10 + j), "a": v})
				continue
			}
			usedBare[ValSexp(v)] = true
			ms = append(ms, v)
		default:
			if !has {
				v = l
			}
			ms = append(ms, []interface{}{v, float64(100 + j)})
		}
	}
	isObj := r.Chance(40)
	var container interface{} = ms
	var keys []string
	if isObj {
		pool := []string{"a", "b", "c", "d", "e", "f", "aa", "B", "é", "b c"}
		r.Shuffle(len(pool), func(i, j int) { pool[i], pool[j] = pool[j], pool[i] })
		keys = append([]string(nil), pool[:n]...)
		sort.Strings(keys)
		m := map[string]interface{}{}
		for j, k := range keys {
			m[k] = ms[j]
		}
		container = m
	}
	root := map[string]interface{}{"m": container, "x": c09Near(r, l)}
	if x := root["x"].(float64); math.IsInf(x, 0) || math.IsNaN(x) || x == 0 {
		root["x"] = l
	}
	docText := JSONText(root)
	jn := r.Chance(30)
	doc, derr := c10Decode(docText, jn)
	if derr != nil {
		rec.Viol, rec.Class = "harness error: cannot decode "+docText, "harness"
		return rec
	}
	back, _ := c10Decode(docText, false)
	if !reflect.DeepEqual(back, interface{}(root)) {
		rec.Viol, rec.Class = "harness error: the JSON text does not give the document back: "+docText, "harness"
		return rec
	}
	rec.Doc = docText
	// the operand path
	var p *Path
	switch r.Weighted([]int{52, 20, 16, 6, 6}) {
	case 0:
		p = c09Cur(c09Child("a"))
	case 1:
		p = c09Cur()
	case 2:
		p = c09Cur(c09Idx(0))
	case 3:
		p = c09Root(c09Child("x"))
	default:
		j := r.Intn(n)
		if isObj {
			p = c09Root(c09Child("m"), &Step{Kind: StChild, Key: keys[j], Bracket: true}, c09Child("a"))
		} else {
			p = c09Root(c09Child("m"), c09Idx(j), c09Child("a"))
		}
	}
	ptxt := Render(p, nil)
	// the literal's spelling
	ltxt := litText
	switch r.Intn(4) {
	case 0:
		ltxt = strconv.FormatFloat(l, 'e', -1, 64)
	case 1:
		if l >= 0 {
			ltxt = "+" + litText
		}
	}
	if back, err := strconv.ParseFloat(ltxt, 64); err != nil || back != l {
		ltxt = litText
	}
	text := func(op int, swapped bool) string {
		if swapped {
			return "$.m[?(" + ltxt + " " + OpText[c09Mirror[op]] + " " + ptxt + ")]"
		}
		return "$.m[?(" + ptxt + " " + OpText[op] + " " + ltxt + ")]"
	}
	rec.Text = text(c09LE, false)
	rec.Info["literal_spelling"] = ltxt
	rec.Info["operand"] = ptxt

	cfg := Config(false, nil)
	ctx := &c09Ctx{cfg: &cfg, parsed: map[string]Parsed{}}
	ctx.setDoc(doc.(map[string]interface{}))
	tags := c09Tagger{"mode:float": true}
	nm := len(ctx.members)
	var a [6]c09Sel
	for op := 0; op < 6; op++ {
		a[op] = ctx.selText(text(op, false))
		b := ctx.selText(text(op, true))
		tags["law:mirror:"+OpNames[op]] = true
		if !c09Equal(a[op], b) {
			ctx.fail("law", "swapping the operands and mirroring the operator: %s selects %s but %s selects %s on %s", text(op, false), a[op], text(op, true), b, docText)
		}
	}
	combine := func(f func(i int) bool) c09Sel {
		s := make(c09Sel, nm)
		for i := range s {
			s[i] = f(i)
		}
		return s
	}
	law := func(name string, lhsText string, lhs, want c09Sel, parts ...int) {
		tags["law:"+name] = true
		if c09Equal(lhs, want) {
			return
		}
		var ps []string
		for _, op := range parts {
			ps = append(ps, fmt.Sprintf("%s selects %s", text(op, false), a[op]))
		}
		ctx.fail("law", "%s: %s selects %s but must select %s (%s) on %s", name, lhsText, lhs, want, strings.Join(ps, "; "), docText)
	}
	law("ne=complement(eq)", text(c09NE, false), a[c09NE], combine(func(i int) bool { return !a[c09EQ][i] }), c09EQ)
	law("le=strict∪eq", text(c09LE, false), a[c09LE], combine(func(i int) bool { return a[c09LT][i] || a[c09EQ][i] }), c09LT, c09EQ)
	law("ge=strict∪eq", text(c09GE, false), a[c09GE], combine(func(i int) bool { return a[c09GT][i] || a[c09EQ][i] }), c09GT, c09EQ)
	none := make(c09Sel, nm)
	law("lt∩eq=∅", text(c09LT, false)+" and "+text(c09EQ, false)+" both", combine(func(i int) bool { return a[c09LT][i] && a[c09EQ][i] }), none, c09LT, c09EQ)
	law("gt∩eq=∅", text(c09GT, false)+" and "+text(c09EQ, false)+" both", combine(func(i int) bool { return a[c09GT][i] && a[c09EQ][i] }), none, c09GT, c09EQ)
	law("lt∩gt=∅", text(c09LT, false)+" and "+text(c09GT, false)+" both", combine(func(i int) bool { return a[c09LT][i] && a[c09GT][i] }), none, c09LT, c09GT)
	or := "$.m[?(" + ptxt + " < " + ltxt + " || " + ptxt + " == " + ltxt + ")]"
	law("(lt||eq)=le", or, ctx.selText(or), a[c09LE], c09LE)
	and := "$.m[?(" + ptxt + " <= " + ltxt + " && " + ltxt + " <= " + ptxt + ")]"
	law("(le&&ge)=eq", and, ctx.selText(and), a[c09EQ], c09EQ)
	// by value, member by member
	ms2, _ := c10Members(doc)
	exercised := false
	for op := 0; op < 6; op++ {
		for j, m := range ms2 {
			x := c10Eval(p, doc, m)
			f, isNum := c10NumOf(x.v)
			want := false
			if x.ok && isNum {
				exercised = true
				switch op {
				case c09EQ:
					want = f == l
				case c09NE:
					want = f != l
				case c09LT:
					want = f < l
				case c09LE:
					want = f <= l
				case c09GT:
					want = f > l
				default:
					want = f >= l
				}
				switch {
				case f == l:
					tags["member:equal"] = true
				case f == c09Steps(l, 1) || f == c09Steps(l, -1):
					tags["member:1ulp"] = true
				case math.Abs(f-l) <= math.Abs(l)*1e-13:
					tags["member:within-1e-13"] = true
				default:
					tags["member:far"] = true
				}
			} else if op == c09NE {
				want = true
			}
			if want != a[op][j] {
				verb := "must not be selected"
				if want {
					verb = "must be selected"
				}
				ctx.fail("by-value", "%s: member %d (%s) %s (operand %s against %s, compared as float64) but the library selects %s on %s", text(op, false), j, clip(JSONText(m), 80), verb, clip(JSONText(x.v), 40), ltxt, a[op], docText)
			}
		}
	}
	tags["law:by-value"] = true
	rec.Viol, rec.Class = ctx.viol, ctx.cls
	// all numbers integral: the specification can be asked too
	if n64, perr := strconv.ParseInt(litText, 10, 64); perr == nil && !strings.Contains(ValSexp(doc), "(nonint") && (ctx.viol == "" || ctx.cls == "law" || ctx.cls == "by-value") {
		q := c09Cmp(r.Intn(6), c09P(p), c09Num(n64))
		if r.Chance(50) {
			q = c09Cmp(c09Mirror[q.Op], q.R, q.L)
		}
		rec.Q = []LeanQ{c09SpecQ(q, doc, ctx.outcome(c09Text(q)))}
		tags["float:integral(spec asked)"] = true
	}
	rec.Info["library_calls"] = ctx.calls
	if jn {
		tags["decode:jnum"] = true
	}
	if isObj {
		tags["container:object"] = true
	} else {
		tags["container:array"] = true
	}
	if exercised {
		cls := ""
		for _, k := range []string{"member:equal", "member:1ulp", "member:within-1e-13", "member:far"} {
			if tags[k] {
				cls += k[7:8]
			}
		}
		rec.Key = fmt.Sprintf("fl/%s/%s/%v%d/%s", litText, c10OperandKey(&Operand{Path: p}), isObj, n, cls)
	}
	for t := range tags {
		rec.Tags = append(rec.Tags, t)
	}
	sort.Strings(rec.Tags)
	return rec
}

// ---------- structured operands of path-vs-path == / != ----------

var c09DeepKeys = []string{"p", "q", "r", "s"}

func c09DeepScalar(r *Rng) interface{} {
	switch r.Weighted([]int{36, 34, 10, 8, 6, 6}) {
	case 0:
		return nil
	case 1:
		return float64(r.Range(1, 3))
	case 2:
		return r.Pick(c09Strs)
	case 3:
		return r.Chance(50)
	case 4:
		return map[string]interface{}{}
	}
	return []interface{}{}
}

func c09DeepObj(r *Rng, depth int) map[string]interface{} {
	n := r.Weighted([]int{6, 30, 40, 24})
	ks := append([]string(nil), c09DeepKeys...)
	r.Shuffle(len(ks), func(i, j int) { ks[i], ks[j] = ks[j], ks[i] })
	m := map[string]interface{}{}
	for _, k := range ks[:n] {
		switch {
		case depth < 2 && r.Chance(14):
			m[k] = c09DeepObj(r, depth+1)
		case depth < 2 && r.Chance(10):
			m[k] = []interface{}{c09DeepScalar(r), c09DeepObj(r, depth+1)}
		default:
			m[k] = c09DeepScalar(r)
		}
	}
	return m
}

// c09DeepVariant: a copy of v that differs in (at most) one place.
func c09DeepVariant(r *Rng, v interface{}) (interface{}, string) {
	v = DeepCopy(v)
	// the containers of v, in a deterministic order
	var nodes []c07Node
	c07Containers(v, "", &nodes)
	if len(nodes) == 0 {
		return v, "same"
	}
	n := nodes[r.Intn(len(nodes))]
	switch t := n.v.(type) {
	case map[string]interface{}:
		ks := sortedKeys(t)
		var free []string
		for _, k := range append(append([]string(nil), c09DeepKeys...), "t") {
			if _, in := t[k]; !in {
				free = append(free, k)
			}
		}
		nullKeys := []string{}
		for _, k := range ks {
			if t[k] == nil {
				nullKeys = append(nullKeys, k)
			}
		}
		switch op := r.Weighted([]int{14, 16, 12, 12, 14, 12, 10, 10}); {
		case op == 0:
			return v, "same"
		case op == 1 && len(ks) > 0 && len(free) > 0:
			// rename a key (prefer one holding null), the value under the new name is another one
			k := ks[r.Intn(len(ks))]
			if len(nullKeys) > 0 && r.Chance(70) {
				k = nullKeys[r.Intn(len(nullKeys))]
			}
			delete(t, k)
			t[free[r.Intn(len(free))]] = c09DeepScalar(r)
			return v, "key-renamed"
		case op == 2 && len(ks) > 0 && len(free) > 0:
			// rename a key, the new one holds null
			delete(t, ks[r.Intn(len(ks))])
			t[free[r.Intn(len(free))]] = nil
			return v, "key-renamed-null"
		case op == 3 && len(ks) > 0 && len(free) > 0:
			k := ks[r.Intn(len(ks))]
			x := t[k]
			delete(t, k)
			t[free[r.Intn(len(free))]] = x
			return v, "key-renamed-same-value"
		case op == 4 && len(ks) > 0:
			delete(t, ks[r.Intn(len(ks))])
			return v, "key-dropped"
		case op == 5 && len(free) > 0:
			if r.Chance(50) {
				t[free[r.Intn(len(free))]] = nil
			} else {
				t[free[r.Intn(len(free))]] = c09DeepScalar(r)
			}
			return v, "key-added"
		case op == 6 && len(ks) > 0:
			k := ks[r.Intn(len(ks))]
			if t[k] != nil && r.Chance(50) {
				t[k] = nil
			} else {
				t[k] = c09DeepScalar(r)
			}
			return v, "value-changed"
		case op == 7:
			for _, k := range ks {
				delete(t, k)
			}
			return v, "emptied"
		}
		return v, "same"
	case []interface{}:
		if len(t) == 0 {
			return v, "same"
		}
		i := r.Intn(len(t))
		if c04IsContainer(t[i]) {
			return v, "same"
		}
		t[i] = c09DeepScalar(r)
		return v, "element-changed"
	}
	return v, "same"
}

func c09DeepCase(r *Rng) Record {
	base := c09DeepObj(r, 0)
	wrapKind := r.Weighted([]int{50, 14, 14, 8, 8, 6})
	wrap := func(v interface{}) interface{} {
		switch wrapKind {
		case 1:
			return []interface{}{v}
		case 2:
			return map[string]interface{}{"k": v}
		case 3:
			return []interface{}{float64(0), v}
		case 4:
			return map[string]interface{}{"k": []interface{}{v}}
		case 5:
			return []interface{}{[]interface{}{v}, nil}
		}
		return v
	}
	tags := c09Tagger{"mode:deep": true, "wrap:" + []string{"none", "[v]", "{k:v}", "[0,v]", "{k:[v]}", "[[v],null]"}[wrapKind]: true}
	variant := func() interface{} {
		v, how := c09DeepVariant(r, base)
		tags["variant:"+how] = true
		return wrap(v)
	}
	n := r.Range(2, 6)
	ms := make([]interface{}, n)
	for j := range ms {
		m := map[string]interface{}{"id": float64(10 + j)}
		if !r.Chance(8) {
			m["a"] = variant()
		}
		if r.Chance(30) {
			m["b"] = variant()
		}
		ms[j] = m
	}
	isObj := r.Chance(40)
	var container interface{} = ms
	var keys []string
	if isObj {
		pool := []string{"a", "b", "c", "d", "e", "f", "aa", "B", "é", "b c"}
		r.Shuffle(len(pool), func(i, j int) { pool[i], pool[j] = pool[j], pool[i] })
		keys = append([]string(nil), pool[:n]...)
		sort.Strings(keys)
		m := map[string]interface{}{}
		for j, k := range keys {
			m[k] = ms[j]
		}
		container = m
	}
	root := map[string]interface{}{"m": container, "v": wrap(DeepCopy(base)), "w": variant()}
	if r.Chance(25) {
		root["v"] = variant()
	}
	jn := r.Chance(30)
	var doc interface{} = root
	if jn {
		doc = ToJnum(root)
		tags["decode:jnum"] = true
	}
	cur := func() *Path {
		if r.Chance(78) {
			return c09Cur(c09Child("a"))
		}
		return c09Cur(c09Child("b"))
	}
	rootP := func() *Path {
		switch r.Weighted([]int{50, 28, 16, 6}) {
		case 0:
			return c09Root(c09Child("v"))
		case 1:
			return c09Root(c09Child("w"))
		case 2:
			j := r.Intn(n)
			if isObj {
				return c09Root(c09Child("m"), &Step{Kind: StChild, Key: keys[j], Bracket: true}, c09Child("a"))
			}
			return c09Root(c09Child("m"), c09Idx(j), c09Child("a"))
		}
		return c09Root(c09Child("nope"))
	}
	// the same inner step on both sides sometimes: the operands are then the unwrapped values
	inner := func(p *Path) *Path {
		switch wrapKind {
		case 1:
			p.Steps = append(p.Steps, c09Idx(0))
		case 2:
			p.Steps = append(p.Steps, c09Child("k"))
		case 3:
			p.Steps = append(p.Steps, c09Idx(1))
		}
		return p
	}
	var l, rr *Path
	switch r.Weighted([]int{38, 30, 32}) {
	case 0:
		l, rr = cur(), rootP()
	case 1:
		l, rr = rootP(), cur()
	default:
		l, rr = rootP(), rootP()
		if Render(l, nil) == Render(rr, nil) {
			rr = c09Root(c09Child("w"))
		}
	}
	if wrapKind >= 1 && wrapKind <= 3 && r.Chance(30) {
		l, rr = inner(l), inner(rr)
	}
	q := c09Cmp(r.Intn(2), c09P(l), c09P(rr))
	cfg := Config(false, nil)
	ctx := &c09Ctx{cfg: &cfg, parsed: map[string]Parsed{}}
	ctx.setDoc(doc.(map[string]interface{}))
	rec := Record{Text: c09Text(q), Doc: JSONText(doc), Info: map[string]interface{}{"mode": "deep"}}
	ctx.leafLaws(q, tags)
	got := ctx.sel(q)
	// reflect.DeepEqual of the operand values, member by member
	msd, _ := c10Members(doc)
	exercised := false
	for _, qq := range []*Query{q, c09Cmp(c09Mirror[q.Op], c09CloneOperand(q.R), c09CloneOperand(q.L))} {
		s := ctx.sel(qq)
		for j, m := range msd {
			lv, rv := c10Eval(qq.L.Path, doc, m), c10Eval(qq.R.Path, doc, m)
			if !lv.ok && !rv.ok {
				tags["both-absent(spec decides)"] = true
				continue
			}
			eq := lv.ok && rv.ok && reflect.DeepEqual(lv.v, rv.v)
			if lv.ok && rv.ok {
				exercised = true
				if eq {
					tags["operands:deep-equal"] = true
				} else {
					tags["operands:deep-unequal"] = true
				}
			}
			want := eq
			if qq.Op == c09NE {
				want = !eq
			}
			if want != s[j] {
				verb := "must not be selected"
				if want {
					verb = "must be selected"
				}
				lt, rt := "absent", "absent"
				if lv.ok {
					lt = clip(JSONText(lv.v), 120)
				}
				if rv.ok {
					rt = clip(JSONText(rv.v), 120)
				}
				ctx.fail("deep-equal", "%s: member %d %s (left operand %s, right operand %s, reflect.DeepEqual=%v) but the library selects %s on %s", c09Text(qq), j, verb, lt, rt, eq, s, JSONText(doc))
			}
		}
	}
	tags["law:reflect.DeepEqual"] = true
	tags["operands:"+c09OperandKind(q.L)+"|"+c09OperandKind(q.R)] = true
	tags["leaf:cmp-"+OpNames[q.Op]] = true
	if isObj {
		tags["container:object"] = true
	} else {
		tags["container:array"] = true
	}
	cnt := 0
	for _, x := range got {
		if x {
			cnt++
		}
	}
	cls := "some"
	if cnt == 0 {
		cls = "none"
	} else if cnt == n {
		cls = "all"
	}
	tags["selects:"+cls] = true
	rec.Info["selected"] = got.String()
	rec.Info["library_calls"] = ctx.calls
	rec.Viol, rec.Class = ctx.viol, ctx.cls
	if ctx.viol == "" || ctx.cls == "law" || ctx.cls == "deep-equal" {
		rec.Q = []LeanQ{c09SpecQ(q, doc, ctx.outcome(c09Text(q)))}
	}
	if exercised {
		rec.Key = fmt.Sprintf("deep/%s/%s %s/w%d/%v%d/%s", OpNames[q.Op], c10OperandKey(q.L), c10OperandKey(q.R), wrapKind, isObj, n, cls)
	}
	for t := range tags {
		rec.Tags = append(rec.Tags, t)
	}
	sort.Strings(rec.Tags)
	return rec
}

// ---------- class reentrant: operands call a function that evaluates the same parsed filter again ----------
//
// One case in ten. A random-block case whose `@`- and `$`-operand paths carry the user filter function
// `reent` (b7Reent): every call evaluates the parsed function that is being evaluated once more, on
// another document of the same shape (other field values, sometimes another member order; a second
// level in 30% of the cases), and returns its argument. All the laws must hold as they do without the
// function, and the whole expression is put to jpv-spec with `id` in place of `reent`.
func c09ReentCase(r *Rng) Record {
	d := c09GenDoc(r)
	for try := 0; try < 3 && d.n < 2; try++ {
		d = c09GenDoc(r)
	}
	depth := r.Weighted([]int{35, 40, 25})
	jn := r.Chance(30)
	var doc interface{} = d.doc
	re := &b7Reent{}
	levels := 1 + r.Weighted([]int{70, 30})
	var altTexts []string
	for l := 0; l < levels; l++ {
		var alt interface{} = b7AltDoc(r, d.doc, []int{40, 70, 100}[r.Intn(3)])
		if jn {
			alt = ToJnum(alt)
		}
		re.Docs = append(re.Docs, alt)
		altTexts = append(altTexts, JSONText(alt))
	}
	if jn {
		doc = ToJnum(d.doc)
	}
	cfg := Config(false, nil)
	b7WithReent(&cfg, re)
	ctx := &c09Ctx{cfg: &cfg, parsed: map[string]Parsed{}, reent: re}
	ctx.setDoc(doc.(map[string]interface{}))
	q := c09Expr(r, d, depth, ctx)
	nc, nr := 0, 0
	for try := 0; try < 4 && nc+nr == 0; try++ {
		nc, nr, _ = b7InjectReent(r, c09FilterPath(q), 75)
	}
	if nc+nr == 0 {
		// no operand path to carry the function (literals, regex tests, value-group existence tests only)
		l := c09Cmp(r.Weighted([]int{40, 20, 10, 10, 10, 10}), c09P(c09Cur(c09Child("a"))), c09Num(c09Nums[r.Intn(len(c09Nums))]))
		l.L.Path.Fns = []Fn{{Name: b7ReentName}}
		q = &Query{Kind: QAnd, A: q, B: l}
		if r.Chance(50) {
			q.Kind = QOr
		}
		nc = 1
	}
	rec := Record{Text: c09Text(q), Doc: JSONText(doc), Info: map[string]interface{}{"inner_documents": altTexts,
		"reentrant": "the filter function `reent` evaluates the same parsed function on inner_documents[depth] and returns its argument (jpv-spec is asked with `id`)"}}
	if ctx.viol != "" {
		rec.Viol, rec.Class = ctx.viol, ctx.cls
		return rec
	}
	ctx.memo = map[string]c09Sel{}
	tags := c09Tagger{"mode:reentrant": true, fmt.Sprintf("reentrant:levels-%d", levels): true}
	if nc > 0 {
		tags["reentrant:in-@-operand"] = true
	}
	if nr > 0 {
		tags["reentrant:in-$-operand"] = true
	}
	got := ctx.treeLaws(q, tags, true)
	c09LeafTags(q, tags)
	tags[fmt.Sprintf("members:%d", d.n)] = true
	if jn {
		tags["decode:jnum"] = true
	}
	if re.Inner > 0 {
		tags["reentrant:inner-evaluation-ran"] = true
	}
	cnt := 0
	for _, x := range got {
		if x {
			cnt++
		}
	}
	cls := "some"
	if cnt == 0 {
		cls = "none"
	} else if cnt == d.n {
		cls = "all"
	}
	tags["selects:"+cls] = true
	rec.Info["selected"] = got.String()
	rec.Viol, rec.Class = ctx.viol, ctx.cls
	if re.Panic != "" && rec.Viol == "" {
		rec.Viol, rec.Class = "an inner evaluation of the same parsed function panicked: "+clip(re.Panic, 600), "abnormal"
	}
	if ctx.viol == "" || ctx.cls == "law" {
		lq := c09SpecQ(q, doc, ctx.outcome(c09Text(q)))
		lq.Line = b7AsID(lq.Line)
		rec.Q = []LeanQ{lq}
	}
	if d.n > 0 && re.Inner > 0 {
		rec.Key = fmt.Sprintf("reent/%s/%d/%s", queryShape(q), d.n, cls)
	}
	for t := range tags {
		rec.Tags = append(rec.Tags, t)
	}
	sort.Strings(rec.Tags)
	return rec
}
