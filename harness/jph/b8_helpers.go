package jph

import (
	"fmt"
	"sort"
	"strconv"
	"strings"
	"sync"
	"unicode/utf8"
)

// Helpers added for C07 (long names with common prefixes), C08 (shared sub-containers),
// C11 (one parsed function on different lengths, overlapping calls), C17 (invalid UTF-8 in
// every position class) and C18 (names that need a backslash in dot notation).

// ---------- C07: long member names with a common prefix ----------

// c07LongFamilies: in each family every two names share their first 7, 8, 9 or more BYTES
// (so an order computed from a fixed-size prefix, a hash of a prefix, or a comparison that
// stops early shows); names of equal length, one name a prefix of another, the difference
// in the 8th / 9th / 10th byte, upper / lower case and digits after the prefix, and
// multi-byte characters that straddle byte 8 (é = C3 A9, è = C3 A8 share their first byte;
// あ = E3 81 82, い = E3 81 84 and U+1F600 / U+1F601 differ in their last byte only).
var c07LongFamilies = [][]string{
	{"created_at", "created_by", "created_on", "created_", "created_a", "created", "created_At", "created_at_utc"},
	{"property_z", "property_aa", "property_", "property_a", "property_b0", "property", "property_Z", "property_10", "property_9"},
	{"abcdefg", "abcdefgh", "abcdefghi", "abcdefgx", "abcdefgha", "abcdefghj", "abcdefghij", "abcdefgh0", "abcdefgh~", "abcdefgh-"},
	{"abcdefgé", "abcdefgè", "abcdefgéa", "abcdefgéb", "abcdefgèz", "abcdefgあ", "abcdefgい", "abcdefgあx", "abcdefg"},
	{"abcdefé", "abcdeféa", "abcdeféb", "abcdeféé", "abcdeféè", "abcdeféab", "abcdeféba"},
	{"abcde\U0001F600", "abcde\U0001F601", "abcdef\U0001F600", "abcdef\U0001F601", "abcdefg\U0001F600", "abcdefg\U0001F601", "abcdefg\U0001F600a"},
	{"0123456789", "01234567", "012345678", "0123456780", "01234567a", "01234567A", "0123456789a", "012345670", "01234567_"},
	{"あああa", "あああb", "あああ", "ああい", "ああああ", "あああい"},
	{"a_very_long_member_name_1", "a_very_long_member_name_2", "a_very_long_member_name_10", "a_very_long_member_name", "a_very_long_member_nam", "a_very_long_member_name_"},
}

// c07LongInto replaces 2..4 entries of ks by different names of one family (sometimes one
// more pair from a second family).
func c07LongInto(ks []string, r *Rng) {
	pos := make([]int, len(ks))
	for i := range pos {
		pos[i] = i
	}
	r.Shuffle(len(pos), func(i, j int) { pos[i], pos[j] = pos[j], pos[i] })
	at := 0
	fill := func(fam []string, m int) {
		idx := make([]int, len(fam))
		for i := range idx {
			idx[i] = i
		}
		r.Shuffle(len(idx), func(i, j int) { idx[i], idx[j] = idx[j], idx[i] })
		for i := 0; i < m && i < len(fam) && at < len(pos); i++ {
			ks[pos[at]] = fam[idx[i]]
			at++
		}
	}
	f1 := r.Intn(len(c07LongFamilies))
	m := r.Range(2, 4)
	if m > len(ks) {
		m = len(ks)
	}
	fill(c07LongFamilies[f1], m)
	if len(ks)-at >= 2 && r.Chance(25) {
		f2 := r.Intn(len(c07LongFamilies))
		// never two families with a common name (a key set has no duplicates)
		common := f2 == f1
		for _, x := range c07LongFamilies[f1] {
			for _, y := range c07LongFamilies[f2] {
				common = common || x == y
			}
		}
		if !common {
			fill(c07LongFamilies[f2], 2)
		}
	}
}

// c07LongFamilyOf: the family one of the keys belongs to (nil when none does).
func c07LongFamilyOf(ks []string) []string {
	for _, fam := range c07LongFamilies {
		for _, f := range fam {
			for _, k := range ks {
				if k == f && len(k) >= 8 {
					return fam
				}
			}
		}
	}
	return nil
}

func c07CommonPrefix(a, b string) int {
	n := 0
	for n < len(a) && n < len(b) && a[n] == b[n] {
		n++
	}
	return n
}

// c07PrefixClasses: what the (sorted) key set of one object offers in long common prefixes.
func c07PrefixClasses(ks []string) []string {
	var out []string
	add := func(s string) {
		for _, o := range out {
			if o == s {
				return
			}
		}
		out = append(out, s)
	}
	for i := 0; i+1 < len(ks); i++ {
		a, b := ks[i], ks[i+1]
		l := c07CommonPrefix(a, b)
		if l < 7 {
			continue
		}
		switch {
		case l == 7:
			add("keyset:common-prefix=7-bytes")
		case l == 8:
			add("keyset:common-prefix=8-bytes")
		case l == 9:
			add("keyset:common-prefix=9-bytes")
		default:
			add("keyset:common-prefix>=10-bytes")
		}
		if l < 8 {
			continue
		}
		add("keyset:long-prefix-pair(>=8 bytes)")
		if l == len(a) || l == len(b) {
			add("keyset:long-prefix-pair,one-a-prefix-of-the-other")
		}
		if len(a) == len(b) {
			add("keyset:long-prefix-pair,equal-length")
		}
		for _, k := range []string{a, b} {
			for p, rn := range k {
				if w := utf8.RuneLen(rn); p < 8 && p+w > 8 {
					add("keyset:long-prefix-pair,multi-byte-straddles-byte-8")
				}
			}
		}
	}
	return out
}

// ---------- C08: shared sub-containers ----------

type b8Place struct {
	v         interface{}
	loc       string
	parent    int         // index of the parent place, -1 for the root
	seg       interface{} // string key or int index inside the parent
	ancestors []int       // indices of the places above, root first
}

func b8Places(v interface{}, loc string, parent int, seg interface{}, anc []int, out *[]b8Place) {
	if !c04IsContainer(v) {
		return
	}
	me := len(*out)
	*out = append(*out, b8Place{v: v, loc: loc, parent: parent, seg: seg, ancestors: append([]int{}, anc...)})
	anc2 := append(append([]int{}, anc...), me)
	switch t := v.(type) {
	case map[string]interface{}:
		for _, k := range sortedKeys(t) {
			b8Places(t[k], c07Loc(loc, k), me, k, anc2, out)
		}
	case []interface{}:
		for i, x := range t {
			b8Places(x, c07Loc(loc, i), me, i, anc2, out)
		}
	}
}

func b8SameObject(a, b interface{}) bool {
	ia, oka := c07Ident(a)
	ib, okb := c07Ident(b)
	return oka && okb && ia == ib
}

// ShareSubtrees makes 1..3 non-empty containers of the document occur at one more place each:
// the SAME Go map / slice value (not a copy) becomes an additional member / element of another
// container B (60%), or replaces an existing member / element of B (40%). B is never the
// shared container itself nor a place inside (any occurrence of) it, so the document stays a
// finite tree as a value — printed, it simply shows the subtree twice — and never a cycle.
// An array B that receives an additional element is rebuilt (append makes a new slice) and
// put back into its parent; hence the (possibly new) root is returned. The descriptions name
// the places as of the moment of each operation. Only for read-only uses of the document.
func ShareSubtrees(doc interface{}, r *Rng) (interface{}, []string) {
	var desc []string
	want := r.Weighted([]int{0, 60, 30, 10})
	for try := 0; try < 16 && len(desc) < want; try++ {
		var ps []b8Place
		b8Places(doc, "$", -1, nil, nil, &ps)
		if len(ps) < 2 {
			break
		}
		a := ps[1+r.Intn(len(ps)-1)]
		if len(members(a.v)) == 0 {
			continue
		}
		bi := r.Intn(len(ps))
		b := ps[bi]
		// no cycle: B's object is not A nor below A, and no place above B (or B) is A's object
		if c07Reaches(a.v, b.v) {
			continue
		}
		bad := b8SameObject(a.v, b.v)
		for _, x := range b.ancestors {
			if b8SameObject(ps[x].v, a.v) {
				bad = true
			}
		}
		if bad {
			continue
		}
		add := r.Chance(60)
		switch t := b.v.(type) {
		case map[string]interface{}:
			ks := sortedKeys(t)
			if add || len(ks) == 0 {
				var free []string
				for _, k := range append(append([]string{}, BaseKeys...), "e", "f", "aa", "A", "a b", "_") {
					if _, in := t[k]; !in {
						free = append(free, k)
					}
				}
				if len(free) == 0 {
					continue
				}
				k := free[r.Intn(len(free))]
				t[k] = a.v
				desc = append(desc, fmt.Sprintf("the container at %s is also the new member %s", a.loc, c07Loc(b.loc, k)))
				continue
			}
			k := ks[r.Intn(len(ks))]
			if c04IsContainer(t[k]) && c07Reaches(t[k], a.v) {
				continue // would only move A
			}
			t[k] = a.v
			desc = append(desc, fmt.Sprintf("the container at %s is also the member %s", a.loc, c07Loc(b.loc, k)))
		case []interface{}:
			if add || len(t) == 0 {
				// the rebuilt array is stored into the parent OBJECT (all its occurrences): A must not contain that either
				if b.parent >= 0 && c07Reaches(a.v, ps[b.parent].v) {
					continue
				}
				nb := make([]interface{}, 0, len(t)+1)
				at := r.Intn(len(t) + 1)
				nb = append(nb, t[:at]...)
				nb = append(nb, a.v)
				nb = append(nb, t[at:]...)
				// A's own place may be inside B: its location shifts, the description says where it is now
				if b.parent < 0 {
					doc = nb
				} else {
					switch pt := ps[b.parent].v.(type) {
					case map[string]interface{}:
						pt[b.seg.(string)] = nb
					case []interface{}:
						pt[b.seg.(int)] = nb
					}
				}
				desc = append(desc, fmt.Sprintf("the container at %s (before the insertion) is also the new element %s", a.loc, c07Loc(b.loc, at)))
				continue
			}
			i := r.Intn(len(t))
			if c04IsContainer(t[i]) && c07Reaches(t[i], a.v) {
				continue
			}
			t[i] = a.v
			desc = append(desc, fmt.Sprintf("the container at %s is also the element %s", a.loc, c07Loc(b.loc, i)))
		}
	}
	return doc, desc
}

// b8TreeSize: number of nodes of the document as a tree, give up beyond limit (a cycle or a
// blow-up would show here).
func b8TreeSize(v interface{}, limit int) int {
	n := 1
	for _, m := range members(v) {
		if n > limit {
			return n
		}
		n += b8TreeSize(m, limit-n)
	}
	return n
}

func b8SortedTags(m map[string]bool) []string {
	out := make([]string, 0, len(m))
	for t := range m {
		out = append(out, t)
	}
	sort.Strings(out)
	return out
}

// ---------- C11: one parsed function, arrays of different lengths, overlapping calls ----------

// c11Overlap parses `$[subs]` ONE time; then (1) sequentially alternates between the lengths
// (a, b, a, b, …: an answer remembered for the previous length must not be given for this one),
// (2) starts one goroutine per length which all call the one function `iters` times on their own
// array at the same time. Every call is compared with the selection computed beforehand for its
// length from the Python slice semantics (c11SubIndices). Returns the number of calls made.
func (b *c11Bundle) overlap(subs []Sub, lens []int, iters int, r *Rng) int {
	p := &Path{Head: HeadRoot, Steps: []*Step{{Kind: StUnion, Subs: subs}}}
	text := Render(p, r)
	f, po := SafeParse(text, nil)
	if f == nil {
		b.fail(text, nil, "abnormal", strings.TrimSpace(text)+": Parse fails: "+clip(po.Detail(), 600))
		return 0
	}
	stepText := p.Steps[0].Text
	docs := make([][]interface{}, len(lens))
	wants := make([][]int64, len(lens))
	for k, l := range lens {
		docs[k] = c11Doc(l)
		for _, s := range subs {
			wants[k] = append(wants[k], c11SubIndices(s, int64(l))...)
		}
	}
	// check: "" when the outcome is the expected one for length k
	check := func(k int, out Outcome) (string, string) {
		switch {
		case out.OK:
			got := make([]int64, len(out.Vals))
			notNum := false
			for i, v := range out.Vals {
				fl, ok := v.(float64)
				if !ok {
					notNum = true
				}
				got[i] = int64(fl)
			}
			if notNum || !c11EqInts(got, wants[k]) {
				return "wrong-selection", fmt.Sprintf("selects %s, a Python slice selects %s", c11Ints(got), c11Ints(wants[k]))
			}
		case out.ErrKind == "member":
			if len(wants[k]) > 0 {
				return "wrong-selection", fmt.Sprintf("fails with %q, a Python slice selects %s", out.Msg, c11Ints(wants[k]))
			}
			if out.ErrText != stepText {
				return "wrong-error", fmt.Sprintf("the error names %q instead of %q", out.ErrText, stepText)
			}
		default:
			return "abnormal", clip(out.Detail(), 400)
		}
		return "", ""
	}
	calls := 0
	lensText := make([]string, len(lens))
	for k, l := range lens {
		lensText[k] = strconv.Itoa(l)
	}
	// (1) sequential, alternating
	for n := 0; n < 3*len(lens); n++ {
		k := n % len(lens)
		if n >= len(lens) && r != nil {
			k = r.Intn(len(lens))
		}
		calls++
		if cls, bad := check(k, SafeCall(f, docs[k])); bad != "" {
			b.rec.Info["overlap"] = map[string]interface{}{"path": text, "lengths": strings.Join(lensText, ","), "phase": "sequential, alternating lengths"}
			if cls == "wrong-selection" {
				cls = "parsed-once"
			}
			b.fail(text, docs[k], cls, fmt.Sprintf("%s parsed ONCE and called alternately on the lengths %s: a call on [0..%d) %s", strings.TrimSpace(text), strings.Join(lensText, ","), lens[k], bad))
			b.tags["once:differs"] = true
			return calls
		}
	}
	// (2) overlapping
	type fnd struct {
		k, iter  int
		cls, bad string
	}
	found := make([]*fnd, len(lens))
	start := make(chan struct{})
	var wg sync.WaitGroup
	for k := range lens {
		wg.Add(1)
		go func(k int) {
			defer wg.Done()
			<-start
			for n := 0; n < iters; n++ {
				if cls, bad := check(k, SafeCall(f, docs[k])); bad != "" {
					found[k] = &fnd{k, n, cls, bad}
					return
				}
			}
		}(k)
	}
	close(start)
	wg.Wait()
	calls += iters * len(lens)
	for _, x := range found {
		if x == nil {
			continue
		}
		b.rec.Info["overlap"] = map[string]interface{}{"path": text, "lengths": strings.Join(lensText, ","), "goroutines": len(lens), "calls_per_goroutine": iters,
			"phase":  "overlapping calls",
			"replay": "Parse the path once; start one goroutine per length, each calling the ONE function on [0..len) in a loop and comparing every result with the Python slice of its own array"}
		cls := x.cls
		if cls == "wrong-selection" {
			cls = "parsed-once-overlapping"
		}
		b.fail(text, docs[x.k], cls, fmt.Sprintf("%s parsed ONCE, %d goroutines calling the function at the same time on the lengths %s: call %d on [0..%d) %s", strings.TrimSpace(text), len(lens), strings.Join(lensText, ","), x.iter, lens[x.k], x.bad))
		b.tags["overlap:differs"] = true
		break
	}
	return calls
}

// ---------- C17: invalid UTF-8 in every position class ----------

// c17BadBytes: lone continuation bytes, bytes that never occur, truncated 2- / 3- / 4-byte
// sequences, an overlong form, an encoded surrogate. Go's []rune(path) (what the generated
// parser works on) turns EVERY byte of these into one U+FFFD.
var c17BadBytes = []string{"\x80", "\xbf", "\xff", "\xfe", "\xc3", "\xe2\x82", "\xf0\x9f\x98", "\xc0\xaf", "\xed\xa0\x80", "\xf5", "\x80\x80"}

// c17BadTemplates: `%` marks where the invalid bytes go; the class names the position.
var c17BadTemplates = []struct{ class, t string }{
	{"regex", "$[?(@.a=~/%/)]"}, {"regex", "$[?(@.a =~ /ab%c/)]"}, {"regex", "$..[?(@=~/%x%/)].b"}, {"regex", "$[?(@.a=~/a/ && @.b=~/%9/)]"},
	{"regex", "$[?(@=~/%/)]"}, {"regex", "$.a[?(@.b=~/x%/ || @.c)]"}, {"regex", "[?(@.a=~/%y/)]"}, {"regex", "$[?($.a=~/%/)]"},
	{"regex", "$[?(@.a=~/%/)].twice()"}, {"regex", "$[?(!(@.a=~/%Z/))]"},
	{"single-quoted", "$['%']"}, {"single-quoted", "$['a%b','c']"}, {"single-quoted", "$..['%a']"}, {"single-quoted", "$['a']['b%']"}, {"single-quoted", "$['\\%']"},
	{"double-quoted", `$["%"]`}, {"double-quoted", `$["a%"]["b"]`}, {"double-quoted", `$["a","%"]`}, {"double-quoted", `$["\%"]`},
	{"dot-name", "$.%"}, {"dot-name", "$.a%b.c"}, {"dot-name", "$..%"}, {"dot-name", "%"}, {"dot-name", "$.a.%x"}, {"dot-name", `$.a\%`}, {"dot-name", "$.a%()"},
	{"dot-name", "$.%.b[0]"}, {"dot-name", "a%.*"},
	{"literal", "$[?(@.a=='%')]"}, {"literal", `$[?(@.a=="%b")]`}, {"literal", "$[?('%'==@.a)]"}, {"literal", "$[?(@.a!='x%\\'y')]"},
	{"between", "$%.a"}, {"between", "$.a%[0]"}, {"between", "$[%0]"}, {"between", "$[0%]"}, {"between", "$[0:%1]"}, {"between", "$[0,%1]"}, {"between", "$[?(%@.a)]"},
	{"between", "$[?(@.a%==1)]"}, {"between", "$[?(@.a==%1)]"}, {"between", "$[?(@.a==1%)]"}, {"between", "$[?(@.a==1)%]"}, {"between", "$[?(@.a=~%/a/)]"},
	{"between", "$[?(@.a=~/a/%)]"}, {"between", "%$.a"}, {"between", "$.a%"}, {"between", "$.a %"}, {"between", "$[(%)]"}, {"between", "$[?(@.a=%=1)]"},
	{"between", "$[*]%"}, {"between", "$..%[0]"}, {"between", "$.%.%"}, {"between", "$['a'%]"}, {"between", "$[%'a']"}, {"between", "$[?(@.a && %@.b)]"},
	{"function", "$.a.tw%ice()"}, {"function", "$.a.%()"}, {"function", "$.a.twice%()"}, {"function", "$.a.twice(%)"}, {"function", "$.a.twice()%.b"},
	{"number", "$[?(@.a==1%0)]"}, {"number", "$[1%0]"}, {"number", "$[?(@.a>%.5)]"},
}

func c17BadFill(r *Rng) string {
	s := r.Pick(c17BadBytes)
	if r.Chance(25) {
		s += r.Pick(c17BadBytes)
	}
	return s
}

// c17GenBadUTF8: a path with invalid UTF-8 bytes; most have no valid multi-byte character
// anywhere (then bytes and characters count alike), some have one before or after.
func c17GenBadUTF8(r *Rng) (string, string) {
	var s, class string
	if r.Chance(75) {
		t := c17BadTemplates[r.Intn(len(c17BadTemplates))]
		class = t.class
		var b strings.Builder
		for _, c := range []byte(t.t) {
			if c == '%' {
				b.WriteString(c17BadFill(r))
			} else {
				b.WriteByte(c)
			}
		}
		s = b.String()
	} else {
		// a generated valid path with invalid bytes inserted between its characters
		class = "inserted"
		v, _, _ := c02GenValid(r)
		rs := []rune(v)
		n := r.Range(1, 3)
		var b strings.Builder
		at := map[int]bool{}
		for k := 0; k < n; k++ {
			at[r.Intn(len(rs)+1)] = true
		}
		for i, c := range rs {
			if at[i] {
				b.WriteString(c17BadFill(r))
			}
			b.WriteRune(c)
		}
		if at[len(rs)] {
			b.WriteString(c17BadFill(r))
		}
		s = b.String()
	}
	if r.Chance(15) {
		// a valid multi-byte character as well: character and byte offsets differ
		if r.Chance(50) {
			s = strings.Replace(s, "a", "é", 1)
		} else {
			s += r.Pick([]string{".é", " ", "あ"})
		}
	}
	return s, class
}

// c17RuneSuffix: the bytes of s from its pos-th character on, counting as Go's range / []rune(s)
// do (every invalid byte is one character); ok=false when s has fewer characters.
func c17RuneSuffix(s string, pos int) (string, bool) {
	n := 0
	for idx := range s {
		if n == pos {
			return s[idx:], true
		}
		n++
	}
	if n == pos {
		return "", true
	}
	return "", false
}
