package jph

import (
	"fmt"
	"reflect"
	"regexp"
	"strings"
	"sync"
	"time"

	"github.com/AsaiYusuke/jsonpath"
)

// Round-10 probes (b16). The seeded changes of round 10 keep evaluation state in places that are shared by
// several evaluations (fields of the nodes of a parsed function, slots of the pooled container, parser fields
// that survive a failed Parse) or react to a fault at one particular point. Four model-free probes:
//
//   (1) OVERLAP PROBE (B16Overlap): one parsed function, two documents. The harness filter function `gate`
//       is the identity; at its K-th call during the evaluation of document A it makes the SAME parsed
//       function evaluate document B to completion - nested in the same goroutine, or (variant Conc) A runs in
//       a goroutine of its own and blocks inside `gate` while the main goroutine evaluates B (channels; a
//       timeout is a finding) - and then lets A go on. Oracle: the outcome of A is the outcome of a FRESH
//       Parse + call on A alone with a pass-through `gate` (values; error type and text; in accessor mode the
//       Get of every accessor, and Set(sentinel i) through all of them leaves the document exactly as the same
//       Sets through the accessors of the fresh evaluation do, the other document untouched); B likewise.
//   (2) HISTORY PROBE (B16History): follow-up evaluations answered in a quiet state; then a fault - a user
//       function that panics / returns an error at exactly its K-th call (K >= 2), or a Parse that fails at a
//       chosen point (unknown function inside a filter operand / inside a nested filter / after an aggregate,
//       invalid regex) - then the faulted function on OTHER documents (only their members may come back) and
//       the follow-ups again, parsed before and after the fault: same answers; accessor mode still yields
//       Accessors whose Get is the plain-mode value; accessors HELD since the quiet phase still read and write
//       their own location after all the other accessor-mode retrievals.
//       b16CallParity: a function that is faulty from / at its K-th call sees the same calls in accessor mode
//       (Get of every accessor called twice) as in plain mode and Get never panics.
//   (3) LITERAL-BLANKS PROBE (b16LiteralBlanks): histories of Parses WITHOUT a Config of filters whose regex /
//       string literal differs from an earlier one only in a blank next to `, ( ) [ ] :` INSIDE the literal
//       (significant), each in spellings that differ in blanks OUTSIDE (insignificant). Oracle: Go's regexp /
//       string equality on the members, i.e. what a fresh process answers.
//   (4) LONG-REPEAT PROBE (b16LongRepeat): one path of more than 2100 PEG tokens (a union of 400..700 indexes
//       / names) parsed two or three times in a row, then once more after another path; every returned
//       function is called: identical behaviour, and the values the index list denotes.

const b16GateName = "gate"
const b16PanicMsg = "b16: user function panics on purpose"

var errB16 = fmt.Errorf("b16: user function fails on purpose")

// b16Gate: the harness filter function. Identity; while armed it counts its calls and at call K (once) runs
// action (mode 0), panics (mode 1) or returns an error (mode 2). from: modes 1/2 apply to every call >= K.
type b16Gate struct {
	mu     sync.Mutex
	armed  bool
	k      int
	mode   int
	from   bool
	calls  int
	fired  bool
	action func()
	seen   []string
}

func (g *b16Gate) Fn(v interface{}) (interface{}, error) {
	g.mu.Lock()
	fire := false
	if g.armed && (!g.fired || g.from) {
		g.calls++
		g.seen = append(g.seen, ValSexp(v))
		if g.calls == g.k || (g.from && g.calls > g.k && g.k > 0) {
			g.fired = true
			fire = true
		}
	} else if g.armed {
		g.seen = append(g.seen, ValSexp(v))
	}
	mode, action := g.mode, g.action
	g.mu.Unlock()
	if fire {
		switch mode {
		case 0:
			if action != nil {
				action()
			}
		case 1:
			panic(b16PanicMsg)
		case 2:
			return nil, errB16
		}
	}
	return v, nil
}

// b16Config: the registry plus `gate`.
func b16Config(acc bool, g *b16Gate) jsonpath.Config {
	cfg := Config(acc, nil)
	cfg.SetFilterFunction(b16GateName, g.Fn)
	return cfg
}

type b16Report struct {
	Viol   string
	Class  string
	Tags   []string
	Info   map[string]interface{}
	Poison bool
	Key    string
}

func (rp *b16Report) fail(class, format string, args ...interface{}) {
	if rp.Viol == "" {
		rp.Viol, rp.Class = fmt.Sprintf(format, args...), class
	}
}

// Into copies a report into a record.
func (rp *b16Report) Into(rec *Record) {
	rec.Tags = append(rec.Tags, rp.Tags...)
	if rec.Info == nil {
		rec.Info = map[string]interface{}{}
	}
	for k, v := range rp.Info {
		rec.Info[k] = v
	}
	if rec.Viol == "" && rp.Viol != "" {
		rec.Viol, rec.Class = rp.Viol, rp.Class
	}
	if rp.Poison {
		rec.Poison = true
	}
	if rec.Key == "" {
		rec.Key = rp.Key
	}
}

// b16Canon: values (accessors as their Get value and Set nil-ness), or error type and full text, or the panic.
func b16Canon(o Outcome) string {
	if o.OK {
		parts := make([]string, len(o.Vals))
		for i, v := range o.Vals {
			if a, ok := v.(jsonpath.Accessor); ok {
				g, gp := "<nil Get>", ""
				if a.Get != nil {
					var gv interface{}
					gv, gp = c12Get(a)
					g = ValSexp(gv)
				}
				if gp != "" {
					g = gp
				}
				parts[i] = "(acc " + g + pick(a.Set == nil, " set=nil", " set").(string) + ")"
			} else {
				parts[i] = ValSexp(v)
			}
		}
		return "ok [" + strings.Join(parts, " ") + "]"
	}
	if o.ErrKind == "panic" {
		return "panic " + firstLines(o.Panic, 1)
	}
	return "err " + o.ErrKind + " | " + o.Msg
}

// b16SameTree: structural equality, opaque leaves by identity (c20Same).
func b16SameTree(a, b interface{}) bool {
	switch ta := a.(type) {
	case []interface{}:
		tb, ok := b.([]interface{})
		if !ok || len(ta) != len(tb) {
			return false
		}
		for i := range ta {
			if !b16SameTree(ta[i], tb[i]) {
				return false
			}
		}
		return true
	case map[string]interface{}:
		tb, ok := b.(map[string]interface{})
		if !ok || len(ta) != len(tb) {
			return false
		}
		for k, x := range ta {
			y, ok := tb[k]
			if !ok || !b16SameTree(x, y) {
				return false
			}
		}
		return true
	}
	switch b.(type) {
	case []interface{}, map[string]interface{}:
		return false
	}
	return reflect.DeepEqual(a, b) || c20Same(a, b)
}

func b16SameVals(a, b []interface{}) bool {
	if len(a) != len(b) {
		return false
	}
	for i := range a {
		if _, ok := a[i].(jsonpath.Accessor); ok {
			continue
		}
		if !b16SameTree(a[i], b[i]) {
			return false
		}
	}
	return true
}

func b16Accs(vals []interface{}) ([]jsonpath.Accessor, string) {
	accs := make([]jsonpath.Accessor, len(vals))
	for i, v := range vals {
		a, ok := v.(jsonpath.Accessor)
		if !ok {
			return nil, fmt.Sprintf("result %d of an accessor-mode evaluation is a bare %T (%s), not a jsonpath.Accessor", i, v, clip(ValSexp(v), 120))
		}
		if a.Get == nil {
			return nil, fmt.Sprintf("result %d of an accessor-mode evaluation has a nil Get", i)
		}
		accs[i] = a
	}
	return accs, ""
}

func b16Set(a jsonpath.Accessor, v interface{}) (problem string) {
	defer func() {
		if e := recover(); e != nil {
			problem = fmt.Sprintf("Set panicked: %v", e)
		}
	}()
	a.Set(v)
	return ""
}

// b16Doc: JSON text of a document whose non-JSON leaves are shown by their type.
func b16Doc(v interface{}) string { return JSONText(b16Printable(v)) }

func b16Printable(v interface{}) interface{} {
	switch t := v.(type) {
	case []interface{}:
		out := make([]interface{}, len(t))
		for i, x := range t {
			out[i] = b16Printable(x)
		}
		return out
	case map[string]interface{}:
		out := make(map[string]interface{}, len(t))
		for k, x := range t {
			out[k] = b16Printable(x)
		}
		return out
	case nil, bool, float64, string:
		return v
	case b16Money:
		return fmt.Sprintf("(non-JSON leaf jph.b16Money{%d})", t.N)
	case *b16Handle:
		return fmt.Sprintf("(non-JSON leaf *jph.b16Handle{%d})", t.N)
	case c12Sentinel:
		return t.String()
	}
	return fmt.Sprintf("(non-JSON leaf of type %T)", v)
}

func b16Show(v interface{}) string {
	if s, ok := v.(c12Sentinel); ok {
		return fmt.Sprintf("<the value set through accessor %d>", s.N-7000)
	}
	return ValSexp(v)
}

func b16DiffText(want, got interface{}) string {
	var diffs [][]c12Seg
	c12Diff(want, got, nil, &diffs)
	where := ""
	for n, d := range diffs {
		if n < 5 {
			w, _ := c12At(want, d)
			g, _ := c12At(got, d)
			where += fmt.Sprintf(" %s (should hold %s, holds %s)", c12LocText(d), clip(b16Show(w), 80), clip(b16Show(g), 80))
		}
	}
	return where
}

// b16AccCompare: accs were obtained on cp, ref on cpRef (copies of the same document). Get of each pair agrees;
// Set(sentinel i) through accs[i] and ref[i], for all i in turn, leaves cp and cpRef equal; others (copies
// paired with their originals) stay as they were.
func b16AccCompare(what string, accs, ref []jsonpath.Accessor, cp, cpRef interface{}, others [][2]interface{}) string {
	if len(accs) != len(ref) {
		return fmt.Sprintf("%s: %d accessors, the evaluation alone gives %d", what, len(accs), len(ref))
	}
	for i := range accs {
		g, gp := c12Get(accs[i])
		w, _ := c12Get(ref[i])
		if gp != "" {
			return fmt.Sprintf("%s: accessor %d: %s", what, i, gp)
		}
		if !b16SameTree(g, w) {
			return fmt.Sprintf("%s: Get() of accessor %d returns %s; the element the path selects there is %s", what, i, clip(ValSexp(g), 200), clip(ValSexp(w), 200))
		}
		if (accs[i].Set == nil) != (ref[i].Set == nil) {
			return fmt.Sprintf("%s: accessor %d: Set is nil: %v, for the evaluation alone: %v", what, i, accs[i].Set == nil, ref[i].Set == nil)
		}
	}
	for i := range accs {
		if accs[i].Set == nil {
			continue
		}
		sent := c12Sentinel{N: 7000 + i}
		if p := b16Set(accs[i], sent); p != "" {
			return fmt.Sprintf("%s: accessor %d: %s", what, i, p)
		}
		b16Set(ref[i], sent)
		if !b16SameTree(cp, cpRef) {
			return fmt.Sprintf("%s: Set through accessor %d did not change exactly the location the path selects; the document differs from the expected one at%s", what, i, b16DiffText(cpRef, cp))
		}
		for n, o := range others {
			if !b16SameTree(o[0], o[1]) {
				return fmt.Sprintf("%s: Set through accessor %d changed ANOTHER document (no. %d of this case) at%s", what, i, n, b16DiffText(o[1], o[0]))
			}
		}
		if g, gp := c12Get(accs[i]); gp != "" || g != interface{}(sent) {
			return fmt.Sprintf("%s: after Set(v) through accessor %d its Get() returns %s %s", what, i, clip(ValSexp(g), 120), gp)
		}
	}
	return ""
}

// ---------- (1) the overlap probe ----------

type B16Overlap struct {
	Family string
	Path   string
	DocA   interface{}
	DocB   interface{}
	K      int // 0: drawn from the number of gate calls of A alone
	Acc    bool
	Warm   bool // the parsed function is evaluated on B and on A once before (gate not armed)
	Conc   bool // A in a goroutine, blocked in gate while the main goroutine evaluates B
}

const b16Wait = 8 * time.Second

func (p *B16Overlap) describe() string {
	how := "nested in the same goroutine"
	if p.Conc {
		how = "A in a goroutine of its own, blocked inside gate while the main goroutine evaluates B"
	}
	return fmt.Sprintf("path %s parsed once (accessor mode: %v; warmed up on both documents first: %v); document A = %s; document B = %s; at call %d of the user function `gate` (identity) during the evaluation of A the same parsed function evaluates B (%s)",
		p.Path, p.Acc, p.Warm, clip(b16Doc(p.DocA), 400), clip(b16Doc(p.DocB), 400), p.K, how)
}

func (p *B16Overlap) Run(r *Rng) (rp b16Report, canonA string) {
	rp.Info = map[string]interface{}{}
	rp.Tags = []string{"class:overlap-probe", "overlap:family-" + p.Family, fmt.Sprintf("overlap:accessor=%v", p.Acc), fmt.Sprintf("overlap:goroutine=%v", p.Conc)}
	// the oracle: fresh Parse + call on each document alone
	alone := func(doc interface{}) (Outcome, interface{}, int, string) {
		g := &b16Gate{armed: true}
		cfg := b16Config(p.Acc, g)
		f, o := SafeParse(p.Path, &cfg)
		if f == nil {
			return o, nil, 0, "Parse rejected the path: " + o.Detail()
		}
		cp := DeepCopy(doc)
		out := SafeCall(f, cp)
		return out, cp, g.calls, ""
	}
	expA, cpA0, nA, rej := alone(p.DocA)
	if rej != "" {
		rp.fail("parse-reject", "overlap probe, path %s: %s", p.Path, rej)
		return rp, ""
	}
	expB, cpB0, _, _ := alone(p.DocB)
	if expA.ErrKind == "panic" || expB.ErrKind == "panic" {
		rp.fail("abnormal", "overlap probe: evaluated alone, %s panics on %s / %s: %s / %s", p.Path, clip(JSONText(p.DocA), 300), clip(JSONText(p.DocB), 300), clip(expA.Detail(), 400), clip(expB.Detail(), 400))
		return rp, ""
	}
	if nA == 0 {
		rp.Tags = append(rp.Tags, "overlap:gate-not-reached")
		return rp, b16Canon(expA)
	}
	if p.K <= 0 || p.K > nA {
		p.K = r.Range(1, nA)
		if nA >= 2 && r.Chance(60) {
			p.K = r.Range(2, nA)
		}
	}
	rp.Info["overlap"] = p.describe()
	rp.Tags = append(rp.Tags, fmt.Sprintf("overlap:k=%s", pick(p.K == 1, "1", pick(p.K == nA, "last", "middle")).(string)))

	g := &b16Gate{}
	cfg := b16Config(p.Acc, g)
	f, o := SafeParse(p.Path, &cfg)
	if f == nil {
		rp.fail("parse-reject", "overlap probe, path %s: the second Parse of the same path was rejected: %s", p.Path, o.Detail())
		return rp, ""
	}
	if p.Warm {
		SafeCall(f, DeepCopy(p.DocB))
		SafeCall(f, DeepCopy(p.DocA))
	}
	cpA, cpB := DeepCopy(p.DocA), DeepCopy(p.DocB)
	var outA, outB Outcome
	g.k, g.armed = p.K, true
	reached := false
	if !p.Conc {
		g.action = func() { reached = true; outB = SafeCall(f, cpB) }
		outA = SafeCall(f, cpA)
	} else {
		entered, resume, doneA := make(chan struct{}), make(chan struct{}), make(chan struct{})
		g.action = func() {
			close(entered)
			select {
			case <-resume:
			case <-time.After(3 * b16Wait):
			}
		}
		go func() { defer close(doneA); outA = SafeCall(f, cpA) }()
		select {
		case <-entered:
			reached = true
			doneB := make(chan struct{})
			go func() { defer close(doneB); outB = SafeCall(f, cpB) }()
			select {
			case <-doneB:
			case <-time.After(b16Wait):
				rp.Poison = true
				rp.fail("overlap-hang", "%s: the evaluation of B did not return within %v while A was blocked inside its user function", p.describe(), b16Wait)
				close(resume)
				return rp, ""
			}
			close(resume)
		case <-doneA:
		case <-time.After(b16Wait):
			rp.Poison = true
			rp.fail("overlap-hang", "%s: the evaluation of A neither reached call %d of gate nor returned within %v", p.describe(), p.K, b16Wait)
			return rp, ""
		}
		select {
		case <-doneA:
		case <-time.After(b16Wait):
			rp.Poison = true
			rp.fail("overlap-hang", "%s: the evaluation of A did not return within %v after gate let it go on", p.describe(), b16Wait)
			return rp, ""
		}
	}
	if !reached {
		rp.fail("overlap-call-count", "%s: alone, the evaluation of A calls gate %d times; this time call %d was never made; A answered %s", p.describe(), nA, p.K, clip(b16Canon(outA), 300))
		return rp, ""
	}
	canonA = b16Canon(outA)
	if want := b16Canon(expA); canonA != want || (outA.OK && !b16SameVals(outA.Vals, expA.Vals)) {
		rp.fail("overlap-result", "%s. The evaluation of A answers %s; a fresh Parse + call on A alone answers %s", p.describe(), clip(canonA, 500), clip(want, 500))
	}
	if got, want := b16Canon(outB), b16Canon(expB); got != want || (outB.OK && !b16SameVals(outB.Vals, expB.Vals)) {
		rp.fail("overlap-result", "%s. The evaluation of B answers %s; a fresh Parse + call on B alone answers %s", p.describe(), clip(got, 500), clip(want, 500))
	}
	if rp.Viol == "" && p.Acc {
		var accsA, refA, accsB, refB []jsonpath.Accessor
		var problem string
		if outA.OK {
			if accsA, problem = b16Accs(outA.Vals); problem == "" {
				refA, problem = b16Accs(expA.Vals)
			}
		}
		if problem == "" && outB.OK {
			if accsB, problem = b16Accs(outB.Vals); problem == "" {
				refB, problem = b16Accs(expB.Vals)
			}
		}
		if problem != "" {
			rp.fail("overlap-accessor", "%s: %s", p.describe(), problem)
		}
		if rp.Viol == "" && outA.OK {
			if msg := b16AccCompare("accessors of A", accsA, refA, cpA, cpA0, [][2]interface{}{{cpB, p.DocB}}); msg != "" {
				rp.fail("overlap-accessor", "%s. %s", p.describe(), msg)
			}
		}
		if rp.Viol == "" && outB.OK {
			// A now carries sentinels: compare it with the reference copy, which carries the same ones
			if msg := b16AccCompare("accessors of B", accsB, refB, cpB, cpB0, [][2]interface{}{{cpA, cpA0}}); msg != "" {
				rp.fail("overlap-accessor", "%s. %s", p.describe(), msg)
			}
		}
	} else if rp.Viol == "" {
		// plain mode: an evaluation never modifies its document
		if !b16SameTree(cpA, p.DocA) || !b16SameTree(cpB, p.DocB) {
			rp.fail("overlap-modified", "%s: a document was modified by the evaluations", p.describe())
		}
	}
	rp.Key = fmt.Sprintf("overlap/%s/%v/%v/%v/%v", p.Family, p.Acc, p.Conc, outA.OK, outB.OK)
	return rp, canonA
}

// ---------- documents and paths of the overlap families ----------

type b16Money struct{ N int }
type b16Handle struct{ N int }

// b16Opaque: a non-JSON leaf.
func b16Opaque(r *Rng, n int) interface{} {
	switch r.Intn(5) {
	case 0:
		return b16Money{n}
	case 1:
		return &b16Handle{n}
	case 2:
		return func() {}
	case 3:
		return int64(n)
	}
	return []int{n}
}

// b16Key renders a member name in one of the three spellings: 0 `['k']`, 1 `["k"]`, 2 `.k`; after `@`/`$`/`..`.
func b16Key(k string, spell int) string {
	switch spell {
	case 0:
		return "['" + k + "']"
	case 1:
		return `["` + k + `"]`
	}
	return "." + k
}

func b16DescKey(k string, spell int) string {
	if spell == 2 {
		return ".." + k
	}
	return ".." + b16Key(k, spell)
}

func b16Num(r *Rng) interface{} { return float64(r.Range(0, 9)) }

// b16Records: n records {"k": value, "K": near miss, "k ": near miss, "v": …}; opaquePct: chance of a non-JSON leaf.
func b16Records(r *Rng, n int, key string, opaquePct int, base int) []interface{} {
	out := make([]interface{}, n)
	for i := range out {
		m := map[string]interface{}{}
		if r.Chance(90) {
			m[key] = float64(base + i)
			if r.Chance(opaquePct) {
				m[key] = b16Opaque(r, base+i)
			}
		}
		if r.Chance(50) {
			m[strings.ToUpper(key)] = float64(base + 50 + i)
		}
		if r.Chance(40) {
			m[key+" "] = float64(base + 70 + i)
		}
		if r.Chance(40) {
			m["v"] = b16Num(r)
		}
		out[i] = m
	}
	return out
}

// b16Nest: a tree of objects / arrays with members named key at several levels.
func b16Nest(r *Rng, key string, depth, base int, opaquePct int, n *int) interface{} {
	m := map[string]interface{}{}
	leaf := func() interface{} {
		*n++
		if r.Chance(opaquePct) {
			return b16Opaque(r, base+*n)
		}
		return float64(base + *n)
	}
	if r.Chance(75) {
		m[key] = leaf()
	}
	if r.Chance(40) {
		m[strings.ToUpper(key)] = leaf()
	}
	if r.Chance(30) {
		m[key+" "] = leaf()
	}
	if depth > 0 {
		for _, name := range []string{"p", "q", "s", "t"}[:r.Range(1, 4)] {
			if r.Chance(25) {
				arr := make([]interface{}, r.Range(0, 3))
				for i := range arr {
					arr[i] = b16Nest(r, key, depth-1, base, opaquePct, n)
				}
				m[name] = arr
			} else {
				m[name] = b16Nest(r, key, depth-1, base, opaquePct, n)
			}
		}
	}
	return m
}

var b16Families = []string{"slice-filter", "union-fns", "desc-key", "filter-operand", "generic"}

// b16OverlapCase draws a case of the family. spell: spelling of the member names (-1: drawn). opaque: document B
// (and sometimes A) carries non-JSON leaves.
func b16OverlapCase(r *Rng, family string, spell int, opaque bool) *B16Overlap {
	if spell < 0 {
		spell = r.Intn(3)
	}
	key := r.Pick([]string{"k", "a", "key"})
	p := &B16Overlap{Family: family, Warm: r.Chance(50), Conc: r.Chance(40)}
	opq := 0
	if opaque {
		opq = 45
	}
	switch family {
	case "slice-filter":
		la := r.Range(3, 9)
		lb := r.Range(1, 9)
		for lb == la {
			lb = r.Range(1, 9)
		}
		recs := func(n, base int) []interface{} {
			out := make([]interface{}, n)
			for i := range out {
				out[i] = map[string]interface{}{"v": float64(base + i), "w": float64(base + 20 + i)}
			}
			return out
		}
		if r.Chance(60) {
			// the index lists of the two evaluations differ and B's fits into A's
			la = r.Range(5, 9)
			lb = r.Range(2, la-1)
			p.K = r.Range(1, 3)
		}
		sel := r.Pick([]string{fmt.Sprintf("[-%d:]", r.Range(2, 4)), fmt.Sprintf("[-%d:]", r.Range(2, 4)), fmt.Sprintf("[-%d:-1]", r.Range(3, 4)), "[::-1]", "[-1:0:-1]", fmt.Sprintf("[-%d::2]", r.Range(3, 5)), fmt.Sprintf("[%d:]", r.Range(0, 2)), fmt.Sprintf("[:%d]", r.Range(2, 5)), "[::2]", "[1:-1]", fmt.Sprintf("[%d:%d]", r.Range(0, 1), r.Range(3, 6)), "[0,-1,1]", "[-1:,0]", "[*]"})
		switch r.Intn(4) {
		case 0:
			p.Path = "$" + sel + "[?(@.gate() > -1)]"
		case 1:
			p.Path = "$" + sel + b16Key("v", spell) + ".gate()"
		case 2:
			p.Path = "$.r" + sel + "[?(@.gate() > -1)]"
		default:
			p.Path = "$" + sel + "[?(@.gate() != 'zz')]"
		}
		p.DocA, p.DocB = recs(la, 0), recs(lb, 100)
		if strings.HasPrefix(p.Path, "$.r") {
			p.DocA, p.DocB = map[string]interface{}{"r": p.DocA}, map[string]interface{}{"r": p.DocB}
		}
	case "union-fns":
		// errors of different depth: the functions of the registry fail on odd numbers / on everything / on non-numbers
		n := r.Range(2, 4)
		fns := [][]string{{"failOdd", "failAll"}, {"twice", "failOdd"}, {"failOdd", "twice", "failAll"}, {"twice", "failAll"}}[r.Intn(4)]
		idx := make([]string, n)
		for i := range idx {
			idx[i] = fmt.Sprint(i)
		}
		sel := "[" + strings.Join(idx, ",") + "]"
		if r.Chance(30) {
			sel = fmt.Sprintf("[0:%d]", n)
		}
		tail := ""
		for _, fn := range fns {
			tail += "." + fn + "()"
		}
		p.Path = "$" + sel + ".gate()" + tail
		wrapA := r.Chance(30)
		if wrapA {
			// a member step first: some members fail there, before `gate` is reached
			p.Path = "$" + sel + b16Key("a", spell) + ".gate()" + tail
		}
		mk := func(kind int, base int) []interface{} {
			out := make([]interface{}, n)
			for i := range out {
				switch kind {
				case 0:
					out[i] = float64(2*(base+i) + 1) // odd
				case 1:
					out[i] = float64(2 * (base + i)) // even
				case 2:
					out[i] = fmt.Sprintf("s%d", base+i)
				case 3:
					out[i] = map[string]interface{}{"a": map[string]interface{}{"c": 1.0}}
				case 4:
					out[i] = map[string]interface{}{"c": float64(base + i)}
				default:
					out[i] = map[string]interface{}{"a": float64(base + i)}
				}
				if wrapA {
					out[i] = map[string]interface{}{"a": out[i]}
					if kind == 4 && i > 0 {
						out[i] = map[string]interface{}{"c": 1.0}
					}
				}
			}
			return out
		}
		ka, kb := r.Intn(6), r.Intn(6)
		for kb == ka {
			kb = r.Intn(6)
		}
		p.DocA, p.DocB = mk(ka, 0), mk(kb, 10)
	case "desc-key":
		nA, nB := 0, 0
		p.DocA = b16Nest(r, key, r.Range(1, 3), 0, opq/3, &nA)
		p.DocB = b16Nest(r, key, r.Range(1, 3), 100, opq, &nB)
		switch r.Intn(4) {
		case 0, 1:
			p.Path = "$" + b16DescKey(key, spell) + ".gate()"
		case 2:
			p.Path = "$" + b16DescKey(key, spell) + ".gate().gate()"
		default:
			p.Path = "$..[?(@" + b16Key(key, spell) + ".gate() > -1)]"
		}
		p.Warm = r.Chance(75)
	case "filter-operand":
		la, lb := r.Range(2, 6), r.Range(1, 6)
		a, b := b16Records(r, la, key, opq/3, 1), b16Records(r, lb, key, opq, 1)
		// the last record of B always has the member, with a value that no record of A has at that place
		b[lb-1].(map[string]interface{})[key] = float64(40 + r.Intn(5))
		if opaque && r.Chance(60) {
			b[r.Intn(lb)].(map[string]interface{})[key] = b16Opaque(r, 3)
		}
		lim := float64(r.Range(2, 8))
		switch r.Intn(6) {
		case 0:
			p.Path = fmt.Sprintf("$[?(@%s.gate() == %d)]", b16Key(key, spell), r.Range(1, la))
			p.DocA, p.DocB = a, b
		case 1:
			p.Path = fmt.Sprintf("$[?(@%s.gate() > 0)]", b16Key(key, spell))
			p.DocA, p.DocB = a, b
		case 2:
			p.Path = fmt.Sprintf("$.items[?(@%s.gate() < $.lim)]", b16Key(key, spell))
			p.DocA, p.DocB = map[string]interface{}{"items": a, "lim": lim}, map[string]interface{}{"items": b, "lim": lim + 50}
		case 3:
			p.Path = fmt.Sprintf("$.items[?(@%s < $.lim.gate())]", b16Key(key, spell))
			p.DocA, p.DocB = map[string]interface{}{"items": a, "lim": lim + 3}, map[string]interface{}{"items": b, "lim": lim + 50}
		case 4:
			p.Path = fmt.Sprintf("$.items[?(@%s.gate() < $.lim.gate())]", b16Key(key, spell))
			p.DocA, p.DocB = map[string]interface{}{"items": a, "lim": lim + 3}, map[string]interface{}{"items": b, "lim": lim + 50}
		default:
			p.Path = fmt.Sprintf("$[?(@%s.gate())]%s", b16Key(key, spell), b16Key(key, spell))
			p.DocA, p.DocB = a, b
		}
	default:
		// a generated path with `gate` injected on operand paths / at the end, on a generated document and a
		// redrawn one of another size
		o := DefaultOpts()
		cfg := b16Config(false, &b16Gate{})
		for try := 0; try < 8; try++ {
			doc, q := GenCase(r, o)
			c, ro, t := b7InjectFn(r, q, 70, b16GateName)
			if c+ro+t == 0 {
				continue
			}
			p.Path = Render(q, r)
			p.DocA = doc
			if r.Chance(50) {
				p.DocB = c05Mutate(r, doc, 40)
			} else {
				p.DocB = GenDoc(r, o, 0)
			}
			if out := Run(p.Path, DeepCopy(doc), &cfg); out.OK || try >= 5 {
				break
			}
		}
		if p.Path == "" {
			p.Path, p.DocA, p.DocB = "$[*].gate()", []interface{}{1.0, 2.0}, []interface{}{3.0}
		}
	}
	return p
}

// b16OverlapRecord: one overlap case as a record (hook of the runners). families: drawn from; accPct: chance
// of accessor mode; opaque: non-JSON leaves in B; spellings: the case is run once per key spelling and A's
// answers must agree between the spellings as well (C16).
func b16OverlapRecord(r *Rng, families []string, accPct int, opaque, spellings bool) Record {
	fam := families[r.Intn(len(families))]
	acc := r.Chance(accPct)
	rec := Record{Info: map[string]interface{}{}}
	if !spellings || fam == "generic" {
		p := b16OverlapCase(r, fam, -1, opaque)
		p.Acc = acc
		rp, _ := p.Run(r)
		rec.Text, rec.Doc = p.Path, b16Doc(p.DocA)
		rp.Into(&rec)
		return rec
	}
	// the same case under the three spellings of its member names
	s0 := *r
	var first string
	var firstPath string
	var k int
	for spell := 0; spell < 3; spell++ {
		rr := s0
		p := b16OverlapCase(&rr, fam, spell, opaque)
		p.Acc = acc
		p.K = k
		rr2 := s0
		rp, canon := p.Run(&rr2)
		if at := strings.Index(canon, " | "); at > 0 && strings.HasPrefix(canon, "err ") {
			canon = canon[:at] // the text of an error quotes the spelling
		}
		k = p.K
		if spell == 0 {
			rec.Text, rec.Doc = p.Path, b16Doc(p.DocA)
			first, firstPath = canon, p.Path
		}
		rp.Into(&rec)
		if rec.Viol != "" {
			return rec
		}
		if canon != first {
			rec.Viol = fmt.Sprintf("%s. The evaluation of A answers %s under the spelling %s but %s under the spelling %s", p.describe(), clip(canon, 300), p.Path, clip(first, 300), firstPath)
			rec.Class = "overlap-spelling"
			return rec
		}
	}
	rec.Tags = append(rec.Tags, "overlap:three-key-spellings")
	return rec
}

// ---------- (2) the history probe ----------

type B16Follow struct {
	Path string
	Doc  interface{}
	Acc  bool
}

type B16History struct {
	Fault    string // fn-panic | fn-err | parse-fail
	Path     string // the path whose user function `gate` is faulty / the text Parse rejects
	Doc      interface{}
	K        int
	Acc      bool
	Retrieve bool          // the faulting call goes through jsonpath.Retrieve
	Next     []interface{} // the faulted parsed function is then evaluated on these documents
	Follow   []B16Follow
}

type b16FollowState struct {
	f      Parsed
	cp     interface{}
	before string
	held   []jsonpath.Accessor
	gets   []string
}

var b16FailParses = []string{
	"$[?(@.a.nosuch() > 1)]", "$[?(@.a.nosuch())]", "$[?(1 < @.a.nosuch())]", "$[?(@.a == $.b.nosuch())]",
	"$[?(@.a[?(@.b.nosuch() > 1)])]", "$[?(@.a > 1 && @.b.nosuch() > 1)]", "$[?(@.a > 1 || $..b.nosuchagg() > 1)]",
	"$['a','b'][?(@.x.nosuch() == 1)]", "$[0,1][?(@.nosuch())]", "$[*].count().nosuch()", "$.a[?($..x.count().nosuch() > 1)]",
	"$[?(@.a =~ /(/)]", "$[?(@.a.id() =~ /[a-/)]", "$..[?(@.a.nosuch() > 1)]", "$[?(@.a[0,1].nosuch() > 1)]", "$[?(@..a.nosuch() > 1)]",
	"$[?(@.a.id().nosuch() == 'x')]", "$[?(@['a','b'].nosuch() > 1)]",
}

func (h *B16History) describe() string {
	switch h.Fault {
	case "parse-fail":
		return fmt.Sprintf("a Parse that fails: %s (accessor mode: %v)", h.Path, h.Acc)
	case "fn-panic":
		return fmt.Sprintf("%s of %s on %s (accessor mode: %v) whose user function `gate` panics at exactly its call %d (recovered by the caller)", pick(h.Retrieve, "Retrieve", "Parse + call").(string), h.Path, clip(JSONText(h.Doc), 300), h.Acc, h.K)
	}
	return fmt.Sprintf("%s of %s on %s (accessor mode: %v) whose user function `gate` returns an error at exactly its call %d", pick(h.Retrieve, "Retrieve", "Parse + call").(string), h.Path, clip(JSONText(h.Doc), 300), h.Acc, h.K)
}

func b16Retrieve(path string, doc interface{}, cfg jsonpath.Config) (out Outcome) {
	defer func() {
		if e := recover(); e != nil {
			out = Outcome{ErrKind: "panic", Panic: fmt.Sprintf("%v", e)}
		}
	}()
	vals, err := jsonpath.Retrieve(path, doc, cfg)
	if err != nil {
		out = classify(err)
		if vals != nil {
			out.Both = true
		}
		return out
	}
	if vals == nil {
		return Outcome{ErrKind: "nilnil", NilNil: true, Msg: "Retrieve returned (nil, nil)"}
	}
	return Outcome{OK: true, Vals: vals}
}

func (h *B16History) Run(r *Rng) (rp b16Report) {
	rp.Info = map[string]interface{}{}
	rp.Tags = []string{"class:history-fault-probe", "fault:" + h.Fault, fmt.Sprintf("fault:accessor=%v", h.Acc)}
	var texts []string
	for _, fw := range h.Follow {
		texts = append(texts, fmt.Sprintf("%s (accessor mode: %v) on %s", fw.Path, fw.Acc, clip(JSONText(fw.Doc), 300)))
	}
	rp.Info["fault"] = h.describe()
	rp.Info["followups"] = texts
	quiet := &b16Gate{}
	// quiet phase
	st := make([]*b16FollowState, len(h.Follow))
	for j, fw := range h.Follow {
		cfg := b16Config(fw.Acc, quiet)
		f, o := SafeParse(fw.Path, &cfg)
		if f == nil {
			rp.fail("parse-reject", "history probe: the follow-up path %s was rejected: %s", fw.Path, o.Detail())
			return rp
		}
		s := &b16FollowState{f: f, cp: DeepCopy(fw.Doc)}
		out := SafeCall(f, s.cp)
		s.before = b16Canon(out)
		if fw.Acc && out.OK {
			accs, problem := b16Accs(out.Vals)
			if problem != "" {
				rp.fail("history-accessor", "history probe (before the fault of this case): %s on %s in accessor mode: %s", fw.Path, clip(JSONText(fw.Doc), 300), problem)
				return rp
			}
			s.held = accs
			for _, a := range accs {
				g, _ := c12Get(a)
				s.gets = append(s.gets, ValSexp(g))
			}
		}
		st[j] = s
	}
	var nextWant []string
	if h.Fault != "parse-fail" {
		for _, d := range h.Next {
			cfg := b16Config(h.Acc, quiet)
			nextWant = append(nextWant, b16Canon(Run(h.Path, DeepCopy(d), &cfg)))
		}
	}
	// the fault
	g := &b16Gate{k: h.K, armed: true}
	var ff Parsed
	switch h.Fault {
	case "parse-fail":
		cfg := Config(h.Acc, nil)
		f, o := SafeParse(h.Path, &cfg)
		if f != nil || o.ErrKind == "panic" {
			rp.fail("history-fault", "history probe: Parse of %s was expected to fail with an error: %s", h.Path, clip(o.Detail(), 300))
			return rp
		}
		rp.Tags = append(rp.Tags, "fault:parse-"+o.ErrKind)
	default:
		g.mode = 1
		if h.Fault == "fn-err" {
			g.mode = 2
		}
		cfg := b16Config(h.Acc, g)
		var o Outcome
		ff, o = SafeParse(h.Path, &cfg)
		if ff == nil {
			rp.fail("parse-reject", "history probe: the path %s was rejected: %s", h.Path, o.Detail())
			return rp
		}
		var out Outcome
		if h.Retrieve {
			out = b16Retrieve(h.Path, DeepCopy(h.Doc), cfg)
		} else {
			out = SafeCall(ff, DeepCopy(h.Doc))
		}
		if !g.fired {
			rp.Tags = append(rp.Tags, "fault:call-not-reached")
		} else if h.Fault == "fn-panic" {
			if out.ErrKind != "panic" || !strings.HasPrefix(out.Panic, b16PanicMsg) {
				rp.fail("user-panic-swallowed", "%s: the panic of the caller's function did not reach the caller; the call returned %s", h.describe(), clip(b16Canon(out), 300))
				return rp
			}
		} else if msg := c02CheckCall(out, h.Acc); msg != "" {
			rp.fail("history-fault", "%s: %s", h.describe(), msg)
			return rp
		}
		if h.Retrieve && g.fired {
			// Retrieve = Parse + call: the same fault through the parsed function
			g2 := &b16Gate{k: h.K, armed: true, mode: g.mode}
			cfg2 := b16Config(h.Acc, g2)
			ref := Run(h.Path, DeepCopy(h.Doc), &cfg2)
			if ref.ErrKind == "panic" {
				ref.Panic = firstLines(ref.Panic, 1)
			}
			if a, b := b16Canon(out), b16Canon(ref); a != b {
				rp.fail("retrieve-vs-parse", "%s: Retrieve answers %s, Parse followed by a call of the returned function answers %s", h.describe(), clip(a, 300), clip(b, 300))
				return rp
			}
			rp.Tags = append(rp.Tags, "fault:through-Retrieve")
			ff = nil
		}
	}
	// afterwards: the faulted function on other documents
	if ff != nil && g.fired {
		for n, d := range h.Next {
			got := b16Canon(SafeCall(ff, DeepCopy(d)))
			if got != nextWant[n] {
				rp.fail("history-next-call", "after %s, the SAME parsed function evaluated on %s answers %s; a fresh Parse + call on that document answers %s", h.describe(), clip(JSONText(d), 300), clip(got, 400), clip(nextWant[n], 400))
				return rp
			}
		}
		rp.Tags = append(rp.Tags, "fault:then-same-function-on-other-documents")
	}
	// the follow-ups, in a drawn order: the function parsed before the fault and one parsed now
	order := make([]int, len(st))
	for j := range order {
		order[j] = j
	}
	r.Shuffle(len(order), func(a, b int) { order[a], order[b] = order[b], order[a] })
	for _, j := range order {
		fw, s := h.Follow[j], st[j]
		cfg := b16Config(fw.Acc, quiet)
		fNew, o := SafeParse(fw.Path, &cfg)
		if fNew == nil {
			rp.fail("history-parse", "after %s, Parse of %s fails: %s; before it succeeded", h.describe(), fw.Path, o.Detail())
			return rp
		}
		for n, f := range []Parsed{s.f, fNew} {
			out := SafeCall(f, DeepCopy(fw.Doc))
			which := pick(n == 0, "the function parsed before the fault", "a function parsed after the fault").(string)
			if fw.Acc && out.OK {
				if _, problem := b16Accs(out.Vals); problem != "" {
					rp.fail("history-accessor", "after %s, %s (accessor mode), %s, evaluated on %s: %s", h.describe(), fw.Path, which, clip(JSONText(fw.Doc), 300), problem)
					return rp
				}
			}
			if got := b16Canon(out); got != s.before {
				rp.fail("history-followup", "after %s, %s (accessor mode: %v), %s, evaluated on %s answers %s; before the fault it answered %s", h.describe(), fw.Path, fw.Acc, which, clip(JSONText(fw.Doc), 300), clip(got, 400), clip(s.before, 400))
				return rp
			}
			if fw.Acc && out.OK {
				// accessor mode changes only the wrapping: Get = the plain-mode value
				pcfg := b16Config(false, quiet)
				plain := Run(fw.Path, DeepCopy(fw.Doc), &pcfg)
				if !plain.OK || len(plain.Vals) != len(out.Vals) {
					rp.fail("history-parity", "after %s, %s on %s: accessor mode answers %s, plain mode %s", h.describe(), fw.Path, clip(JSONText(fw.Doc), 300), clip(b16Canon(out), 300), clip(b16Canon(plain), 300))
					return rp
				}
				for i, v := range out.Vals {
					if gv, _ := c12Get(v.(jsonpath.Accessor)); !b16SameTree(gv, plain.Vals[i]) {
						rp.fail("history-parity", "after %s, %s on %s: Get() of accessor %d returns %s, plain mode returns %s", h.describe(), fw.Path, clip(JSONText(fw.Doc), 300), i, clip(ValSexp(gv), 200), clip(ValSexp(plain.Vals[i]), 200))
						return rp
					}
				}
			}
		}
	}
	// accessors held since the quiet phase
	heldAny := false
	for j, s := range st {
		fw := h.Follow[j]
		if s.held == nil {
			continue
		}
		heldAny = true
		what := fmt.Sprintf("accessors of %s on %s, HELD while %s happened and the other accessor-mode retrievals of this case (%s) were made", fw.Path, clip(JSONText(fw.Doc), 300), h.describe(), strings.Join(texts, "; "))
		for i, a := range s.held {
			gv, gp := c12Get(a)
			if gp != "" || ValSexp(gv) != s.gets[i] {
				rp.fail("held-accessor", "%s: Get() of accessor %d now returns %s %s; its location holds %s (the document was not changed)", what, i, clip(ValSexp(gv), 200), gp, clip(s.gets[i], 200))
				return rp
			}
		}
		// Set through the held accessors = Set through the accessors of a fresh evaluation on another copy
		cpRef := DeepCopy(fw.Doc)
		ref, _ := b16Accs(SafeCall(s.f, cpRef).Vals)
		var others [][2]interface{}
		for x, sx := range st {
			if x != j {
				others = append(others, [2]interface{}{sx.cp, DeepCopy(sx.cp)})
			}
		}
		if len(ref) == len(s.held) {
			if msg := b16AccCompare(what, s.held, ref, s.cp, cpRef, others); msg != "" {
				rp.fail("held-accessor", "%s", msg)
				return rp
			}
		}
	}
	if heldAny {
		rp.Tags = append(rp.Tags, "history:held-accessors-used-afterwards")
	}
	rp.Key = fmt.Sprintf("history/%s/%v/%v/%d", h.Fault, h.Acc, g.fired, len(h.Follow))
	return rp
}

var b16QuietAccPaths = []string{"$.a", "$.b[1]", "$.c.d", "$.b[*]", "$.*", "$..d", "$.b[0:2]", "$['a','c']", "$.b[?(@ > 10)]", "$[?(@.d)]", "$.c[?(@ > 1)]", "$.e[?(@.a > 1)]", "$.e[?(@.a > 1)].b[0]", "$.e[?(@.a > 0 && @.b)].a", "$..[?(@.a > 1)].a"}

func b16QuietAccDoc(r *Rng) interface{} {
	n := 0
	next := func() float64 { n++; return float64(10*n + r.Intn(9)) }
	return map[string]interface{}{
		"a": next(), "b": []interface{}{next(), next(), next()}, "c": map[string]interface{}{"d": next()},
		"e": []interface{}{map[string]interface{}{"a": next(), "b": []interface{}{next()}}, map[string]interface{}{"a": 0.0}, map[string]interface{}{"a": next(), "b": []interface{}{next(), next()}}},
	}
}

// b16HistoryCase draws a history. accPct: chance that a follow-up is in accessor mode. faults: drawn from.
func b16HistoryCase(r *Rng, faults []string, accPct int, retrievePct int) *B16History {
	h := &B16History{Fault: faults[r.Intn(len(faults))], Acc: r.Chance(accPct), Retrieve: r.Chance(retrievePct)}
	nf := r.Range(2, 4)
	for len(h.Follow) < nf {
		fw := B16Follow{Acc: r.Chance(accPct)}
		switch r.Weighted([]int{55, 25, 20}) {
		case 0:
			fw.Path, fw.Doc = r.Pick(b16QuietAccPaths), b16QuietAccDoc(r)
		case 1:
			fw.Path, fw.Doc = r.Pick(b11QuietPaths), b11QuietDoc(r)
		default:
			d, p := GenCase(r, DefaultOpts())
			fw.Path, fw.Doc = Render(p, r), d
			cfg := Config(false, nil)
			if f, _ := SafeParse(fw.Path, &cfg); f == nil {
				continue
			}
		}
		h.Follow = append(h.Follow, fw)
	}
	if h.Fault == "parse-fail" {
		h.Path = r.Pick(b16FailParses)
		return h
	}
	spell := r.Intn(3)
	key := r.Pick([]string{"k", "a"})
	n := 0
	switch r.Intn(6) {
	case 0, 1:
		h.Path = "$" + b16DescKey(key, spell) + ".gate()"
		h.Doc = b16Nest(r, key, r.Range(2, 3), 0, 0, &n)
		for x := r.Range(1, 3); x > 0; x-- {
			m := 0
			h.Next = append(h.Next, b16Nest(r, key, r.Range(0, 2), 100*x, 0, &m))
		}
	case 2:
		h.Path = "$[*]" + b16Key(key, spell) + ".gate()"
		h.Doc = b16Records(r, r.Range(3, 7), key, 0, 1)
		h.Next = []interface{}{b16Records(r, r.Range(1, 4), key, 0, 50)}
	case 3:
		h.Path = fmt.Sprintf("$[?(@%s.gate() > 0)]", b16Key(key, spell))
		h.Doc = b16Records(r, r.Range(3, 7), key, 0, 1)
		h.Next = []interface{}{b16Records(r, r.Range(1, 4), key, 0, 50)}
	case 4:
		h.Path = "$..*.gate()"
		h.Doc = b16Nest(r, key, 2, 0, 0, &n)
		m := 0
		h.Next = []interface{}{b16Nest(r, key, 1, 100, 0, &m)}
	default:
		h.Path = fmt.Sprintf("$[0:%d].gate()", r.Range(3, 6))
		h.Doc = []interface{}{1.0, 2.0, 3.0, "x", 5.0, 6.0}
		h.Next = []interface{}{[]interface{}{7.0, 8.0}, []interface{}{"y"}}
	}
	// K >= 2: at least one member was handled before
	quiet := &b16Gate{armed: true}
	cfg := b16Config(false, quiet)
	Run(h.Path, DeepCopy(h.Doc), &cfg)
	if quiet.calls >= 2 {
		h.K = r.Range(2, quiet.calls)
	} else {
		h.K = 2
	}
	return h
}

func b16HistoryRecord(r *Rng, faults []string, accPct, retrievePct int) Record {
	h := b16HistoryCase(r, faults, accPct, retrievePct)
	rp := h.Run(r)
	rec := Record{Text: h.Path, Doc: JSONText(h.Doc), Info: map[string]interface{}{}}
	rp.Into(&rec)
	return rec
}

// b16CallParity (C12): a path ending in / containing `gate`, faulty at (from) its K-th call. Plain mode against
// accessor mode with Get() of every accessor called twice: the same outcome, the same values, the same calls.
func b16CallParity(r *Rng) Record {
	rec := Record{Info: map[string]interface{}{}, Tags: []string{"class:call-parity-probe"}}
	mode := r.Range(1, 2)
	from := r.Chance(50)
	key := r.Pick([]string{"k", "n"})
	spell := r.Intn(3)
	var path string
	var doc interface{}
	switch r.Intn(5) {
	case 0:
		path = "$.a" + b16Key(key, spell) + ".gate()"
		doc = map[string]interface{}{"a": map[string]interface{}{key: 21.0}}
	case 1:
		path = "$[*]" + b16Key(key, spell) + ".gate()"
		doc = b16Records(r, r.Range(1, 4), key, 0, 1)
	case 2:
		path = "$" + b16DescKey(key, spell) + ".gate()"
		n := 0
		doc = b16Nest(r, key, r.Range(0, 2), 0, 0, &n)
	case 3:
		path = "$[*]" + b16Key(key, spell) + ".gate().twice()"
		doc = b16Records(r, r.Range(1, 4), key, 0, 1)
	default:
		path = "$[0]" + b16Key(key, spell) + ".twice().gate()"
		doc = b16Records(r, 1, key, 0, 1)
	}
	run := func(acc bool, k int) (string, []string, int) {
		g := &b16Gate{armed: true, k: k, mode: mode, from: from}
		cfg := b16Config(acc, g)
		out := Run(path, DeepCopy(doc), &cfg)
		canon := ""
		if out.OK && acc {
			parts := []string{}
			for i, v := range out.Vals {
				a, ok := v.(jsonpath.Accessor)
				if !ok || a.Get == nil {
					parts = append(parts, fmt.Sprintf("<result %d is not an accessor>", i))
					continue
				}
				g1, p1 := c12Get(a)
				g2, p2 := c12Get(a)
				if p1 != "" || p2 != "" {
					parts = append(parts, fmt.Sprintf("<Get() of accessor %d: %s %s>", i, p1, p2))
				} else if ValSexp(g1) != ValSexp(g2) {
					parts = append(parts, fmt.Sprintf("<Get() of accessor %d returns %s, then %s>", i, ValSexp(g1), ValSexp(g2)))
				} else {
					parts = append(parts, ValSexp(g1))
				}
			}
			canon = "ok [" + strings.Join(parts, " ") + "]"
		} else {
			if out.ErrKind == "panic" {
				out.Panic = firstLines(out.Panic, 1)
			}
			canon = b16Canon(out)
		}
		return canon, g.seen, g.calls
	}
	_, _, n := run(false, 0)
	k := r.Range(2, n+2)
	cp, sp, _ := run(false, k)
	ca, sa, _ := run(true, k)
	rec.Text, rec.Doc = path, JSONText(doc)
	faultText := fmt.Sprintf("the user function `gate` (identity) %s %s its call %d", pick(mode == 1, "panics", "returns an error").(string), pick(from, "from", "at exactly").(string), k)
	rec.Info["call-parity"] = path + ": " + faultText
	rec.Tags = append(rec.Tags, fmt.Sprintf("call-parity:fault-beyond-plain-calls=%v", k > n))
	if cp != ca {
		rec.Viol = fmt.Sprintf("%s on %s, %s: plain mode answers %s; accessor mode (Get() of every accessor called twice) answers %s", path, clip(JSONText(doc), 300), faultText, clip(cp, 300), clip(ca, 300))
		rec.Class = "call-parity"
	} else if strings.Join(sp, " ") != strings.Join(sa, " ") {
		rec.Viol = fmt.Sprintf("%s on %s, %s: in plain mode the function is called with %v, in accessor mode (Get() of every accessor called twice) with %v", path, clip(JSONText(doc), 300), faultText, sp, sa)
		rec.Class = "call-parity"
	}
	rec.Key = fmt.Sprintf("call-parity/%d/%v/%v", mode, from, k > n)
	return rec
}

// ---------- (3) blanks inside / outside literals, Parse without a Config ----------

var b16BlankBases = []string{"x,y", "(z)", "[q]", "a:b", "p,(q)", "m,n,o", "u(v)w", "c:d,e"}

// b16BlankVariants: the base and the base with one or two blanks next to one of `, ( ) [ ] :`.
func b16BlankVariants(base string) []string {
	out := []string{base}
	for i := 0; i < len(base); i++ {
		if strings.IndexByte(",()[]:", base[i]) >= 0 {
			out = append(out, base[:i+1]+" "+base[i+1:])
			if i > 0 {
				out = append(out, base[:i]+" "+base[i:])
			}
		}
	}
	return out
}

func b16LiteralBlanks(r *Rng) Record {
	rec := Record{Info: map[string]interface{}{}, Tags: []string{"class:literal-blanks-history"}}
	base := r.Pick(b16BlankBases)
	vars := b16BlankVariants(base)
	regex := r.Chance(60)
	// for a regex the characters ( ) [ ] are operators: the members are the texts the literals match
	var members []string
	for _, v := range vars {
		members = append(members, v)
		if regex {
			members = append(members, strings.NewReplacer("(", "", ")", "", "[", "", "]", "").Replace(v))
		}
	}
	arr := make([]interface{}, len(members))
	for i, m := range members {
		arr[i] = map[string]interface{}{"a": m, "i": float64(i)}
	}
	var doc interface{} = arr
	expect := func(lit string) string {
		var sel []interface{}
		var re *regexp.Regexp
		if regex {
			re = regexp.MustCompile(lit)
		}
		for i, m := range members {
			if (regex && re.MatchString(m)) || (!regex && m == lit) {
				sel = append(sel, arr[i])
			}
		}
		if len(sel) == 0 {
			return "err member"
		}
		return "ok " + JSONText(sel)
	}
	spell := func(lit string, style int) string {
		l := "/" + lit + "/"
		op := "=~"
		if !regex {
			op = "=="
			l = pick(r.Chance(50), "'"+lit+"'", `"`+lit+`"`).(string)
		}
		switch style {
		case 0:
			return "$[?(@.a" + op + l + ")]"
		case 1:
			return "$[?(@.a " + op + " " + l + ")]"
		case 2:
			return "$[ ?( @.a  " + op + "  " + l + " ) ]"
		case 3:
			return " $[?(@.a " + op + " " + l + ")] "
		}
		return "$[?( @['a'] " + op + " " + l + " )]"
	}
	withCfg := r.Chance(25)
	rec.Tags = append(rec.Tags, fmt.Sprintf("literal-blanks:regex=%v", regex), fmt.Sprintf("literal-blanks:config-given=%v", withCfg))
	n := r.Range(3, 7)
	var hist []string
	first := r.Intn(len(vars))
	for c := 0; c < n; c++ {
		lit := vars[r.Intn(len(vars))]
		if c == 0 {
			lit = vars[first]
		}
		text := spell(lit, r.Intn(5))
		var out Outcome
		if withCfg {
			cfg := Config(false, nil)
			out = Run(text, doc, &cfg)
		} else {
			out = Run(text, doc, nil)
		}
		got := "err " + out.ErrKind
		if out.OK {
			got = "ok " + JSONText(out.Vals)
		} else if out.ErrKind == "panic" {
			got = "panic " + firstLines(out.Panic, 1)
		}
		hist = append(hist, text)
		if want := expect(lit); got != want && rec.Viol == "" {
			rec.Text, rec.Doc = text, JSONText(doc)
			rec.Viol = fmt.Sprintf("history of Parse calls %s in one process: %q (literal %q, blanks inside a literal are significant) on %s answers %s; a fresh process (the literal applied to the members) answers %s. Earlier calls of this history: %q",
				pick(withCfg, "with a Config", "WITHOUT a Config").(string), text, lit, clip(JSONText(doc), 400), clip(got, 300), clip(want, 300), hist[:len(hist)-1])
			rec.Class = "literal-blanks"
		}
	}
	rec.Info["history"] = hist
	if rec.Text == "" {
		rec.Text, rec.Doc = hist[len(hist)-1], JSONText(doc)
	}
	rec.Key = fmt.Sprintf("literal-blanks/%s/%v/%v", base, regex, withCfg)
	return rec
}

// ---------- (4) one long path parsed several times in a row ----------

func b16LongRepeat(r *Rng) Record {
	rec := Record{Info: map[string]interface{}{}, Tags: []string{"class:long-path-repeated"}}
	n := r.Range(420, 700)
	var path string
	var doc interface{}
	var want []interface{}
	kind := r.Intn(3)
	switch kind {
	case 0:
		list := []interface{}{"a", "b", "c", 4.0, map[string]interface{}{"x": 1.0}}[:r.Range(2, 5)]
		idx := make([]string, n)
		for i := range idx {
			j := r.Intn(len(list))
			want = append(want, list[j])
			if r.Chance(30) {
				j -= len(list)
			}
			idx[i] = fmt.Sprint(j)
		}
		path = "$.list[" + strings.Join(idx, ",") + "]"
		doc = map[string]interface{}{"list": list}
	case 1:
		m := map[string]interface{}{"a": 1.0, "b": "two", "c": []interface{}{3.0}, "d": nil}
		names := make([]string, n)
		for i := range names {
			k := r.Pick([]string{"a", "b", "c", "d", "zz", "none"})
			if v, ok := m[k]; ok {
				want = append(want, v)
			}
			names[i] = pick(r.Chance(50), "'"+k+"'", `"`+k+`"`).(string)
		}
		path = "$[" + strings.Join(names, ",") + "]"
		doc = m
	default:
		list := []interface{}{1.0, 2.0, 3.0}
		idx := make([]string, n)
		for i := range idx {
			j := r.Intn(3)
			want = append(want, map[string]interface{}{"v": list[j]})
			idx[i] = fmt.Sprint(j)
		}
		path = "$[" + strings.Join(idx, ",") + "]"
		doc = []interface{}{map[string]interface{}{"v": 1.0}, map[string]interface{}{"v": 2.0}, map[string]interface{}{"v": 3.0}}
	}
	withCfg := r.Chance(40)
	acc := withCfg && r.Chance(30)
	reps := r.Range(2, 3)
	rec.Text, rec.Doc = clip(path, 200), JSONText(doc)
	rec.Info["long-repeat"] = fmt.Sprintf("a union of %d members (%d characters) parsed %d times in a row, then `$.a`, then once more; Config given: %v, accessor mode: %v", n, len(path), reps, withCfg, acc)
	rec.Tags = append(rec.Tags, fmt.Sprintf("long-repeat:kind-%d", kind), fmt.Sprintf("long-repeat:config=%v", withCfg))
	parse := func(text string) (Parsed, Outcome) {
		if withCfg {
			cfg := Config(acc, nil)
			return SafeParse(text, &cfg)
		}
		return SafeParse(text, nil)
	}
	wantText := "ok [" + ValsSexp(want) + "]"
	if len(want) == 0 {
		wantText = "err member"
	}
	check := func(when string) bool {
		f, o := parse(path)
		var out Outcome
		if f == nil {
			out = o
		} else {
			out = SafeCall(f, DeepCopy(doc))
		}
		got := "err " + out.ErrKind
		if out.OK {
			vals := make([]interface{}, len(out.Vals))
			for i, v := range out.Vals {
				vals[i] = v
				if a, ok := v.(jsonpath.Accessor); ok && a.Get != nil {
					vals[i], _ = c12Get(a)
				}
			}
			got = "ok [" + ValsSexp(vals) + "]"
		} else if out.ErrKind == "panic" {
			got = "panic " + firstLines(out.Panic, 1)
		}
		if got != wantText {
			rec.Viol = fmt.Sprintf("the path %s (a union of %d members, %d characters; Config given: %v, accessor mode: %v) on %s, %s: Parse + call answers %s; the members the list denotes are %s",
				clip(path, 120), n, len(path), withCfg, acc, JSONText(doc), when, clip(got, 300), clip(wantText, 200))
			rec.Class = "long-repeat"
			return false
		}
		return true
	}
	parse("$.b16")
	for k := 1; k <= reps; k++ {
		if !check(fmt.Sprintf("Parse no. %d of %d of this very path in a row", k, reps)) {
			return rec
		}
	}
	parse("$.a")
	check("parsed once more after a Parse of `$.a`")
	rec.Key = fmt.Sprintf("long-repeat/%d/%v/%v", kind, withCfg, acc)
	return rec
}

// ---------- hooks of the runners ----------

// b16C13: accessor-mode overlap (even) / history with held accessors (odd).
func b16C13(r *Rng, n int) Record {
	if n%2 == 0 {
		return b16OverlapRecord(r, []string{"slice-filter", "slice-filter", "filter-operand", "desc-key", "generic"}, 100, false, false)
	}
	return b16HistoryRecord(r, []string{"fn-panic", "fn-err", "parse-fail"}, 85, 30)
}

// b16C16: `..k` / `@.k` under the three key spellings: overlap (even) / a function that panics at its K-th call, then
// the same parsed function on other documents (odd).
func b16C16(r *Rng, n int) Record {
	if n%2 == 0 {
		return b16OverlapRecord(r, []string{"desc-key", "filter-operand", "filter-operand"}, 15, false, true)
	}
	return b16HistoryRecord(r, []string{"fn-panic", "fn-panic", "fn-err"}, 20, 0)
}

// b16C12: a failed Parse / a faulty function, then accessor-mode follow-ups (n%3 == 0, 1); call parity (n%3 == 2).
func b16C12(r *Rng, n int) Record {
	switch n % 3 {
	case 0:
		return b16HistoryRecord(r, []string{"parse-fail"}, 75, 0)
	case 1:
		return b16HistoryRecord(r, []string{"parse-fail", "fn-panic", "fn-err"}, 75, 30)
	}
	return b16CallParity(r)
}

// b16C20: overlap with non-JSON leaves in document B.
func b16C20(r *Rng, n int) Record {
	OpaqueClass = c20Class
	return b16OverlapRecord(r, []string{"desc-key", "filter-operand", "filter-operand", "slice-filter"}, 10, true, false)
}

// b16C15: overlap of evaluations that fail at steps of different depth.
func b16C15(r *Rng, n int) Record {
	return b16OverlapRecord(r, []string{"union-fns", "union-fns", "union-fns", "desc-key", "filter-operand", "generic"}, 10, false, false)
}

// b16C02: a user function that panics / errs at its K-th call through Retrieve and through Parse + call.
func b16C02(r *Rng, n int) Record {
	return b16HistoryRecord(r, []string{"fn-panic", "fn-panic", "fn-err"}, 20, 70)
}
