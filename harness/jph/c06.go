package jph

import (
	"fmt"
	"regexp"
	"sort"
	"strings"
	"sync"
	"time"

	"github.com/AsaiYusuke/jsonpath"
)

// C06 — Parse and parsed functions are safe for concurrent use.
//
// Every case: 4..14 paths (a fixed corpus that covers every node, subscript and comparator
// kind, literal-vs-literal comparisons and paths Parse rejects, plus generated paths), three
// configurations (registry / registry + accessor mode / no Config at all), 3..7 shared read-only
// documents. First, alone: what a fresh Parse+call answers for every (path, config, document),
// and one shared parsed function per (path, config). Then 2..16 goroutines start together and
// each performs 40..400 operations: call a shared parsed function on a shared document, Parse
// a path and call the new function, Retrieve, Parse a path that is rejected. Every answer
// must equal the answer obtained alone. 35% of the cases add a document of records whose strings are
// LONG (64..200 bytes, sharing prefixes of 60+ bytes, some matching, some not, next to short strings and
// non-strings) and 2..4 paths that filter it with `=~` (c06LongStrings). The same runner is meant to be run in a binary built
// with -race and GORACE=halt_on_error=1 (bin/race_c06.sh): a data race then kills the worker
// and is reported as a crash finding.

type c06 struct{}

func init() { Props["C06"] = c06{} }

func (c06) Count(tier string) int {
	if tier == "thorough" {
		return 30000
	}
	return 3000
}

var c06Corpus = []string{
	// identifiers
	"$", "$.a", "$['a']", "$.c.b", "$.*", "$[*]", "$['a','b']", "$['a',*]", "$[*,*]", "$['zz','a']", "$.c.*", "$.d.*.a", "$[*].a",
	// subscripts
	"$[0]", "$[-1]", "$[0,2]", "$[1:3]", "$[::2]", "$[::-1]", "$[2:0:-1]", "$[0,1:3,*]", "$.d[0]", "$.d[1:]", "$.d[-2:]", "$.d[::-2]", "$.c.b[0,0,1]", "$[5][*]",
	// recursive descent
	"$..a", "$..*", "$..[0]", "$..['a','b']", "$..[?(@.a)]", "$..b[1]", "$..[1:]", "$..[*]",
	// filters: existence, negation, every comparator against every literal type
	"$[?(@.a)]", "$[?(!@.a)]", "$.d[?(@.a)]", "$.d[?(!@.b)]", "$[?(@.a == 1)]", "$[?(@.a != 1)]", "$[?(@.a < 2)]", "$[?(@.a <= 1)]",
	"$[?(@.a > 1)]", "$[?(@.a >= 2)]", "$[?(@.a =~ /a/)]", "$[?(@.a == 'a')]", "$[?(@.a == true)]", "$[?(@.a == null)]", "$[?(@.a != 'a')]",
	"$.d[?(@.a == 1)]", "$.d[?(@.a != 1)]", "$.d[?(@.a < 2)]", "$.d[?(@.a <= 1)]", "$.d[?(@.a > 1)]", "$.d[?(@.a >= 2)]", "$.d[?(@.a =~ /a/)]",
	"$.d[?(@.a == 'a')]", "$.d[?(@.a == true)]", "$.d[?(@.a == null)]", "$[?(@ == 2)]", "$.c.b[?(@ > 1)]", "$[?(1 < @.a)]", "$.d[?(2 >= @.a)]",
	// `$`-rooted operands, both orders, deep equality
	"$[?(@.a == $.b)]", "$[?(@.a != $.b)]", "$.d[?(@.a == $.a)]", "$.d[?(@.b != $.b)]", "$.d[?($.a == @.a)]", "$[?($.a == 1)]", "$[?(1 == $.a)]",
	"$.d[?($.a == 1)]", "$.d[?($.a != 1)]", "$.d[?($.a > 0)]", "$.d[?($.b <= 1)]", "$[?($.a == $.b)]", "$.d[?($.a != $.b)]", "$.d[?($.a < $.b)]",
	"$.d[?($.zz == $.yy)]", "$.d[?(@.zz != $.yy)]", "$[?($[0].a == 1)]", "$[?($[0].a > @.a)]", "$[?(@.a == $[1].b)]", "$.d[?($.c == @.zz)]",
	// literal against literal
	"$[?(1 == 2)]", "$[?(1 == 1)]", "$[?(1 != 2)]", "$[?(2 < 1)]", "$[?(1 < 2)]", "$[?(2 >= 3)]", "$[?(1 <= 1)]", "$[?('a' == 'b')]", "$[?('a' == 'a')]",
	"$[?(true == false)]", "$[?(null == null)]", "$[?(1 == 'a')]", "$.d[?(1 == 2)]", "$.d[?(1 == 1)]", "$.d[?(3 > 2)]", "$.d[?(null != 1)]",
	// logic
	"$[?(@.a == 1 && @.b == 1)]", "$[?(@.a == 1 || @.b == 2)]", "$[?((@.a == 1 || @.b) && !@.c)]", "$.d[?(@.a == 1 && @.b == 2)]", "$.d[?(@.a == 2 || @.c)]",
	"$.d[?(@.a != 1 && @.b != $.b || 1 == 2)]", "$.d[?(!@.a || !@.b)]", "$[?(@.a && 1 == 2)]", "$[?(@.a || 1 == 1)]",
	// functions
	"$.a.twice()", "$.*.id()", "$.c.b.max()", "$.c.b.*.max()", "$.*.count()", "$.c.b.list()", "$.c.b.first().twice()", "$.a.failAll()", "$.*.failAgg()",
	"$[*].a.max()", "$.d.*.a.list()", "$.*.same()", "$.c.b.same()", "$[*].same()", "$.d[?(@.a.twice() == 2)]", "$[?(@.max() > 1)]", "$.d[?(@.*)]", "$[?(@..a)]",
	"$.c.b.wrap()", "$.c.b[*].failOdd()", "$[5].max().twice()", "$['a','b'].max()", "$..a.count()", "$.d[?(@.a)].a.list()",
}

var c06Rejected = []string{"$[", "", "$..", "$a", "$.a.unknown()", "$[(1+1)]", "$[?(@.a == @.b)]", "$[?(@.* == 1)]", "$[99999999999999999999]", "$.a.", "$[?(@.a =~ /(/)]", "$[?(@.a == )]", "$['a", "$[?(é)]あ"}

func c06DocA() interface{} {
	return map[string]interface{}{"a": 1.0, "b": 2.0,
		"c": map[string]interface{}{"a": 1.0, "b": []interface{}{1.0, 2.0, 3.0}, "c": "a"},
		"d": []interface{}{
			map[string]interface{}{"a": 1.0, "b": 2.0}, map[string]interface{}{"a": 2.0, "b": 2.0},
			map[string]interface{}{"b": 1.0, "a": "a"}, map[string]interface{}{"a": true}, map[string]interface{}{"a": nil}, map[string]interface{}{"c": 1.0}}}
}

func c06DocB() interface{} {
	return []interface{}{map[string]interface{}{"a": 1.0, "b": 1.0}, map[string]interface{}{"a": 2.0, "b": 2.0, "c": 3.0},
		map[string]interface{}{"a": "a"}, map[string]interface{}{"a": true}, map[string]interface{}{"a": nil},
		[]interface{}{1.0, 2.0, 3.0}, 5.0, map[string]interface{}{"a": map[string]interface{}{"a": 1.0}}}
}

var c06Tokens = []string{"(child ", "(wild ", "(multi ", "(twin ", "(desc ", "(union ", "(filter ", "(ffn ", "(afn ", "(i ", "(slp ", "(sln ",
	"(cmp (eq num)", "(cmp (eq bool)", "(cmp (eq str)", "(cmp (eq null)", "(cmp deq", "(cmp lt", "(cmp le", "(cmp gt", "(cmp ge", "(cmp (regex",
	"(or ", "(and ", "(not ", "(lit ", "(proot ", "(pcur "}

var c06LitLit = regexp.MustCompile(`\(cp [tf] \(lit \([^()]*(\([^()]*\))?[^()]*\)\)\) \(cp [tf] \(lit `)

// configurations: 0 the whole registry (+ same/keep), 1 accessor mode with another registry
// (`twice` multiplies by 3, no max / failAll / failAgg / keep), 2 no Config at all (no
// functions: a path with a function must be rejected whatever other goroutines parse).
// A setting that leaks from one Parse into another therefore changes an answer.
const c06NCfg = 3

var c06CfgName = []string{"registry", "accessor+other-registry", "none"}

func c06OtherConfig() jsonpath.Config {
	c := jsonpath.Config{}
	c.SetFilterFunction("id", fnID)
	c.SetFilterFunction("twice", func(v interface{}) (interface{}, error) {
		if f, ok := v.(float64); ok {
			return 3 * f, nil
		}
		return nil, errFn
	})
	c.SetFilterFunction("wrap", fnWrap)
	c.SetFilterFunction("failOdd", fnFailOdd)
	c.SetAggregateFunction("count", agCount)
	c.SetAggregateFunction("first", agFirst)
	c.SetAggregateFunction("list", agList)
	c.SetAggregateFunction("same", func(vs []interface{}) (interface{}, error) { return vs, nil })
	c.SetAccessorMode()
	return c
}

// c06Canon: like c05Canon, but an accessor prints differently from a plain value
func c06Canon(o Outcome) string {
	if !o.OK {
		return c05Canon(o)
	}
	parts := make([]string, len(o.Vals))
	for i, v := range o.Vals {
		if a, ok := v.(jsonpath.Accessor); ok {
			set := "set"
			if a.Set == nil {
				set = "noset"
			}
			parts[i] = "(acc " + ValSexp(a.Get()) + " " + set + ")"
		} else {
			parts[i] = ValSexp(v)
		}
	}
	return "ok " + strings.Join(parts, " ")
}

type c06Item struct {
	text   string
	exp    [c06NCfg][]string // [config][document]
	shared [c06NCfg]Parsed
}

func c06Retrieve(text string, doc interface{}, cfg *jsonpath.Config) (out Outcome) {
	defer func() {
		if e := recover(); e != nil {
			out = Outcome{ErrKind: "panic", Panic: fmt.Sprintf("%v", e)}
		}
	}()
	var vals []interface{}
	var err error
	if cfg != nil {
		vals, err = jsonpath.Retrieve(text, doc, *cfg)
	} else {
		vals, err = jsonpath.Retrieve(text, doc)
	}
	if err != nil {
		return classify(err)
	}
	return Outcome{OK: true, Vals: vals}
}

type c06Out struct {
	mismatch   string
	start, end time.Time
	shared     int
}

// c06MaxLen: the longest array this worker process has handed to the library so far. The cold-start
// block below uses arrays longer than that, so that anything the library sizes lazily "for the
// largest input seen so far" (caches, tables, pooled buffers) grows WHILE several goroutines run.
var c06MaxLen = 16

func c06ColdStart(r *Rng) string {
	G := r.Range(2, 8)
	base := c06MaxLen
	c06MaxLen = base*2 + r.Range(1, 50)
	paths := []string{"$[1:]", "$[0:2]", "$[*,0]", "$[*]", "$[::2]", "$..[0]", "$[?(@ >= 0)]", "$[-1:]", "$[::-1]"}
	var wg sync.WaitGroup
	errs := make([]string, G)
	start := make(chan struct{})
	for w := 0; w < G; w++ {
		wg.Add(1)
		n := base + 1 + (w*(c06MaxLen-base))/G
		pick := r.Intn(len(paths))
		go func(w, n, pick int) {
			defer wg.Done()
			arr := make([]interface{}, n)
			for k := range arr {
				arr[k] = float64(k)
			}
			<-start
			for rep := 0; rep < 3; rep++ {
				path := paths[(pick+rep)%len(paths)]
				o := Run(path, arr, nil)
				want := -1
				switch path {
				case "$[1:]":
					want = n - 1
				case "$[0:2]":
					want = 2
				case "$[*,0]":
					want = n + 1
				case "$[*]", "$[?(@ >= 0)]", "$[::-1]":
					want = n
				case "$[::2]":
					want = (n + 1) / 2
				case "$..[0]", "$[-1:]":
					want = 1
				}
				if !o.OK || len(o.Vals) != want {
					errs[w] = fmt.Sprintf("cold start: %s on [0..%d) in goroutine %d of %d: %s (expected %d values)", path, n, w, G, clip(o.Detail(), 200), want)
					return
				}
			}
		}(w, n, pick)
	}
	close(start)
	wg.Wait()
	for _, e := range errs {
		if e != "" {
			return e
		}
	}
	return ""
}

func (c06) Exec(seed int64, i int, tier string) Record {
	if i%10 == 4 {
		return c06OverlapCase(CaseRng(seed, "C06", i))
	}
	if i%50 == 17 {
		return c06BigCase(CaseRng(seed, "C06", i)) // b13_helpers.go
	}
	r := CaseRng(seed, "C06", i)
	coldViol := ""
	if r.Chance(30) && c06MaxLen < 1<<20 {
		coldViol = c06ColdStart(r)
	}
	docs := []interface{}{c06DocA(), c06DocB()}
	var texts []string
	ngen := r.Range(1, 4)
	for k := 0; k < ngen; k++ {
		var d interface{}
		var p *Path
		if r.Chance(55) {
			d, p, _ = c04GenCase(r)
		} else {
			d, p = GenCase(r, DefaultOpts())
		}
		if r.Chance(25) {
			p.Fns = append(p.Fns, Fn{Agg: true, Name: "same"})
		}
		texts = append(texts, Render(p, r))
		if r.Chance(30) {
			d = ToJnum(d)
		}
		docs = append(docs, d)
	}
	if r.Chance(40) {
		docs = append(docs, ToJnum(docs[r.Intn(2)]))
	}
	longStrings := r.Chance(35)
	if longStrings {
		d, ps := c06LongStrings(r)
		docs = append(docs, d)
		if r.Chance(50) {
			d2, _ := c06LongStrings(r)
			docs = append(docs, d2)
		}
		texts = append(texts, ps...)
	}
	ncorp := r.Range(3, 8)
	for k := 0; k < ncorp; k++ {
		texts = append(texts, r.Pick(c06Corpus))
	}
	nrej := r.Range(0, 2)
	for k := 0; k < nrej; k++ {
		texts = append(texts, r.Pick(c06Rejected))
	}
	docTexts := make([]string, len(docs))
	for d := range docs {
		docTexts[d] = JSONText(docs[d])
	}
	rec := Record{Text: strings.Join(texts, "   |   "), Doc: docTexts[0]}
	rec.Info = map[string]interface{}{"paths": texts, "documents": docTexts}
	if coldViol != "" {
		rec.Viol = coldViol
		rec.Class = "concurrent-differs"
		return rec
	}

	cfgPlain, cfgAcc := c05Config(false, nil), c06OtherConfig()
	cfgs := [c06NCfg]*jsonpath.Config{&cfgPlain, &cfgAcc, nil}
	toks := map[string]bool{}
	items := make([]*c06Item, len(texts))
	nShared := 0
	for k, t := range texts {
		it := &c06Item{text: t}
		for c := 0; c < c06NCfg; c++ {
			it.exp[c] = make([]string, len(docs))
			if c == 0 {
				_, _, tree := ParseTree(t, cfgs[c])
				for _, tok := range c06Tokens {
					if strings.Contains(tree, tok) {
						toks[strings.Trim(tok, "( ")] = true
					}
				}
				if c06LitLit.MatchString(tree) {
					toks["cmp:lit-lit"] = true
				}
			}
			for d := range docs {
				o := Run(t, docs[d], cfgs[c])
				it.exp[c][d] = c06Canon(o)
				if o.ErrKind == "panic" {
					rec.Viol = "panic when run alone: path " + t + " document " + clip(docTexts[d], 300) + ": " + o.Panic
					rec.Class = "abnormal"
					return rec
				}
			}
			it.shared[c], _ = SafeParse(t, cfgs[c])
			if it.shared[c] != nil {
				nShared++
			} else if c == 0 {
				toks["rejected-by-Parse"] = true
			}
		}
		items[k] = it
	}

	var rejExp [c06NCfg][]string
	for c := 0; c < c06NCfg; c++ {
		rejExp[c] = make([]string, len(c06Rejected))
		for k, t := range c06Rejected {
			f, o := SafeParse(t, cfgs[c])
			rejExp[c][k] = c06Canon(o)
			if f != nil || o.OK {
				rejExp[c][k] = "accepted"
			}
		}
	}

	G := []int{2, 2, 3, 4, 4, 6, 8, 8, 12, 16}[r.Intn(10)]
	M := r.Range(40, 200)
	if G <= 3 {
		M *= 2
	}
	outs := make([]c06Out, G)
	rngs := make([]*Rng, G)
	for w := range rngs {
		rngs[w] = NewRng(r.Next())
	}
	var wg sync.WaitGroup
	start := make(chan struct{})
	for w := 0; w < G; w++ {
		wg.Add(1)
		go func(w int) {
			defer wg.Done()
			gr := rngs[w]
			<-start
			res := c06Out{start: time.Now()}
			for n := 0; n < M && res.mismatch == ""; n++ {
				it := items[gr.Intn(len(items))]
				c := gr.Weighted([]int{40, 35, 25})
				d := gr.Intn(len(docs))
				var got, how string
				switch gr.Weighted([]int{45, 30, 15, 10}) {
				case 0:
					if it.shared[c] != nil {
						how = "shared parsed function"
						got = c06Canon(SafeCall(it.shared[c], docs[d]))
						res.shared++
						break
					}
					fallthrough
				case 1:
					how = "Parse + call"
					f, o := SafeParse(it.text, cfgs[c])
					if f != nil {
						o = SafeCall(f, docs[d])
					}
					got = c06Canon(o)
				case 2:
					how = "Retrieve"
					got = c06Canon(c06Retrieve(it.text, docs[d], cfgs[c]))
				default:
					how = "Parse of a rejected path"
					k := gr.Intn(len(c06Rejected))
					f, o := SafeParse(c06Rejected[k], cfgs[c])
					got = c06Canon(o)
					if f != nil || o.OK {
						got = "accepted"
					}
					if got != rejExp[c][k] {
						res.mismatch = fmt.Sprintf("goroutine %d op %d: Parse(%q) while others run: concurrent=%s alone=%s", w, n, c06Rejected[k], clip(got, 300), clip(rejExp[c][k], 300))
					}
					continue
				}
				if got != it.exp[c][d] {
					res.mismatch = fmt.Sprintf("goroutine %d op %d (%s, config=%s): path %s on document %s: concurrent=%s alone=%s",
						w, n, how, c06CfgName[c], it.text, clip(docTexts[d], 300), clip(got, 300), clip(it.exp[c][d], 300))
				}
			}
			res.end = time.Now()
			outs[w] = res
		}(w)
	}
	close(start)
	wg.Wait()

	sharedCalls := 0
	for _, o := range outs {
		sharedCalls += o.shared
		if o.mismatch != "" && rec.Viol == "" {
			rec.Viol = fmt.Sprintf("%d goroutines: %s", G, o.mismatch)
			rec.Class = "concurrent-differs"
		}
	}
	if rec.Viol != "" {
		return rec
	}
	// afterwards, alone again: the shared functions still answer as before
	for _, it := range items {
		for c := 0; c < c06NCfg; c++ {
			if it.shared[c] == nil {
				continue
			}
			for d := range docs {
				if got := c06Canon(SafeCall(it.shared[c], docs[d])); got != it.exp[c][d] {
					rec.Viol = fmt.Sprintf("after %d goroutines used it, the shared function of %s (config=%s) answers %s on %s; alone before: %s",
						G, it.text, c06CfgName[c], clip(got, 300), clip(docTexts[d], 300), clip(it.exp[c][d], 300))
					rec.Class = "concurrent-differs"
					return rec
				}
			}
		}
	}

	// how many goroutines were inside their loops at the same time
	type ev struct {
		t time.Time
		d int
	}
	var evs []ev
	for _, o := range outs {
		evs = append(evs, ev{o.start, 1}, ev{o.end, -1})
	}
	sort.Slice(evs, func(a, b int) bool { return evs[a].t.Before(evs[b].t) })
	cur, maxc := 0, 0
	for _, e := range evs {
		cur += e.d
		if cur > maxc {
			maxc = cur
		}
	}
	ov := "1"
	switch {
	case maxc >= 8:
		ov = "8+"
	case maxc >= 4:
		ov = "4-7"
	case maxc >= 2:
		ov = "2-3"
	}
	rec.Tags = append(rec.Tags, fmt.Sprintf("goroutines:%02d", G), "overlapping-goroutines:"+ov)
	if longStrings {
		rec.Tags = append(rec.Tags, "doc:long-strings-under-regex")
	}
	var tl []string
	for t := range toks {
		tl = append(tl, t)
	}
	sort.Strings(tl)
	for _, t := range tl {
		rec.Tags = append(rec.Tags, "has:"+t)
	}
	if c06Race {
		rec.Tags = append(rec.Tags, "race-detector:on")
	} else {
		rec.Tags = append(rec.Tags, "race-detector:off")
	}
	rec.Info["goroutines"] = G
	rec.Info["ops_per_goroutine"] = M
	if nShared > 0 && sharedCalls >= 2 {
		rec.Key = fmt.Sprintf("G%d/%s", G, strings.Join(tl, ","))
	}
	return rec
}

var c06Words = []string{"alpha", "beta", "gamma", "needle", "x1", "ab", "tempor", "omega"}

// c06LongStrings: an array of 6..24 records {"a": string, "b": number} (a third of the cases below a key `d`) whose
// strings are mostly 64..200 bytes long, and 2..4 paths filtering it with a regular expression (plain words, a long
// literal prefix, an anchored word).
func c06LongStrings(r *Rng) (interface{}, []string) {
	n := r.Range(6, 24)
	arr := make([]interface{}, n)
	var longs []string
	for k := range arr {
		m := map[string]interface{}{"b": float64(k)}
		switch r.Weighted([]int{70, 10, 10, 10}) {
		case 0:
			if len(longs) > 0 && r.Chance(25) {
				m["a"] = longs[r.Intn(len(longs))] // the same long string again
			} else {
				s := ScaleLongString(r, c06Words)
				longs = append(longs, s)
				m["a"] = s
			}
		case 1:
			m["a"] = r.Pick(c06Words)
		case 2:
			m["a"] = float64(r.Range(0, 9))
		}
		arr[k] = m
	}
	var doc interface{} = arr
	under := r.Chance(35)
	if under {
		doc = map[string]interface{}{"d": arr, "a": ScaleLongString(r, c06Words), "b": 1.0}
	}
	var texts []string
	for k := r.Range(2, 4); k > 0; k-- {
		re := r.Pick(c06Words)
		switch r.Intn(6) {
		case 0:
			re = "lorem ipsum dolor sit amet consectetur adipiscing elit sed do eiusmod tempor "
		case 1:
			re = re + "$"
		case 2:
			re = "^lorem.*" + re
		}
		q := &Query{Kind: QRegex, P: &Path{Head: HeadCur, Steps: []*Step{{Kind: StChild, Key: "a"}}}, Re: re}
		if r.Chance(25) {
			q = &Query{Kind: QKind(r.Intn(2)), A: q, B: &Query{Kind: QRegex, P: &Path{Head: HeadCur, Steps: []*Step{{Kind: StChild, Key: "a"}}}, Re: r.Pick(c06Words)}}
		}
		p := &Path{Head: HeadRoot}
		switch {
		case under && r.Chance(70):
			p.Steps = append(p.Steps, &Step{Kind: StChild, Key: "d"})
		case r.Chance(30):
			p.Steps = append(p.Steps, &Step{Kind: StDesc, Inner: &Step{Kind: StFilter, Q: q}})
		}
		if len(p.Steps) == 0 || p.Steps[0].Kind != StDesc {
			p.Steps = append(p.Steps, &Step{Kind: StFilter, Q: q})
		}
		if r.Chance(40) {
			p.Steps = append(p.Steps, &Step{Kind: StChild, Key: r.Pick([]string{"a", "b"})})
		}
		texts = append(texts, Render(p, r))
	}
	return doc, texts
}

// ---------- class overlap-without-threads ----------
//
// One case in ten, ONE goroutine: evaluations of shared parsed functions overlap because a user
// filter function (`reent`, registered next to the registry; it returns its argument) is called in
// the middle of an evaluation and then itself calls the SAME shared function on another document,
// another shared function, Parse + call, Retrieve, or a Parse that is rejected (nested up to 3
// levels). Every answer, inner or outer, must equal the answer obtained alone (with `reent` = the
// identity and nothing else going on). What threads do to a shared parsed function by preemption,
// this does deterministically.
var c06ReentCorpus = []string{
	"$.d[?(@.a.reent() == 1)]", "$[?(@.a.reent())]", "$.d[?(!@.b.reent())]", "$.d[?(@.a.reent() > $.a.reent())]", "$..a.reent()",
	"$.d[?(@.a.reent() == 1 || @.b.reent() == 2)]", "$.d[?(@.a.reent() != 1 && @.b)].a.reent()", "$[?(@.a == $[1].b.reent())]",
	"$.d[?(2 >= @.a.reent())]", "$[?(1 < @.a.reent())].a", "$..[?(@.a.reent() == 2)]", "$.d[?(@.a.reent() =~ /a/)]", "$.c.b[?(@.reent() > 1)]",
	"$[*].a.reent().twice()", "$.d[?(@.a.twice().reent() == 2)]", "$.d[?($.a.reent() == @.a)]", "$.c.b.reent().max()",
}

func c06OverlapCase(r *Rng) Record {
	docs := []interface{}{c06DocA(), c06DocB()}
	texts := []string{}
	ngen := r.Range(1, 3)
	for k := 0; k < ngen; k++ {
		var d interface{}
		var p *Path
		switch r.Weighted([]int{40, 30, 30}) {
		case 0:
			d, p = b7GenRecCase(r, 30)
		case 1:
			d, p, _ = c04GenCase(r)
		default:
			d, p = GenCase(r, DefaultOpts())
		}
		if nc, nr, nt := b7InjectReent(r, p, 75); nc+nr+nt == 0 {
			p.Fns = append(p.Fns, Fn{Name: b7ReentName})
		}
		texts = append(texts, Render(p, r))
		alt := b7AltDoc(r, d, []int{30, 60, 100}[r.Intn(3)])
		if r.Chance(30) {
			d, alt = ToJnum(d), ToJnum(alt)
		}
		docs = append(docs, d, alt)
	}
	ncorp := r.Range(2, 5)
	for k := 0; k < ncorp; k++ {
		texts = append(texts, r.Pick(c06ReentCorpus))
	}
	for k := r.Range(0, 2); k > 0; k-- {
		texts = append(texts, r.Pick(c06Corpus))
	}
	docTexts := make([]string, len(docs))
	for d := range docs {
		docTexts[d] = JSONText(docs[d])
	}
	rec := Record{Text: strings.Join(texts, "   |   "), Doc: docTexts[0], Tags: []string{"class:overlap-without-threads"}}
	rec.Info = map[string]interface{}{"paths": texts, "documents": docTexts}

	const ncfg = 2
	var alone, live [ncfg]jsonpath.Config
	for c := 0; c < ncfg; c++ {
		alone[c] = c05Config(c == 1, nil)
		alone[c].SetFilterFunction(b7ReentName, fnID)
		live[c] = c05Config(c == 1, nil)
	}
	type item struct {
		text   string
		exp    [ncfg][]string
		shared [ncfg]Parsed
	}
	items := make([]*item, len(texts))
	for k, t := range texts {
		it := &item{text: t}
		for c := 0; c < ncfg; c++ {
			it.exp[c] = make([]string, len(docs))
			for d := range docs {
				o := Run(t, docs[d], &alone[c])
				it.exp[c][d] = c06Canon(o)
				if o.ErrKind == "panic" {
					rec.Viol = "panic when run alone: path " + t + " document " + clip(docTexts[d], 300) + ": " + o.Panic
					rec.Class = "abnormal"
					return rec
				}
			}
		}
		items[k] = it
	}
	var rejExp [ncfg][]string
	for c := 0; c < ncfg; c++ {
		rejExp[c] = make([]string, len(c06Rejected))
		for k, t := range c06Rejected {
			f, o := SafeParse(t, &alone[c])
			rejExp[c][k] = c06Canon(o)
			if f != nil || o.OK {
				rejExp[c][k] = "accepted"
			}
		}
	}

	// the live configuration: `reent` performs another operation in the middle of the evaluation
	maxDepth := r.Range(1, 3)
	depth, budget, inner, innerSame := 0, 0, 0, 0
	mismatch := ""
	var stack []string // what is being evaluated, outermost first
	var cur []*item
	var curCfg []int
	var op func(it *item, c, d int, how int)
	hook := func(v interface{}) (interface{}, error) {
		if depth >= maxDepth || budget <= 0 || mismatch != "" || len(cur) == 0 {
			return v, nil
		}
		budget--
		inner++
		it, c := cur[len(cur)-1], curCfg[len(curCfg)-1]
		how := r.Weighted([]int{45, 20, 15, 10, 10})
		if how == 0 {
			innerSame++
		} else {
			it = items[r.Intn(len(items))]
			if how == 1 {
				c = r.Intn(ncfg)
			}
		}
		op(it, c, r.Intn(len(docs)), how)
		return v, nil
	}
	for c := 0; c < ncfg; c++ {
		live[c].SetFilterFunction(b7ReentName, hook)
	}
	nShared := 0
	for _, it := range items {
		for c := 0; c < ncfg; c++ {
			it.shared[c], _ = SafeParse(it.text, &live[c])
			if it.shared[c] != nil {
				nShared++
			}
		}
	}
	op = func(it *item, c, d int, how int) {
		var got, what string
		switch {
		case how <= 1 && it.shared[c] != nil:
			what = "shared parsed function"
			if how == 0 && depth > 0 {
				what = "the SAME shared parsed function"
			}
		case how == 3:
			what = "Retrieve"
		case how == 4:
			k := r.Intn(len(c06Rejected))
			f, o := SafeParse(c06Rejected[k], &live[c])
			got = c06Canon(o)
			if f != nil || o.OK {
				got = "accepted"
			}
			if got != rejExp[c][k] && mismatch == "" {
				mismatch = fmt.Sprintf("Parse(%q) inside [%s]: %s, alone: %s", c06Rejected[k], strings.Join(stack, " > "), clip(got, 300), clip(rejExp[c][k], 300))
			}
			return
		default:
			what = "Parse + call"
		}
		stack = append(stack, fmt.Sprintf("%s of %s (config %d) on document %d", what, it.text, c, d))
		cur, curCfg = append(cur, it), append(curCfg, c)
		depth++
		switch what {
		case "Retrieve":
			got = c06Canon(c06Retrieve(it.text, docs[d], &live[c]))
		case "Parse + call":
			f, o := SafeParse(it.text, &live[c])
			if f != nil {
				o = SafeCall(f, docs[d])
			}
			got = c06Canon(o)
		default:
			got = c06Canon(SafeCall(it.shared[c], docs[d]))
		}
		depth--
		cur, curCfg = cur[:len(cur)-1], curCfg[:len(curCfg)-1]
		if got != it.exp[c][d] && mismatch == "" {
			mismatch = fmt.Sprintf("[%s]: answered %s; alone: %s (document %s)", strings.Join(stack, " > "), clip(got, 300), clip(it.exp[c][d], 300), clip(docTexts[d], 300))
		}
		stack = stack[:len(stack)-1]
	}
	M := r.Range(20, 80)
	for n := 0; n < M && mismatch == ""; n++ {
		budget = 60
		depth = 0
		op(items[r.Intn(len(items))], r.Intn(ncfg), r.Intn(len(docs)), r.Weighted([]int{0, 70, 15, 15, 0}))
	}
	if mismatch != "" {
		rec.Viol = "one goroutine, overlapping evaluations: " + mismatch
		rec.Class = "concurrent-differs"
		return rec
	}
	// afterwards, alone again: the shared functions still answer as before
	maxDepth = 0
	for _, it := range items {
		for c := 0; c < ncfg; c++ {
			if it.shared[c] == nil {
				continue
			}
			for d := range docs {
				if got := c06Canon(SafeCall(it.shared[c], docs[d])); got != it.exp[c][d] {
					rec.Viol = fmt.Sprintf("after the overlapping evaluations the shared function of %s (config %d) answers %s on %s; alone before: %s",
						it.text, c, clip(got, 300), clip(docTexts[d], 300), clip(it.exp[c][d], 300))
					rec.Class = "concurrent-differs"
					return rec
				}
			}
		}
	}
	rec.Info["outer_operations"] = M
	rec.Info["inner_operations"] = inner
	if inner > 0 {
		rec.Tags = append(rec.Tags, "overlap:inner-operations-ran")
	}
	if innerSame > 0 {
		rec.Tags = append(rec.Tags, "overlap:same-function-re-entered")
	}
	if c06Race {
		rec.Tags = append(rec.Tags, "race-detector:on")
	} else {
		rec.Tags = append(rec.Tags, "race-detector:off")
	}
	if nShared > 0 && innerSame > 0 {
		rec.Key = fmt.Sprintf("overlap/%d/%s", len(items), c02Skeleton(texts[0], 12))
	}
	return rec
}
