package jph

import (
	"encoding/json"
	"go/ast"
	"go/parser"
	"go/token"
	"os"
	"path/filepath"
	"reflect"
	"regexp"
	"runtime"
	"strconv"
	"strings"
	"sync"
	"unicode/utf8"

	"github.com/AsaiYusuke/jsonpath"
)

// String generators shared by C02 (Parse is total) and C03 (evaluation is total).
//
//	(a) c02Enum        bounded-exhaustive reduced grammar, enumerated by index
//	(b) c02GenValid    random grammar-derived valid paths (GenCase + Render)
//	(c) c02GenMutant   rune-level mutations / splices of (b) and of the test suite's own paths
//	(d) c02GenSoup     token soup over the grammar's terminals
//	(e) c02GenUnicode  arbitrary Unicode and invalid UTF-8, raw and inside path contexts
//	(f) c02GenNest     deep nesting of brackets, filters and parentheses
//	(g) c02GenNumber   numeric spellings at and around the int / float limits in every number position
//
//	(h) c02GenLong     long VALID paths (class `long`, C02 only): unions of 17..40 subscripts, multi-name lists
//	                   of 16..40 names, 70..120 steps, 20..45 nested filters, long logical chains
//
// Every string is clipped to 256 runes, those of (h) to 4096.

const c02MaxRunes = 256

func c02Clip(s string) string {
	n := 0
	for i := range s {
		if n == c02MaxRunes {
			return s[:i]
		}
		n++
	}
	return s
}

// ---------- (a) bounded-exhaustive reduced grammar ----------

// operand kinds of a comparison: literals of every type, `@`- and `$`-paths (single value and
// value group), paths with filter / aggregate functions (nested aggregates included), junk.
var c02Operands = []string{
	// numbers
	"1", "-1", "+0", "1.5", "1e2", "1e999", "1x",
	// strings, bools, null
	"'a'", `"a"`, "''", "true", "FALSE", "null",
	// current-node paths: single value
	"@", "@.a", "@[0]", "@['a']", "@.a.b", "@.a[1]",
	// current-node paths: value groups
	"@.*", "@[*]", "@..a", "@[0:1]", "@[0,1]", "@['a','b']", "@[?(@.a)]", "@[?(@.a>1)]",
	// root paths
	"$", "$.a", "$[0]", "$.a.b", "$.*", "$..a", "$[0,1]", "$[?(@.a)]",
	// filter functions
	"@.id()", "@.a.id()", "@.*.id()", "$.id()",
	// aggregate functions, nested
	"@.max()", "@.a.max()", "@.*.max()", "@.max().max()", "@.a.max().max()", "@.*.max().max()",
	"@.max().max().max()", "@.id().max()", "@.max().id()", "@.max().id().max()",
	"$.max()", "$.a.max().max()", "$.*.max()", "$.max().id().max()",
	// unknown functions
	"@.nope()", "$.nope()",
	// junk
	"", "a", "(1)", "@@", "$a",
}

var c02CmpOps = []string{"==", "!=", "<", "<=", ">", ">="}

var c02Regexes = []string{"/a/", "/(/", "//", `/a\/b/`, "/[a-z]+$/"}

// step kinds of the reduced grammar (plus a few broken tokens)
var c02StepKinds = []string{
	".a", "['a']", `["b"]`, ".*", "[*]", "['a','b']", "[*,*]", "['a',*]",
	"[0]", "[-1]", "[0,1]", "[0:1]", "[::2]", "[::-1]", "[1:]", "[0,*]",
	"[?(@.a)]", "[?(@.a==1)]", "[?(@.a>$.b)]",
	"..a", "..*", "..[0]", "..['a','b']", "..[?(@.a)]", "..['a']", "..[*]", "..[0:1]",
	"[(1)]", ".id()", ".max()", ".nope()",
	".", "[",
}

// basic queries combined by the logical operators
var c02Basics = []string{
	"@.a", "!@.a", "@.a==1", "1==@.a", "$.a==@.a", "@.a=~/a/", "@.a<1", "(@.a)", "@.max().max()==1",
	"1<2", "@.*==1", "@.a==@.b", "!$", "@.a.nope()", "1e999==1", "",
}

type c02Section struct {
	name string
	from int
}

var c02EnumOnce sync.Once
var c02Sentences []string
var c02Sections []c02Section

func c02Enum() []string {
	c02EnumOnce.Do(func() {
		var out []string
		sec := func(name string) { c02Sections = append(c02Sections, c02Section{name, len(out)}) }
		// every comparison operator x operand kind x operand kind (both orders by construction)
		sec("enum-cmp")
		for _, op := range c02CmpOps {
			for _, l := range c02Operands {
				for _, r := range c02Operands {
					out = append(out, "$[?("+l+op+r+")]")
				}
			}
		}
		sec("enum-regex")
		for _, l := range c02Operands {
			for _, re := range c02Regexes {
				out = append(out, "$[?("+l+"=~"+re+")]")
			}
		}
		sec("enum-exist")
		for _, l := range c02Operands {
			out = append(out, "$[?("+l+")]", "$[?(!"+l+")]", "$[?(("+l+"))]", "$[?(!("+l+"))]", "$..[?( "+l+" )]", "$.a[?("+l+")].b")
		}
		sec("enum-logic")
		for _, op := range []string{"&&", "||"} {
			for _, a := range c02Basics {
				for _, b := range c02Basics {
					out = append(out, "$[?("+a+op+b+")]")
				}
			}
		}
		for _, a := range c02Basics {
			for _, b := range c02Basics[:8] {
				for _, c := range c02Basics[:8] {
					out = append(out, "$[?("+a+"&&("+b+"||"+c+"))]", "$[?("+a+" || "+b+" && !"+c+")]")
				}
			}
		}
		// every step-kind sequence up to length 3 after `$`; up to length 2 rootless and after `@`
		sec("enum-steps")
		for _, a := range c02StepKinds {
			out = append(out, "$"+a)
			for _, b := range c02StepKinds {
				out = append(out, "$"+a+b)
				for _, c := range c02StepKinds {
					out = append(out, "$"+a+b+c)
				}
			}
		}
		sec("enum-heads")
		for _, head := range []string{"", "@", "a", "*", " $"} {
			out = append(out, head)
			for _, a := range c02StepKinds {
				out = append(out, head+a)
				for _, b := range c02StepKinds {
					out = append(out, head+a+b)
				}
			}
		}
		c02Sentences = out
	})
	return c02Sentences
}

func c02SectionOf(i int) string {
	name := "enum"
	for _, s := range c02Sections {
		if i >= s.from {
			name = s.name
		}
	}
	return name
}

// ---------- the test suite's own paths (read at run time) ----------

type c02SuiteCase struct {
	Path  string
	Input string
}

var c02SuiteOnce sync.Once
var c02SuiteCases []c02SuiteCase

// c02RepoDir: the directory the library was compiled from (follows the module replace).
func c02RepoDir() string {
	if d := os.Getenv("JPV_REPO"); d != "" {
		return d
	}
	pc := reflect.ValueOf(jsonpath.Parse).Pointer()
	if f := runtime.FuncForPC(pc); f != nil {
		file, _ := f.FileLine(pc)
		dir := filepath.Dir(file)
		if _, err := os.Stat(filepath.Join(dir, "test_jsonpath_test.go")); err == nil {
			return dir
		}
	}
	return "/repo"
}

func c02Suite() []c02SuiteCase {
	c02SuiteOnce.Do(func() {
		file := filepath.Join(c02RepoDir(), "test_jsonpath_test.go")
		fset := token.NewFileSet()
		f, err := parser.ParseFile(fset, file, nil, 0)
		if err != nil {
			return
		}
		lit := func(e ast.Expr) (string, bool) {
			b, ok := e.(*ast.BasicLit)
			if !ok || b.Kind != token.STRING {
				return "", false
			}
			s, err := strconv.Unquote(b.Value)
			return s, err == nil
		}
		ast.Inspect(f, func(n ast.Node) bool {
			cl, ok := n.(*ast.CompositeLit)
			if !ok {
				return true
			}
			var c c02SuiteCase
			found := false
			for _, el := range cl.Elts {
				kv, ok := el.(*ast.KeyValueExpr)
				if !ok {
					continue
				}
				id, ok := kv.Key.(*ast.Ident)
				if !ok {
					continue
				}
				switch id.Name {
				case "jsonpath":
					if s, ok := lit(kv.Value); ok {
						c.Path, found = s, true
					}
				case "inputJSON":
					if s, ok := lit(kv.Value); ok {
						c.Input = s
					}
				}
			}
			if found {
				c02SuiteCases = append(c02SuiteCases, c)
			}
			return true
		})
	})
	return c02SuiteCases
}

// ---------- (b) random valid paths ----------

func c02Opts(r *Rng) GenOpts {
	o := DefaultOpts()
	o.OddKeys = r.Chance(40)
	o.BigInts = r.Chance(50)
	o.ErrBias = []int{5, 12, 30}[r.Intn(3)]
	o.MaxSteps = r.Range(2, 6)
	return o
}

// c02BigInts: integers at and around the 32- and 64-bit limits (all accepted by strconv.Atoi).
var c02BigInts = []int64{
	1<<63 - 1, 1<<63 - 2, -1 << 63, -1<<63 + 1, -(1<<63 - 1),
	1 << 31, 1<<31 - 1, 1<<31 + 1, -(1 << 31), -(1 << 31) - 1, 1 << 32, 1<<32 - 1, -(1 << 32),
	1 << 62, -(1 << 62), 1<<53 + 1,
}

// c02Enlarge replaces some integers of the path by boundary magnitudes.
func c02Enlarge(p *Path, r *Rng, pct int) {
	pickInt := func(v int64) int64 {
		if r.Chance(pct) {
			return c02BigInts[r.Intn(len(c02BigInts))]
		}
		return v
	}
	var walkQ func(q *Query)
	var walkP func(p *Path)
	var walkS func(s *Step)
	walkS = func(s *Step) {
		switch s.Kind {
		case StUnion:
			for i := range s.Subs {
				sb := &s.Subs[i]
				switch sb.Kind {
				case SubIdx:
					sb.N = pickInt(sb.N)
				case SubSlice:
					for _, pp := range []**int64{&sb.S, &sb.E, &sb.T} {
						if *pp != nil {
							v := pickInt(**pp)
							*pp = &v
						}
					}
				}
			}
		case StFilter:
			walkQ(s.Q)
		case StDesc:
			walkS(s.Inner)
		}
	}
	walkP = func(p *Path) {
		if p == nil {
			return
		}
		for _, s := range p.Steps {
			walkS(s)
		}
	}
	walkQ = func(q *Query) {
		if q == nil {
			return
		}
		switch q.Kind {
		case QOr, QAnd:
			walkQ(q.A)
			walkQ(q.B)
		case QExist, QRegex:
			walkP(q.P)
		case QCmp:
			for _, o := range []*Operand{q.L, q.R} {
				if o.IsLit {
					if o.Lit.Kind == LitNum {
						o.Lit.N = pickInt(o.Lit.N)
					}
				} else {
					walkP(o.Path)
				}
			}
		}
	}
	walkP(p)
}

// c02GenValid: a document and a valid path generated by walking it, in a random spelling.
func c02GenValid(r *Rng) (string, interface{}, *Path) {
	o := c02Opts(r)
	doc, p := GenCase(r, o)
	if o.BigInts {
		c02Enlarge(p, r, 12)
	}
	return c02Clip(Render(p, r)), doc, p
}

// ---------- (c) mutations ----------

var c02MutRunes = []rune("$@.[]()?,:*'\"\\=!<>~/&| -+0123456789abcdxyzeEfn_\t\n\x00\x7fé∞あ𝒳\u200b\ufeff\u2028")

var c02Tokens = []string{
	"$", "@", ".", "..", "[", "]", "(", ")", "?(", "[?(", ")]", ",", ":", "::", "*", "'", "\"", "\\", "==", "!=", "<=", "<", ">=", ">", "=~",
	"/", "&&", "||", "!", "true", "false", "null", "True", "NULL", "1", "-1", "0", "1e9", "1.5", "+2", "a", "b", "c", "'a'", "\"b\"", "/a/",
	".a", ".b", "['a']", "[0]", "[1:2]", "[*]", ".*", "..a", ".id()", ".max()", ".f()", ".twice()", ".count()", ".nope()", "()", " ", "  ",
	"@.a", "$.a", "@.a==1", "[(1)]", "=", "&", "|", "~", "\\'", "\\\\", "u0041", "\\u0041", "9223372036854775807", "9223372036854775808", "-9223372036854775808",
	// \uXXXX escapes with every hex digit in both cases (the recogniser's hexDigit rule), also surrogate pairs and lone surrogates
	"['\\u00ff']", "[\"\\u000f\"]", "['\\uABCD']", "['\\uabcd']", "['\\uEF01']", "['\\uef23']", "[\"\\ud83d\\ude00\"]", "['\\uD83D\\uDE00']",
	"[(@.length-1)]", "[(@.length - 2)]", "[(@.length)]", "[( @.length-1 )]", "(@.length-1)", "[(@.a)]", "[(1+1)]",
	"['\\ufffd']", "['\\ud800']", "\\u00e9", "\\u4567", "\\u89aB", "\\uCdEf", "['a\\u0062c']", "[\"\\u0022\"]", "['\\u0027']",
}

func c02RandRune(r *Rng) rune {
	switch r.Weighted([]int{60, 15, 10, 10, 5}) {
	case 0:
		return c02MutRunes[r.Intn(len(c02MutRunes))]
	case 1:
		return rune(r.Range(0, 0x7f))
	case 2:
		return rune(r.Range(0x80, 0x7ff))
	case 3:
		return rune(r.Range(0x800, 0xffff)) // includes the surrogate range: encodes as U+FFFD
	}
	return rune(r.Range(0x10000, 0x10ffff))
}

func c02Mutate(s string, other string, r *Rng) string {
	rs := []rune(s)
	n := r.Weighted([]int{0, 55, 30, 15})
	for k := 0; k < n; k++ {
		switch r.Weighted([]int{20, 22, 20, 8, 8, 10, 6, 6}) {
		case 0: // delete a rune
			if len(rs) > 0 {
				i := r.Intn(len(rs))
				rs = append(rs[:i:i], rs[i+1:]...)
			}
		case 1: // insert a rune
			i := r.Intn(len(rs) + 1)
			rs = append(rs[:i:i], append([]rune{c02RandRune(r)}, rs[i:]...)...)
		case 2: // replace a rune
			if len(rs) > 0 {
				rs[r.Intn(len(rs))] = c02RandRune(r)
			}
		case 3: // swap neighbours
			if len(rs) > 1 {
				i := r.Intn(len(rs) - 1)
				rs[i], rs[i+1] = rs[i+1], rs[i]
			}
		case 4: // duplicate a span
			if len(rs) > 0 {
				i := r.Intn(len(rs))
				j := i + r.Range(1, 6)
				if j > len(rs) {
					j = len(rs)
				}
				span := append([]rune{}, rs[i:j]...)
				rs = append(rs[:j:j], append(span, rs[j:]...)...)
			}
		case 5: // splice: a prefix of this path and a suffix of another
			os := []rune(other)
			i := r.Intn(len(rs) + 1)
			j := r.Intn(len(os) + 1)
			rs = append(rs[:i:i], os[j:]...)
		case 6: // insert a token
			i := r.Intn(len(rs) + 1)
			rs = append(rs[:i:i], append([]rune(r.Pick(c02Tokens)), rs[i:]...)...)
		case 7: // truncate
			if len(rs) > 0 {
				rs = rs[:r.Intn(len(rs))]
			}
		}
	}
	return c02Clip(string(rs))
}

// c02GenMutant: a mutated path; the document belongs to the unmutated base (nil when the base
// came from the suite and its input did not decode).
func c02GenMutant(r *Rng) (string, interface{}, bool, string) {
	suite := c02Suite()
	if len(suite) > 0 && r.Chance(45) {
		c := suite[r.Intn(len(suite))]
		other := suite[r.Intn(len(suite))].Path
		var doc interface{}
		hasDoc := false
		if c.Input != "" {
			doc, hasDoc = c02Decode(c.Input)
		}
		if r.Chance(10) {
			return c02Clip(c.Path), doc, hasDoc, "suite"
		}
		return c02Mutate(c.Path, other, r), doc, hasDoc, "mut-suite"
	}
	s, doc, _ := c02GenValid(r)
	other, _, _ := c02GenValid(r)
	return c02Mutate(s, other, r), doc, true, "mut-valid"
}

// c02Decode decodes JSON text the default way (float64 numbers).
func c02Decode(text string) (interface{}, bool) {
	var v interface{}
	if err := json.Unmarshal([]byte(text), &v); err != nil {
		return nil, false
	}
	return v, true
}

// ---------- (d) token soup ----------

func c02GenSoup(r *Rng) string {
	var b strings.Builder
	shape := r.Weighted([]int{35, 35, 15, 15})
	switch shape {
	case 0:
		if r.Chance(70) {
			b.WriteString("$")
		}
	case 1:
		b.WriteString("$[?(")
	case 2:
		b.WriteString("$" + r.Pick(c02StepKinds) + "[?(@")
	case 3:
		b.WriteString("$[")
	}
	n := r.Range(1, 14)
	if r.Chance(10) {
		n = r.Range(15, 60)
	}
	for i := 0; i < n; i++ {
		b.WriteString(r.Pick(c02Tokens))
	}
	switch shape {
	case 1, 2:
		if r.Chance(80) {
			b.WriteString(")]")
		}
	case 3:
		if r.Chance(80) {
			b.WriteString("]")
		}
	}
	return c02Clip(b.String())
}

// ---------- (e) arbitrary Unicode and invalid UTF-8 ----------

var c02BadBytes = []string{"\x80", "\xff", "\xc0\xaf", "\xe2\x82", "\xf0\x9f\x98", "\xed\xa0\x80", "\xf8\x88\x80\x80\x80", "\xc3", "\xfe"}

func c02Junk(r *Rng, n int) string {
	var b strings.Builder
	for i := 0; i < n; i++ {
		switch r.Weighted([]int{25, 20, 15, 10, 15, 15}) {
		case 0:
			b.WriteRune(rune(r.Range(0x20, 0x7e)))
		case 1:
			b.WriteRune(rune(r.Range(0x80, 0x2fff)))
		case 2:
			b.WriteRune(rune(r.Range(0x3000, 0xffff)))
		case 3:
			b.WriteRune(rune(r.Range(0x10000, 0x10ffff)))
		case 4:
			b.WriteRune(rune(r.Range(0, 0x1f)))
		case 5:
			b.WriteString(r.Pick(c02BadBytes))
		}
	}
	return b.String()
}

func c02GenUnicode(r *Rng) string {
	n := r.Range(1, 12)
	if r.Chance(10) {
		n = r.Range(100, 300)
	}
	j := c02Junk(r, n)
	switch r.Weighted([]int{20, 12, 12, 10, 10, 10, 8, 8, 10}) {
	case 0:
		return c02Clip(j)
	case 1:
		return c02Clip("$." + j)
	case 2:
		return c02Clip("$['" + j + "']")
	case 3:
		return c02Clip(`$["` + j + `"]`)
	case 4:
		return c02Clip("$[?(@.a=='" + j + "')]")
	case 5:
		return c02Clip("$[?(@.a=~/" + j + "/)]")
	case 6:
		return c02Clip("$.a." + j + "()")
	case 7:
		return c02Clip("$[(" + j + ")]")
	}
	return c02Clip("$.a" + j + "[0]" + j)
}

// ---------- (f) deep nesting ----------

func c02GenNest(r *Rng) string {
	d := r.Range(1, 60)
	units := [][2]string{
		{"[?(@", ")]"}, {"[?($", ")]"}, {"[?(!@", ")]"}, {"[?(@.a&&@", ")]"}, {"[?(1==@", ")]"}, {"[?(@", "==1)]"},
		{"[?(@", "=~/a/)]"}, {"[?(@", ">$.a)]"}, {"[?(@.id()", ".max())]"},
	}
	core := r.Pick([]string{".a", "", ".a==1", ".*", "..a", ".max()", "[0]", ".a ==", "x y"})
	var s string
	switch r.Weighted([]int{40, 25, 15, 10, 10}) {
	case 0: // one unit repeated
		u := units[r.Intn(len(units))]
		s = "$" + strings.Repeat(u[0], d) + core + strings.Repeat(u[1], d)
	case 1: // mixed units
		var open, close string
		for i := 0; i < d; i++ {
			u := units[r.Intn(len(units))]
			open += u[0]
			close = u[1] + close
		}
		s = "$" + open + core + close
	case 2: // parentheses inside one filter
		s = "$[?(" + strings.Repeat("(", d) + "@" + core + strings.Repeat(")", d-r.Intn(2)) + ")]"
	case 3: // long chains
		s = "$" + strings.Repeat(r.Pick(c02StepKinds), d)
	case 4: // long logical chains
		op := r.Pick([]string{"&&", "||", " && !", "||("})
		s = "$[?(@.a" + strings.Repeat(op+"@.b"+r.Pick([]string{"", "==1", "<$.c"}), d) + ")]"
	}
	return c02Clip(s)
}

// ---------- (g) number spellings in every number position ----------

var c02Numbers = []string{
	"0", "-0", "+0", "00", "007", "1", "-1", "+1", "2147483647", "2147483648", "-2147483648", "-2147483649", "4294967296",
	"9223372036854775806", "9223372036854775807", "9223372036854775808", "-9223372036854775807", "-9223372036854775808", "-9223372036854775809",
	"18446744073709551615", "18446744073709551616", "99999999999999999999999999", "-99999999999999999999999999",
	"1.0", "1.", "1e0", "1e2", "1E+2", "1e-2", "1e308", "1e309", "-1e309", "1e5000", "4.9e-324", "1e-400", "0x10", "0x1p4", "0X1P-2", "1_000", "1e", "1e+", "1-2", "1+2",
	"1..2", "1.2.3", "1inf", "1nan", "1a", "1Z", "١", "１",
}

func c02GenNumber(r *Rng) string {
	n := func() string { return r.Pick(c02Numbers) }
	opt := func() string {
		if r.Chance(35) {
			return ""
		}
		return n()
	}
	// valid boundary integers only: these paths parse, the arithmetic happens at evaluation
	big := func() string {
		switch r.Weighted([]int{30, 45, 25}) {
		case 0:
			return ""
		case 1:
			if r.Chance(60) {
				return strconv.FormatInt(c02BigInts[r.Intn(5)], 10) // at the 64-bit limits
			}
			return strconv.FormatInt(c02BigInts[r.Intn(len(c02BigInts))], 10)
		}
		return strconv.Itoa(r.Range(-7, 7))
	}
	switch r.Weighted([]int{14, 22, 10, 22, 12, 10, 10, 30}) {
	case 7:
		pre := r.Pick([]string{"$", "$", "$", "$.a", "$[*]", "$..", "$.b", "$[?(@)]", "$[0]"})
		sub := big() + ":" + big()
		if r.Chance(25) {
			// start + step crosses the 64-bit limit
			st := r.Range(-3, 4)
			step := int64(1<<63-1) - int64(r.Range(0, 4))
			if r.Chance(30) {
				step = -step - int64(r.Range(0, 1))
			}
			sub = strconv.Itoa(st) + ":" + r.Pick([]string{"", "", "9223372036854775807", "5", "-1"}) + ":" + strconv.FormatInt(step, 10)
		} else if r.Chance(70) {
			sub += ":" + big()
		}
		if r.Chance(25) {
			sub += "," + big() + ":" + big() + ":" + big()
		}
		if r.Chance(15) {
			sub = strconv.FormatInt(c02BigInts[r.Intn(len(c02BigInts))], 10) + "," + sub
		}
		return pre + "[" + sub + "]" + r.Pick([]string{"", "", ".a", "[0]", ".count()"})
	case 0:
		return "$[" + n() + "]"
	case 1:
		return "$[" + opt() + ":" + opt() + ":" + opt() + "]"
	case 2:
		return "$[" + opt() + " : " + opt() + "]"
	case 3:
		return "$[?(@" + r.Pick([]string{"", ".a", "[0]"}) + r.Pick(c02CmpOps) + n() + ")]"
	case 4:
		return "$[?(" + n() + r.Pick(c02CmpOps) + r.Pick([]string{"@", "@.a", "$.a", n()}) + ")]"
	case 5:
		return "$[" + n() + "," + opt() + ":" + opt() + ",*," + n() + "]"
	}
	return "$.." + "[" + opt() + ":" + opt() + ":" + n() + "]" + r.Pick([]string{"", ".a", "[" + n() + "]"})
}

// ---------- (h) long valid paths ----------

// c02GenLong: grammatically valid paths that are long in one dimension (they must parse: the outcome
// classes of C02 leave no room for anything but a function or a documented error).
func c02GenLong(r *Rng) (string, string) {
	var p *Path
	kind := ""
	pre := func() []*Step {
		var steps []*Step
		for n := r.Weighted([]int{50, 35, 15}); n > 0; n-- {
			steps = append(steps, LongSteps(r, 1)...)
		}
		return steps
	}
	switch r.Weighted([]int{30, 25, 20, 15, 10}) {
	case 0:
		kind = "long-union"
		u := &Step{Kind: StUnion, Subs: LongSubs(r, r.Range(0, 50), r.Range(17, 40))}
		p = &Path{Head: HeadRoot, Steps: append(pre(), u)}
		switch r.Intn(4) {
		case 0:
			p.Steps = append(p.Steps, LongSteps(r, 1)...)
		case 1:
			// the union inside a filter operand
			p = &Path{Head: HeadRoot, Steps: []*Step{{Kind: StFilter, Q: &Query{Kind: QExist, P: &Path{Head: HeadCur, Steps: p.Steps}}}}}
		case 2:
			p.Steps = append([]*Step{{Kind: StDesc, Inner: u}}, LongSteps(r, 1)...)
		}
	case 1:
		kind = "long-names"
		pool := append(append([]string{}, BaseKeys...), OddKeys...)
		m := &Step{Kind: StMulti, Names: LongNames(r, nil, r.Range(16, 40), pool, 15)}
		p = &Path{Head: HeadRoot, Steps: append(pre(), m)}
		if r.Chance(40) {
			p.Steps = append(p.Steps, LongSteps(r, 1)...)
		}
	case 2:
		kind = "long-path"
		p = &Path{Head: HeadRoot, Steps: LongSteps(r, r.Range(70, 120))}
		if r.Chance(40) {
			at := r.Intn(len(p.Steps))
			p.Steps[at] = &Step{Kind: StWild, Bracket: r.Chance(50)}
		}
		if r.Chance(25) {
			p.Fns = []Fn{{Name: "id"}}
		}
	case 3:
		kind = "long-nested-filters"
		d := r.Range(20, 45)
		inner := &Path{Head: HeadCur, Steps: LongSteps(r, 1)}
		for k := 0; k < d; k++ {
			var q *Query
			switch r.Intn(4) {
			case 0:
				q = &Query{Kind: QCmp, Op: r.Intn(6), L: &Operand{Path: &Path{Head: HeadCur, Steps: LongSteps(r, 1)}}, R: &Operand{IsLit: true, Lit: Lit{Kind: LitNum, N: int64(r.Range(0, 3))}}}
				q = &Query{Kind: QAnd, A: &Query{Kind: QExist, P: inner}, B: q}
			case 1:
				q = &Query{Kind: QExist, Neg: true, P: inner}
			default:
				q = &Query{Kind: QExist, P: inner}
			}
			inner = &Path{Head: HeadCur, Steps: []*Step{{Kind: StFilter, Q: q}}}
			if r.Chance(30) {
				inner.Steps = append(LongSteps(r, 1), inner.Steps...)
			}
		}
		inner.Head = HeadRoot
		p = inner
	default:
		kind = "long-logic"
		n := r.Range(17, 40)
		var q *Query
		for k := 0; k < n; k++ {
			b := &Query{Kind: QCmp, Op: r.Intn(6), L: &Operand{Path: &Path{Head: HeadCur, Steps: LongSteps(r, 1)}}, R: &Operand{IsLit: true, Lit: Lit{Kind: LitNum, N: int64(r.Range(0, 9))}}}
			if r.Chance(25) {
				b = &Query{Kind: QExist, Neg: r.Chance(40), P: &Path{Head: HeadCur, Steps: LongSteps(r, 1)}}
			}
			if q == nil {
				q = b
			} else {
				q = &Query{Kind: QKind(r.Intn(2)), A: q, B: b}
			}
		}
		p = &Path{Head: HeadRoot, Steps: append(pre(), &Step{Kind: StFilter, Q: q})}
	}
	var sp *Rng
	if r.Chance(50) {
		sp = r
	}
	s := Render(p, sp)
	if utf8.RuneCountInString(s) > 4096 {
		s = string([]rune(s)[:4096])
	}
	return s, kind
}

// ---------- small helpers ----------

var c02FnRe = regexp.MustCompile(`\.([-_a-zA-Z0-9]+)\(\)`)

// c02FnNames: every function name the text can possibly refer to (an over-approximation).
func c02FnNames(s string) []string {
	var out []string
	seen := map[string]bool{}
	// overlapping occurrences matter (`.a.b()`): scan from every dot
	for i := 0; i < len(s); i++ {
		if s[i] != '.' {
			continue
		}
		if m := c02FnRe.FindStringSubmatch(s[i:]); m != nil && strings.HasPrefix(s[i:], m[0]) {
			if !seen[m[1]] {
				seen[m[1]] = true
				out = append(out, m[1])
			}
		}
	}
	return out
}

// c02Skeleton: the shape of a string: letters → a, digits → 9, other ASCII as is, runs collapsed.
func c02Skeleton(s string, max int) string {
	var b strings.Builder
	var last rune
	n := 0
	for i := 0; i < len(s) && n < max; {
		c, sz := utf8.DecodeRuneInString(s[i:])
		i += sz
		var k rune
		switch {
		case c == utf8.RuneError && sz <= 1:
			k = 'X'
		case c >= 'a' && c <= 'z' || c >= 'A' && c <= 'Z':
			k = 'a'
		case c >= '0' && c <= '9':
			k = '9'
		case c < 0x20 || c == 0x7f:
			k = 'C'
		case c >= 0x80:
			k = 'U'
		default:
			k = c
		}
		if k == last && (k == 'a' || k == '9' || k == 'U' || k == 'X' || k == 'C' || k == ' ') {
			continue
		}
		last = k
		b.WriteRune(k)
		n++
	}
	return b.String()
}
