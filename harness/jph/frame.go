package jph

import (
	"bufio"
	"crypto/sha1"
	"encoding/json"
	"fmt"
	"io"
	"os"
	"os/exec"
	"path/filepath"
	"runtime/debug"
	"sort"
	"strconv"
	"strings"
	"sync"
	"time"
)

// A property runner: Exec runs case i against the real library (in the worker process).
type Prop interface {
	Exec(seed int64, i int, tier string) Record
	// Count: how many cases for the tier (0: use the default)
	Count(tier string) int
}

type LeanQ struct {
	Driver string `json:"driver"` // spec | impl | peg
	Line   string `json:"line"`
	Expect string `json:"expect"`
	What   string `json:"what"`
	Oracle bool   `json:"oracle,omitempty"` // a difference is a violation of the property (always so for driver spec)
	Skip   string `json:"skip,omitempty"`   // an answer the model gives when the input is outside what it models: counted, not compared
	SkipAs string `json:"skipas,omitempty"` // the counter of a Skip answer (default lean:<driver>:unmodelled)
}

type Record struct {
	I     int                    `json:"i"`
	Text  string                 `json:"text,omitempty"`
	Doc   string                 `json:"doc,omitempty"`
	Info  map[string]interface{} `json:"info,omitempty"`
	Viol  string                 `json:"viol,omitempty"`  // the real code contradicts the property
	Class string                 `json:"class,omitempty"` // finding class (matches known_findings)
	Q     []LeanQ                `json:"q,omitempty"`
	Key   string                 `json:"key,omitempty"` // distinctness key; empty: trivial case
	Tags  []string               `json:"tags,omitempty"`
	Fatal string                 `json:"fatal,omitempty"`
	// Poison: the case left this worker process unusable (e.g. a library lock that stays locked after a
	// reported hang). The worker exits right after delivering the record; the parent starts a new
	// worker at the next case.
	Poison bool `json:"poison,omitempty"`
}

var Props = map[string]Prop{}

// ---------- worker ----------

// Worker executes cases from..to-1 and prints one JSON record per line.
func Worker(prop string, seed int64, from, to int, tier string, out io.Writer) {
	p, ok := Props[prop]
	if !ok {
		fmt.Fprintf(os.Stderr, "unknown property %s\n", prop)
		os.Exit(2)
	}
	// a runaway recursion in the library must kill the worker quickly, not after 1 GB
	debug.SetMaxStack(48 << 20)
	w := bufio.NewWriter(out)
	enc := json.NewEncoder(w)
	for i := from; i < to; i++ {
		// announce the case first so that a fatal crash is attributed to it
		fmt.Fprintf(w, "#start %d\n", i)
		w.Flush()
		done := make(chan Record, 1)
		go func() { done <- p.Exec(seed, i, tier) }()
		select {
		case rec := <-done:
			rec.I = i
			enc.Encode(rec)
			w.Flush()
			if rec.Poison {
				os.Exit(4)
			}
		case <-time.After(caseTimeout()):
			fmt.Fprintf(w, "#timeout %d\n", i)
			w.Flush()
			os.Exit(3)
		}
	}
}

// caseTimeout: 20 s per case; the parent re-runs a case that timed out ALONE with JPH_CASE_TIMEOUT=120 before it
// believes the timeout (a loaded machine must not turn a slow case into a finding).
func caseTimeout() time.Duration {
	if v, err := strconv.Atoi(os.Getenv("JPH_CASE_TIMEOUT")); err == nil && v > 0 {
		return time.Duration(v) * time.Second
	}
	return 20 * time.Second
}

var confirmedMu sync.Mutex
var confirmedHangs int

// retryAlone runs one case in a worker of its own with the long limit; ok=false when it still does not answer.
func retryAlone(self, prop string, seed int64, idx int, tier string) (Record, bool) {
	cmd := exec.Command(self, "worker", prop, strconv.FormatInt(seed, 10), strconv.Itoa(idx), strconv.Itoa(idx+1), tier)
	cmd.Env = append(os.Environ(), "GOMEMLIMIT=2GiB", "JPH_CASE_TIMEOUT=120")
	out, _ := cmd.Output()
	for _, line := range strings.Split(string(out), "\n") {
		if strings.HasPrefix(line, "#") || strings.TrimSpace(line) == "" {
			continue
		}
		var rec Record
		if json.Unmarshal([]byte(line), &rec) == nil && rec.I == idx {
			return rec, true
		}
	}
	return Record{}, false
}

// ---------- Lean driver client ----------

type Driver struct {
	cmd *exec.Cmd
	in  *bufio.Writer
	out *bufio.Reader
}

func StartDriver(path string) (*Driver, error) {
	cmd := exec.Command(path)
	stdin, err := cmd.StdinPipe()
	if err != nil {
		return nil, err
	}
	stdout, err := cmd.StdoutPipe()
	if err != nil {
		return nil, err
	}
	cmd.Stderr = os.Stderr
	if err := cmd.Start(); err != nil {
		return nil, err
	}
	return &Driver{cmd: cmd, in: bufio.NewWriterSize(stdin, 1<<20), out: bufio.NewReaderSize(stdout, 1<<20)}, nil
}

func (d *Driver) Ask(line string) (string, error) {
	if _, err := d.in.WriteString(line + "\n"); err != nil {
		return "", err
	}
	if err := d.in.Flush(); err != nil {
		return "", err
	}
	ans, err := d.out.ReadString('\n')
	return strings.TrimRight(ans, "\n"), err
}

var ErrDriverTimeout = fmt.Errorf("lean driver did not answer in time")

// AskTimeout is Ask with a deadline; after a timeout the driver is unusable (kill and restart it).
func (d *Driver) AskTimeout(line string, limit time.Duration) (string, error) {
	type res struct {
		ans string
		err error
	}
	ch := make(chan res, 1)
	go func() {
		a, e := d.Ask(line)
		ch <- res{a, e}
	}()
	select {
	case r := <-ch:
		return r.ans, r.err
	case <-time.After(limit):
		return "", ErrDriverTimeout
	}
}

func (d *Driver) Close() {
	d.in.Flush()
	d.cmd.Process.Kill()
	d.cmd.Wait()
}

// ---------- parent ----------

type Finding struct {
	Kind   string `json:"kind"` // violation | mismatch | crash
	Class  string `json:"class,omitempty"`
	What   string `json:"what"`
	Replay string `json:"replay"`
	Case   int    `json:"case"`
}

type Summary struct {
	Property  string                 `json:"property"`
	Seed      int64                  `json:"seed"`
	Tier      string                 `json:"tier"`
	Evals     int                    `json:"evaluations"`
	Distinct  int                    `json:"distinct_nontrivial"`
	LeanAsked int                    `json:"lean_queries"`
	Findings  []Finding              `json:"findings"`
	Dist      map[string]int         `json:"distribution"`
	Samples   []interface{}          `json:"samples"`
	WallS     float64                `json:"wall_s"`
	Extra     map[string]interface{} `json:"extra,omitempty"`
}

type RunOpts struct {
	Prop      string
	Seed      int64
	Tier      string
	N         int
	From      int
	SpecExe   string
	ImplExe   string
	PegExe    string
	PegGoExe  string // jpv-peggo; may be empty or missing (then its questions are skipped and counted)
	ReplayDir string
	Self      string // path of this executable
	Workers   int
	MaxFind   int
}

func hashOf(s string) string {
	h := sha1.Sum([]byte(s))
	return fmt.Sprintf("%x", h[:6])
}

func writeReplay(dir, prop string, rec Record, kind, what string, seed int64, tier string) string {
	os.MkdirAll(dir, 0o755)
	body := map[string]interface{}{
		"property": prop, "kind": kind, "what": what, "seed": seed, "tier": tier,
		"case_index": rec.I, "path": rec.Text, "document": rec.Doc, "info": rec.Info,
		"lean_queries": rec.Q, "class": rec.Class,
	}
	bs, _ := json.MarshalIndent(body, "", " ")
	name := filepath.Join(dir, fmt.Sprintf("%s-%s.json", prop, hashOf(string(bs))))
	os.WriteFile(name, bs, 0o644)
	return name
}

// RunParent drives worker processes, forwards Lean queries, aggregates.
func RunParent(o RunOpts) Summary {
	start := time.Now()
	sum := Summary{Property: o.Prop, Seed: o.Seed, Tier: o.Tier, Dist: map[string]int{}, Findings: []Finding{}, Samples: []interface{}{}}
	if o.Workers <= 0 {
		o.Workers = 8
	}
	if o.MaxFind <= 0 {
		o.MaxFind = 5
	}
	type chunk struct{ from, to int }
	per := (o.N - o.From + o.Workers - 1) / o.Workers
	if per < 1 {
		per = 1
	}
	var chunks []chunk
	for f := o.From; f < o.N; f += per {
		t := f + per
		if t > o.N {
			t = o.N
		}
		chunks = append(chunks, chunk{f, t})
	}
	recs := make(chan Record, 256)
	doneW := make(chan bool)
	var abortMu sync.Mutex
	abort := false
	var running []*exec.Cmd
	isAborted := func() bool { abortMu.Lock(); defer abortMu.Unlock(); return abort }
	doAbort := func() {
		abortMu.Lock()
		if !abort {
			abort = true
			for _, c := range running {
				if c.Process != nil {
					c.Process.Kill()
				}
			}
		}
		abortMu.Unlock()
	}
	for _, c := range chunks {
		go func(c chunk) {
			from := c.from
			for from < c.to && !isAborted() {
				cmd := exec.Command(o.Self, "worker", o.Prop, strconv.FormatInt(o.Seed, 10), strconv.Itoa(from), strconv.Itoa(c.to), o.Tier)
				cmd.Env = append(os.Environ(), "GOMEMLIMIT=2GiB")
				stdout, _ := cmd.StdoutPipe()
				var stderrBuf strings.Builder
				cmd.Stderr = &limitedWriter{b: &stderrBuf, max: 4000}
				if err := cmd.Start(); err != nil {
					recs <- Record{I: from, Fatal: "cannot start worker: " + err.Error()}
					break
				}
				abortMu.Lock()
				running = append(running, cmd)
				abortMu.Unlock()
				rd := bufio.NewReaderSize(stdout, 1<<20)
				cur := -1
				finished := -1
				timeout := false
				for {
					line, err := rd.ReadString('\n')
					if len(line) > 0 {
						if strings.HasPrefix(line, "#start ") {
							cur, _ = strconv.Atoi(strings.TrimSpace(line[7:]))
						} else if strings.HasPrefix(line, "#timeout ") {
							timeout = true
						} else {
							var rec Record
							if json.Unmarshal([]byte(line), &rec) == nil {
								finished = rec.I
								recs <- rec
							}
						}
					}
					if err != nil {
						break
					}
				}
				werr := cmd.Wait()
				if (werr == nil && !timeout) || isAborted() {
					break
				}
				// the worker died on case `cur`
				if cur > finished {
					what := "worker process died"
					if timeout {
						what = "no answer within 20 s, nor within 120 s when run alone"
						// after two cases that did not answer even alone the run is dealing with a real hang: later
						// time-outs are believed at once (a hanging change must not cost 60 x 120 s)
						confirmedMu.Lock()
						believe := confirmedHangs >= 2
						confirmedMu.Unlock()
						if believe {
							what = "no answer within 20 s (two earlier cases did not answer within 120 s when run alone either)"
						} else if rec, ok := retryAlone(o.Self, o.Prop, o.Seed, cur, o.Tier); ok {
							// slow under load, not stuck: use the answer
							rec.Tags = append(rec.Tags, "run:slow-case-answered-when-run-alone")
							recs <- rec
							from = cur + 1
							continue
						} else {
							confirmedMu.Lock()
							confirmedHangs++
							confirmedMu.Unlock()
						}
					}
					recs <- Record{I: cur, Fatal: what + ": " + firstLines(stderrBuf.String(), 12)}
					from = cur + 1
				} else {
					from = finished + 1
				}
			}
			doneW <- true
		}(c)
	}
	go func() {
		for range chunks {
			<-doneW
		}
		close(recs)
	}()

	drivers := map[string]*Driver{}
	getDriver := func(name string) *Driver {
		if d, ok := drivers[name]; ok {
			return d
		}
		path := o.SpecExe
		if name == "impl" {
			path = o.ImplExe
		}
		if name == "peg" {
			path = o.PegExe
		}
		if name == "peggo" {
			path = o.PegGoExe
		}
		d, err := StartDriver(path)
		if err != nil {
			fmt.Fprintf(os.Stderr, "cannot start lean driver %s: %v\n", path, err)
			os.Exit(2)
		}
		drivers[name] = d
		return d
	}
	keys := map[string]bool{}
	tagSamples := map[string]bool{}
	for rec := range recs {
		if len(sum.Findings) >= 60 {
			// enough is known: stop the workers instead of collecting thousands of repeats
			doAbort()
			sum.Dist["run:stopped-early-after-60-findings"] = 1
			continue
		}
		sum.Evals++
		if rec.Fatal != "" {
			// re-derive the case description in-process is not safe (it may crash us too):
			// the replay names property, seed and index, which regenerate the case.
			f := Finding{Kind: "crash", What: rec.Fatal, Case: rec.I, Class: "crash"}
			f.Replay = writeReplay(o.ReplayDir, o.Prop, rec, "crash", rec.Fatal, o.Seed, o.Tier)
			sum.Findings = append(sum.Findings, f)
			continue
		}
		for _, t := range rec.Tags {
			sum.Dist[t]++
		}
		if rec.Key != "" && !keys[rec.Key] {
			keys[rec.Key] = true
		}
		if rec.Viol != "" {
			if len(sum.Findings) < 200 {
				f := Finding{Kind: "violation", What: rec.Viol, Case: rec.I, Class: rec.Class}
				f.Replay = writeReplay(o.ReplayDir, o.Prop, rec, "violation", rec.Viol, o.Seed, o.Tier)
				sum.Findings = append(sum.Findings, f)
			}
		}
		for _, q := range rec.Q {
			if q.Driver == "peggo" {
				// optional driver: it does not exist when the `pegrules` generator refused the source
				if _, err := os.Stat(o.PegGoExe); o.PegGoExe == "" || err != nil {
					sum.Dist["lean:peggo:unavailable"]++
					continue
				}
			}
			d := getDriver(q.Driver)
			ans, err := d.AskTimeout(q.Line, 15*time.Second)
			sum.LeanAsked++
			if err == ErrDriverTimeout {
				// the model is an executable specification, not an efficient one (e.g. a PEG interpreter
				// without memoisation on deeply nested filters): count, restart the driver, go on
				sum.Dist["lean:"+q.Driver+":timeout"]++
				d.Close()
				delete(drivers, q.Driver)
				continue
			}
			if err != nil {
				fmt.Fprintf(os.Stderr, "lean driver %s failed: %v\n", q.Driver, err)
				os.Exit(2)
			}
			if q.Skip != "" && ans == q.Skip && q.SkipAs != "" {
				sum.Dist[q.SkipAs]++
				continue
			}
			if q.Skip != "" && ans == q.Skip {
				sum.Dist["lean:"+q.Driver+":unmodelled"]++
				continue
			}
			if ans != q.Expect {
				kind := "mismatch"
				if q.Driver == "spec" || q.Oracle {
					// the specification is the oracle of this property: a difference is a violation
					kind = "violation"
				}
				if strings.Contains(ans, "(actions-changed ") {
					// the driver refuses to answer because an action body of jsonpath.peg differs from the text the action
					// model was written against: the MODEL is out of date (a broken tie), not an observed misbehaviour
					kind = "mismatch"
					sum.Dist["lean:"+q.Driver+":actions-changed"]++
				}
				if len(sum.Findings) < 200 {
					what := fmt.Sprintf("%s: real=%s lean(%s)=%s", q.What, clip(q.Expect, 300), q.Driver, clip(ans, 300))
					f := Finding{Kind: kind, What: what, Case: rec.I, Class: rec.Class}
					f.Replay = writeReplay(o.ReplayDir, o.Prop, rec, kind, what, o.Seed, o.Tier)
					sum.Findings = append(sum.Findings, f)
				}
			}
		}
		// keep a few samples, preferring unseen tag sets
		if len(sum.Samples) < 6 {
			tk := strings.Join(rec.Tags, ",")
			if !tagSamples[tk] && rec.Key != "" {
				tagSamples[tk] = true
				sum.Samples = append(sum.Samples, map[string]interface{}{"i": rec.I, "path": rec.Text, "doc": clip(rec.Doc, 400), "info": rec.Info})
			}
		}
	}
	for _, d := range drivers {
		d.Close()
	}
	sum.Distinct = len(keys)
	sort.Slice(sum.Findings, func(i, j int) bool { return sum.Findings[i].Case < sum.Findings[j].Case })
	sum.WallS = time.Since(start).Seconds()
	return sum
}

type limitedWriter struct {
	b   *strings.Builder
	max int
}

func (l *limitedWriter) Write(p []byte) (int, error) {
	if l.b.Len() < l.max {
		n := l.max - l.b.Len()
		if n > len(p) {
			n = len(p)
		}
		l.b.Write(p[:n])
	}
	return len(p), nil
}

func firstLines(s string, n int) string {
	ls := strings.Split(s, "\n")
	if len(ls) > n {
		ls = ls[:n]
	}
	return strings.Join(ls, " | ")
}

func clip(s string, n int) string {
	if len(s) > n {
		return s[:n] + "…"
	}
	return s
}
