package jph

import (
	"bufio"
	"fmt"
	"io"
	"math"
	"os/exec"
	"sort"
	"strconv"
	"strings"
	"sync"
)

// C11 — index and slice arithmetic is exact and total for every start/end/step/length.
//
// Cases (deterministic layout, see c11Layout):
//   A  exhaustive small scope: one case per (start,end) in ({omitted} ∪ [-7..7])², looping over
//      step ∈ {omitted} ∪ [-7..7] and length 0..6 (28 672 slices; quick: a seed-dependent quarter)
//   B  boundary cross product: one case per (length 0..6, start, end) with the bounds drawn from
//      c11Boundary(length), looping over every step of the same set
//   C  plain indices `[n]`: one case per length, n ∈ [-7..7] ∪ boundary magnitudes
//   D  random: lengths 0..40, bounds from a mix of small / near-length / power-of-two / random
//      64-bit values, unions of 1..3 subscripts in a random insignificant spelling
//   E  long arrays: lengths 257..1100 (at and around 256, 512, 1024), bounds at and around 255 / 256 /
//      257 / the length / its half (both signs) or anywhere in the array, steps omitted / ±1 / ±2 / ±3 /
//      around 256; oracles (1) and (2) for every slice, Lean only for one slice per case on a length <= 300
// Parse ONCE, call often: every slice (A, B: every (start,end,step) of the case; C: every index; D:
// every union) is additionally parsed a single time and the one returned function is called over
// a list of lengths in several orders — ascending, descending, zig-zag short-long-short — next to
// the fresh Retrieves. Every call must select what Python selects for THAT length (the selection
// depends on the bounds and the length only, not on the arrays the parsed slice has met before).
// Overlapping calls (a quarter of the cases, c11Bundle.overlap in b8_helpers.go): one parsed
// function called alternately and then by one goroutine per length at the same time on arrays of
// different lengths; every call must give the selection computed beforehand for its length.
// Oracles per slice: (1) c11PySlice, a transcription of CPython's PySlice_Unpack +
// PySlice_AdjustIndices + range; (2) python3 itself, one subprocess per worker fed through
// stdin/stdout; (3) Lean Spec.run (pySlice); correspondence with Impl.run (error text included).

type c11 struct{}

func init() { Props["C11"] = c11{} }

const c11MaxInt = math.MaxInt64
const c11MinInt = math.MinInt64

var c11Small = func() []*int64 {
	out := []*int64{nil}
	for v := int64(-7); v <= 7; v++ {
		x := v
		out = append(out, &x)
	}
	return out
}()

// c11Boundary: the bound values of part B for one length (nil = omitted), without duplicates.
func c11Boundary(length int) []*int64 {
	l := int64(length)
	vals := []int64{-2, -1, 0, 1, 2, l, -l, l + 1, -(l + 1), l - 1, -(l - 1),
		1 << 31, -(1 << 31), 1<<31 - 1, 1<<32 + 1, c11MaxInt, -c11MaxInt, c11MinInt, c11MaxInt - 1, c11MinInt + 2}
	seen := map[int64]bool{}
	out := []*int64{nil}
	for _, v := range vals {
		if !seen[v] {
			seen[v] = true
			x := v
			out = append(out, &x)
		}
	}
	return out
}

type c11Plan struct {
	nA, nC, nD, nE int
	nF             int    // part F (b13_helpers.go): arrays of 65 536 elements and more
	nG             int    // part G (b15_overlap.go): overlap probe / k-th-call fault probe, after F so that older replays keep their index
	bOff           [8]int // first case index of part B for each length (relative to the start of B)
	nB             int
}

func c11Layout(tier string) c11Plan {
	p := c11Plan{nA: len(c11Small) * len(c11Small), nC: 7}
	for l := 0; l <= 6; l++ {
		p.bOff[l] = p.nB
		n := len(c11Boundary(l))
		p.nB += n * n
	}
	p.bOff[7] = p.nB
	p.nD = 1000
	p.nE = 60
	p.nF = 40
	p.nG = 160
	if tier == "thorough" {
		p.nG = 6000
		p.nD = 120000
		p.nE = 6000
		p.nF = 2000
	}
	return p
}

func (c11) Count(tier string) int {
	p := c11Layout(tier)
	return p.nA + p.nB + p.nC + p.nD + p.nE + p.nF + p.nG
}

// c11Adjust: PySlice_AdjustIndices for one bound.
func c11Adjust(v, length int64, neg bool) int64 {
	if v < 0 {
		v += length
		if v < 0 {
			if neg {
				return -1
			}
			return 0
		}
		return v
	}
	if v >= length {
		if neg {
			return length - 1
		}
		return length
	}
	return v
}

// c11PySlice: the indices list(range(length))[s:e:t] selects (CPython: PySlice_Unpack,
// PySlice_AdjustIndices, then start + i*step for i < slicelength). Step 0 selects nothing.
func c11PySlice(s, e, t *int64, length int64) []int64 {
	step := int64(1)
	if t != nil {
		step = *t
	}
	if step == 0 {
		return nil
	}
	if step < -c11MaxInt { // PySlice_Unpack: so that -step is representable
		step = -c11MaxInt
	}
	neg := step < 0
	var start, stop int64
	if s == nil {
		if neg {
			start = c11MaxInt
		}
	} else {
		start = *s
	}
	if e == nil {
		if neg {
			stop = c11MinInt
		} else {
			stop = c11MaxInt
		}
	} else {
		stop = *e
	}
	start = c11Adjust(start, length, neg)
	stop = c11Adjust(stop, length, neg)
	var n int64
	if neg {
		if stop < start {
			n = (start-stop-1)/(-step) + 1
		}
	} else if start < stop {
		n = (stop-start-1)/step + 1
	}
	out := make([]int64, 0, n)
	for i := int64(0); i < n; i++ {
		out = append(out, start+i*step)
	}
	return out
}

func c11PyIndex(n, length int64) []int64 {
	if n < 0 {
		n += length
	}
	if n < 0 || n >= length {
		return nil
	}
	return []int64{n}
}

func c11SubIndices(s Sub, length int64) []int64 {
	switch s.Kind {
	case SubIdx:
		return c11PyIndex(s.N, length)
	case SubSlice:
		return c11PySlice(s.S, s.E, s.T, length)
	}
	out := make([]int64, length)
	for i := range out {
		out[i] = int64(i)
	}
	return out
}

// ---------- python3, one subprocess per worker ----------

const c11PyProg = `
import sys
def b(x):
    return None if x == '_' else int(x)
for line in sys.stdin:
    f = line.split()
    if not f:
        continue
    n = int(f[1])
    xs = list(range(n))
    out = []
    for sub in f[2:]:
        p = sub.split(':')
        try:
            if p[0] == 'i':
                out.append(xs[int(p[1])])
            elif p[0] == 'w':
                out.extend(xs)
            else:
                out.extend(xs[slice(b(p[1]), b(p[2]), b(p[3]))])
        except (IndexError, ValueError):
            pass
    sys.stdout.write(f[0] + ' ' + ','.join(map(str, out)) + '\n')
    if f[0] == 'F':
        sys.stdout.flush()
`

var c11Py struct {
	once sync.Once
	mu   sync.Mutex
	in   *bufio.Writer
	out  *bufio.Reader
	err  error
}

func c11PyStart() {
	cmd := exec.Command("python3", "-c", c11PyProg)
	stdin, err := cmd.StdinPipe()
	if err != nil {
		c11Py.err = err
		return
	}
	stdout, err := cmd.StdoutPipe()
	if err != nil {
		c11Py.err = err
		return
	}
	if err := cmd.Start(); err != nil {
		c11Py.err = err
		return
	}
	c11Py.in = bufio.NewWriterSize(stdin, 1<<16)
	c11Py.out = bufio.NewReaderSize(stdout, 1<<16)
}

func c11SubArg(s Sub) string {
	switch s.Kind {
	case SubIdx:
		return "i:" + strconv.FormatInt(s.N, 10)
	case SubSlice:
		return "s:" + optInt(s.S) + ":" + optInt(s.E) + ":" + optInt(s.T)
	}
	return "w"
}

// c11AskPython: for every item the indices python3 selects from list(range(len)) with the
// subscripts applied one after the other (an IndexError / ValueError selects nothing).
func c11AskPython(items []c11Item) ([][]int64, error) {
	c11Py.once.Do(c11PyStart)
	if c11Py.err != nil {
		return nil, c11Py.err
	}
	c11Py.mu.Lock()
	defer c11Py.mu.Unlock()
	for k, it := range items {
		tag := "L"
		if k == len(items)-1 {
			tag = "F" // python flushes after the last line of the batch
		}
		var b strings.Builder
		b.WriteString(tag + " " + strconv.Itoa(it.Len))
		for _, s := range it.Subs {
			b.WriteString(" " + c11SubArg(s))
		}
		b.WriteString("\n")
		if _, err := c11Py.in.WriteString(b.String()); err != nil {
			return nil, err
		}
	}
	if err := c11Py.in.Flush(); err != nil {
		return nil, err
	}
	res := make([][]int64, len(items))
	for k := range items {
		line, err := c11Py.out.ReadString('\n')
		if err != nil && err != io.EOF || line == "" {
			return nil, fmt.Errorf("python3 gave no answer: %v", err)
		}
		line = strings.TrimSpace(line)
		sp := strings.IndexByte(line, ' ')
		body := ""
		if sp >= 0 {
			body = line[sp+1:]
		}
		if body != "" {
			for _, f := range strings.Split(body, ",") {
				v, perr := strconv.ParseInt(f, 10, 64)
				if perr != nil {
					return nil, fmt.Errorf("python3 answered %q", line)
				}
				res[k] = append(res[k], v)
			}
		}
	}
	return res, nil
}

// ---------- one item = one path `$[subs]` on the array [0..len-1] ----------

type c11Item struct {
	Len  int
	Subs []Sub
}

func c11Doc(n int) []interface{} {
	d := make([]interface{}, n)
	for i := range d {
		d[i] = float64(i)
	}
	return d
}

func c11Ints(vs []int64) string {
	parts := make([]string, len(vs))
	for i, v := range vs {
		parts[i] = strconv.FormatInt(v, 10)
	}
	return "[" + strings.Join(parts, ",") + "]"
}

func c11EqInts(a, b []int64) bool {
	if len(a) != len(b) {
		return false
	}
	for i := range a {
		if a[i] != b[i] {
			return false
		}
	}
	return true
}

type c11Bundle struct {
	rec      Record
	firstKey string // sign / magnitude classes of the first item that selects something
	slices   int
	nonempty int
	tags     map[string]bool
	// parse-once checks: functions parsed, calls made
	parsedOnce, onceCalls int
	// part E: documents longer than leanMax are not put to the Lean drivers (0: no limit); at most leanItems items are
	leanMax, leanItems int
}

func (b *c11Bundle) fail(text string, doc interface{}, class, what string) {
	if b.rec.Viol == "" {
		b.rec.Viol = what
		b.rec.Class = class
		b.rec.Text = text
		b.rec.Doc = JSONText(doc)
	}
	fl, _ := b.rec.Info["failures"].([]string)
	if len(fl) < 20 {
		b.rec.Info["failures"] = append(fl, what)
	}
}

func c11SignTag(name string, v *int64, length int) string {
	l := int64(length)
	switch {
	case v == nil:
		return name + ":omitted"
	case *v == 0:
		return name + ":0"
	case *v >= 1<<31:
		return name + ":+huge"
	case *v <= -(1 << 31):
		return name + ":-huge"
	case *v > l:
		return name + ":>len"
	case *v == l:
		return name + ":=len"
	case *v > 0:
		return name + ":+in"
	case *v < -l:
		return name + ":<-len"
	case *v == -l:
		return name + ":=-len"
	}
	return name + ":-in"
}

// run checks all items of the bundle against the three oracles.
func (b *c11Bundle) run(items []c11Item, r *Rng) {
	py, perr := c11AskPython(items)
	if perr != nil {
		b.fail("", nil, "infra-python", "python3 oracle unavailable: "+perr.Error())
	}
	for k, it := range items {
		p := &Path{Head: HeadRoot, Steps: []*Step{{Kind: StUnion, Subs: it.Subs}}}
		text := Render(p, r)
		doc := c11Doc(it.Len)
		out := Run(text, doc, nil)
		var want []int64
		for _, s := range it.Subs {
			want = append(want, c11SubIndices(s, int64(it.Len))...)
			switch s.Kind {
			case SubSlice:
				b.tags[c11SignTag("start", s.S, it.Len)] = true
				b.tags[c11SignTag("end", s.E, it.Len)] = true
				b.tags[c11SignTag("step", s.T, it.Len)] = true
			case SubIdx:
				n := s.N
				b.tags[c11SignTag("index", &n, it.Len)] = true
			}
		}
		b.slices++
		if len(want) > 0 {
			b.nonempty++
			if b.firstKey == "" {
				for _, s := range it.Subs {
					switch s.Kind {
					case SubSlice:
						b.firstKey += "(" + c11SignTag("s", s.S, it.Len) + c11SignTag(" e", s.E, it.Len) + c11SignTag(" t", s.T, it.Len) + ")"
					case SubIdx:
						n := s.N
						b.firstKey += "(" + c11SignTag("i", &n, it.Len) + ")"
					default:
						b.firstKey += "(*)"
					}
				}
			}
		}
		where := fmt.Sprintf("%s on [0..%d)", strings.TrimSpace(text), it.Len)
		if perr == nil && !c11EqInts(py[k], want) {
			b.fail(text, doc, "oracle-disagree", fmt.Sprintf("%s: the transcription gives %s, python3 gives %s", where, c11Ints(want), c11Ints(py[k])))
		}
		for _, ix := range want {
			if ix < 0 || ix >= int64(it.Len) {
				b.fail(text, doc, "oracle-disagree", where+": the oracle itself leaves the array")
			}
		}
		// the real code
		switch {
		case out.OK:
			got := make([]int64, len(out.Vals))
			bad := false
			for i, v := range out.Vals {
				f, ok := v.(float64)
				if !ok {
					bad = true
				}
				got[i] = int64(f)
			}
			if bad || !c11EqInts(got, want) {
				b.fail(text, doc, "wrong-selection", fmt.Sprintf("%s selects %s, a Python slice selects %s", where, c11Ints(got), c11Ints(want)))
			}
			if len(want) > 0 {
				b.tags["outcome:ok"] = true
			}
		case out.ErrKind == "member":
			if len(want) > 0 {
				b.fail(text, doc, "wrong-selection", fmt.Sprintf("%s fails with %q, a Python slice selects %s", where, out.Msg, c11Ints(want)))
			} else if out.ErrText != p.Steps[0].Text {
				b.fail(text, doc, "wrong-error", fmt.Sprintf("%s: the error names %q instead of %q", where, out.ErrText, p.Steps[0].Text))
			}
			b.tags["outcome:err-member"] = true
		default:
			b.fail(text, doc, "abnormal", where+": "+clip(out.Detail(), 600))
		}
		// Lean: the specification, and the model of the code with the error it reports
		exp := "(q err)"
		if out.OK {
			exp = "(q ok"
			for _, v := range out.Vals {
				exp += " " + ValSexp(v)
			}
			exp += ")"
		}
		if b.leanMax > 0 && (it.Len > b.leanMax || b.leanItems <= 0) {
			continue
		}
		b.leanItems--
		if out.OK || out.ErrKind == "member" {
			ds := ValSexp(doc)
			b.rec.Q = append(b.rec.Q,
				LeanQ{Driver: "spec", Line: "(q run " + p.Sexp() + " " + ds + ")", Expect: exp, What: where + " vs Spec (pySlice)"},
				LeanQ{Driver: "impl", Line: "(q run f " + p.Sexp() + " " + ds + ")", Expect: out.ImplExpect(true), What: where + " vs Impl.run"})
		}
	}
}

// c11Orders: the lengths (ascending, without duplicates) in the orders one parsed function is
// called with: ascending, descending, zig-zag (shortest, longest, 2nd shortest, 2nd longest …),
// and back to the shortest and the longest.
func c11Orders(lens []int) []int {
	n := len(lens)
	seq := make([]int, 0, 3*n+2)
	seq = append(seq, lens...)
	for k := n - 1; k >= 0; k-- {
		seq = append(seq, lens[k])
	}
	for lo, hi := 0, n-1; lo <= hi; lo, hi = lo+1, hi-1 {
		seq = append(seq, lens[lo])
		if hi > lo {
			seq = append(seq, lens[hi])
		}
	}
	return append(seq, lens[0], lens[n-1])
}

func c11Lens(ls ...int) []int {
	seen := map[int]bool{}
	var out []int
	for _, l := range ls {
		if l >= 0 && !seen[l] {
			seen[l] = true
			out = append(out, l)
		}
	}
	sort.Ints(out)
	return out
}

// once parses `$[subs]` ONE time and calls the returned function over the lengths in the
// orders of c11Orders; every call is compared with the Python semantics for its length.
func (b *c11Bundle) once(subs []Sub, lens []int, r *Rng) {
	p := &Path{Head: HeadRoot, Steps: []*Step{{Kind: StUnion, Subs: subs}}}
	text := Render(p, r)
	f, po := SafeParse(text, nil)
	if f == nil {
		b.fail(text, nil, "abnormal", strings.TrimSpace(text)+": Parse fails: "+clip(po.Detail(), 600))
		return
	}
	b.parsedOnce++
	var hist []string
	for _, l := range c11Orders(lens) {
		doc := c11Doc(l)
		out := SafeCall(f, doc)
		hist = append(hist, strconv.Itoa(l))
		b.onceCalls++
		var want []int64
		for _, s := range subs {
			want = append(want, c11SubIndices(s, int64(l))...)
		}
		where := fmt.Sprintf("%s parsed ONCE, the function called on the lengths %s: the last call (on [0..%d))", strings.TrimSpace(text), strings.Join(hist, ","), l)
		bad := ""
		switch {
		case out.OK:
			got := make([]int64, len(out.Vals))
			notNum := false
			for i, v := range out.Vals {
				fl, ok := v.(float64)
				if !ok {
					notNum = true
				}
				got[i] = int64(fl)
			}
			if notNum || !c11EqInts(got, want) {
				bad = fmt.Sprintf("%s selects %s, a Python slice selects %s", where, c11Ints(got), c11Ints(want))
			}
		case out.ErrKind == "member":
			if len(want) > 0 {
				bad = fmt.Sprintf("%s fails with %q, a Python slice selects %s", where, out.Msg, c11Ints(want))
			} else if out.ErrText != p.Steps[0].Text {
				b.fail(text, doc, "wrong-error", fmt.Sprintf("%s: the error names %q instead of %q", where, out.ErrText, p.Steps[0].Text))
			}
		default:
			b.fail(text, doc, "abnormal", where+": "+clip(out.Detail(), 600))
		}
		if bad != "" {
			if _, seen := b.rec.Info["parsed_once"]; !seen {
				b.rec.Info["parsed_once"] = map[string]interface{}{"path": text, "lengths_called_in_order": strings.Join(hist, ","),
					"fresh_retrieve_on_last_length": c08Show(Run(text, doc, nil))}
			}
			b.fail(text, doc, "parsed-once", bad)
			b.tags["once:differs"] = true
			return // the function is spoilt; later calls only repeat the finding
		}
	}
}

func c11Ptr(v int64) *int64 { return &v }

func (c11) Exec(seed int64, i int, tier string) Record {
	plan := c11Layout(tier)
	r := CaseRng(seed, "C11", i)
	if i >= plan.nA+plan.nB+plan.nC+plan.nD+plan.nE+plan.nF {
		// part G, classes overlap-probe / kth-fault-probe (b15_overlap.go): slices, unions of slices, `..[a:b:c]` of ONE
		// parsed function on arrays of different lengths at overlapping times; a function failing on its k-th call only
		rec := b15Case("C11", r)
		if rec.Info == nil {
			rec.Info = map[string]interface{}{}
		}
		rec.Info["part"] = "G"
		rec.Tags = append(rec.Tags, "part:G")
		return rec
	}
	b := &c11Bundle{rec: Record{Info: map[string]interface{}{}}, tags: map[string]bool{}}
	var items []c11Item
	var spell *Rng       // nil: plainest spelling
	var onceSubs [][]Sub // parse-once checks: the subscript lists and the lengths each is called on
	var onceLens [][]int
	part := ""
	switch {
	case i < plan.nA:
		part = "A"
		s, e := c11Small[i/len(c11Small)], c11Small[i%len(c11Small)]
		b.rec.Text = "$[" + optInt(s) + ":" + optInt(e) + ":*]"
		b.rec.Doc = "[0..n) for n=0..6"
		for _, t := range c11Small {
			for l := 0; l <= 6; l++ {
				if tier != "thorough" && r.Intn(4) != 0 {
					continue
				}
				items = append(items, c11Item{Len: l, Subs: []Sub{{Kind: SubSlice, S: s, E: e, T: t}}})
			}
			onceSubs = append(onceSubs, []Sub{{Kind: SubSlice, S: s, E: e, T: t}})
			onceLens = append(onceLens, c11Lens(0, 1, 2, 3, 4, 5, 6))
		}
	case i < plan.nA+plan.nB:
		part = "B"
		j := i - plan.nA
		l := 0
		for j >= plan.bOff[l+1] {
			l++
		}
		j -= plan.bOff[l]
		bs := c11Boundary(l)
		s, e := bs[j/len(bs)], bs[j%len(bs)]
		b.rec.Text = "$[" + optInt(s) + ":" + optInt(e) + ":*]"
		b.rec.Doc = fmt.Sprintf("[0..%d)", l)
		for _, t := range bs {
			items = append(items, c11Item{Len: l, Subs: []Sub{{Kind: SubSlice, S: s, E: e, T: t}}})
			onceSubs = append(onceSubs, []Sub{{Kind: SubSlice, S: s, E: e, T: t}})
			onceLens = append(onceLens, c11Lens(0, 1, l-1, l, l+1, 2*l+1, 9))
		}
	case i < plan.nA+plan.nB+plan.nC:
		part = "C"
		l := i - plan.nA - plan.nB
		b.rec.Text = "$[n]"
		b.rec.Doc = fmt.Sprintf("[0..%d)", l)
		seen := map[int64]bool{}
		add := func(n int64) {
			if !seen[n] {
				seen[n] = true
				items = append(items, c11Item{Len: l, Subs: []Sub{{Kind: SubIdx, N: n}}})
				onceSubs = append(onceSubs, []Sub{{Kind: SubIdx, N: n}})
				onceLens = append(onceLens, c11Lens(0, 1, l-1, l, l+1, 9))
			}
		}
		for n := int64(-8); n <= 8; n++ {
			add(n)
		}
		for _, v := range c11Boundary(l) {
			if v != nil {
				add(*v)
			}
		}
		if r.Chance(50) {
			spell = r
		}
	case i >= plan.nA+plan.nB+plan.nC+plan.nD+plan.nE:
		part = "F"
		spell = r
		b.rec.Text = "giant arrays"
		b.giant(r)
	case i >= plan.nA+plan.nB+plan.nC+plan.nD:
		part = "E"
		spell = r
		b.leanMax, b.leanItems = 300, 1
		for k := 0; k < 6; k++ {
			l := []int{257, 258, 260, 300, 400, 511, 512, 513, 700, 1023, 1024, 1025, 1100}[r.Intn(13)]
			if k == 0 {
				l = []int{257, 258, 260, 300}[r.Intn(4)] // the one put to Lean
			}
			n := r.Weighted([]int{0, 75, 20, 5})
			subs := make([]Sub, n)
			for x := range subs {
				subs[x] = c11LongSub(r, l)
			}
			items = append(items, c11Item{Len: l, Subs: subs})
		}
		b.rec.Text = "long arrays"
	default:
		part = "D"
		spell = r
		for k := 0; k < 8; k++ {
			l := r.Weighted([]int{4, 6, 8, 10, 10, 10, 10, 8, 8, 6, 6})
			if r.Chance(15) {
				l = r.Range(11, 40)
			}
			n := r.Weighted([]int{0, 70, 20, 10})
			subs := make([]Sub, n)
			allWild := true
			for x := range subs {
				subs[x] = c11RandSub(r, l)
				allWild = allWild && subs[x].Kind == SubWild
			}
			if allWild { // `[*]` / `[*,*]` are not unions for the parser
				subs[0] = Sub{Kind: SubIdx, N: c11RandInt(r, l)}
			}
			items = append(items, c11Item{Len: l, Subs: subs})
		}
		b.rec.Text = "random"
	}
	if spell == nil && part != "C" {
		// the arithmetic does not depend on the spelling; a quarter of the bundles use a random one
		if r.Chance(25) {
			spell = r
		}
	}
	b.run(items, spell)
	if part == "E" {
		// parsed once, called on lengths on both sides of 256 / 512 / 1024 and on short arrays
		for _, it := range items {
			onceSubs = append(onceSubs, it.Subs)
			onceLens = append(onceLens, c11Lens(r.Range(0, 12), 255, 256, 257, it.Len, it.Len+1, r.Range(258, 1100), r.Range(200, 300)))
		}
	}
	if part == "D" {
		// every union once more: parsed once, called on its own length and on shorter and longer ones
		for _, it := range items {
			onceSubs = append(onceSubs, it.Subs)
			onceLens = append(onceLens, c11Lens(0, 1, it.Len, it.Len+1, r.Range(0, 12), r.Range(0, 12), r.Range(0, 2*it.Len+3)))
		}
	}
	for k := range onceSubs {
		b.once(onceSubs[k], onceLens[k], spell)
	}
	// overlapping calls (a quarter of the cases): one of the parsed-once subscript lists that has a slice,
	// 3..4 different lengths, one goroutine per length
	overlapCalls := 0
	if len(onceSubs) > 0 && r.Chance(25) {
		var cand []int
		for k, subs := range onceSubs {
			for _, s := range subs {
				if s.Kind == SubSlice && (s.T == nil || *s.T != 0) {
					cand = append(cand, k)
					break
				}
			}
		}
		if len(cand) > 0 {
			k := cand[r.Intn(len(cand))]
			base := onceLens[k][len(onceLens[k])-1]
			if base > 12 {
				base = 12
			}
			lens := c11Lens(r.Range(1, 4), r.Range(3, 7), r.Range(5, 9), base+r.Range(0, 2))
			if len(lens) >= 2 {
				overlapCalls = b.overlap(onceSubs[k], lens, 300, spell)
				b.rec.Tags = append(b.rec.Tags, "overlap:one-parse-concurrent-lengths")
			}
		}
	}
	b.rec.Info["overlap_calls"] = overlapCalls
	b.rec.Info["parsed_once_functions"] = b.parsedOnce
	b.rec.Info["parsed_once_calls"] = b.onceCalls
	b.rec.Info["part"] = part
	b.rec.Info["slices"] = b.slices
	b.rec.Info["nonempty"] = b.nonempty
	for t := range b.tags {
		b.rec.Tags = append(b.rec.Tags, t)
	}
	b.rec.Tags = append(b.rec.Tags, "part:"+part)
	if b.onceCalls > 0 {
		b.rec.Tags = append(b.rec.Tags, "once:one-parse-many-lengths")
	}
	sort.Strings(b.rec.Tags)
	if b.nonempty > 0 {
		if part == "D" || part == "E" || part == "F" {
			// distinct by the sign / magnitude classes of the first selecting subscript list
			b.rec.Key = part + "/" + b.firstKey
		} else {
			b.rec.Key = part + "/" + b.rec.Text + "/" + b.rec.Doc
		}
	}
	return b.rec
}

func c11RandInt(r *Rng, l int) int64 {
	switch r.Weighted([]int{35, 30, 15, 20}) {
	case 0:
		return int64(r.Range(-9, 9))
	case 1: // around ±length
		sign := int64(1)
		if r.Chance(50) {
			sign = -1
		}
		return sign * int64(l+r.Range(-2, 2))
	case 2: // around powers of two
		sh := uint([]int{31, 32, 62}[r.Intn(3)])
		v := int64(1)<<sh + int64(r.Range(-2, 2))
		if r.Chance(50) {
			v = -v
		}
		return v
	}
	switch r.Intn(5) {
	case 0:
		return c11MaxInt - int64(r.Range(0, 3))
	case 1:
		return c11MinInt + int64(r.Range(0, 3))
	case 2:
		return -c11MaxInt + int64(r.Range(0, 3))
	}
	return int64(r.Next())
}

func c11RandSub(r *Rng, l int) Sub {
	switch r.Weighted([]int{25, 70, 5}) {
	case 0:
		return Sub{Kind: SubIdx, N: c11RandInt(r, l)}
	case 2:
		return Sub{Kind: SubWild}
	}
	s := Sub{Kind: SubSlice}
	if r.Chance(75) {
		s.S = c11Ptr(c11RandInt(r, l))
	}
	if r.Chance(75) {
		s.E = c11Ptr(c11RandInt(r, l))
	}
	if r.Chance(80) {
		s.T = c11Ptr(c11RandInt(r, l))
	}
	return s
}

// c11LongInt: a bound for an array of length l > 256: at and around 255 / 256 / 257, the length, half
// the length, 512, 1024 (both signs), anywhere in the array, or small.
func c11LongInt(r *Rng, l int) int64 {
	var v int64
	switch r.Weighted([]int{30, 20, 30, 10, 10}) {
	case 0:
		v = int64([]int{255, 256, 257, 258, 300, 512, 1024}[r.Intn(7)] + r.Range(-1, 1))
	case 1:
		v = int64([]int{l, l - 1, l / 2, l - 256, l - 257}[r.Intn(5)] + r.Range(-1, 1))
	case 2:
		v = int64(r.Range(0, l))
		if r.Chance(60) {
			v = int64(r.Range(250, l)) // the upper part
		}
	case 3:
		v = int64(r.Range(0, 9))
	default:
		return c11RandInt(r, l)
	}
	if r.Chance(35) {
		v = -v
	}
	return v
}

func c11LongSub(r *Rng, l int) Sub {
	if r.Chance(12) {
		return Sub{Kind: SubIdx, N: c11LongInt(r, l)}
	}
	s := Sub{Kind: SubSlice}
	if r.Chance(85) {
		s.S = c11Ptr(c11LongInt(r, l))
	}
	if r.Chance(70) {
		s.E = c11Ptr(c11LongInt(r, l))
	}
	switch r.Weighted([]int{40, 25, 10, 10, 10, 5}) {
	case 1:
		s.T = c11Ptr(1)
	case 2:
		s.T = c11Ptr(-1)
	case 3:
		s.T = c11Ptr(int64([]int{2, 3, -2, -3, 7}[r.Intn(5)]))
	case 4:
		s.T = c11Ptr(int64([]int{255, 256, 257, -256, 128}[r.Intn(5)]))
	case 5:
		s.T = c11Ptr(c11RandInt(r, l))
	}
	return s
}
