package jph

import (
	"fmt"
	"regexp"
	"strconv"
	"unicode/utf8"
)

// C17 — the accepted language is the published grammar; syntax errors point at the spot.
// Translation validation of the generated parser (jsonpath.peg.go) against its source
// (jsonpath.peg): every string is given to the real Parse and to jpv-peg, which EXECUTES the
// grammar regenerated from /repo on this run (Peg.run on Gen.grammar + the action stack machine):
// acceptance, error type, position, `near`, offending argument, and on success the whole parsed
// tree must agree. Paths with invalid UTF-8 bytes are included: the parser works on []rune(path) (every
// invalid byte is one U+FFFD), the model is given that character sequence. Plus the model-free part of the statement: position is a character offset inside
// the path and `near` is exactly the rest of the path from that character on.

type c17 struct{}

func init() { Props["C17"] = c17{} }

func (c17) Count(tier string) int {
	if tier == "thorough" {
		return 600000
	}
	return 60000
}

var c17reSyntax = regexp.MustCompile(`(?s)^invalid syntax \(position=(\d+), reason=(.*?), near=(.*)\)$`)
var c17reArg = regexp.MustCompile(`(?s)^invalid argument \(argument=(.*), error=`)
var c17reNotFound = regexp.MustCompile(`(?s)^function not found \(function=(.*)\)$`)
var c17reNotSup = regexp.MustCompile(`(?s)^not supported \(feature=(.*?), path=(.*)\)$`)

// the four messages Go's strconv / regexp / json put after `error=` may themselves contain ", error=";
// cut the argument at the LAST occurrence that leaves a plausible argument: the argument is a substring
// of the path, so pick the longest prefix that occurs in the path.
func c17Argument(msg, path string) (string, bool) {
	const pre = "invalid argument (argument="
	if len(msg) < len(pre) || msg[:len(pre)] != pre {
		return "", false
	}
	rest := msg[len(pre):]
	best, found := "", false
	for i := 0; i+8 <= len(rest); i++ {
		if rest[i:i+8] == ", error=" {
			cand := rest[:i]
			best, found = cand, true
			break
		}
	}
	_ = path
	return best, found
}

func (c17) Exec(seed int64, i int, tier string) Record {
	r := CaseRng(seed, "C17", i)
	if i%1500 == 777 {
		// class huge (b12_helpers.go): a quoted member name of 65 600..70 000 characters right after `$`; the outcome for the rest
		// must be the outcome with the name `a` (same kind; syntax errors at the shifted position). The grammar models are not asked.
		return c17HugeCase(r)
	}
	if i >= 12000 && i%50 == 21 {
		return c17HistoryCase(r) // class registry-history (b14_helpers.go): function names resolve against THIS call's Config
	}
	if i >= 12000 && i%50 == 37 {
		return c17SameStringCase(r) // class same-string-history (b14_helpers.go): the same string parsed again gives the same answer
	}
	enum := c02Enum()
	var s, gen string
	// a slice of the bounded-exhaustive reduced grammar first, then random strings
	stride := 1
	if tier != "thorough" {
		stride = 7
	}
	if i*stride < len(enum) && i < 12000 {
		s, gen = enum[i*stride], "enum"
	} else {
		// deep nesting included: the drivers memoise rule results like the generated parser (C02_memo_transparent)
		switch r.Weighted([]int{20, 30, 18, 10, 6, 8, 8}) {
		case 0:
			s, _, _ = c02GenValid(r)
			gen = "valid"
		case 1:
			s, _, _, gen = c02GenMutant(r)
		case 2:
			s, gen = c02GenSoup(r), "soup"
		case 3:
			s, gen = c02GenUnicode(r), "unicode"
		case 4:
			s, gen = c02GenNest(r), "nest"
		case 5:
			s, gen = c02GenNumber(r), "number"
		case 6:
			var class string
			s, class = c17GenBadUTF8(r)
			gen = "bad-utf8:" + class
		}
	}
	longTail := i%40 == 9
	if longTail {
		// class long-tail (round 8): 1100..3000 bytes of path follow the spot of a syntax error; position / near are
		// checked model-free only (the grammar models are not asked about texts of this length)
		s, gen = c17LongTail(r, s), gen+"+long-tail"
	}
	rec := Record{Text: s, Tags: []string{"gen:" + gen}}
	if longTail {
		rec.Tags = append(rec.Tags, "class:long-tail")
	}
	if !utf8.ValidString(s) {
		// The generated parser works on []rune(path): every invalid byte is the character U+FFFD there.
		// The model works on Unicode strings, so it is given exactly that character sequence
		// (SexpString ranges over the string as []rune does). Texts the library cuts out of the path
		// itself (near=…) keep the raw bytes; they are compared as character sequences as well.
		rec.Tags = append(rec.Tags, "input:invalid-utf8")
		if len([]rune(s)) == len(s) {
			rec.Tags = append(rec.Tags, "input:invalid-utf8,no-multi-byte-character")
		}
		rec.Info = map[string]interface{}{"path_go_quoted": strconv.Quote(s), "note": "the path contains invalid UTF-8 bytes (JSON cannot show them: use path_go_quoted)"}
	}
	acc := r.Chance(30)
	// the registry WITHOUT the case-variant decoys of registry.go: the grammar models know the registry's names only,
	// so a name like `TWICE` must be "function not found" on both sides (a library that folds case would accept it)
	cfg := ConfigNoDecoys(acc)
	f, out, tree := ParseTree(s, &cfg)
	accS := "f"
	if acc {
		accS = "t"
		rec.Tags = append(rec.Tags, "mode:accessor")
	}
	runes := []rune(s)
	nonASCII := len(runes) != len(s)
	if nonASCII {
		rec.Tags = append(rec.Tags, "input:non-ascii")
	}
	var expect string
	switch {
	case f != nil:
		expect = "(q ok " + tree[1:]
		rec.Tags = append(rec.Tags, "outcome:accepted")
		rec.Key = "ok/" + c02Skeleton(s, 24)
	case out.ErrKind == "syntax":
		m := c17reSyntax.FindStringSubmatch(out.Msg)
		if m == nil {
			rec.Viol = "cannot read the syntax error: " + out.Msg
			rec.Class = "syntax-format"
			return rec
		}
		pos, _ := strconv.Atoi(m[1])
		reason, near := m[2], m[3]
		// model-free: a character offset inside the path, near = the rest from that character on
		if pos < 0 || pos > len(runes) {
			rec.Viol = fmt.Sprintf("position %d is outside the path (%d characters) [input %q]", pos, len(runes), s)
			rec.Class = "position-range"
			return rec
		}
		if rest, _ := c17RuneSuffix(s, pos); near != rest {
			rec.Viol = fmt.Sprintf("near=%q is not the rest of the path from character %d (%q) [input %q]", near, pos, rest, s)
			rec.Class = "near"
			return rec
		}
		expect = "(q (syntax " + strconv.Itoa(pos) + " " + SexpString(reason) + " " + SexpString(near) + "))"
		rec.Tags = append(rec.Tags, "outcome:syntax:"+reason)
		rec.Key = "syntax/" + reason + "/" + c02Skeleton(s, 24)
		if nonASCII {
			rec.Key += "/u"
		}
	case out.ErrKind == "argument":
		arg, ok := c17Argument(out.Msg, s)
		if !ok {
			rec.Viol = "cannot read the argument error: " + out.Msg
			rec.Class = "argument-format"
			return rec
		}
		expect = "(q (argument " + SexpString(arg) + "))"
		rec.Tags = append(rec.Tags, "outcome:argument")
		rec.Key = "argument/" + c02Skeleton(s, 24)
	case out.ErrKind == "notfound":
		m := c17reNotFound.FindStringSubmatch(out.Msg)
		if m == nil {
			rec.Viol = "cannot read the error: " + out.Msg
			rec.Class = "format"
			return rec
		}
		expect = "(q (notfound " + SexpString(m[1]) + "))"
		rec.Tags = append(rec.Tags, "outcome:notfound")
		rec.Key = "notfound/" + c02Skeleton(s, 24)
	case out.ErrKind == "notsupported":
		m := c17reNotSup.FindStringSubmatch(out.Msg)
		if m == nil {
			rec.Viol = "cannot read the error: " + out.Msg
			rec.Class = "format"
			return rec
		}
		expect = "(q (notsupported " + SexpString(m[1]) + " " + SexpString(m[2]) + "))"
		rec.Tags = append(rec.Tags, "outcome:notsupported")
		rec.Key = "notsupported/" + c02Skeleton(s, 24)
	default:
		rec.Viol = "undocumented Parse outcome: " + out.Detail()
		rec.Class = "abnormal"
		return rec
	}
	if longTail {
		if out.ErrKind == "syntax" {
			rec.Tags = append(rec.Tags, "long-tail:syntax-error")
		}
		return rec
	}
	rec.Q = []LeanQ{{Driver: "peg", Line: "(q parse " + accS + " " + SexpString(s) + ")", Expect: expect,
		What: "real Parse vs the grammar executed in Lean (parseModel)", Oracle: true, Skip: "(q unmodelled)"}}
	// three-way (L20): the same question answered with the expressions decompiled from the rule functions of jsonpath.peg.go
	rec.Q = append(rec.Q, LeanQ{Driver: "peggo", Line: "(q goparse " + accS + " " + SexpString(s) + ")", Expect: expect,
		What: "real Parse vs the decompiled rule functions of jsonpath.peg.go executed in Lean (Gen.goGrammar)", Oracle: true, Skip: "(q unmodelled)"})
	// four-way (L30): the rule functions run with the templates of the generated code on the regenerated Go runtime (RunGo.parseGoRules)
	rec.Q = append(rec.Q, LeanQ{Driver: "peggo", Line: "(q gorun " + accS + " " + SexpString(s) + ")", Expect: expect,
		What: "real Parse vs the rule functions on the regenerated runtime of jsonpath.peg.go executed in Lean (RunGo.parseGoRules)", Oracle: true, Skip: "(q unmodelled)"})
	rec.Tags = append(rec.Tags, "lean:gorun")
	l31RangeStarts(seed, i, &rec) // L31: GoString.rangeStarts (Lean) vs Go's range loop / []rune — l31_rangestarts.go; a difference is a broken tie
	return rec
}

// c17LongTail: base + a token that cannot continue a path + 1100..3000 bytes of path-like text.
func c17LongTail(r *Rng, base string) string {
	if len(base) > 400 {
		base = "$.a[0]"
	}
	bad := r.Pick([]string{"]", " x", "$$", "[", "..", "'", ")", "[?(", "[1,", ".", "[?(@.a==)]", "\u00e9]", "[?(@.a=~/(/)]"})
	segs := []string{".abc", "[0]", "['k']", "[*]", "..x", "[1:2]", "[?(@.a==1)]", ".\u00e9\u3000", "[\"q\",'r']", ".count()", " ", "[?(@.b=~/x/)]", ".\U0001F600"}
	want := r.Range(1100, 3000)
	tail := ""
	for len(tail) < want {
		tail += r.Pick(segs)
	}
	if r.Chance(15) {
		// no error token: the tail itself is valid text, the error (if any) is where the base has it
		bad = ""
	}
	return base + bad + tail
}
