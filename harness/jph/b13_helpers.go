package jph

import (
	"encoding/json"
	"fmt"
	"reflect"
	"runtime"
	"sort"
	"strconv"
	"strings"
	"sync"
	"sync/atomic"
	"time"

	"jpvharness/jph/twin"
)

// Round 13 helpers: case classes for the five seeded changes that until now were noticed only through a broken
// tie (C15-r, C11-r, C06-r, C06-s, C01-s). Each class states its oracle next to it.

// ---------- C15: two named types with the same bare name ----------

// Class same-name-types (C15, one case in 50). The leaves of a document may be any Go value; a step applied to a
// value that is neither object nor array fails with `type unmatched (expected=…, found=T, path=STEP)` where T is
// the Go type of THE VALUE FOUND (reflect.TypeOf(v).String(), as the walk of c15.go computes it). A case is a
// sequence of 2..5 evaluations in one process; consecutive evaluations put values of two DIFFERENT named types
// with the same bare name at the failing step (encoding/json.Number and twin.Number, time.Duration and
// twin.Duration, …, in either order, now and then with an unrelated type or the same type again in between).
// Every evaluation is compared, exactly, with the single failure the walk finds; all six kinds of failing step
// (child, multi-name, wildcard, `..`, filter, union) occur. Model-free (Lean's Val has no such leaves).

type c15TwinPair struct {
	name string
	a, b func(r *Rng) interface{}
}

var c15TwinPairs = []c15TwinPair{
	{"Number", func(r *Rng) interface{} { return json.Number(fmt.Sprint(r.Range(-9, 99))) }, func(r *Rng) interface{} { return twin.Number(fmt.Sprint(r.Range(-9, 99))) }},
	{"Duration", func(r *Rng) interface{} { return time.Duration(r.Range(0, 5000)) }, func(r *Rng) interface{} { return twin.Duration(r.Range(0, 5000)) }},
	{"Month", func(r *Rng) interface{} { return time.Month(r.Range(1, 12)) }, func(r *Rng) interface{} { return twin.Month(r.Range(1, 12)) }},
	{"Kind", func(r *Rng) interface{} { return reflect.Kind(r.Range(1, 20)) }, func(r *Rng) interface{} { return twin.Kind(r.Range(1, 20)) }},
	{"Time", func(r *Rng) interface{} { return time.Unix(int64(r.Range(0, 1<<30)), 0).UTC() }, func(r *Rng) interface{} { return twin.Time{Sec: int64(r.Range(0, 1<<30))} }},
	{"Value", func(r *Rng) interface{} { return reflect.ValueOf(r.Range(0, 9)) }, func(r *Rng) interface{} { return twin.Value{V: r.Range(0, 9)} }},
}

// c15TwinDescribe: the document as JSON text with every non-JSON leaf replaced by a description of the Go value.
func c15TwinDescribe(v interface{}) interface{} {
	switch t := v.(type) {
	case map[string]interface{}:
		m := map[string]interface{}{}
		for k, x := range t {
			m[k] = c15TwinDescribe(x)
		}
		return m
	case []interface{}:
		out := make([]interface{}, len(t))
		for i, x := range t {
			out[i] = c15TwinDescribe(x)
		}
		return out
	case nil, bool, float64, string:
		return v
	}
	return fmt.Sprintf("<Go value of type %s: %#v>", reflect.TypeOf(v).String(), v)
}

// c15TwinFailStep: a step that fails on any value that is not a container (one per raising site of the library).
func c15TwinFailStep(r *Rng) *Step {
	exist := func() *Query {
		return &Query{Kind: QExist, P: &Path{Head: HeadCur, Steps: []*Step{{Kind: StChild, Key: "a"}}}}
	}
	switch r.Intn(8) {
	case 0:
		return &Step{Kind: StChild, Key: r.Pick(BaseKeys), Bracket: r.Chance(30), DQuote: r.Chance(30)}
	case 1:
		return &Step{Kind: StMulti, Names: []Name{{Key: "a"}, {Key: r.Pick([]string{"b", "c", "zz"})}}}
	case 2:
		return &Step{Kind: StWild, Bracket: r.Chance(50)}
	case 3:
		return &Step{Kind: StDesc, Inner: &Step{Kind: StChild, Key: r.Pick(BaseKeys)}}
	case 4:
		return &Step{Kind: StDesc, Inner: &Step{Kind: StWild, Bracket: r.Chance(50)}}
	case 5:
		return &Step{Kind: StFilter, Q: exist()}
	case 6:
		return &Step{Kind: StUnion, Subs: []Sub{{Kind: SubIdx, N: int64(r.Range(-2, 2))}}}
	}
	sl := Sub{Kind: SubSlice}
	return &Step{Kind: StUnion, Subs: []Sub{{Kind: SubIdx, N: 0}, sl}}
}

func c15TwinCase(r *Rng) Record {
	pair := c15TwinPairs[r.Intn(len(c15TwinPairs))]
	aFirst := r.Chance(50)
	// the sequence of leaf constructors: the two twins in a drawn order, sometimes with something in between / repeated
	type mk struct {
		what string
		f    func(r *Rng) interface{}
	}
	first, second := mk{"std", pair.a}, mk{"twin", pair.b}
	if !aFirst {
		first, second = second, first
	}
	seq := []mk{first}
	if r.Chance(30) {
		other := c15TwinPairs[r.Intn(len(c15TwinPairs))]
		seq = append(seq, mk{"other", other.b})
	}
	if r.Chance(20) {
		seq = append(seq, first)
	}
	seq = append(seq, second)
	if r.Chance(40) {
		seq = append(seq, first)
	}
	plain := Config(false, nil)
	acc := Config(true, nil)
	rec := Record{Info: map[string]interface{}{}, Tags: []string{"class:same-name-types", "same-name:" + pair.name}}
	if aFirst {
		rec.Tags = append(rec.Tags, "same-name:std-type-first")
	} else {
		rec.Tags = append(rec.Tags, "same-name:twin-type-first")
	}
	var evals []interface{}
	kinds := ""
	for n, m := range seq {
		leaf := m.f(r)
		steps := LongSteps(r, r.Range(0, 3))
		doc := DeepDoc(r, steps, len(steps), leaf)
		fs := c15TwinFailStep(r)
		all := append(append([]*Step{}, steps...), fs)
		if r.Chance(25) {
			all = append(all, &Step{Kind: StChild, Key: "b"})
		}
		p := &Path{Head: HeadRoot, Steps: all}
		text := Render(p, r)
		cfg := &plain
		if r.Chance(25) {
			cfg = &acc
		}
		out := Run(text, doc, cfg)
		w := &c15Walker{doc: doc, steps: p.Steps}
		w.walk(0, doc, nil)
		desc := map[string]interface{}{"n": n, "path": text, "document": JSONText(c15TwinDescribe(doc)), "leaf_type": reflect.TypeOf(leaf).String(), "accessor": cfg == &acc, "outcome": clip(out.Detail(), 300)}
		evals = append(evals, desc)
		rec.Text, rec.Doc = text, desc["document"].(string)
		rec.Info["evaluations_in_order"] = evals
		if w.problem != "" || len(w.fails) != 1 || len(w.reached) != 0 || w.fails[0].Kind != "type" {
			rec.Viol, rec.Class = fmt.Sprintf("harness: evaluation %d: the walk did not find exactly one type failure (%s %s)", n, w.problem, c15List(w.fails)), "harness"
			return rec
		}
		want := w.fails[0]
		kinds += fmt.Sprint(int(fs.Kind))
		if out.OK || out.ErrKind != "type" || out.Msg != want.String() {
			rec.Viol = fmt.Sprintf("evaluation %d of %d in this process: %s on a document whose value at the failing step has Go type %s must fail with %q (the type of the value found) but the outcome is %s",
				n+1, len(seq), text, want.Found, want.String(), clip(out.Detail(), 300))
			rec.Class = "found-type-of-another-value"
			return rec
		}
	}
	rec.Key = "same-name/" + pair.name + fmt.Sprint(aFirst, len(seq)) + "/" + kinds
	return rec
}

// ---------- C11: part F, arrays of 65 536 elements and more ----------

// Part F (40 cases, thorough 2000). Arrays [0..l) with l at and beyond 65 536 (65 536, 65 537, 65 540, 70 000,
// 100 003, 131 072). Bounds: omitted, small, at and around ±l, ±l/2, anywhere in the array, and the 64-bit
// magnitudes of part B. Steps: the 64-bit magnitudes of part B of BOTH signs (±(2^63-1), -2^63, -2^63+2, 2^63-2,
// ±2^62, ±2^32, ±2^31), steps within one array length of ±(2^63-1), ±l, ±(l±1), ±l/2, a few thousand, and (one
// slice in eight) ±1..±3 with bounds that keep the selection below 3 000 elements. Oracles ON THE INDEX LEVEL:
// the Go transcription of CPython's slice arithmetic (c11PySlice: index list from the bounds and the LENGTH
// only) and python3 itself on list(range(l)); the Lean drivers are not asked (they would need the array as
// text; the small-scope parts A/B put the same magnitudes to them). Each slice: a fresh Retrieve on [0..l), then
// parsed ONCE and called on lengths on both sides of 65 536 and on a short array in the orders of c11Orders.
// The replay names the path and the length, never the array.

var c11GiantLens = []int{65536, 65537, 65540, 70000, 100003, 131072}

var c11GiantMu sync.Mutex
var c11GiantDocs = map[int][]interface{}{}

// c11GiantDoc: [0..n) — built once per process and shared read-only.
func c11GiantDoc(n int) []interface{} {
	c11GiantMu.Lock()
	defer c11GiantMu.Unlock()
	if d, ok := c11GiantDocs[n]; ok {
		return d
	}
	if len(c11GiantDocs) > 24 {
		c11GiantDocs = map[int][]interface{}{}
	}
	d := c11Doc(n)
	c11GiantDocs[n] = d
	return d
}

func c11GiantBound(r *Rng, l int) *int64 {
	L := int64(l)
	var v int64
	switch r.Weighted([]int{20, 15, 25, 15, 25}) {
	case 0:
		return nil
	case 1:
		v = int64(r.Range(0, 120))
	case 2:
		v = []int64{L, L - 1, L / 2, L - 65536, 65536, 65535}[r.Intn(6)] + int64(r.Range(-2, 2))
	case 3:
		v = int64(r.Range(0, l))
	default:
		v = []int64{1 << 31, 1<<31 - 1, 1<<32 + 1, 1 << 62, c11MaxInt, c11MaxInt - 1, c11MaxInt - int64(r.Range(0, l))}[r.Intn(7)]
		if r.Chance(50) {
			v = -v
		}
		if r.Chance(12) {
			v = c11MinInt + int64(r.Range(0, 2))
		}
		return &v
	}
	if r.Chance(40) {
		v = -v
	}
	return &v
}

func c11GiantSlice(r *Rng, l int) Sub {
	L := int64(l)
	s := Sub{Kind: SubSlice, S: c11GiantBound(r, l), E: c11GiantBound(r, l)}
	var t int64
	switch r.Weighted([]int{45, 20, 15, 8, 12}) {
	case 0: // the 64-bit magnitudes
		t = []int64{c11MaxInt, c11MaxInt - 1, 1 << 62, 1<<32 + 1, 1 << 31, 1<<31 - 1}[r.Intn(6)]
		if r.Chance(70) {
			t = -t
		}
		if r.Chance(30) {
			t = []int64{c11MinInt, c11MinInt + 1, c11MinInt + 2}[r.Intn(3)]
		}
	case 1: // within one array length of the limits
		t = c11MaxInt - int64(r.Range(0, l))
		if r.Chance(75) {
			t = -t
		}
	case 2:
		t = []int64{L, L - 1, L + 1, L / 2, 65536, 65535}[r.Intn(6)]
		if r.Chance(50) {
			t = -t
		}
	case 3:
		t = int64(r.Range(1000, 9000))
		if r.Chance(50) {
			t = -t
		}
	default: // small steps: keep the selection small
		t = int64(r.Range(1, 3))
		a := int64(r.Range(0, l))
		bnd := a + int64(r.Range(0, 3000))
		if r.Chance(50) {
			t = -t
			a, bnd = bnd, a
		}
		if r.Chance(30) {
			a, bnd = a-L, bnd-L
		}
		s.S, s.E = &a, &bnd
	}
	if r.Chance(4) {
		return Sub{Kind: SubSlice, S: s.S, E: s.E} // step omitted
	}
	s.T = &t
	if want := c11PySlice(s.S, s.E, s.T, L); len(want) > 3000 {
		// e.g. [::1] after an omitted pair of bounds: replace the step by a stride of a few thousand
		t = int64(r.Range(1000, 9000)) * (t / abs64(t))
		s.T = &t
	}
	return s
}

func abs64(v int64) int64 {
	if v < 0 {
		return -v
	}
	return v
}

// c11GiantCheck: "" when the outcome on [0..l) is what Python selects.
func c11GiantCheck(out Outcome, want []int64, stepText string) (class, bad string) {
	switch {
	case out.OK:
		got := make([]int64, len(out.Vals))
		notNum := false
		for i, v := range out.Vals {
			fl, ok := v.(float64)
			if !ok {
				notNum = true
			}
			got[i] = int64(fl)
		}
		if notNum || !c11EqInts(got, want) {
			return "wrong-selection", fmt.Sprintf("selects %s, a Python slice selects %s", clip(c11Ints(got), 300), clip(c11Ints(want), 300))
		}
	case out.ErrKind == "member":
		if len(want) > 0 {
			return "wrong-selection", fmt.Sprintf("fails with %q, a Python slice selects %s", out.Msg, clip(c11Ints(want), 300))
		}
		if out.ErrText != stepText {
			return "wrong-error", fmt.Sprintf("the error names %q instead of %q", out.ErrText, stepText)
		}
	default:
		return "abnormal", clip(out.Detail(), 600)
	}
	return "", ""
}

func (b *c11Bundle) giant(r *Rng) {
	var items []c11Item
	for k := 0; k < 8; k++ {
		l := c11GiantLens[r.Weighted([]int{30, 20, 10, 15, 15, 10})]
		items = append(items, c11Item{Len: l, Subs: []Sub{c11GiantSlice(r, l)}})
	}
	py, perr := c11AskPython(items)
	if perr != nil {
		b.fail("", nil, "infra-python", "python3 oracle unavailable: "+perr.Error())
	}
	for k, it := range items {
		p := &Path{Head: HeadRoot, Steps: []*Step{{Kind: StUnion, Subs: it.Subs}}}
		text := Render(p, r)
		stepText := p.Steps[0].Text
		s := it.Subs[0]
		want := c11PySlice(s.S, s.E, s.T, int64(it.Len))
		b.tags[c11SignTag("start", s.S, it.Len)] = true
		b.tags[c11SignTag("end", s.E, it.Len)] = true
		b.tags[c11SignTag("step", s.T, it.Len)] = true
		b.slices++
		docDesc := fmt.Sprintf("the array of the integers 0..%d (length %d)", it.Len-1, it.Len)
		where := fmt.Sprintf("%s on [0..%d)", strings.TrimSpace(text), it.Len)
		if len(want) > 0 {
			b.nonempty++
			if b.firstKey == "" {
				b.firstKey = "(" + c11SignTag("s", s.S, it.Len) + c11SignTag(" e", s.E, it.Len) + c11SignTag(" t", s.T, it.Len) + ")"
			}
		}
		if perr == nil && !c11EqInts(py[k], want) {
			b.fail(text, docDesc, "oracle-disagree", fmt.Sprintf("%s: the transcription gives %s, python3 gives %s", where, clip(c11Ints(want), 300), clip(c11Ints(py[k]), 300)))
		}
		out := Run(text, c11GiantDoc(it.Len), nil)
		if cls, bad := c11GiantCheck(out, want, stepText); bad != "" {
			b.fail(text, docDesc, cls, where+" "+bad)
			continue
		}
		if out.OK {
			b.tags["outcome:ok"] = true
		} else {
			b.tags["outcome:err-member"] = true
		}
		// parsed once, called on lengths on both sides of 65 536
		f, po := SafeParse(text, nil)
		if f == nil {
			b.fail(text, nil, "abnormal", strings.TrimSpace(text)+": Parse fails: "+clip(po.Detail(), 600))
			continue
		}
		b.parsedOnce++
		var hist []string
		for _, l := range c11Orders(c11Lens(r.Range(0, 12), 65535, 65536, it.Len)) {
			hist = append(hist, strconv.Itoa(l))
			b.onceCalls++
			w := c11PySlice(s.S, s.E, s.T, int64(l))
			if cls, bad := c11GiantCheck(SafeCall(f, c11GiantDoc(l)), w, stepText); bad != "" {
				if cls == "wrong-selection" {
					cls = "parsed-once"
				}
				b.rec.Info["parsed_once"] = map[string]interface{}{"path": text, "lengths_called_in_order": strings.Join(hist, ",")}
				b.fail(text, fmt.Sprintf("the array of the integers 0..%d (length %d)", l-1, l), cls,
					fmt.Sprintf("%s parsed ONCE, the function called on the lengths %s: the last call (on [0..%d)) %s", strings.TrimSpace(text), strings.Join(hist, ","), l, bad))
				break
			}
		}
	}
}

// ---------- C06: big containers (>= 4 096 / >= 8 192 members) ----------

// Class big-containers (C06, one case in 50; b13). Two blocks.
//
// (1) ONE call from ONE goroutine, user function watched. A filter over an array / object of 8 192..16 400 members
// whose `@`-path (or `$`-path, or the path after the filter) ends in the filter function `probe` (identity). The
// function counts the calls in flight (atomic counter; it yields the processor once per call so that a second
// caller, if there is one, gets a chance to enter) and logs its arguments. Oracle = the call protocol C14 states and
// C06 presupposes ("the registered user functions are the CALLER's code: they run where the caller made the call"):
// a single call of a parsed function made from a single goroutine never has two user-function calls in flight, and
// the calls arrive in result order (one per member, member order); the result equals what `id` in place of `probe`
// gives. No thread is started by the harness in this block.
//
// (2) ONE parsed function per path, shared by 2..8 goroutines, arrays [0..n) of 2..3 DIFFERENT lengths >= 4 096
// (4 096, 4 097, 5 000, 8 191, 8 192, 9 000, 16 385). Paths: positive- and negative-step slices with small and
// large selections, unions containing slices, `..` + slice, a filter. Each goroutine alternates between the arrays
// (a different phase per goroutine, so that consecutive calls of the one function meet different lengths; 70%: every
// goroutine keeps to one array, neighbours to different ones) for about 9 000 calls in all of a path with a short selection, 500 of one that selects thousands (race-detector binary: a fifteenth); every answer must equal the answer a fresh Parse + call gave alone for that (path, length)
// (C06's oracle), compared by (count, first, last, sum). Afterwards every function is called alone again.
// Runs also in the race-detector binary (bin/race_c06.sh), where unsynchronised state in a shared node is a crash
// finding whatever the schedule.

var c06BigLens = []int{4096, 4097, 5000, 8191, 8192, 9000, 16385}

var c06BigPaths = []string{"$[1:]", "$[0:2]", "$[::2]", "$[1::2]", "$[10:20:3]", "$[-3:]", "$[4000:4100]", "$[0,5:8]", "$[3:1,2:4,-1]", "$..[4094:4099]",
	"$[4095::1000]", "$[::-1]", "$[-1:-4:-1]", "$[:4:1]", "$[?(@ > 4090)]", "$[2:9:2]", "$[ 5 : 5000 : 4999 ]"}

var c06BigTail = []string{"$[-3:]", "$[-1:]", "$[-2:]", "$[4090::3]", "$[-5::2]", "$[0,-2:]", "$..[-2:]", "$[-4:-1]"}

type c06Digest struct {
	ok          bool
	n           int
	first, last interface{}
	sum         float64
	msg         string
}

func c06BigDigest(o Outcome) c06Digest {
	if !o.OK {
		return c06Digest{msg: c05Canon(o)}
	}
	d := c06Digest{ok: true, n: len(o.Vals)}
	if d.n > 0 {
		d.first, d.last = o.Vals[0], o.Vals[d.n-1]
	}
	for _, v := range o.Vals {
		if f, ok := v.(float64); ok {
			d.sum += f
		}
	}
	return d
}

func (d c06Digest) String() string {
	if !d.ok {
		return d.msg
	}
	return fmt.Sprintf("ok: %d values, first %v, last %v, sum %v", d.n, d.first, d.last, d.sum)
}

// c06Probe: the watched identity function.
type c06Probe struct {
	inflight, maxInflight, calls int32
	mu                           sync.Mutex
	args                         []float64
}

func (p *c06Probe) fn(v interface{}) (interface{}, error) {
	n := atomic.AddInt32(&p.inflight, 1)
	for {
		m := atomic.LoadInt32(&p.maxInflight)
		if n <= m || atomic.CompareAndSwapInt32(&p.maxInflight, m, n) {
			break
		}
	}
	atomic.AddInt32(&p.calls, 1)
	f, _ := v.(float64)
	p.mu.Lock()
	p.args = append(p.args, f)
	p.mu.Unlock()
	runtime.Gosched()
	atomic.AddInt32(&p.inflight, -1)
	return v, nil
}

// c06BigSingle: block (1). Returns a violation text or "".
func c06BigSingle(r *Rng, rec *Record) string {
	n := []int{8192, 8193, 9000, 12000, 16400}[r.Intn(5)]
	object := r.Chance(30)
	// members {"v": k} (k = position in member order), a few without "v"
	var doc interface{}
	var order []float64
	missing := map[int]bool{}
	for k := r.Range(0, 3); k > 0; k-- {
		missing[r.Intn(n)] = true
	}
	member := func(k int) interface{} {
		if missing[k] {
			return map[string]interface{}{"w": float64(k)}
		}
		order = append(order, float64(k))
		return map[string]interface{}{"v": float64(k)}
	}
	if object {
		m := make(map[string]interface{}, n)
		for k := 0; k < n; k++ {
			m[fmt.Sprintf("k%06d", k)] = member(k)
		}
		doc = map[string]interface{}{"d": m, "lim": float64(n / 2)}
	} else {
		a := make([]interface{}, n)
		for k := range a {
			a[k] = member(k)
		}
		doc = map[string]interface{}{"d": a, "lim": float64(n / 2)}
	}
	text := []string{"$.d[?(@.v.probe() >= 0)]", "$.d[?(@.v.probe() > $.lim)]", "$.d[?(@.v.probe())]", "$.d[?(@.v.probe().twice() > 10)]", "$.d[?($.lim < @.v.probe())].v"}[r.Intn(5)]
	acc := r.Chance(25)
	probe := &c06Probe{}
	live, alone := Config(acc, nil), Config(acc, nil)
	live.SetFilterFunction("probe", probe.fn)
	alone.SetFilterFunction("probe", fnID)
	kind := "array"
	if object {
		kind = "object"
	}
	docDesc := fmt.Sprintf(`{"d": %s of %d members {"v": k} in member order k = 0..%d (without "v": %v), "lim": %d}`, kind, n, n-1, sortedIntKeys(missing), n/2)
	rec.Info["single_call"] = map[string]interface{}{"path": text, "document": docDesc, "accessor": acc,
		"replay": "register `probe` = identity that counts the calls in flight and logs its arguments; Parse once; ONE call from ONE goroutine"}
	rec.Tags = append(rec.Tags, "big:single-call-"+kind)
	want := c06Canon(Run(text, doc, &alone))
	got := c06Canon(Run(text, doc, &live))
	fail := func(what string) string {
		rec.Text, rec.Doc = text, docDesc
		return fmt.Sprintf("ONE call of %s from ONE goroutine on %s: %s", text, docDesc, what)
	}
	if m := atomic.LoadInt32(&probe.maxInflight); m > 1 {
		return fail(fmt.Sprintf("up to %d calls of the user function `probe` were in flight at the same time (%d calls in all); the caller made a single call from a single goroutine, so its functions must be called one at a time, in result order", m, probe.calls))
	}
	if len(probe.args) != len(order) {
		return fail(fmt.Sprintf("`probe` was called %d times, the path before it selects %d values", len(probe.args), len(order)))
	}
	for k := range order {
		if probe.args[k] != order[k] {
			return fail(fmt.Sprintf("call %d of `probe` got the value %v; in result order it is %v (calls are made once per selected value, in order)", k+1, probe.args[k], order[k]))
		}
	}
	if got != want {
		return fail("result with `probe` (identity) " + clip(got, 200) + " differs from the result with `id` " + clip(want, 200))
	}
	return ""
}

func sortedIntKeys(m map[int]bool) []int {
	out := []int{}
	for k := range m {
		out = append(out, k)
	}
	sort.Ints(out)
	return out
}

// c06BigShared: block (2).
func c06BigShared(r *Rng, rec *Record) string {
	nl := r.Range(2, 3)
	// two or three different lengths, mostly just beyond 4 096 (an evaluation costs time proportional to the length)
	var lens []int
	for len(lens) < nl {
		l := c06BigLens[r.Weighted([]int{28, 28, 20, 6, 6, 6, 6})]
		dup := false
		for _, x := range lens {
			dup = dup || x == l
		}
		if !dup {
			lens = append(lens, l)
		}
	}
	docs := make([][]interface{}, nl)
	for k := range lens {
		docs[k] = c11GiantDoc(lens[k])
	}
	np := r.Range(1, 3)
	texts := make([]string, np)
	calls := make([]int, np) // per goroutine
	shared := make([]Parsed, np)
	exp := make([][]c06Digest, np)
	G := []int{2, 3, 4, 4, 6, 8, 8, 12}[r.Intn(8)]
	for k := range texts {
		// a value torn between two goroutines is a matter of nanoseconds: about 9 000 calls of a path whose selection is
		// short, 500 of one that selects thousands of elements; the race detector needs no luck (and costs 10..20x per call)
		texts[k] = r.Pick(c06BigPaths)
		calls[k] = r.Range(300, 700) / G
		if r.Chance(65) {
			texts[k] = r.Pick(c06BigTail) // the selection depends on the length and is short
			calls[k] = r.Range(7000, 11000) / G
		}
		if c06Race {
			calls[k] = calls[k]/15 + 8
		}
		exp[k] = make([]c06Digest, nl)
		for d := range docs {
			o := Run(texts[k], docs[d], nil)
			if o.ErrKind == "panic" {
				return "panic when run alone: " + texts[k] + fmt.Sprintf(" on [0..%d): ", lens[d]) + o.Panic
			}
			exp[k][d] = c06BigDigest(o)
		}
		f, o := SafeParse(texts[k], nil)
		if f == nil {
			return "harness: Parse rejects " + texts[k] + ": " + o.Detail()
		}
		shared[k] = f
	}
	fixed := r.Chance(70) // every goroutine keeps to one array (different goroutines: different lengths); else: in turn
	how := "in turn (call m of goroutine g: array g+m mod the number of arrays)"
	if fixed {
		how = "goroutine g always on array g mod the number of arrays"
	}
	rec.Info["shared_big"] = map[string]interface{}{"paths": texts, "array_lengths": lens, "goroutines": G, "calls_per_goroutine_per_path": calls,
		"one_array_per_goroutine": fixed,
		"replay": "Parse every path once; all goroutines go through the paths in order and call the ONE function of the path calls_per_goroutine_per_path times, " + how}
	rec.Tags = append(rec.Tags, fmt.Sprintf("big:shared-G%02d", G))
	errs := make([]string, G)
	var wg sync.WaitGroup
	start := make(chan struct{})
	for g := 0; g < G; g++ {
		wg.Add(1)
		go func(g int) {
			defer wg.Done()
			<-start
			for k := 0; k < np; k++ {
				for m := 0; m < calls[k]; m++ {
					d := (g + m) % nl
					if fixed {
						d = g % nl
					}
					got := c06BigDigest(SafeCall(shared[k], docs[d]))
					if got != exp[k][d] {
						errs[g] = fmt.Sprintf("%d goroutines share ONE parsed function of %s and call it on the arrays [0..n) for n = %v, %s: call %d of goroutine %d, on [0..%d): concurrent = %s; alone = %s",
							G, texts[k], lens, how, m, g, lens[d], clip(got.String(), 300), clip(exp[k][d].String(), 300))
						return
					}
				}
			}
		}(g)
	}
	close(start)
	wg.Wait()
	for _, e := range errs {
		if e != "" {
			rec.Text, rec.Doc = strings.Join(texts, "   |   "), fmt.Sprintf("arrays [0..n) for n = %v", lens)
			return e
		}
	}
	for k := range texts {
		for d := range docs {
			if got := c06BigDigest(SafeCall(shared[k], docs[d])); got != exp[k][d] {
				rec.Text, rec.Doc = texts[k], fmt.Sprintf("[0..%d)", lens[d])
				return fmt.Sprintf("after %d goroutines used it, the shared function of %s answers %s on [0..%d); alone before: %s", G, texts[k], got, lens[d], exp[k][d])
			}
		}
	}
	return ""
}

func c06BigCase(r *Rng) Record {
	rec := Record{Text: "big containers", Info: map[string]interface{}{}, Tags: []string{"class:big-containers"}}
	if c06Race {
		rec.Tags = append(rec.Tags, "race-detector:on")
	} else {
		rec.Tags = append(rec.Tags, "race-detector:off")
	}
	if v := c06BigSingle(r, &rec); v != "" {
		rec.Viol, rec.Class = v, "user-function-concurrent"
		return rec
	}
	if v := c06BigShared(r, &rec); v != "" {
		rec.Viol, rec.Class = v, "concurrent-differs"
		return rec
	}
	rec.Key = "big/" + strings.Join(rec.Tags, ",") + "/" + fmt.Sprint(rec.Info["shared_big"].(map[string]interface{})["paths"])
	return rec
}
