package jph

import "strings"

// ListingSexp is ValSexp with the entries of EVERY map written in a pseudo-random order (drawn from r, so a
// case replays exactly): one of the listings Go's map iteration could have produced. The model's
// `Canon.canon` (lean/JPV/Canon.lean; theorems in Props/C07Doc.lean: any two listings of the same nested
// maps have the same canonical form, which is well-formed) must bring it back to ValSexp's canonical form.
// The second result counts the maps with ≥ 2 entries whose order really differs from the sorted one.
func ListingSexp(v interface{}, r *Rng) (string, int) {
	var b strings.Builder
	n := 0
	writeListing(&b, v, r, &n)
	return b.String(), n
}

func writeListing(b *strings.Builder, v interface{}, r *Rng, moved *int) {
	switch t := v.(type) {
	case []interface{}:
		b.WriteString("(a")
		for _, x := range t {
			b.WriteByte(' ')
			writeListing(b, x, r, moved)
		}
		b.WriteByte(')')
	case map[string]interface{}:
		keys := sortedKeys(t)
		perm := append([]string(nil), keys...)
		r.Shuffle(len(perm), func(i, j int) { perm[i], perm[j] = perm[j], perm[i] })
		for i := range perm {
			if perm[i] != keys[i] {
				*moved++
				break
			}
		}
		b.WriteString("(o")
		for _, k := range perm {
			b.WriteString(" (" + SexpString(k) + " ")
			writeListing(b, t[k], r, moved)
			b.WriteByte(')')
		}
		b.WriteByte(')')
	default:
		writeVal(b, v)
	}
}
