package jph

import (
	"encoding/hex"
	"os"
	"strconv"
	"strings"
	"sync"
	"unicode/utf8"
)

// L31 — validation of the hand-written vocabulary lean/JPV/Peg/GoString.lean against the Go runtime.
//
// `GoString.rangeStarts b` claims to be the list of values `index` takes in `for index := range string(b)`
// (every invalid byte = one U+FFFD rune of width 1) and, with it, the number of elements of `[]rune(string(b))`
// (the positions of the generated PEG parser index `[]rune(Buffer)`). Here the ACTUAL offsets of the running Go
// runtime are computed for byte strings of every validity class and sent, as the expected answer, with the request
// `(q rangestarts HEX)` to jpv-peg (channel `peg`, answered by the parent like every other LeanQ of C17).
//
// A difference is NOT a misbehaviour of the library: the question is not an oracle question (Oracle=false), so the
// frame reports it as kind `mismatch` = a broken tie of C17 ("T3 correspondence: model and implementation differ",
// `no-failing-input-found`-style verdict of bin/check), with the hex of the string in `what`, Go's offsets as
// `real=` and the driver's answer as `lean(peg)=`; the replay file carries the request line.
// A driver that does not know the request (older binary: `(? bad-line)`) is counted as l31_rangestarts_unsupported.
//
// Counters (evidence distribution): l31_rangestarts_<class> per string asked, l31_rangestarts_pos_<where> for the
// position of an invalid fragment, l31_rangestarts_sweep_* for the per-process sweep.
//
// Self-test of the check (teeth): with L31_RANGESTARTS_SELFTEST=1 in the environment the EXPECTED offsets of every
// string that contains the byte 0xED are perturbed on the Go side (last offset + 1); a run must then report
// mismatches on channel `peg` (kind mismatch, never a violation). Counted as l31_rangestarts_selftest_perturbed.

const l31Unsupported = "(? bad-line)"

// l31GoFacts: what the Go runtime does with the string.
func l31GoFacts(b []byte) (offs []int, nrunes int) {
	s := string(b)
	for i := range s {
		offs = append(offs, i)
	}
	return offs, len([]rune(s))
}

func l31Hex(b []byte) string {
	if len(b) == 0 {
		return "-"
	}
	return hex.EncodeToString(b)
}

var l31SelfTest = os.Getenv("L31_RANGESTARTS_SELFTEST") == "1"

// l31Q: the question about one byte string; `perturbed` reports the self-test hook at work.
func l31Q(b []byte, class string) (q LeanQ, perturbed bool) {
	offs, nrunes := l31GoFacts(b)
	if l31SelfTest && len(offs) > 0 && strings.IndexByte(string(b), 0xED) >= 0 {
		offs = append([]int(nil), offs...)
		offs[len(offs)-1]++
		perturbed = true
	}
	var sb strings.Builder
	if len(offs) != nrunes {
		// cannot happen in a conforming Go runtime; never equal to a driver answer, so it is reported
		sb.WriteString("(rangestarts-go-inconsistent len-of-runes=" + strconv.Itoa(nrunes) + " range-iterations=" + strconv.Itoa(len(offs)))
	} else {
		sb.WriteString("(rangestarts " + strconv.Itoa(nrunes))
	}
	for _, o := range offs {
		sb.WriteString(" " + strconv.Itoa(o))
	}
	sb.WriteString(")")
	h := l31Hex(b)
	return LeanQ{Driver: "peg", Line: "(q rangestarts " + h + ")", Expect: sb.String(),
		What: "Go's `for i := range s` offsets and len([]rune(s)) on the bytes " + h + " (class " + class + ") vs GoString.rangeStarts in Lean",
		Skip: l31Unsupported, SkipAs: "l31_rangestarts_unsupported"}, perturbed
}

// boundary code points of the UTF-8 table
var l31Boundary = []rune{0x00, 0x7F, 0x80, 0x7FF, 0x800, 0xFFFF, 0x10000, 0x10FFFF, 0xD7FF, 0xE000, 0xFFFD}

func l31ValidRune(r *Rng) rune {
	if r.Chance(45) {
		return l31Boundary[r.Intn(len(l31Boundary))]
	}
	switch r.Intn(4) {
	case 0:
		return rune(r.Range(0, 0x7F))
	case 1:
		return rune(r.Range(0x80, 0x7FF))
	case 2:
		for {
			c := rune(r.Range(0x800, 0xFFFF))
			if c < 0xD800 || c > 0xDFFF {
				return c
			}
		}
	}
	return rune(r.Range(0x10000, 0x10FFFF))
}

func l31ValidRunes(r *Rng, lo, hi int) []byte {
	var b []byte
	for n := r.Range(lo, hi); n > 0; n-- {
		b = utf8.AppendRune(b, l31ValidRune(r))
	}
	return b
}

func l31Cont(r *Rng) byte { return byte(r.Range(0x80, 0xBF)) }

// a byte that is not a continuation byte
func l31NonCont(r *Rng) byte {
	if r.Chance(50) {
		return byte(r.Range(0x00, 0x7F))
	}
	return byte(r.Range(0xC0, 0xFF))
}

// a valid multi-byte sequence of the given width (2..4), special second-byte ranges included
func l31ValidSeq(r *Rng, width int) []byte {
	switch width {
	case 2:
		return []byte{byte(r.Range(0xC2, 0xDF)), l31Cont(r)}
	case 3:
		switch b0 := byte(r.Range(0xE0, 0xEF)); b0 {
		case 0xE0:
			return []byte{b0, byte(r.Range(0xA0, 0xBF)), l31Cont(r)}
		case 0xED:
			return []byte{b0, byte(r.Range(0x80, 0x9F)), l31Cont(r)}
		default:
			return []byte{b0, l31Cont(r), l31Cont(r)}
		}
	}
	switch b0 := byte(r.Range(0xF0, 0xF4)); b0 {
	case 0xF0:
		return []byte{b0, byte(r.Range(0x90, 0xBF)), l31Cont(r), l31Cont(r)}
	case 0xF4:
		return []byte{b0, byte(r.Range(0x80, 0x8F)), l31Cont(r), l31Cont(r)}
	default:
		return []byte{b0, l31Cont(r), l31Cont(r), l31Cont(r)}
	}
}

var l31Fragments = []string{"lone_cont", "c0c1", "f5ff", "e0_overlong", "ed_surrogate", "f0_overlong", "f4_above_max",
	"bad_2nd", "bad_3rd", "bad_4th", "trunc_after_1", "trunc_after_2", "trunc_after_3"}

// l31Fragment: an invalid fragment of the named kind; atEnd: it is invalid only because the string ends there.
func l31Fragment(r *Rng, kind string) (frag []byte, atEnd bool) {
	switch kind {
	case "lone_cont":
		for n := r.Range(1, 3); n > 0; n-- {
			frag = append(frag, l31Cont(r))
		}
	case "c0c1":
		frag = []byte{byte(r.Range(0xC0, 0xC1))}
		if r.Chance(60) {
			frag = append(frag, l31Cont(r))
		}
	case "f5ff":
		frag = []byte{byte(r.Range(0xF5, 0xFF))}
		for n := r.Range(0, 3); n > 0; n-- {
			frag = append(frag, l31Cont(r))
		}
	case "e0_overlong":
		frag = []byte{0xE0, byte(r.Range(0x80, 0x9F)), l31Cont(r)}
	case "ed_surrogate":
		frag = []byte{0xED, byte(r.Range(0xA0, 0xBF)), l31Cont(r)}
	case "f0_overlong":
		frag = []byte{0xF0, byte(r.Range(0x80, 0x8F)), l31Cont(r), l31Cont(r)}
	case "f4_above_max":
		frag = []byte{0xF4, byte(r.Range(0x90, 0xBF)), l31Cont(r), l31Cont(r)}
	case "bad_2nd":
		frag = l31ValidSeq(r, r.Range(2, 4))
		frag[1] = l31NonCont(r)
	case "bad_3rd":
		frag = l31ValidSeq(r, r.Range(3, 4))
		frag[2] = l31NonCont(r)
	case "bad_4th":
		frag = l31ValidSeq(r, 4)
		frag[3] = l31NonCont(r)
	case "trunc_after_1":
		frag = l31ValidSeq(r, r.Range(2, 4))[:1]
		atEnd = true
	case "trunc_after_2":
		frag = l31ValidSeq(r, r.Range(3, 4))[:2]
		atEnd = true
	case "trunc_after_3":
		frag = l31ValidSeq(r, 4)[:3]
		atEnd = true
	}
	return frag, atEnd
}

// l31GenInvalid: one invalid fragment in a position class.
func l31GenInvalid(r *Rng) (b []byte, kind, where string) {
	kind = l31Fragments[r.Intn(len(l31Fragments))]
	frag, atEnd := l31Fragment(r, kind)
	pos := r.Intn(5)
	if atEnd && pos != 0 && pos != 2 && r.Chance(60) {
		// a truncated sequence is truncated BY THE END of the string in positions alone / at-end only
		pos = 2
	}
	switch pos {
	case 0:
		return frag, kind, "alone"
	case 1:
		return append(frag, l31ValidRunes(r, 1, 3)...), kind, "at_start"
	case 2:
		return append(l31ValidRunes(r, 1, 3), frag...), kind, "at_end"
	case 3:
		return append(append(l31ValidRunes(r, 1, 3), frag...), l31ValidRunes(r, 1, 3)...), kind, "embedded"
	}
	// two fragments next to each other between valid runes
	kind2 := l31Fragments[r.Intn(len(l31Fragments))]
	frag2, _ := l31Fragment(r, kind2)
	b = append(l31ValidRunes(r, 0, 2), frag...)
	b = append(b, frag2...)
	return append(b, l31ValidRunes(r, 0, 2)...), kind, "adjacent_fragments"
}

// l31Gen: one byte string and the tags that describe it.
func l31Gen(r *Rng) (b []byte, class string, tags []string) {
	switch r.Weighted([]int{10, 25, 45, 20}) {
	case 0:
		for n := r.Range(0, 16); n > 0; n-- {
			b = append(b, byte(r.Range(0, 0x7F)))
		}
		return b, "valid_ascii", nil
	case 1:
		return l31ValidRunes(r, 1, 8), "valid_mixed", nil
	case 2:
		b, kind, where := l31GenInvalid(r)
		return b, "invalid_" + kind, []string{"l31_rangestarts_pos_" + where}
	}
	for n := r.Range(0, 12); n > 0; n-- {
		b = append(b, byte(r.Intn(256)))
	}
	return b, "random_bytes", nil
}

var l31SweepOnce sync.Once

// l31Sweep: all 256 one-byte strings; every first byte C0–FF with the second bytes at the edges of the
// second-byte ranges of the UTF-8 table, with and without two continuation bytes after them. 1280 strings.
func l31Sweep(rec *Record) {
	add := func(b []byte, class string) {
		q, p := l31Q(b, class)
		rec.Q = append(rec.Q, q)
		rec.Tags = append(rec.Tags, "l31_rangestarts_"+class)
		if p {
			rec.Tags = append(rec.Tags, "l31_rangestarts_selftest_perturbed")
		}
	}
	for b0 := 0; b0 < 256; b0++ {
		add([]byte{byte(b0)}, "sweep_1byte")
	}
	for b0 := 0xC0; b0 <= 0xFF; b0++ {
		for _, b1 := range []byte{0x7F, 0x80, 0x8F, 0x90, 0x9F, 0xA0, 0xBF, 0xC0} {
			add([]byte{byte(b0), b1}, "sweep_2byte")
			add([]byte{byte(b0), b1, 0x80, 0x80}, "sweep_2byte_plus_8080")
		}
	}
	rec.Tags = append(rec.Tags, "l31_rangestarts_sweep_runs")
}

// l31RangeStarts appends the rangestarts questions of case i to the record: two generated strings per case and,
// once per worker PROCESS (the first case of the process that gets here; the replay of that case is again the first
// of its process), the sweep. Own random stream: the strings of the case itself do not change.
func l31RangeStarts(seed int64, i int, rec *Record) {
	r := CaseRng(seed, "C17/l31-rangestarts", i)
	for k := 0; k < 2; k++ {
		b, class, tags := l31Gen(r)
		q, p := l31Q(b, class)
		rec.Q = append(rec.Q, q)
		rec.Tags = append(rec.Tags, "l31_rangestarts_"+class)
		rec.Tags = append(rec.Tags, tags...)
		if p {
			rec.Tags = append(rec.Tags, "l31_rangestarts_selftest_perturbed")
		}
	}
	l31SweepOnce.Do(func() { l31Sweep(rec) })
}
