package jph

import (
	"encoding/json"
	"fmt"
	"math"
	"sort"
	"strconv"
	"strings"
)

// C10 — comparisons are type-strict and numeric by value, whatever the number decoding.
//
// Mode "typed" (4 cases in 5): the document is {"m": CONTAINER, n,s,t,z,o,l: root values};
// the container (array or object) has 8..11 pairwise distinct members that between them hold
// every JSON type — number (integral and not), string (including "1", "true", "null", ""),
// bool, null, array, object, missing — under the field `a` and as bare members. One
// comparison filter `$.m[?(L op R)]` is generated: the (operator, operand kinds, literal
// types) combination is enumerated by the case index (104 combinations: six operators and
// regex; literal of each type / `@`-path / `$`-path on either side), the paths and values
// are random. The JSON text is decoded twice, without and with UseNumber (number spellings
// vary — 1, 1.0, 1e0, 10e-1 … — unless two paths are compared with ==/!=), and
//   - both decodings must select the same member positions,
//   - each selection is checked against the statement, member by member, from the operand
//     values evaluated here in Go: a literal or ordering operator or regex matches only a
//     present operand of its own JSON type, numbers by value; a missing or mistyped operand
//     never matches (== of two paths that are both absent is left to the specification);
//     != is the complement,
//   - for integral canonical documents both decodings are also put to jpv-spec,
//   - the path is also PARSED ONCE and that one function is called on the float64 decoding,
//     the json.Number decoding and on both decodings of a second document (the same
//     document with other root values / other `a` fields, or an independent one), in a
//     random order: every call must select what a fresh Retrieve selects on that document
//     (nothing of an earlier document may survive in the parsed function).
//
// Mode "edge" (1 case in 20, b10_helpers.go): numbers at the edge of float64 / int64 — 1e999, -1e400 (±Inf under
// UseNumber, not decodable as float64), 2^63-1, 2^63, 10^19-1, -2^63-1, 1e19, 0.1e20, 2^64, 2^53+1, -0, 1E+2, 1e-400,
// the largest float64 and its neighbours — as `a` fields, bare members and root values, compared with
// all six operators against in-range literals of the same families and against other paths. Oracle:
// a number takes part in a comparison as the float64 nearest to its text (ParseFloat; ±Inf beyond the
// range); == / != of two paths under UseNumber is decided only for equal spellings or different values.
// Both decodings (when the float64 one exists) must agree, and one parsed function serves both.
//
// Mode "general" (1 case in 5): a generated document and a function-free path with at least
// one filter (GenCase); retrieval from the float64 and from the json.Number decoding must
// both fail or give the same values; one parsed function called on both decodings (in either
// order, twice) must give what the fresh Retrieves give.

type c10 struct{}

func init() { Props["C10"] = c10{} }

func (c10) Count(tier string) int {
	if tier == "thorough" {
		return 1000000
	}
	return 60000
}

// ---------- the combinations ----------

type c10Combo struct {
	op     int // 0..5, 6 = regex
	lk, rk int // operand kind: 0 literal, 1 `@`-path, 2 `$`-path
	lt, rt LitKind
}

var c10Combos = func() []c10Combo {
	var out []c10Combo
	lits := []LitKind{LitNum, LitBool, LitStr, LitNull}
	for op := 0; op <= 1; op++ {
		for _, p := range []int{1, 2} {
			for _, t := range lits {
				out = append(out, c10Combo{op: op, lk: p, rk: 0, rt: t})
				out = append(out, c10Combo{op: op, lk: 0, rk: p, lt: t})
			}
		}
		out = append(out, c10Combo{op: op, lk: 1, rk: 2}, c10Combo{op: op, lk: 2, rk: 1}, c10Combo{op: op, lk: 2, rk: 2})
		for _, t := range lits {
			for _, u := range lits {
				out = append(out, c10Combo{op: op, lk: 0, rk: 0, lt: t, rt: u})
			}
		}
	}
	for op := 2; op <= 5; op++ {
		for _, pr := range [][2]int{{1, 0}, {0, 1}, {2, 0}, {0, 2}, {1, 2}, {2, 1}, {2, 2}, {0, 0}} {
			out = append(out, c10Combo{op: op, lk: pr[0], rk: pr[1], lt: LitNum, rt: LitNum})
		}
	}
	out = append(out, c10Combo{op: 6, lk: 1}, c10Combo{op: 6, lk: 2}, c10Combo{op: 6, lk: 1})
	// combinations with a path operand three times, literal-vs-literal ones once
	var w []c10Combo
	for _, c := range out {
		w = append(w, c)
		if c.op == 6 || c.lk != 0 || c.rk != 0 {
			w = append(w, c, c)
		}
	}
	return w
}()

// ---------- documents ----------

var c10StrPool = []string{"a", "1", "", "true", "null", "ab", "0"}

// c10Val: a value of the requested type class.
// 0 int, 1 non-integral number, 2 string, 3 bool, 4 null, 5 array, 6 object
func c10Val(r *Rng, class int) interface{} {
	switch class {
	case 0:
		return float64(r.Range(-1, 2))
	case 1:
		return []float64{0.5, 1.5, -0.5, 2.5}[r.Intn(4)]
	case 2:
		return r.Pick(c10StrPool)
	case 3:
		return r.Chance(50)
	case 4:
		return nil
	case 5:
		switch r.Intn(3) {
		case 0:
			return []interface{}{}
		case 1:
			return []interface{}{float64(r.Range(0, 1))}
		}
		return []interface{}{r.Pick(c10StrPool), float64(1)}
	}
	switch r.Intn(3) {
	case 0:
		return map[string]interface{}{}
	case 1:
		return map[string]interface{}{"b": float64(r.Range(0, 1))}
	}
	return map[string]interface{}{"b": r.Pick(c10StrPool)}
}

type c10Doc struct {
	root   map[string]interface{}
	keys   []string
	isObj  bool
	n      int
	ints   bool // only integral numbers
	hasNum bool
}

func c10GenDoc(r *Rng, intsOnly bool) c10Doc {
	// classes 0..6 and 7 = missing: each at least once under `a`
	classes := []int{0, 0, 1, 2, 2, 3, 4, 5, 6, 7}
	if intsOnly {
		classes[2] = 0
	}
	extra := r.Range(0, 1)
	for i := 0; i < extra; i++ {
		c := r.Intn(8)
		if intsOnly && c == 1 {
			c = 0
		}
		classes = append(classes, c)
	}
	r.Shuffle(len(classes), func(i, j int) { classes[i], classes[j] = classes[j], classes[i] })
	n := len(classes)
	// bare members must be pairwise distinct by value
	usedBare := map[string]bool{}
	ms := make([]interface{}, n)
	for j, c := range classes {
		bare := c != 7 && r.Chance(22)
		if bare {
			v := c10Val(r, c)
			switch t := v.(type) {
			case []interface{}:
				v = append(append([]interface{}{}, t...), float64(100+j))
			case map[string]interface{}:
				t["id"] = float64(10 + j)
			default:
				k := ValSexp(v)
				if usedBare[k] {
					bare = false
				}
				usedBare[k] = true
			}
			if bare {
				ms[j] = v
				continue
			}
		}
		m := map[string]interface{}{"id": float64(10 + j)}
		if c != 7 {
			m["a"] = c10Val(r, c)
		}
		ms[j] = m
	}
	d := c10Doc{n: n, isObj: r.Chance(40), ints: intsOnly}
	var container interface{} = ms
	if d.isObj {
		pool := []string{"a", "b", "c", "d", "e", "f", "g", "h", "i", "j", "k", "aa", "B", "é"}
		r.Shuffle(len(pool), func(i, j int) { pool[i], pool[j] = pool[j], pool[i] })
		keys := append([]string(nil), pool[:n]...)
		sort.Strings(keys)
		m := map[string]interface{}{}
		for j, k := range keys {
			m[k] = ms[j]
		}
		container = m
		d.keys = keys
	}
	num := c10Val(r, 0)
	if !intsOnly && r.Chance(30) {
		num = c10Val(r, 1)
	}
	d.root = map[string]interface{}{
		"m": container,
		"n": num,
		"s": r.Pick(c10StrPool),
		"t": r.Chance(50),
		"z": nil,
		"o": c10Val(r, 6),
		"l": c10Val(r, 5),
	}
	return d
}

// c10NumText spells a number; style 0: Go's shortest formatting.
func c10NumText(f float64, r *Rng, spelled bool) string {
	canon := strconv.FormatFloat(f, 'f', -1, 64)
	if !spelled || r == nil || !r.Chance(60) {
		return canon
	}
	if f == float64(int64(f)) {
		n := int64(f)
		switch r.Intn(6) {
		case 0:
			return canon + ".0"
		case 1:
			return canon + "e0"
		case 2:
			if n != 0 {
				return canon + "0e-1"
			}
		case 3:
			return canon + ".00"
		case 4:
			return canon + "E+0"
		}
		if n == 0 {
			return "-0"
		}
		return canon + ".0e0"
	}
	switch r.Intn(3) {
	case 0:
		return canon + "0"
	case 1:
		return canon + "e0"
	}
	// 1.5 → 15e-1
	return strconv.FormatFloat(f*10, 'f', -1, 64) + "e-1"
}

func c10JSON(b *strings.Builder, v interface{}, r *Rng, spelled bool) {
	switch t := v.(type) {
	case float64:
		b.WriteString(c10NumText(t, r, spelled))
	case []interface{}:
		b.WriteByte('[')
		for i, x := range t {
			if i > 0 {
				b.WriteByte(',')
			}
			c10JSON(b, x, r, spelled)
		}
		b.WriteByte(']')
	case map[string]interface{}:
		keys := make([]string, 0, len(t))
		for k := range t {
			keys = append(keys, k)
		}
		sort.Strings(keys)
		b.WriteByte('{')
		for i, k := range keys {
			if i > 0 {
				b.WriteByte(',')
			}
			kb, _ := json.Marshal(k)
			b.Write(kb)
			b.WriteByte(':')
			c10JSON(b, t[k], r, spelled)
		}
		b.WriteByte('}')
	default:
		bs, _ := json.Marshal(v)
		b.Write(bs)
	}
}

func c10Decode(text string, useNumber bool) (interface{}, error) {
	dec := json.NewDecoder(strings.NewReader(text))
	if useNumber {
		dec.UseNumber()
	}
	var v interface{}
	err := dec.Decode(&v)
	return v, err
}

// ---------- operands ----------

func c10CurPath(r *Rng) *Path {
	switch r.Weighted([]int{58, 20, 5, 5, 5, 7}) {
	case 0:
		return c09Cur(c09Child("a"))
	case 1:
		return c09Cur()
	case 2:
		return c09Cur(c09Child("a"), c09Child("b"))
	case 3:
		return c09Cur(c09Child("a"), c09Idx(0))
	case 4:
		return c09Cur(c09Child("zz"))
	}
	return c09Cur(&Step{Kind: StChild, Key: "a", Bracket: true, DQuote: r.Chance(50)})
}

func c10RootPath(r *Rng, d c10Doc, wantNum bool) *Path {
	w := []int{20, 12, 8, 8, 6, 6, 8, 32}
	if wantNum {
		w = []int{45, 4, 3, 3, 2, 2, 6, 35}
	}
	switch r.Weighted(w) {
	case 0:
		return c09Root(c09Child("n"))
	case 1:
		return c09Root(c09Child("s"))
	case 2:
		return c09Root(c09Child("t"))
	case 3:
		return c09Root(c09Child("z"))
	case 4:
		return c09Root(c09Child("o"))
	case 5:
		return c09Root(c09Child("l"))
	case 6:
		return c09Root(c09Child("nope"))
	}
	j := r.Intn(d.n)
	if d.isObj {
		return c09Root(c09Child("m"), &Step{Kind: StChild, Key: d.keys[j], Bracket: true}, c09Child("a"))
	}
	return c09Root(c09Child("m"), c09Idx(j), c09Child("a"))
}

// c10DocLit: a literal of kind k equal to one of the values the members hold (when there is one).
func c10DocLit(r *Rng, d c10Doc, k LitKind) *Operand {
	var pool []interface{}
	ms, _ := c10Members(d.root)
	for _, m := range ms {
		if mm, ok := m.(map[string]interface{}); ok {
			if v, has := mm["a"]; has {
				pool = append(pool, v)
			}
		} else {
			pool = append(pool, m)
		}
	}
	var fit []*Operand
	for _, v := range pool {
		switch t := v.(type) {
		case float64:
			if k == LitNum && t == float64(int64(t)) {
				fit = append(fit, c09Num(int64(t)))
			}
		case string:
			if k == LitStr {
				fit = append(fit, c09Str(t))
			}
		case bool:
			if k == LitBool {
				fit = append(fit, &Operand{IsLit: true, Lit: Lit{Kind: LitBool, B: t}})
			}
		}
	}
	if len(fit) == 0 {
		return c10Lit(r, k)
	}
	return fit[r.Intn(len(fit))]
}

func c10Lit(r *Rng, k LitKind) *Operand {
	switch k {
	case LitNum:
		return c09Num(int64(r.Range(-1, 2)))
	case LitStr:
		return c09Str(r.Pick(c10StrPool))
	case LitBool:
		return &Operand{IsLit: true, Lit: Lit{Kind: LitBool, B: r.Chance(50)}}
	}
	return &Operand{IsLit: true, Lit: Lit{Kind: LitNull}}
}

func c10Query(r *Rng, d c10Doc, cb c10Combo) *Query {
	mk := func(kind int, lt LitKind) *Operand {
		switch kind {
		case 0:
			if r.Chance(55) {
				return c10DocLit(r, d, lt)
			}
			return c10Lit(r, lt)
		case 1:
			return c09P(c10CurPath(r))
		}
		return c09P(c10RootPath(r, d, cb.op >= 2 && cb.op <= 5))
	}
	if cb.op <= 1 && cb.lk != 0 && cb.rk != 0 && r.Chance(12) {
		// == / != of two paths that are absent for every member
		abs := func(kind int) *Operand {
			if kind == 1 {
				return c09P(c09Cur(c09Child("zz")))
			}
			return c09P(c09Root(c09Child(r.Pick([]string{"nope", "zz"}))))
		}
		return c09Cmp(cb.op, abs(cb.lk), abs(cb.rk))
	}
	if cb.op == 6 {
		return &Query{Kind: QRegex, P: mk(cb.lk, 0).Path, Re: r.Pick([]string{"a", "1", "b", "t", "0", "u"})}
	}
	return c09Cmp(cb.op, mk(cb.lk, cb.lt), mk(cb.rk, cb.rt))
}

// ---------- the oracle of the statement ----------

type c10V struct {
	v  interface{}
	ok bool
}

// c10Eval: function-free single-valued operand paths (child / index steps), evaluated here.
func c10Eval(p *Path, root, cur interface{}) c10V {
	v := cur
	if p.Head == HeadRoot {
		v = root
	}
	for _, s := range p.Steps {
		switch s.Kind {
		case StChild:
			m, ok := v.(map[string]interface{})
			if !ok {
				return c10V{}
			}
			x, has := m[s.Key]
			if !has {
				return c10V{}
			}
			v = x
		case StUnion:
			a, ok := v.([]interface{})
			if !ok || len(s.Subs) != 1 || s.Subs[0].Kind != SubIdx {
				return c10V{}
			}
			ix := int(s.Subs[0].N)
			if ix < 0 {
				ix += len(a)
			}
			if ix < 0 || ix >= len(a) {
				return c10V{}
			}
			v = a[ix]
		default:
			return c10V{}
		}
	}
	return c10V{v, true}
}

func c10Operand(o *Operand, root, cur interface{}) c10V {
	if !o.IsLit {
		return c10Eval(o.Path, root, cur)
	}
	switch o.Lit.Kind {
	case LitNum:
		return c10V{float64(o.Lit.N), true}
	case LitBool:
		return c10V{o.Lit.B, true}
	case LitStr:
		return c10V{o.Lit.S, true}
	}
	return c10V{nil, true}
}

func c10NumOf(v interface{}) (float64, bool) {
	switch t := v.(type) {
	case float64:
		return t, true
	case json.Number:
		// a number beyond the float64 range is still a number: ±Inf, as Number.Float64 gives next to its range error
		f, err := strconv.ParseFloat(string(t), 64)
		return f, err == nil || math.IsInf(f, 0)
	}
	return 0, false
}

func c10TypeOf(x c10V) string {
	if !x.ok {
		return "missing"
	}
	switch x.v.(type) {
	case nil:
		return "null"
	case bool:
		return "bool"
	case string:
		return "str"
	case float64, json.Number:
		return "num"
	case []interface{}:
		return "arr"
	case map[string]interface{}:
		return "obj"
	}
	return "other"
}

// c10JSONEq: equality of JSON values, numbers by value.
func c10JSONEq(a, b interface{}) bool {
	if x, ok := c10NumOf(a); ok {
		y, ok2 := c10NumOf(b)
		return ok2 && x == y
	}
	switch t := a.(type) {
	case nil:
		return b == nil
	case bool:
		u, ok := b.(bool)
		return ok && t == u
	case string:
		u, ok := b.(string)
		return ok && t == u
	case []interface{}:
		u, ok := b.([]interface{})
		if !ok || len(t) != len(u) {
			return false
		}
		for i := range t {
			if !c10JSONEq(t[i], u[i]) {
				return false
			}
		}
		return true
	case map[string]interface{}:
		u, ok := b.(map[string]interface{})
		if !ok || len(t) != len(u) {
			return false
		}
		for k, x := range t {
			y, has := u[k]
			if !has || !c10JSONEq(x, y) {
				return false
			}
		}
		return true
	}
	return false
}

// c10Expect: 1 must be selected, 0 must not, -1 the statement leaves it open.
func c10Expect(q *Query, root, cur interface{}) (int, string) {
	if q.Kind == QRegex {
		l := c10Eval(q.P, root, cur)
		s, isStr := l.v.(string)
		if l.ok && isStr && strings.Contains(s, q.Re) {
			return 1, c10TypeOf(l) + "~regex"
		}
		return 0, c10TypeOf(l) + "~regex"
	}
	l, r := c10Operand(q.L, root, cur), c10Operand(q.R, root, cur)
	met := c10TypeOf(l) + "~" + c10TypeOf(r)
	if q.Op >= c09LT {
		x, okx := c10NumOf(l.v)
		y, oky := c10NumOf(r.v)
		if !l.ok || !r.ok || !okx || !oky {
			return 0, met
		}
		var h bool
		switch q.Op {
		case c09LT:
			h = x < y
		case c09LE:
			h = x <= y
		case c09GT:
			h = x > y
		default:
			h = x >= y
		}
		if h {
			return 1, met
		}
		return 0, met
	}
	eq := -1
	switch {
	case l.ok && r.ok:
		eq = 0
		if c10JSONEq(l.v, r.v) {
			eq = 1
		}
	case !l.ok && !r.ok:
		eq = -1 // two absent paths: the specification decides
	default:
		eq = 0
	}
	if eq < 0 {
		return -1, met
	}
	if q.Op == c09NE {
		return 1 - eq, met
	}
	return eq, met
}

// ---------- the cases ----------

func c10Members(doc interface{}) (ms []interface{}, texts []string) {
	switch m := doc.(map[string]interface{})["m"].(type) {
	case []interface{}:
		ms = m
	case map[string]interface{}:
		keys := make([]string, 0, len(m))
		for k := range m {
			keys = append(keys, k)
		}
		sort.Strings(keys)
		for _, k := range keys {
			ms = append(ms, m[k])
		}
	}
	for _, v := range ms {
		texts = append(texts, ValSexp(v))
	}
	return
}

func c10SpecQ(p *Path, doc interface{}, out Outcome, what string) LeanQ {
	exp := "(q err)"
	if out.OK {
		exp = "(q ok"
		for _, v := range out.Vals {
			exp += " " + ValSexp(v)
		}
		exp += ")"
	}
	return LeanQ{Driver: "spec", Line: "(q run " + p.Sexp() + " " + ValSexp(doc) + ")", Expect: exp, What: what}
}

func c10Typed(r *Rng, i int) Record {
	cb := c10Combos[(i/5*4+i%5)%len(c10Combos)]
	pathVsPath := cb.op <= 1 && cb.lk != 0 && cb.rk != 0
	style := r.Weighted([]int{50, 15, 35}) // 0 integral canonical, 1 canonical, 2 spelled
	if pathVsPath && style == 2 {
		style = 1
	}
	d := c10GenDoc(r, style == 0)
	q := c10Query(r, d, cb)
	var tb strings.Builder
	c10JSON(&tb, d.root, r, style == 2)
	text := tb.String()
	p := c09FilterPath(q)
	ptext := Render(p, r)
	rec := Record{Text: ptext, Doc: text, Info: map[string]interface{}{"mode": "typed"}}
	tags := c09Tagger{"mode:typed": true}
	opName := "regex"
	if cb.op < 6 {
		opName = OpNames[cb.op]
		tags["operands:"+c09OperandKind(q.L)+"|"+c09OperandKind(q.R)] = true
	} else if q.P.Head == HeadCur {
		tags["operands:@|regex"] = true
	} else {
		tags["operands:$|regex"] = true
	}
	tags["op:"+opName] = true
	tags["doc:"+[]string{"integral", "canonical", "spelled"}[style]] = true
	if d.isObj {
		tags["container:object"] = true
	} else {
		tags["container:array"] = true
	}
	cfg := Config(false, nil)
	var sels [2]c09Sel
	viol, cls := "", ""
	fail := func(c, format string, args ...interface{}) {
		if viol == "" {
			viol, cls = fmt.Sprintf(format, args...), c
		}
	}
	selClass, firstClass := "", ""
	exercised := false
	// the documents: [0] float64, [1] json.Number decoding of the document; [2], [3] the same
	// of a second document
	text2 := c10SecondDoc(r, d, style)
	rec.Info["second_document"] = text2
	var docs [4]interface{}
	var fresh [4]c09Sel
	for k := 0; k < 4; k++ {
		t := text
		if k >= 2 {
			t = text2
		}
		doc, err := c10Decode(t, k%2 == 1)
		if err != nil {
			rec.Viol, rec.Class = "harness: cannot decode the generated document: "+err.Error(), "harness"
			return rec
		}
		docs[k] = doc
	}
	for mode := 0; mode < 4; mode++ {
		doc := docs[mode]
		dn := []string{"float64", "json.Number", "second document, float64", "second document, json.Number"}[mode]
		ms, texts := c10Members(doc)
		ctx := &c09Ctx{cfg: &cfg, parsed: map[string]Parsed{}, doc: doc, members: texts, memo: map[string]c09Sel{}}
		out := ctx.outcome(ptext)
		sel := ctx.selOf(ptext, out)
		if ctx.viol != "" {
			fail(ctx.cls, "[%s] %s", dn, ctx.viol)
		}
		fresh[mode] = sel
		if mode < 2 {
			sels[mode] = sel
		}
		// the statement, member by member
		cnt := 0
		for j, m := range ms {
			want, met := c10Expect(q, doc, m)
			if mode < 2 {
				tags["met:"+met] = true
				if !strings.Contains(met, "missing") {
					exercised = true
				}
			}
			if sel[j] {
				cnt++
			}
			if want >= 0 && (want == 1) != sel[j] {
				verb := "must not be selected"
				if want == 1 {
					verb = "must be selected"
				}
				fail("type-strict", "[%s] %s: member %d (%s) %s (operand types %s) but the library selects %s on %s", dn, ptext, j, clip(JSONText(m), 80), verb, met, sel, clip(JSONText(doc), 600))
			}
			if want < 0 && mode < 2 {
				tags["both-absent(spec decides)"] = true
			}
		}
		if mode >= 2 {
			continue
		}
		switch {
		case cnt == 0:
			selClass += "none"
		case cnt == len(ms):
			selClass += "all"
		default:
			selClass += "some"
		}
		if mode == 0 {
			firstClass = selClass
		}
		if style == 0 && (viol == "" || cls == "type-strict") {
			rec.Q = append(rec.Q, c10SpecQ(p, doc, out, "["+dn+"] comparison filter vs Spec.run"))
		}
	}
	// one parsed function over all four documents
	if f, _ := SafeParse(ptext, &cfg); f != nil {
		order := []int{0, 1, 2, 3}
		switch r.Intn(4) {
		case 0:
			order = []int{1, 0, 3, 2}
		case 1:
			r.Shuffle(4, func(i, j int) { order[i], order[j] = order[j], order[i] })
		case 2:
			order = []int{2, 0, 1, 3}
		}
		order = append(order, order[0])
		rec.Info["parsed_once_order"] = fmt.Sprint(order)
		names := []string{"the float64 decoding", "the json.Number decoding", "the float64 decoding of the second document", "the json.Number decoding of the second document"}
		var seen []string
		for _, k := range order {
			_, texts := c10Members(docs[k])
			ctx := &c09Ctx{cfg: &cfg, doc: docs[k], members: texts}
			sel := ctx.selOf(ptext, SafeCall(f, docs[k]))
			if ctx.viol != "" {
				fail(ctx.cls, "[one parsed function, on %s] %s", names[k], ctx.viol)
			}
			if !c09Equal(sel, fresh[k]) {
				prev := "first call"
				if len(seen) > 0 {
					prev = "after it was called on " + strings.Join(seen, ", then ")
				}
				fail("parsed-once", "%s parsed once and called on %s (%s) selects %s but a fresh Retrieve selects %s; document: %s; second document: %s", ptext, names[k], prev, sel, fresh[k], text, text2)
			}
			seen = append(seen, names[k])
		}
		tags["law:parsed-once=fresh"] = true
	}
	if !c09Equal(sels[0], sels[1]) {
		fail("decode", "%s selects %s from the float64 decoding but %s from the json.Number decoding of %s", ptext, sels[0], sels[1], text)
	}
	tags["selects:"+firstClass] = true
	rec.Info["selected"] = sels[0].String()
	rec.Viol, rec.Class = viol, cls
	if exercised {
		ops := ""
		if cb.op < 6 {
			ops = c10OperandKey(q.L) + " " + c10OperandKey(q.R)
		} else {
			ops = c10OperandKey(&Operand{Path: q.P})
		}
		ck := "a"
		if d.isObj {
			ck = "o"
		}
		rec.Key = fmt.Sprintf("%s/%s/%s%d/%s", opName, ops, ck, style, selClass)
	}
	for t := range tags {
		rec.Tags = append(rec.Tags, t)
	}
	sort.Strings(rec.Tags)
	return rec
}

// c10SecondDoc: the JSON text of a second document for the same path: the same document with
// other root values (also of another type) and some other `a` fields, or an independent one.
func c10SecondDoc(r *Rng, d c10Doc, style int) string {
	intsOnly := style == 0
	class := func(c int) int {
		if intsOnly && c == 1 {
			return 0
		}
		return c
	}
	var root map[string]interface{}
	if r.Chance(35) {
		root = c10GenDoc(r, intsOnly).root
	} else {
		root = DeepCopy(d.root).(map[string]interface{})
		for _, k := range []string{"n", "s", "t", "z", "o", "l"} {
			switch {
			case r.Chance(30):
				// unchanged
			case r.Chance(25):
				root[k] = c10Val(r, class(r.Intn(7))) // any type
			case r.Chance(8):
				delete(root, k)
			default:
				c := map[string]int{"n": class(r.Intn(2)), "s": 2, "t": 3, "z": 4, "o": 6, "l": 5}[k]
				root[k] = c10Val(r, c)
			}
		}
		ms, _ := c10Members(root)
		for _, m := range ms {
			if mm, ok := m.(map[string]interface{}); ok && r.Chance(35) {
				if _, has := mm["a"]; has || r.Chance(50) {
					if r.Chance(12) {
						delete(mm, "a")
					} else {
						mm["a"] = c10Val(r, class(r.Intn(7)))
					}
				}
			}
		}
	}
	var tb strings.Builder
	c10JSON(&tb, root, r, style == 2)
	return tb.String()
}

// c10OperandKey: the literal type, or the operand path with member positions blanked.
func c10OperandKey(o *Operand) string {
	if o.IsLit {
		return c09OperandKind(o)
	}
	p := o.Path
	if p.Head == HeadRoot && len(p.Steps) == 3 {
		return "$.m[j].a"
	}
	return Render(p, nil)
}

func c10HasFilter(p *Path) bool {
	for _, s := range p.Steps {
		if s.Kind == StFilter || (s.Kind == StDesc && s.Inner.Kind == StFilter) {
			return true
		}
	}
	return false
}

func c10HasCmp(q *Query) bool {
	switch q.Kind {
	case QAnd, QOr:
		return c10HasCmp(q.A) || c10HasCmp(q.B)
	case QCmp, QRegex:
		return true
	}
	return false
}

func c10General(r *Rng) Record {
	o := DefaultOpts()
	o.Funcs = false
	o.ErrBias = 6
	var doc interface{}
	var p *Path
	good := false
	cfg := Config(false, nil)
	// wanted: a path with a comparison filter that selects something (redrawn up to 16 times;
	// one case in six is taken as drawn)
	tries := 16
	if r.Chance(16) {
		tries = 1
	}
	for t := 0; t < tries; t++ {
		doc, p = GenCase(r, o)
		good = false
		for _, s := range p.Steps {
			f := s
			if s.Kind == StDesc {
				f = s.Inner
			}
			if f.Kind == StFilter && c10HasCmp(f.Q) {
				good = true
			}
		}
		if good && Run(Render(p, nil), doc, &cfg).OK {
			break
		}
	}
	text := Render(p, r)
	jdoc := ToJnum(doc)
	rec := Record{Text: text, Doc: JSONText(doc), Info: map[string]interface{}{"mode": "general"}}
	rec.Tags = append(stepTags(p), "mode:general")
	outF := Run(text, doc, &cfg)
	outJ := Run(text, jdoc, &cfg)
	for _, o := range []Outcome{outF, outJ} {
		if c08Abnormal(o) {
			rec.Viol, rec.Class = "abnormal outcome: "+clip(o.Detail(), 500), "abnormal"
			return rec
		}
	}
	// one parsed function on both decodings, in either order, twice
	if f, _ := SafeParse(text, &cfg); f != nil {
		ds := []interface{}{doc, jdoc}
		fr := []Outcome{outF, outJ}
		names := []string{"the float64 decoding", "the json.Number decoding"}
		first := r.Intn(2)
		prev := ""
		for _, k := range []int{first, 1 - first, first, 1 - first} {
			o := SafeCall(f, ds[k])
			if c08Abnormal(o) {
				rec.Viol, rec.Class = "abnormal outcome of the parsed function on "+names[k]+": "+clip(o.Detail(), 500), "abnormal"
				return rec
			}
			if c05Canon(o) != c05Canon(fr[k]) {
				rec.Viol = fmt.Sprintf("%s parsed once and called on %s%s gives %s but a fresh Retrieve gives %s", text, names[k], prev, c08Show(o), c08Show(fr[k]))
				rec.Class = "parsed-once"
				return rec
			}
			if prev == "" {
				prev = " (after it was called on " + names[k]
			} else {
				prev = strings.TrimSuffix(prev, ")") + ", then on " + names[k]
			}
			prev += ")"
		}
		rec.Tags = append(rec.Tags, "law:parsed-once=fresh")
	}
	same := outF.OK == outJ.OK
	if same && outF.OK {
		same = ValsSexp(ToJnum(outF.Vals).([]interface{})) == ValsSexp(outJ.Vals)
	}
	if !same {
		rec.Viol = fmt.Sprintf("%s gives %s from the float64 decoding but %s from the json.Number decoding", text, c08Show(outF), c08Show(outJ))
		rec.Class = "decode"
	}
	rec.Q = []LeanQ{c10SpecQ(p, doc, outF, "[float64] vs Spec.run"), c10SpecQ(p, jdoc, outJ, "[json.Number] vs Spec.run")}
	if good {
		rec.Tags = append(rec.Tags, "general:filter-with-comparison")
	}
	if outF.OK {
		rec.Tags = append(rec.Tags, "outcome:ok")
		if good {
			rec.Key = "g/" + shapeKey(p)
		}
	} else {
		rec.Tags = append(rec.Tags, "outcome:err-"+outF.ErrKind)
	}
	return rec
}

func (c10) Exec(seed int64, i int, tier string) Record {
	r := CaseRng(seed, "C10", i)
	if i%5 == 4 {
		return c10General(r)
	}
	if i%20 == 7 {
		return b10EdgeRun(r, true)
	}
	return c10Typed(r, i)
}
