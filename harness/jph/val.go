package jph

import (
	"encoding/json"
	"fmt"
	"math"
	"reflect"
	"sort"
	"strconv"
	"strings"
)

// Canonical S-expression of a Go value as the model sees it (lean/JPV/Proto.lean).
// Object keys sorted; numbers must be integral (the generators only draw integers);
// any non-JSON Go value is an opaque leaf `(q (s type) class)`.

// OpaqueClass maps an opaque value to its DeepEqual class (0: equal to nothing).
var OpaqueClass func(v interface{}) int

func ValSexp(v interface{}) string {
	var b strings.Builder
	writeVal(&b, v)
	return b.String()
}

func writeVal(b *strings.Builder, v interface{}) {
	switch t := v.(type) {
	case nil:
		b.WriteString("null")
	case bool:
		if t {
			b.WriteString("(b t)")
		} else {
			b.WriteString("(b f)")
		}
	case float64:
		if t != math.Trunc(t) || math.Abs(t) > 1e18 {
			b.WriteString("(nonint " + strconv.FormatFloat(t, 'g', -1, 64) + ")")
		} else {
			b.WriteString("(n " + strconv.FormatInt(int64(t), 10) + ")")
		}
	case json.Number:
		if _, err := strconv.ParseInt(string(t), 10, 64); err != nil {
			b.WriteString("(nonint " + string(t) + ")")
		} else {
			b.WriteString("(j " + string(t) + ")")
		}
	case string:
		b.WriteString(SexpString(t))
	case []interface{}:
		b.WriteString("(a")
		for _, x := range t {
			b.WriteByte(' ')
			writeVal(b, x)
		}
		b.WriteByte(')')
	case map[string]interface{}:
		keys := make([]string, 0, len(t))
		for k := range t {
			keys = append(keys, k)
		}
		sort.Strings(keys)
		b.WriteString("(o")
		for _, k := range keys {
			b.WriteString(" (" + SexpString(k) + " ")
			writeVal(b, t[k])
			b.WriteByte(')')
		}
		b.WriteByte(')')
	default:
		cls := 0
		if OpaqueClass != nil {
			cls = OpaqueClass(v)
		}
		b.WriteString("(q " + SexpString(reflect.TypeOf(v).String()) + " " + strconv.Itoa(cls) + ")")
	}
}

func ValsSexp(vs []interface{}) string {
	parts := make([]string, len(vs))
	for i, v := range vs {
		parts[i] = ValSexp(v)
	}
	return strings.Join(parts, " ")
}

// DeepCopy copies maps and slices; leaves (including opaque ones) are shared.
func DeepCopy(v interface{}) interface{} {
	switch t := v.(type) {
	case []interface{}:
		out := make([]interface{}, len(t))
		for i, x := range t {
			out[i] = DeepCopy(x)
		}
		return out
	case map[string]interface{}:
		out := make(map[string]interface{}, len(t))
		for k, x := range t {
			out[k] = DeepCopy(x)
		}
		return out
	}
	return v
}

// ToJnum converts every float64 into the json.Number with Go's shortest formatting —
// what decoding the same text with UseNumber gives for integral values.
func ToJnum(v interface{}) interface{} {
	switch t := v.(type) {
	case float64:
		return json.Number(strconv.FormatInt(int64(t), 10))
	case []interface{}:
		out := make([]interface{}, len(t))
		for i, x := range t {
			out[i] = ToJnum(x)
		}
		return out
	case map[string]interface{}:
		out := make(map[string]interface{}, len(t))
		for k, x := range t {
			out[k] = ToJnum(x)
		}
		return out
	}
	return v
}

// JSONText prints a document for humans / replays (opaque leaves as strings).
func JSONText(v interface{}) string {
	bs, err := json.Marshal(v)
	if err != nil {
		return fmt.Sprintf("%#v", v)
	}
	return string(bs)
}

// RebuildShuffled builds an equal document whose maps were filled in a random order.
func RebuildShuffled(v interface{}, r *Rng) interface{} {
	switch t := v.(type) {
	case []interface{}:
		out := make([]interface{}, len(t))
		for i, x := range t {
			out[i] = RebuildShuffled(x, r)
		}
		return out
	case map[string]interface{}:
		keys := make([]string, 0, len(t))
		for k := range t {
			keys = append(keys, k)
		}
		sort.Strings(keys)
		r.Shuffle(len(keys), func(i, j int) { keys[i], keys[j] = keys[j], keys[i] })
		out := make(map[string]interface{})
		for _, k := range keys {
			out[k] = RebuildShuffled(t[k], r)
		}
		return out
	}
	return v
}
