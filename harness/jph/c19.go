package jph

import (
	"bufio"
	"bytes"
	"context"
	"encoding/json"
	"fmt"
	"os"
	"os/exec"
	"sort"
	"strconv"
	"strings"
	"sync"
	"time"

	"github.com/AsaiYusuke/jsonpath"
)

// C19 — Parse depends only on the path and the Config given to that call.
//
// A case is a history of 2..10 Parse / Retrieve calls made one after the other in the worker
// process (so the real history of a call is even longer: every call of every earlier case of
// the worker precedes it). The calls mix valid paths, paths that fail at every kind of parser
// action (half-way, with material on the parser's stacks), and seven configurations: none,
// empty, function set A, function set B (the same names bound to other functions, one name a
// filter in A and an aggregate in B, one name only in A, one only in B), A / B / nothing with
// accessor mode. Some calls rebind every name of their Config right after Parse returned.
//
// 40% of the histories additionally contain a block of 2..4 calls that share ONE long-lived Config
// object which is MUTATED between the calls (the other calls of the history are interleaved):
// Parse P with cfg (functions registered), then `cfg.SetAccessorMode()` on it — or on a copy
// `c2 := cfg` — and Parse P again; or a function is added / rebound after a Parse
// (`cfg.SetFilterFunction("late", …)`) and a path that uses it is parsed again. The reference of
// such a call is a fresh process that builds a Config in the state the object has AT THAT CALL
// (functions + accessor mode) and makes the call first: after SetAccessorMode the results must be
// Accessors, a function added later must be found, a rebound name must call the new function.
//
// 4% of the histories are LONG (class long-history): one path that uses `id` / `max` is parsed 70..100
// times in a row under one configuration (one long-lived Config object, or a Config built anew for every
// call), then once under a configuration that binds THE SAME NAMES, `id` and `max` to other functions
// (the object after SetFilterFunction / SetAggregateFunction, or a separate Config), sometimes followed
// by the first configuration again. Every repetition must show the same outcome, and the calls after
// the repetitions the outcome a fresh process gives.
//
// 12% of the cases additionally run the class nil-registered (c19NilRegistered in b12_helpers.go): a name registered
// with a nil function, a path using it parsed, the name registered properly on the same Config later; the function
// returned earlier must behave after the later registration exactly as before it.
//
// Oracle: the observable outcome of every call — error type and full text, or the dump of the
// tree that was built plus the results, accessor-ness and the user-function call log on three
// probe documents — equals the outcome of the very same call made FIRST in a FRESH process
// (the helper property C19F, run through `jph worker C19F …`, evaluates exactly one call of the
// history). Absolute checks: a function never calls a function bound after Parse returned, and
// at the end of the history every returned function still behaves as it did right after Parse.

type c19 struct{}
type c19f struct{}

func init() {
	Props["C19"] = c19{}
	Props["C19F"] = c19f{}
}

func (c19) Count(tier string) int {
	if tier == "thorough" {
		return 120000
	}
	return 2500
}

func (c19f) Count(tier string) int { return 0 }

// ---------- configurations ----------

const (
	c19None = iota
	c19Empty
	c19A
	c19B
	c19AccA
	c19AccB
	c19AccOnly
	c19NumCfg
)

var c19CfgNames = []string{"none", "empty", "A", "B", "accA", "accB", "accOnly"}

type c19Log struct {
	mu    sync.Mutex
	calls []string
}

func (l *c19Log) add(s string) {
	l.mu.Lock()
	l.calls = append(l.calls, s)
	l.mu.Unlock()
}

func (l *c19Log) take() string {
	l.mu.Lock()
	s := strings.Join(l.calls, ";")
	l.calls = nil
	l.mu.Unlock()
	return s
}

func c19Num(v interface{}) (float64, bool) {
	f, ok := v.(float64)
	return f, ok
}

// c19Config builds the configuration of the given kind; every function logs `SET.name(arg)`.
func c19Config(kind int, log *c19Log) *jsonpath.Config {
	if kind == c19None {
		return nil
	}
	c := jsonpath.Config{}
	ff := func(set, name string, f func(interface{}) (interface{}, error)) {
		c.SetFilterFunction(name, func(v interface{}) (interface{}, error) {
			log.add(set + "." + name + "(" + ValSexp(v) + ")")
			return f(v)
		})
	}
	af := func(set, name string, f func([]interface{}) (interface{}, error)) {
		c.SetAggregateFunction(name, func(vs []interface{}) (interface{}, error) {
			log.add(set + "." + name + "[" + ValsSexp(vs) + "]")
			return f(vs)
		})
	}
	switch kind {
	case c19A, c19AccA:
		for name, f := range filterImpl {
			ff("A", name, f)
		}
		for name, f := range aggImpl {
			af("A", name, f)
		}
		ff("A", "onlyA", func(interface{}) (interface{}, error) { return "A!", nil })
		ff("A", "swap", func(interface{}) (interface{}, error) { return "swapF", nil })
	case c19B, c19AccB:
		ff("B", "id", func(interface{}) (interface{}, error) { return "B-id", nil })
		ff("B", "twice", func(v interface{}) (interface{}, error) {
			if f, ok := c19Num(v); ok {
				return 3 * f, nil
			}
			return nil, errFn
		})
		ff("B", "wrap", func(v interface{}) (interface{}, error) { return map[string]interface{}{"w": v}, nil })
		ff("B", "failAll", func(v interface{}) (interface{}, error) { return v, nil })
		ff("B", "failOdd", func(v interface{}) (interface{}, error) {
			if f, ok := c19Num(v); ok && int64(f)%2 == 0 {
				return nil, errFn
			}
			return v, nil
		})
		ff("B", "onlyB", func(interface{}) (interface{}, error) { return "B!", nil })
		af("B", "count", func(vs []interface{}) (interface{}, error) { return float64(-len(vs)), nil })
		af("B", "max", func(vs []interface{}) (interface{}, error) {
			if len(vs) == 0 {
				return nil, errFn
			}
			var m float64
			for i, v := range vs {
				f, ok := c19Num(v)
				if !ok {
					return nil, errFn
				}
				if i == 0 || f < m {
					m = f
				}
			}
			return m, nil
		})
		af("B", "first", func(vs []interface{}) (interface{}, error) {
			if len(vs) == 0 {
				return nil, errFn
			}
			return vs[len(vs)-1], nil
		})
		af("B", "list", func(vs []interface{}) (interface{}, error) {
			out := make([]interface{}, len(vs))
			for i, v := range vs {
				out[len(vs)-1-i] = v
			}
			return out, nil
		})
		af("B", "failAgg", func(vs []interface{}) (interface{}, error) { return float64(0), nil })
		af("B", "swap", func([]interface{}) (interface{}, error) { return "swapA", nil })
	}
	if kind == c19AccA || kind == c19AccB || kind == c19AccOnly {
		c.SetAccessorMode()
	}
	return &c
}

var c19AllNames = []string{"id", "twice", "wrap", "failAll", "failOdd", "count", "max", "first", "list", "failAgg", "onlyA", "onlyB", "swap", "late"}

// c19Modify rebinds every name (as filter AND as aggregate function) and flips accessor mode
// on: nothing of this may be visible through a function that Parse has already returned.
func c19Modify(c *jsonpath.Config, log *c19Log) {
	if c == nil {
		return
	}
	for _, name := range c19AllNames {
		name := name
		c.SetFilterFunction(name, func(v interface{}) (interface{}, error) {
			log.add("MOD." + name)
			return "MOD", nil
		})
		c.SetAggregateFunction(name, func(vs []interface{}) (interface{}, error) {
			log.add("MOD." + name)
			return "MOD", nil
		})
	}
	c.SetAccessorMode()
}

// ---------- calls and histories ----------

type c19Call struct {
	Path     string
	Cfg      int
	PostMod  bool
	Retrieve bool
	Kind     string      // valid / random / the action the path fails at
	Doc      interface{} // third probe document
	Pool     bool        // the reference outcome may be cached (fixed path, fixed probe)
	// long-lived Config objects (0: the Config is built for this call alone)
	Live    int      // 1: the history's long-lived Config object; 2: a copy of it (`c2 := cfg`), made right before the first call that uses the copy
	NewMuts []string // what is done to that object right before this call: acc = SetAccessorMode, late = a new filter function `late`, rebind = `id` and `max` bound to other functions
	Muts    []string // everything done to the object up to and including this call = the state the reference builds
	Scen    string
	Rep     int // > 1: the call is made Rep times in a row (long histories); the reference is ONE call in a fresh process
}

func c19ApplyMuts(c *jsonpath.Config, muts []string, log *c19Log) {
	for _, m := range muts {
		switch m {
		case "acc":
			c.SetAccessorMode()
		case "late":
			c.SetFilterFunction("late", func(v interface{}) (interface{}, error) {
				log.add("MUT.late(" + ValSexp(v) + ")")
				return "late!", nil
			})
		case "rebind":
			c.SetFilterFunction("id", func(v interface{}) (interface{}, error) {
				log.add("MUT.id(" + ValSexp(v) + ")")
				return "MUT-id", nil
			})
			c.SetAggregateFunction("max", func(vs []interface{}) (interface{}, error) {
				log.add("MUT.max[" + ValsSexp(vs) + "]")
				return float64(-7), nil
			})
		}
	}
}

// c19Live: the long-lived Config objects of one history.
type c19Live struct {
	cfgs map[int]*jsonpath.Config
	log  *c19Log
}

func c19NewLive() *c19Live { return &c19Live{cfgs: map[int]*jsonpath.Config{}, log: &c19Log{}} }

func (l *c19Live) get(c c19Call) (*jsonpath.Config, *c19Log) {
	if l.cfgs[1] == nil {
		l.cfgs[1] = c19Config(c.Cfg, l.log)
	}
	if c.Live == 2 && l.cfgs[2] == nil {
		c2 := *l.cfgs[1] // `c2 := cfg`
		l.cfgs[2] = &c2
	}
	cfg := l.cfgs[c.Live]
	c19ApplyMuts(cfg, c.NewMuts, l.log)
	l.log.take()
	return cfg, l.log
}

var c19LatePaths = []string{"$.a.late()", "$.b[?(@.a.late())]", "$.d.max().late()", "$.a.a.late().id()", "[?(@.a.late())]"}
var c19RebindPaths = []string{"$.a.id()", "$.d.max()", "$.b[?(@.a.id())].a", "$.d.max().id()", "$..a.id()", "$.b[?($.d.max()==3)]", "$.b[*].a.max()"}

// c19LiveBlock: 2..4 calls on one Config object (and a copy of it) that is mutated in between.
func c19LiveBlock(r *Rng, poolDoc interface{}) []c19Call {
	base := []int{c19A, c19B, c19Empty}[r.Weighted([]int{50, 35, 15})]
	scen := []string{"acc-same-object", "acc-on-copy", "acc-on-copy-first", "function-added-later", "function-rebound-later", "acc-then-function-added"}[r.Weighted([]int{28, 20, 12, 16, 12, 12})]
	p := r.Pick(c19ValidPaths)
	if r.Chance(35) {
		p = r.Pick([]string{"$.a", "$.b[0].a", "$..a", "$.d[0:2]", "$.b[?(@.a==1)]", "$"})
	}
	pl, pi := r.Pick(c19LatePaths), r.Pick(c19RebindPaths)
	type op struct {
		obj  int
		muts []string
		path string
	}
	var ops []op
	switch scen {
	case "acc-same-object":
		ops = []op{{1, nil, p}, {1, []string{"acc"}, p}}
		if r.Chance(30) {
			ops = append(ops, op{1, nil, r.Pick(c19ValidPaths)})
		}
	case "acc-on-copy":
		ops = []op{{1, nil, p}, {2, []string{"acc"}, p}}
		if r.Chance(50) {
			ops = append(ops, op{1, nil, p})
		}
	case "acc-on-copy-first":
		ops = []op{{2, []string{"acc"}, p}, {1, nil, p}}
		if r.Chance(50) {
			ops = append(ops, op{2, nil, p})
		}
	case "function-added-later":
		ops = []op{{1, nil, pl}, {1, []string{"late"}, pl}}
		if r.Chance(30) {
			ops = append(ops, op{1, []string{"acc"}, pl})
		}
	case "function-rebound-later":
		ops = []op{{1, nil, pi}, {1, []string{"rebind"}, pi}}
		if r.Chance(30) {
			ops = append(ops, op{1, []string{"acc"}, pi})
		}
	default:
		ops = []op{{1, nil, p}, {1, []string{"acc"}, p}, {1, []string{"late"}, pl}, {1, nil, p}}
	}
	state := map[int][]string{}
	made2 := false
	var out []c19Call
	for _, o := range ops {
		if o.obj == 2 && !made2 {
			made2 = true
			state[2] = append([]string{}, state[1]...)
		}
		state[o.obj] = append(state[o.obj], o.muts...)
		out = append(out, c19Call{Path: o.path, Cfg: base, Kind: "live", Doc: poolDoc, Pool: true, Retrieve: r.Chance(12),
			Live: o.obj, NewMuts: o.muts, Muts: append([]string{}, state[o.obj]...), Scen: scen})
	}
	return out
}

type c19PoolPath struct{ kind, path string }

var c19FailPaths = []c19PoolPath{
	{"bad-int", "$[9999999999999999999999]"}, {"bad-int", "$.a[1,99999999999999999999]"}, {"bad-int", "$[1:99999999999999999999]"},
	{"bad-int", "$[?(@.a)][0:1:99999999999999999999]"}, {"bad-int", "$.b[?(@.a[99999999999999999999])]"},
	{"bad-float", "$[?(@.a==1e999)]"}, {"bad-float", "$[?(@.a==1x)]"}, {"bad-float", "$[?(1e999==@.a)]"}, {"bad-float", "$.b[?(@.a>1-2)]"},
	{"bad-float", "$.b[?(@.a && @.b<1e)]"},
	{"bad-regex", "$[?(@.a=~/(/)]"}, {"bad-regex", "$.b[?(@.a==1 || @.b=~/[/)]"},
	{"bad-escape", "$['a\tb']"}, {"bad-escape", "$.a[\"x\ny\",'z']"},
	{"unknown-fn", "$.a.nope()"}, {"unknown-fn", "$[?(@.nope()==1)]"}, {"unknown-fn", "$['a','b'].nope()"}, {"unknown-fn", "$.b[?(@.a.id().nope())]"},
	{"unknown-fn", "$.d.max().late()"},
	{"script", "$[(1)]"}, {"script", "$.a[(@.length-1)]"}, {"script", "$.b[?(@.a)][(x)]"},
	{"value-group", "$[?(@.* == 1)]"}, {"value-group", "$[?(1==$..a)]"}, {"value-group", "$.b[?(@.a && @[0:2]>1)]"},
	{"two-current", "$[?(@.a==@.b)]"}, {"two-current", "$.b[?(@.a!=@.b)]"}, {"two-current", "$.b[?(@.a.id()<@.b)]"},
	{"trailing", "$.a]"}, {"trailing", "$.a b"}, {"trailing", "$[0]x y"}, {"trailing", "$.b[?(@.a==1)])"},
	{"unrecognised", ""}, {"unrecognised", "@"}, {"unrecognised", "$$"}, {"unrecognised", "."}, {"unrecognised", "$["},
	{"unrecognised", "$[?(@.a==)]"}, {"unrecognised", "$[?(@.a=='x]"},
	{"nested-fail", "$.x[?(@.a[?(@.b==1e999)])]"}, {"nested-fail", "$[?($.a.nope())]"}, {"nested-fail", "$.a[?(@.b && @.c[?(@.d.nope())])]"},
	{"nested-fail", "$.b[?(@.a[?(@.* == 1)])]"}, {"nested-fail", "$.b[?(@.a[(1)])]"}, {"nested-fail", "$.b[?(@.a[?(@.b==@.c)])]"},
	{"nested-fail", "$.b[?(@.a.id()==1 && @.b[?(@.c.max().nope()==1)])]"},
}

var c19ValidPaths = []string{
	"$", "$.a", "$.b[0].a", "$.b[*].a", "$..a", "$.b[?(@.a==1)]", "$.b[?(@.a>$.a.a)].b", "$['a','b']", "$.d[0:2]", "$.d[::-1]", "$.b[?(@.a==1 || @.b)]",
	"$.a.id()", "$.a.a.twice()", "$.d.max()", "$.d.*.twice()", "$.b[*].a.max()", "$.d.list().first()", "$.b[?(@.a.twice()==2)]", "$.b[?(@.a.id())].a",
	"$.b[?($.d.max()==3)]", "$.a.onlyA()", "$.a.onlyB()", "$.a.swap()", "$.d.swap()", "$['a','c'].id()", "$.d.count().twice()", "$.a.a.failAll()",
	"$.d[*].failOdd()", "$.d.failAgg()", "$..a.id()", "$.b[?(@.a.id()==$.a.a.id())]", "$.d.max().id()", "$['a','b','d'].count()",
	// the leading `$` omitted: the first node is a bracket / a bare name, so whatever an earlier failed
	// Parse left on the parser's stacks would be adopted as the path's prefix
	"[?(@.a)]", "[?(@.a==1)].b", "[?(@.a>1 && @.b)]", "[0]", "[0].a", "['a']", "['a','b']", "a.a", "b[0].a", "d[0:2]", "[*].a", "*", "b[?(@.a==1)]",
	"[?(@.a.id())]", "[?($.d.max()==3)]", "d.max()", "[?(@[0])]",
}

var c19Probes = []string{
	`{"a":{"a":1,"b":[1,2,3]},"b":[{"a":1,"b":2},{"a":2,"b":"x"},{"a":3}],"c":"s","d":[3,1,2]}`,
	`[{"a":1,"b":2},{"a":[3,4]},[1,2,3],"a",1,null]`,
}

const c19PoolDoc = `{"a":[[1,2],[3]],"b":{"a":2,"b":{"a":3}},"d":[2,4]}`

// c19LongHistory: see the head of the file.
func c19LongHistory(r *Rng) []c19Call {
	poolDoc, _ := c02Decode(c19PoolDoc)
	base := []int{c19A, c19B, c19AccA, c19AccB}[r.Weighted([]int{40, 30, 15, 15})]
	p := r.Pick(c19RebindPaths)
	n := r.Range(70, 100)
	var calls []c19Call
	if r.Chance(40) {
		// something else first
		calls = append(calls, c19Call{Path: r.Pick(c19ValidPaths), Cfg: r.Weighted([]int{22, 6, 22, 18, 12, 10, 10}), Doc: poolDoc, Pool: true, Kind: "valid"})
	}
	if r.Chance(50) {
		calls = append(calls,
			c19Call{Path: p, Cfg: base, Kind: "long-history", Doc: poolDoc, Pool: true, Live: 1, Scen: "long-history", Rep: n},
			c19Call{Path: p, Cfg: base, Kind: "long-history", Doc: poolDoc, Pool: true, Live: 1, Scen: "long-history", NewMuts: []string{"rebind"}, Muts: []string{"rebind"}})
		if r.Chance(40) {
			calls = append(calls, c19Call{Path: r.Pick(c19RebindPaths), Cfg: base, Kind: "long-history", Doc: poolDoc, Pool: true, Live: 1, Scen: "long-history", Muts: []string{"rebind"}})
		}
	} else {
		calls = append(calls,
			c19Call{Path: p, Cfg: base, Kind: "long-history", Doc: poolDoc, Pool: true, Rep: n, Retrieve: r.Chance(10)},
			c19Call{Path: p, Cfg: base, Kind: "long-history", Doc: poolDoc, Pool: true, Muts: []string{"rebind"}, Retrieve: r.Chance(15)})
		if r.Chance(50) {
			calls = append(calls, c19Call{Path: p, Cfg: base, Kind: "long-history", Doc: poolDoc, Pool: true})
		}
		if r.Chance(30) {
			other := map[int]int{c19A: c19B, c19B: c19A, c19AccA: c19AccB, c19AccB: c19AccA}[base]
			calls = append(calls, c19Call{Path: p, Cfg: other, Kind: "long-history", Doc: poolDoc, Pool: true})
		}
	}
	return calls
}

// c19DoRep makes the call c.Rep times (at least once) as part of a history; it returns the last
// outcome and, when a repetition showed another outcome than the first call, which one and what.
func c19DoRep(c c19Call, live *c19Live) (c19Done, string) {
	d := c19DoIn(c, live)
	first, differs := d.obs, ""
	c.NewMuts = nil
	for k := 1; k < c.Rep; k++ {
		d = c19DoIn(c, live)
		if d.obs != first && differs == "" {
			differs = fmt.Sprintf("repetition %d of %d shows another outcome than the first:\n first: %s\n now:   %s", k+1, c.Rep, c19Diff(first, d.obs), c19Diff(d.obs, first))
		}
	}
	return d, differs
}

func c19History(seed int64, index int) []c19Call {
	r := CaseRng(seed, "C19", index)
	if r.Chance(4) {
		return c19LongHistory(r)
	}
	n := r.Range(2, 10)
	focus := ""
	if r.Chance(60) {
		if r.Chance(70) {
			focus = r.Pick(c19ValidPaths)
		} else {
			focus = c19FailPaths[r.Intn(len(c19FailPaths))].path
		}
	}
	poolDoc, _ := c02Decode(c19PoolDoc)
	calls := make([]c19Call, n)
	for j := range calls {
		c := c19Call{Cfg: r.Weighted([]int{22, 6, 22, 18, 12, 10, 10}), Doc: poolDoc, Pool: true}
		c.PostMod = c.Cfg != c19None && r.Chance(20)
		c.Retrieve = r.Chance(12)
		switch {
		case focus != "" && r.Chance(45):
			c.Path, c.Kind = focus, "focus"
		default:
			switch r.Weighted([]int{38, 32, 30}) {
			case 0:
				fp := c19FailPaths[r.Intn(len(c19FailPaths))]
				c.Path, c.Kind = fp.path, fp.kind
			case 1:
				c.Path, c.Kind = r.Pick(c19ValidPaths), "valid"
			case 2:
				o := DefaultOpts()
				o.OddKeys = r.Chance(25)
				doc, p := GenCase(r, o)
				c.Path, c.Kind, c.Doc, c.Pool = Render(p, r), "random", doc, false
			}
		}
		calls[j] = c
	}
	if r.Chance(40) {
		// the block's calls keep their order; the other calls of the history are interleaved
		block := c19LiveBlock(r, poolDoc)
		for _, bc := range block {
			at := r.Intn(len(calls) + 1)
			// never before an earlier call of the block
			for k := len(calls) - 1; k >= at; k-- {
				if calls[k].Live != 0 {
					at = k + 1
					break
				}
			}
			calls = append(calls[:at], append([]c19Call{bc}, calls[at:]...)...)
		}
	}
	return calls
}

// ---------- observing one call ----------

func c19Render(o Outcome) string {
	if o.ErrKind == "panic" {
		return "panic " + clip(o.Panic, 300)
	}
	if !o.OK {
		return "err " + o.ErrKind + "|" + o.Msg
	}
	parts := make([]string, len(o.Vals))
	for i, v := range o.Vals {
		if a, ok := v.(jsonpath.Accessor); ok {
			parts[i] = "acc(" + ValSexp(a.Get()) + "," + fmt.Sprint(a.Set != nil) + ")"
		} else {
			parts[i] = ValSexp(v)
		}
	}
	return "ok " + strings.Join(parts, " ")
}

type c19Done struct {
	obs    string // the whole observable outcome
	behave string // the probe part (empty when Parse failed or the call was a Retrieve)
	f      Parsed
	log    *c19Log
	docs   []interface{}
	kind   string // outcome kind of the Parse / Retrieve
}

func c19ProbeDocs(c c19Call) []interface{} {
	var docs []interface{}
	for _, t := range c19Probes {
		d, _ := c02Decode(t)
		docs = append(docs, d)
	}
	return append(docs, DeepCopy(c.Doc))
}

func c19Behave(f Parsed, log *c19Log, docs []interface{}) string {
	var b strings.Builder
	for k, d := range docs {
		log.take()
		out := SafeCall(f, DeepCopy(d))
		fmt.Fprintf(&b, "D%d: %s L: %s\n", k, c19Render(out), log.take())
	}
	return b.String()
}

// c19Do makes the call on its own: the Config is built for it, in the state the call describes.
func c19Do(c c19Call) c19Done { return c19DoIn(c, nil) }

// c19DoIn makes the call as part of a history: a call on a long-lived Config object uses (and
// mutates) the object kept in live.
func c19DoIn(c c19Call, live *c19Live) c19Done {
	var log *c19Log
	var cfg *jsonpath.Config
	if c.Live != 0 && live != nil {
		cfg, log = live.get(c)
	} else {
		log = &c19Log{}
		cfg = c19Config(c.Cfg, log)
		c19ApplyMuts(cfg, c.Muts, log)
	}
	docs := c19ProbeDocs(c)
	if c.Retrieve {
		out := c02Retrieve(c.Path, DeepCopy(docs[0]), cfg)
		if c.PostMod {
			c19Modify(cfg, log)
		}
		k := "ok"
		if !out.OK {
			k = out.ErrKind
		}
		return c19Done{obs: "R: " + c19Render(out) + " L: " + log.take(), kind: k, log: log}
	}
	f, out, tree := ParseTree(c.Path, cfg)
	if c.PostMod {
		c19Modify(cfg, log)
	}
	if f == nil {
		k := out.ErrKind
		if out.Both {
			k += "+func"
		}
		return c19Done{obs: "P: err " + k + "|" + out.Msg + clip(out.Panic, 300), kind: out.ErrKind, log: log}
	}
	behave := c19Behave(f, log, docs)
	return c19Done{obs: "P: ok " + tree + "\n" + behave, behave: behave, f: f, log: log, docs: docs, kind: "ok"}
}

// ---------- the reference: the same call made first in a fresh process ----------

func (c19f) Exec(seed int64, idx int, tier string) Record {
	hist := c19History(seed, idx/16)
	j := idx % 16
	if j == 15 {
		var all []string
		live := c19NewLive()
		for _, c := range hist {
			d, _ := c19DoRep(c, live)
			all = append(all, d.obs)
		}
		return Record{Info: map[string]interface{}{"all": all}}
	}
	if j >= len(hist) {
		return Record{Info: map[string]interface{}{"out": "no such call"}}
	}
	return Record{Info: map[string]interface{}{"out": c19Do(hist[j]).obs}}
}

func c19Fresh(seed int64, idx int, tier string) (map[string]interface{}, string) {
	self, err := os.Executable()
	if err != nil {
		return nil, "cannot find own executable: " + err.Error()
	}
	ctx, cancel := context.WithTimeout(context.Background(), 60*time.Second)
	defer cancel()
	cmd := exec.CommandContext(ctx, self, "worker", "C19F", strconv.FormatInt(seed, 10), strconv.Itoa(idx), strconv.Itoa(idx+1), tier)
	var stderr bytes.Buffer
	cmd.Stderr = &stderr
	out, err := cmd.Output()
	sc := bufio.NewScanner(bytes.NewReader(out))
	sc.Buffer(make([]byte, 1<<20), 1<<26)
	for sc.Scan() {
		line := sc.Text()
		if strings.HasPrefix(line, "#") {
			continue
		}
		var rec Record
		if json.Unmarshal([]byte(line), &rec) == nil && rec.Info != nil {
			return rec.Info, ""
		}
	}
	msg := "fresh process gave no answer"
	if err != nil {
		msg += ": " + err.Error()
	}
	return nil, msg + " " + firstLines(clip(stderr.String(), 600), 6)
}

var c19RefCache = map[string]string{}

func c19CallKey(c c19Call) string {
	return fmt.Sprintf("%d|%s|%v|%v|%s", c.Cfg, strings.Join(c.Muts, "+"), c.PostMod, c.Retrieve, c.Path)
}

// ---------- the property ----------

func (c19) Exec(seed int64, i int, tier string) Record {
	if i%16 == 5 {
		// class long-path-repeated (b16_probes.go): one path of more than 2100 PEG tokens parsed two or three times in a row
		return b16LongRepeat(CaseRng(seed, "C19/b16", i))
	}
	hist := c19History(seed, i)
	rec := Record{Info: map[string]interface{}{}, Tags: []string{fmt.Sprintf("hist-len:%d", len(hist))}}
	var descr []string
	for _, c := range hist {
		d := fmt.Sprintf("%s%s%s %q", c19CfgNames[c.Cfg], pick(c.PostMod, "+mod", ""), pick(c.Retrieve, " Retrieve", " Parse"), c.Path)
		if c.Live == 0 && len(c.Muts) > 0 {
			d = fmt.Sprintf("%s%s %q with a Config built for this call: %s, then %s applied to it before the call", c19CfgNames[c.Cfg], pick(c.Retrieve, " Retrieve", " Parse"), c.Path, c19CfgNames[c.Cfg], strings.Join(c.Muts, ", "))
		}
		if c.Live != 0 {
			state := c19CfgNames[c.Cfg]
			for _, m := range c.Muts {
				state += "+" + m
			}
			obj := "the long-lived Config object `cfg`"
			if c.Live == 2 {
				obj = "`c2 := cfg` (a copy of the long-lived object, made before the first call with c2)"
			}
			now := "not modified since its previous use (or since it was built)"
			if len(c.NewMuts) > 0 {
				now = "just before this call: " + strings.Join(c.NewMuts, ", ") + " applied to it"
			}
			d = fmt.Sprintf("%s%s %q with %s, %s; its state is now %s", state, pick(c.Retrieve, " Retrieve", " Parse"), c.Path, obj, now, state)
		}
		if c.Rep > 1 {
			d = fmt.Sprintf("%d times in a row: %s", c.Rep, d)
		}
		descr = append(descr, d)
	}
	rec.Info["history"] = descr
	rec.Text = hist[len(hist)-1].Path
	viol := func(class, format string, args ...interface{}) {
		if rec.Viol == "" {
			rec.Viol = fmt.Sprintf(format, args...)
			rec.Class = class
		}
	}
	done := make([]c19Done, len(hist))
	var keyParts []string
	nontrivial := false
	live := c19NewLive()
	for j, c := range hist {
		d, repDiffers := c19DoRep(c, live)
		done[j] = d
		if c.Rep > 1 {
			nontrivial = true
			rec.Tags = append(rec.Tags, "class:long-history", "long-history:same-call-70..100-times")
			keyParts = append(keyParts, fmt.Sprintf("long-history:%s:live%d", c19CfgNames[c.Cfg], c.Live))
		}
		if c.Rep <= 1 && c.Kind == "long-history" && len(c.Muts) > 0 {
			rec.Tags = append(rec.Tags, "long-history:then-same-names-other-functions")
		}
		if repDiffers != "" {
			viol("history-dependent", "call %d (%s): %s", j, descr[j], repDiffers)
		}
		if c.Live != 0 {
			nontrivial = true
			rec.Tags = append(rec.Tags, "live-config:"+c.Scen)
			if len(c.NewMuts) > 0 {
				keyParts = append(keyParts, "live:"+c.Scen+":"+strings.Join(c.NewMuts, "+")+":"+d.kind)
				rec.Tags = append(rec.Tags, "live-config:mutated:"+strings.Join(c.NewMuts, "+"))
			}
		}
		rec.Tags = append(rec.Tags, "cfg:"+c19CfgNames[c.Cfg], "path:"+c.Kind, "out:"+d.kind)
		if c.PostMod {
			rec.Tags = append(rec.Tags, "postmod")
		}
		if c.Retrieve {
			rec.Tags = append(rec.Tags, "retrieve")
		}
		if j > 0 {
			if done[j-1].kind != "ok" {
				rec.Tags = append(rec.Tags, "after-failure")
				nontrivial = true
			}
			if hist[j-1].Cfg != c.Cfg {
				rec.Tags = append(rec.Tags, "cfg-switch")
				nontrivial = true
			}
		}
		if j > 0 {
			// a transition: what kind of call preceded what kind of call
			keyParts = append(keyParts, c19CfgNames[hist[j-1].Cfg]+":"+done[j-1].kind+">"+c19CfgNames[c.Cfg]+":"+d.kind)
		}
		if strings.Contains(d.obs, "MOD") && c.PostMod {
			viol("late-binding", "call %d (%s): a function bound to the Config after Parse returned was used: %s", j, descr[j], clip(d.obs, 600))
		}
		if d.kind == "panic" || strings.HasPrefix(d.kind, "other") || d.kind == "nilnil" {
			viol("abnormal", "call %d (%s): abnormal outcome %s", j, descr[j], clip(d.obs, 600))
		}
	}
	// class nil-registered (b12_helpers.go)
	if nr := CaseRng(seed, "C19nil", i); nr.Chance(12) {
		v, tags, info := c19NilRegistered(nr)
		rec.Tags = append(rec.Tags, tags...)
		for k, x := range info {
			rec.Info[k] = x
		}
		if v != "" {
			viol("late-binding", "%s", v)
		}
		nontrivial = true
		keyParts = append(keyParts, strings.Join(tags, "+"))
	}
	// every function returned during the history still behaves as it did right after Parse
	for j, d := range done {
		if d.f == nil {
			continue
		}
		again := c19Behave(d.f, d.log, d.docs)
		if again != d.behave {
			viol("later-calls", "call %d (%s): the returned function behaves differently after the later calls of the history:\n first: %s\n again: %s", j, descr[j], clip(d.behave, 500), clip(again, 500))
		}
	}
	// each outcome equals the outcome of the same call made first in a fresh process
	for j, c := range hist {
		var ref string
		key := c19CallKey(c)
		if cached, ok := c19RefCache[key]; ok && c.Pool {
			ref = cached
			rec.Tags = append(rec.Tags, "ref:cached")
		} else {
			info, msg := c19Fresh(seed, i*16+j, tier)
			if msg != "" {
				// no reference, no verdict on this call: say so loudly
				viol("no-reference", "call %d (%s): %s", j, descr[j], msg)
				continue
			}
			ref, _ = info["out"].(string)
			rec.Tags = append(rec.Tags, "ref:fresh-process")
			if c.Pool {
				c19RefCache[key] = ref
			}
		}
		if ref != done[j].obs {
			if rec.Viol == "" {
				// does the history alone, in a fresh process, show it too?
				standalone := "not checked"
				if info, msg := c19Fresh(seed, i*16+15, tier); msg == "" {
					if all, ok := info["all"].([]interface{}); ok && j < len(all) {
						standalone = fmt.Sprint(all[j] != ref)
					}
				}
				rec.Info["reproduces_standalone"] = standalone
				rec.Info["got"] = clip(done[j].obs, 3000)
				rec.Info["fresh"] = clip(ref, 3000)
			}
			viol("history-dependent", "call %d (%s) differs from the same call made first in a fresh process:\n here:  %s\n fresh: %s", j, descr[j], c19Diff(done[j].obs, ref), c19Diff(ref, done[j].obs))
		}
	}
	if nontrivial {
		sort.Strings(keyParts)
		uniq := keyParts[:0]
		for k, p := range keyParts {
			if k == 0 || p != keyParts[k-1] {
				uniq = append(uniq, p)
			}
		}
		rec.Key = strings.Join(uniq, " ")
	}
	return rec
}

// c19Diff shows a around the first difference from b.
func c19Diff(a, b string) string {
	k := 0
	for k < len(a) && k < len(b) && a[k] == b[k] {
		k++
	}
	from := k - 80
	if from < 0 {
		from = 0
	}
	to := k + 200
	if to > len(a) {
		to = len(a)
	}
	return fmt.Sprintf("…[%d] %s", from, a[from:to])
}
