package jph

import (
	"fmt"
	"reflect"
	"sort"
	"strings"

	"github.com/AsaiYusuke/jsonpath"
)

// C15 — runtime errors name a real failing step: the deepest one, and the right kind.
//
// Cases: (path, document) pairs from the C01 generators, steered towards failing pairs (a path
// is regenerated up to 6 times while it succeeds), a third of them single-valued paths (name /
// single-index steps only), functions after the steps of a third.
// Oracles for a failing pair:
//   * exact: jpv-impl `run f` gives the model's error (kind, step text, expected, found);
//   * model-free: c15Walk walks every branch of the path over the document and collects every
//     local failure (position in the path as written, kind, step text, expected kind, Go type
//     found). The reported error must be one of the failures at the deepest position reached,
//     and a type mismatch only if no missing member / failed function sits at that position.
//     For a single-valued path there is exactly one failure (the first failing step) and the
//     comparison is exact. Which members a filter step selects is asked of the real library
//     (accessor mode on the concrete location, Set of a marker) — selection is C01's subject.
//   * a succeeding pair must be one the walk finds results for, and vice versa.

type c15 struct{}

func init() { Props["C15"] = c15{} }

func (c15) Count(tier string) int {
	if tier == "thorough" {
		return 800000
	}
	return 40000
}

type c15Fail struct {
	Pos   int // 2*step index (+1 for the step applied by `..`; the `..` node itself is even); functions follow
	Kind  string
	Text  string
	Exp   string
	Found string
}

func (f c15Fail) String() string {
	switch f.Kind {
	case "type":
		return fmt.Sprintf("type unmatched (expected=%s, found=%s, path=%s)", f.Exp, f.Found, f.Text)
	case "func":
		return fmt.Sprintf("function failed (function=%s)", f.Text)
	}
	return fmt.Sprintf("member did not exist (path=%s)", f.Text)
}

type c15Walker struct {
	doc     interface{}
	steps   []*Step
	fails   []c15Fail
	reached []interface{} // values at the end of the steps, in order
	problem string        // the walk could not be completed (runner-side)
	nFilter int
}

func c15TypeName(v interface{}) string {
	if v == nil {
		return "null"
	}
	return reflect.TypeOf(v).String()
}

func (w *c15Walker) fail(pos int, kind, text, exp string, v interface{}) {
	f := c15Fail{Pos: pos, Kind: kind, Text: text, Exp: exp}
	if kind == "type" {
		f.Found = c15TypeName(v)
	}
	w.fails = append(w.fails, f)
}

// c15Selected asks the real library which members of the container at loc the filter selects.
func (w *c15Walker) selected(s *Step, loc []c12Seg) (map[string]bool, map[int]bool, bool) {
	w.nFilter++
	text := c12LocText(loc) + Spelling{}.step(&Step{Kind: StFilter, Q: s.Q}, false)
	cfg := Config(true, nil)
	cp := DeepCopy(w.doc)
	out := Run(text, cp, &cfg)
	keys, idxs := map[string]bool{}, map[int]bool{}
	if !out.OK {
		if out.ErrKind == "member" || out.ErrKind == "type" || out.ErrKind == "func" {
			return keys, idxs, true
		}
		w.problem = "filter evaluation " + text + ": " + out.Detail()
		return nil, nil, false
	}
	for k, v := range out.Vals {
		a, ok := v.(jsonpath.Accessor)
		if !ok || a.Set == nil {
			w.problem = "filter evaluation " + text + ": result without Set"
			return nil, nil, false
		}
		a.Set(c12Sentinel{N: k})
	}
	node, _ := c12At(cp, loc)
	switch t := node.(type) {
	case map[string]interface{}:
		for k, v := range t {
			if _, ok := v.(c12Sentinel); ok {
				keys[k] = true
			}
		}
	case []interface{}:
		for i, v := range t {
			if _, ok := v.(c12Sentinel); ok {
				idxs[i] = true
			}
		}
	}
	if len(keys)+len(idxs) != len(out.Vals) {
		w.problem = "filter evaluation " + text + ": markers do not match the results"
		return nil, nil, false
	}
	return keys, idxs, true
}

func c15IsContainer(v interface{}) bool {
	switch v.(type) {
	case map[string]interface{}, []interface{}:
		return true
	}
	return false
}

// walk applies steps[k:] to the node; pos0 = position of steps[k].
func (w *c15Walker) walk(k int, node interface{}, loc []c12Seg) {
	if w.problem != "" {
		return
	}
	if k == len(w.steps) {
		w.reached = append(w.reached, node)
		return
	}
	s := w.steps[k]
	if s.Kind == StDesc {
		if !c15IsContainer(node) {
			w.fail(2*k, "type", "..", "object/array", node)
			return
		}
		tried := 0
		var visit func(n interface{}, l []c12Seg)
		visit = func(n interface{}, l []c12Seg) {
			switch t := n.(type) {
			case map[string]interface{}:
				if s.Inner.Kind != StUnion {
					tried++
					w.apply(s.Inner, 2*k+1, k, n, l)
				}
				for _, key := range sortedKeys(t) {
					visit(t[key], c12LocAppend(l, c12Seg{Key: key}))
				}
			case []interface{}:
				if s.Inner.Kind != StChild {
					tried++
					w.apply(s.Inner, 2*k+1, k, n, l)
				}
				for i, x := range t {
					visit(x, c12LocAppend(l, c12Seg{IsIdx: true, Idx: i}))
				}
			}
		}
		visit(node, loc)
		if tried == 0 {
			w.fail(2*k, "member", "..", "", nil)
		}
		return
	}
	w.apply(s, 2*k+1, k, node, loc)
}

// apply: one (non-`..`) step on one node.
func (w *c15Walker) apply(s *Step, pos, k int, node interface{}, loc []c12Seg) {
	next := func(v interface{}, seg c12Seg) { w.walk(k+1, v, c12LocAppend(loc, seg)) }
	switch s.Kind {
	case StChild:
		m, ok := node.(map[string]interface{})
		if !ok {
			w.fail(pos, "type", s.Text, "object", node)
			return
		}
		v, ok := m[s.Key]
		if !ok {
			w.fail(pos, "member", s.Text, "", nil)
			return
		}
		next(v, c12Seg{Key: s.Key})
	case StWild:
		switch t := node.(type) {
		case map[string]interface{}:
			if len(t) == 0 {
				w.fail(pos, "member", s.Text, "", nil)
			}
			for _, key := range sortedKeys(t) {
				next(t[key], c12Seg{Key: key})
			}
		case []interface{}:
			if len(t) == 0 {
				w.fail(pos, "member", s.Text, "", nil)
			}
			for i, x := range t {
				next(x, c12Seg{IsIdx: true, Idx: i})
			}
		default:
			w.fail(pos, "type", s.Text, "object/array", node)
		}
	case StMulti:
		allWild := true
		for _, n := range s.Names {
			allWild = allWild && n.Wild
		}
		if arr, ok := node.([]interface{}); ok && allWild {
			if len(arr) == 0 {
				w.fail(pos, "member", s.Text, "", nil)
			}
			for range s.Names {
				for i, x := range arr {
					next(x, c12Seg{IsIdx: true, Idx: i})
				}
			}
			return
		}
		m, ok := node.(map[string]interface{})
		if !ok {
			w.fail(pos, "type", s.Text, "object", node)
			return
		}
		matched := 0
		for _, n := range s.Names {
			if n.Wild {
				for _, key := range sortedKeys(m) {
					matched++
					next(m[key], c12Seg{Key: key})
				}
				continue
			}
			if v, ok := m[n.Key]; ok {
				matched++
				next(v, c12Seg{Key: n.Key})
			}
		}
		if matched == 0 {
			w.fail(pos, "member", s.Text, "", nil)
		}
	case StUnion:
		arr, ok := node.([]interface{})
		if !ok {
			w.fail(pos, "type", s.Text, "array", node)
			return
		}
		n := 0
		for _, sub := range s.Subs {
			for _, ix := range c11SubIndices(sub, int64(len(arr))) {
				n++
				next(arr[ix], c12Seg{IsIdx: true, Idx: int(ix)})
			}
		}
		if n == 0 {
			w.fail(pos, "member", s.Text, "", nil)
		}
	case StFilter:
		if !c15IsContainer(node) {
			w.fail(pos, "type", s.Text, "object/array", node)
			return
		}
		keys, idxs, ok := w.selected(s, loc)
		if !ok {
			return
		}
		if len(keys)+len(idxs) == 0 {
			w.fail(pos, "member", s.Text, "", nil)
			return
		}
		switch t := node.(type) {
		case map[string]interface{}:
			for _, key := range sortedKeys(t) {
				if keys[key] {
					next(t[key], c12Seg{Key: key})
				}
			}
		case []interface{}:
			for i, x := range t {
				if idxs[i] {
					next(x, c12Seg{IsIdx: true, Idx: i})
				}
			}
		}
	}
}

// c15HasInnerWild: the path has a multi-name selector with a `*` among its names.
func c15HasInnerWild(p *Path) bool {
	for _, s := range p.Steps {
		st := s
		if st.Kind == StDesc {
			st = st.Inner
		}
		if st.Kind == StMulti {
			for _, n := range st.Names {
				if n.Wild {
					return true
				}
			}
		}
	}
	return false
}

func c15HasEmptyObject(v interface{}) bool {
	switch t := v.(type) {
	case map[string]interface{}:
		if len(t) == 0 {
			return true
		}
		for _, x := range t {
			if c15HasEmptyObject(x) {
				return true
			}
		}
	case []interface{}:
		for _, x := range t {
			if c15HasEmptyObject(x) {
				return true
			}
		}
	}
	return false
}

func c15SingleValued(p *Path) bool {
	for _, s := range p.Steps {
		if c12IsVgStep(s) {
			return false
		}
	}
	return true
}

func (c15) Exec(seed int64, i int, tier string) Record {
	r := CaseRng(seed, "C15", i)
	if i%25 == 11 {
		return c15ForeignErrCase(r) // b11_helpers.go
	}
	if i%50 == 23 {
		return c15TwinCase(r) // b13_helpers.go
	}
	if i%20 == 17 {
		// class overlap-probe (b16_probes.go): an evaluation suspended in a user function while the same parsed function
		// fails at another depth on another document still reports its own failing step
		return b16C15(r, i/20)
	}
	o := DefaultOpts()
	o.ErrBias = 15
	plain := Config(false, nil)
	var doc interface{}
	var p *Path
	long := i%40 == 7
	if long {
		doc, p = c15LongCase(r)
	}
	singleOnly := !long && r.Chance(30)
	if !long {
		doc = GenDoc(r, o, 0)
	}
	for try := 0; try < 6 && !long; try++ {
		if singleOnly {
			p = &Path{Head: HeadRoot}
			for len(p.Steps) == 0 {
				p.Steps, _, _ = o.genSingleSteps(r, doc, true, 4)
			}
			if r.Chance(60) {
				more, _, _ := o.genSingleSteps(r, nil, false, 2)
				p.Steps = append(p.Steps, more...)
			}
			if r.Chance(30) {
				p.Fns = o.genFns(r, 2)
			}
		} else {
			p = o.genPathFrom(r, doc, doc, HeadRoot, o.MaxSteps, true)
			if len(p.Fns) == 0 && r.Chance(15) {
				p.Fns = o.genFns(r, 2)
			}
		}
		if out := Run(Render(p, nil), doc, &plain); !out.OK || r.Chance(8) {
			break
		}
	}
	jn := r.Chance(25)
	if jn {
		doc = ToJnum(doc)
	}
	text := Render(p, r)
	rec := Record{Text: text, Doc: JSONText(doc), Info: map[string]interface{}{}, Tags: stepTags(p)}
	if jn {
		rec.Tags = append(rec.Tags, "decode:jnum")
	}
	if long {
		rec.Tags = append(rec.Tags, "class:long-path", fmt.Sprintf("long-path:steps-%d0+", len(p.Steps)/10))
	}
	out := Run(text, doc, &plain)
	if !out.OK && (out.ErrKind == "syntax" || out.ErrKind == "argument" || out.ErrKind == "notfound" || out.ErrKind == "notsupported") {
		rec.Viol = "generated path was rejected by Parse: " + out.Msg
		rec.Class = "parse-reject"
		return rec
	}
	if c12Abnormal(out) {
		rec.Viol = "abnormal outcome: " + clip(out.Detail(), 600)
		rec.Class = "abnormal"
		return rec
	}
	fail := func(class, what string) {
		if rec.Viol == "" {
			rec.Viol, rec.Class = what, class
			if c15HasInnerWild(p) && c15HasEmptyObject(doc) {
				rec.Class = "inner-wild-error"
			}
		}
	}
	ds := ValSexp(doc)
	rec.Q = append(rec.Q, LeanQ{Driver: "impl", Line: "(q run f " + p.Sexp() + " " + ds + ")", Expect: out.ImplExpect(true), What: "outcome (error kind, step, expected, found) vs Impl.run"})

	// ---- the walk ----
	w := &c15Walker{doc: doc, steps: p.Steps}
	w.walk(0, doc, nil)
	if w.problem != "" {
		rec.Tags = append(rec.Tags, "walk:incomplete")
		rec.Info["walk"] = w.problem
		return rec
	}
	fnPos := func(j int) int { return 2*(len(p.Steps)+j) + 1 }
	var final []interface{}
	if len(p.Fns) > 0 {
		// the functions, as C14 states the protocol; their failures sit behind every step
		sim := c14Simulate(w.reached, c15SingleValued(p), p.Fns)
		final = sim.Out
		for j, f := range p.Fns {
			if sim.FailedAt[j] {
				w.fails = append(w.fails, c15Fail{Pos: fnPos(j), Kind: "func", Text: f.Text})
			}
		}
	} else {
		final = w.reached
	}
	single := c15SingleValued(p)
	if single {
		rec.Tags = append(rec.Tags, "path:single-valued")
	} else {
		rec.Tags = append(rec.Tags, "path:multi-branch")
	}
	if len(final) > 0 {
		rec.Tags = append(rec.Tags, "outcome:ok")
		if !out.OK {
			fail("fails-but-selects", "the walk selects "+clip(ValsSexp(final), 200)+" but retrieval fails with "+out.Msg)
		}
		return rec
	}
	rec.Tags = append(rec.Tags, "outcome:err-"+out.ErrKind)
	if out.OK {
		fail("succeeds-but-fails", "the walk finds no result (failures: "+c15List(w.fails)+") but retrieval returns "+clip(ValsSexp(out.Vals), 200))
		return rec
	}
	if len(w.fails) == 0 {
		rec.Tags = append(rec.Tags, "walk:no-failure")
		rec.Info["walk"] = "no result and no failure collected"
		return rec
	}
	// candidates: deepest position; missing member / failed function before type mismatch
	deepest := 0
	for _, f := range w.fails {
		if f.Pos > deepest {
			deepest = f.Pos
		}
	}
	var allowed []c15Fail
	nonType := false
	for _, f := range w.fails {
		if f.Pos == deepest && f.Kind != "type" {
			nonType = true
		}
	}
	for _, f := range w.fails {
		if f.Pos == deepest && (!nonType || f.Kind != "type") {
			allowed = append(allowed, f)
		}
	}
	got := c15Fail{Kind: out.ErrKind, Text: out.ErrText, Exp: out.Expected, Found: out.Found}
	match := func(fs []c15Fail) bool {
		for _, f := range fs {
			if f.Kind == got.Kind && f.Text == got.Text && f.Exp == got.Exp && f.Found == got.Found {
				return true
			}
		}
		return false
	}
	if !match(allowed) {
		switch {
		case match(w.fails):
			fail("not-deepest", "reported: "+out.Msg+" — a real failure, but not the deepest / preferred one: "+c15List(allowed))
		default:
			isStep := false
			for _, s := range p.Steps {
				st := s
				if st.Kind == StDesc {
					if got.Text == ".." {
						isStep = true
					}
					st = st.Inner
				}
				if st.Text == got.Text {
					isStep = true
				}
			}
			for _, f := range p.Fns {
				if f.Text == got.Text {
					isStep = true
				}
			}
			if !isStep {
				fail("not-a-step", "reported: "+out.Msg+" — `"+got.Text+"` is not a step of the path as written; failures that occur: "+c15List(allowed))
			} else {
				fail("no-such-failure", "reported: "+out.Msg+" — no branch fails like that; failures that occur at the deepest position: "+c15List(allowed))
			}
		}
	}
	if len(allowed) == 1 {
		rec.Tags = append(rec.Tags, "oracle:exact")
	} else {
		rec.Tags = append(rec.Tags, "oracle:candidate-set")
	}
	if len(w.fails) > 1 {
		rec.Tags = append(rec.Tags, "failures:several")
	}
	if w.nFilter > 0 {
		rec.Tags = append(rec.Tags, "walk:through-filter")
	}
	if long {
		if (deepest-1)/2+1 > 65 {
			rec.Tags = append(rec.Tags, "long-path:deepest-failure-beyond-step-65")
		}
		rec.Key = "long/" + out.ErrKind + "/" + fmt.Sprint(deepest, len(allowed) == 1, jn)
		return rec
	}
	rec.Tags = append(rec.Tags, fmt.Sprintf("deepest-at:%d/%d", (deepest-1)/2+1, len(p.Steps)+len(p.Fns)))
	rec.Key = shapeKey(p) + "/" + out.ErrKind + "/" + fmt.Sprint(deepest, len(allowed) == 1, jn)
	return rec
}

// c15LongCase (one case in 40): a path of 70..120 steps, all of them name / single-index steps except one
// multi-branch step (wildcard, union, slice, multi-name list, filter) over 2..6 branches; every branch is a
// chain the remaining steps follow down to its own depth, where it breaks (a scalar, null, an empty or
// unrelated container: type mismatch or missing member) — most breaks lie beyond step 65, at different depths,
// in no particular order; now and then one branch goes all the way.
func c15LongCase(r *Rng) (interface{}, *Path) {
	n := r.Range(70, 120)
	steps := LongSteps(r, n)
	var b int
	switch r.Weighted([]int{60, 25, 15}) {
	case 0:
		b = r.Range(0, 3)
	case 1:
		b = r.Range(4, 40)
	default:
		b = r.Range(60, n-3)
	}
	nb := r.Range(2, 6)
	rest := steps[b+1:]
	subs := make([]interface{}, nb)
	for k := range subs {
		var upto int
		switch {
		case r.Chance(4):
			upto = len(rest) // this branch succeeds
		case len(rest) > 2 && r.Chance(75):
			lo := 66 - b
			if lo < 0 {
				lo = 0
			}
			if lo > len(rest)-1 {
				lo = len(rest) - 1
			}
			upto = r.Range(lo, len(rest)-1) // breaks beyond step 65
		default:
			upto = r.Range(0, len(rest)-1)
		}
		var leaf interface{}
		switch r.Weighted([]int{35, 10, 20, 15, 20}) {
		case 0:
			leaf = GenScalar(r)
		case 1:
			leaf = nil
		case 2:
			leaf = map[string]interface{}{}
			if r.Chance(60) {
				leaf = map[string]interface{}{"zz": GenScalar(r)}
			}
		case 3:
			leaf = []interface{}{}
		default:
			leaf = "end"
		}
		subs[k] = DeepDoc(r, rest, upto, leaf)
	}
	var container interface{}
	var bs *Step
	if r.Chance(55) {
		container = subs
		switch r.Weighted([]int{35, 30, 15, 20}) {
		case 0:
			bs = &Step{Kind: StWild, Bracket: r.Chance(60)}
		case 1:
			idx := make([]Sub, nb)
			for k := range idx {
				idx[k] = Sub{Kind: SubIdx, N: int64(k)}
				if r.Chance(25) {
					idx[k].N = int64(k - nb)
				}
			}
			r.Shuffle(nb, func(x, y int) { idx[x], idx[y] = idx[y], idx[x] })
			if r.Chance(30) {
				idx = append(idx, Sub{Kind: SubIdx, N: int64(r.Intn(nb))})
			}
			bs = &Step{Kind: StUnion, Subs: idx}
		case 2:
			sl := Sub{Kind: SubSlice}
			if r.Chance(50) {
				t := int64(-1)
				sl.T = &t
			}
			bs = &Step{Kind: StUnion, Subs: []Sub{sl}}
		default:
			bs = &Step{Kind: StFilter, Q: &Query{Kind: QExist, P: &Path{Head: HeadCur}}}
		}
	} else {
		m := map[string]interface{}{}
		keys := append([]string{}, BaseKeys...)
		keys = append(keys, "e", "f")
		r.Shuffle(len(keys), func(x, y int) { keys[x], keys[y] = keys[y], keys[x] })
		for k := range subs {
			m[keys[k]] = subs[k]
		}
		container = m
		switch r.Weighted([]int{40, 40, 20}) {
		case 0:
			bs = &Step{Kind: StWild, Bracket: r.Chance(40)}
		case 1:
			names := make([]Name, 0, nb+2)
			for k := 0; k < nb; k++ {
				names = append(names, Name{Key: keys[k]})
			}
			if r.Chance(40) {
				names = append(names, Name{Key: "none"})
			}
			r.Shuffle(len(names), func(x, y int) { names[x], names[y] = names[y], names[x] })
			if len(names) < 2 {
				names = append(names, Name{Key: "none"})
			}
			bs = &Step{Kind: StMulti, Names: names}
		default:
			bs = &Step{Kind: StFilter, Q: &Query{Kind: QExist, P: &Path{Head: HeadCur}}}
		}
	}
	doc := DeepDoc(r, steps, b, container)
	all := append(append(append([]*Step{}, steps[:b]...), bs), rest...)
	p := &Path{Head: HeadRoot, Steps: all}
	if r.Chance(10) {
		p.Fns = []Fn{{Name: FilterFns[r.Weighted([]int{40, 30, 30, 0, 0})]}}
	}
	return doc, p
}

func c15List(fs []c15Fail) string {
	seen := map[string]bool{}
	var parts []string
	for _, f := range fs {
		s := fmt.Sprintf("@%d %s", f.Pos, f.String())
		if !seen[s] {
			seen[s] = true
			parts = append(parts, s)
		}
	}
	sort.Strings(parts)
	if len(parts) > 8 {
		parts = append(parts[:8], "…")
	}
	return strings.Join(parts, "; ")
}
