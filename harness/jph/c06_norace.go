//go:build !race

package jph

// c06Race: this binary was built without the race detector.
const c06Race = false
