package jph

import (
	"errors"
	"strings"
	"sync"

	"github.com/AsaiYusuke/jsonpath"
)

// The fixed registry of user functions; mirrors lean/JPV/Registry.lean exactly.

var errFn = errors.New("fail")

func fnID(v interface{}) (interface{}, error) { return v, nil }
func fnTwice(v interface{}) (interface{}, error) {
	if f, ok := v.(float64); ok {
		return 2 * f, nil
	}
	return nil, errFn
}
func fnWrap(v interface{}) (interface{}, error)    { return []interface{}{v}, nil }
func fnFailAll(v interface{}) (interface{}, error) { return nil, errFn }
func fnFailOdd(v interface{}) (interface{}, error) {
	if f, ok := v.(float64); ok {
		if int64(f)%2 != 0 {
			return nil, errFn
		}
	}
	return v, nil
}

func agCount(vs []interface{}) (interface{}, error) { return float64(len(vs)), nil }
func agMax(vs []interface{}) (interface{}, error) {
	if len(vs) == 0 {
		return nil, errFn
	}
	var m float64
	for i, v := range vs {
		f, ok := v.(float64)
		if !ok {
			return nil, errFn
		}
		if i == 0 || f > m {
			m = f
		}
	}
	return m, nil
}
func agFirst(vs []interface{}) (interface{}, error) {
	if len(vs) == 0 {
		return nil, errFn
	}
	return vs[0], nil
}
func agList(vs []interface{}) (interface{}, error) {
	out := make([]interface{}, len(vs))
	copy(out, vs)
	return out, nil
}
func agFail(vs []interface{}) (interface{}, error) { return nil, errFn }

var filterImpl = map[string]func(interface{}) (interface{}, error){
	"id": fnID, "twice": fnTwice, "wrap": fnWrap, "failAll": fnFailAll, "failOdd": fnFailOdd,
}
var aggImpl = map[string]func([]interface{}) (interface{}, error){
	"count": agCount, "max": agMax, "first": agFirst, "list": agList, "failAgg": agFail,
}

// CallLog records the arguments user functions were called with (canonical text).
type CallLog struct {
	mu    sync.Mutex
	Calls []string
}

func (l *CallLog) add(s string) {
	l.mu.Lock()
	l.Calls = append(l.Calls, s)
	l.mu.Unlock()
}

func (l *CallLog) String() string { return strings.Join(l.Calls, " ; ") }

// Config builds a configuration with the whole registry; log may be nil.
func Config(accessor bool, log *CallLog) jsonpath.Config {
	c := jsonpath.Config{}
	for name, f := range filterImpl {
		name, f := name, f
		if log == nil {
			c.SetFilterFunction(name, f)
		} else {
			c.SetFilterFunction(name, func(v interface{}) (interface{}, error) {
				log.add(name + "(" + ValSexp(v) + ")")
				return f(v)
			})
		}
	}
	for name, f := range aggImpl {
		name, f := name, f
		if log == nil {
			c.SetAggregateFunction(name, f)
		} else {
			c.SetAggregateFunction(name, func(vs []interface{}) (interface{}, error) {
				log.add(name + "[" + ValsSexp(vs) + "]")
				return f(vs)
			})
		}
	}
	AddDecoys(&c)
	if accessor {
		c.SetAccessorMode()
	}
	return c
}

// AddDecoys registers, AFTER the real functions and with the OTHER kind, names that differ from the registry's only in
// case. No generated path mentions them, so they must never run: a Config that aliases or case-folds names would call
// them (their result is a marker no oracle expects).
func AddDecoys(c *jsonpath.Config) {
	for name := range filterImpl {
		name := name
		up := strings.ToUpper(name[:1]) + name[1:]
		c.SetAggregateFunction(up, func(vs []interface{}) (interface{}, error) { return "DECOY:" + up, nil })
		c.SetFilterFunction(strings.ToUpper(name), func(v interface{}) (interface{}, error) { return "DECOY:" + name, nil })
	}
	for name := range aggImpl {
		name := name
		up := strings.ToUpper(name[:1]) + name[1:]
		c.SetFilterFunction(up, func(v interface{}) (interface{}, error) { return "DECOY:" + up, nil })
		c.SetAggregateFunction(strings.ToUpper(name), func(vs []interface{}) (interface{}, error) { return "DECOY:" + name, nil })
	}
}

// ConfigScramble is Config(accessor, nil) whose aggregate functions overwrite the slice they were
// handed after computing their result: a library that hands a user function memory it does not own
// (the caller's array, the pooled buffer) then shows a modified document / modified earlier results.
func ConfigScramble(accessor bool) jsonpath.Config {
	c := Config(accessor, nil)
	for name, f := range aggImpl {
		f := f
		c.SetAggregateFunction(name, func(vs []interface{}) (interface{}, error) {
			r, err := f(vs)
			for i := range vs {
				vs[i] = "SCRAMBLED"
			}
			return r, err
		})
	}
	return c
}
