package jph

import (
	"fmt"
	"sort"
	"strconv"
	"strings"
	"sync"
	"time"

	"github.com/AsaiYusuke/jsonpath"
)

// Round-10 helpers (b15): two model-free probes shared by C01, C03, C07, C08, C09, C11.
//
// (1) OVERLAP PROBE (b15Overlap). One path that calls the harness filter function `hold` (identity)
//     somewhere — after a fan-out step or inside a filter operand — is parsed ONCE. Optionally the
//     parsed function is warmed up on a third, longer document. Then it is evaluated on document A,
//     and at the k-th call of `hold` during that evaluation the SAME parsed function is evaluated
//     on document B (another size, other keys, other scalars) to completion, after which A goes on:
//       - variant `reent`:    B is evaluated inside the user function (one goroutine);
//       - variant `threaded`: A runs in a goroutine of its own and really blocks in the user function
//                             (channels) while another goroutine evaluates B, then A is released.
//     Afterwards B and A are evaluated once more on the same document objects.
//     Oracle: every one of these outcomes equals the outcome of a FRESH Parse + call of the same path on
//     that document alone (an evaluation depends on its argument only), in the canonical form of C05
//     (values in order / error kind and message).
//
// (2) K-TH-CALL FAULT PROBE (b15Fault). `hold` returns an ERROR — or panics — on exactly its k-th call
//     (k >= 2: something was collected already) under every fan-out kind over arrays AND objects
//     (wildcards, unions with repeated / overlapping subscripts, multi-name lists with repeats,
//     slices, `..`, filters, functions in filter operands). Oracles for the faulting evaluation:
//       - drop-kth (function last on the main path): the result is the quiet result without its k-th
//         element, the function was called once per selected value, in order;
//       - one-by-one (unions, multi-name lists): equal to evaluating the single selectors one after the
//         other with the SAME counting function (results concatenated, a failing call contributes
//         nothing), same call sequence;
//       - value-determined (the k-th argument occurs once): equal to a fresh evaluation with a function
//         that fails on that VALUE (no history);
//       - panic: the panic reaches the caller after exactly k calls.
//     Then follow-ups: the same parsed function on the same and on another document (twice), and other
//     paths with nested object traversals (`$.*.*`, `$[?(@)].*`, `$.*[?(@ > 0)]`, `$..*` …) — each must
//     answer what a quiet process answers (answer recorded before the fault + the answer computed from
//     the document in Go for the nested traversals).
//
// Every evaluation runs under a watchdog: a stage that makes no progress for b15Limit (+ b15Grace on a
// loaded machine) is reported as a hang, the worker is given up (Record.Poison).

const b15Fn = "hold"
const b15PanicMsg = "b15: user function panics on purpose at its k-th call"
const b15Limit = 5 * time.Second
const b15Grace = 9 * time.Second

// b15Watch runs body in a goroutine; body announces what it is about to do through stage(). Returns
// the stage that made no progress for b15Limit+b15Grace ("" = body returned), and whether some stage
// took longer than b15Limit but came back.
func b15Watch(body func(stage func(string))) (hungAt string, slow bool) {
	var mu sync.Mutex
	cur, tick := "start", 0
	done := make(chan struct{})
	go func() {
		defer close(done)
		body(func(s string) { mu.Lock(); cur = s; tick++; mu.Unlock() })
	}()
	last, since := -1, time.Now()
	for {
		select {
		case <-done:
			return "", slow
		case <-time.After(100 * time.Millisecond):
		}
		mu.Lock()
		t, s := tick, cur
		mu.Unlock()
		if t != last {
			last, since = t, time.Now()
			continue
		}
		if d := time.Since(since); d > b15Limit+b15Grace {
			return s, true
		} else if d > b15Limit {
			slow = true
		}
	}
}

// ---------- documents ----------

var b15Base = map[string]float64{"a": 100, "b": 200, "w": 300, "c": 400}

func b15Leaf(tag string, i int, num bool) interface{} {
	if num {
		return b15Base[tag] + float64(i+1)
	}
	return tag + strconv.Itoa(i)
}

// b15Key: member names; shared names k0,k1,… or names of the document's own (a: k…, b: m…, w: n…).
func b15Key(tag string, i int, shared bool) string {
	if shared {
		return "k" + strconv.Itoa(i)
	}
	p := map[string]string{"a": "k", "b": "m", "w": "n", "c": "o"}[tag]
	return p + strconv.Itoa(i)
}

// b15Seq: an array / object of n members; wrapV: every member is {"v": leaf, "id": i}.
func b15Seq(tag string, n int, obj, num, wrapV, sharedKeys bool) interface{} {
	member := func(i int) interface{} {
		if wrapV {
			return map[string]interface{}{"v": b15Leaf(tag, i, num), "id": float64(i)}
		}
		return b15Leaf(tag, i, num)
	}
	if obj {
		m := map[string]interface{}{}
		for i := 0; i < n; i++ {
			m[b15Key(tag, i, sharedKeys)] = member(i)
		}
		return m
	}
	a := make([]interface{}, n)
	for i := range a {
		a[i] = member(i)
	}
	return a
}

// ---------- path families ----------

type b15Shape struct {
	fam     string
	path    string
	mk      func(tag string, n int) interface{}
	tail    bool     // `hold` is the last thing on the main path (one result per call)
	singles []string // unions / multi-name lists: the single selectors, each followed by the function
	minN    int
}

var b15Families = []string{"arr-wild", "obj-wild", "union", "multi-name", "slice", "desc-name", "desc-other", "filter", "fn-in-cur-operand", "fn-in-root-operand", "nested"}

// per property: weights of the families above
var b15Weights = map[string][]int{
	"C01": {8, 8, 8, 6, 22, 8, 6, 8, 8, 8, 10},
	"C03": {10, 10, 10, 6, 22, 8, 6, 8, 6, 6, 8},
	"C07": {4, 26, 2, 14, 2, 10, 8, 10, 8, 4, 12},
	"C08": {8, 8, 22, 10, 8, 16, 10, 6, 4, 2, 6},
	"C09": {2, 2, 2, 2, 2, 2, 2, 14, 30, 36, 6},
	"C11": {4, 0, 24, 0, 52, 0, 10, 0, 0, 0, 10},
}

func b15OptBound(r *Rng, lo, hi int) string {
	if r.Chance(35) {
		return ""
	}
	return strconv.Itoa(r.Range(lo, hi))
}

func b15SliceText(r *Rng) string {
	s, e := b15OptBound(r, -4, 3), b15OptBound(r, -3, 6)
	if r.Chance(45) {
		// the last few elements / the first few
		if r.Chance(70) {
			s, e = strconv.Itoa(-r.Range(1, 4)), ""
		} else {
			s, e = "", strconv.Itoa(r.Range(1, 4))
		}
	}
	switch r.Weighted([]int{50, 12, 12, 16, 10}) {
	case 1:
		return s + ":" + e + ":1"
	case 2:
		return s + ":" + e + ":2"
	case 3:
		// negative step: from the end downwards
		return e + ":" + s + ":-1"
	case 4:
		return e + ":" + s + ":-2"
	}
	return s + ":" + e
}

func b15Draw(r *Rng, fam int) b15Shape {
	sh := b15Shape{fam: b15Families[fam], minN: 2}
	F := "." + b15Fn + "()"
	num := r.Chance(60)
	under := func(prefix string, mk func(tag string, n int) interface{}) (string, func(tag string, n int) interface{}) {
		// the container at the root, or under $.p next to a decoy
		if prefix != "" {
			return prefix, mk
		}
		if r.Chance(30) {
			return "$.p", func(tag string, n int) interface{} {
				return map[string]interface{}{"p": mk(tag, n), "q": b15Leaf(tag, 99, num)}
			}
		}
		return "$", mk
	}
	switch fam {
	case 0: // wildcard over an array
		wrap := r.Chance(30)
		pre, mk := under("", func(tag string, n int) interface{} { return b15Seq(tag, n, false, num, wrap, false) })
		sh.path, sh.mk, sh.tail = pre+"[*]"+pick(wrap, ".v", "").(string)+F, mk, true
	case 1: // wildcard over an object
		wrap := r.Chance(30)
		pre, mk := under("", func(tag string, n int) interface{} { return b15Seq(tag, n, true, num, wrap, false) })
		sh.path, sh.mk, sh.tail = pre+pick(r.Chance(80), ".*", "[*]").(string)+pick(wrap, ".v", "").(string)+F, mk, true
	case 2: // union: repeated and overlapping subscripts
		pre, mk := under("", func(tag string, n int) interface{} { return b15Seq(tag, n, false, num, false, false) })
		ns := r.Range(2, 5)
		var subs []string
		for j := 0; j < ns; j++ {
			switch {
			case j > 0 && r.Chance(35):
				subs = append(subs, subs[r.Intn(len(subs))]) // the same element again
			case r.Chance(25):
				subs = append(subs, b15SliceText(r))
			case r.Chance(8):
				subs = append(subs, "*")
			default:
				subs = append(subs, strconv.Itoa(r.Range(-3, 4)))
			}
		}
		sh.path, sh.mk, sh.tail = pre+"["+strings.Join(subs, ",")+"]"+F, mk, true
		for _, s := range subs {
			sh.singles = append(sh.singles, pre+"["+s+"]"+F)
		}
	case 3: // multi-name list with repeats (names shared by the documents)
		pre, mk := under("", func(tag string, n int) interface{} { return b15Seq(tag, n, true, num, false, true) })
		ns := r.Range(2, 5)
		var names []string
		for j := 0; j < ns; j++ {
			if j > 0 && r.Chance(35) {
				names = append(names, names[r.Intn(len(names))])
			} else {
				names = append(names, "'k"+strconv.Itoa(r.Intn(6))+"'")
			}
		}
		sh.path, sh.mk, sh.tail = pre+"["+strings.Join(names, ",")+"]"+F, mk, true
		for _, s := range names {
			sh.singles = append(sh.singles, pre+"["+s+"]"+F)
		}
	case 4: // one slice
		wrap := r.Chance(20)
		pre, mk := under("", func(tag string, n int) interface{} { return b15Seq(tag, n, false, num, wrap, false) })
		sh.path, sh.mk, sh.tail = pre+"["+b15SliceText(r)+"]"+pick(wrap, ".v", "").(string)+F, mk, true
	case 5: // `..name`
		sh.path, sh.tail = "$..a"+F, true
		deep := r.Chance(50)
		sh.mk = func(tag string, n int) interface{} {
			m := map[string]interface{}{"a": b15Leaf(tag, 0, num)}
			for i := 1; i < n; i++ {
				c := map[string]interface{}{"a": b15Leaf(tag, i, num)}
				if deep && (tag != "a" || i%2 == 0) {
					c["x"] = map[string]interface{}{"a": b15Leaf(tag, 10+i, num)}
				}
				m[b15Key(tag, i, false)] = c
			}
			return m
		}
	case 6: // `..` followed by a wildcard, a slice, an index
		tails := []string{"..*", "..[*]", "..[" + b15SliceText(r) + "]", "..[0]", "..[-1]", "..[0,0]"}
		if r.Chance(40) {
			tails = tails[2:3]
		}
		sh.path, sh.tail = "$"+r.Pick(tails)+F, true
		sh.mk = func(tag string, n int) interface{} {
			// arrays of different lengths inside arrays / objects
			inner := func(i, l int) interface{} { return b15Seq(tag+strconv.Itoa(i), l, false, false, false, false) }
			if tag == "b" || r.Chance(50) {
				a := make([]interface{}, n)
				for i := range a {
					a[i] = inner(i, 1+(i+n)%4)
				}
				return a
			}
			m := map[string]interface{}{}
			for i := 0; i < n; i++ {
				m[b15Key(tag, i, false)] = inner(i, 1+(i+n)%4)
			}
			return m
		}
	case 7: // a filter, then the function
		obj := r.Chance(50)
		conds := []string{"@.v > 0", "@", "@.v", "@.id >= 0", "@.v != 'zz'", "@.id != 1"}
		c := r.Pick(conds)
		pre, mk := under("", func(tag string, n int) interface{} { return b15Seq(tag, n, obj, true, true, false) })
		sh.path, sh.mk, sh.tail = pre+"[?("+c+")]"+pick(r.Chance(40), ".v", "").(string)+F, mk, true
	case 8: // the function inside an `@` operand: one call per member
		obj := r.Chance(50)
		conds := []string{"@.v.F() > 0", "@.v.F()", "@.v.F() != 0", "0 < @.v.F()", "@.v.F() > 0 || @.id > 100", "@.id >= 0 && @.v.F() > 0", "@.v.F() >= $.lo"}
		c := strings.ReplaceAll(r.Pick(conds), ".F()", F)
		sh.mk = func(tag string, n int) interface{} {
			return map[string]interface{}{"p": b15Seq(tag, n, obj, true, true, false), "lo": b15Base[tag] + float64(1+n/2)}
		}
		sh.path = "$.p[?(" + c + ")]" + pick(r.Chance(40), ".v", "").(string)
	case 9: // the function inside a `$` operand
		forms := []string{"$.items[?(@.v > $.limit.F())]", "$.items[?($.limit.F() < @.v)]", "$.items[?(@.v <= $.limit.F())].v", "$.g.*[?(@.v > $.limit.F())]", "$.g[*][?(@.v > $.limit.F())].v",
			"$..[?(@.v > $.limit.F())].v", "$.items[?(@.v == $.items[1].v.F())]", "$.g.*[?(@.v > $.limit.F())].v.F()", "$.items[?(@.v > $.lims[0,1].F().max())].v"}
		sh.path = strings.ReplaceAll(r.Pick(forms), ".F()", F)
		sh.minN = 3
		sh.mk = func(tag string, n int) interface{} {
			items := func(off int) interface{} {
				a := make([]interface{}, n)
				for i := range a {
					a[i] = map[string]interface{}{"v": float64(10*(i+1) + off)}
				}
				return a
			}
			g := map[string]interface{}{}
			for j := 0; j < 2+n%3; j++ {
				g[b15Key(tag, j, false)] = items(j)
			}
			lim := float64(10*r.Range(0, n) + 5)
			return map[string]interface{}{"limit": lim, "lims": []interface{}{lim - 10, lim, 1.0}, "items": items(0), "g": g, "tag": tag}
		}
	default: // two fan-out steps
		forms := []string{"$.*.*", "$[*][*]", "$.*[" + b15SliceText(r) + "]", "$[*].*", "$.*[0,0,1]", "$.*[?(@ > 0)]", "$[?(@)].*", "$[*][" + b15SliceText(r) + "]"}
		f := r.Intn(len(forms))
		sh.path, sh.tail = forms[f]+F, true
		outerObj := f == 0 || f == 2 || f == 4 || f == 5 || (f == 6 && r.Chance(50))
		innerObj := f == 0 || f == 3 || ((f == 5 || f == 6) && r.Chance(50))
		sh.mk = func(tag string, n int) interface{} {
			// children of different sizes; leaves are numbers > 0, pairwise distinct
			inner := func(i int) interface{} {
				c := b15Seq(tag, 1+(i+n)%4, innerObj, true, false, false)
				switch t := c.(type) {
				case map[string]interface{}:
					for k, v := range t {
						t[k] = v.(float64) + float64(10*i)
					}
				case []interface{}:
					for k, v := range t {
						t[k] = v.(float64) + float64(10*i)
					}
				}
				return c
			}
			if outerObj {
				m := map[string]interface{}{}
				for i := 0; i < n; i++ {
					m[b15Key(tag, i, false)] = inner(i)
				}
				return m
			}
			a := make([]interface{}, n)
			for i := range a {
				a[i] = inner(i)
			}
			return a
		}
	}
	return sh
}

// ---------- the harness function ----------

// b15Hold: the filter function `hold`. Quiet: identity, logs its arguments. at > 0: at call number `at`
// (counted while armed) it disarms itself and runs `act` before returning its argument (overlap), or
// fails / panics (fault). failOn != "": fails on that VALUE (history-free reference).
type b15Hold struct {
	mu     sync.Mutex
	armed  bool
	calls  int
	at     int
	act    func()
	mode   string // "overlap" | "error" | "panic"
	failOn string
	log    []string
}

func (h *b15Hold) fn(v interface{}) (interface{}, error) {
	h.mu.Lock()
	text := ValSexp(v)
	if len(h.log) < 4096 {
		h.log = append(h.log, text)
	}
	fire := false
	if h.armed {
		h.calls++
		if h.calls == h.at {
			fire = true
			if h.mode == "overlap" {
				h.armed = false
			}
		}
	}
	mode, act, failOn := h.mode, h.act, h.failOn
	h.mu.Unlock()
	if failOn != "" && text == failOn {
		return nil, fmt.Errorf("b15: fails on this value")
	}
	if fire {
		switch mode {
		case "overlap":
			if act != nil {
				act()
			}
		case "error":
			return nil, fmt.Errorf("b15: fails on call %d only", h.at)
		case "panic":
			panic(b15PanicMsg)
		}
	}
	return v, nil
}

func (h *b15Hold) reset() { h.mu.Lock(); h.calls, h.log = 0, nil; h.mu.Unlock() }
func (h *b15Hold) logCopy() []string {
	h.mu.Lock()
	defer h.mu.Unlock()
	return append([]string(nil), h.log...)
}

func b15Config(acc bool, h *b15Hold) jsonpath.Config {
	cfg := Config(acc, nil)
	cfg.SetFilterFunction(b15Fn, h.fn)
	return cfg
}

// b15Alone: fresh Parse + call with the quiet function; the canonical outcome and the arguments of `hold`.
func b15Alone(path string, doc interface{}, acc bool) (string, []string, Outcome) {
	h := &b15Hold{}
	cfg := b15Config(acc, h)
	o := Run(path, doc, &cfg)
	return c05Canon(o), h.log, o
}

// ---------- entry ----------

// b15Case: one case of the classes `overlap-probe` / `kth-fault-probe` for property prop.
func b15Case(prop string, r *Rng) Record {
	ws := b15Weights[prop]
	if ws == nil {
		ws = b15Weights["C01"]
	}
	if r.Chance(50) {
		return b15Overlap(prop, r, ws)
	}
	return b15Fault(prop, r, ws)
}

func b15Hang(rec Record, what string) Record {
	rec.Viol = what
	rec.Class = "hang"
	rec.Poison = true
	rec.Key = "b15/hang"
	return rec
}

// ---------- (1) overlap probe ----------

func b15Overlap(prop string, r *Rng, ws []int) Record {
	fam := r.Weighted(ws)
	sh := b15Draw(r, fam)
	acc := r.Chance(12)
	nA := r.Range(sh.minN, 7)
	nB := r.Range(sh.minN, 7)
	for nB == nA {
		nB = r.Range(sh.minN, 8)
	}
	docA, docB := sh.mk("a", nA), sh.mk("b", nB)
	var warm interface{}
	if r.Chance(60) {
		n := nA
		if nB > n {
			n = nB
		}
		warm = sh.mk("w", n+r.Range(0, 3))
	}
	threaded := r.Chance(50)
	variant := pick(threaded, "threaded", "reent").(string)
	rec := Record{Text: sh.path, Doc: JSONText(docA), Tags: []string{"class:overlap-probe", "overlap-probe:fam-" + sh.fam, "overlap-probe:" + variant},
		Info: map[string]interface{}{"probe": "overlap", "variant": variant, "accessor": acc, "function": b15Fn + " (identity)", "docA": JSONText(docA), "docB": JSONText(docB)}}
	if warm != nil {
		rec.Info["warm_up_document"] = JSONText(warm)
		rec.Tags = append(rec.Tags, "overlap-probe:warmed-up")
	}
	aloneA, argsA, oA := b15Alone(sh.path, docA, acc)
	aloneB, _, oB := b15Alone(sh.path, docB, acc)
	if !oA.OK && (oA.ErrKind == "syntax" || oA.ErrKind == "argument" || oA.ErrKind == "notfound" || oA.ErrKind == "notsupported") {
		rec.Viol, rec.Class = "the probe path was rejected by Parse: "+oA.Msg, "parse-reject"
		return rec
	}
	if len(argsA) == 0 {
		rec.Tags = append(rec.Tags, "overlap-probe:function-not-reached")
		return rec
	}
	k := r.Range(1, len(argsA))
	rec.Info["k"] = k
	rec.Info["alone_A"], rec.Info["alone_B"] = clip(aloneA, 400), clip(aloneB, 400)
	rec.Tags = append(rec.Tags, pick(k == 1, "overlap-probe:k=1", "overlap-probe:k>=2").(string), pick(nA > nB, "overlap-probe:A-longer", "overlap-probe:B-longer").(string))
	rec.Key = fmt.Sprintf("b15/overlap/%s/%s/%v/%d/%d/%d", sh.path, variant, warm != nil, nA, nB, k)
	_ = oB

	h := &b15Hold{mode: "overlap", at: k}
	cfg := b15Config(acc, h)
	f, po := SafeParse(sh.path, &cfg)
	if f == nil {
		rec.Viol, rec.Class = "the probe path was rejected by Parse: "+po.Detail(), "parse-reject"
		return rec
	}
	var gotA, gotB, afterA, afterB, gotW string
	reached := false
	hungAt, slow := b15Watch(func(stage func(string)) {
		if warm != nil {
			stage("the warm-up evaluation")
			gotW = c05Canon(SafeCall(f, warm))
		}
		h.mu.Lock()
		h.armed, h.calls = true, 0
		h.mu.Unlock()
		if !threaded {
			act := func() {
				reached = true
				stage(fmt.Sprintf("the evaluation of document B inside call %d of `%s` during the evaluation of document A", k, b15Fn))
				gotB = c05Canon(SafeCall(f, docB))
				stage(fmt.Sprintf("the rest of the evaluation of document A after call %d of `%s`", k, b15Fn))
			}
			h.mu.Lock()
			h.act = act
			h.mu.Unlock()
			stage("the evaluation of document A")
			gotA = c05Canon(SafeCall(f, docA))
		} else {
			entered, release := make(chan struct{}), make(chan struct{})
			h.mu.Lock()
			h.act = func() { close(entered); <-release }
			h.mu.Unlock()
			doneA := make(chan string, 1)
			stage("the evaluation of document A (goroutine 1)")
			go func() { doneA <- c05Canon(SafeCall(f, docA)) }()
			select {
			case <-entered:
				reached = true
				stage(fmt.Sprintf("the evaluation of document B (goroutine 2) while goroutine 1 is blocked inside call %d of `%s` during the evaluation of document A", k, b15Fn))
				gotB = c05Canon(SafeCall(f, docB))
				stage(fmt.Sprintf("the rest of the evaluation of document A (goroutine 1) after it was released from call %d of `%s`", k, b15Fn))
				close(release)
				gotA = <-doneA
			case gotA = <-doneA:
			}
		}
		h.mu.Lock()
		h.armed = false
		h.mu.Unlock()
		if !reached {
			stage("the evaluation of document B after A")
			gotB = c05Canon(SafeCall(f, docB))
		}
		stage("the second evaluation of document B (after the overlap)")
		afterB = c05Canon(SafeCall(f, docB))
		stage("the second evaluation of document A (after the overlap)")
		afterA = c05Canon(SafeCall(f, docA))
	})
	where := fmt.Sprintf("%s parsed once%s; document A = %s, document B = %s; overlap (%s) at call %d of `%s` during the evaluation of A", sh.path,
		pick(warm != nil, " and called once on "+clip(JSONText(warm), 200), "").(string), clip(JSONText(docA), 300), clip(JSONText(docB), 300), variant, k, b15Fn)
	if hungAt != "" {
		return b15Hang(rec, fmt.Sprintf("no answer within %v from %s [%s]", b15Limit+b15Grace, hungAt, where))
	}
	if slow {
		rec.Tags = append(rec.Tags, "overlap-probe:slow-but-returned")
	}
	if !reached {
		rec.Viol = fmt.Sprintf("`%s` was called %d times when %s was evaluated alone on document A, but call %d was not reached by the parsed function under test [%s]", b15Fn, len(argsA), sh.path, k, where)
		rec.Class = "overlap-differs"
		return rec
	}
	_ = gotW
	check := func(what, got, want string) {
		if rec.Viol == "" && got != want {
			rec.Viol = fmt.Sprintf("%s answers %s; a fresh Parse + call of the same path on that document alone answers %s [%s]", what, clip(got, 400), clip(want, 400), where)
			rec.Class = "overlap-differs"
		}
	}
	check("the overlapped evaluation of document A", gotA, aloneA)
	check("the evaluation of document B made while A was suspended", gotB, aloneB)
	check("the evaluation of document B after the overlap", afterB, aloneB)
	check("the evaluation of document A after the overlap", afterA, aloneA)
	return rec
}

// ---------- (2) k-th-call fault probe ----------

// b15Children: the members of a container in the library's order (arrays by index, objects by sorted key).
func b15Children(v interface{}) []interface{} {
	switch t := v.(type) {
	case []interface{}:
		return t
	case map[string]interface{}:
		out := make([]interface{}, 0, len(t))
		ks := make([]string, 0, len(t))
		for k := range t {
			ks = append(ks, k)
		}
		sort.Strings(ks)
		for _, k := range ks {
			out = append(out, t[k])
		}
		return out
	}
	return nil
}

// b15NestedDoc: an object (or array) of objects / arrays whose key sets differ; leaves are numbers > 0.
func b15NestedDoc(r *Rng) interface{} {
	n := r.Range(2, 5)
	outer := map[string]interface{}{}
	c := 0
	for i := 0; i < n; i++ {
		l := r.Range(1, 4)
		if r.Chance(75) {
			m := map[string]interface{}{}
			for j := 0; j < l; j++ {
				c++
				m[string(rune('p'+(c*5)%11))+strconv.Itoa(j)] = float64(c)
			}
			outer[string(rune('a'+(i*3)%7))+strconv.Itoa(i)] = m
		} else {
			a := make([]interface{}, l)
			for j := range a {
				c++
				a[j] = float64(c)
			}
			outer[string(rune('a'+(i*3)%7))+strconv.Itoa(i)] = a
		}
	}
	if r.Chance(20) {
		return b15Children(outer)
	}
	return outer
}

var b15NestedPaths = []string{"$.*.*", "$[?(@)].*", "$.*[?(@ > 0)]", "$[*][*]", "$..*", "$[?(@)][?(@)]", "$.*.*.count()"}

type b15Follow struct {
	path     string
	doc      interface{}
	f        Parsed
	before   string
	computed string // "" = no structural expectation
	nested   bool
}

func b15Fault(prop string, r *Rng, ws []int) Record {
	fam := r.Weighted(ws)
	sh := b15Draw(r, fam)
	acc := r.Chance(12)
	n := r.Range(sh.minN, 7)
	if sh.minN < 3 && n < 3 {
		n = 3
	}
	doc := sh.mk("a", n)
	mode := "error"
	pw := 30
	if prop == "C03" {
		pw = 55
	}
	if r.Chance(pw) {
		mode = "panic"
	}
	rec := Record{Text: sh.path, Doc: JSONText(doc), Tags: []string{"class:kth-fault-probe", "kth-fault-probe:fam-" + sh.fam, "kth-fault-probe:" + mode},
		Info: map[string]interface{}{"probe": "kth-fault", "fault": mode, "accessor": acc, "function": b15Fn + " (identity; " + mode + " on exactly its k-th call)"}}
	quiet, args, qo := b15Alone(sh.path, doc, acc)
	if !qo.OK && (qo.ErrKind == "syntax" || qo.ErrKind == "argument" || qo.ErrKind == "notfound" || qo.ErrKind == "notsupported") {
		rec.Viol, rec.Class = "the probe path was rejected by Parse: "+qo.Msg, "parse-reject"
		return rec
	}
	if len(args) < 2 {
		rec.Tags = append(rec.Tags, "kth-fault-probe:fewer-than-2-calls")
		return rec
	}
	k := r.Range(2, len(args))
	rec.Info["k"], rec.Info["quiet_answer"], rec.Info["quiet_calls"] = k, clip(quiet, 400), len(args)
	rec.Key = fmt.Sprintf("b15/fault/%s/%s/%d/%d", sh.path, mode, n, k)

	// follow-ups, answered in the quiet state first
	var fs []*b15Follow
	qcfg := Config(acc, nil)
	other := sh.mk("b", r.Range(sh.minN, 7))
	for j := 0; j < r.Range(2, 4); j++ {
		fw := &b15Follow{path: r.Pick(b15NestedPaths), doc: b15NestedDoc(r), nested: true}
		if j == 0 && r.Chance(50) {
			fw.path = r.Pick(b15QuietPathsExtra)
			fw.doc, fw.nested = other, false
		}
		if g, _ := SafeParse(fw.path, &qcfg); g != nil {
			fw.f = g
			fs = append(fs, fw)
		}
	}
	var ftexts []string
	for _, fw := range fs {
		fw.before = c05Canon(SafeCall(fw.f, fw.doc))
		switch fw.path {
		case "$.*.*", "$[?(@)].*", "$.*[?(@ > 0)]", "$[*][*]", "$[?(@)][?(@)]":
			var leaves []interface{}
			for _, c := range b15Children(fw.doc) {
				leaves = append(leaves, b15Children(c)...)
			}
			if !acc && fw.nested {
				fw.computed = "ok " + c05ResText(leaves)
			}
		}
		ftexts = append(ftexts, fw.path+"  on  "+clip(JSONText(fw.doc), 300))
		if fw.computed != "" && fw.before != fw.computed {
			rec.Viol = fmt.Sprintf("%s on %s answers %s, the members in document order are %s (before any fault was injected in this case; earlier cases of this worker process may have left state behind)", fw.path, clip(JSONText(fw.doc), 300), clip(fw.before, 300), clip(fw.computed, 300))
			rec.Class = "kth-fault"
			return rec
		}
	}
	rec.Info["followups"] = ftexts
	aloneOther, _, _ := b15Alone(sh.path, other, acc)

	h := &b15Hold{mode: mode, at: k}
	cfg := b15Config(acc, h)
	f, po := SafeParse(sh.path, &cfg)
	if f == nil {
		rec.Viol, rec.Class = "the probe path was rejected by Parse: "+po.Detail(), "parse-reject"
		return rec
	}
	where := fmt.Sprintf("%s on %s, `%s` %s on exactly its call %d of %d", sh.path, clip(JSONText(doc), 300), b15Fn, pick(mode == "panic", "panics", "returns an error").(string), k, len(args))
	var out Outcome
	var faultLog []string
	type ans struct{ what, got, want string }
	var later []ans
	hungAt, slow := b15Watch(func(stage func(string)) {
		stage("the evaluation in which the function fails")
		h.mu.Lock()
		h.armed, h.calls, h.log = true, 0, nil
		h.mu.Unlock()
		out = SafeCall(f, doc)
		faultLog = h.logCopy()
		// the function is quiet from now on (the counter is past k)
		ask := func(what string, g Parsed, d interface{}, want string) {
			stage(what + " after " + where)
			later = append(later, ans{what, c05Canon(SafeCall(g, d)), want})
		}
		order := make([]int, len(fs))
		for j := range order {
			order[j] = j
		}
		r.Shuffle(len(order), func(i, j int) { order[i], order[j] = order[j], order[i] })
		sameFirst := r.Chance(50)
		if sameFirst {
			ask("the next evaluation of the same parsed function on the same document", f, doc, quiet)
		}
		for _, j := range order {
			fw := fs[j]
			ask(fmt.Sprintf("the evaluation of %s on %s", fw.path, clip(JSONText(fw.doc), 300)), fw.f, fw.doc, fw.before)
		}
		if !sameFirst {
			ask("the next evaluation of the same parsed function on the same document", f, doc, quiet)
		}
		ask("the evaluation of the same parsed function on another document ("+clip(JSONText(other), 200)+")", f, other, aloneOther)
		ask("one more evaluation of the same parsed function on the same document", f, doc, quiet)
		for _, j := range order {
			fw := fs[j]
			ask(fmt.Sprintf("the second evaluation of %s on %s", fw.path, clip(JSONText(fw.doc), 300)), fw.f, fw.doc, fw.before)
		}
	})
	if hungAt != "" {
		return b15Hang(rec, fmt.Sprintf("no answer within %v from %s", b15Limit+b15Grace, hungAt))
	}
	if slow {
		rec.Tags = append(rec.Tags, "kth-fault-probe:slow-but-returned")
	}
	viol := func(format string, a ...interface{}) {
		if rec.Viol == "" {
			rec.Viol, rec.Class = fmt.Sprintf(format, a...), "kth-fault"
		}
	}
	got := c05Canon(out)
	rec.Info["faulting_answer"] = clip(got, 400)
	if mode == "panic" {
		if out.ErrKind != "panic" || !strings.HasPrefix(out.Panic, b15PanicMsg) {
			viol("%s: the panic of the caller's function did not reach the caller, the evaluation answers %s", where, clip(got, 300))
		} else if strings.Join(faultLog, " ; ") != strings.Join(args[:k], " ; ") {
			viol("%s: the function was called with %s before the panic reached the caller; evaluated alone with a quiet function its first %d calls are %s", where, clip(strings.Join(faultLog, " ; "), 300), k, clip(strings.Join(args[:k], " ; "), 300))
		}
		rec.Tags = append(rec.Tags, "kth-fault-probe:oracle-panic-after-k-calls")
	} else {
		if msg := c02CheckCall(out, acc); msg != "" {
			viol("%s: %s", where, msg)
		}
		if sh.tail && qo.OK && len(qo.Vals) == len(args) {
			// drop-kth
			rest := append(append([]interface{}{}, qo.Vals[:k-1]...), qo.Vals[k:]...)
			want := "ok " + c05ResText(rest)
			rec.Tags = append(rec.Tags, "kth-fault-probe:oracle-drop-kth")
			if got != want {
				viol("%s: the evaluation answers %s; the selected values in order, without the one whose call failed, are %s", where, clip(got, 300), clip(want, 300))
			}
		}
		if len(sh.singles) > 0 {
			// one by one with the same counting function
			h2 := &b15Hold{mode: mode, at: k, armed: true}
			cfg2 := b15Config(acc, h2)
			var cat []interface{}
			for _, sp := range sh.singles {
				if o := Run(sp, doc, &cfg2); o.OK {
					cat = append(cat, o.Vals...)
				}
			}
			rec.Tags = append(rec.Tags, "kth-fault-probe:oracle-one-by-one")
			if len(cat) > 0 {
				if want := "ok " + c05ResText(cat); got != want {
					viol("%s: the evaluation answers %s; its single selectors %s evaluated one after the other with the same counting function give %s", where, clip(got, 300), strings.Join(sh.singles, " , "), clip(want, 300))
				}
				if a, b := strings.Join(faultLog, " ; "), strings.Join(h2.log, " ; "); a != b {
					viol("%s: the function was called with [%s]; evaluating the single selectors %s one after the other calls it with [%s]", where, clip(a, 300), strings.Join(sh.singles, " , "), clip(b, 300))
				}
			}
		}
		if sh.tail && strings.Join(faultLog, " ; ") != strings.Join(args, " ; ") {
			viol("%s: the function was called with [%s]; evaluated alone with a quiet function it is called once per selected value, in order: [%s]", where, clip(strings.Join(faultLog, " ; "), 300), clip(strings.Join(args, " ; "), 300))
		}
		uniq := 0
		for _, a := range args {
			if a == args[k-1] {
				uniq++
			}
		}
		if uniq == 1 {
			h3 := &b15Hold{failOn: args[k-1]}
			cfg3 := b15Config(acc, h3)
			ref := Run(sh.path, doc, &cfg3)
			rec.Tags = append(rec.Tags, "kth-fault-probe:oracle-value-determined")
			// the error message of the user function differs by construction: compare values, or the kind of error
			a, b := got, c05Canon(ref)
			if !out.OK && !ref.OK {
				a, b = "err "+out.ErrKind+" "+out.ErrText, "err "+ref.ErrKind+" "+ref.ErrText
			}
			if a != b {
				viol("%s: the evaluation answers %s; a fresh evaluation in which the function fails on that VALUE (%s) answers %s", where, clip(got, 300), clip(args[k-1], 80), clip(c05Canon(ref), 300))
			}
			if x, y := strings.Join(faultLog, " ; "), strings.Join(h3.log, " ; "); x != y {
				viol("%s: the function was called with [%s]; in a fresh evaluation in which the function fails on that VALUE (%s) it is called with [%s]", where, clip(x, 300), clip(args[k-1], 80), clip(y, 300))
			}
		}
	}
	for _, l := range later {
		if l.got != l.want {
			viol("after %s (%s), %s answers %s; in a quiet process it answers %s", where, pick(mode == "panic", "recovered by the caller", "answer: "+clip(got, 120)).(string), l.what, clip(l.got, 300), clip(l.want, 300))
		}
	}
	return rec
}

var b15QuietPathsExtra = []string{"$.*", "$[*]", "$..*", "$[?(@)]", "$.*.*", "$[?(@)].*", "$[-2:]", "$[0,0]", "$..a", "$..v", "$.p.*", "$.items[*].v"}
