//go:build race

package jph

// c06Race: this binary was built with the race detector.
const c06Race = true
