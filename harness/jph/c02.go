package jph

import (
	"encoding/hex"
	"fmt"
	"hash/fnv"
	"regexp"
	"runtime/debug"
	"strings"
	"time"
	"unicode/utf8"

	"github.com/AsaiYusuke/jsonpath"
)

// C02 — Parse is total: any string yields a function or a documented syntax-check error.
//
// Model-free oracle on the real Parse / Retrieve, for every string and six configurations:
// the outcome is exactly (function, nil) or (nil, ErrorInvalidSyntax | ErrorInvalidArgument |
// ErrorFunctionNotFound | ErrorNotSupported); no panic, no (nil,nil), no (function, error),
// no other error type, no process death (reported by the framework as a crash finding), and
// every call returns within c02SlowLimit. The returned function is called on two small
// documents and must not panic; Retrieve must agree with Parse + call.

type c02 struct{}

func init() { Props["C02"] = c02{} }

const c02SlowLimit = 5 * time.Second

// c02TooSlow: the action took longer than the limit and still does when repeated (a busy
// machine can stall a process for seconds; only a reproducible delay counts).
func c02TooSlow(first time.Duration, again func()) (time.Duration, bool) {
	min := first
	for k := 0; k < 3 && min > c02SlowLimit; k++ {
		t := time.Now()
		again()
		if el := time.Since(t); el < min {
			min = el
		}
	}
	return min, min > c02SlowLimit
}

func (c02) Count(tier string) int {
	n := len(c02Enum())
	if tier == "thorough" {
		return n + 1000000
	}
	return n + 60000
}

type c02Cfg struct {
	name string
	cfg  *jsonpath.Config
	acc  bool
	dyn  bool
}

func c02Hash(s string) uint32 {
	h := fnv.New32a()
	h.Write([]byte(s))
	return h.Sum32()
}

// c02DynConfig registers the whole registry plus every function name the text mentions.
func c02DynConfig(s string, acc bool) *jsonpath.Config {
	c := Config(acc, nil)
	for _, name := range c02FnNames(s) {
		if _, ok := filterImpl[name]; ok {
			continue
		}
		if _, ok := aggImpl[name]; ok {
			continue
		}
		switch c02Hash(name) % 6 {
		case 0:
			c.SetFilterFunction(name, fnID)
		case 1:
			c.SetFilterFunction(name, fnFailAll)
		case 2:
			c.SetFilterFunction(name, fnWrap)
		case 3:
			c.SetAggregateFunction(name, agCount)
		case 4:
			c.SetAggregateFunction(name, agFail)
		case 5:
			c.SetAggregateFunction(name, agList)
		}
	}
	return &c
}

func c02Configs(s string) []c02Cfg {
	empty := jsonpath.Config{}
	accOnly := jsonpath.Config{}
	accOnly.SetAccessorMode()
	funcs := Config(false, nil)
	acc := Config(true, nil)
	out := c02ConfigsBase(s, &empty, &funcs, &acc, &accOnly)
	if names := c02FnNames(s); len(names) > 0 {
		out = append(out, c02Cfg{name: "both", cfg: c02BothConfig(names, c02Hash(s)%3 == 0), acc: c02Hash(s)%3 == 0, dyn: true})
	}
	return out
}

func c02ConfigsBase(s string, empty, funcs, acc, accOnly *jsonpath.Config) []c02Cfg {
	return []c02Cfg{
		{name: "none"},
		{name: "empty", cfg: empty},
		{name: "funcs", cfg: funcs},
		{name: "acc", cfg: acc, acc: true},
		{name: "acconly", cfg: accOnly, acc: true},
		{name: "dyn", cfg: c02DynConfig(s, c02Hash(s)%2 == 0), acc: c02Hash(s)%2 == 0, dyn: true},
	}
}

// c02Retrieve calls Retrieve under recover.
func c02Retrieve(path string, doc interface{}, cfg *jsonpath.Config) (out Outcome) {
	defer func() {
		if e := recover(); e != nil {
			out = Outcome{ErrKind: "panic", Panic: fmt.Sprintf("%v\n%s", e, debug.Stack())}
		}
	}()
	var vals []interface{}
	var err error
	if cfg != nil {
		vals, err = jsonpath.Retrieve(path, doc, *cfg)
	} else {
		vals, err = jsonpath.Retrieve(path, doc)
	}
	if err != nil {
		out = classify(err)
		if vals != nil {
			out.Both = true
		}
		return out
	}
	return Outcome{OK: true, Vals: vals}
}

func c02IsParseErr(k string) bool {
	return k == "syntax" || k == "argument" || k == "notfound" || k == "notsupported"
}

func c02IsRunErr(k string) bool { return k == "member" || k == "type" || k == "func" }

// c02CheckCall: the outcome of calling a parsed function is a non-empty result or one of the
// three runtime errors with a nil slice (C03's shape; here it establishes "usable function").
func c02CheckCall(o Outcome, acc bool) string {
	if o.ErrKind == "panic" {
		return "panic: " + clip(o.Panic, 600)
	}
	if o.OK {
		if len(o.Vals) == 0 {
			return "empty success (no result, nil error)"
		}
		if acc {
			for _, v := range o.Vals {
				a, ok := v.(jsonpath.Accessor)
				if !ok {
					return fmt.Sprintf("accessor mode returned a %T", v)
				}
				if a.Get == nil {
					return "accessor without Get"
				}
				if msg := c02SafeGet(a); msg != "" {
					return "Accessor.Get panicked: " + msg
				}
			}
		}
		return ""
	}
	if o.Both {
		return "result slice together with an error: " + o.Msg
	}
	if !c02IsRunErr(o.ErrKind) {
		return "undocumented runtime error " + o.ErrKind + ": " + o.Msg
	}
	return ""
}

func c02SafeGet(a jsonpath.Accessor) (msg string) {
	defer func() {
		if e := recover(); e != nil {
			msg = fmt.Sprint(e)
		}
	}()
	a.Get()
	return ""
}

var c02ProbeDocs = []string{
	`{"a":{"a":1,"b":[1,2]},"b":[{"a":1},{"a":2,"b":"x"}],"c":"s"}`,
	`[{"a":1,"b":2},{"a":[3]},[1,2,3],"a",1,null]`,
}

var c02PosRe = regexp.MustCompile(`^invalid syntax \(position=(\d+), reason=([^,]*),`)

func (c02) Exec(seed int64, i int, tier string) Record {
	r := CaseRng(seed, "C02", i)
	enum := c02Enum()
	if i >= len(enum) && (i-len(enum))%200 == 77 {
		return c02NestedCase(r)
	}
	if i >= len(enum) && (i-len(enum))%1500 == 333 {
		return c02HugeCase(r) // class huge (b12_helpers.go)
	}
	if i >= len(enum) && (i-len(enum))%25 == 19 {
		// class history-fault-probe (b16_probes.go): Retrieve with a user function that panics / errs at exactly its K-th call
		return b16C02(r, i)
	}
	var s, gen, wantRegex string
	if i < len(enum) {
		s, gen = enum[i], c02SectionOf(i)
	} else if (i-len(enum))%40 == 13 {
		s, gen, wantRegex = c02GenRegex(r) // class regex-syntax (b14_helpers.go)
	} else {
		switch r.Weighted([]int{12, 34, 22, 14, 8, 10, 3}) {
		case 0:
			s, _, _ = c02GenValid(r)
			gen = "valid"
		case 1:
			s, _, _, gen = c02GenMutant(r)
		case 2:
			s, gen = c02GenSoup(r), "soup"
		case 3:
			s, gen = c02GenUnicode(r), "unicode"
		case 4:
			s, gen = c02GenNest(r), "nest"
		case 5:
			s, gen = c02GenNumber(r), "number"
		case 6:
			s, gen = c02GenLong(r)
		}
	}
	rec := Record{Text: s, Tags: []string{"gen:" + gen}, Info: map[string]interface{}{}}
	if !utf8.ValidString(s) {
		rec.Info["hex"] = hex.EncodeToString([]byte(s))
		rec.Tags = append(rec.Tags, "input:invalid-utf8")
	}
	viol := func(class, format string, args ...interface{}) {
		if rec.Viol == "" {
			rec.Viol = fmt.Sprintf(format, args...) + fmt.Sprintf(" [input %q]", s)
			rec.Class = class
		}
	}
	var outs []string
	trivial := true
	for _, c := range c02Configs(s) {
		t0 := time.Now()
		f, out := SafeParse(s, c.cfg)
		if el, slow := c02TooSlow(time.Since(t0), func() { SafeParse(s, c.cfg) }); slow {
			viol("slow", "config %s: Parse took %v", c.name, el)
		}
		kind := out.ErrKind
		switch {
		case out.ErrKind == "panic":
			viol("parse-panic", "config %s: Parse panicked: %s", c.name, clip(out.Panic, 600))
		case out.NilNil:
			viol("nilnil", "config %s: Parse returned (nil, nil)", c.name)
		case out.Both:
			viol("both", "config %s: Parse returned a function together with the error %s", c.name, out.Msg)
		case out.OK:
			kind = "ok"
		case !c02IsParseErr(out.ErrKind):
			viol("error-type", "config %s: Parse returned an undocumented error type %s: %s", c.name, out.ErrKind, out.Msg)
		}
		if kind == "notfound" && c.dyn {
			viol("notfound-registered", "config "+c.name+" registers every function name in the text, yet: %s", out.Msg)
		}
		if kind == "notfound" && len(c02FnNames(s)) == 0 {
			viol("notfound-nofunction", "config %s: function-not-found for a text without any `.name()`: %s", c.name, out.Msg)
		}
		pos := -1
		if m := c02PosRe.FindStringSubmatch(out.Msg); m != nil {
			fmt.Sscan(m[1], &pos)
			if c.name == "funcs" {
				rec.Tags = append(rec.Tags, "reason:"+strings.Fields(m[2] + " ?")[0])
			}
		}
		if !(kind == "syntax" && pos == 0) {
			trivial = false
		}
		outs = append(outs, kind)
		if c.name == "none" || c.name == "funcs" {
			rec.Tags = append(rec.Tags, c.name+":"+kind)
		}
		// the returned function is usable; Retrieve agrees with Parse + call
		for di, text := range c02ProbeDocs {
			doc, _ := c02Decode(text)
			var co Outcome
			if f != nil {
				t1 := time.Now()
				co = SafeCall(f, doc)
				if el, slow := c02TooSlow(time.Since(t1), func() { d, _ := c02Decode(text); SafeCall(f, d) }); slow {
					viol("slow", "config %s: the parsed function took %v", c.name, el)
				}
				if msg := c02CheckCall(co, c.acc); msg != "" {
					viol("call", "config %s: calling the parsed function on %s: %s", c.name, text, msg)
				}
				if c.name == "funcs" && di == 0 {
					rec.Tags = append(rec.Tags, "call:"+pick(co.OK, "ok", co.ErrKind).(string))
				}
			}
			doc2, _ := c02Decode(text)
			ro := c02Retrieve(s, doc2, c.cfg)
			switch {
			case ro.ErrKind == "panic":
				viol("retrieve-panic", "config %s: Retrieve panicked on %s: %s", c.name, text, clip(ro.Panic, 600))
			case f == nil:
				if ro.OK || ro.ErrKind != out.ErrKind || ro.Msg != out.Msg || ro.Both {
					viol("retrieve-differs", "config %s: Parse failed with %q but Retrieve gave %s", c.name, out.Msg, clip(ro.Detail(), 300))
				}
			default:
				if ro.OK != co.OK || ro.ErrKind != co.ErrKind || ro.Msg != co.Msg || len(ro.Vals) != len(co.Vals) || ro.Both {
					viol("retrieve-differs", "config %s: Parse+call gave %s but Retrieve gave %s", c.name, clip(co.Detail(), 300), clip(ro.Detail(), 300))
				}
			}
		}
	}
	if msg := c02RegexVerdict(wantRegex, c02Configs(s), outs); msg != "" {
		viol("regex-syntax", "%s", msg)
	}
	rec.Info["outcomes"] = strings.Join(outs, ",")
	if !trivial {
		rec.Key = c02Skeleton(s, 16) + "/" + strings.Join(outs, ",")
	} else {
		rec.Tags = append(rec.Tags, "trivial")
	}
	return rec
}

// ---------- class nested-call: a user function calls back into the library ----------
//
// One random case in 200. jsonpath.Retrieve(path, document, config) where a filter function (`look`)
// and / or an aggregate function (`lookAll`) of the config itself calls jsonpath.Retrieve or
// jsonpath.Parse (a lookup in another document, parsing a path stored in the data …) before
// returning — `look` returns its argument, `lookAll` the number of its arguments. Retrieve must
// return (within c02NestedLimit; it is run in a goroutine), with a result or a documented runtime
// error, and agree with Parse + call under the same config. A call that does not return is reported
// as a finding of class "hang"; the worker process is then given up (Record.Poison), because a lock
// of the library is presumably still held.
const c02NestedLimit = 3 * time.Second
const c02NestedGrace = 12 * time.Second // a deadlock never returns; a loaded machine does, late

var c02NestedPaths = []string{"$.a.look()", "$[*].look()", "$..a.look()", "$.b[?(@.a.look() == 1)]", "$.b[?(@.a.look())].a", "$.*.lookAll()", "$..a.lookAll()",
	"$[?(@.lookAll() > 1)]", "$.a.a.look().twice()", "$.b[*].a.look().lookAll()", "$[?(@.a == $[0].a.look())]", "$.b[?(@.b.look() || @.a.look() > 1)]", "$.a.b.lookAll().look()"}

var c02InnerPaths = []string{"$", "$.a", "$..a", "$[*]", "$[?(@.a)]", "$[?(@.a == 1)].a", "$.a.twice()", "$.*.count()", "$.zz", "$[", "$.a.unknown()", "$[?(@.a == @.b)]", "$.a.look()"}

func c02NestedCase(r *Rng) Record {
	var text string
	var doc interface{}
	gen := "template"
	if r.Chance(50) {
		text = r.Pick(c02NestedPaths)
		doc, _ = c02Decode(c02ProbeDocs[r.Intn(len(c02ProbeDocs))])
	} else {
		gen = "generated"
		var p *Path
		switch r.Weighted([]int{50, 50}) {
		case 0:
			doc, p = b7GenRecCase(r, 30)
		default:
			doc, p = GenCase(r, DefaultOpts())
		}
		nc, nr, nt := b7InjectFn(r, p, 70, "look")
		if nc+nr+nt == 0 || r.Chance(25) {
			if len(p.Fns) >= 2 {
				p.Fns = p.Fns[:1]
			}
			p.Fns = append(p.Fns, Fn{Agg: true, Name: "lookAll"})
		}
		text = Render(p, r)
	}
	rec := Record{Text: text, Doc: JSONText(doc), Tags: []string{"gen:nested-call", "nested-call:" + gen}, Info: map[string]interface{}{}}
	innerDoc, _ := c02Decode(c02ProbeDocs[r.Intn(len(c02ProbeDocs))])
	inner := r.Pick(c02InnerPaths)
	innerHow := r.Weighted([]int{40, 25, 20, 15}) // Retrieve without config / Retrieve with the registry / Parse / Retrieve with THIS config (bounded)
	innerName := []string{"jsonpath.Retrieve(path, document)", "jsonpath.Retrieve(path, document, registry)", "jsonpath.Parse(path)", "jsonpath.Retrieve(path, document, the same config)"}[innerHow]
	rec.Info["inner_call"] = innerName
	rec.Info["inner_path"] = inner
	rec.Tags = append(rec.Tags, "nested-call:inner="+[]string{"Retrieve", "Retrieve+registry", "Parse", "Retrieve+same-config"}[innerHow])
	registry := Config(false, nil)
	var cfg jsonpath.Config
	calls, depth := 0, 0
	callBack := func() {
		calls++
		if depth >= 2 || calls > 200 {
			return
		}
		depth++
		defer func() { depth--; recover() }()
		switch innerHow {
		case 0:
			jsonpath.Retrieve(inner, innerDoc)
		case 1:
			jsonpath.Retrieve(inner, innerDoc, registry)
		case 2:
			if f, err := jsonpath.Parse(inner, registry); err == nil && f != nil {
				f(innerDoc)
			}
		default:
			jsonpath.Retrieve(inner, innerDoc, cfg)
		}
	}
	cfg = Config(false, nil)
	cfg.SetFilterFunction("look", func(v interface{}) (interface{}, error) { callBack(); return v, nil })
	cfg.SetAggregateFunction("lookAll", func(vs []interface{}) (interface{}, error) { callBack(); return float64(len(vs)), nil })

	// within: run the action in a goroutine; "" = returned in time, otherwise how long was waited
	within := func(action func()) string {
		done := make(chan struct{})
		go func() { defer close(done); action() }()
		select {
		case <-done:
			return ""
		case <-time.After(c02NestedLimit):
		}
		select {
		case <-done:
			rec.Tags = append(rec.Tags, "nested-call:slow-but-returned")
			return ""
		case <-time.After(c02NestedGrace):
		}
		return fmt.Sprintf("did not return within %v (nor within another %v)", c02NestedLimit, c02NestedGrace)
	}
	var ro, co Outcome
	if msg := within(func() { ro = c02Retrieve(text, doc, &cfg) }); msg != "" {
		rec.Viol = fmt.Sprintf("Retrieve %s: a user function of the Config (filter function `look` / aggregate function `lookAll`) calls %s (inner path %q) while Retrieve(%q, …) evaluates the document [user functions were entered %d times]",
			msg, innerName, inner, text, calls)
		rec.Class = "hang"
		rec.Poison = true
		rec.Key = "nested-call/hang"
		return rec
	}
	callsRetrieve := calls
	var f Parsed
	var po Outcome
	if msg := within(func() {
		f, po = SafeParse(text, &cfg)
		if f != nil {
			co = SafeCall(f, doc)
		}
	}); msg != "" {
		rec.Viol = fmt.Sprintf("Parse + call %s: a function of the Config calls %s (inner path %q) while the parsed function of %q evaluates the document", msg, innerName, inner, text)
		rec.Class = "hang"
		rec.Poison = true
		rec.Key = "nested-call/hang"
		return rec
	}
	viol := func(class, format string, args ...interface{}) {
		if rec.Viol == "" {
			rec.Viol = fmt.Sprintf(format, args...) + fmt.Sprintf(" [input %q, inner call %s on %q]", text, innerName, inner)
			rec.Class = class
		}
	}
	switch {
	case ro.ErrKind == "panic":
		viol("retrieve-panic", "Retrieve panicked: %s", clip(ro.Panic, 600))
	case f == nil:
		if po.ErrKind == "panic" || po.NilNil || po.Both || !c02IsParseErr(po.ErrKind) {
			viol("error-type", "Parse of a generated path: %s", clip(po.Detail(), 300))
		} else {
			viol("parse-reject", "generated path was rejected by Parse: %s", po.Msg)
		}
	default:
		if msg := c02CheckCall(co, false); msg != "" {
			viol("call", "calling the parsed function: %s", msg)
		}
		if ro.OK != co.OK || ro.ErrKind != co.ErrKind || ro.Msg != co.Msg || (ro.OK && ValsSexp(ro.Vals) != ValsSexp(co.Vals)) || ro.Both {
			viol("retrieve-differs", "Parse+call gave %s but Retrieve gave %s", clip(co.Detail(), 300), clip(ro.Detail(), 300))
		}
	}
	rec.Info["user_function_calls"] = callsRetrieve
	if callsRetrieve > 0 {
		rec.Tags = append(rec.Tags, "nested-call:function-called")
		rec.Key = "nested-call/" + c02Skeleton(text, 16) + "/" + fmt.Sprint(innerHow)
	}
	rec.Tags = append(rec.Tags, "nested-call:outcome="+pick(ro.OK, "ok", ro.ErrKind).(string))
	return rec
}
