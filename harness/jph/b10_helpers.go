package jph

import (
	"encoding/json"
	"fmt"
	"math"
	"sort"
	"strconv"
	"strings"
)

// Helpers added for the inputs that small random pools do not reach (round 5):
// names with Unicode space-like / format characters (gen.go SpaceKeys, C16, C18), long member
// names with a common prefix for the general generator (gen.go LongKeys, C01), numbers at the
// edge of float64 / int64 under UseNumber with a model-free oracle (C10, C01), spellings that
// every quote kind must reject alike (C18), comparable Go types with uncomparable content (C20).

// ---------- names with space-like / format characters ----------

// SpaceLikeRunes: characters that LOOK like blanks (or like nothing) but are ordinary name
// characters everywhere in a path: in dot notation, between quotes, after `..`, in filters.
var SpaceLikeRunes = []rune{0x3000, 0x00A0, 0x0085, 0x1680, 0x2000, 0x2001, 0x2002, 0x2003, 0x2004, 0x2005, 0x2006, 0x2007,
	0x2008, 0x2009, 0x200A, 0x200B, 0x2028, 0x2029, 0x202F, 0x205F, 0xFEFF, 0x180E,
	// zero-width / invisible format characters (round 8)
	0x2060, 0x200C, 0x200D, 0x00AD, 0x034F, 0x061C, 0x200B, 0x2060}

func spaceLikeRune(r *Rng) rune { return SpaceLikeRunes[r.Intn(len(SpaceLikeRunes))] }

// spaceKey: a short name with a space-like character at its start, at its end, inside, alone, or on both sides;
// the rest of the name comes from BaseKeys, so that the near-miss name without the character is a likely sibling.
func spaceKey(r *Rng) string {
	c := string(spaceLikeRune(r))
	b := r.Pick(BaseKeys)
	switch r.Weighted([]int{30, 25, 15, 10, 10, 10}) {
	case 0:
		return c + b
	case 1:
		return b + c
	case 2:
		return b + c + r.Pick(BaseKeys)
	case 3:
		return c
	case 4:
		return c + b + string(spaceLikeRune(r))
	}
	return c + c + b
}

// spaceKeyTags: which positions of the path's names hold a space-like character.
func spaceKeyTags(k string) []string {
	rs := []rune(k)
	is := func(c rune) bool {
		for _, s := range SpaceLikeRunes {
			if s == c {
				return true
			}
		}
		return false
	}
	var out []string
	for i, c := range rs {
		if !is(c) {
			continue
		}
		switch {
		case i == 0:
			out = append(out, "name:space-like-first")
		case i == len(rs)-1:
			out = append(out, "name:space-like-last")
		default:
			out = append(out, "name:space-like-inside")
		}
	}
	return out
}

// ---------- long member names with a common prefix, for GenDoc ----------

// longKeyFamily: the names of one c07LongFamilies family in a random order.
func longKeyFamily(r *Rng) []string {
	fam := append([]string(nil), c07LongFamilies[r.Intn(len(c07LongFamilies))]...)
	r.Shuffle(len(fam), func(i, j int) { fam[i], fam[j] = fam[j], fam[i] })
	return fam
}

// longKeyTags: tags for a document whose objects hold names that agree in their first 8 bytes.
func longKeyTags(doc interface{}) []string {
	found := map[string]bool{}
	var walk func(v interface{})
	walk = func(v interface{}) {
		switch t := v.(type) {
		case []interface{}:
			for _, x := range t {
				walk(x)
			}
		case map[string]interface{}:
			ks := sortedKeys(t)
			for i := 0; i+1 < len(ks); i++ {
				a, b := ks[i], ks[i+1]
				if c07CommonPrefix(a, b) >= 8 {
					found["doc:names-sharing-8-bytes"] = true
					if len(a) > len(b) {
						found["doc:names-sharing-8-bytes,longer-sorts-first"] = true
					}
				}
			}
			for _, x := range t {
				walk(x)
			}
		}
	}
	walk(doc)
	var out []string
	for k := range found {
		out = append(out, k)
	}
	sort.Strings(out)
	return out
}

// ---------- numbers at the edge of float64 / int64 (C10 mode "edge", C01 class "number-edge") ----------
//
// Oracle (model-free): a number of the document — float64, or json.Number N under UseNumber —
// takes part in every comparison as the float64 that strconv.ParseFloat(N, 64) gives: ±Inf beyond
// the float64 range (what encoding/json's Number.Float64 returns next to its range error), the
// nearest float64 for integers beyond 2^53 / 2^63 / 2^64. A number literal of the path is
// ParseFloat of its text. Only == / != between TWO paths is by reflect.DeepEqual (see C10's
// assumptions): under UseNumber equal spellings are equal, different values are different,
// and different spellings of one value are left open.

var b10NumOver = []string{"1e999", "-1e999", "1e400", "-1e400", "1.7976931348623159e308", "-1.7976931348623159e308", "2e308", "-2E+308"}
var b10NumInt = []string{"9223372036854775807", "9223372036854775808", "9999999999999999999", "-9223372036854775808", "-9223372036854775809",
	"-9999999999999999999", "9223372036854775806", "1e19", "0.1e20", "10000000000000000000", "18446744073709551615", "18446744073709551616",
	"4611686018427387904", "-1e19", "9223372036854775808.0", "9.223372036854775808e18"}
var b10NumOther = []string{"-0", "0", "1E+2", "100", "1", "-1", "2", "0.5", "1e308", "-1e308", "1.7976931348623157e308", "1.7976931348623158e308",
	"1e-400", "-1e-400", "9007199254740993", "9007199254740992", "1e18", "1000000000000000000", "5e-324", "0.0", "-0.0", "1.0"}

func b10NumText(r *Rng) string {
	switch r.Weighted([]int{30, 40, 30}) {
	case 0:
		return r.Pick(b10NumOver)
	case 1:
		return r.Pick(b10NumInt)
	}
	return r.Pick(b10NumOther)
}

// b10Float: the oracle's value of a number text (±Inf beyond the range).
func b10Float(text string) float64 {
	f, _ := strconv.ParseFloat(text, 64)
	return f
}

type b10Opd struct {
	kind  int // 0 literal, 1 `@`-path, 2 `$`-path
	text  string
	lit   float64
	steps []interface{} // string: member name, int: index
}

type b10Edge struct {
	docText  string
	pathText string
	op       int
	L, R     b10Opd
	isObj    bool
	tags     map[string]bool
}

func b10EdgeValueText(r *Rng) string {
	switch r.Weighted([]int{86, 4, 3, 3, 4}) {
	case 0:
		return b10NumText(r)
	case 1:
		return strconv.Quote(b10NumText(r)) // the same characters as a string: never a number
	case 2:
		return "null"
	case 3:
		return "true"
	}
	return "" // field absent
}

// b10GenEdge: document {"m": CONTAINER, "n": NUM, "k": NUM} and one comparison filter `$.m[?(L op R)]`.
func b10GenEdge(r *Rng) *b10Edge {
	e := &b10Edge{tags: map[string]bool{}}
	n := r.Range(4, 8)
	ms := make([]string, n)
	avals := make([]string, n) // the text under `a` ("" = none / bare)
	var bareVals []float64
	for j := 0; j < n; j++ {
		if r.Chance(20) {
			t := b10NumText(r)
			f := b10Float(t)
			dup := false
			for _, g := range bareVals {
				if g == f {
					dup = true
				}
			}
			if !dup {
				bareVals = append(bareVals, f)
				ms[j] = t
				continue
			}
		}
		v := b10EdgeValueText(r)
		avals[j] = v
		if v == "" {
			ms[j] = fmt.Sprintf(`{"id":%d}`, 10+j)
		} else {
			ms[j] = fmt.Sprintf(`{"a":%s,"id":%d}`, v, 10+j)
		}
	}
	e.isObj = r.Chance(35)
	var keys []string
	var b strings.Builder
	b.WriteString(`{"k":` + b10NumText(r) + `,"m":`)
	if e.isObj {
		pool := []string{"a", "b", "c", "d", "e", "f", "g", "h", "aa", "B"}
		r.Shuffle(len(pool), func(i, j int) { pool[i], pool[j] = pool[j], pool[i] })
		keys = append([]string(nil), pool[:n]...)
		sort.Strings(keys)
		b.WriteByte('{')
		for j, k := range keys {
			if j > 0 {
				b.WriteByte(',')
			}
			b.WriteString(strconv.Quote(k) + ":" + ms[j])
		}
		b.WriteByte('}')
	} else {
		b.WriteString("[" + strings.Join(ms, ",") + "]")
	}
	nText := b10NumText(r)
	// the root number: often one that a member holds too (equal, or the same value in another spelling)
	var memberNums []string
	for j := range ms {
		if avals[j] != "" && !strings.HasPrefix(avals[j], `"`) && avals[j] != "null" && avals[j] != "true" {
			memberNums = append(memberNums, avals[j])
		}
	}
	if len(memberNums) > 0 && r.Chance(45) {
		nText = r.Pick(memberNums)
	}
	b.WriteString(`,"n":` + nText + `}`)
	e.docText = b.String()

	// operands
	lit := func() b10Opd {
		var t string
		for {
			switch r.Weighted([]int{35, 35, 30}) {
			case 0:
				if len(memberNums) > 0 {
					t = r.Pick(memberNums)
				} else {
					t = r.Pick(b10NumInt)
				}
			case 1:
				t = r.Pick(b10NumInt)
			default:
				t = r.Pick(b10NumOther)
			}
			// a literal beyond the float64 range is not a number literal of the path language
			if f, err := strconv.ParseFloat(t, 64); err == nil && !math.IsInf(f, 0) {
				break
			}
		}
		if !strings.HasPrefix(t, "-") && r.Chance(10) {
			t = "+" + t
		}
		return b10Opd{kind: 0, text: t, lit: b10Float(t)}
	}
	cur := func() b10Opd {
		if r.Chance(78) {
			if r.Chance(25) {
				return b10Opd{kind: 1, text: `@['a']`, steps: []interface{}{"a"}}
			}
			return b10Opd{kind: 1, text: "@.a", steps: []interface{}{"a"}}
		}
		return b10Opd{kind: 1, text: "@"}
	}
	root := func() b10Opd {
		switch r.Weighted([]int{45, 15, 40}) {
		case 0:
			return b10Opd{kind: 2, text: "$.n", steps: []interface{}{"n"}}
		case 1:
			return b10Opd{kind: 2, text: "$.k", steps: []interface{}{"k"}}
		}
		j := r.Intn(n)
		if e.isObj {
			return b10Opd{kind: 2, text: "$.m['" + keys[j] + "'].a", steps: []interface{}{"m", keys[j], "a"}}
		}
		return b10Opd{kind: 2, text: fmt.Sprintf("$.m[%d].a", j), steps: []interface{}{"m", j, "a"}}
	}
	e.op = r.Weighted([]int{18, 14, 17, 17, 17, 17})
	switch r.Weighted([]int{34, 16, 20, 12, 9, 9}) {
	case 0:
		e.L, e.R = cur(), lit()
	case 1:
		e.L, e.R = lit(), cur()
	case 2:
		e.L, e.R = cur(), root()
	case 3:
		e.L, e.R = root(), cur()
	case 4:
		e.L, e.R = root(), lit()
	default:
		e.L, e.R = root(), root()
	}
	sp := func() string {
		if r.Chance(80) {
			return " "
		}
		return ""
	}
	e.pathText = "$.m[?(" + e.L.text + sp() + OpText[e.op] + sp() + e.R.text + ")]"
	kind := func(o b10Opd) string { return []string{"lit-num", "@", "$"}[o.kind] }
	e.tags["operands:"+kind(e.L)+"|"+kind(e.R)] = true
	e.tags["op:"+OpNames[e.op]] = true
	if e.isObj {
		e.tags["container:object"] = true
	} else {
		e.tags["container:array"] = true
	}
	return e
}

func b10OpdValue(o b10Opd, root, cur interface{}) c10V {
	if o.kind == 0 {
		return c10V{o.lit, true}
	}
	v := cur
	if o.kind == 2 {
		v = root
	}
	for _, s := range o.steps {
		switch k := s.(type) {
		case string:
			m, ok := v.(map[string]interface{})
			if !ok {
				return c10V{}
			}
			x, has := m[k]
			if !has {
				return c10V{}
			}
			v = x
		case int:
			a, ok := v.([]interface{})
			if !ok || k >= len(a) {
				return c10V{}
			}
			v = a[k]
		}
	}
	return c10V{v, true}
}

func b10NumClass(v interface{}) string {
	f, ok := c10NumOf(v)
	if !ok {
		return ""
	}
	a := math.Abs(f)
	switch {
	case math.IsInf(f, 0):
		return "beyond-float64(±Inf)"
	case a >= 9223372036854775808.0:
		return ">=2^63"
	case a > 9007199254740992.0:
		return ">2^53"
	case f == 0 && math.Signbit(f):
		return "-0"
	}
	return "ordinary"
}

// b10Expect: 1 must be selected, 0 must not, -1 left open (see the oracle above).
func b10Expect(e *b10Edge, root, cur interface{}) (int, string) {
	l, r := b10OpdValue(e.L, root, cur), b10OpdValue(e.R, root, cur)
	met := c10TypeOf(l) + "~" + c10TypeOf(r)
	x, okx := c10NumOf(l.v)
	y, oky := c10NumOf(r.v)
	okx, oky = okx && l.ok, oky && r.ok
	if e.op >= c09LT {
		if !okx || !oky {
			return 0, met
		}
		var h bool
		switch e.op {
		case c09LT:
			h = x < y
		case c09LE:
			h = x <= y
		case c09GT:
			h = x > y
		default:
			h = x >= y
		}
		if h {
			return 1, met
		}
		return 0, met
	}
	eq := 0
	switch {
	case !l.ok && !r.ok:
		return -1, met
	case !l.ok || !r.ok:
		eq = 0
	case okx && oky:
		if x == y {
			eq = 1
		}
		jl, isJL := l.v.(json.Number)
		jr, isJR := r.v.(json.Number)
		if isJL && isJR && x == y && string(jl) != string(jr) {
			return -1, met // two paths, one value in two spellings: by DeepEqual, left open
		}
	case okx != oky:
		eq = 0
	default:
		if c10JSONEq(l.v, r.v) {
			eq = 1
		}
	}
	if e.op == c09NE {
		return 1 - eq, met
	}
	return eq, met
}

// b10EdgeRun: the checks of one edge case. full: both decodings, the parsed-once law (C10); else the
// UseNumber decoding alone (C01: exactly the selected members, in container order).
func b10EdgeRun(r *Rng, full bool) Record {
	e := b10GenEdge(r)
	rec := Record{Text: e.pathText, Doc: e.docText, Info: map[string]interface{}{"mode": "edge"}}
	tags := e.tags
	tags["mode:edge"] = true
	cfg := Config(false, nil)
	viol, cls := "", ""
	fail := func(c, format string, args ...interface{}) {
		if viol == "" {
			viol, cls = fmt.Sprintf(format, args...), c
		}
	}
	jdoc, err := c10Decode(e.docText, true)
	if err != nil {
		rec.Viol, rec.Class = "harness: cannot decode the generated document: "+err.Error(), "harness"
		return rec
	}
	docs := []interface{}{jdoc}
	names := []string{"json.Number"}
	if fdoc, ferr := c10Decode(e.docText, false); ferr == nil {
		docs = append(docs, fdoc)
		names = append(names, "float64")
		tags["doc:decodable-as-float64-too"] = true
	} else {
		tags["doc:UseNumber-only(a number beyond float64)"] = true
	}
	if !full {
		docs, names = docs[:1], names[:1]
	}
	sels := make([]c09Sel, len(docs))
	exercised := false
	selClass := ""
	for k, doc := range docs {
		ms, texts := c10Members(doc)
		ctx := &c09Ctx{cfg: &cfg, parsed: map[string]Parsed{}, doc: doc, members: texts, memo: map[string]c09Sel{}}
		out := ctx.outcome(e.pathText)
		sel := ctx.selOf(e.pathText, out)
		if ctx.viol != "" {
			fail(ctx.cls, "[%s] %s", names[k], ctx.viol)
		}
		sels[k] = sel
		cnt := 0
		for j, m := range ms {
			want, met := b10Expect(e, doc, m)
			if k == 0 {
				tags["met:"+met] = true
				if met == "num~num" {
					exercised = true
					l, rr := b10OpdValue(e.L, doc, m), b10OpdValue(e.R, doc, m)
					for _, v := range []c10V{l, rr} {
						if _, isJ := v.v.(json.Number); isJ {
							tags["number:"+b10NumClass(v.v)] = true
						}
					}
				}
				if want < 0 {
					tags["open(two paths: both absent, or one value in two spellings)"] = true
				}
			}
			if sel[j] {
				cnt++
			}
			if want >= 0 && (want == 1) != sel[j] {
				verb := "must not be selected"
				if want == 1 {
					verb = "must be selected"
				}
				fail("number-edge", "[%s] %s: member %d (%s) %s (a number compares as the float64 nearest to its text, ±Inf beyond the range; operand types %s) but the library selects %s on %s",
					names[k], e.pathText, j, clip(JSONText(m), 80), verb, met, sel, clip(e.docText, 600))
			}
		}
		switch {
		case cnt == 0:
			selClass += "none"
		case cnt == len(ms):
			selClass += "all"
		default:
			selClass += "some"
		}
	}
	if len(docs) == 2 && !c09Equal(sels[0], sels[1]) {
		// (two paths compared with == / != may differ by spelling under UseNumber: only when nothing was left open)
		open := false
		ms, _ := c10Members(docs[0])
		for _, m := range ms {
			if w, _ := b10Expect(e, docs[0], m); w < 0 {
				open = true
			}
		}
		if !open {
			fail("decode", "%s selects %s from the json.Number decoding but %s from the float64 decoding of %s", e.pathText, sels[0], sels[1], e.docText)
		}
	}
	if full {
		if f, _ := SafeParse(e.pathText, &cfg); f != nil {
			order := []int{0, len(docs) - 1, 0}
			if r.Chance(50) {
				order = []int{len(docs) - 1, 0, len(docs) - 1}
			}
			for _, k := range order {
				_, texts := c10Members(docs[k])
				ctx := &c09Ctx{cfg: &cfg, doc: docs[k], members: texts}
				sel := ctx.selOf(e.pathText, SafeCall(f, docs[k]))
				if ctx.viol != "" {
					fail(ctx.cls, "[one parsed function, on the %s decoding] %s", names[k], ctx.viol)
				}
				if !c09Equal(sel, sels[k]) {
					fail("parsed-once", "%s parsed once and called on the %s decoding selects %s but a fresh Retrieve selects %s; document: %s", e.pathText, names[k], sel, sels[k], e.docText)
				}
			}
			tags["law:parsed-once=fresh"] = true
		}
	}
	rec.Info["selected"] = sels[0].String()
	rec.Viol, rec.Class = viol, cls
	if exercised {
		ck := "a"
		if e.isObj {
			ck = "o"
		}
		kinds := fmt.Sprintf("%d%d", e.L.kind, e.R.kind)
		rec.Key = fmt.Sprintf("edge/%s/%s/%s/%s", OpNames[e.op], kinds, ck, selClass)
	}
	for t := range tags {
		rec.Tags = append(rec.Tags, t)
	}
	sort.Strings(rec.Tags)
	return rec
}

// ---------- C18: spellings that every quote kind must treat alike, valid or not ----------
//
// A name written between quotes with a RAW control character (U+0000..U+001F, U+007F) and neither
// a backslash nor a quote in it: `['a<TAB>b']` and `["a<TAB>b"]` are the two spellings of one
// selector. Whatever the library makes of it (the grammar lets the character through; the
// unescaping step refuses U+0000..U+001F and lets U+007F pass), both spellings must behave
// identically: the same values, or errors of the same type — at the root, after `..`, in a
// multi-name selector, in a filter operand, and with the leading `$` omitted.

func b10RawCtlName(r *Rng) (string, rune) {
	c := rune(r.Intn(0x20))
	switch r.Weighted([]int{60, 25, 15}) {
	case 1:
		c = []rune{'\t', '\n', '\r'}[r.Intn(3)]
	case 2:
		c = 0x7f
	}
	a, b := r.Pick([]string{"a", "b", "ab", "", "é", "k"}), r.Pick([]string{"a", "b", "", "x", " "})
	switch r.Intn(4) {
	case 0:
		return string(c) + a + b, c
	case 1:
		return a + b + string(c), c
	}
	return a + string(c) + b, c
}

func c18JointCase(r *Rng) Record {
	name, c := b10RawCtlName(r)
	sib := strings.ReplaceAll(name, string(c), "")
	obj := map[string]interface{}{name: float64(1), "z": float64(3)}
	if sib != name {
		obj[sib] = float64(2)
	}
	inner := DeepCopy(obj)
	doc := map[string]interface{}{name: inner, "z": float64(3), "l": []interface{}{DeepCopy(obj), map[string]interface{}{"z": float64(1)}}}
	if sib != name && sib != "l" && sib != "z" {
		doc[sib] = float64(2)
	}
	q := func(dq bool) string {
		if dq {
			return `"` + name + `"`
		}
		return "'" + name + "'"
	}
	type form struct {
		name string
		text func(dq bool) string
	}
	sp := ""
	if r.Chance(25) {
		sp = " "
	}
	forms := []form{
		{"root", func(dq bool) string { return "$[" + sp + q(dq) + sp + "]" }},
		{"root, $ omitted", func(dq bool) string { return "[" + q(dq) + "]" }},
		{"nested", func(dq bool) string { return "$[" + q(dq) + "][" + q(dq) + "]" }},
		{"after ..", func(dq bool) string { return "$..[" + q(dq) + "]" }},
		{"multi-name", func(dq bool) string { return "$[" + q(dq) + "," + sp + "'z']" }},
		{"multi-name, second", func(dq bool) string { return "$['z'," + q(dq) + "]" }},
		{"filter operand", func(dq bool) string { return "$.l[?(@[" + q(dq) + "] == 1)]" }},
		{"filter existence", func(dq bool) string { return "$.l[?(@[" + q(dq) + "])]" }},
		{"filter $-operand", func(dq bool) string { return "$.l[?(@.z == $[" + q(dq) + "].z)]" }},
	}
	cfg := Config(false, nil)
	rec := Record{Doc: JSONText(doc), Info: map[string]interface{}{"name": strconv.Quote(name), "class": "raw control character between quotes"}}
	rec.Tags = []string{"class:raw-control-character-between-quotes", fmt.Sprintf("raw-control:U+%04X", c)}
	var texts []string
	outcome := ""
	for fi, f := range forms {
		if fi >= 2 && !r.Chance(60) {
			continue
		}
		var outs [2]Outcome
		var trees [2]string
		var ts [2]string
		order := []int{0, 1}
		if r.Chance(50) {
			order = []int{1, 0}
		}
		for _, k := range order {
			ts[k] = f.text(k == 1)
			var fn Parsed
			fn, outs[k], trees[k] = ParseTree(ts[k], &cfg)
			if fn != nil {
				outs[k] = SafeCall(fn, doc)
			}
		}
		texts = append(texts, ts[0], ts[1])
		rec.Tags = append(rec.Tags, "position:"+f.name)
		a, b := outs[0], outs[1]
		for k, o := range outs {
			if o.ErrKind == "panic" || o.NilNil || o.Both || strings.HasPrefix(o.ErrKind, "other") {
				rec.Viol = fmt.Sprintf("abnormal outcome of the spelling %q: %s", ts[k], clip(o.Detail(), 500))
				rec.Class, rec.Text = "abnormal", ts[k]
			}
		}
		if rec.Viol == "" {
			switch {
			case a.OK != b.OK:
				rec.Viol = fmt.Sprintf("%s: %q gives %s but %q gives %s", f.name, ts[0], c08Show(a), ts[1], c08Show(b))
				rec.Class = "spelling-result"
			case a.OK && ValsSexp(a.Vals) != ValsSexp(b.Vals):
				rec.Viol = fmt.Sprintf("%s: %q gives %s but %q gives %s", f.name, ts[0], c08Show(a), ts[1], c08Show(b))
				rec.Class = "spelling-result"
			case !a.OK && (a.ErrKind != b.ErrKind || a.Expected != b.Expected || a.Found != b.Found):
				rec.Viol = fmt.Sprintf("%s: %q fails with %q but %q fails with %q", f.name, ts[0], a.Msg, ts[1], b.Msg)
				rec.Class = "spelling-error"
			case c18Blank(trees[0]) != c18Blank(trees[1]):
				rec.Viol = fmt.Sprintf("%s: %q and %q are parsed into different trees: %s vs %s", f.name, ts[0], ts[1], clip(c18Blank(trees[0]), 400), clip(c18Blank(trees[1]), 400))
				rec.Class = "spelling-tree"
			}
			if rec.Viol != "" {
				rec.Text = ts[1]
			}
		}
		if fi == 0 {
			outcome = "err-" + a.ErrKind
			if a.OK {
				outcome = "ok"
			}
		}
		if rec.Viol != "" {
			break
		}
	}
	rec.Info["spellings"] = texts
	if rec.Text == "" {
		rec.Text = texts[0]
	}
	rec.Tags = append(rec.Tags, "outcome:"+outcome)
	sort.Strings(rec.Tags)
	rec.Key = fmt.Sprintf("joint/U+%04X/%s", c, outcome)
	return rec
}

// ---------- C20: comparable Go types with uncomparable content ----------
//
// A struct or Go array type is Comparable() as a TYPE when all its fields / elements are, and an
// interface field is; the VALUE then may still hold a slice, a map or a function, and `==` on two
// such values panics ("comparing uncomparable type"). reflect.DeepEqual handles them.

type c20Box struct{ V interface{} }
type c20Pair struct {
	N int
	V interface{}
}

func c20BoxValues() []interface{} {
	sl := []int{1}
	return []interface{}{
		struct{ V interface{} }{[]int{1}}, struct{ V interface{} }{[]int{1}}, struct{ V interface{} }{sl}, struct{ V interface{} }{[]int{2}},
		c20Box{map[string]int{"a": 1}}, c20Box{map[string]int{"a": 1}}, c20Box{[]interface{}{float64(1)}}, c20Box{c20FnA}, c20Box{1}, c20Box{nil},
		[1]interface{}{map[string]int{}}, [1]interface{}{map[string]int{}}, [1]interface{}{[]string{"a"}}, [2]interface{}{1, []int{1}}, [2]interface{}{1, []int{1}},
		c20Pair{1, []int{1}}, c20Pair{1, []int{1}}, c20Pair{2, map[string]interface{}{"a": float64(1)}},
		&c20Box{[]int{1}}, &c20Box{[]int{1}}, &[1]interface{}{map[string]int{}},
		c20Box{c20Box{[]int{1}}}, c20Box{c20Box{[]int{1}}},
	}
}
