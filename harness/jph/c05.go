package jph

import (
	"fmt"
	"strings"

	"github.com/AsaiYusuke/jsonpath"
)

// C05 — a parsed function is pure: each call depends only on its argument.
//
// One path is parsed once and called on a history of 2..8 documents (variants of one
// document whose scalars were changed so that consecutive calls flip filter outcomes,
// repeats of earlier documents, equal rebuilt documents, documents on which the call fails),
// interleaved with unrelated Parse/Retrieve calls that recycle the pooled buffers. Every call
// must equal a fresh Retrieve of the same path on that document (values, or error type and
// text). Result slices of earlier calls are re-read after every later call (unchanged) and
// some are scribbled on (later calls unaffected, scribbles stay). Two extra aggregate
// functions exist only here: `same` returns its argument slice as is, `keep` stores it; kept
// slices are re-read at the end. The package-level marker lists must print the same before
// and after.
// Config-less parses (40% of the plain-mode cases, function-free paths only): the path is parsed without a
// Config, called on a copy of the base document, the copy is edited inside (root object and root length
// stay: c05EditKeepLen) and the function is called again, 1..3 rounds; every answer must be what a fresh
// config-less Retrieve answers for the document as it is now (tag plain-inplace).
// Keys renamed in place (35% of the cases, all of class scale): the reused function is called on the
// first document of the history, then 1..2 keys of some of its maps are renamed IN PLACE (same map
// objects, same sizes, c07RenameInPlace), and it is called again: the answer must be what a fresh
// Retrieve answers for the document as it is now.
// One case in 25 (class scale): the document has padded containers (objects of 16..70 members, arrays of
// 17..300 elements) and 70% of these paths apply a wildcard / long multi-name list / long union / slice /
// filter to a padded container (ScalePath in b9_scale.go).

type c05 struct{}

func init() { Props["C05"] = c05{} }

func (c05) Count(tier string) int {
	if tier == "thorough" {
		return 300000
	}
	return 20000
}

type c05Kept struct {
	arg  []interface{}
	text string
}

type c05Rec struct{ kept []c05Kept }

func c05ResText(vs []interface{}) string {
	parts := make([]string, len(vs))
	for i, v := range vs {
		parts[i] = ResSexp(v)
	}
	return strings.Join(parts, " ")
}

// c05Config: the registry plus `same` and `keep`.
func c05Config(acc bool, rec *c05Rec) jsonpath.Config {
	cfg := Config(acc, nil)
	cfg.SetAggregateFunction("same", func(vs []interface{}) (interface{}, error) { return vs, nil })
	cfg.SetAggregateFunction("keep", func(vs []interface{}) (interface{}, error) {
		if rec != nil && len(rec.kept) < 64 {
			rec.kept = append(rec.kept, c05Kept{arg: vs, text: c05ResText(vs)})
		}
		return float64(len(vs)), nil
	})
	return cfg
}

func c05Canon(o Outcome) string {
	if o.OK {
		return "ok " + c05ResText(o.Vals)
	}
	if o.ErrKind == "panic" {
		return "panic " + firstLines(o.Panic, 1)
	}
	return "err " + o.ErrKind + " | " + o.Msg
}

func c05Scalar(r *Rng, v interface{}) interface{} {
	if f, ok := v.(float64); ok && r.Chance(60) {
		if r.Chance(50) {
			return f + 1
		}
		return f - 1
	}
	return GenScalar(r)
}

// c05Mutate: a new document; every scalar changes with probability rate %, members are
// dropped / added now and then.
func c05Mutate(r *Rng, v interface{}, rate int) interface{} {
	switch t := v.(type) {
	case []interface{}:
		out := make([]interface{}, 0, len(t)+1)
		for _, x := range t {
			if r.Chance(rate / 6) {
				continue
			}
			out = append(out, c05Mutate(r, x, rate))
		}
		if r.Chance(rate / 6) {
			out = append(out, GenScalar(r))
		}
		return out
	case map[string]interface{}:
		out := make(map[string]interface{}, len(t))
		for _, k := range sortedKeys(t) {
			if r.Chance(rate / 5) {
				continue
			}
			out[k] = c05Mutate(r, t[k], rate)
		}
		if r.Chance(rate / 6) {
			out[r.Pick(BaseKeys)] = GenScalar(r)
		}
		return out
	}
	if r.Chance(rate) {
		return c05Scalar(r, v)
	}
	return v
}

var c05JunkPaths = []string{"$..*", "$.*", "$[*]", "$[?(@.a == 1)]", "$[?(1 == 1)]", "$..[?(@ != 'q')]", "$[?(@ != $.zz)]",
	"$.*.count()", "$[*].same()", "$..*.keep()", "$[?($[0] == 'JUNK0')]", "$[0,1,2,3,4,5,6,7]", "$['a','b','c','d']", "$[", "$.x.y"}

func c05JunkDoc(r *Rng) interface{} {
	n := r.Range(3, 40)
	if r.Chance(50) {
		a := make([]interface{}, n)
		for i := range a {
			a[i] = fmt.Sprintf("JUNK%d", i)
		}
		return a
	}
	m := map[string]interface{}{}
	for i := 0; i < n; i++ {
		m[fmt.Sprintf("j%02d", i)] = fmt.Sprintf("JUNK%d", i)
	}
	for _, k := range BaseKeys {
		if r.Chance(50) {
			m[k] = "JUNK" + k
		}
	}
	return m
}

// c05Interleave: unrelated Parse / Retrieve calls
func c05Interleave(r *Rng, cfg *jsonpath.Config) {
	n := r.Range(1, 3)
	for k := 0; k < n; k++ {
		Run(r.Pick(c05JunkPaths), c05JunkDoc(r), cfg)
	}
}

func c05FailDoc(r *Rng) interface{} {
	switch r.Intn(6) {
	case 0:
		return nil
	case 1:
		return float64(r.Range(-2, 5))
	case 2:
		return "ab"
	case 3:
		return map[string]interface{}{}
	case 4:
		return []interface{}{}
	}
	return true
}

type c05Held struct {
	res       []interface{}
	text      string
	call      int
	scribbled bool
}

func (c05) Exec(seed int64, i int, tier string) Record {
	switch i % 20 {
	case 3:
		return c05FnCase(CaseRng(seed, "C05", i), "tick")
	case 9:
		return c05FnCase(CaseRng(seed, "C05", i), "box")
	case 15:
		return c05FnCase(CaseRng(seed, "C05", i), b7ReentName)
	case 6:
		// class panic-probe (b11_helpers.go): a call that ended in a panic of the caller's function is part of the history
		r := CaseRng(seed, "C05", i)
		acc := r.Chance(25)
		viol, tags, info := b11PanicProbe(r, acc)
		rec := Record{Text: "(panic probe)", Tags: append(tags, "class:panic-probe"), Info: info, Viol: viol}
		if viol != "" {
			rec.Class = "history-after-panic"
		}
		if len(tags) > 0 {
			rec.Key = "panic-probe/" + strings.Join(tags, ",") + fmt.Sprint(acc)
		}
		return rec
	}
	r := CaseRng(seed, "C05", i)
	var doc0 interface{}
	var p *Path
	var gtags []string
	var text string
	acc := r.Chance(25)
	scale := i%25 == 17
	// prefer cases whose base document answers without an error (the variants flip from there)
	for attempt := 0; ; attempt++ {
		gtags = nil
		if scale {
			doc0, p, gtags = c05ScaleCase(r)
		} else if r.Chance(60) {
			doc0, p, gtags = c04GenCase(r)
		} else {
			doc0, p = GenCase(r, DefaultOpts())
		}
		// own aggregate functions at the end of the path
		switch r.Weighted([]int{65, 20, 15}) {
		case 1:
			if len(p.Fns) >= 2 {
				p.Fns = p.Fns[:1]
			}
			p.Fns = append(p.Fns, Fn{Agg: true, Name: "same"})
			gtags = append(gtags, "fn:same")
		case 2:
			if len(p.Fns) >= 2 {
				p.Fns = p.Fns[:1]
			}
			p.Fns = append(p.Fns, Fn{Agg: true, Name: "keep"})
			if r.Chance(40) {
				p.Fns = append(p.Fns, Fn{Name: "id"})
			}
			gtags = append(gtags, "fn:keep")
		}
		text = Render(p, r)
		if attempt >= 5 || r.Chance(20) {
			break
		}
		trial := c05Config(acc, nil)
		if Run(text, DeepCopy(doc0), &trial).OK {
			break
		}
	}

	// the history
	L := r.Range(2, 8)
	docs := make([]interface{}, 0, L)
	docs = append(docs, doc0)
	kinds := []string{"base"}
	for len(docs) < L {
		switch r.Weighted([]int{50, 15, 10, 10, 15}) {
		case 0:
			docs = append(docs, c05Mutate(r, doc0, []int{8, 25, 60}[r.Intn(3)]))
			kinds = append(kinds, "variant")
		case 1:
			docs = append(docs, docs[r.Intn(len(docs))])
			kinds = append(kinds, "repeat")
		case 2:
			docs = append(docs, RebuildShuffled(docs[r.Intn(len(docs))], r))
			kinds = append(kinds, "rebuilt")
		case 3:
			docs = append(docs, c05FailDoc(r))
			kinds = append(kinds, "faildoc")
		default:
			docs = append(docs, c05Mutate(r, docs[len(docs)-1], []int{8, 25}[r.Intn(2)]))
			kinds = append(kinds, "variant-of-previous")
		}
	}
	for j := range docs {
		if kinds[j] != "repeat" && r.Chance(30) {
			docs[j] = ToJnum(docs[j])
			kinds[j] += "+jnum"
		}
	}
	docTexts := make([]string, L)
	for j := range docs {
		docTexts[j] = JSONText(docs[j])
	}
	rec := Record{Text: text, Doc: docTexts[0], Tags: append(stepTags(p), gtags...)}
	rec.Info = map[string]interface{}{"accessor": acc, "history": docTexts, "history_kinds": kinds}

	markers := jsonpath.VerifMarkers()
	fresh := c05Config(acc, nil)

	// what a fresh Retrieve answers for every document of the history
	exp := make([]string, L)
	for j := range docs {
		o := Run(text, DeepCopy(docs[j]), &fresh)
		if j == 0 && !o.OK && (o.ErrKind == "syntax" || o.ErrKind == "argument" || o.ErrKind == "notfound" || o.ErrKind == "notsupported") {
			rec.Viol = "generated path was rejected by Parse: " + o.Detail()
			rec.Class = "parse-reject"
			return rec
		}
		exp[j] = c05Canon(o)
	}

	recd := &c05Rec{}
	cfg := c05Config(acc, recd)
	f, po := SafeParse(text, &cfg)
	if f == nil {
		rec.Viol = "Parse failed after it had succeeded: " + po.Detail()
		rec.Class = "history"
		return rec
	}
	var held []c05Held
	interleaved := false
	for j := range docs {
		if r.Chance(55) {
			c05Interleave(r, &fresh)
			interleaved = true
		}
		o := SafeCall(f, docs[j])
		got := c05Canon(o)
		if got != exp[j] {
			rec.Viol = fmt.Sprintf("call %d of the reused function (document %s) differs from a fresh Retrieve: reused=%s fresh=%s", j, clip(docTexts[j], 300), clip(got, 300), clip(exp[j], 300))
			rec.Class = "history"
			return rec
		}
		if o.OK {
			h := c05Held{res: o.Vals, text: c05ResText(o.Vals), call: j}
			if r.Chance(50) {
				for k := range h.res {
					h.res[k] = "SCRIBBLED"
				}
				h.text = c05ResText(h.res)
				h.scribbled = true
			}
			held = append(held, h)
		}
		for _, h := range held {
			if t := c05ResText(h.res); t != h.text {
				rec.Viol = fmt.Sprintf("the slice returned by call %d changed after call %d: was %s now %s", h.call, j, clip(h.text, 300), clip(t, 300))
				rec.Class = "result-changed"
				return rec
			}
		}
	}
	c05Interleave(r, &fresh)
	for _, h := range held {
		if t := c05ResText(h.res); t != h.text {
			rec.Viol = fmt.Sprintf("the slice returned by call %d changed later: was %s now %s", h.call, clip(h.text, 300), clip(t, 300))
			rec.Class = "result-changed"
			return rec
		}
	}
	for n, k := range recd.kept {
		if t := c05ResText(k.arg); t != k.text {
			rec.Viol = fmt.Sprintf("the argument slice handed to aggregate call %d changed after the call: was %s now %s", n, clip(k.text, 300), clip(t, 300))
			rec.Class = "argument-changed"
			return rec
		}
	}
	// fresh Retrieves answer as before the history
	for j := range docs {
		if got := c05Canon(Run(text, DeepCopy(docs[j]), &fresh)); got != exp[j] {
			rec.Viol = fmt.Sprintf("a fresh Retrieve on document %d answers differently after the history: before=%s after=%s", j, clip(exp[j], 300), clip(got, 300))
			rec.Class = "post-history"
			return rec
		}
	}
	if m := jsonpath.VerifMarkers(); m != markers {
		rec.Viol = "package-level marker lists changed: before=" + markers + " after=" + m
		rec.Class = "markers"
		return rec
	}

	// keys renamed in place between two calls of the reused function (the map objects and their sizes stay)
	if scale || r.Chance(35) {
		target := docs[0]
		before := c05Canon(SafeCall(f, target))
		if before != exp[0] {
			rec.Viol = fmt.Sprintf("the reused function on document 0 once more differs from a fresh Retrieve: reused=%s fresh=%s", clip(before, 300), clip(exp[0], 300))
			rec.Class = "history"
			return rec
		}
		if renames := c07RenameInPlace(target, r); len(renames) > 0 {
			want := c05Canon(Run(text, DeepCopy(target), &fresh))
			got := c05Canon(SafeCall(f, target))
			rec.Tags = append(rec.Tags, "inplace-rename")
			rec.Info["renamed_in_place"] = renames
			if got != want {
				rec.Viol = fmt.Sprintf("after keys of the document object of call 0 were renamed in place (%s) the reused function answers %s, a fresh Retrieve %s; the document is now %s", clip(strings.Join(renames, "; "), 300), clip(got, 300), clip(want, 300), clip(JSONText(target), 600))
				rec.Class = "history-inplace"
				return rec
			}
		}
	}

	// the caller updates a document it passed before IN PLACE (same map / slice object, new content)
	// and calls the reused function again: the answer must be the fresh answer for the new content.
	if r.Chance(45) {
		target := docs[0]
		variant := c05Mutate(r, doc0, []int{25, 60, 100}[r.Intn(3)])
		if c05OverwriteInPlace(target, variant) {
			want := c05Canon(Run(text, DeepCopy(variant), &fresh))
			got := c05Canon(SafeCall(f, target))
			rec.Tags = append(rec.Tags, "inplace-update")
			if got != want {
				rec.Viol = fmt.Sprintf("after the document object of call 0 was updated in place to %s the reused function answers %s, a fresh Retrieve %s", clip(JSONText(variant), 300), clip(got, 300), clip(want, 300))
				rec.Class = "history-inplace"
				return rec
			}
		}
	}

	// the same for a function parsed WITHOUT a Config (function-free paths): the caller edits the document
	// inside (the root object stays, and keeps its length) between two calls of the reused function.
	if !acc && r.Chance(40) {
		if viol, tags := c05PlainInPlace(r, text, doc0); viol != "" {
			rec.Viol, rec.Class = viol, "history-inplace"
			return rec
		} else {
			rec.Tags = append(rec.Tags, tags...)
		}
	}

	// evidence
	trans := map[string]bool{}
	flips := 0
	for j := 1; j < L; j++ {
		a, b := exp[j-1][:2], exp[j][:2]
		trans[a+">"+b] = true
		if exp[j] != exp[j-1] {
			flips++
		}
	}
	sig := ""
	for _, t := range []string{"ok>ok", "ok>er", "er>ok", "er>er"} {
		if trans[t] {
			rec.Tags = append(rec.Tags, "history:"+t)
			sig += t[:1] + t[3:4]
		}
	}
	if flips > 0 {
		rec.Tags = append(rec.Tags, "outcome-flipped")
	}
	rec.Tags = append(rec.Tags, fmt.Sprintf("history:len-%d", L))
	if interleaved {
		rec.Tags = append(rec.Tags, "interleaved")
	}
	if acc {
		rec.Tags = append(rec.Tags, "mode:accessor")
	}
	if len(recd.kept) > 0 {
		rec.Tags = append(rec.Tags, "kept-arguments")
	}
	scr := false
	for _, h := range held {
		scr = scr || h.scribbled
	}
	if scr {
		rec.Tags = append(rec.Tags, "scribbled")
	}
	if flips > 0 {
		rec.Key = shapeKey(p) + "/" + sig + fmt.Sprint(acc)
	}
	return rec
}

// c05ScaleCase: class scale (see the head of the file).
func c05ScaleCase(r *Rng) (interface{}, *Path, []string) {
	o := DefaultOpts()
	o.OddKeys = r.Chance(20)
	doc, inf := ScaleDoc(r, o, InflateOpts{Arrays: r.Chance(60), Objects: true, MaxNodes: 700, ArrLens: []int{17, 48, 64, 65, 130, 257, 300}})
	var p *Path
	if len(inf) > 0 && r.Chance(70) {
		p = ScalePath(r, doc, inf[r.Intn(len(inf))], o, 35)
		if r.Chance(15) {
			p.Fns = o.genFns(r, 2)
		}
	} else {
		p = o.genPathFrom(r, doc, doc, HeadRoot, o.MaxSteps, true)
	}
	return doc, p, append([]string{"class:scale"}, ScaleTags(inf)...)
}

// c05OverwriteInPlace gives `target` (a map or slice object) the content of `src` without replacing
// the object itself (slices: only when the lengths agree). Reports whether it could.
func c05OverwriteInPlace(target, src interface{}) bool {
	switch t := target.(type) {
	case map[string]interface{}:
		sm, ok := src.(map[string]interface{})
		if !ok {
			return false
		}
		for k := range t {
			delete(t, k)
		}
		for k, v := range sm {
			t[k] = DeepCopy(v)
		}
		return true
	case []interface{}:
		ss, ok := src.([]interface{})
		if !ok || len(ss) != len(t) {
			return false
		}
		for i := range ss {
			t[i] = DeepCopy(ss[i])
		}
		return true
	}
	return false
}

// ---------- classes with user functions that are not pure functions of their argument ----------
//
// Three classes (5% of the cases each), all with the oracle of this property: every call of the
// reused parsed function equals a FRESH Retrieve of the same path on the same document under the
// same circumstances.
//   tick   a counting filter function: its n-th call returns n. Before call j of the history the
//          counter stands at some base; the fresh Retrieve gets a counter of its own starting at
//          the same base. Results and the number of calls made must agree. When the path is
//          `STEPS.tick()` with function-free STEPS the results must also be base+1 … base+k for
//          the k values STEPS selects (one call per selected value, in order).
//   box    a filter function that returns a fresh container ["box", v] on every call. After every
//          call of the reused function the test overwrites element 0 of every box handed out so far
//          ("MUTATED"): what a call returns is the caller's, a later call must not show it.
//   reent  the re-entrant function of b7_helpers.go: every call evaluates the reused parsed function
//          again on the next document(s) of the history and returns its argument; the fresh
//          Retrieve uses the plain identity under the same name.
type c05Counter struct{ n int }

func (c *c05Counter) tick(v interface{}) (interface{}, error) {
	c.n++
	return float64(c.n), nil
}

func c05FnCase(r *Rng, class string) Record {
	var doc0 interface{}
	var p *Path
	acc := r.Chance(15)
	nc, nr, nt := 0, 0, 0
	for try := 0; try < 6 && nc+nr+nt == 0; try++ {
		switch r.Weighted([]int{50, 25, 25}) {
		case 0:
			doc0, p = b7GenRecCase(r, 30)
		case 1:
			doc0, p, _ = c04GenCase(r)
		default:
			doc0, p = GenCase(r, DefaultOpts())
		}
		if len(p.Fns) > 1 {
			p.Fns = p.Fns[:1]
		}
		pct := 70
		if class == "box" {
			pct = 25 // a container compared with a literal is rarely interesting; the end of the path is
		}
		nc, nr, _ = b7InjectFn(r, &Path{Head: HeadRoot, Steps: p.Steps}, pct, class)
		if nc+nr == 0 || r.Chance(pick(class == "box", 85, 40).(int)) {
			if len(p.Fns) == 1 && r.Chance(50) {
				p.Fns = []Fn{{Name: class}, p.Fns[0]}
			} else {
				p.Fns = append(p.Fns, Fn{Name: class})
			}
			nt = 1
		}
	}
	text := Render(p, r)
	L := r.Range(2, 6)
	docs := []interface{}{doc0}
	kinds := []string{"base"}
	for len(docs) < L {
		switch r.Weighted([]int{35, 30, 10, 5, 20}) {
		case 0:
			docs = append(docs, c05Mutate(r, doc0, []int{8, 25, 60}[r.Intn(3)]))
			kinds = append(kinds, "variant")
		case 1:
			docs = append(docs, docs[r.Intn(len(docs))])
			kinds = append(kinds, "repeat")
		case 2:
			docs = append(docs, RebuildShuffled(docs[r.Intn(len(docs))], r))
			kinds = append(kinds, "rebuilt")
		case 3:
			docs = append(docs, c05FailDoc(r))
			kinds = append(kinds, "faildoc")
		default:
			docs = append(docs, b7AltDoc(r, docs[len(docs)-1], []int{10, 30}[r.Intn(2)]))
			kinds = append(kinds, "same-shape-variant-of-previous")
		}
	}
	docTexts := make([]string, L)
	for j := range docs {
		docTexts[j] = JSONText(docs[j])
	}
	rec := Record{Text: text, Doc: docTexts[0], Tags: append(stepTags(p), "class:fn-"+class)}
	rec.Info = map[string]interface{}{"accessor": acc, "history": docTexts, "history_kinds": kinds, "class": class}
	if nc+nr > 0 {
		rec.Tags = append(rec.Tags, "fn-"+class+":in-operand")
	}
	if nt > 0 {
		rec.Tags = append(rec.Tags, "fn-"+class+":at-the-end")
	}

	// the reused function and its circumstances
	ctr := &c05Counter{}
	var boxes [][]interface{}
	re := &b7Reent{}
	cfg := c05Config(acc, nil)
	switch class {
	case "tick":
		cfg.SetFilterFunction("tick", ctr.tick)
	case "box":
		cfg.SetFilterFunction("box", func(v interface{}) (interface{}, error) {
			b := []interface{}{"box", v}
			if len(boxes) < 4096 {
				boxes = append(boxes, b)
			}
			return b, nil
		})
	default:
		b7WithReent(&cfg, re)
	}
	freshRun := func(doc interface{}, base int) (Outcome, int) {
		fc := c05Config(acc, nil)
		fctr := &c05Counter{n: base}
		switch class {
		case "tick":
			fc.SetFilterFunction("tick", fctr.tick)
		case "box":
			fc.SetFilterFunction("box", func(v interface{}) (interface{}, error) { return []interface{}{"box", v}, nil })
		default:
			fc.SetFilterFunction(b7ReentName, fnID)
		}
		o := Run(text, DeepCopy(doc), &fc)
		return o, fctr.n
	}
	f, po := SafeParse(text, &cfg)
	if f == nil {
		rec.Viol = "generated path was rejected by Parse: " + po.Detail()
		rec.Class = "parse-reject"
		return rec
	}
	// `STEPS.tick()` with function-free STEPS: one call per selected value, in order
	seq := class == "tick" && nc+nr == 0 && len(p.Fns) == 1
	stepsText := ""
	if seq {
		stepsText = Render(&Path{Head: HeadRoot, Steps: p.Steps}, nil)
		Render(p, nil)
	}
	var held []c05Held
	flips, innerRan := 0, false
	prev := ""
	for j := range docs {
		if r.Chance(40) {
			fresh := c05Config(false, nil)
			c05Interleave(r, &fresh)
		}
		base := ctr.n
		eo, ecount := freshRun(docs[j], base)
		exp := c05Canon(eo)
		if class == b7ReentName {
			re.F, re.Budget = f, 200
			re.Docs = []interface{}{docs[(j+1)%L]}
			if L > 2 && r.Chance(40) {
				re.Docs = append(re.Docs, docs[(j+2)%L])
			}
		}
		before := re.Inner
		o := SafeCall(f, docs[j])
		re.F = nil
		innerRan = innerRan || re.Inner > before
		got := c05Canon(o)
		if got != exp {
			rec.Viol = fmt.Sprintf("call %d of the reused function (document %s) differs from a fresh Retrieve under the same circumstances: reused=%s fresh=%s", j, clip(docTexts[j], 300), clip(got, 300), clip(exp, 300))
			rec.Class = "history"
			return rec
		}
		if class == "tick" && ctr.n != ecount {
			rec.Viol = fmt.Sprintf("call %d of the reused function (document %s) called `tick` %d times, a fresh Retrieve %d times", j, clip(docTexts[j], 300), ctr.n-base, ecount-base)
			rec.Class = "history"
			return rec
		}
		if seq {
			plain := c05Config(acc, nil)
			so := Run(stepsText, DeepCopy(docs[j]), &plain)
			if so.OK && (!o.OK || len(o.Vals) != len(so.Vals)) {
				rec.Viol = fmt.Sprintf("call %d: %s selects %d values on %s, but with .tick() the outcome is %s", j, stepsText, len(so.Vals), clip(docTexts[j], 300), clip(got, 300))
				rec.Class = "tick-sequence"
				return rec
			}
			if so.OK {
				for k, v := range o.Vals {
					if a, isAcc := v.(jsonpath.Accessor); isAcc {
						v = a.Get()
					}
					if fv, isNum := v.(float64); !isNum || fv != float64(base+k+1) {
						rec.Viol = fmt.Sprintf("call %d: the counter stood at %d and %s selects %d values on %s, so .tick() must give %d…%d; got %s", j, base, stepsText, len(so.Vals), clip(docTexts[j], 300), base+1, base+len(so.Vals), clip(got, 300))
						rec.Class = "tick-sequence"
						return rec
					}
				}
			}
		}
		if re.Panic != "" {
			rec.Viol = "an inner evaluation of the reused function panicked: " + clip(re.Panic, 600)
			rec.Class = "abnormal"
			return rec
		}
		// the caller modifies what it was given
		for _, b := range boxes {
			b[0] = "MUTATED"
		}
		if o.OK {
			held = append(held, c05Held{res: o.Vals, text: c05ResText(o.Vals), call: j})
		}
		for _, h := range held {
			if t := c05ResText(h.res); t != h.text {
				rec.Viol = fmt.Sprintf("the slice returned by call %d changed after call %d: was %s now %s", h.call, j, clip(h.text, 300), clip(t, 300))
				rec.Class = "result-changed"
				return rec
			}
		}
		if j > 0 && exp != prev {
			flips++
		}
		prev = exp
	}
	if len(boxes) > 0 {
		rec.Tags = append(rec.Tags, "fn-box:boxes-mutated")
	}
	if ctr.n > 0 && class == "tick" {
		rec.Tags = append(rec.Tags, "fn-tick:called")
	}
	if seq {
		rec.Tags = append(rec.Tags, "fn-tick:sequence-oracle")
	}
	if innerRan {
		rec.Tags = append(rec.Tags, "fn-reent:inner-evaluation-ran")
	}
	if acc {
		rec.Tags = append(rec.Tags, "mode:accessor")
	}
	rec.Tags = append(rec.Tags, fmt.Sprintf("history:len-%d", L))
	if ctr.n > 0 || len(boxes) > 0 || innerRan {
		rec.Key = "fn-" + class + "/" + shapeKey(p) + fmt.Sprint(acc, flips > 0)
	}
	return rec
}
