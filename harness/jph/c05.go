package jph

import (
	"fmt"
	"strings"

	"github.com/AsaiYusuke/jsonpath"
)

// C05 — a parsed function is pure: each call depends only on its argument.
//
// One path is parsed once and called on a history of 2..8 documents (variants of one
// document whose scalars were changed so that consecutive calls flip filter outcomes,
// repeats of earlier documents, equal rebuilt documents, documents on which the call fails),
// interleaved with unrelated Parse/Retrieve calls that recycle the pooled buffers. Every call
// must equal a fresh Retrieve of the same path on that document (values, or error type and
// text). Result slices of earlier calls are re-read after every later call (unchanged) and
// some are scribbled on (later calls unaffected, scribbles stay). Two extra aggregate
// functions exist only here: `same` returns its argument slice as is, `keep` stores it; kept
// slices are re-read at the end. The package-level marker lists must print the same before
// and after.

type c05 struct{}

func init() { Props["C05"] = c05{} }

func (c05) Count(tier string) int {
	if tier == "thorough" {
		return 300000
	}
	return 20000
}

type c05Kept struct {
	arg  []interface{}
	text string
}

type c05Rec struct{ kept []c05Kept }

func c05ResText(vs []interface{}) string {
	parts := make([]string, len(vs))
	for i, v := range vs {
		parts[i] = ResSexp(v)
	}
	return strings.Join(parts, " ")
}

// c05Config: the registry plus `same` and `keep`.
func c05Config(acc bool, rec *c05Rec) jsonpath.Config {
	cfg := Config(acc, nil)
	cfg.SetAggregateFunction("same", func(vs []interface{}) (interface{}, error) { return vs, nil })
	cfg.SetAggregateFunction("keep", func(vs []interface{}) (interface{}, error) {
		if rec != nil && len(rec.kept) < 64 {
			rec.kept = append(rec.kept, c05Kept{arg: vs, text: c05ResText(vs)})
		}
		return float64(len(vs)), nil
	})
	return cfg
}

func c05Canon(o Outcome) string {
	if o.OK {
		return "ok " + c05ResText(o.Vals)
	}
	if o.ErrKind == "panic" {
		return "panic " + firstLines(o.Panic, 1)
	}
	return "err " + o.ErrKind + " | " + o.Msg
}

func c05Scalar(r *Rng, v interface{}) interface{} {
	if f, ok := v.(float64); ok && r.Chance(60) {
		if r.Chance(50) {
			return f + 1
		}
		return f - 1
	}
	return GenScalar(r)
}

// c05Mutate: a new document; every scalar changes with probability rate %, members are
// dropped / added now and then.
func c05Mutate(r *Rng, v interface{}, rate int) interface{} {
	switch t := v.(type) {
	case []interface{}:
		out := make([]interface{}, 0, len(t)+1)
		for _, x := range t {
			if r.Chance(rate / 6) {
				continue
			}
			out = append(out, c05Mutate(r, x, rate))
		}
		if r.Chance(rate / 6) {
			out = append(out, GenScalar(r))
		}
		return out
	case map[string]interface{}:
		out := make(map[string]interface{}, len(t))
		for _, k := range sortedKeys(t) {
			if r.Chance(rate / 5) {
				continue
			}
			out[k] = c05Mutate(r, t[k], rate)
		}
		if r.Chance(rate / 6) {
			out[r.Pick(BaseKeys)] = GenScalar(r)
		}
		return out
	}
	if r.Chance(rate) {
		return c05Scalar(r, v)
	}
	return v
}

var c05JunkPaths = []string{"$..*", "$.*", "$[*]", "$[?(@.a == 1)]", "$[?(1 == 1)]", "$..[?(@ != 'q')]", "$[?(@ != $.zz)]",
	"$.*.count()", "$[*].same()", "$..*.keep()", "$[?($[0] == 'JUNK0')]", "$[0,1,2,3,4,5,6,7]", "$['a','b','c','d']", "$[", "$.x.y"}

func c05JunkDoc(r *Rng) interface{} {
	n := r.Range(3, 40)
	if r.Chance(50) {
		a := make([]interface{}, n)
		for i := range a {
			a[i] = fmt.Sprintf("JUNK%d", i)
		}
		return a
	}
	m := map[string]interface{}{}
	for i := 0; i < n; i++ {
		m[fmt.Sprintf("j%02d", i)] = fmt.Sprintf("JUNK%d", i)
	}
	for _, k := range BaseKeys {
		if r.Chance(50) {
			m[k] = "JUNK" + k
		}
	}
	return m
}

// c05Interleave: unrelated Parse / Retrieve calls
func c05Interleave(r *Rng, cfg *jsonpath.Config) {
	n := r.Range(1, 3)
	for k := 0; k < n; k++ {
		Run(r.Pick(c05JunkPaths), c05JunkDoc(r), cfg)
	}
}

func c05FailDoc(r *Rng) interface{} {
	switch r.Intn(6) {
	case 0:
		return nil
	case 1:
		return float64(r.Range(-2, 5))
	case 2:
		return "ab"
	case 3:
		return map[string]interface{}{}
	case 4:
		return []interface{}{}
	}
	return true
}

type c05Held struct {
	res       []interface{}
	text      string
	call      int
	scribbled bool
}

func (c05) Exec(seed int64, i int, tier string) Record {
	r := CaseRng(seed, "C05", i)
	var doc0 interface{}
	var p *Path
	var gtags []string
	var text string
	acc := r.Chance(25)
	// prefer cases whose base document answers without an error (the variants flip from there)
	for attempt := 0; ; attempt++ {
		gtags = nil
		if r.Chance(60) {
			doc0, p, gtags = c04GenCase(r)
		} else {
			doc0, p = GenCase(r, DefaultOpts())
		}
		// own aggregate functions at the end of the path
		switch r.Weighted([]int{65, 20, 15}) {
		case 1:
			if len(p.Fns) >= 2 {
				p.Fns = p.Fns[:1]
			}
			p.Fns = append(p.Fns, Fn{Agg: true, Name: "same"})
			gtags = append(gtags, "fn:same")
		case 2:
			if len(p.Fns) >= 2 {
				p.Fns = p.Fns[:1]
			}
			p.Fns = append(p.Fns, Fn{Agg: true, Name: "keep"})
			if r.Chance(40) {
				p.Fns = append(p.Fns, Fn{Name: "id"})
			}
			gtags = append(gtags, "fn:keep")
		}
		text = Render(p, r)
		if attempt >= 5 || r.Chance(20) {
			break
		}
		trial := c05Config(acc, nil)
		if Run(text, DeepCopy(doc0), &trial).OK {
			break
		}
	}

	// the history
	L := r.Range(2, 8)
	docs := make([]interface{}, 0, L)
	docs = append(docs, doc0)
	kinds := []string{"base"}
	for len(docs) < L {
		switch r.Weighted([]int{50, 15, 10, 10, 15}) {
		case 0:
			docs = append(docs, c05Mutate(r, doc0, []int{8, 25, 60}[r.Intn(3)]))
			kinds = append(kinds, "variant")
		case 1:
			docs = append(docs, docs[r.Intn(len(docs))])
			kinds = append(kinds, "repeat")
		case 2:
			docs = append(docs, RebuildShuffled(docs[r.Intn(len(docs))], r))
			kinds = append(kinds, "rebuilt")
		case 3:
			docs = append(docs, c05FailDoc(r))
			kinds = append(kinds, "faildoc")
		default:
			docs = append(docs, c05Mutate(r, docs[len(docs)-1], []int{8, 25}[r.Intn(2)]))
			kinds = append(kinds, "variant-of-previous")
		}
	}
	for j := range docs {
		if kinds[j] != "repeat" && r.Chance(30) {
			docs[j] = ToJnum(docs[j])
			kinds[j] += "+jnum"
		}
	}
	docTexts := make([]string, L)
	for j := range docs {
		docTexts[j] = JSONText(docs[j])
	}
	rec := Record{Text: text, Doc: docTexts[0], Tags: append(stepTags(p), gtags...)}
	rec.Info = map[string]interface{}{"accessor": acc, "history": docTexts, "history_kinds": kinds}

	markers := jsonpath.VerifMarkers()
	fresh := c05Config(acc, nil)

	// what a fresh Retrieve answers for every document of the history
	exp := make([]string, L)
	for j := range docs {
		o := Run(text, DeepCopy(docs[j]), &fresh)
		if j == 0 && !o.OK && (o.ErrKind == "syntax" || o.ErrKind == "argument" || o.ErrKind == "notfound" || o.ErrKind == "notsupported") {
			rec.Viol = "generated path was rejected by Parse: " + o.Detail()
			rec.Class = "parse-reject"
			return rec
		}
		exp[j] = c05Canon(o)
	}

	recd := &c05Rec{}
	cfg := c05Config(acc, recd)
	f, po := SafeParse(text, &cfg)
	if f == nil {
		rec.Viol = "Parse failed after it had succeeded: " + po.Detail()
		rec.Class = "history"
		return rec
	}
	var held []c05Held
	interleaved := false
	for j := range docs {
		if r.Chance(55) {
			c05Interleave(r, &fresh)
			interleaved = true
		}
		o := SafeCall(f, docs[j])
		got := c05Canon(o)
		if got != exp[j] {
			rec.Viol = fmt.Sprintf("call %d of the reused function (document %s) differs from a fresh Retrieve: reused=%s fresh=%s", j, clip(docTexts[j], 300), clip(got, 300), clip(exp[j], 300))
			rec.Class = "history"
			return rec
		}
		if o.OK {
			h := c05Held{res: o.Vals, text: c05ResText(o.Vals), call: j}
			if r.Chance(50) {
				for k := range h.res {
					h.res[k] = "SCRIBBLED"
				}
				h.text = c05ResText(h.res)
				h.scribbled = true
			}
			held = append(held, h)
		}
		for _, h := range held {
			if t := c05ResText(h.res); t != h.text {
				rec.Viol = fmt.Sprintf("the slice returned by call %d changed after call %d: was %s now %s", h.call, j, clip(h.text, 300), clip(t, 300))
				rec.Class = "result-changed"
				return rec
			}
		}
	}
	c05Interleave(r, &fresh)
	for _, h := range held {
		if t := c05ResText(h.res); t != h.text {
			rec.Viol = fmt.Sprintf("the slice returned by call %d changed later: was %s now %s", h.call, clip(h.text, 300), clip(t, 300))
			rec.Class = "result-changed"
			return rec
		}
	}
	for n, k := range recd.kept {
		if t := c05ResText(k.arg); t != k.text {
			rec.Viol = fmt.Sprintf("the argument slice handed to aggregate call %d changed after the call: was %s now %s", n, clip(k.text, 300), clip(t, 300))
			rec.Class = "argument-changed"
			return rec
		}
	}
	// fresh Retrieves answer as before the history
	for j := range docs {
		if got := c05Canon(Run(text, DeepCopy(docs[j]), &fresh)); got != exp[j] {
			rec.Viol = fmt.Sprintf("a fresh Retrieve on document %d answers differently after the history: before=%s after=%s", j, clip(exp[j], 300), clip(got, 300))
			rec.Class = "post-history"
			return rec
		}
	}
	if m := jsonpath.VerifMarkers(); m != markers {
		rec.Viol = "package-level marker lists changed: before=" + markers + " after=" + m
		rec.Class = "markers"
		return rec
	}

	// the caller updates a document it passed before IN PLACE (same map / slice object, new content)
	// and calls the reused function again: the answer must be the fresh answer for the new content.
	if r.Chance(45) {
		target := docs[0]
		variant := c05Mutate(r, doc0, []int{25, 60, 100}[r.Intn(3)])
		if c05OverwriteInPlace(target, variant) {
			want := c05Canon(Run(text, DeepCopy(variant), &fresh))
			got := c05Canon(SafeCall(f, target))
			rec.Tags = append(rec.Tags, "inplace-update")
			if got != want {
				rec.Viol = fmt.Sprintf("after the document object of call 0 was updated in place to %s the reused function answers %s, a fresh Retrieve %s", clip(JSONText(variant), 300), clip(got, 300), clip(want, 300))
				rec.Class = "history-inplace"
				return rec
			}
		}
	}

	// evidence
	trans := map[string]bool{}
	flips := 0
	for j := 1; j < L; j++ {
		a, b := exp[j-1][:2], exp[j][:2]
		trans[a+">"+b] = true
		if exp[j] != exp[j-1] {
			flips++
		}
	}
	sig := ""
	for _, t := range []string{"ok>ok", "ok>er", "er>ok", "er>er"} {
		if trans[t] {
			rec.Tags = append(rec.Tags, "history:"+t)
			sig += t[:1] + t[3:4]
		}
	}
	if flips > 0 {
		rec.Tags = append(rec.Tags, "outcome-flipped")
	}
	rec.Tags = append(rec.Tags, fmt.Sprintf("history:len-%d", L))
	if interleaved {
		rec.Tags = append(rec.Tags, "interleaved")
	}
	if acc {
		rec.Tags = append(rec.Tags, "mode:accessor")
	}
	if len(recd.kept) > 0 {
		rec.Tags = append(rec.Tags, "kept-arguments")
	}
	scr := false
	for _, h := range held {
		scr = scr || h.scribbled
	}
	if scr {
		rec.Tags = append(rec.Tags, "scribbled")
	}
	if flips > 0 {
		rec.Key = shapeKey(p) + "/" + sig + fmt.Sprint(acc)
	}
	return rec
}

// c05OverwriteInPlace gives `target` (a map or slice object) the content of `src` without replacing
// the object itself (slices: only when the lengths agree). Reports whether it could.
func c05OverwriteInPlace(target, src interface{}) bool {
	switch t := target.(type) {
	case map[string]interface{}:
		sm, ok := src.(map[string]interface{})
		if !ok {
			return false
		}
		for k := range t {
			delete(t, k)
		}
		for k, v := range sm {
			t[k] = DeepCopy(v)
		}
		return true
	case []interface{}:
		ss, ok := src.([]interface{})
		if !ok || len(ss) != len(t) {
			return false
		}
		for i := range ss {
			t[i] = DeepCopy(ss[i])
		}
		return true
	}
	return false
}
