package jph

import (
	"fmt"
	"reflect"
	"sort"
	"strings"
	"sync"

	"github.com/AsaiYusuke/jsonpath"
)

// C04 — retrieval never modifies the source document.
//
// Every case: a document and a path with at least one filter whose query is drawn with
// emphasis on == != && || ! over operands that are present, missing, mistyped or `$`-rooted.
// The document is snapshot (deep copy + canonical text) before the first call and compared
// after every call — Parse+call, Retrieve, repeated calls, failing calls, accessor mode with
// every Get (never Set) — and, for a share of the cases, after several goroutines evaluated
// parsed functions on the one shared document. The model is asked `(q writes …)` = 0.
// One case in 25 (class scale): the document has padded containers (arrays of 17..300 elements whose
// new elements are records like their siblings, objects of 16..70 members; Inflate in b9_scale.go), and
// 60% of these paths lead to a padded container and put the emphasised filter on it.
// One case in 40 (class foreign-leaf, c04ForeignCase in b12_helpers.go): 1..3 members / elements are Go values
// outside the JSON model (map[interface{}]interface{}, map[string]int, []string … also one level inside JSON
// containers), reached by child / index / wildcard steps; document and an independently built twin must stay
// reflect.DeepEqual (dynamic types of these leaves included). No model question for this class.

type c04 struct{}

func init() { Props["C04"] = c04{} }

func (c04) Count(tier string) int {
	if tier == "thorough" {
		return 400000
	}
	return 20000
}

// ---------- generator (also used by C05 and C06) ----------

type c04Gen struct {
	r    *Rng
	o    GenOpts
	root interface{}
	tags map[string]bool
}

func (g *c04Gen) tag(s string) { g.tags[s] = true }

func c04Child(r *Rng, k string) *Step {
	return &Step{Kind: StChild, Key: k, Bracket: r.Chance(20), DQuote: r.Chance(30)}
}

func c04Index(n int64) *Step {
	return &Step{Kind: StUnion, Subs: []Sub{{Kind: SubIdx, N: n}}}
}

// opPath: a single-valued operand path from `start` that is present / missing / mistyped
// for `start` (the representative member for `@`, the root for `$`).
func (g *c04Gen) opPath(head int, start interface{}, known bool) (*Path, interface{}, bool) {
	r := g.r
	p := &Path{Head: head}
	mode := r.Weighted([]int{58, 26, 16})
	if !known {
		mode = 1
	}
	maxn := 2
	if head == HeadRoot {
		maxn = 3
	}
	n := r.Weighted([]int{15, 55, 25, 5})
	if n > maxn {
		n = maxn
	}
	if head == HeadRoot && n == 0 && r.Chance(70) {
		n = 1
	}
	node := start
	var prev interface{}
walk:
	for i := 0; i < n; i++ {
		if c04IsContainer(node) {
			prev = node
		}
		switch t := node.(type) {
		case map[string]interface{}:
			if len(t) == 0 {
				break walk
			}
			ks := sortedKeys(t)
			k := ks[r.Intn(len(ks))]
			p.Steps = append(p.Steps, c04Child(r, k))
			node = t[k]
		case []interface{}:
			if len(t) == 0 {
				break walk
			}
			ix := r.Intn(len(t))
			m := int64(ix)
			if r.Chance(25) {
				m = int64(ix - len(t))
			}
			p.Steps = append(p.Steps, c04Index(m))
			node = t[ix]
		default:
			break walk
		}
	}
	hd := "@"
	if head == HeadRoot {
		hd = "$"
	}
	if g.o.Funcs && r.Chance(8) {
		p.Fns = g.o.genFns(r, 1)
		g.tag("operand:" + hd + "-fn")
		return p, nil, false
	}
	switch mode {
	case 0:
		g.tag("operand:" + hd + "-present")
		return p, node, true
	case 1:
		if !c04IsContainer(node) && len(p.Steps) > 0 && prev != nil {
			// the walk ended on a scalar: miss one level higher instead
			p.Steps = p.Steps[:len(p.Steps)-1]
			node = prev
		}
		switch t := node.(type) {
		case map[string]interface{}:
			k := "zz"
			for try := 0; try < 6; try++ {
				c := g.o.key(r)
				if _, in := t[c]; !in {
					k = c
					break
				}
			}
			p.Steps = append(p.Steps, c04Child(r, k))
			g.tag("operand:" + hd + "-missing")
		case []interface{}:
			m := int64(len(t) + r.Range(0, 2))
			if r.Chance(30) {
				m = -int64(len(t) + 1 + r.Range(0, 2))
			}
			p.Steps = append(p.Steps, c04Index(m))
			g.tag("operand:" + hd + "-missing")
		default:
			p.Steps = append(p.Steps, c04Child(r, g.o.key(r)))
			g.tag("operand:" + hd + "-mistyped")
		}
	default:
		switch node.(type) {
		case map[string]interface{}:
			p.Steps = append(p.Steps, c04Index(int64(r.Range(-1, 1))))
		case []interface{}:
			p.Steps = append(p.Steps, c04Child(r, g.o.key(r)))
		default:
			if r.Chance(50) {
				p.Steps = append(p.Steps, c04Child(r, g.o.key(r)))
			} else {
				p.Steps = append(p.Steps, c04Index(0))
			}
		}
		g.tag("operand:" + hd + "-mistyped")
	}
	return p, nil, false
}

var c04KindName = []string{"lit", "@", "$"}

// operand pairs (left kind, right kind, weight); never @ with @
var c04Pairs = [][3]int{{1, 0, 22}, {0, 1, 10}, {1, 2, 20}, {2, 1, 12}, {2, 0, 12}, {0, 2, 6}, {2, 2, 12}, {0, 0, 6}}

func (g *c04Gen) cmp(container interface{}, op int) *Query {
	r := g.r
	member, has := pickMember(r, container)
	ws := make([]int, len(c04Pairs))
	for i, p := range c04Pairs {
		ws[i] = p[2]
	}
	pr := c04Pairs[r.Weighted(ws)]
	kl, kr := pr[0], pr[1]
	mkPath := func(kind int) (*Operand, interface{}, bool) {
		if kind == 1 {
			p, v, ok := g.opPath(HeadCur, member, has)
			return &Operand{Path: p}, v, ok
		}
		p, v, ok := g.opPath(HeadRoot, g.root, true)
		return &Operand{Path: p}, v, ok
	}
	mkLit := func(other interface{}, ok bool) *Operand {
		l := litFor(r, other, ok)
		if op >= 2 && l.Kind != LitNum {
			l = Lit{Kind: LitNum, N: int64(r.Range(-2, 5))}
		}
		return &Operand{IsLit: true, Lit: l}
	}
	var L, R *Operand
	switch {
	case kl == 0 && kr == 0:
		L = mkLit(nil, false)
		if r.Chance(50) {
			R = &Operand{IsLit: true, Lit: L.Lit}
		} else {
			R = mkLit(nil, false)
		}
	case kl == 0:
		var v interface{}
		var ok bool
		R, v, ok = mkPath(kr)
		L = mkLit(v, ok)
	case kr == 0:
		var v interface{}
		var ok bool
		L, v, ok = mkPath(kl)
		R = mkLit(v, ok)
	default:
		L, _, _ = mkPath(kl)
		R, _, _ = mkPath(kr)
	}
	g.tag("cmp:" + OpNames[op] + ":" + c04KindName[kl] + "-" + c04KindName[kr])
	return &Query{Kind: QCmp, Op: op, L: L, R: R}
}

func (g *c04Gen) basic(container interface{}) *Query {
	r := g.r
	switch r.Weighted([]int{62, 14, 12, 12}) {
	case 0:
		return g.cmp(container, r.Weighted([]int{50, 50}))
	case 1:
		member, has := pickMember(r, container)
		head := HeadCur
		if r.Chance(25) {
			head = HeadRoot
		}
		var p *Path
		if r.Chance(20) {
			p = g.o.genPathFrom(r, g.root, pick(head == HeadCur, member, g.root), head, 2, false)
		} else if head == HeadCur {
			p, _, _ = g.opPath(HeadCur, member, has)
		} else {
			p, _, _ = g.opPath(HeadRoot, g.root, true)
		}
		neg := r.Chance(55)
		if neg {
			g.tag("logic:not")
		} else {
			g.tag("exist")
		}
		return &Query{Kind: QExist, Neg: neg, P: p}
	case 2:
		return g.cmp(container, 2+r.Intn(4))
	}
	g.tag("stock-query")
	return g.o.genBasicQuery(r, g.root, container)
}

func (g *c04Gen) query(container interface{}, depth int) *Query {
	r := g.r
	if depth > 0 && r.Chance(55) {
		k := QAnd
		if r.Chance(50) {
			k = QOr
			g.tag("logic:or")
		} else {
			g.tag("logic:and")
		}
		return &Query{Kind: k, A: g.query(container, depth-1), B: g.query(container, depth-1), Paren: r.Chance(20)}
	}
	return g.basic(container)
}

func c04IsContainer(v interface{}) bool {
	switch v.(type) {
	case map[string]interface{}, []interface{}:
		return true
	}
	return false
}

// filterStep: an emphasised filter over `node`, sometimes behind `..`
func (g *c04Gen) filterStep(node interface{}) *Step {
	s := &Step{Kind: StFilter, Q: g.query(node, 2)}
	switch node.(type) {
	case map[string]interface{}:
		g.tag("filter:on-object")
	case []interface{}:
		g.tag("filter:on-array")
	}
	if g.r.Chance(12) {
		return &Step{Kind: StDesc, Inner: s}
	}
	return s
}

// path: 1..4 steps following the document with exactly one emphasised filter placed on a
// container (other steps come from the stock generator and may be filters too).
func (g *c04Gen) path(maxSteps int) *Path {
	r := g.r
	p := &Path{Head: HeadRoot}
	n := r.Range(1, maxSteps)
	placed := false
	node, ok := g.root, true
	for i := 0; i < n; i++ {
		if !placed && ok && c04IsContainer(node) && (r.Chance(45) || i == n-1) {
			p.Steps = append(p.Steps, g.filterStep(node))
			placed = true
			node, ok = pickMember(r, node)
			continue
		}
		var s *Step
		s, node, ok = g.o.genStep(r, g.root, node, ok, true)
		p.Steps = append(p.Steps, s)
	}
	if !placed {
		if ok && c04IsContainer(node) {
			p.Steps = append(p.Steps, g.filterStep(node))
		} else {
			p.Steps = append([]*Step{g.filterStep(g.root)}, p.Steps...)
			if len(p.Steps) > maxSteps {
				p.Steps = p.Steps[:maxSteps]
			}
		}
	}
	if g.o.Funcs && r.Chance(20) {
		p.Fns = g.o.genFns(r, 2)
	}
	return p
}

func c04Opts(r *Rng) GenOpts {
	return GenOpts{MaxDepth: 4, Funcs: true, Filters: true, MaxSteps: 4, ErrBias: 12, OddKeys: r.Chance(20)}
}

// c04GenCase: document + filter-heavy path + generation tags.
func c04GenCase(r *Rng) (interface{}, *Path, []string) {
	o := c04Opts(r)
	doc := GenDoc(r, o, 0)
	g := &c04Gen{r: r, o: o, root: doc, tags: map[string]bool{}}
	p := g.path(4)
	return doc, p, c04SortedTags(g.tags)
}

// c04ScaleCase: class scale — a document with padded containers and a filter-heavy path over it.
func c04ScaleCase(r *Rng, maxNodes int) (interface{}, *Path, []string, []Inflated) {
	o := c04Opts(r)
	doc, inf := ScaleDoc(r, o, InflateOpts{Arrays: true, Objects: r.Chance(35), MaxNodes: maxNodes, ArrLens: []int{17, 48, 64, 65, 130, 257, 300}})
	g := &c04Gen{r: r, o: o, root: doc, tags: map[string]bool{}}
	var p *Path
	if len(inf) > 0 && r.Chance(60) {
		x := inf[r.Intn(len(inf))]
		p = &Path{Head: HeadRoot}
		node := doc
		for _, sg := range x.Loc {
			switch {
			case r.Chance(15):
				p.Steps = append(p.Steps, &Step{Kind: StWild, Bracket: r.Chance(50)})
			case sg.IsIdx:
				p.Steps = append(p.Steps, c04Index(int64(sg.Idx)))
			default:
				p.Steps = append(p.Steps, c04Child(r, sg.Key))
			}
			node, _ = c12At(node, []c12Seg{sg})
		}
		p.Steps = append(p.Steps, g.filterStep(node))
		m, ok := pickMember(r, node)
		for n := r.Weighted([]int{55, 35, 10}); n > 0; n-- {
			var st *Step
			st, m, ok = o.genStep(r, doc, m, ok, true)
			p.Steps = append(p.Steps, st)
		}
		if o.Funcs && r.Chance(15) {
			p.Fns = o.genFns(r, 2)
		}
		g.tag("scale:filter-on-padded-container")
	} else {
		p = g.path(4)
	}
	g.tag("class:scale")
	for _, t := range ScaleTags(inf) {
		g.tag(t)
	}
	return doc, p, c04SortedTags(g.tags), inf
}

func c04SortedTags(m map[string]bool) []string {
	out := make([]string, 0, len(m))
	for k := range m {
		out = append(out, k)
	}
	sort.Strings(out)
	return out
}

// ---------- the check ----------

func c04Changed(doc, snap interface{}, snapText string) string {
	if !reflect.DeepEqual(doc, snap) {
		return "document changed: before=" + clip(snapText, 400) + " after=" + clip(ValSexp(doc), 400)
	}
	if t := ValSexp(doc); t != snapText {
		return "document changed: before=" + clip(snapText, 400) + " after=" + clip(t, 400)
	}
	return ""
}

func c04FilterShapes(p *Path) string {
	var b strings.Builder
	var walk func(s *Step)
	walk = func(s *Step) {
		switch s.Kind {
		case StFilter:
			b.WriteString("{" + queryShape(s.Q) + "}")
		case StDesc:
			b.WriteString("..")
			walk(s.Inner)
		}
	}
	for _, s := range p.Steps {
		walk(s)
	}
	return b.String()
}

// c04Touch reads every result (accessors through Get only).
func c04Touch(out Outcome) {
	for _, v := range out.Vals {
		if a, ok := v.(jsonpath.Accessor); ok && a.Get != nil {
			_ = a.Get()
		}
	}
}

func (c04) Exec(seed int64, i int, tier string) Record {
	r := CaseRng(seed, "C04", i)
	if i%40 == 23 {
		return c04ForeignCase(r) // class foreign-leaf (b12_helpers.go)
	}
	var doc interface{}
	var p *Path
	var gtags []string
	if i%25 == 11 {
		doc, p, gtags, _ = c04ScaleCase(r, 900)
	} else {
		doc, p, gtags = c04GenCase(r)
	}
	text := Render(p, r)
	jn := r.Chance(40)
	if jn {
		doc = ToJnum(doc)
	}
	acc := r.Chance(35)
	rec := Record{Text: text, Doc: JSONText(doc), Tags: append(stepTags(p), gtags...)}
	rec.Info = map[string]interface{}{"accessor": acc, "jnum": jn}
	snap := DeepCopy(doc)
	snapText := ValSexp(doc)
	cfg := ConfigScramble(acc) // aggregate functions scribble on their argument: it must be the library's own copy

	jsonpath.VerifEnable(true)
	f, out := SafeParse(text, &cfg)
	if f == nil {
		jsonpath.VerifEnable(false)
		if out.ErrKind == "panic" {
			rec.Viol = "Parse panicked: " + out.Panic
			rec.Class = "abnormal"
		} else {
			rec.Viol = "generated path was rejected by Parse: " + out.Detail()
			rec.Class = "parse-reject"
		}
		return rec
	}
	fail := func(when string, what string) Record {
		jsonpath.VerifEnable(false)
		rec.Viol = when + ": " + what
		rec.Class = "doc-modified"
		return rec
	}
	if d := c04Changed(doc, snap, snapText); d != "" {
		return fail("after Parse", d)
	}
	out = SafeCall(f, doc)
	lists := jsonpath.VerifFilterLists()
	jsonpath.VerifEnable(false)
	if d := c04Changed(doc, snap, snapText); d != "" {
		return fail("after the first call ("+clip(out.Detail(), 200)+")", d)
	}
	if out.ErrKind == "panic" {
		rec.Viol = "call panicked: " + out.Panic
		rec.Class = "abnormal"
		return rec
	}
	c04Touch(out)
	if d := c04Changed(doc, snap, snapText); d != "" {
		return fail("after reading the results", d)
	}
	// the same function again, then Retrieve (a fresh tree), then the function once more
	reps := r.Range(1, 3)
	for k := 0; k < reps; k++ {
		var o2 Outcome
		how := "repeated call"
		if k == 1 {
			o2 = Run(text, doc, &cfg)
			how = "Retrieve"
		} else {
			o2 = SafeCall(f, doc)
		}
		c04Touch(o2)
		if d := c04Changed(doc, snap, snapText); d != "" {
			return fail("after "+how, d)
		}
	}
	// several goroutines on the one shared document
	shareW := 10
	if tier == "thorough" {
		shareW = 25
	}
	if r.Chance(shareW) {
		g := r.Range(2, 6)
		rounds := r.Range(2, 8)
		// a second path over the same document
		g2 := &c04Gen{r: r, o: c04Opts(r), root: snap, tags: map[string]bool{}}
		text2 := Render(g2.path(3), r)
		f2, _ := SafeParse(text2, &cfg)
		var wg sync.WaitGroup
		start := make(chan struct{})
		for w := 0; w < g; w++ {
			wg.Add(1)
			go func(w int) {
				defer wg.Done()
				<-start
				for k := 0; k < rounds; k++ {
					if f2 != nil && (w+k)%2 == 1 {
						c04Touch(SafeCall(f2, doc))
					} else {
						c04Touch(SafeCall(f, doc))
					}
				}
			}(w)
		}
		close(start)
		wg.Wait()
		rec.Tags = append(rec.Tags, "shared-goroutines")
		if c06Race {
			rec.Tags = append(rec.Tags, "race-detector:on")
		}
		rec.Info["second_path"] = text2
		if d := c04Changed(doc, snap, snapText); d != "" {
			return fail(fmt.Sprintf("after %d goroutines shared the document (second path %s)", g, text2), d)
		}
	}

	// how far did evaluation get
	nonEmpty := false
	for _, l := range lists {
		var n int
		if _, err := fmt.Sscanf(l, "(vl %d", &n); err == nil && n > 0 {
			nonEmpty = true
		}
	}
	if len(lists) > 0 {
		rec.Tags = append(rec.Tags, "filter-evaluated")
	}
	if nonEmpty {
		rec.Tags = append(rec.Tags, "filter-evaluated-on-members")
	}
	if out.OK {
		rec.Tags = append(rec.Tags, "outcome:ok")
	} else {
		rec.Tags = append(rec.Tags, "outcome:err-"+out.ErrKind)
	}
	if acc {
		rec.Tags = append(rec.Tags, "mode:accessor")
	}
	if jn {
		rec.Tags = append(rec.Tags, "decode:jnum")
	}
	a := "f"
	if acc {
		a = "t"
	}
	rec.Class = "model-writes" // class of a disagreement with the model's write log
	rec.Q = []LeanQ{{Driver: "impl", Line: "(q writes " + a + " " + p.Sexp() + " " + snapText + ")", Expect: "(q 0)",
		What: "writes to lists that are not fresh, in the model"}}
	if nonEmpty {
		rec.Key = c04FilterShapes(p) + "/" + fmt.Sprint(out.OK, acc, jn)
	}
	return rec
}
