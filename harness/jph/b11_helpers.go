package jph

import (
	"encoding/json"
	"fmt"
	"math"
	"runtime/debug"
	"sort"
	"strconv"
	"strings"

	"github.com/AsaiYusuke/jsonpath"
)

// Round-8 helpers (b11): case classes found missing by the adversarial seeded changes.

// ---------- a user function that panics after some results were collected ----------
//
// b11PanicProbe: 2..4 "follow-up" evaluations (path, document) are evaluated in a quiet state; then
// 1..3 rounds of { a value-group path whose user function panics at its k-th call (k >= 2, so at
// least one result was already collected; the harness recovers) ; the follow-ups again, in a drawn
// order }. Every follow-up must answer exactly what it answered before the panic (an evaluation
// depends only on its argument, whatever happened in an earlier call that ended in a panic of the
// CALLER's function), and must have C03's shape. Model-free.

const b11PanicMsg = "b11: user function panics on purpose"

type b11Follow struct {
	path   string
	doc    interface{}
	f      Parsed
	before string
}

func b11PanicDoc(r *Rng, kind int, n int) interface{} {
	val := func(i int) interface{} {
		if kind == 6 {
			return map[string]interface{}{"a": fmt.Sprintf("STALE%d", i)}
		}
		if r.Chance(50) {
			return fmt.Sprintf("STALE%d", i)
		}
		return float64(1000 + i)
	}
	switch kind {
	case 1, 5: // object
		m := map[string]interface{}{}
		for i := 0; i < n; i++ {
			m[string(rune('a'+i))] = val(i)
		}
		return m
	case 2: // nested
		a := make([]interface{}, n)
		for i := range a {
			a[i] = val(i)
		}
		return map[string]interface{}{"a": a}
	}
	a := make([]interface{}, n)
	for i := range a {
		a[i] = val(i)
	}
	return a
}

func b11PanicPath(kind, n int) string {
	switch kind {
	case 0:
		return "$[*].boom()"
	case 1:
		return "$.*.boom()"
	case 2:
		return "$..*.boom()"
	case 3:
		return fmt.Sprintf("$[0:%d].boom()", n)
	case 4:
		return "$[?(@ != 'zz')].boom()"
	case 5:
		names := make([]string, n)
		for i := range names {
			names[i] = "'" + string(rune('a'+i)) + "'"
		}
		return "$[" + strings.Join(names, ",") + "].boom()"
	case 6:
		return "$[?(@.a.boom() != 'zz')]"
	case 7:
		idx := make([]string, n)
		for i := range idx {
			idx[i] = fmt.Sprint(i)
		}
		return "$[" + strings.Join(idx, ",") + "].boom()"
	}
	return "$[*].boom().aggboom()"
}

var b11QuietPaths = []string{"$[*].zzz", "$..zzz", "$[?(@.zzz)]", "$.*.zzz", "$[0:3].zzz", "$['zzz','yyy']", "$.x", "$[0]", "$[*].a", "$.*", "$..a", "$[?(@.a)]", "$[*]", "$..*", "$[*].count()", "$.*.a.list()"}

func b11QuietDoc(r *Rng) interface{} {
	switch r.Intn(5) {
	case 0:
		return []interface{}{map[string]interface{}{"a": 1.0}, map[string]interface{}{"b": 2.0}}
	case 1:
		return map[string]interface{}{"x": 9.0}
	case 2:
		return map[string]interface{}{"x": map[string]interface{}{"a": "v"}, "y": []interface{}{1.0, 2.0}}
	case 3:
		return []interface{}{}
	}
	return GenDoc(r, DefaultOpts(), 0)
}

// b11PanicProbe returns a violation text ("" = none), tags and replay information.
func b11PanicProbe(r *Rng, acc bool) (viol string, tags []string, info map[string]interface{}) {
	info = map[string]interface{}{"accessor": acc}
	cfg := Config(acc, nil)
	// follow-ups
	nf := r.Range(2, 4)
	var fs []*b11Follow
	for len(fs) < nf {
		fw := &b11Follow{}
		if r.Chance(65) {
			fw.path, fw.doc = r.Pick(b11QuietPaths), b11QuietDoc(r)
		} else {
			d, p := GenCase(r, DefaultOpts())
			fw.path, fw.doc = Render(p, r), d
		}
		f, _ := SafeParse(fw.path, &cfg)
		if f == nil {
			continue
		}
		fw.f = f
		fs = append(fs, fw)
	}
	var texts []string
	for _, fw := range fs {
		fw.before = c05Canon(SafeCall(fw.f, fw.doc))
		texts = append(texts, fw.path+"  on  "+clip(JSONText(fw.doc), 300))
	}
	info["followups"] = texts

	rounds := r.Range(1, 3)
	for round := 0; round < rounds; round++ {
		kind := r.Intn(9)
		n := r.Range(2, 7)
		k := r.Range(2, n) // the call that panics: at least one result was collected before
		calls := 0
		pcfg := Config(acc, nil)
		pcfg.SetFilterFunction("boom", func(v interface{}) (interface{}, error) {
			calls++
			if calls == k {
				panic(b11PanicMsg)
			}
			return v, nil
		})
		pcfg.SetAggregateFunction("aggboom", func(vs []interface{}) (interface{}, error) { panic(b11PanicMsg) })
		ppath := b11PanicPath(kind, n)
		pdoc := b11PanicDoc(r, kind, n)
		info[fmt.Sprintf("round%d", round)] = fmt.Sprintf("%s (function panics at call %d) on %s", ppath, k, JSONText(pdoc))
		pf, po := SafeParse(ppath, &pcfg)
		if pf == nil {
			return "the panicking path " + ppath + " was rejected: " + po.Detail(), tags, info
		}
		// draw the order before the panicking call: nothing else touches the library in between
		order := make([]int, len(fs))
		for j := range order {
			order[j] = j
		}
		for j := len(order) - 1; j > 0; j-- {
			x := r.Intn(j + 1)
			order[j], order[x] = order[x], order[j]
		}
		o := SafeCall(pf, pdoc)
		if o.ErrKind != "panic" || !strings.HasPrefix(o.Panic, b11PanicMsg) {
			tags = append(tags, "panic-probe:function-did-not-panic")
			continue
		}
		tags = append(tags, fmt.Sprintf("panic-probe:kind-%d", kind))
		for _, j := range order {
			fw := fs[j]
			out := SafeCall(fw.f, fw.doc)
			if msg := c02CheckCall(out, acc); msg != "" {
				return fmt.Sprintf("after %s panicked in the caller's function (recovered), %s on %s: %s", ppath, fw.path, clip(JSONText(fw.doc), 300), msg), tags, info
			}
			if got := c05Canon(out); got != fw.before {
				return fmt.Sprintf("after %s on %s panicked in the caller's function at its call %d (recovered), the evaluation of %s on %s answers %s; before the panic it answered %s",
					ppath, clip(JSONText(pdoc), 200), k, fw.path, clip(JSONText(fw.doc), 300), clip(got, 300), clip(fw.before, 300)), tags, info
			}
		}
	}
	return "", tags, info
}

var _ = jsonpath.Config{}

// ---------- C09: NaN, ±Inf, -0 members under the model-free laws ----------
//
// c09NonFiniteCase: documents built as Go values (no JSON text can carry them) whose members hold
// float64 NaN / ±Inf / -0 (or json.Number spelled NaN, Inf, -Inf, -0) next to ordinary numbers and
// non-numbers. Oracles: only the laws between the six operators on ONE document (mirror law,
// != = complement of ==, <= = (<) ∪ (==), >= = (>) ∪ (==), the strict relations and == pairwise
// disjoint, (a<l || a==l) = (a<=l), (a<=l && l<=a) = (a==l)); no statement about what NaN "is".
var c09NonFiniteVals = []float64{math.NaN(), math.NaN(), math.NaN(), math.Inf(1), math.Inf(-1), math.Copysign(0, -1)}
var c09NonFiniteJnums = []string{"NaN", "NaN", "nan", "Inf", "-Inf", "+Inf", "Infinity", "-0", "-0.0"}

func c09NonFiniteValue(r *Rng, l float64, jn bool) interface{} {
	switch r.Weighted([]int{50, 30, 20}) {
	case 0:
		if jn {
			return json.Number(r.Pick(c09NonFiniteJnums))
		}
		return c09NonFiniteVals[r.Intn(len(c09NonFiniteVals))]
	case 1:
		v := []float64{l, l + 1, l - 1, 0, -l}[r.Intn(5)]
		if jn {
			return json.Number(strconv.FormatFloat(v, 'g', -1, 64))
		}
		return v
	}
	return []interface{}{nil, "NaN", true, "x"}[r.Intn(4)]
}

func c09NonFiniteCase(r *Rng) Record {
	litText := r.Pick([]string{"0", "1", "-1", "0.5", "3", "1e300", "-1e300", "-0", "2.5"})
	l, _ := strconv.ParseFloat(litText, 64)
	jn := r.Chance(30)
	n := r.Range(2, 7)
	ms := make([]interface{}, n)
	for j := range ms {
		v := c09NonFiniteValue(r, l, jn)
		if r.Chance(70) {
			ms[j] = map[string]interface{}{"id": float64(10 + j), "a": v}
		} else {
			ms[j] = []interface{}{v, float64(100 + j)}
		}
	}
	isObj := r.Chance(35)
	var container interface{} = ms
	if isObj {
		m := map[string]interface{}{}
		for j, v := range ms {
			m[string(rune('a'+j))] = v
		}
		container = m
	}
	root := map[string]interface{}{"m": container, "x": c09NonFiniteValue(r, l, jn)}
	docText := fmt.Sprintf("%#v", root)
	rec := Record{Doc: docText, Info: map[string]interface{}{"mode": "non-finite", "literal": litText}}
	ptxt := []string{"@.a", "@.a", "@[0]", "@.a"}[r.Intn(4)]
	other := litText
	otherIsPath := r.Chance(30)
	if otherIsPath {
		other = "$.x"
	}
	text := func(op int, swapped bool) string {
		if swapped {
			return "$.m[?(" + other + " " + OpText[c09Mirror[op]] + " " + ptxt + ")]"
		}
		return "$.m[?(" + ptxt + " " + OpText[op] + " " + other + ")]"
	}
	rec.Text = text(c09LE, false)
	cfg := Config(false, nil)
	ctx := &c09Ctx{cfg: &cfg, parsed: map[string]Parsed{}}
	ctx.setDoc(root)
	tags := c09Tagger{"mode:non-finite": true}
	if strings.Contains(ValSexp(container), "NaN") || strings.Contains(ValSexp(container), "nan") {
		tags["non-finite:nan-member"] = true
	}
	if strings.Contains(ValSexp(container), "Inf") {
		tags["non-finite:inf-member"] = true
	}
	if jn {
		tags["decode:jnum"] = true
	}
	if otherIsPath {
		tags["non-finite:against-$.x"] = true
	}
	nm := len(ctx.members)
	var a [6]c09Sel
	for op := 0; op < 6; op++ {
		a[op] = ctx.selText(text(op, false))
		b := ctx.selText(text(op, true))
		tags["law:mirror:"+OpNames[op]] = true
		if !c09Equal(a[op], b) {
			ctx.fail("law", "swapping the operands and mirroring the operator: %s selects %s but %s selects %s on %s", text(op, false), a[op], text(op, true), b, docText)
		}
	}
	combine := func(f func(i int) bool) c09Sel {
		s := make(c09Sel, nm)
		for i := range s {
			s[i] = f(i)
		}
		return s
	}
	law := func(name string, lhsText string, lhs, want c09Sel, parts ...int) {
		tags["law:"+name] = true
		if c09Equal(lhs, want) {
			return
		}
		var ps []string
		for _, op := range parts {
			ps = append(ps, fmt.Sprintf("%s selects %s", text(op, false), a[op]))
		}
		ctx.fail("law", "%s: %s selects %s but must select %s (%s) on %s", name, lhsText, lhs, want, strings.Join(ps, "; "), docText)
	}
	law("ne=complement(eq)", text(c09NE, false), a[c09NE], combine(func(i int) bool { return !a[c09EQ][i] }), c09EQ)
	// <= is < or ==: stated for a number literal; against $.x (== is reflect.DeepEqual of the raw values there) only
	// when $.x and the members are float64 numbers, where DeepEqual is numeric equality
	_, xIsFloat := root["x"].(float64)
	numericEq := !otherIsPath || (xIsFloat && !jn)
	if numericEq {
		law("le=strict∪eq", text(c09LE, false), a[c09LE], combine(func(i int) bool { return a[c09LT][i] || a[c09EQ][i] }), c09LT, c09EQ)
		law("ge=strict∪eq", text(c09GE, false), a[c09GE], combine(func(i int) bool { return a[c09GT][i] || a[c09EQ][i] }), c09GT, c09EQ)
	}
	none := make(c09Sel, nm)
	law("lt∩eq=∅", text(c09LT, false)+" and "+text(c09EQ, false)+" both", combine(func(i int) bool { return a[c09LT][i] && a[c09EQ][i] }), none, c09LT, c09EQ)
	law("gt∩eq=∅", text(c09GT, false)+" and "+text(c09EQ, false)+" both", combine(func(i int) bool { return a[c09GT][i] && a[c09EQ][i] }), none, c09GT, c09EQ)
	law("lt∩gt=∅", text(c09LT, false)+" and "+text(c09GT, false)+" both", combine(func(i int) bool { return a[c09LT][i] && a[c09GT][i] }), none, c09LT, c09GT)
	if numericEq {
		or := "$.m[?(" + ptxt + " < " + other + " || " + ptxt + " == " + other + ")]"
		law("(lt||eq)=le", or, ctx.selText(or), a[c09LE], c09LE)
		and := "$.m[?(" + ptxt + " <= " + other + " && " + other + " <= " + ptxt + ")]"
		law("(le&&ge)=eq", and, ctx.selText(and), a[c09EQ], c09EQ)
	}
	rec.Viol, rec.Class = ctx.viol, ctx.cls
	rec.Info["library_calls"] = ctx.calls
	rec.Info["json.Number"] = jn
	if tags["non-finite:nan-member"] || tags["non-finite:inf-member"] {
		rec.Key = fmt.Sprintf("nf/%s/%s/%s/%v%v%d", litText, ptxt, other, isObj, jn, n)
	}
	for t := range tags {
		rec.Tags = append(rec.Tags, t)
	}
	sort.Strings(rec.Tags)
	return rec
}

// ---------- several Config arguments: only the first one counts ----------

// SafeParseMulti is SafeParse with any number of Config arguments.
func SafeParseMulti(path string, cfgs ...jsonpath.Config) (f Parsed, out Outcome) {
	defer func() {
		if e := recover(); e != nil {
			f = nil
			out = Outcome{ErrKind: "panic", Panic: fmt.Sprintf("%v\n%s", e, debug.Stack())}
		}
	}()
	fn, err := jsonpath.Parse(path, cfgs...)
	if err != nil {
		out = classify(err)
		out.Both = fn != nil
		return nil, out
	}
	if fn == nil {
		return nil, Outcome{ErrKind: "nilnil", NilNil: true}
	}
	return fn, Outcome{OK: true}
}

// b11LaterConfigs: 1..2 further Config values for the variadic parameter of Parse / Retrieve. They bind the
// registry's names (same kind, or the other kind) to functions that return a marker or fail, define a few new
// names, and sometimes switch accessor mode on. Parse documents `config ...Config` as an optional parameter:
// the configuration of a call is its FIRST Config; nothing of the later ones may be observable.
func b11LaterConfigs(r *Rng, allowAcc bool) ([]jsonpath.Config, string) {
	n := r.Range(1, 2)
	var out []jsonpath.Config
	var desc []string
	for k := 0; k < n; k++ {
		c := jsonpath.Config{}
		mode := r.Intn(4)
		ff := func(v interface{}) (interface{}, error) { return "LAYERED", nil }
		af := func(vs []interface{}) (interface{}, error) { return "LAYERED", nil }
		if mode == 1 {
			ff = func(v interface{}) (interface{}, error) { return nil, fmt.Errorf("layered function failed") }
			af = func(vs []interface{}) (interface{}, error) { return nil, fmt.Errorf("layered function failed") }
		}
		for _, name := range FilterFns {
			if mode == 2 {
				c.SetAggregateFunction(name, af)
			} else {
				c.SetFilterFunction(name, ff)
			}
		}
		for _, name := range AggFns {
			if mode == 2 || mode == 3 {
				c.SetFilterFunction(name, ff)
			} else {
				c.SetAggregateFunction(name, af)
			}
		}
		d := []string{"same names return a marker", "same names fail", "same names, kinds swapped", "aggregate names as filter functions"}[mode]
		if allowAcc && r.Chance(25) {
			c.SetAccessorMode()
			d += " + accessor mode"
		}
		out = append(out, c)
		desc = append(desc, d)
	}
	return out, strings.Join(desc, " ; ")
}

// ConfigNoDecoys: exactly the registry of lean/JPV/Registry.lean (Config(accessor, nil) without AddDecoys).
func ConfigNoDecoys(accessor bool) jsonpath.Config {
	c := jsonpath.Config{}
	for name, f := range filterImpl {
		c.SetFilterFunction(name, f)
	}
	for name, f := range aggImpl {
		c.SetAggregateFunction(name, f)
	}
	if accessor {
		c.SetAccessorMode()
	}
	return c
}

// ---------- C15: a user function whose error IS one of the library's runtime errors ----------
//
// c15ForeignErrCase: singular steps that reach a value of the document (checked with the real library), followed by the
// filter function `rt` or the aggregate function `rtAgg`. The function re-enters jsonpath.Retrieve with an inner path that
// fails (member did not exist / type unmatched / function failed) and returns THAT error value unchanged. Whatever error a
// user function returns, the step fails with ErrorFunctionFailed naming the function as written and carrying the error's text.
var c15InnerFails = [][2]string{{"$.zz9.q", "null"}, {"$[7]", "[1]"}, {"$.a.b", `{"a":1}`}, {"$[0].x", `{"k":1}`}, {"$.a.failAll()", `{"a":1}`},
	{"$[*].zz9", `[{"a":1}]`}, {"$..zz9", `{"a":{"b":1}}`}, {"$.a[?(@.zz9)]", `{"a":[1,2]}`}, {"$.a.failAgg()", `{"a":[1]}`}}

func c15ForeignErrCase(r *Rng) Record {
	o := DefaultOpts()
	plain := Config(false, nil)
	var doc interface{}
	var p *Path
	for try := 0; try < 20; try++ {
		doc = GenDoc(r, o, 0)
		p = &Path{Head: HeadRoot}
		p.Steps, _, _ = o.genSingleSteps(r, doc, true, 4)
		if Run(Render(p, nil), doc, &plain).OK {
			break
		}
		p = &Path{Head: HeadRoot}
	}
	agg := r.Chance(35)
	name := "rt"
	if agg {
		name = "rtAgg"
	}
	p.Fns = []Fn{{Name: name, Agg: agg}}
	if r.Chance(25) {
		p.Fns = append([]Fn{{Name: "id"}}, p.Fns...)
	}
	text := Render(p, r)
	fnText := p.Fns[len(p.Fns)-1].Text
	inner := c15InnerFails[r.Intn(len(c15InnerFails))]
	innerDoc, _ := c02Decode(inner[1])
	acc := r.Chance(20)
	cfg := Config(acc, nil)
	var innerErr error
	reenter := func() error {
		_, err := jsonpath.Retrieve(inner[0], innerDoc, plain)
		innerErr = err
		return err
	}
	cfg.SetFilterFunction("rt", func(v interface{}) (interface{}, error) { return nil, reenter() })
	cfg.SetAggregateFunction("rtAgg", func(vs []interface{}) (interface{}, error) { return nil, reenter() })
	rec := Record{Text: text, Doc: JSONText(doc), Tags: append(stepTags(p), "class:foreign-runtime-error"),
		Info: map[string]interface{}{"inner_path": inner[0], "inner_document": inner[1], "accessor": acc}}
	out := Run(text, DeepCopy(doc), &cfg)
	if innerErr == nil {
		rec.Tags = append(rec.Tags, "foreign-runtime-error:function-not-reached")
		if !out.OK && out.ErrKind == "func" {
			return rec
		}
		rec.Viol, rec.Class = "harness: the inner evaluation "+inner[0]+" did not fail or the function was not called: "+clip(out.Detail(), 300), "harness"
		return rec
	}
	rec.Tags = append(rec.Tags, fmt.Sprintf("foreign-runtime-error:%T", innerErr))
	want := fmt.Sprintf("function failed (function=%s, error=%s)", fnText, innerErr.Error())
	if out.OK || out.ErrKind != "func" || out.Msg != want {
		rec.Viol = fmt.Sprintf("the function %s returned the error %T %q (obtained by re-entering Retrieve(%q, %s)); the evaluation must fail with ErrorFunctionFailed %q but the outcome is %s",
			fnText, innerErr, innerErr.Error(), inner[0], inner[1], want, clip(out.Detail(), 400))
		rec.Class = "foreign-error"
	}
	rec.Key = "foreign/" + shapeKey(p) + "/" + inner[0] + fmt.Sprint(acc)
	return rec
}
