package jph

import (
	"fmt"
	"strconv"
	"strings"
)

// Abstract paths, mirroring lean/JPV/Ast.lean.

type SubKind int

const (
	SubIdx SubKind = iota
	SubSlice
	SubWild
)

type Sub struct {
	Kind    SubKind
	N       int64
	S, E, T *int64
}

type Name struct {
	Wild bool
	Key  string
}

type LitKind int

const (
	LitNum LitKind = iota
	LitBool
	LitStr
	LitNull
)

type Lit struct {
	Kind LitKind
	N    int64
	B    bool
	S    string
}

type Operand struct {
	IsLit bool
	Lit   Lit
	Path  *Path
}

type QKind int

const (
	QOr QKind = iota
	QAnd
	QExist
	QCmp
	QRegex
)

var OpNames = []string{"eq", "ne", "lt", "le", "gt", "ge"}
var OpText = []string{"==", "!=", "<", "<=", ">", ">="}

type Query struct {
	Kind  QKind
	A, B  *Query
	Neg   bool
	P     *Path
	Op    int
	L, R  *Operand
	Re    string
	Paren bool // spelled with parentheses (no semantic content)
}

type StepKind int

const (
	StChild StepKind = iota
	StWild
	StMulti
	StUnion
	StFilter
	StDesc
)

type Step struct {
	Kind    StepKind
	Text    string // source text as the library records it (filled by Render)
	Key     string
	Names   []Name
	Subs    []Sub
	Q       *Query
	Inner   *Step
	Bracket bool // child/wild spelled with brackets
	DQuote  bool // child spelled with double quotes
}

type Fn struct {
	Agg  bool
	Text string
	Name string
}

const (
	HeadRoot = 0
	HeadCur  = 1
)

type Path struct {
	Head  int
	Steps []*Step
	Fns   []Fn
}

// ---------- S-expressions ----------

func SexpString(s string) string {
	var b strings.Builder
	b.WriteString("(s")
	for _, r := range s {
		b.WriteByte(' ')
		b.WriteString(strconv.Itoa(int(r)))
	}
	b.WriteByte(')')
	return b.String()
}

func optInt(p *int64) string {
	if p == nil {
		return "_"
	}
	return strconv.FormatInt(*p, 10)
}

func (s Sub) Sexp() string {
	switch s.Kind {
	case SubIdx:
		return "(i " + strconv.FormatInt(s.N, 10) + ")"
	case SubSlice:
		return "(sl " + optInt(s.S) + " " + optInt(s.E) + " " + optInt(s.T) + ")"
	}
	return "w"
}

func (n Name) Sexp() string {
	if n.Wild {
		return "w"
	}
	return "(k " + SexpString(n.Key) + ")"
}

func (l Lit) Sexp() string {
	switch l.Kind {
	case LitNum:
		return "(n " + strconv.FormatInt(l.N, 10) + ")"
	case LitBool:
		if l.B {
			return "(b t)"
		}
		return "(b f)"
	case LitStr:
		return SexpString(l.S)
	}
	return "null"
}

func (o *Operand) Sexp() string {
	if o.IsLit {
		return "(lit " + o.Lit.Sexp() + ")"
	}
	return "(path " + o.Path.Sexp() + ")"
}

func (q *Query) Sexp() string {
	switch q.Kind {
	case QOr:
		return "(or " + q.A.Sexp() + " " + q.B.Sexp() + ")"
	case QAnd:
		return "(and " + q.A.Sexp() + " " + q.B.Sexp() + ")"
	case QExist:
		n := "f"
		if q.Neg {
			n = "t"
		}
		return "(exist " + n + " " + q.P.Sexp() + ")"
	case QCmp:
		return "(cmp " + OpNames[q.Op] + " " + q.L.Sexp() + " " + q.R.Sexp() + ")"
	}
	return "(regex " + q.P.Sexp() + " " + SexpString(q.Re) + ")"
}

func (s *Step) Sexp() string {
	t := SexpString(s.Text)
	switch s.Kind {
	case StChild:
		return "(child " + t + " " + SexpString(s.Key) + ")"
	case StWild:
		return "(wild " + t + ")"
	case StMulti:
		var b strings.Builder
		b.WriteString("(multi " + t)
		for _, n := range s.Names {
			b.WriteString(" " + n.Sexp())
		}
		b.WriteString(")")
		return b.String()
	case StUnion:
		var b strings.Builder
		b.WriteString("(union " + t)
		for _, n := range s.Subs {
			b.WriteString(" " + n.Sexp())
		}
		b.WriteString(")")
		return b.String()
	case StFilter:
		return "(filter " + t + " " + s.Q.Sexp() + ")"
	}
	return "(desc " + s.Inner.Sexp() + ")"
}

func (p *Path) Sexp() string {
	var b strings.Builder
	if p.Head == HeadRoot {
		b.WriteString("(p root (")
	} else {
		b.WriteString("(p cur (")
	}
	for i, s := range p.Steps {
		if i > 0 {
			b.WriteByte(' ')
		}
		b.WriteString(s.Sexp())
	}
	b.WriteString(") (")
	for i, f := range p.Fns {
		if i > 0 {
			b.WriteByte(' ')
		}
		k := "ffn"
		if f.Agg {
			k = "afn"
		}
		b.WriteString("(" + k + " " + SexpString(f.Text) + " " + SexpString(f.Name) + ")")
	}
	b.WriteString("))")
	return b.String()
}

// ---------- rendering ----------

// Spelling chooses among the spellings the grammar declares insignificant. A nil *Rng
// gives the plainest spelling.
type Spelling struct {
	R *Rng
}

func (sp Spelling) sp() string {
	if sp.R == nil || !sp.R.Chance(25) {
		return ""
	}
	return strings.Repeat(" ", sp.R.Range(1, 2))
}

func isDotSafe(r rune) bool {
	// characters a dot-child may contain unescaped: not a control, not a sign other than - and _
	if r < 0x20 || r == 0x7f {
		return false
	}
	if r == '-' || r == '_' {
		return true
	}
	if r >= 0x20 && r <= 0x2f || r >= 0x3a && r <= 0x40 || r >= 0x5b && r <= 0x60 || r >= 0x7b && r <= 0x7e {
		return false
	}
	return true
}

// DotSpellable: non-empty, no control characters.
func DotSpellable(k string) bool {
	if k == "" {
		return false
	}
	for _, r := range k {
		if r < 0x20 || r == 0x7f || r == 0xFFFD {
			return false
		}
	}
	return true
}

func EscDot(k string) string {
	var b strings.Builder
	for _, r := range k {
		if !isDotSafe(r) {
			b.WriteByte('\\')
		}
		b.WriteRune(r)
	}
	return b.String()
}

func escQuoted(k string, q rune) string {
	var b strings.Builder
	for _, r := range k {
		switch {
		case r == q:
			b.WriteByte('\\')
			b.WriteRune(r)
		case r == '\\':
			b.WriteString(`\\`)
		case r < 0x20 || r == 0x7f:
			fmt.Fprintf(&b, `\u%04x`, r)
		default:
			b.WriteRune(r)
		}
	}
	return b.String()
}

func EscSingle(k string) string { return escQuoted(k, '\'') }
func EscDouble(k string) string { return escQuoted(k, '"') }

func (sp Spelling) quoted(k string, dq bool) string {
	if dq {
		return `"` + EscDouble(k) + `"`
	}
	return `'` + EscSingle(k) + `'`
}

func (sp Spelling) intText(n int64) string {
	s := strconv.FormatInt(n, 10)
	if sp.R != nil && sp.R.Chance(15) {
		if n >= 0 {
			if sp.R.Chance(50) {
				s = "+" + s
			} else {
				s = "0" + s
			}
		} else {
			s = "-0" + s[1:]
		}
		if sp.R.Chance(25) {
			// zero padding to 21..40 characters (longer than any int64 spelling), signed and unsigned
			s = padInt(strconv.FormatInt(n, 10), sp.R.Range(21, 40), n >= 0 && sp.R.Chance(40))
		}
	}
	return s
}

// padInt spells the integer text with leading zeros up to `width` characters (sign included; `+` when plus).
func padInt(s string, width int, plus bool) string {
	sign := ""
	if strings.HasPrefix(s, "-") {
		sign, s = "-", s[1:]
	} else if plus {
		sign = "+"
	}
	for len(sign)+len(s) < width {
		s = "0" + s
	}
	return sign + s
}

func (sp Spelling) sub(s Sub) string {
	switch s.Kind {
	case SubIdx:
		return sp.intText(s.N)
	case SubWild:
		return "*"
	}
	var b strings.Builder
	if s.S != nil {
		b.WriteString(sp.intText(*s.S))
	}
	b.WriteString(sp.sp() + ":" + sp.sp())
	if s.E != nil {
		b.WriteString(sp.intText(*s.E))
	}
	if s.T != nil {
		b.WriteString(sp.sp() + ":" + sp.sp())
		b.WriteString(sp.intText(*s.T))
	} else if sp.R != nil && sp.R.Chance(20) {
		b.WriteString(":")
	}
	return b.String()
}

func (sp Spelling) lit(l Lit) string {
	switch l.Kind {
	case LitNum:
		s := strconv.FormatInt(l.N, 10)
		if sp.R != nil && sp.R.Chance(25) {
			switch sp.R.Intn(3) {
			case 0:
				s += ".0"
			case 1:
				s += "e0"
			case 2:
				if l.N >= 0 {
					s = "+" + s
				}
			}
		}
		return s
	case LitBool:
		if l.B {
			if sp.R != nil && sp.R.Chance(20) {
				return sp.R.Pick([]string{"True", "TRUE"})
			}
			return "true"
		}
		if sp.R != nil && sp.R.Chance(20) {
			return sp.R.Pick([]string{"False", "FALSE"})
		}
		return "false"
	case LitStr:
		dq := sp.R != nil && sp.R.Chance(40)
		q := byte('\'')
		if dq {
			q = '"'
		}
		var b strings.Builder
		b.WriteByte(q)
		for _, r := range l.S {
			if r == rune(q) || r == '\\' {
				b.WriteByte('\\')
			}
			b.WriteRune(r)
		}
		b.WriteByte(q)
		return b.String()
	}
	if sp.R != nil && sp.R.Chance(20) {
		return sp.R.Pick([]string{"Null", "NULL"})
	}
	return "null"
}

func (sp Spelling) operand(o *Operand) string {
	if o.IsLit {
		return sp.lit(o.Lit)
	}
	return sp.Path(o.Path)
}

// precedence: or < and < basic
func (sp Spelling) query(q *Query, prec int) string {
	var s string
	my := 2
	switch q.Kind {
	case QOr:
		my = 0
		s = sp.query(q.A, 0) + sp.sp() + "||" + sp.sp() + sp.query(q.B, 1)
	case QAnd:
		my = 1
		s = sp.query(q.A, 1) + sp.sp() + "&&" + sp.sp() + sp.query(q.B, 2)
	case QExist:
		if q.Neg {
			s = "!" + sp.sp() + sp.Path(q.P)
		} else {
			s = sp.Path(q.P)
		}
	case QCmp:
		s = sp.operand(q.L) + sp.sp() + OpText[q.Op] + sp.sp() + sp.operand(q.R)
	case QRegex:
		s = sp.Path(q.P) + sp.sp() + "=~" + sp.sp() + "/" + strings.ReplaceAll(q.Re, "/", `\/`) + "/"
	}
	if my < prec || q.Paren {
		s = "(" + sp.sp() + s + sp.sp() + ")"
	}
	return s
}

func (sp Spelling) bracket(inner string) string {
	return "[" + sp.sp() + inner + sp.sp() + "]"
}

// step renders one step and fills in Step.Text; afterDesc: the step directly follows `..`
func (sp Spelling) step(s *Step, afterDesc bool) string {
	switch s.Kind {
	case StChild:
		if s.Bracket || !DotSpellable(s.Key) {
			t := sp.bracket(sp.quoted(s.Key, s.DQuote))
			s.Text = t
			return t
		}
		if afterDesc {
			s.Text = s.Key
			return EscDot(s.Key)
		}
		t := "." + EscDot(s.Key)
		s.Text = t
		return t
	case StWild:
		if s.Bracket {
			t := sp.bracket("*")
			s.Text = t
			return t
		}
		if afterDesc {
			s.Text = "*"
			return "*"
		}
		s.Text = ".*"
		return ".*"
	case StMulti:
		parts := make([]string, len(s.Names))
		for i, n := range s.Names {
			if n.Wild {
				parts[i] = "*"
			} else {
				parts[i] = sp.quoted(n.Key, sp.R != nil && sp.R.Chance(30))
			}
		}
		t := sp.bracket(strings.Join(parts, sp.sp()+","+sp.sp()))
		s.Text = t
		return t
	case StUnion:
		parts := make([]string, len(s.Subs))
		for i, n := range s.Subs {
			parts[i] = sp.sub(n)
		}
		t := sp.bracket(strings.Join(parts, sp.sp()+","+sp.sp()))
		s.Text = t
		return t
	case StFilter:
		t := "[" + sp.sp() + "?(" + sp.sp() + sp.query(s.Q, 0) + sp.sp() + ")" + sp.sp() + "]"
		s.Text = t
		return t
	}
	return ".." + sp.step(s.Inner, true)
}

// Path renders the path and fills in the recorded texts of steps and functions.
func (sp Spelling) Path(p *Path) string {
	var b strings.Builder
	if p.Head == HeadRoot {
		b.WriteString("$")
	} else {
		b.WriteString("@")
	}
	for _, s := range p.Steps {
		b.WriteString(sp.step(s, false))
	}
	for i := range p.Fns {
		t := "." + p.Fns[i].Name + "()"
		p.Fns[i].Text = t
		b.WriteString(t)
	}
	return b.String()
}

func Render(p *Path, r *Rng) string {
	sp := Spelling{R: r}
	lead := ""
	if r != nil && r.Chance(10) {
		lead = " "
	}
	s := sp.Path(p)
	if r != nil && r.Chance(10) {
		s += " "
	}
	return lead + s
}
