package jph

import (
	"fmt"
	"regexp"
	"sort"
	"strings"

	"github.com/AsaiYusuke/jsonpath"
)

// B14 — case classes added after round 9 of the seeded changes (ids -t / -u / -v) for the changes the
// property's own runner flagged only through a broken tie.
//
//	C02 class regex-syntax   (C02-u)  rarely used regexp syntax behind `=~`
//	C17 class registry-history (C17-t) function names resolve against THIS call's Config
//	C01 class agg-containers (C01-t)  value groups of arrays / objects handed to an aggregate function
//	C01 class second-call-wide (C01-u) keys of a wide object renamed in place between two calls

// ---------- C02 class regex-syntax ----------
//
// One random case in 40. `$[?(<left> =~ /<pattern>/)]` (also under `..`, behind a step, combined with a second
// basic query) where <pattern> is put together from the parts of Go's regexp syntax that the other generators
// never write: \Q…\E quoting (also unterminated, which is legal and quotes to the end of the pattern), flag
// groups, (?flags:…), named and non-capturing groups, Perl / POSIX / Unicode classes, \A \z \b \B, octal / hex
// escapes, counted and lazy repetition, plus their broken forms. The grammar delimits the pattern
// ( '\\' [\\/] / [^/] )* '/' and hands it unchanged to regexp.Compile, so the oracle needs no model:
// under every configuration Parse accepts the path iff regexp.Compile accepts the delimited text, and rejects
// it with ErrorInvalidArgument otherwise — besides the outcome classes of every C02 case (no panic, no
// (nil,nil), usable function, Retrieve agrees).

var c02RegexAtoms = []string{
	// quoting
	`\Qa.b`, `\Q(`, `\Q[`, `\Qa.b\E`, `\Q\E`, `\Q`, `\E`, `x\Q(`, `\Q*\Ea`, `\Q)\E)`, `\Q\`, `a\E\Q+`,
	// flags
	`(?i)`, `(?s)`, `(?U)`, `(?m)`, `(?i:a)`, `(?s:.)`, `(?U:a+)`, `(?-s:.)`, `(?is-m:a)`, `(?i`, `(?z)`, `(?i-)`, `(?:`, `(?`, `(?P<n>a)`, `(?P<n>`, `(?P<>a)`, `(?<n>a)`, `(?P=n)`, `(?:a|b)`, `(?#c)`, `(?=a)`, `(?!a)`, `(?<=a)`,
	// classes
	`\pN`, `\p{Greek}`, `\PL`, `\p{Lu}`, `\p{Nope}`, `\p`, `\p{`, `\pX`, `[[:alpha:]]`, `[[:^digit:]]`, `[[:nope:]]`, `[[:alpha:]`, `[:alpha:]`, `[^\d\s]`, `[\pN-]`, `[a-\d]`, `[z-a]`, `[]a]`, `[^]`, `[]`, `[a`, `[\Q]\E]`, `\d`, `\W`, `\S`,
	// anchors and escapes
	`\A`, `\z`, `\Z`, `\b`, `\B`, `\G`, `^`, `$`, `\x41`, `\x{1F600}`, `\x{110000}`, `\x4`, `\x{41`, `\101`, `\08`, `\1`, `\8`, `\k<n>`, `\a`, `\f`, `\v`, `\C`, `\c`, `\_`, `\-`, `\ `, `\é`, `\`,
	// repetition
	`a*`, `a+?`, `a??`, `a{2}`, `a{2,}`, `a{2,3}?`, `a{3,2}`, `a{1001}`, `a{1000}`, `a{,2}`, `a{`, `a**`, `a+*`, `*`, `+a`, `?`, `(a*)*`, `(a{500}){500}`, `x{2}{3}`,
	// grouping and alternation
	`(`, `)`, `()`, `(|)`, `|`, `a|`, `(a)(b)`, `((a)`, `(a))`,
	// plain text, delimiters, characters outside ASCII
	`a`, `b`, `.`, `ab`, ` `, `\/`, `\\`, `\\\/`, `é`, `あ`, "\n", "\t", `'`, `"`, `)]`, `]`,
}

// single-value operands only: the grammar does not allow a value group on the left of `=~`
var c02RegexLefts = []string{"@.a", "@.b", "@", "@.c", "@.a.b", "@[0]", "@['a']", "$.c", "$.b[0].a", "@.a.id()", "@.b.id().id()"}

// c02DelimitRegex reads the text after the opening `/` the way the grammar does and returns the pattern and what follows the
// closing `/`; ok = false when the text has no closing `/`.
func c02DelimitRegex(s string) (pattern, rest string, ok bool) {
	i := 0
	for i < len(s) {
		switch {
		case s[i] == '\\' && i+1 < len(s) && (s[i+1] == '\\' || s[i+1] == '/'):
			i += 2
		case s[i] == '/':
			return s[:i], s[i+1:], true
		default:
			i++
		}
	}
	return s, "", false
}

// c02GenRegex returns the path, the generator tag and the outcome kind every configuration must report
// ("ok" / "argument"; "" = this text makes no claim beyond the general C02 oracle).
func c02GenRegex(r *Rng) (text, gen, want string) {
	var b strings.Builder
	n := r.Weighted([]int{40, 30, 15, 10, 5}) + 1
	for k := 0; k < n; k++ {
		b.WriteString(r.Pick(c02RegexAtoms))
	}
	pat := b.String()
	left := "@.a"
	if r.Chance(40) {
		left = r.Pick(c02RegexLefts)
	}
	sp := func() string { return r.Pick([]string{"", "", " ", " ", "  "}) }
	query := left + sp() + "=~" + sp() + "/" + pat + "/"
	shape := r.Weighted([]int{55, 10, 10, 10, 8, 7})
	var pre, post string
	switch shape {
	case 0:
		pre, post = "$[?(", ")]"
	case 1:
		pre, post = "$..[?(", ")]"
	case 2:
		pre, post = "$.b[?(", ")].a"
	case 3:
		pre, post = "$[?(", " && @.b)]"
	case 4:
		pre, post = "$[?(@.c == 's' || ", ")]"
	case 5:
		pre, post = "$[?((", "))]"
	}
	text = pre + query + post
	gen = "regex-syntax"
	if clipped := c02Clip(text); clipped != text {
		return clipped, gen + ":clipped", ""
	}
	// what the grammar delimits: from the first `/` after `=~`
	at := strings.Index(text, "=~")
	open := at + 2 + strings.Index(text[at+2:], "/")
	delim, rest, ok := c02DelimitRegex(text[open+1:])
	if !ok || rest != post {
		// the pattern swallowed its closing delimiter (a trailing `\`) or ended early (a bare `/` cannot occur: every
		// atom escapes it): whatever the outcome is, it is not claimed here
		return text, gen + ":delimiter-moved", ""
	}
	if _, err := regexp.Compile(delim); err != nil {
		return text, gen + ":invalid", "argument"
	}
	return text, gen + ":valid", "ok"
}

// c02RegexVerdict compares the outcome kinds of all configurations with the oracle of c02GenRegex.
func c02RegexVerdict(want string, cfgs []c02Cfg, outs []string) string {
	if want == "" {
		return ""
	}
	for k, o := range outs {
		if o == want {
			continue
		}
		// configurations without the registry reject `.id()` / `.max()` before the regex is looked at
		if o == "notfound" && (cfgs[k].name == "none" || cfgs[k].name == "empty" || cfgs[k].name == "acconly") {
			continue
		}
		if want == "ok" {
			return fmt.Sprintf("config %s: Go's regexp.Compile accepts the pattern the grammar delimits, Parse gives %s", cfgs[k].name, o)
		}
		return fmt.Sprintf("config %s: Go's regexp.Compile rejects the pattern the grammar delimits, Parse gives %s instead of ErrorInvalidArgument", cfgs[k].name, o)
	}
	return ""
}

// ---------- C17 class registry-history ----------
//
// One case in 50 (beyond the enumerated slice). Function names resolve against the Config of THIS call: a name N
// (a registry name, or a fresh one — also one differing from a registry name only in case) is registered in a
// Config `with`; a history of Parse calls follows: 1..3 calls under `with` (the path s itself, another path that
// calls N, a path without functions, a path that fails before / after the call of N), then the probes — Parse(s)
// without a Config, with an empty Config, with accessor mode only, with the registry lacking N — in random
// order, then the reference Parse(s, with). Every function name in s is N, so the oracle needs no model:
//   reference accepted            → every probe is ErrorFunctionNotFound naming `.N()` (the first action that can
//                                   fail is the first call of N; everything before it is independent of the tables)
//   reference is an error         → every probe gives that very error (same text) or ErrorFunctionNotFound naming
//                                   `.N()` — also for a syntax error: the actions of the recognised prefix run before
//                                   the action that reports it, so a call of N inside the prefix is reported first
// Additionally the grammar executed in Lean is asked (it resolves names against the registry): the reference when
// `with` is exactly the registry, the config-less probe when N is not a registry name.

var c17HistFresh = []string{"b14fn", "Twice", "COUNT", "twice2", "tw", "-", "_", "0", "len", "idx", "Max", "list-all"}

var c17HistTemplates = []string{
	"$.a.%N()", "$.*.%N()", "$[?(@.a.%N() == 1)]", "$..a.%N()", "$.a.%N().%N()", "$[?(@.%N())]", "$[?($.a.%N() > @.b)]", "$.a[0].%N()",
	"$['a'].%N()", "$[?(@.a.%N() && @.b.%N())]", "$.%N()", "$[?(@.b == $.a.%N())]", "$..[?(@.a.%N() != 'x')].b", "$[0,1].%N()", "$[1:3].%N()", "a.%N()",
	// fail in the recogniser
	"$.a.%N()]", "$.a.%N(", "$.a.%N()[", "$[?(@.a.%N() == )]", "$.a.%N().", "$.a.%N ()", "$.a.%N()x",
	// fail in an action after the call of N / before it
	"$[?(@.a.%N() =~ /(/)]", "$.a.%N()[?(@.b == 1e999)]", "$[?(@.b =~ /(/)].%N()", "$.a.%N()[(1)]", "$[(1)].%N()",
}

func c17Expect(f Parsed, out Outcome, tree string) (string, bool) {
	switch {
	case f != nil:
		return "(q ok " + tree[1:], true
	case out.ErrKind == "syntax":
		if m := c17reSyntax.FindStringSubmatch(out.Msg); m != nil {
			return "(q (syntax " + m[1] + " " + SexpString(m[2]) + " " + SexpString(m[3]) + "))", true
		}
	case out.ErrKind == "argument":
		if arg, ok := c17Argument(out.Msg, ""); ok {
			return "(q (argument " + SexpString(arg) + "))", true
		}
	case out.ErrKind == "notfound":
		if m := c17reNotFound.FindStringSubmatch(out.Msg); m != nil {
			return "(q (notfound " + SexpString(m[1]) + "))", true
		}
	case out.ErrKind == "notsupported":
		if m := c17reNotSup.FindStringSubmatch(out.Msg); m != nil {
			return "(q (notsupported " + SexpString(m[1]) + " " + SexpString(m[2]) + "))", true
		}
	}
	return "", false
}

func c17HistoryCase(r *Rng) Record {
	// the name and its kind
	var name string
	inRegistry := r.Chance(55)
	isFilter := false
	if inRegistry {
		var names []string
		for n := range filterImpl {
			names = append(names, n)
		}
		for n := range aggImpl {
			names = append(names, n)
		}
		sort.Strings(names)
		name = r.Pick(names)
		_, isFilter = filterImpl[name]
	} else {
		name = r.Pick(c17HistFresh)
		isFilter = r.Chance(50)
	}
	fill := func(t string) string { return strings.ReplaceAll(t, "%N", name) }
	ti := r.Intn(len(c17HistTemplates))
	s := fill(c17HistTemplates[ti])
	acc := r.Chance(25)
	// the Config that has N
	baseRegistry := inRegistry || r.Chance(50)
	var with jsonpath.Config
	if baseRegistry {
		with = ConfigNoDecoys(acc)
	} else if acc {
		with.SetAccessorMode()
	}
	if !inRegistry {
		if isFilter {
			with.SetFilterFunction(name, fnID)
		} else {
			with.SetAggregateFunction(name, agCount)
		}
	}
	withName := pick(baseRegistry, "the registry", "an empty Config").(string)
	if !inRegistry {
		withName += " + " + pick(isFilter, "filter", "aggregate").(string) + " function `" + name + "`"
	}
	rec := Record{Text: s, Tags: []string{"gen:registry-history", "class:registry-history", "registry-history:name=" + pick(inRegistry, "registry", "fresh").(string)},
		Info: map[string]interface{}{"function": name, "with": withName}}
	var hist []string
	note := func(call string, f Parsed, o Outcome) {
		hist = append(hist, call+" -> "+pick(f != nil, "function", clip(o.ErrKind+" "+o.Msg, 160)).(string))
		rec.Info["history"] = hist
	}
	// 1. calls under `with`
	firsts := []string{s, s, fill(r.Pick(c17HistTemplates[:16])), "$.a", "$[?(@.a == 1)]", fill("$.a.%N()["), fill("$.a.%N()[?(@.b =~ /(/)]"), fill("$.a.%N().nope()")}
	for k, n := 0, r.Range(1, 3); k < n; k++ {
		p1 := r.Pick(firsts)
		f, o := SafeParse(p1, &with)
		note(fmt.Sprintf("Parse(%q, with)", p1), f, o)
	}
	// 2. the probes
	type probe struct {
		what string
		cfg  *jsonpath.Config
	}
	empty := jsonpath.Config{}
	accOnly := jsonpath.Config{}
	accOnly.SetAccessorMode()
	lacking := jsonpath.Config{}
	for n, f := range filterImpl {
		if n != name {
			lacking.SetFilterFunction(n, f)
		}
	}
	for n, f := range aggImpl {
		if n != name {
			lacking.SetAggregateFunction(n, f)
		}
	}
	probes := []probe{{"no Config", nil}, {"an empty Config", &empty}, {"a Config with accessor mode only", &accOnly}, {"the registry without `" + name + "`", &lacking}}
	if r.Chance(60) {
		r.Shuffle(len(probes), func(i, j int) { probes[i], probes[j] = probes[j], probes[i] })
	}
	if r.Chance(40) {
		probes = append(probes, probe{"no Config", nil})
	}
	type probed struct {
		what string
		f    Parsed
		o    Outcome
	}
	var got []probed
	for _, p := range probes {
		f, o := SafeParse(s, p.cfg)
		note(fmt.Sprintf("Parse(%q, %s)", s, p.what), f, o)
		got = append(got, probed{p.what, f, o})
	}
	// 3. the reference
	ref, refOut, refTree := ParseTree(s, &with)
	note(fmt.Sprintf("Parse(%q, with)", s), ref, refOut)
	refKind := pick(ref != nil, "ok", refOut.ErrKind).(string)
	rec.Tags = append(rec.Tags, "registry-history:reference="+refKind)
	rec.Key = fmt.Sprintf("registry-history/%d/%s/%v", ti, refKind, inRegistry)
	wantNF := "function not found (function=." + name + "())"
	viol := func(format string, args ...interface{}) {
		if rec.Viol == "" {
			rec.Viol = fmt.Sprintf(format, args...) + fmt.Sprintf(" [path %q, function `%s` registered in `with` = %s; history: %s]", s, name, withName, strings.Join(hist, " ; "))
			rec.Class = "registry-history"
		}
	}
	if ref == nil && !c02IsParseErr(refOut.ErrKind) {
		viol("the reference Parse under the Config that registers the function: %s", clip(refOut.Detail(), 300))
		return rec
	}
	for _, g := range got {
		isNF := g.f == nil && g.o.ErrKind == "notfound" && g.o.Msg == wantNF
		switch {
		case ref != nil:
			if !isNF {
				viol("Parse with %s must be ErrorFunctionNotFound `%s` (the Config of this call does not register the function), got %s", g.what, wantNF, pick(g.f != nil, "a function", clip(g.o.Detail(), 200)))
			}
		default:
			if !isNF && (g.f != nil || g.o.ErrKind != refOut.ErrKind || g.o.Msg != refOut.Msg) {
				viol("Parse with %s must give the error of the reference (%s) or ErrorFunctionNotFound `%s`, got %s", g.what, refOut.Msg, wantNF, pick(g.f != nil, "a function", clip(g.o.Detail(), 200)))
			}
		}
	}
	// the grammar executed in Lean, which knows the registry's names
	accS := pick(acc, "t", "f").(string)
	if inRegistry {
		if exp, ok := c17Expect(ref, refOut, refTree); ok {
			rec.Q = append(rec.Q, LeanQ{Driver: "peg", Line: "(q parse " + accS + " " + SexpString(s) + ")", Expect: exp,
				What: "Parse under the registry at the end of a history vs the grammar executed in Lean (parseModel)", Oracle: true, Skip: "(q unmodelled)"})
		}
	} else {
		for _, g := range got {
			if g.what != "no Config" {
				continue
			}
			if exp, ok := c17Expect(g.f, g.o, "()"); ok && g.f == nil {
				rec.Q = append(rec.Q, LeanQ{Driver: "peg", Line: "(q parse f " + SexpString(s) + ")", Expect: exp,
					What: "Parse without a Config after a Parse that registered `" + name + "` vs the grammar executed in Lean under the registry (which has no `" + name + "` either)", Oracle: true, Skip: "(q unmodelled)"})
			}
			break
		}
	}
	return rec
}
