package jph

import (
	"fmt"
	"regexp"
	"strings"
)

// B14 — case classes added after round 9 of the seeded changes (ids -t / -u / -v) for the changes the
// property's own runner flagged only through a broken tie.
//
//	C02 class regex-syntax   (C02-u)  rarely used regexp syntax behind `=~`
//	C17 class registry-history (C17-t) function names resolve against THIS call's Config
//	C01 class agg-containers (C01-t)  value groups of arrays / objects handed to an aggregate function
//	C01 class second-call-wide (C01-u) keys of a wide object renamed in place between two calls

// ---------- C02 class regex-syntax ----------
//
// One random case in 40. `$[?(<left> =~ /<pattern>/)]` (also under `..`, behind a step, combined with a second
// basic query) where <pattern> is put together from the parts of Go's regexp syntax that the other generators
// never write: \Q…\E quoting (also unterminated, which is legal and quotes to the end of the pattern), flag
// groups, (?flags:…), named and non-capturing groups, Perl / POSIX / Unicode classes, \A \z \b \B, octal / hex
// escapes, counted and lazy repetition, plus their broken forms. The grammar delimits the pattern
// ( '\\' [\\/] / [^/] )* '/' and hands it unchanged to regexp.Compile, so the oracle needs no model:
// under every configuration Parse accepts the path iff regexp.Compile accepts the delimited text, and rejects
// it with ErrorInvalidArgument otherwise — besides the outcome classes of every C02 case (no panic, no
// (nil,nil), usable function, Retrieve agrees).

var c02RegexAtoms = []string{
	// quoting
	`\Qa.b`, `\Q(`, `\Q[`, `\Qa.b\E`, `\Q\E`, `\Q`, `\E`, `x\Q(`, `\Q*\Ea`, `\Q)\E)`, `\Q\`, `a\E\Q+`,
	// flags
	`(?i)`, `(?s)`, `(?U)`, `(?m)`, `(?i:a)`, `(?s:.)`, `(?U:a+)`, `(?-s:.)`, `(?is-m:a)`, `(?i`, `(?z)`, `(?i-)`, `(?:`, `(?`, `(?P<n>a)`, `(?P<n>`, `(?P<>a)`, `(?<n>a)`, `(?P=n)`, `(?:a|b)`, `(?#c)`, `(?=a)`, `(?!a)`, `(?<=a)`,
	// classes
	`\pN`, `\p{Greek}`, `\PL`, `\p{Lu}`, `\p{Nope}`, `\p`, `\p{`, `\pX`, `[[:alpha:]]`, `[[:^digit:]]`, `[[:nope:]]`, `[[:alpha:]`, `[:alpha:]`, `[^\d\s]`, `[\pN-]`, `[a-\d]`, `[z-a]`, `[]a]`, `[^]`, `[]`, `[a`, `[\Q]\E]`, `\d`, `\W`, `\S`,
	// anchors and escapes
	`\A`, `\z`, `\Z`, `\b`, `\B`, `\G`, `^`, `$`, `\x41`, `\x{1F600}`, `\x{110000}`, `\x4`, `\x{41`, `\101`, `\08`, `\1`, `\8`, `\k<n>`, `\a`, `\f`, `\v`, `\C`, `\c`, `\_`, `\-`, `\ `, `\é`, `\`,
	// repetition
	`a*`, `a+?`, `a??`, `a{2}`, `a{2,}`, `a{2,3}?`, `a{3,2}`, `a{1001}`, `a{1000}`, `a{,2}`, `a{`, `a**`, `a+*`, `*`, `+a`, `?`, `(a*)*`, `(a{500}){500}`, `x{2}{3}`,
	// grouping and alternation
	`(`, `)`, `()`, `(|)`, `|`, `a|`, `(a)(b)`, `((a)`, `(a))`,
	// plain text, delimiters, characters outside ASCII
	`a`, `b`, `.`, `ab`, ` `, `\/`, `\\`, `\\\/`, `é`, `あ`, "\n", "\t", `'`, `"`, `)]`, `]`,
}

// single-value operands only: the grammar does not allow a value group on the left of `=~`
var c02RegexLefts = []string{"@.a", "@.b", "@", "@.c", "@.a.b", "@[0]", "@['a']", "$.c", "$.b[0].a", "@.a.id()", "@.b.id().id()"}

// c02DelimitRegex reads the text after the opening `/` the way the grammar does and returns the pattern and what follows the
// closing `/`; ok = false when the text has no closing `/`.
func c02DelimitRegex(s string) (pattern, rest string, ok bool) {
	i := 0
	for i < len(s) {
		switch {
		case s[i] == '\\' && i+1 < len(s) && (s[i+1] == '\\' || s[i+1] == '/'):
			i += 2
		case s[i] == '/':
			return s[:i], s[i+1:], true
		default:
			i++
		}
	}
	return s, "", false
}

// c02GenRegex returns the path, the generator tag and the outcome kind every configuration must report
// ("ok" / "argument"; "" = this text makes no claim beyond the general C02 oracle).
func c02GenRegex(r *Rng) (text, gen, want string) {
	var b strings.Builder
	n := r.Weighted([]int{40, 30, 15, 10, 5}) + 1
	for k := 0; k < n; k++ {
		b.WriteString(r.Pick(c02RegexAtoms))
	}
	pat := b.String()
	left := "@.a"
	if r.Chance(40) {
		left = r.Pick(c02RegexLefts)
	}
	sp := func() string { return r.Pick([]string{"", "", " ", " ", "  "}) }
	query := left + sp() + "=~" + sp() + "/" + pat + "/"
	shape := r.Weighted([]int{55, 10, 10, 10, 8, 7})
	var pre, post string
	switch shape {
	case 0:
		pre, post = "$[?(", ")]"
	case 1:
		pre, post = "$..[?(", ")]"
	case 2:
		pre, post = "$.b[?(", ")].a"
	case 3:
		pre, post = "$[?(", " && @.b)]"
	case 4:
		pre, post = "$[?(@.c == 's' || ", ")]"
	case 5:
		pre, post = "$[?((", "))]"
	}
	text = pre + query + post
	gen = "regex-syntax"
	if clipped := c02Clip(text); clipped != text {
		return clipped, gen + ":clipped", ""
	}
	// what the grammar delimits: from the first `/` after `=~`
	at := strings.Index(text, "=~")
	open := at + 2 + strings.Index(text[at+2:], "/")
	delim, rest, ok := c02DelimitRegex(text[open+1:])
	if !ok || rest != post {
		// the pattern swallowed its closing delimiter (a trailing `\`) or ended early (a bare `/` cannot occur: every
		// atom escapes it): whatever the outcome is, it is not claimed here
		return text, gen + ":delimiter-moved", ""
	}
	if _, err := regexp.Compile(delim); err != nil {
		return text, gen + ":invalid", "argument"
	}
	return text, gen + ":valid", "ok"
}

// c02RegexVerdict compares the outcome kinds of all configurations with the oracle of c02GenRegex.
func c02RegexVerdict(want string, cfgs []c02Cfg, outs []string) string {
	if want == "" {
		return ""
	}
	for k, o := range outs {
		if o == want {
			continue
		}
		// configurations without the registry reject `.id()` / `.max()` before the regex is looked at
		if o == "notfound" && (cfgs[k].name == "none" || cfgs[k].name == "empty" || cfgs[k].name == "acconly") {
			continue
		}
		if want == "ok" {
			return fmt.Sprintf("config %s: Go's regexp.Compile accepts the pattern the grammar delimits, Parse gives %s", cfgs[k].name, o)
		}
		return fmt.Sprintf("config %s: Go's regexp.Compile rejects the pattern the grammar delimits, Parse gives %s instead of ErrorInvalidArgument", cfgs[k].name, o)
	}
	return ""
}
