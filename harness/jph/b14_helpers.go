package jph

import (
	"fmt"
	"regexp"
	"sort"
	"strings"

	"github.com/AsaiYusuke/jsonpath"
)

// B14 — case classes added after round 9 of the seeded changes (ids -t / -u / -v) for the changes the
// property's own runner flagged only through a broken tie.
//
//	C02 class regex-syntax   (C02-u)  rarely used regexp syntax behind `=~`
//	C17 class registry-history (C17-t) function names resolve against THIS call's Config
//	C01 class agg-containers (C01-t)  value groups of arrays / objects handed to an aggregate function
//	C01 class second-call-wide (C01-u) keys of a wide object renamed in place between two calls

// ---------- C02 class regex-syntax ----------
//
// One random case in 40. `$[?(<left> =~ /<pattern>/)]` (also under `..`, behind a step, combined with a second
// basic query) where <pattern> is put together from the parts of Go's regexp syntax that the other generators
// never write: \Q…\E quoting (also unterminated, which is legal and quotes to the end of the pattern), flag
// groups, (?flags:…), named and non-capturing groups, Perl / POSIX / Unicode classes, \A \z \b \B, octal / hex
// escapes, counted and lazy repetition, plus their broken forms. The grammar delimits the pattern
// ( '\\' [\\/] / [^/] )* '/' and hands it unchanged to regexp.Compile, so the oracle needs no model:
// under every configuration Parse accepts the path iff regexp.Compile accepts the delimited text, and rejects
// it with ErrorInvalidArgument otherwise — besides the outcome classes of every C02 case (no panic, no
// (nil,nil), usable function, Retrieve agrees).

var c02RegexAtoms = []string{
	// quoting
	`\Qa.b`, `\Q(`, `\Q[`, `\Qa.b\E`, `\Q\E`, `\Q`, `\E`, `x\Q(`, `\Q*\Ea`, `\Q)\E)`, `\Q\`, `a\E\Q+`,
	// flags
	`(?i)`, `(?s)`, `(?U)`, `(?m)`, `(?i:a)`, `(?s:.)`, `(?U:a+)`, `(?-s:.)`, `(?is-m:a)`, `(?i`, `(?z)`, `(?i-)`, `(?:`, `(?`, `(?P<n>a)`, `(?P<n>`, `(?P<>a)`, `(?<n>a)`, `(?P=n)`, `(?:a|b)`, `(?#c)`, `(?=a)`, `(?!a)`, `(?<=a)`,
	// classes
	`\pN`, `\p{Greek}`, `\PL`, `\p{Lu}`, `\p{Nope}`, `\p`, `\p{`, `\pX`, `[[:alpha:]]`, `[[:^digit:]]`, `[[:nope:]]`, `[[:alpha:]`, `[:alpha:]`, `[^\d\s]`, `[\pN-]`, `[a-\d]`, `[z-a]`, `[]a]`, `[^]`, `[]`, `[a`, `[\Q]\E]`, `\d`, `\W`, `\S`,
	// anchors and escapes
	`\A`, `\z`, `\Z`, `\b`, `\B`, `\G`, `^`, `$`, `\x41`, `\x{1F600}`, `\x{110000}`, `\x4`, `\x{41`, `\101`, `\08`, `\1`, `\8`, `\k<n>`, `\a`, `\f`, `\v`, `\C`, `\c`, `\_`, `\-`, `\ `, `\é`, `\`,
	// repetition
	`a*`, `a+?`, `a??`, `a{2}`, `a{2,}`, `a{2,3}?`, `a{3,2}`, `a{1001}`, `a{1000}`, `a{,2}`, `a{`, `a**`, `a+*`, `*`, `+a`, `?`, `(a*)*`, `(a{500}){500}`, `x{2}{3}`,
	// grouping and alternation
	`(`, `)`, `()`, `(|)`, `|`, `a|`, `(a)(b)`, `((a)`, `(a))`,
	// plain text, delimiters, characters outside ASCII
	`a`, `b`, `.`, `ab`, ` `, `\/`, `\\`, `\\\/`, `é`, `あ`, "\n", "\t", `'`, `"`, `)]`, `]`,
}

// single-value operands only: the grammar does not allow a value group on the left of `=~`
var c02RegexLefts = []string{"@.a", "@.b", "@", "@.c", "@.a.b", "@[0]", "@['a']", "$.c", "$.b[0].a", "@.a.id()", "@.b.id().id()"}

// c02DelimitRegex reads the text after the opening `/` the way the grammar does and returns the pattern and what follows the
// closing `/`; ok = false when the text has no closing `/`.
func c02DelimitRegex(s string) (pattern, rest string, ok bool) {
	i := 0
	for i < len(s) {
		switch {
		case s[i] == '\\' && i+1 < len(s) && (s[i+1] == '\\' || s[i+1] == '/'):
			i += 2
		case s[i] == '/':
			return s[:i], s[i+1:], true
		default:
			i++
		}
	}
	return s, "", false
}

// c02GenRegex returns the path, the generator tag and the outcome kind every configuration must report
// ("ok" / "argument"; "" = this text makes no claim beyond the general C02 oracle).
func c02GenRegex(r *Rng) (text, gen, want string) {
	var b strings.Builder
	n := r.Weighted([]int{40, 30, 15, 10, 5}) + 1
	for k := 0; k < n; k++ {
		b.WriteString(r.Pick(c02RegexAtoms))
	}
	pat := b.String()
	left := "@.a"
	if r.Chance(40) {
		left = r.Pick(c02RegexLefts)
	}
	sp := func() string { return r.Pick([]string{"", "", " ", " ", "  "}) }
	query := left + sp() + "=~" + sp() + "/" + pat + "/"
	shape := r.Weighted([]int{55, 10, 10, 10, 8, 7})
	var pre, post string
	switch shape {
	case 0:
		pre, post = "$[?(", ")]"
	case 1:
		pre, post = "$..[?(", ")]"
	case 2:
		pre, post = "$.b[?(", ")].a"
	case 3:
		pre, post = "$[?(", " && @.b)]"
	case 4:
		pre, post = "$[?(@.c == 's' || ", ")]"
	case 5:
		pre, post = "$[?((", "))]"
	}
	text = pre + query + post
	gen = "regex-syntax"
	if clipped := c02Clip(text); clipped != text {
		return clipped, gen + ":clipped", ""
	}
	// what the grammar delimits: from the first `/` after `=~`
	at := strings.Index(text, "=~")
	open := at + 2 + strings.Index(text[at+2:], "/")
	delim, rest, ok := c02DelimitRegex(text[open+1:])
	if !ok || rest != post {
		// the pattern swallowed its closing delimiter (a trailing `\`) or ended early (a bare `/` cannot occur: every
		// atom escapes it): whatever the outcome is, it is not claimed here
		return text, gen + ":delimiter-moved", ""
	}
	if _, err := regexp.Compile(delim); err != nil {
		return text, gen + ":invalid", "argument"
	}
	return text, gen + ":valid", "ok"
}

// c02RegexVerdict compares the outcome kinds of all configurations with the oracle of c02GenRegex.
func c02RegexVerdict(want string, cfgs []c02Cfg, outs []string) string {
	if want == "" {
		return ""
	}
	for k, o := range outs {
		if o == want {
			continue
		}
		// configurations without the registry reject `.id()` / `.max()` before the regex is looked at
		if o == "notfound" && (cfgs[k].name == "none" || cfgs[k].name == "empty" || cfgs[k].name == "acconly") {
			continue
		}
		if want == "ok" {
			return fmt.Sprintf("config %s: Go's regexp.Compile accepts the pattern the grammar delimits, Parse gives %s", cfgs[k].name, o)
		}
		return fmt.Sprintf("config %s: Go's regexp.Compile rejects the pattern the grammar delimits, Parse gives %s instead of ErrorInvalidArgument", cfgs[k].name, o)
	}
	return ""
}

// ---------- C17 class registry-history ----------
//
// One case in 50 (beyond the enumerated slice). Function names resolve against the Config of THIS call: a name N
// (a registry name, or a fresh one — also one differing from a registry name only in case) is registered in a
// Config `with`; a history of Parse calls follows: 1..3 calls under `with` (the path s itself, another path that
// calls N, a path without functions, a path that fails before / after the call of N), then the probes — Parse(s)
// without a Config, with an empty Config, with accessor mode only, with the registry lacking N — in random
// order, then the reference Parse(s, with). Every function name in s is N, so the oracle needs no model:
//   reference accepted            → every probe is ErrorFunctionNotFound naming `.N()` (the first action that can
//                                   fail is the first call of N; everything before it is independent of the tables)
//   reference is an error         → every probe gives that very error (same text) or ErrorFunctionNotFound naming
//                                   `.N()` — also for a syntax error: the actions of the recognised prefix run before
//                                   the action that reports it, so a call of N inside the prefix is reported first
// In 60% of the histories the very first call is Parse(s, with) as well: the reference, made right after a probe that
// was rejected, must repeat its outcome (error text / tree).
// Additionally the grammar executed in Lean is asked (it resolves names against the registry): the reference when
// `with` is exactly the registry, the config-less probe when N is not a registry name.

var c17HistFresh = []string{"b14fn", "Twice", "COUNT", "twice2", "tw", "-", "_", "0", "len", "idx", "Max", "list-all"}

var c17HistTemplates = []string{
	"$.a.%N()", "$.*.%N()", "$[?(@.a.%N() == 1)]", "$..a.%N()", "$.a.%N().%N()", "$[?(@.%N())]", "$[?($.a.%N() > @.b)]", "$.a[0].%N()",
	"$['a'].%N()", "$[?(@.a.%N() && @.b.%N())]", "$.%N()", "$[?(@.b == $.a.%N())]", "$..[?(@.a.%N() != 'x')].b", "$[0,1].%N()", "$[1:3].%N()", "a.%N()",
	// fail in the recogniser
	"$.a.%N()]", "$.a.%N(", "$.a.%N()[", "$[?(@.a.%N() == )]", "$.a.%N().", "$.a.%N ()", "$.a.%N()x",
	// fail in an action after the call of N / before it
	"$[?(@.a.%N() =~ /(/)]", "$.a.%N()[?(@.b == 1e999)]", "$[?(@.b =~ /(/)].%N()", "$.a.%N()[(1)]", "$[(1)].%N()",
}

func c17Expect(f Parsed, out Outcome, tree string) (string, bool) {
	switch {
	case f != nil:
		return "(q ok " + tree[1:], true
	case out.ErrKind == "syntax":
		if m := c17reSyntax.FindStringSubmatch(out.Msg); m != nil {
			return "(q (syntax " + m[1] + " " + SexpString(m[2]) + " " + SexpString(m[3]) + "))", true
		}
	case out.ErrKind == "argument":
		if arg, ok := c17Argument(out.Msg, ""); ok {
			return "(q (argument " + SexpString(arg) + "))", true
		}
	case out.ErrKind == "notfound":
		if m := c17reNotFound.FindStringSubmatch(out.Msg); m != nil {
			return "(q (notfound " + SexpString(m[1]) + "))", true
		}
	case out.ErrKind == "notsupported":
		if m := c17reNotSup.FindStringSubmatch(out.Msg); m != nil {
			return "(q (notsupported " + SexpString(m[1]) + " " + SexpString(m[2]) + "))", true
		}
	}
	return "", false
}

func c17HistoryCase(r *Rng) Record {
	// the name and its kind
	var name string
	inRegistry := r.Chance(55)
	isFilter := false
	if inRegistry {
		var names []string
		for n := range filterImpl {
			names = append(names, n)
		}
		for n := range aggImpl {
			names = append(names, n)
		}
		sort.Strings(names)
		name = r.Pick(names)
		_, isFilter = filterImpl[name]
	} else {
		name = r.Pick(c17HistFresh)
		isFilter = r.Chance(50)
	}
	fill := func(t string) string { return strings.ReplaceAll(t, "%N", name) }
	ti := r.Intn(len(c17HistTemplates))
	s := fill(c17HistTemplates[ti])
	acc := r.Chance(25)
	// the Config that has N
	baseRegistry := inRegistry || r.Chance(50)
	var with jsonpath.Config
	if baseRegistry {
		with = ConfigNoDecoys(acc)
	} else if acc {
		with.SetAccessorMode()
	}
	if !inRegistry {
		if isFilter {
			with.SetFilterFunction(name, fnID)
		} else {
			with.SetAggregateFunction(name, agCount)
		}
	}
	withName := pick(baseRegistry, "the registry", "an empty Config").(string)
	if !inRegistry {
		withName += " + " + pick(isFilter, "filter", "aggregate").(string) + " function `" + name + "`"
	}
	rec := Record{Text: s, Tags: []string{"gen:registry-history", "class:registry-history", "registry-history:name=" + pick(inRegistry, "registry", "fresh").(string)},
		Info: map[string]interface{}{"function": name, "with": withName}}
	var hist []string
	note := func(call string, f Parsed, o Outcome) {
		hist = append(hist, call+" -> "+pick(f != nil, "function", clip(o.ErrKind+" "+o.Msg, 160)).(string))
		rec.Info["history"] = hist
	}
	// 0. (60%) the path itself under `with`, first: the reference at the end must repeat this outcome
	var first0 Parsed
	var first0Out Outcome
	first0Tree, haveFirst0 := "", r.Chance(60)
	if haveFirst0 {
		first0, first0Out, first0Tree = ParseTree(s, &with)
		note(fmt.Sprintf("Parse(%q, with)", s), first0, first0Out)
	}
	// 1. calls under `with`
	firsts := []string{s, s, fill(r.Pick(c17HistTemplates[:16])), "$.a", "$[?(@.a == 1)]", fill("$.a.%N()["), fill("$.a.%N()[?(@.b =~ /(/)]"), fill("$.a.%N().nope()")}
	for k, n := 0, r.Range(1, 3); k < n; k++ {
		p1 := r.Pick(firsts)
		f, o := SafeParse(p1, &with)
		note(fmt.Sprintf("Parse(%q, with)", p1), f, o)
	}
	// 2. the probes
	type probe struct {
		what string
		cfg  *jsonpath.Config
	}
	empty := jsonpath.Config{}
	accOnly := jsonpath.Config{}
	accOnly.SetAccessorMode()
	lacking := jsonpath.Config{}
	for n, f := range filterImpl {
		if n != name {
			lacking.SetFilterFunction(n, f)
		}
	}
	for n, f := range aggImpl {
		if n != name {
			lacking.SetAggregateFunction(n, f)
		}
	}
	probes := []probe{{"no Config", nil}, {"an empty Config", &empty}, {"a Config with accessor mode only", &accOnly}, {"the registry without `" + name + "`", &lacking}}
	if r.Chance(60) {
		r.Shuffle(len(probes), func(i, j int) { probes[i], probes[j] = probes[j], probes[i] })
	}
	if r.Chance(40) {
		probes = append(probes, probe{"no Config", nil})
	}
	type probed struct {
		what string
		f    Parsed
		o    Outcome
	}
	var got []probed
	for _, p := range probes {
		f, o := SafeParse(s, p.cfg)
		note(fmt.Sprintf("Parse(%q, %s)", s, p.what), f, o)
		got = append(got, probed{p.what, f, o})
	}
	// 3. the reference
	ref, refOut, refTree := ParseTree(s, &with)
	note(fmt.Sprintf("Parse(%q, with)", s), ref, refOut)
	refKind := pick(ref != nil, "ok", refOut.ErrKind).(string)
	rec.Tags = append(rec.Tags, "registry-history:reference="+refKind)
	rec.Key = fmt.Sprintf("registry-history/%d/%s/%v", ti, refKind, inRegistry)
	wantNF := "function not found (function=." + name + "())"
	viol := func(format string, args ...interface{}) {
		if rec.Viol == "" {
			rec.Viol = fmt.Sprintf(format, args...) + fmt.Sprintf(" [path %q, function `%s` registered in `with` = %s; history: %s]", s, name, withName, strings.Join(hist, " ; "))
			rec.Class = "registry-history"
		}
	}
	if haveFirst0 && ((first0 != nil) != (ref != nil) || first0Out.ErrKind != refOut.ErrKind || first0Out.Msg != refOut.Msg || first0Tree != refTree) {
		viol("the last Parse under the Config that registers the function gives %s, the first Parse of the same path under the same Config gave %s",
			pick(ref != nil, "a function", clip(refOut.Detail(), 200)), pick(first0 != nil, "a function (or another tree)", clip(first0Out.Detail(), 200)))
		return rec
	}
	if ref == nil && !c02IsParseErr(refOut.ErrKind) {
		viol("the reference Parse under the Config that registers the function: %s", clip(refOut.Detail(), 300))
		return rec
	}
	for _, g := range got {
		isNF := g.f == nil && g.o.ErrKind == "notfound" && g.o.Msg == wantNF
		switch {
		case ref != nil:
			if !isNF {
				viol("Parse with %s must be ErrorFunctionNotFound `%s` (the Config of this call does not register the function), got %s", g.what, wantNF, pick(g.f != nil, "a function", clip(g.o.Detail(), 200)))
			}
		default:
			if !isNF && (g.f != nil || g.o.ErrKind != refOut.ErrKind || g.o.Msg != refOut.Msg) {
				viol("Parse with %s must give the error of the reference (%s) or ErrorFunctionNotFound `%s`, got %s", g.what, refOut.Msg, wantNF, pick(g.f != nil, "a function", clip(g.o.Detail(), 200)))
			}
		}
	}
	// the grammar executed in Lean, which knows the registry's names
	accS := pick(acc, "t", "f").(string)
	if inRegistry {
		if exp, ok := c17Expect(ref, refOut, refTree); ok {
			rec.Q = append(rec.Q, LeanQ{Driver: "peg", Line: "(q parse " + accS + " " + SexpString(s) + ")", Expect: exp,
				What: "Parse under the registry at the end of a history vs the grammar executed in Lean (parseModel)", Oracle: true, Skip: "(q unmodelled)"})
		}
	} else {
		for _, g := range got {
			if g.what != "no Config" {
				continue
			}
			if exp, ok := c17Expect(g.f, g.o, "()"); ok && g.f == nil {
				rec.Q = append(rec.Q, LeanQ{Driver: "peg", Line: "(q parse f " + SexpString(s) + ")", Expect: exp,
					What: "Parse without a Config after a Parse that registered `" + name + "` vs the grammar executed in Lean under the registry (which has no `" + name + "` either)", Oracle: true, Skip: "(q unmodelled)"})
			}
			break
		}
	}
	return rec
}

// ---------- C01 class agg-containers ----------
//
// One case in 32. An aggregate function receives the list of ALL values its parameter path selects, whatever those
// values are: here the parameter path has its value-group step (wildcard, union, slice, multi-name list, filter, `..`)
// AFTER a first plain step, and most of the selected values are themselves arrays or objects (first match an array in
// two cases of three) — `$.a.*.list()`, `$.a[0:2].first()`, `$.a['x','y'].count()`, `$.a[?(@.v)].v.max()`, `$.a.*.v.count()`,
// `$.b..a.list()`, and the same behind `@` inside a filter operand (`$.r[?(@.w.*.count() == 2)]`). Expected: the specification.

func c01AggContainersCase(r *Rng) Record {
	num := func() interface{} { return float64(r.Range(0, 5)) }
	arr := func(lo, hi int) interface{} {
		out := make([]interface{}, r.Range(lo, hi))
		for i := range out {
			out[i] = num()
		}
		return out
	}
	val := func(first bool) interface{} {
		w := []int{55, 15, 20, 5, 5}
		if first {
			w = []int{70, 10, 10, 5, 5}
		}
		switch r.Weighted(w) {
		case 0:
			return arr(0, 3)
		case 1:
			return map[string]interface{}{"p": num(), "q": num()}
		case 2:
			return num()
		case 3:
			return r.Pick([]string{"s", "", "x"})
		}
		return []interface{}{arr(1, 2), num()}
	}
	keys := []string{"w", "x", "y", "z"}
	// group: a container of 2..4 values (most of them containers themselves)
	group := func(asObj bool, wrap string) interface{} {
		n := r.Range(2, 4)
		vs := make([]interface{}, n)
		for i := range vs {
			vs[i] = val(i == 0)
			if wrap != "" {
				m := map[string]interface{}{"n": num()}
				if r.Chance(85) {
					m[wrap] = vs[i]
				}
				vs[i] = m
			}
		}
		if !asObj {
			return vs
		}
		m := map[string]interface{}{}
		for i, v := range vs {
			m[keys[i]] = v
		}
		return m
	}
	child := func(k string) *Step { return &Step{Kind: StChild, Key: k, Bracket: r.Chance(15)} }
	i64 := func(n int64) *int64 { return &n }
	agg := Fn{Agg: true, Name: []string{"list", "first", "count", "max"}[r.Weighted([]int{35, 30, 25, 10})]}
	asObj := r.Chance(50)
	doc := map[string]interface{}{"k": num()}
	var p *Path
	shape := ""
	bulk := func() *Step {
		switch {
		case r.Chance(50):
			shape += "wildcard"
			return &Step{Kind: StWild, Bracket: r.Chance(40)}
		case asObj:
			shape += "multi-name"
			names := []Name{{Key: "w"}, {Key: "x"}}
			if r.Chance(50) {
				names = append(names, Name{Key: "y"})
			}
			if r.Chance(25) {
				names[0], names[1] = names[1], names[0]
			}
			return &Step{Kind: StMulti, Names: names}
		case r.Chance(50):
			shape += "slice"
			return &Step{Kind: StUnion, Subs: []Sub{{Kind: SubSlice, S: i64(0), E: i64(int64(r.Range(2, 4)))}}}
		default:
			shape += "union"
			return &Step{Kind: StUnion, Subs: []Sub{{Kind: SubIdx, N: 0}, {Kind: SubIdx, N: int64(r.Range(1, 2))}}}
		}
	}
	switch r.Weighted([]int{40, 15, 15, 10, 20}) {
	case 0:
		doc["a"] = group(asObj, "")
		p = &Path{Head: HeadRoot, Steps: []*Step{child("a"), bulk()}}
	case 1:
		doc["a"] = group(asObj, "v")
		shape = "child-after-"
		p = &Path{Head: HeadRoot, Steps: []*Step{child("a"), bulk(), child("v")}}
	case 2:
		doc["a"] = group(false, "v")
		shape = "filter"
		q := &Query{Kind: QExist, P: &Path{Head: HeadCur, Steps: []*Step{child("v")}}}
		p = &Path{Head: HeadRoot, Steps: []*Step{child("a"), {Kind: StFilter, Q: q}, child("v")}}
	case 3:
		doc["b"] = map[string]interface{}{"a": val(true), "c": map[string]interface{}{"a": val(false)}, "d": []interface{}{map[string]interface{}{"a": val(false)}}}
		shape = "recursive"
		p = &Path{Head: HeadRoot, Steps: []*Step{child("b"), {Kind: StDesc, Inner: &Step{Kind: StChild, Key: "a"}}}}
	default:
		// behind `@` in a filter operand, compared with a number
		n := r.Range(2, 4)
		recs := make([]interface{}, n)
		for i := range recs {
			recs[i] = map[string]interface{}{"w": group(asObj, ""), "n": num()}
		}
		doc["r"] = recs
		shape = "operand-"
		agg.Name = []string{"count", "max", "first"}[r.Weighted([]int{60, 25, 15})]
		opnd := &Path{Head: HeadCur, Steps: []*Step{child("w"), bulk()}, Fns: []Fn{agg}}
		q := &Query{Kind: QCmp, Op: r.Weighted([]int{40, 15, 10, 10, 15, 10}), L: &Operand{Path: opnd}, R: &Operand{IsLit: true, Lit: Lit{Kind: LitNum, N: int64(r.Range(0, 4))}}}
		if r.Chance(30) {
			q.L, q.R = q.R, q.L
		}
		p = &Path{Head: HeadRoot, Steps: []*Step{child("r"), {Kind: StFilter, Q: q}}}
		if r.Chance(40) {
			p.Steps = append(p.Steps, child("n"))
		}
		agg.Name = ""
	}
	if agg.Name != "" {
		p.Fns = []Fn{agg}
		if r.Chance(20) {
			p.Fns = append(p.Fns, Fn{Name: r.Pick([]string{"id", "wrap"})})
		}
	}
	text := Render(p, r)
	cfg := Config(false, nil)
	var d interface{} = doc
	return c01Check(text, p, p.Sexp(), d, false, &cfg, []string{"class:agg-containers", "agg-containers:" + shape}, map[string]interface{}{}, nil)
}

// ---------- C01 class second-call-wide ----------
//
// One case in 32. A parsed function returns what the path selects from the document as it is NOW, also when the
// document is big: an object of 16..40 members sits at the root, under a name, inside an array or two levels down;
// the path leads to it and applies a wildcard (also followed by a name), `..`, a filter or a multi-name list. The
// function is called once (result discarded), then 1..3 members of the wide object are RENAMED IN PLACE — the map
// object and its size stay what they were, the new names sort elsewhere — and the same function is called again.
// The record, the specification and the model all see the renamed document.

func c01SecondCallWideCase(r *Rng) Record {
	num := func() interface{} { return float64(r.Range(0, 9)) }
	n := r.Range(16, 40)
	if r.Chance(25) {
		n = r.Range(16, 18)
	}
	pool := make([]string, 0, 90)
	for i := 0; i < 60; i++ {
		pool = append(pool, fmt.Sprintf("k%02d", i))
	}
	pool = append(pool, "a", "b", "v", "A", "Z", "_", "aa", "ab", "z", "~", "0", "10", "2", "key", "kez", "k", "k0", "k000", "é", "zz")
	r.Shuffle(len(pool), func(i, j int) { pool[i], pool[j] = pool[j], pool[i] })
	wide := map[string]interface{}{}
	recs := r.Chance(50)
	for _, k := range pool[:n] {
		switch {
		case recs && r.Chance(80):
			m := map[string]interface{}{"v": num()}
			if r.Chance(30) {
				m["w"] = num()
			}
			wide[k] = m
		case r.Chance(15):
			wide[k] = []interface{}{num(), num()}
		default:
			wide[k] = num()
		}
	}
	free := pool[n:]
	child := func(k string) *Step { return &Step{Kind: StChild, Key: k, Bracket: r.Chance(15)} }
	var doc interface{}
	var pre []*Step
	where := ""
	switch r.Weighted([]int{30, 40, 15, 15}) {
	case 0:
		doc, where = wide, "root"
	case 1:
		doc, where = map[string]interface{}{"a": wide, "b": num(), "c": map[string]interface{}{"v": num()}}, "member"
		pre = []*Step{child("a")}
	case 2:
		doc, where = map[string]interface{}{"a": []interface{}{num(), wide, map[string]interface{}{"v": num()}}}, "element"
		pre = []*Step{child("a"), {Kind: StUnion, Subs: []Sub{{Kind: SubIdx, N: 1}}}}
	default:
		doc, where = map[string]interface{}{"a": map[string]interface{}{"b": wide, "v": num()}, "v": num()}, "nested"
		pre = []*Step{child("a"), child("b")}
	}
	var bulk []*Step
	how := ""
	cur := func(k string) *Path { return &Path{Head: HeadCur, Steps: []*Step{child(k)}} }
	switch r.Weighted([]int{40, 15, 12, 18, 15}) {
	case 0:
		how, bulk = "wildcard", []*Step{{Kind: StWild, Bracket: r.Chance(40)}}
	case 1:
		how, bulk = "wildcard+name", []*Step{{Kind: StWild, Bracket: r.Chance(40)}, child("v")}
		if !recs {
			how, bulk = "wildcard", bulk[:1]
		}
	case 2:
		how = "recursive"
		inner := &Step{Kind: StWild}
		if r.Chance(50) {
			inner = &Step{Kind: StChild, Key: "v"}
		}
		bulk = []*Step{{Kind: StDesc, Inner: inner}}
	case 3:
		how = "filter"
		q := &Query{Kind: QCmp, Op: r.Weighted([]int{20, 20, 15, 15, 15, 15}), L: &Operand{Path: cur("v")}, R: &Operand{IsLit: true, Lit: Lit{Kind: LitNum, N: int64(r.Range(0, 9))}}}
		if !recs || r.Chance(30) {
			q = &Query{Kind: QExist, P: cur(pick(recs, "w", "v").(string)), Neg: r.Chance(50)}
		}
		bulk = []*Step{{Kind: StFilter, Q: q}}
	default:
		how = "multi-name"
		names := []Name{{Wild: true}}
		ks := sortedKeys(wide)
		for c := r.Range(1, 3); c > 0; c-- {
			names = append(names, Name{Key: r.Pick(ks)})
		}
		r.Shuffle(len(names), func(i, j int) { names[i], names[j] = names[j], names[i] })
		bulk = []*Step{{Kind: StMulti, Names: names}}
	}
	p := &Path{Head: HeadRoot, Steps: append(pre, bulk...)}
	text := Render(p, r)
	cfg := Config(false, nil)
	var renamed []string
	after := func(f Parsed) func() string {
		SafeCall(f, doc)
		if r.Chance(30) {
			SafeCall(f, doc)
		}
		ks := sortedKeys(wide)
		for c := r.Range(1, 3); c > 0 && len(free) > 0; c-- {
			k := ks[r.Intn(len(ks))]
			if _, in := wide[k]; !in {
				continue
			}
			nk := free[0]
			free = free[1:]
			v := wide[k]
			delete(wide, k)
			wide[nk] = v
			renamed = append(renamed, fmt.Sprintf("%q -> %q", k, nk))
		}
		if len(wide) != n {
			panic("c01SecondCallWideCase changed the size")
		}
		return func() string { return "" }
	}
	info := map[string]interface{}{"members_of_the_wide_object": n}
	rec := c01Check(text, p, p.Sexp(), doc, false, &cfg, []string{"class:second-call-wide", "second-call-wide:" + where, "second-call-wide:" + how}, info, after)
	if rec.Info == nil {
		rec.Info = map[string]interface{}{}
	}
	rec.Info["renamed_in_place_after_the_first_call"] = renamed
	return rec
}

// ---------- C17 class same-string-history ----------
//
// One case in 50 (beyond the enumerated slice). What Parse answers for a (string, Config) does not depend on what was
// parsed before — in particular not on an earlier Parse of the SAME string or of a string sharing a token with it.
// The same string is parsed 2..3 times in a row under one Config (sometimes another path with the same regex text, or
// an unrelated short path, in between); every outcome must be identical (accepted or not, error type and text), and must
// be what the construction says:
//   regex         a path from the regex-syntax pool of C02 (b14): accepted iff regexp.Compile accepts the delimited
//                 pattern, ErrorInvalidArgument otherwise
//   long          `$` + 700..1400 plain steps (2.5..6 KB, more than 4096 parser tokens), alone (accepted) or with a
//                 part that fails in an ACTION after the whole text was recognised — an unknown function at the end
//                 (ErrorFunctionNotFound), a filter with an invalid regex in the middle or at the end
//                 (ErrorInvalidArgument), a script (ErrorNotSupported)
// The grammar models are not asked (patterns with metacharacters and texts of this length are outside what they model).

func c17SameStringCase(r *Rng) Record {
	acc := r.Chance(25)
	cfg := ConfigNoDecoys(acc)
	var s, kind, want, between string
	if r.Chance(55) {
		s, _, want = c02GenRegex(r)
		kind = "regex"
		if at := strings.Index(s, "=~"); at >= 0 && r.Chance(50) {
			if open := strings.Index(s[at:], "/"); open >= 0 {
				if pat, _, ok := c02DelimitRegex(s[at+open+1:]); ok {
					between = "$.zz[?(@.q =~ /" + pat + "/)].r" // another path with the same regex text
				}
			}
		}
	} else {
		kind = "long"
		segs := []string{".abc", "[0]", "['k']", "[*]", ".x", "[1:2]", "[\"q\"]", ".*"}
		var b strings.Builder
		b.WriteString("$")
		n := r.Range(700, 1400)
		failAt := -1
		tail := ""
		switch r.Weighted([]int{25, 25, 15, 20, 15}) {
		case 0:
			want = "ok"
		case 1:
			tail, want = r.Pick([]string{".nope()", ".Twice()", ".twice().nope()"}), "notfound"
		case 2:
			tail, want = "[?(@.a =~ /(/)]", "argument"
		case 3:
			failAt, want = r.Intn(n), "argument"
		case 4:
			failAt, want = r.Intn(n), "notsupported"
		}
		for k := 0; k < n; k++ {
			if k == failAt {
				b.WriteString(pick(want == "argument", "[?(@.a =~ /a{3,2}/)]", "[(@.length-1)]").(string))
			}
			b.WriteString(segs[r.Intn(len(segs))])
		}
		s = b.String() + tail
	}
	if between == "" && r.Chance(25) {
		between = r.Pick([]string{"$.a", "$[", "$.a.nope()", "$[?(@.a =~ /x/)]"})
	}
	rec := Record{Text: s, Tags: []string{"gen:same-string-history", "class:same-string-history", "same-string-history:" + kind}, Info: map[string]interface{}{}}
	var hist []string
	type res struct {
		f Parsed
		o Outcome
	}
	var got []res
	show := func(f Parsed, o Outcome) string {
		return pick(f != nil, "a function", clip(o.ErrKind+" "+o.Msg, 160)).(string)
	}
	reps := r.Range(2, 3)
	for k := 0; k < reps; k++ {
		// (without the tree hook: a tree that cannot be dumped must not hide the outcome)
		f, o := SafeParse(s, &cfg)
		got = append(got, res{f, o})
		hist = append(hist, fmt.Sprintf("Parse #%d of the path -> %s", k+1, show(f, o)))
		if between != "" && k == 0 && (kind == "regex" || reps == 3) {
			// (a long rejected path is parsed twice IN A ROW at least once: with three repetitions the pair 2,3)
			bf, bo := SafeParse(between, &cfg)
			hist = append(hist, fmt.Sprintf("Parse(%q) -> %s", between, show(bf, bo)))
			if kind == "regex" && want != "" && strings.HasPrefix(between, "$.zz") {
				bk := pick(bf != nil, "ok", bo.ErrKind).(string)
				if bk != want && rec.Viol == "" {
					rec.Viol = fmt.Sprintf("%q has the regex text of the path parsed before it: Go's regexp.Compile %s it, Parse gives %s [history: %s]", between,
						pick(want == "ok", "accepts", "rejects"), show(bf, bo), strings.Join(hist, " ; "))
					rec.Class = "same-string-history"
				}
			}
		}
	}
	rec.Info["history"] = hist
	rec.Info["config"] = pick(acc, "the registry, accessor mode", "the registry").(string)
	firstKind := pick(got[0].f != nil, "ok", got[0].o.ErrKind).(string)
	rec.Tags = append(rec.Tags, "same-string-history:outcome="+firstKind)
	rec.Key = "same-string-history/" + kind + "/" + firstKind + "/" + c02Skeleton(s, 12)
	viol := func(format string, args ...interface{}) {
		if rec.Viol == "" {
			rec.Viol = fmt.Sprintf(format, args...) + fmt.Sprintf(" [path %q; history: %s]", clip(s, 300), strings.Join(hist, " ; "))
			rec.Class = "same-string-history"
		}
	}
	for k, g := range got {
		gk := pick(g.f != nil, "ok", g.o.ErrKind).(string)
		if g.f == nil && !c02IsParseErr(g.o.ErrKind) {
			viol("Parse #%d: %s", k+1, clip(g.o.Detail(), 300))
		}
		if want != "" && gk != want {
			viol("Parse #%d of the path must be %s by construction, got %s", k+1, pick(want == "ok", "accepted", "rejected with error kind `"+want+"`"), show(g.f, g.o))
		}
		if k > 0 && ((g.f != nil) != (got[0].f != nil) || g.o.ErrKind != got[0].o.ErrKind || g.o.Msg != got[0].o.Msg) {
			viol("Parse #%d of the same string under the same Config gives %s, Parse #1 gave %s", k+1, show(g.f, g.o), show(got[0].f, got[0].o))
		}
	}
	return rec
}
