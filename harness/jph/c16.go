package jph

import (
	"fmt"
	"reflect"
	"sort"
	"strings"
	"unicode/utf8"
)

// C16 — every object member is addressable; dot and bracket notations are equivalent.
//
// One case: a key (0..12 characters from every Unicode plane, ASCII symbols, control
// characters, quotes, backslashes, escape-like sequences spelled out as ordinary characters,
// U+FFFD, Unicode space-like / format characters — U+3000, U+00A0, U+0085, U+1680, U+2000..U+200B,
// U+2028, U+2029, U+202F, U+205F, U+FEFF, U+180E — at the start, inside and at the end) and up to five near-miss sibling keys (without the backslashes, backslashes doubled,
// escape-like sequences decoded, other case, prefix, extension, quotes swapped, padded with a blank or a space-like character), all in
// one object with pairwise distinct numbers as values.
// Spellings of the selector: ['…'] and ["…"] with minimal JSON-style escaping, with every
// character as \uXXXX (surrogate pairs above the BMP, upper/lower hex), a random mixture with
// the short escapes \b \f \n \r \t \/, lone-surrogate escapes for U+FFFD, and — for non-empty
// keys without control characters — the dot selector with every symbol backslash-escaped.
// Positions: `$SEL`, `$..SEL`, `$SEL SEL` (nested), `$[?(@SEL == v)]`, `$[?(@SEL)]`, `$[SEL,'sib']`.
// Pre-history (half of the cases): right before a quoted spelling is evaluated for the first time,
// a filter whose STRING LITERAL has the same raw text between its quotes is parsed
// (`$[?(@.x == '<raw>')]`, `$[?(@.x == "<raw>")]`; in a string literal a backslash merely quotes
// the next character, so `\n` means `n` there but a newline in a key): what a key addresses must
// not depend on what was parsed before. The parses are listed in the record (`history`).
// Oracle: the Go map lookup — exactly that member's value, nothing else. Every sibling is
// selected as well and must give its own value. Lean Spec.run is asked for three positions.

type c16 struct{}

func init() { Props["C16"] = c16{} }

func (c16) Count(tier string) int {
	if tier == "thorough" {
		return 200000
	}
	return 15000
}

var c16Symbols = []rune(" !\"#$%&'()*+,-./:;<=>?@[\\]^_`{|}~")
var c16Alnum = []rune("abcxyzABCXYZ0189")
var c16BMP = []rune{0x80, 0x85, 0x9f, 0xa0, 0xe9, 0xdf, 0x131, 0x300, 0x3b1, 0x5d0, 0x627, 0x200b, 0x200d, 0x2028, 0x2029, 0x202e,
	0x3042, 0x4e2d, 0xac00, 0xd7ff, 0xe000, 0xf8ff, 0xfb01, 0xfeff, 0xff0e, 0xff3b, 0xfffd, 0xfffe, 0xffff}
var c16Astral = []rune{0x10000, 0x1031f, 0x1d11e, 0x1f600, 0x1f1ef, 0x1fffe, 0x20000, 0x2fa1d, 0x30000, 0xe0001, 0xe0100, 0xf0000, 0xffffd, 0x100000, 0x10fffd, 0x10ffff}
var c16EscapeLike = []string{`\n`, `\t`, `\b`, `\\`, `\'`, `\"`, `\/`, `\u0041`, `\u00e9`, `\ud83d\ude00`, `\ud800`, `\u`, `\x41`, `\0`, `\`, `\.`, `\*`, `%41`, `&#65;`}

func c16GenKey(r *Rng) (string, []string) {
	classes := map[string]bool{}
	n := r.Weighted([]int{3, 14, 12, 10, 9, 8, 7, 6, 6, 5, 5, 5, 10})
	var b strings.Builder
	// the classes this key draws from: one class, or a mixture
	pool := []int{r.Intn(7)}
	if r.Chance(55) {
		pool = append(pool, r.Intn(7), r.Intn(7))
	}
	count := 0
	for count < n {
		switch pool[r.Intn(len(pool))] {
		case 0:
			b.WriteRune(c16Alnum[r.Intn(len(c16Alnum))])
			classes["alnum"] = true
		case 1:
			c := c16Symbols[r.Intn(len(c16Symbols))]
			b.WriteRune(c)
			switch c {
			case '\'', '"':
				classes["quote"] = true
			case '\\':
				classes["backslash"] = true
			default:
				classes["symbol"] = true
			}
		case 2:
			c := rune(r.Intn(0x20))
			if r.Chance(8) {
				c = 0x7f
			}
			b.WriteRune(c)
			classes["control"] = true
		case 3:
			c := c16BMP[r.Intn(len(c16BMP))]
			if r.Chance(40) {
				// any BMP scalar value
				c = rune(r.Range(0x80, 0xffff))
				for c >= 0xd800 && c <= 0xdfff {
					c = rune(r.Range(0x80, 0xffff))
				}
			}
			b.WriteRune(c)
			classes["bmp"] = true
			if c == 0xfffd {
				classes["U+FFFD"] = true
			}
		case 4:
			c := c16Astral[r.Intn(len(c16Astral))]
			if r.Chance(40) {
				c = rune(r.Range(0x10000, 0x10ffff))
			}
			b.WriteRune(c)
			classes["astral-plane-"+fmt.Sprint(int(c)>>16)] = true
			classes["astral"] = true
		case 5:
			e := c16EscapeLike[r.Intn(len(c16EscapeLike))]
			if count+utf8.RuneCountInString(e) > 12 {
				e = `\`
			}
			b.WriteString(e)
			count += utf8.RuneCountInString(e) - 1
			classes["escape-like"] = true
		case 6:
			// characters that look like blanks (or like nothing): U+3000, U+00A0, U+0085, U+1680, U+2000..U+200B, U+2028,
			// U+2029, U+202F, U+205F, U+FEFF, U+180E — ordinary name characters in every notation; 45% of the draws
			// are an alphanumeric character, so that they stand at the start, inside and at the end of names
			if count > 0 && r.Chance(45) {
				b.WriteRune(c16Alnum[r.Intn(len(c16Alnum))])
			} else {
				b.WriteRune(spaceLikeRune(r))
				classes["space-like"] = true
			}
		}
		count++
	}
	k := b.String()
	if k == "" {
		classes["empty"] = true
	}
	var cl []string
	for c := range classes {
		cl = append(cl, c)
	}
	sort.Strings(cl)
	return k, cl
}

// c16Decode: the escape-like sequences of k taken as escapes (a near-miss key).
func c16Decode(k string) string {
	rep := strings.NewReplacer(`\n`, "\n", `\t`, "\t", `\b`, "\b", `\\`, `\`, `\'`, `'`, `\"`, `"`, `\/`, `/`,
		`\u0041`, "A", `\u00e9`, "\u00e9", `\ud83d\ude00`, "\U0001F600", `\ud800`, "\ufffd", `\x41`, "A", `\0`, "\x00", `\.`, ".", `\*`, "*", `%41`, "A", `&#65;`, "A")
	return rep.Replace(k)
}

func c16SwapCase(k string) string {
	var b strings.Builder
	for _, c := range k {
		switch {
		case c >= 'a' && c <= 'z':
			b.WriteRune(c - 32)
		case c >= 'A' && c <= 'Z':
			b.WriteRune(c + 32)
		case c == 0xe9:
			b.WriteRune(0xc9)
		case c == 0x3b1:
			b.WriteRune(0x391)
		default:
			b.WriteRune(c)
		}
	}
	return b.String()
}

func c16Siblings(r *Rng, k string) []string {
	rs := []rune(k)
	cands := []string{
		strings.ReplaceAll(k, `\`, ``),
		strings.ReplaceAll(k, `\`, `\\`),
		c16Decode(k),
		c16SwapCase(k),
		k + "x",
		k + " ",
		" " + k,
		k + k,
		strings.NewReplacer(`'`, `"`, `"`, `'`).Replace(k),
		strings.ReplaceAll(k, `'`, `\'`),
		strings.ReplaceAll(k, `"`, `\"`),
		"'" + k + "'",
		`"` + k + `"`,
		"." + k,
		k + "()",
		"",
		"*",
		k + string(spaceLikeRune(r)),
		string(spaceLikeRune(r)) + k,
	}
	if len(rs) > 0 {
		cands = append(cands, string(rs[:len(rs)-1]), string(rs[1:]))
		// one character replaced by a neighbour
		j := r.Intn(len(rs))
		alt := append([]rune{}, rs...)
		if alt[j] < 0x10ffff && alt[j] != 0xd7ff {
			alt[j]++
		} else {
			alt[j]--
		}
		cands = append(cands, string(alt))
	}
	// NFC / NFD look-alikes
	cands = append(cands, strings.ReplaceAll(k, "\u00e9", "e\u0301"), strings.ReplaceAll(k, "\ufffd", "?"))
	r.Shuffle(len(cands), func(i, j int) { cands[i], cands[j] = cands[j], cands[i] })
	seen := map[string]bool{k: true}
	var out []string
	for _, c := range cands {
		if !seen[c] && utf8.ValidString(c) {
			seen[c] = true
			out = append(out, c)
			if len(out) == 5 {
				break
			}
		}
	}
	return out
}

func c16Hex(r *Rng, v rune) string {
	if r != nil && r.Chance(50) {
		return fmt.Sprintf(`\u%04X`, v)
	}
	return fmt.Sprintf(`\u%04x`, v)
}

// c16Quoted spells k between quotes q. mode 0: minimal escaping; 1: every character as \uXXXX;
// 2: a random mixture with the short escapes and lone-surrogate escapes for U+FFFD.
func c16Quoted(r *Rng, k string, q rune, mode int) string {
	var b strings.Builder
	b.WriteRune(q)
	rs := []rune(k)
	prevHigh := false // the previous output was an escaped lone high surrogate
	for _, c := range rs {
		uesc := func() {
			if c >= 0x10000 {
				v := c - 0x10000
				b.WriteString(c16Hex(r, 0xd800+(v>>10)))
				b.WriteString(c16Hex(r, 0xdc00+(v&0x3ff)))
			} else {
				b.WriteString(c16Hex(r, c))
			}
		}
		high := false
		switch {
		case mode == 1:
			uesc()
		case mode == 2 && c == 0xfffd && r.Chance(60):
			// a lone surrogate escape decodes to U+FFFD; an escaped low one must not follow an
			// escaped lone high one (they would pair up)
			if !prevHigh && r.Chance(50) {
				b.WriteString(c16Hex(r, rune(0xdc00+r.Intn(0x400))))
			} else {
				b.WriteString(c16Hex(r, rune(0xd800+r.Intn(0x400))))
				high = true
			}
		case mode == 2 && r.Chance(30):
			short := map[rune]string{'\b': `\b`, '\f': `\f`, '\n': `\n`, '\r': `\r`, '\t': `\t`, '/': `\/`, '\\': `\\`}
			if s, ok := short[c]; ok && r.Chance(70) {
				b.WriteString(s)
			} else if c == q {
				b.WriteString(`\` + string(q))
			} else {
				uesc()
			}
		case c == q:
			b.WriteString(`\` + string(q))
		case c == '\\':
			b.WriteString(`\\`)
		case c < 0x20:
			short := map[rune]string{'\b': `\b`, '\f': `\f`, '\n': `\n`, '\r': `\r`, '\t': `\t`}
			if s, ok := short[c]; ok && mode == 2 {
				b.WriteString(s)
			} else {
				b.WriteString(c16Hex(r, c))
			}
		default:
			b.WriteRune(c)
		}
		prevHigh = high
	}
	b.WriteRune(q)
	return b.String()
}

type c16Sel struct {
	Name    string // spelling class
	Bracket string // text inside the brackets ('' or "" spelling), or ""
	Dot     string // escaped identifier for dot notation, or ""
}

func (s c16Sel) child(sp string) string {
	if s.Dot != "" {
		return "." + s.Dot
	}
	return "[" + sp + s.Bracket + sp + "]"
}

func (s c16Sel) afterDesc(sp string) string {
	if s.Dot != "" {
		return ".." + s.Dot
	}
	return "..[" + sp + s.Bracket + sp + "]"
}

func c16Spellings(r *Rng, k string) []c16Sel {
	out := []c16Sel{
		{Name: "single-minimal", Bracket: "'" + EscSingle(k) + "'"},
		{Name: "double-minimal", Bracket: `"` + EscDouble(k) + `"`},
		{Name: "single-all-u", Bracket: c16Quoted(r, k, '\'', 1)},
		{Name: "double-all-u", Bracket: c16Quoted(r, k, '"', 1)},
		{Name: "single-mixed", Bracket: c16Quoted(r, k, '\'', 2)},
		{Name: "double-mixed", Bracket: c16Quoted(r, k, '"', 2)},
	}
	if c16DotOK(k) {
		out = append(out, c16Sel{Name: "dot", Dot: EscDot(k)})
	}
	return out
}

// c16DotOK: non-empty and no control characters — what the property promises for the dot selector.
func c16DotOK(k string) bool {
	if k == "" {
		return false
	}
	for _, c := range k {
		if c < 0x20 || c == 0x7f {
			return false
		}
	}
	return true
}

func (c16) Exec(seed int64, i int, tier string) Record {
	r := CaseRng(seed, "C16", i)
	if i%20 == 9 {
		// classes overlap-probe / history-fault-probe (b16_probes.go): `..k` and `@.k` in the three spellings while another
		// evaluation of the same parsed function overlaps / after a user function panicked at its K-th call
		return b16C16(r, i/20)
	}
	k, classes := c16GenKey(r)
	sibs := c16Siblings(r, k)
	obj := map[string]interface{}{k: float64(1)}
	for j, s := range sibs {
		obj[s] = float64(j + 2)
	}
	rec := Record{Text: "$['" + EscSingle(k) + "']", Doc: JSONText(obj), Info: map[string]interface{}{"key": fmt.Sprintf("%+q", k)}}
	fail := func(class, path string, doc interface{}, what string) {
		if rec.Viol == "" {
			rec.Viol, rec.Class = what, class
			rec.Text, rec.Doc = path, JSONText(doc)
		}
		fl, _ := rec.Info["failures"].([]string)
		if len(fl) < 12 {
			rec.Info["failures"] = append(fl, what)
		}
	}
	check := func(pos, spelling, path string, doc interface{}, want []interface{}) {
		out := Run(path, doc, nil)
		if out.OK && reflect.DeepEqual(out.Vals, want) {
			return
		}
		class := "wrong-member"
		if !out.OK {
			class = "not-addressable"
			if out.ErrKind == "syntax" || out.ErrKind == "argument" {
				class = "rejected"
			}
			if c12Abnormal(out) {
				class = "abnormal"
			}
		}
		fail(class, path, doc, fmt.Sprintf("%s, %s spelling: %s on %s: expected %s, got %s", pos, spelling, path, clip(JSONText(doc), 300), ValsSexp(want), clip(out.Detail(), 300)))
	}
	sp := func() string {
		if r.Chance(20) {
			return " "
		}
		return ""
	}
	spellings := c16Spellings(r, k)
	want := []interface{}{obj[k]}
	// the pre-history: a filter string literal with the raw text of the quoted selector
	primeCase := r.Chance(50)
	var history []string
	primed := 0
	prime := func(quoted string) {
		if !primeCase || len(quoted) < 2 {
			return
		}
		raw := quoted[1 : len(quoted)-1]
		qs := []string{quoted[:1]}
		switch r.Intn(10) {
		case 0, 1: // the other kind of quotes (the literal may end early then: whatever Parse says is ignored)
			qs = []string{map[string]string{"'": `"`, `"`: "'"}[quoted[:1]]}
		case 2:
			qs = []string{"'", `"`}
		}
		for _, q := range qs {
			path := "$[?(@.x " + []string{"==", "!="}[r.Intn(2)] + " " + q + raw + q + ")]"
			f, _ := SafeParse(path, nil)
			if f != nil {
				primed++
			}
			if len(history) < 24 {
				history = append(history, path)
			}
		}
	}
	// documents for the positions
	nested := map[string]interface{}{k: DeepCopy(obj)}
	deep := []interface{}{[]interface{}{DeepCopy(obj)}}
	other := map[string]interface{}{}
	for j, s := range sibs {
		other[s] = float64(1) // the siblings hold the looked-for value: a confused key selects this one
		_ = j
	}
	other2 := map[string]interface{}{k: float64(99)}
	for _, s := range sibs {
		other2[s] = float64(1)
	}
	filtDoc := []interface{}{other, DeepCopy(obj), other2}
	for si, s := range spellings {
		prime(s.Bracket)
		check("root", s.Name, "$"+s.child(sp()), obj, want)
		check("after ..", s.Name, "$"+s.afterDesc(sp()), deep, want)
		s2 := spellings[(si+1+r.Intn(len(spellings)))%len(spellings)]
		check("nested", s.Name+"+"+s2.Name, "$"+s.child(sp())+s2.child(sp()), nested, want)
		check("filter ==", s.Name, "$[?(@"+s.child(sp())+sp()+"=="+sp()+"1)]", filtDoc, []interface{}{filtDoc[1]})
		check("filter exists", s.Name, "$[?("+sp()+"@"+s.child(sp())+sp()+")]", filtDoc, []interface{}{filtDoc[1], filtDoc[2]})
		if s.Bracket != "" && len(sibs) > 0 {
			sb := sibs[r.Intn(len(sibs))]
			sq := "'" + EscSingle(sb) + "'"
			if r.Chance(50) {
				sq = `"` + EscDouble(sb) + `"`
			}
			if r.Chance(50) {
				prime(sq)
			}
			check("multi-name", s.Name, "$["+s.Bracket+sp()+","+sp()+sq+"]", obj, []interface{}{obj[k], obj[sb]})
			check("multi-name", s.Name, "$["+sq+","+s.Bracket+"]", obj, []interface{}{obj[sb], obj[k]})
		}
	}
	// every sibling is a member too and must not be confused with the key
	for _, sb := range sibs {
		w := []interface{}{obj[sb]}
		prime("'" + EscSingle(sb) + "'")
		check("sibling", "single-minimal", "$['"+EscSingle(sb)+"']", obj, w)
		sq := c16Quoted(r, sb, '"', 2)
		prime(sq)
		check("sibling", "double-mixed", "$["+sq+"]", obj, w)
		if c16DotOK(sb) {
			check("sibling", "dot", "$."+EscDot(sb), obj, w)
			check("sibling after ..", "dot", "$.."+EscDot(sb), deep, w)
		}
	}
	// Lean: the specification selects the same member (positions root, after `..`, filter)
	mk := func(text string, afterDesc bool) *Step {
		st := &Step{Kind: StChild, Key: k, Text: text}
		if afterDesc {
			st.Text = k
		}
		return st
	}
	s0 := spellings[r.Intn(len(spellings))]
	okExp := func(vs []interface{}) string { return "(q ok " + ValsSexp(vs) + ")" }
	pRoot := &Path{Head: HeadRoot, Steps: []*Step{mk(s0.child(""), false)}}
	pDesc := &Path{Head: HeadRoot, Steps: []*Step{{Kind: StDesc, Inner: mk(s0.child(""), s0.Dot != "")}}}
	pFilt := &Path{Head: HeadRoot, Steps: []*Step{{Kind: StFilter, Text: "[?(@" + s0.child("") + "==1)]",
		Q: &Query{Kind: QCmp, Op: 0, L: &Operand{Path: &Path{Head: HeadCur, Steps: []*Step{mk(s0.child(""), false)}}}, R: &Operand{IsLit: true, Lit: Lit{Kind: LitNum, N: 1}}}}}}
	rec.Q = append(rec.Q,
		LeanQ{Driver: "spec", Line: "(q run " + pRoot.Sexp() + " " + ValSexp(obj) + ")", Expect: okExp(want), What: "root position vs Spec.run"},
		LeanQ{Driver: "spec", Line: "(q run " + pDesc.Sexp() + " " + ValSexp(deep) + ")", Expect: okExp(want), What: "after `..` vs Spec.run"},
		LeanQ{Driver: "spec", Line: "(q run " + pFilt.Sexp() + " " + ValSexp(filtDoc) + ")", Expect: okExp([]interface{}{filtDoc[1]}), What: "inside a filter vs Spec.run"})
	for _, c := range classes {
		rec.Tags = append(rec.Tags, "key:"+c)
	}
	if primeCase {
		rec.Info["history"] = history
		rec.Tags = append(rec.Tags, "history:filter-literal-with-the-selector's-raw-text")
		if primed > 0 {
			rec.Tags = append(rec.Tags, "history:literal-parsed")
		}
	} else {
		rec.Tags = append(rec.Tags, "history:none")
	}
	n := utf8.RuneCountInString(k)
	rec.Tags = append(rec.Tags, fmt.Sprintf("len:%d", n), fmt.Sprintf("siblings:%d", len(sibs)))
	if c16DotOK(k) {
		rec.Tags = append(rec.Tags, "spelled:dot")
	} else {
		rec.Tags = append(rec.Tags, "spelled:bracket-only")
	}
	trivial := len(classes) == 1 && classes[0] == "alnum"
	if !trivial {
		lb := "1"
		switch {
		case n == 0:
			lb = "0"
		case n > 6:
			lb = "7-12"
		case n > 1:
			lb = "2-6"
		}
		rec.Key = strings.Join(classes, "+") + "/len" + lb + "/" + fmt.Sprintf("%+q", k)
	}
	return rec
}
