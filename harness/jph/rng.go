package jph

// One deterministic PRNG (splitmix64). Every random choice of every case derives from
// (VERIF_SEED, property, case index) through it, so a case is replayed by those three.

type Rng struct{ s uint64 }

func NewRng(seed uint64) *Rng { return &Rng{s: seed*0x9E3779B97F4A7C15 + 0x1234567} }

func CaseRng(seed int64, prop string, index int) *Rng {
	h := uint64(seed) * 0x9E3779B97F4A7C15
	for _, c := range []byte(prop) {
		h = (h ^ uint64(c)) * 0x100000001B3
	}
	h ^= uint64(index) * 0xD6E8FEB86659FD93
	r := &Rng{s: h}
	r.Next()
	r.Next()
	return r
}

func (r *Rng) Next() uint64 {
	r.s += 0x9E3779B97F4A7C15
	z := r.s
	z = (z ^ (z >> 30)) * 0xBF58476D1CE4E5B9
	z = (z ^ (z >> 27)) * 0x94D049BB133111EB
	return z ^ (z >> 31)
}

// Intn returns a value in [0,n).
func (r *Rng) Intn(n int) int {
	if n <= 0 {
		return 0
	}
	return int(r.Next() % uint64(n))
}

// Range returns a value in [lo,hi].
func (r *Rng) Range(lo, hi int) int { return lo + r.Intn(hi-lo+1) }

// Chance is true with probability pct/100.
func (r *Rng) Chance(pct int) bool { return r.Intn(100) < pct }

func (r *Rng) Pick(xs []string) string { return xs[r.Intn(len(xs))] }

// Weighted picks an index with the given weights.
func (r *Rng) Weighted(ws []int) int {
	t := 0
	for _, w := range ws {
		t += w
	}
	x := r.Intn(t)
	for i, w := range ws {
		if x < w {
			return i
		}
		x -= w
	}
	return len(ws) - 1
}

func (r *Rng) Shuffle(n int, swap func(i, j int)) {
	for i := n - 1; i > 0; i-- {
		j := r.Intn(i + 1)
		swap(i, j)
	}
}
