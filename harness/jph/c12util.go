package jph

import (
	"fmt"
	"reflect"
	"strconv"
	"strings"

	"github.com/AsaiYusuke/jsonpath"
)

// Helpers shared by the runners C12..C15 (accessor parity, Set/Get, call protocol, errors).

// ---------- recording user functions (model format) ----------

// c12Call is one call of a user function as the function itself saw it.
type c12Call struct {
	Agg  bool
	Name string
	Arg  interface{}   // filter function: the argument
	Args []interface{} // aggregate function: the slice handed over (kept, not copied)
	Snap string        // canonical text of the argument(s) at the time of the call
	Err  bool          // the function returned an error
	Acc  bool          // an argument was a jsonpath.Accessor (noted at the time of the call)
}

// Sexp prints the call the way `jpv-impl calls` does: (ffn NAME ARG) | (afn NAME ARG…).
func (c c12Call) Sexp() string {
	if c.Agg {
		if c.Snap == "" {
			return "(afn " + SexpString(c.Name) + ")"
		}
		return "(afn " + SexpString(c.Name) + " " + c.Snap + ")"
	}
	return "(ffn " + SexpString(c.Name) + " " + c.Snap + ")"
}

type c12Log struct {
	Calls []c12Call
}

func (l *c12Log) Sexps() string {
	parts := make([]string, len(l.Calls))
	for i, c := range l.Calls {
		parts[i] = c.Sexp()
	}
	return strings.Join(parts, " ")
}

// HasAccessor: some user function was handed a jsonpath.Accessor instead of a plain value.
func (l *c12Log) HasAccessor() bool {
	for _, c := range l.Calls {
		if c.Acc {
			return true
		}
	}
	return false
}

func c12IsAcc(v interface{}) bool {
	_, ok := v.(jsonpath.Accessor)
	return ok
}

// c12RecConfig registers the whole registry (registry.go) with wrappers that record every call.
func c12RecConfig(accessor bool, log *c12Log) jsonpath.Config {
	c := jsonpath.Config{}
	for name, f := range filterImpl {
		name, f := name, f
		c.SetFilterFunction(name, func(v interface{}) (interface{}, error) {
			r, err := f(v)
			log.Calls = append(log.Calls, c12Call{Name: name, Arg: v, Snap: ValSexp(v), Err: err != nil, Acc: c12IsAcc(v)})
			return r, err
		})
	}
	for name, f := range aggImpl {
		name, f := name, f
		c.SetAggregateFunction(name, func(vs []interface{}) (interface{}, error) {
			r, err := f(vs)
			acc := false
			for _, v := range vs {
				acc = acc || c12IsAcc(v)
			}
			log.Calls = append(log.Calls, c12Call{Agg: true, Name: name, Args: vs, Snap: ValsSexp(vs), Err: err != nil, Acc: acc})
			return r, err
		})
	}
	AddDecoys(&c)
	if accessor {
		c.SetAccessorMode()
	}
	return c
}

// ---------- locations ----------

// c12Seg is one segment of a location below the document root.
type c12Seg struct {
	IsIdx bool
	Key   string
	Idx   int
}

func c12LocSexp(loc []c12Seg) string {
	var b strings.Builder
	b.WriteString("(loc")
	for _, s := range loc {
		if s.IsIdx {
			b.WriteString(" (i " + strconv.Itoa(s.Idx) + ")")
		} else {
			b.WriteString(" (k " + SexpString(s.Key) + ")")
		}
	}
	b.WriteString(")")
	return b.String()
}

func c12LocText(loc []c12Seg) string {
	var b strings.Builder
	b.WriteString("$")
	for _, s := range loc {
		if s.IsIdx {
			b.WriteString("[" + strconv.Itoa(s.Idx) + "]")
		} else {
			b.WriteString("['" + EscSingle(s.Key) + "']")
		}
	}
	return b.String()
}

func c12LocAppend(loc []c12Seg, s c12Seg) []c12Seg {
	out := make([]c12Seg, len(loc)+1)
	copy(out, loc)
	out[len(loc)] = s
	return out
}

// c12At returns the value at loc.
func c12At(doc interface{}, loc []c12Seg) (interface{}, bool) {
	cur := doc
	for _, s := range loc {
		if s.IsIdx {
			a, ok := cur.([]interface{})
			if !ok || s.Idx < 0 || s.Idx >= len(a) {
				return nil, false
			}
			cur = a[s.Idx]
		} else {
			m, ok := cur.(map[string]interface{})
			if !ok {
				return nil, false
			}
			v, ok := m[s.Key]
			if !ok {
				return nil, false
			}
			cur = v
		}
	}
	return cur, true
}

// c12Put assigns v to the map entry / array element at loc, in place (loc must not be empty).
func c12Put(doc interface{}, loc []c12Seg, v interface{}) bool {
	if len(loc) == 0 {
		return false
	}
	parent, ok := c12At(doc, loc[:len(loc)-1])
	if !ok {
		return false
	}
	s := loc[len(loc)-1]
	if s.IsIdx {
		a, ok := parent.([]interface{})
		if !ok || s.Idx >= len(a) {
			return false
		}
		a[s.Idx] = v
		return true
	}
	m, ok := parent.(map[string]interface{})
	if !ok {
		return false
	}
	m[s.Key] = v
	return true
}

// c12Diff lists the minimal locations at which b differs from a (a, b trees without sharing).
// A difference in the set of keys or in the length is reported at the container itself.
func c12Diff(a, b interface{}, loc []c12Seg, out *[][]c12Seg) {
	switch ta := a.(type) {
	case map[string]interface{}:
		tb, ok := b.(map[string]interface{})
		if !ok || len(ta) != len(tb) {
			*out = append(*out, loc)
			return
		}
		for k := range ta {
			if _, ok := tb[k]; !ok {
				*out = append(*out, loc)
				return
			}
		}
		for _, k := range sortedKeys(ta) {
			c12Diff(ta[k], tb[k], c12LocAppend(loc, c12Seg{Key: k}), out)
		}
	case []interface{}:
		tb, ok := b.([]interface{})
		if !ok || len(ta) != len(tb) {
			*out = append(*out, loc)
			return
		}
		for i := range ta {
			c12Diff(ta[i], tb[i], c12LocAppend(loc, c12Seg{IsIdx: true, Idx: i}), out)
		}
	default:
		switch b.(type) {
		case map[string]interface{}, []interface{}:
			*out = append(*out, loc)
			return
		}
		if !reflect.DeepEqual(a, b) {
			*out = append(*out, loc)
		}
	}
}

// c12Sentinel: a value no generated document contains.
type c12Sentinel struct{ N int }

func (s c12Sentinel) String() string { return fmt.Sprintf("<sentinel %d>", s.N) }

// c12AccRun evaluates an accessor-mode function on a fresh copy of the document.
func c12AccRun(f Parsed, doc interface{}) (interface{}, []jsonpath.Accessor, Outcome) {
	cp := DeepCopy(doc)
	out := SafeCall(f, cp)
	if !out.OK {
		return cp, nil, out
	}
	accs := make([]jsonpath.Accessor, len(out.Vals))
	for i, v := range out.Vals {
		a, ok := v.(jsonpath.Accessor)
		if !ok {
			return cp, nil, Outcome{ErrKind: "other:not-accessor", Msg: fmt.Sprintf("result %d of an accessor-mode call is a %T, not a jsonpath.Accessor", i, v)}
		}
		if a.Get == nil {
			return cp, nil, Outcome{ErrKind: "other:nil-get", Msg: fmt.Sprintf("result %d has a nil Get", i)}
		}
		accs[i] = a
	}
	return cp, accs, out
}

// c12Probe finds the location accessor i writes to: on a fresh copy, Set a sentinel through
// it and diff against the original. problem != "" describes a breach of "exactly one location".
// setNil: the accessor's Set is nil. The copy and the accessors of that run are returned for
// further checks.
func c12Probe(f Parsed, doc interface{}, i int) (loc []c12Seg, setNil bool, cp interface{}, accs []jsonpath.Accessor, problem string) {
	cp, accs, out := c12AccRun(f, doc)
	if !out.OK {
		return nil, false, cp, nil, "the accessor-mode call failed on a fresh copy: " + out.Detail()
	}
	if i >= len(accs) {
		return nil, false, cp, accs, fmt.Sprintf("only %d results on a fresh copy", len(accs))
	}
	if accs[i].Set == nil {
		return nil, true, cp, accs, ""
	}
	sent := c12Sentinel{N: i}
	func() {
		defer func() {
			if e := recover(); e != nil {
				problem = fmt.Sprintf("Set panicked: %v", e)
			}
		}()
		accs[i].Set(sent)
	}()
	if problem != "" {
		return nil, false, cp, accs, problem
	}
	var diffs [][]c12Seg
	c12Diff(doc, cp, nil, &diffs)
	if len(diffs) == 0 {
		return nil, false, cp, accs, "Set changed nothing in the document"
	}
	if len(diffs) > 1 {
		texts := []string{}
		for _, d := range diffs {
			texts = append(texts, c12LocText(d))
		}
		return diffs[0], false, cp, accs, "Set changed " + strconv.Itoa(len(diffs)) + " locations: " + strings.Join(texts, " ")
	}
	now, _ := c12At(cp, diffs[0])
	if now != interface{}(sent) {
		return diffs[0], false, cp, accs, "after Set the document differs at " + c12LocText(diffs[0]) + ", which holds " + ValSexp(now) + " instead of the value set"
	}
	return diffs[0], false, cp, accs, ""
}

// c12Get calls Get under recover.
func c12Get(a jsonpath.Accessor) (v interface{}, problem string) {
	defer func() {
		if e := recover(); e != nil {
			problem = fmt.Sprintf("Get panicked: %v", e)
		}
	}()
	return a.Get(), ""
}

// c12AddFns puts functions on operand paths inside the filters of p (probability pct per
// operand path without functions); returns the number of operand paths that carry functions.
func c12AddFns(r *Rng, o GenOpts, p *Path, pct int) int {
	n := 0
	var doPath func(q *Path, allowVgAgg bool)
	var doQuery func(q *Query)
	doPath = func(q *Path, _ bool) {
		if q == nil {
			return
		}
		if len(q.Fns) == 0 && r.Chance(pct) {
			q.Fns = o.genFns(r, 2)
		}
		if len(q.Fns) > 0 {
			n++
		}
		for _, s := range q.Steps {
			st := s
			if st.Kind == StDesc {
				st = st.Inner
			}
			if st.Kind == StFilter {
				doQuery(st.Q)
			}
		}
	}
	doQuery = func(q *Query) {
		switch q.Kind {
		case QOr, QAnd:
			doQuery(q.A)
			doQuery(q.B)
		case QExist:
			doPath(q.P, true)
		case QCmp:
			if !q.L.IsLit {
				doPath(q.L.Path, false)
			}
			if !q.R.IsLit {
				doPath(q.R.Path, false)
			}
		case QRegex:
			doPath(q.P, false)
		}
	}
	for _, s := range p.Steps {
		st := s
		if st.Kind == StDesc {
			st = st.Inner
		}
		if st.Kind == StFilter {
			doQuery(st.Q)
		}
	}
	return n
}

// c12StepName names a step kind for tags.
func c12StepName(s *Step) string {
	names := []string{"child", "wild", "multi", "union", "filter", "desc"}
	if s.Kind == StDesc {
		return "desc+" + c12StepName(s.Inner)
	}
	if s.Kind == StMulti {
		all := true
		for _, n := range s.Names {
			all = all && n.Wild
		}
		if all {
			return "multi-allwild"
		}
	}
	if s.Kind == StUnion {
		if len(s.Subs) == 1 {
			switch s.Subs[0].Kind {
			case SubIdx:
				return "index"
			case SubSlice:
				return "slice"
			}
		}
		return "union"
	}
	return names[s.Kind]
}

// c12IsVgStep: the step may select several values (Spec.isVgStep).
func c12IsVgStep(s *Step) bool {
	switch s.Kind {
	case StChild:
		return false
	case StUnion:
		return !(len(s.Subs) == 1 && s.Subs[0].Kind == SubIdx)
	}
	return true
}
