package jph

import (
	"fmt"
	"reflect"
	"strings"
)

// C12 — accessor mode changes only the wrapping of results, never what is selected.
//
// One case: a document and a path (functions forced after the steps of most paths and put on
// operand paths inside filters), parsed twice with identical recording function sets, accessor
// mode off / on, each evaluated on its own copy of the document.
//   * both fail with the same error type and text, or both succeed with the same number of
//     results, every accessor-mode result is a jsonpath.Accessor whose Get() equals the plain value
//   * the user functions (also those inside filters) were called with exactly the same plain
//     arguments, in the same order, in both modes; never with a jsonpath.Accessor
//   * jpv-impl `run t`: the same values, Set nil for the same results, the same locations (the
//     location of an accessor is found by Set-ting a sentinel on a fresh copy and diffing);
//     jpv-impl `calls t`: the same call log.
// One case in 50 (class accessor-valued, c12AccValuedCase in b12_helpers.go): values that are themselves a
// jsonpath.Accessor — in the document, as the document, or returned by a user function — must come back as that
// VALUE in plain mode and wrapped like any other value in accessor mode (Get() yields the Accessor value). Model-free.

type c12 struct{}

func init() { Props["C12"] = c12{} }

func (c12) Count(tier string) int {
	if tier == "thorough" {
		return 600000
	}
	return 30000
}

// c12Gen: the generator shared with C13 (distinct = leaves made pairwise distinct).
func c12Gen(r *Rng, fnPct, inFilterPct int, distinct bool, errBias int, okPct int) (interface{}, *Path, int) {
	o := DefaultOpts()
	o.ErrBias = errBias
	var doc interface{}
	for try := 0; ; try++ {
		doc = GenDoc(r, o, 0)
		// a scalar document makes every step fail: keep only a few of them
		switch doc.(type) {
		case map[string]interface{}, []interface{}:
		default:
			if try < 3 && !r.Chance(10) {
				continue
			}
		}
		break
	}
	if distinct {
		n := 10
		doc = c12Distinct(r, doc, &n)
	}
	// okPct percent of the cases insist on a path that selects something (up to 8 attempts;
	// the real library, plain mode, is asked — this only steers the generation)
	wantOK := r.Chance(okPct)
	var p *Path
	inFilter := 0
	for try := 0; try < 8; try++ {
		p = o.genPathFrom(r, doc, doc, HeadRoot, o.MaxSteps, true)
		// shapes the random walk reaches too rarely
		if arr, ok := doc.([]interface{}); ok && len(arr) > 0 && r.Chance(4) {
			p.Steps = append([]*Step{{Kind: StMulti, Names: []Name{{Wild: true}, {Wild: true}}}}, p.Steps...)
			if len(p.Steps) > 3 {
				p.Steps = p.Steps[:3]
			}
		}
		if len(p.Fns) == 0 && r.Chance(fnPct) {
			p.Fns = o.genFns(r, 3)
		}
		inFilter = c12AddFns(r, o, p, inFilterPct)
		if !wantOK {
			break
		}
		cfg := Config(false, nil)
		if len(p.Steps) == 0 && len(p.Fns) == 0 && r.Chance(80) {
			continue // `$` alone
		}
		if out := Run(Render(p, nil), doc, &cfg); out.OK {
			break
		}
	}
	return doc, p, inFilter
}

// c12Distinct relabels the leaves so that they are pairwise distinct (strings become "s<n>", every
// other leaf the number n; n ascends in document order).
func c12Distinct(r *Rng, v interface{}, n *int) interface{} {
	switch t := v.(type) {
	case []interface{}:
		out := make([]interface{}, len(t))
		for i, x := range t {
			out[i] = c12Distinct(r, x, n)
		}
		return out
	case map[string]interface{}:
		out := make(map[string]interface{}, len(t))
		for _, k := range sortedKeys(t) {
			out[k] = c12Distinct(r, t[k], n)
		}
		return out
	case string:
		*n++
		return fmt.Sprintf("s%d", *n)
	}
	*n++
	return float64(*n)
}

func c12Abnormal(o Outcome) bool {
	return o.ErrKind == "panic" || o.NilNil || o.Both || strings.HasPrefix(o.ErrKind, "other")
}

func (c12) Exec(seed int64, i int, tier string) Record {
	r := CaseRng(seed, "C12", i)
	if i%50 == 31 {
		return c12AccValuedCase(r) // class accessor-valued (b12_helpers.go)
	}
	if i%20 == 13 {
		// classes history-fault-probe / call-parity-probe (b16_probes.go): accessor mode after a Parse that failed at a chosen
		// point; a function faulty from its K-th call sees the same calls in both modes
		return b16C12(r, i/20)
	}
	doc, p, inFilter := c12Gen(r, 65, 35, false, 8, 75)
	text := Render(p, r)
	jn := r.Chance(25)
	if jn {
		doc = ToJnum(doc)
	}
	rec := Record{Text: text, Doc: JSONText(doc), Info: map[string]interface{}{}, Tags: stepTags(p)}

	logP, logA := &c12Log{}, &c12Log{}
	cfgP, cfgA := c12RecConfig(false, logP), c12RecConfig(true, logA)
	// class config:copied (30%): ONE Config gets all its functions, is copied by value (`c2 := c1`), and
	// SetAccessorMode is called on one side only (the copy or the original), before or after the other side
	// was used for Parse. The side without the call is the plain mode. (The copies share the function tables —
	// Go maps — so both sides log into logA; the calls of the plain evaluation are moved to logP below.)
	copied := r.Chance(30)
	var fP, fA Parsed
	var outP, outA Outcome
	if copied {
		c1 := c12RecConfig(false, logA)
		c2 := c1
		onCopy, plainFirst := r.Chance(50), r.Chance(50)
		if plainFirst {
			if onCopy {
				fP, outP = SafeParse(text, &c1)
				c2.SetAccessorMode()
				fA, outA = SafeParse(text, &c2)
			} else {
				fP, outP = SafeParse(text, &c2)
				c1.SetAccessorMode()
				fA, outA = SafeParse(text, &c1)
			}
		} else {
			if onCopy {
				c2.SetAccessorMode()
				fA, outA = SafeParse(text, &c2)
				fP, outP = SafeParse(text, &c1)
			} else {
				c1.SetAccessorMode()
				fA, outA = SafeParse(text, &c1)
				fP, outP = SafeParse(text, &c2)
			}
		}
		rec.Tags = append(rec.Tags, "config:copied", fmt.Sprintf("config:copied/acc-on-copy=%v/plain-parsed-first=%v", onCopy, plainFirst))
		rec.Info["config"] = fmt.Sprintf("c1 := all functions; c2 := c1; SetAccessorMode on the copy: %v; the plain side parsed first: %v", onCopy, plainFirst)
	} else {
		fP, outP = SafeParse(text, &cfgP)
		fA, outA = SafeParse(text, &cfgA)
	}
	if fP == nil || fA == nil {
		if fP == nil && fA == nil && outP.ErrKind == outA.ErrKind && outP.Msg == outA.Msg && !c12Abnormal(outP) {
			rec.Viol = "generated path was rejected by Parse: " + outP.Msg
			rec.Class = "parse-reject"
			return rec
		}
		rec.Viol = "Parse differs between the modes: plain " + outP.Detail() + " / accessor " + outA.Detail()
		rec.Class = "parse-parity"
		return rec
	}
	docP, docA := DeepCopy(doc), DeepCopy(doc)
	outP = SafeCall(fP, docP)
	if copied {
		logP.Calls, logA.Calls = logA.Calls, nil
	}
	outA = SafeCall(fA, docA)
	if c12Abnormal(outP) || c12Abnormal(outA) {
		rec.Viol = "abnormal outcome: plain " + clip(outP.Detail(), 500) + " / accessor " + clip(outA.Detail(), 500)
		rec.Class = "abnormal"
		return rec
	}
	fail := func(class, what string) {
		if rec.Viol == "" {
			rec.Viol, rec.Class = what, class
		}
	}
	// tags: where the functions sit
	if len(p.Fns) > 0 {
		last := "root"
		if len(p.Steps) > 0 {
			last = c12StepName(p.Steps[len(p.Steps)-1])
		}
		rec.Tags = append(rec.Tags, "fn-after:"+last)
	}
	if inFilter > 0 {
		rec.Tags = append(rec.Tags, "fn-in-filter")
	}
	if jn {
		rec.Tags = append(rec.Tags, "decode:jnum")
	}
	if len(logP.Calls) > 0 {
		rec.Tags = append(rec.Tags, "calls:some")
	}

	if outP.OK {
		for k, v := range outP.Vals {
			if c12IsAcc(v) {
				fail("plain-accessor", fmt.Sprintf("result %d of the evaluation WITHOUT accessor mode is a jsonpath.Accessor (%v)", k, rec.Info["config"]))
				break
			}
		}
	}
	// 1. outcome parity
	switch {
	case outP.OK != outA.OK:
		fail("outcome-parity", "plain mode: "+clip(outP.Detail(), 300)+" / accessor mode: "+clip(outA.Detail(), 300))
	case !outP.OK:
		if outP.ErrKind != outA.ErrKind || outP.Msg != outA.Msg {
			fail("error-parity", "plain mode fails with "+outP.Detail()+", accessor mode with "+outA.Detail())
		}
		rec.Tags = append(rec.Tags, "outcome:err-"+outP.ErrKind)
	default:
		rec.Tags = append(rec.Tags, "outcome:ok")
		if len(outP.Vals) != len(outA.Vals) {
			fail("count-parity", fmt.Sprintf("plain mode returns %d results, accessor mode %d", len(outP.Vals), len(outA.Vals)))
		}
	}
	// 2. the functions saw the same plain arguments
	if logA.HasAccessor() || logP.HasAccessor() {
		fail("accessor-argument", "a user function was handed a jsonpath.Accessor: "+clip(logA.Sexps(), 400))
	}
	if lp, la := logP.Sexps(), logA.Sexps(); lp != la {
		fail("call-parity", "calls in plain mode: "+clip(lp, 400)+" / in accessor mode: "+clip(la, 400))
	}
	ds := ValSexp(doc)
	// 3. every accessor wraps the plain value; its location for the model comparison
	if outP.OK && outA.OK && len(outP.Vals) == len(outA.Vals) {
		exp := "(q ok"
		probeOK := true
		nSet := 0
		_, accs0, o := c12AccRun(fA, doc)
		if !o.OK || len(accs0) != len(outA.Vals) {
			fail("accessor-shape", "accessor-mode call on a fresh copy: "+clip(o.Detail(), 300))
			probeOK = false
			accs0 = nil
		}
		for k := range accs0 {
			got, problem := c12Get(accs0[k])
			if problem != "" {
				fail("accessor-get", fmt.Sprintf("result %d: %s", k, problem))
				probeOK = false
				break
			}
			if !reflect.DeepEqual(got, outP.Vals[k]) {
				fail("value-parity", fmt.Sprintf("result %d: plain mode gives %s, Accessor.Get() gives %s", k, ValSexp(outP.Vals[k]), ValSexp(got)))
			}
			if accs0[k].Set == nil {
				exp += " (acc " + ValSexp(got) + " nil)"
				continue
			}
			nSet++
			loc, _, _, _, problem := c12Probe(fA, doc, k)
			if problem != "" {
				// what Set does is C13's subject; here only the model question is dropped
				probeOK = false
				rec.Tags = append(rec.Tags, "probe:failed")
				continue
			}
			exp += " (acc " + ValSexp(got) + " " + c12LocSexp(loc) + ")"
		}
		exp += ")"
		if probeOK {
			rec.Q = append(rec.Q, LeanQ{Driver: "impl", Line: "(q run t " + p.Sexp() + " " + ds + ")", Expect: exp, What: "accessor-mode results vs Impl.run"})
		}
		if nSet > 0 {
			rec.Tags = append(rec.Tags, "set:location")
		} else {
			rec.Tags = append(rec.Tags, "set:nil")
		}
	} else if !outA.OK && !outP.OK {
		rec.Q = append(rec.Q, LeanQ{Driver: "impl", Line: "(q run t " + p.Sexp() + " " + ds + ")", Expect: outA.ImplExpect(true), What: "accessor-mode error vs Impl.run"})
	}
	// 4. the call log of the accessor-mode run against the model (the probing runs above logged
	// further calls into logA: take the length of the first run)
	nCalls := len(logP.Calls)
	if len(logA.Calls) >= nCalls {
		first := &c12Log{Calls: logA.Calls[:nCalls]}
		rec.Q = append(rec.Q,
			LeanQ{Driver: "impl", Line: "(q calls t " + p.Sexp() + " " + ds + ")", Expect: c12CallsExpect(first), What: "calls in accessor mode vs Impl"},
			LeanQ{Driver: "impl", Line: "(q run f " + p.Sexp() + " " + ds + ")", Expect: outP.ImplExpect(true), What: "plain results vs Impl.run"})
	}
	if len(p.Steps) > 0 || len(p.Fns) > 0 {
		kind := "err-" + outP.ErrKind
		if outP.OK {
			kind = "ok"
		}
		rec.Key = shapeKey(p) + "/" + kind + "/" + fmt.Sprint(len(logP.Calls) > 0, inFilter > 0, jn)
	}
	return rec
}

// c12CallsExpect: the answer of `jpv-impl calls` for this log.
func c12CallsExpect(l *c12Log) string {
	if len(l.Calls) == 0 {
		return "(q)"
	}
	return "(q " + l.Sexps() + ")"
}
