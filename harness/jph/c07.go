package jph

import (
	"fmt"
	"reflect"
	"sort"
	"strings"
	"unicode/utf16"
	"unicode/utf8"
)

// C07 — result order is deterministic: sorted keys, index order, written order.
//
// Documents: objects with 2..12 keys drawn from a pool in which byte order, UTF-16 order,
// case-insensitive order and length-first order all differ (ASCII upper/lower/digits/signs,
// prefixes, the empty key, 2-, 3- and 4-byte UTF-8; 30% of the key sets with 2..4 long names that
// agree in their first 7, 8, 9 or more bytes, see c07LongFamilies in b8_helpers.go), nested up to depth 3, every leaf a
// different number so that a sequence shows its order. Paths: 1..4 steps over wildcard,
// filter, recursive descent, multi-name and union steps (at least one of the first three).
// A fifth of the multi-name selectors are LONG: 8..40 quoted names (LongNames in b9_scale.go) — more names than
// the object has members, the names it has written in a random order and some of them twice, the rest absent.
// Every document is built 3..5 times as equal maps filled in other orders / sizes, the path
// is evaluated 6..10 times over these copies (one parsed function and fresh Retrieves
// alternating), interleaved with evaluations on unrelated maps that recycle the pooled key
// buffers. All runs must return the same sequence; the sequence must equal the order the
// specification gives on the canonical document (ascending byte-wise keys, index order,
// written order, pre-order) and, for paths without filters and functions, the sequence a
// small reference walk in Go produces with sort.Strings.
//
// One case in 12 (class wide-object): the outermost object has 16..40 keys, 2..4 of them (sometimes 2 more) from one
// long-common-prefix family, and the rename-in-place phase below always runs on it.
//
// Two further families (the order must be a function of the document as a VALUE, not of the
// Go objects it is made of, nor of what a parsed function has seen before):
//   - shared containers (22% of the cases): the same map / slice object is referenced from
//     two or more places of the document (a hand-assembled DAG, still a tree as a value);
//     every rebuilt copy has separate objects, so evaluation 0 (on the sharing document) is
//     compared with evaluations on unshared equal documents and with the specification;
//   - keys renamed in place (35% of the cases): after the evaluations a copy of the
//     document is evaluated with the parsed function, then 1..2 keys of some of its maps are
//     renamed IN PLACE (delete k, insert k' with the same value: same map object, same
//     size), and the same parsed function, a fresh Retrieve and the parsed function on a
//     freshly built equal document must all return the sequence the specification (and the
//     reference walk) gives for the NEW key set.

type c07 struct{}

func init() { Props["C07"] = c07{} }

func (c07) Count(tier string) int {
	if tier == "thorough" {
		return 200000
	}
	return 10000
}

var c07Keys = []string{"", "0", "1", "10", "2", "9", "A", "Aa", "B", "Z", "_", "a", "a0", "aA", "aa", "ab", "a~", "a b", "b", "e", "z", "~",
	"\u00e9", "\u00c9", "e\u0301", "ab\u00e9", "\u3042", "\u30a2", "\uff61", "\U0001D11E", "\U0001F600", "a.b", "a'b", `a"b`, "-x", "$", "@", "*", "aaa", "B0", "zz"}

type c07Gen struct {
	r        *Rng
	next     int
	o        GenOpts
	root     interface{}
	descBias bool // documents with shared containers: more `..`
	wide     bool // class wide-object: key sets of 16+ names always include members of a long-prefix family
}

func (g *c07Gen) leaf() interface{} {
	g.next++
	if g.r.Chance(8) {
		return fmt.Sprintf("s%d", g.next)
	}
	return float64(g.next)
}

func (g *c07Gen) keyset(n int) []string {
	r := g.r
	idx := make([]int, len(c07Keys))
	for i := range idx {
		idx[i] = i
	}
	r.Shuffle(len(idx), func(i, j int) { idx[i], idx[j] = idx[j], idx[i] })
	ks := make([]string, n)
	for i := 0; i < n; i++ {
		ks[i] = c07Keys[idx[i]]
	}
	// long names with a common prefix (30% of the key sets): 2..4 names of one family replace
	// as many of the drawn keys (the families and the short pool are disjoint)
	if long := r.Chance(30); n >= 2 && (long || (g.wide && n >= 16)) {
		c07LongInto(ks, r)
	}
	return ks
}

func (g *c07Gen) obj(depth int, n int) map[string]interface{} {
	r := g.r
	m := map[string]interface{}{}
	for _, k := range g.keyset(n) {
		switch {
		case depth < 3 && r.Chance(22):
			m[k] = g.obj(depth+1, r.Range(2, 6))
		case depth < 3 && r.Chance(24):
			m[k] = g.arr(depth + 1)
		default:
			m[k] = g.leaf()
		}
	}
	return m
}

func (g *c07Gen) arr(depth int) []interface{} {
	r := g.r
	n := r.Range(2, 5)
	a := make([]interface{}, n)
	if r.Chance(60) {
		ks := g.keyset(r.Range(2, 5))
		for i := range a {
			m := map[string]interface{}{}
			for _, k := range ks {
				if r.Chance(85) {
					m[k] = g.leaf()
				}
			}
			a[i] = m
		}
		return a
	}
	for i := range a {
		if depth < 3 && r.Chance(30) {
			a[i] = g.obj(depth+1, r.Range(2, 5))
		} else {
			a[i] = g.leaf()
		}
	}
	return a
}

// c07Rebuild: an equal document whose maps were built in another way.
func c07Rebuild(v interface{}, r *Rng) interface{} {
	switch t := v.(type) {
	case []interface{}:
		out := make([]interface{}, len(t))
		for i, x := range t {
			out[i] = c07Rebuild(x, r)
		}
		return out
	case map[string]interface{}:
		keys := sortedKeys(t)
		var out map[string]interface{}
		switch r.Intn(5) {
		case 0:
			r.Shuffle(len(keys), func(i, j int) { keys[i], keys[j] = keys[j], keys[i] })
			out = map[string]interface{}{}
		case 1:
			out = map[string]interface{}{}
		case 2:
			for i, j := 0, len(keys)-1; i < j; i, j = i+1, j-1 {
				keys[i], keys[j] = keys[j], keys[i]
			}
			out = map[string]interface{}{}
		case 3:
			// grown with other entries that are deleted again
			out = map[string]interface{}{}
			n := r.Range(8, 40)
			for i := 0; i < n; i++ {
				out[fmt.Sprintf("\x00tmp%d", i)] = i
			}
			r.Shuffle(len(keys), func(i, j int) { keys[i], keys[j] = keys[j], keys[i] })
			for _, k := range keys {
				out[k] = nil
			}
			for i := 0; i < n; i++ {
				delete(out, fmt.Sprintf("\x00tmp%d", i))
			}
		default:
			out = make(map[string]interface{}, 64)
			r.Shuffle(len(keys), func(i, j int) { keys[i], keys[j] = keys[j], keys[i] })
		}
		for _, k := range keys {
			out[k] = c07Rebuild(t[k], r)
		}
		return out
	}
	return v
}

// ---------- paths ----------

func (g *c07Gen) filterQuery(node interface{}) *Query {
	r := g.r
	member, has := pickMember(r, node)
	mid := int64(g.next / 2)
	cur := func(steps ...*Step) *Operand { return &Operand{Path: &Path{Head: HeadCur, Steps: steps}} }
	num := func(n int64) *Operand { return &Operand{IsLit: true, Lit: Lit{Kind: LitNum, N: n}} }
	memberKey := func() string {
		if m, ok := member.(map[string]interface{}); ok && has && len(m) > 0 && r.Chance(85) {
			ks := sortedKeys(m)
			return ks[r.Intn(len(ks))]
		}
		return r.Pick(c07Keys)
	}
	child := func(k string) *Step { return &Step{Kind: StChild, Key: k, Bracket: r.Chance(60), DQuote: r.Chance(30)} }
	switch r.Weighted([]int{12, 16, 14, 14, 8, 12, 24}) {
	case 0:
		return &Query{Kind: QExist, P: &Path{Head: HeadCur}}
	case 1:
		return &Query{Kind: QCmp, Op: 2 + r.Intn(4), L: cur(), R: num(mid + int64(r.Range(-3, 3)))}
	case 2:
		return &Query{Kind: QCmp, Op: 1, L: cur(), R: num(int64(r.Range(1, g.next+1)))}
	case 3:
		return &Query{Kind: QExist, Neg: r.Chance(40), P: &Path{Head: HeadCur, Steps: []*Step{child(memberKey())}}}
	case 4:
		return &Query{Kind: QCmp, Op: 2 + r.Intn(4), L: cur(child(memberKey())), R: num(mid + int64(r.Range(-3, 3)))}
	case 5:
		// both operands missing for every member: `!=` on paths nobody has is false, `==` true
		return &Query{Kind: QCmp, Op: r.Intn(2), L: cur(child("nokey")), R: &Operand{Path: &Path{Head: HeadRoot, Steps: []*Step{child("nokey2")}}}}
	}
	return g.o.genQuery(r, g.root, node, 1)
}

func (g *c07Gen) namesFor(node interface{}) []Name {
	r := g.r
	n := r.Range(2, 4)
	names := make([]Name, n)
	m, isMap := node.(map[string]interface{})
	var ks []string
	if isMap {
		ks = sortedKeys(m)
	}
	if r.Chance(20) {
		return LongNames(r, m, r.Range(8, 40), c07Keys, 6)
	}
	if r.Chance(12) {
		for i := range names {
			names[i] = Name{Wild: true}
		}
		return names
	}
	for i := range names {
		switch {
		case r.Chance(12):
			names[i] = Name{Wild: true}
		case len(ks) > 0 && !r.Chance(12):
			names[i] = Name{Key: ks[r.Intn(len(ks))]} // written order is random, repeats happen
		default:
			names[i] = Name{Key: r.Pick(c07Keys)}
		}
	}
	return names
}

// step: one step for node; kinds 0 wild 1 filter 2 desc 3 multi 4 union 5 child
func (g *c07Gen) step(node interface{}, ws []int, allowDesc bool) (*Step, interface{}, bool) {
	r := g.r
	if !allowDesc {
		ws = append([]int{}, ws...)
		ws[2] = 0
	}
	rep, ok := pickMember(r, node)
	switch r.Weighted(ws) {
	case 0:
		return &Step{Kind: StWild, Bracket: r.Chance(40)}, rep, ok
	case 1:
		return &Step{Kind: StFilter, Q: g.filterQuery(node)}, rep, ok
	case 2:
		inner, rep2, ok2 := g.step(g.deepNode(node), []int{25, 20, 0, 15, 15, 25}, false)
		return &Step{Kind: StDesc, Inner: inner}, rep2, ok2
	case 3:
		return &Step{Kind: StMulti, Names: g.namesFor(node)}, rep, ok
	case 4:
		ln := 0
		if a, isArr := node.([]interface{}); isArr {
			ln = len(a)
		}
		n := r.Weighted([]int{0, 50, 35, 15})
		subs := make([]Sub, n)
		allWild := true
		for i := range subs {
			subs[i] = g.o.genSub(r, ln)
			if subs[i].Kind != SubWild {
				allWild = false
			}
		}
		if allWild {
			subs[0] = Sub{Kind: SubIdx, N: 0}
		}
		return &Step{Kind: StUnion, Subs: subs}, rep, ok
	}
	if m, isMap := node.(map[string]interface{}); isMap && len(m) > 0 && !r.Chance(8) {
		ks := sortedKeys(m)
		k := ks[r.Intn(len(ks))]
		return &Step{Kind: StChild, Key: k, Bracket: r.Chance(60), DQuote: r.Chance(30)}, m[k], true
	}
	return &Step{Kind: StChild, Key: r.Pick(c07Keys), Bracket: r.Chance(60)}, nil, false
}

// deepNode: some container below node (what the inner step of `..` should fit)
func (g *c07Gen) deepNode(node interface{}) interface{} {
	cur := node
	for d := 0; d < 3; d++ {
		var cs []interface{}
		for _, m := range members(cur) {
			if c04IsContainer(m) {
				cs = append(cs, m)
			}
		}
		if len(cs) == 0 || g.r.Chance(35) {
			break
		}
		cur = cs[g.r.Intn(len(cs))]
	}
	return cur
}

func (g *c07Gen) path() *Path {
	r := g.r
	p := &Path{Head: HeadRoot}
	n := r.Range(1, 4)
	node, ok := g.root, true
	for i := 0; i < n; i++ {
		var ws []int
		switch node.(type) {
		case map[string]interface{}:
			ws = []int{30, 24, 18, 14, 1, 13}
		case []interface{}:
			ws = []int{22, 22, 18, 4, 30, 4}
		default:
			ws = []int{30, 20, 20, 10, 10, 10}
		}
		if i == 0 {
			ws[3], ws[4], ws[5] = 0, 0, 0 // the first step is a wildcard, a filter or `..`
		}
		if g.descBias {
			ws[2] += 45
		}
		if !ok {
			break
		}
		var s *Step
		s, node, ok = g.step(node, ws, true)
		p.Steps = append(p.Steps, s)
		if !c04IsContainer(node) {
			break
		}
	}
	if r.Chance(10) {
		p.Fns = []Fn{{Agg: true, Name: r.Pick([]string{"list", "first", "count"})}}
	}
	return p
}

// ---------- reference walk (paths without filters and functions) ----------

func c07RefSel(s *Step, cur interface{}) ([]interface{}, bool) {
	switch s.Kind {
	case StChild:
		if m, ok := cur.(map[string]interface{}); ok {
			if v, in := m[s.Key]; in {
				return []interface{}{v}, true
			}
		}
		return nil, true
	case StWild:
		return members(cur), true
	case StMulti:
		switch t := cur.(type) {
		case map[string]interface{}:
			var out []interface{}
			for _, n := range s.Names {
				if n.Wild {
					out = append(out, members(t)...)
				} else if v, in := t[n.Key]; in {
					out = append(out, v)
				}
			}
			return out, true
		case []interface{}:
			for _, n := range s.Names {
				if !n.Wild {
					return nil, true
				}
			}
			var out []interface{}
			for range s.Names {
				out = append(out, t...)
			}
			return out, true
		}
		return nil, true
	case StUnion:
		a, ok := cur.([]interface{})
		if !ok {
			return nil, true
		}
		var out []interface{}
		for _, sub := range s.Subs {
			switch sub.Kind {
			case SubWild:
				out = append(out, a...)
			case SubIdx:
				ix := sub.N
				if ix < 0 {
					ix += int64(len(a))
				}
				if ix >= 0 && ix < int64(len(a)) {
					out = append(out, a[ix])
				}
			default:
				return nil, false
			}
		}
		return out, true
	case StDesc:
		var out []interface{}
		supported := true
		var walk func(v interface{})
		walk = func(v interface{}) {
			if !c04IsContainer(v) {
				return
			}
			vs, ok := c07RefSel(s.Inner, v)
			if !ok {
				supported = false
			}
			out = append(out, vs...)
			for _, m := range members(v) {
				walk(m)
			}
		}
		walk(cur)
		return out, supported
	}
	return nil, false
}

func c07Ref(p *Path, doc interface{}) ([]interface{}, bool) {
	if len(p.Fns) > 0 {
		return nil, false
	}
	cur := []interface{}{doc}
	for _, s := range p.Steps {
		var next []interface{}
		for _, v := range cur {
			vs, ok := c07RefSel(s, v)
			if !ok {
				return nil, false
			}
			next = append(next, vs...)
		}
		cur = next
	}
	return cur, true
}

// ---------- key-set classes ----------

func c07KeyClasses(ks []string) []string {
	var out []string
	multi, empty, prefix, caseMix := false, false, false, false
	for _, k := range ks {
		if k == "" {
			empty = true
		}
		if len(k) != utf8.RuneCountInString(k) {
			multi = true
		}
	}
	byByte := append([]string{}, ks...)
	sort.Strings(byByte)
	for i := 0; i+1 < len(byByte); i++ {
		if byByte[i] != "" && strings.HasPrefix(byByte[i+1], byByte[i]) {
			prefix = true
		}
	}
	differs := func(less func(a, b string) bool) bool {
		o := append([]string{}, ks...)
		sort.SliceStable(o, func(i, j int) bool { return less(o[i], o[j]) })
		for i := range o {
			if o[i] != byByte[i] {
				return true
			}
		}
		return false
	}
	u16 := func(s string) []uint16 { return utf16.Encode([]rune(s)) }
	if differs(func(a, b string) bool {
		x, y := u16(a), u16(b)
		for i := 0; i < len(x) && i < len(y); i++ {
			if x[i] != y[i] {
				return x[i] < y[i]
			}
		}
		if len(x) != len(y) {
			return len(x) < len(y)
		}
		return a < b
	}) {
		out = append(out, "keyset:byte-order≠utf16-order")
	}
	if differs(func(a, b string) bool {
		if la, lb := strings.ToLower(a), strings.ToLower(b); la != lb {
			return la < lb
		}
		return a < b
	}) {
		caseMix = true
	}
	if differs(func(a, b string) bool {
		if len(a) != len(b) {
			return len(a) < len(b)
		}
		return a < b
	}) {
		out = append(out, "keyset:byte-order≠length-first-order")
	}
	if caseMix {
		out = append(out, "keyset:byte-order≠caseless-order")
	}
	if multi {
		out = append(out, "keyset:multi-byte")
	}
	if empty {
		out = append(out, "keyset:empty-key")
	}
	if prefix {
		out = append(out, "keyset:prefix-pair")
	}
	return out
}

// c07LongClasses: tags for the key sets of ALL objects of the document (long common prefixes).
func c07LongClasses(doc interface{}) []string {
	seen := map[string]bool{}
	var walk func(v interface{})
	walk = func(v interface{}) {
		switch t := v.(type) {
		case map[string]interface{}:
			for _, c := range c07PrefixClasses(sortedKeys(t)) {
				seen[c] = true
			}
			for _, x := range t {
				walk(x)
			}
		case []interface{}:
			for _, x := range t {
				walk(x)
			}
		}
	}
	walk(doc)
	var out []string
	for c := range seen {
		out = append(out, c)
	}
	sort.Strings(out)
	return out
}

// ---------- shared containers, keys renamed in place ----------

// c07Ident: the identity of a container object (what a pointer-keyed cache or visited set
// would see); empty slices have none.
func c07Ident(v interface{}) ([2]uintptr, bool) {
	switch t := v.(type) {
	case map[string]interface{}:
		return [2]uintptr{reflect.ValueOf(t).Pointer(), ^uintptr(0)}, true
	case []interface{}:
		if len(t) == 0 {
			return [2]uintptr{}, false
		}
		return [2]uintptr{reflect.ValueOf(t).Pointer(), uintptr(len(t))}, true
	}
	return [2]uintptr{}, false
}

type c07Node struct {
	v   interface{}
	loc string
}

func c07Loc(loc string, seg interface{}) string {
	switch t := seg.(type) {
	case string:
		return loc + "[" + fmt.Sprintf("%q", t) + "]"
	case int:
		return loc + fmt.Sprintf("[%d]", t)
	}
	return loc
}

// c07Containers lists the containers of the document as a tree (a shared object is listed
// once per place), in a deterministic order.
func c07Containers(v interface{}, loc string, out *[]c07Node) {
	switch t := v.(type) {
	case map[string]interface{}:
		*out = append(*out, c07Node{v, loc})
		for _, k := range sortedKeys(t) {
			c07Containers(t[k], c07Loc(loc, k), out)
		}
	case []interface{}:
		*out = append(*out, c07Node{v, loc})
		for i, x := range t {
			c07Containers(x, c07Loc(loc, i), out)
		}
	}
}

// c07Reaches: target is from itself or one of the containers below it (by identity).
func c07Reaches(from, target interface{}) bool {
	ti, ok := c07Ident(target)
	if !ok {
		return false
	}
	var walk func(v interface{}) bool
	walk = func(v interface{}) bool {
		if id, ok := c07Ident(v); ok && id == ti {
			return true
		}
		for _, m := range members(v) {
			if c04IsContainer(m) && walk(m) {
				return true
			}
		}
		return false
	}
	return walk(from)
}

// c07Share makes one non-empty container object of the document referenced from a second
// place (an existing slot of another container is overwritten, or a new key is added to
// another object). No cycle arises: the new owner is not reachable from the shared object.
// Returns a description, or "" when the document offers no such pair.
func c07Share(doc interface{}, r *Rng) string {
	for try := 0; try < 12; try++ {
		var nodes []c07Node
		c07Containers(doc, "$", &nodes)
		if len(nodes) < 2 {
			return ""
		}
		x := nodes[1+r.Intn(len(nodes)-1)]
		if len(members(x.v)) == 0 {
			continue
		}
		o := nodes[r.Intn(len(nodes))]
		if c07Reaches(x.v, o.v) {
			continue // the owner is the object itself or inside it
		}
		switch t := o.v.(type) {
		case map[string]interface{}:
			ks := sortedKeys(t)
			if len(ks) == 0 || r.Chance(50) {
				k := r.Pick(c07Keys)
				if _, in := t[k]; in {
					continue
				}
				t[k] = x.v
				return fmt.Sprintf("the object at %s is also the new member %s", x.loc, c07Loc(o.loc, k))
			}
			k := ks[r.Intn(len(ks))]
			if c04IsContainer(t[k]) && c07Reaches(t[k], x.v) {
				continue // would only move the object
			}
			t[k] = x.v
			return fmt.Sprintf("the object at %s is also the member %s", x.loc, c07Loc(o.loc, k))
		case []interface{}:
			if len(t) == 0 {
				continue
			}
			i := r.Intn(len(t))
			if c04IsContainer(t[i]) && c07Reaches(t[i], x.v) {
				continue
			}
			t[i] = x.v
			return fmt.Sprintf("the object at %s is also the element %s", x.loc, c07Loc(o.loc, i))
		}
	}
	return ""
}

// c07Jnum: ToJnum that keeps shared containers shared.
func c07Jnum(v interface{}, memo map[[2]uintptr]interface{}) interface{} {
	id, has := c07Ident(v)
	if has {
		if w, ok := memo[id]; ok {
			return w
		}
	}
	var out interface{}
	switch t := v.(type) {
	case float64:
		return ToJnum(t)
	case []interface{}:
		a := make([]interface{}, len(t))
		for i, x := range t {
			a[i] = c07Jnum(x, memo)
		}
		out = a
	case map[string]interface{}:
		m := make(map[string]interface{}, len(t))
		for _, k := range sortedKeys(t) {
			m[k] = c07Jnum(t[k], memo)
		}
		out = m
	default:
		return v
	}
	if has {
		memo[id] = out
	}
	return out
}

// c07SharedPlaces: how many places of the tree hold an object that occurs more than once.
func c07SharedPlaces(doc interface{}) int {
	var nodes []c07Node
	c07Containers(doc, "$", &nodes)
	cnt := map[[2]uintptr]int{}
	for _, n := range nodes {
		if id, ok := c07Ident(n.v); ok {
			cnt[id]++
		}
	}
	total := 0
	for _, n := range nodes {
		if id, ok := c07Ident(n.v); ok && cnt[id] > 1 {
			total++
		}
	}
	return total
}

// c07RenameInPlace renames 1..2 keys of some (at least one) of the non-empty maps of doc in
// place: delete k, insert a key the map does not have with the same value. The map objects
// and their sizes stay what they were. doc must not share containers.
func c07RenameInPlace(doc interface{}, r *Rng) []string {
	var nodes []c07Node
	c07Containers(doc, "$", &nodes)
	var maps []c07Node
	for _, n := range nodes {
		if m, ok := n.v.(map[string]interface{}); ok && len(m) > 0 {
			maps = append(maps, n)
		}
	}
	if len(maps) == 0 {
		return nil
	}
	chosen := make([]bool, len(maps))
	any := false
	for i := range maps {
		if r.Chance(60) {
			chosen[i], any = true, true
		}
	}
	if !any {
		chosen[r.Intn(len(maps))] = true
	}
	var log []string
	for i, n := range maps {
		if !chosen[i] {
			continue
		}
		m := n.v.(map[string]interface{})
		size := len(m)
		for c := r.Range(1, 2); c > 0; c-- {
			ks := sortedKeys(m)
			k := ks[r.Intn(len(ks))]
			var free []string
			pool := c07Keys
			if fam := c07LongFamilyOf(ks); fam != nil && r.Chance(60) {
				pool = fam // the new name shares a long prefix with a name the map has
			}
			for _, c := range pool {
				if _, in := m[c]; !in {
					free = append(free, c)
				}
			}
			if len(free) == 0 {
				break
			}
			nk := free[r.Intn(len(free))]
			v := m[k]
			delete(m, k)
			m[nk] = v
			log = append(log, fmt.Sprintf("%s: %q -> %q", n.loc, k, nk))
		}
		if len(m) != size {
			panic("c07RenameInPlace changed a size")
		}
	}
	return log
}

var c07JunkPaths = []string{"$.*", "$..*", "$[?(@)]", "$..[?(@ != 1)]", "$['j03','j01',*]", "$.*.*"}

func c07JunkDoc(r *Rng) interface{} {
	n := r.Range(2, 40)
	m := map[string]interface{}{}
	for i := 0; i < n; i++ {
		m[fmt.Sprintf("j%02d", r.Intn(60))] = float64(i)
	}
	if r.Chance(40) {
		m["sub"] = map[string]interface{}{"zz": 1.0, "y": 2.0, "": 3.0}
	}
	return m
}

func (c07) Exec(seed int64, i int, tier string) Record {
	if i%16 == 11 {
		// class panic-probe (b11_helpers.go): evaluations repeated after an evaluation that ended in a panic of the
		// caller's own function (recovered by the caller) must return the sequence they returned before — a traversal
		// that hands its pooled key buffer back twice on the panic path scrambles the order of LATER traversals
		r := CaseRng(seed, "C07", i)
		acc := r.Chance(25)
		viol, tags, info := b11PanicProbe(r, acc)
		rec := Record{Text: "(panic probe)", Tags: append(tags, "class:panic-probe"), Info: info, Viol: viol}
		if viol != "" {
			rec.Class = "order-varies"
		}
		if len(tags) > 0 {
			rec.Key = "panic-probe/" + strings.Join(tags, ",") + fmt.Sprint(acc)
		}
		return rec
	}
	if i%20 == 3 {
		// classes overlap-probe / kth-fault-probe (b15_overlap.go): one parsed function evaluated on two documents at
		// overlapping times (same sequence as alone); a user function that fails on its k-th call only, then follow-ups
		return b15Case("C07", CaseRng(seed, "C07", i))
	}
	r := CaseRng(seed, "C07", i)
	g := &c07Gen{r: r, o: GenOpts{MaxDepth: 3, Filters: true, MaxSteps: 3, ErrBias: 8}}
	nkeys := r.Range(2, 12)
	wide := i%12 == 5
	if wide {
		// class wide-object: 16..40 keys, 2..4 of them from one long-common-prefix family
		nkeys = r.Range(16, 40)
		g.wide = true
	}
	var doc interface{}
	if r.Chance(82) {
		doc = g.obj(0, nkeys)
	} else {
		a := g.arr(0)
		a = append(a, g.obj(1, nkeys))
		doc = a
	}
	// shared containers: the same map / slice object in two (or three) places
	var shared []string
	if r.Chance(22) {
		for n := r.Weighted([]int{0, 75, 25}); n > 0; n-- {
			if d := c07Share(doc, r); d != "" {
				shared = append(shared, d)
			}
		}
		g.descBias = len(shared) > 0
	}
	g.root = doc
	p := g.path()
	text := Render(p, r)
	acc := r.Chance(20)
	jn := r.Chance(20)
	if jn {
		doc = c07Jnum(doc, map[[2]uintptr]interface{}{})
	}
	rec := Record{Text: text, Doc: JSONText(doc), Tags: stepTags(p)}
	rec.Info = map[string]interface{}{"accessor": acc, "jnum": jn}
	if wide {
		rec.Tags = append(rec.Tags, "class:wide-object", pick(nkeys >= 24, "wide-object:24+keys", "wide-object:16-23keys").(string))
	}
	if n := scaleMaxNames(p); n >= 8 {
		rec.Tags = append(rec.Tags, "multi:long-list")
		if n >= 16 {
			rec.Tags = append(rec.Tags, "multi:16+names")
		}
	}
	if len(shared) > 0 {
		if c07SharedPlaces(doc) < 2 {
			rec.Viol = "harness error: the document shares no container"
			rec.Class = "harness"
			return rec
		}
		rec.Info["shared_containers"] = shared
		rec.Info["shared_note"] = "evaluation 0 runs on the document in which these places hold the SAME Go object (locations as of the moment each was shared); all other evaluations run on equal documents made of separate objects"
		rec.Tags = append(rec.Tags, "doc:shared-container")
	}

	ncopies := r.Range(3, 5)
	copies := make([]interface{}, ncopies)
	copies[0] = doc
	for k := 1; k < ncopies; k++ {
		copies[k] = c07Rebuild(doc, r)
	}
	canonDoc := ValSexp(doc)
	for k := 1; k < ncopies; k++ {
		if ValSexp(copies[k]) != canonDoc {
			rec.Viol = "harness error: rebuilt document differs"
			rec.Class = "harness"
			return rec
		}
	}

	cfg := Config(acc, nil)
	f, po := SafeParse(text, &cfg)
	if f == nil {
		if po.ErrKind == "panic" {
			rec.Viol = "Parse panicked: " + po.Panic
			rec.Class = "abnormal"
		} else {
			rec.Viol = "generated path was rejected by Parse: " + po.Detail()
			rec.Class = "parse-reject"
		}
		return rec
	}
	reps := r.Range(6, 10)
	var first Outcome
	firstCanon := ""
	for k := 0; k < reps; k++ {
		if r.Chance(60) {
			Run(r.Pick(c07JunkPaths), c07JunkDoc(r), &cfg)
		}
		d := copies[k%ncopies]
		var o Outcome
		how := "the parsed function"
		if k%3 == 2 {
			o = Run(text, d, &cfg)
			how = "a fresh Retrieve"
		} else {
			o = SafeCall(f, d)
		}
		if o.ErrKind == "panic" {
			rec.Viol = "call panicked: " + o.Panic
			rec.Class = "abnormal"
			return rec
		}
		c := c05Canon(o)
		if k == 0 {
			first, firstCanon = o, c
			continue
		}
		if c != firstCanon {
			rec.Viol = fmt.Sprintf("evaluation %d (%s on copy %d of the document) returned another sequence: first=%s now=%s", k, how, k%ncopies, clip(firstCanon, 500), clip(c, 500))
			rec.Class = "order-varies"
			return rec
		}
	}

	// keys renamed in place between two evaluations of the same parsed function
	var renQ []LeanQ
	if ren := r.Chance(35); ren || wide {
		md := c07Rebuild(doc, r) // separate objects throughout
		pre := SafeCall(f, md)
		if c := c05Canon(pre); c != firstCanon {
			rec.Viol = fmt.Sprintf("the parsed function on one more equal copy of the document returned another sequence: first=%s now=%s", clip(firstCanon, 500), clip(c, 500))
			rec.Class = "order-varies"
			return rec
		}
		renames := c07RenameInPlace(md, r)
		if len(renames) > 0 {
			rec.Info["renamed_in_place"] = renames
			rec.Info["renamed_document"] = JSONText(md)
			rec.Info["renamed_note"] = "the parsed function evaluated the document, then these keys were renamed in the same map objects (delete + insert of the same value; locations as before the renaming), then it evaluated the document again"
			rec.Tags = append(rec.Tags, "phase:renamed-in-place")
			same := SafeCall(f, md)
			var fresh, rebuilt Outcome
			if r.Chance(50) {
				fresh = Run(text, md, &cfg)
				rebuilt = SafeCall(f, c07Rebuild(md, r))
			} else {
				rebuilt = SafeCall(f, c07Rebuild(md, r))
				fresh = Run(text, md, &cfg)
			}
			again := SafeCall(f, md)
			for _, o := range []Outcome{same, fresh, rebuilt, again} {
				if o.ErrKind == "panic" {
					rec.Viol = "call panicked after keys were renamed in place: " + o.Panic
					rec.Class = "abnormal"
					return rec
				}
			}
			cs, cf := c05Canon(same), c05Canon(fresh)
			for _, x := range []struct {
				how string
				c   string
			}{{"the same parsed function on the same map objects", cs}, {"the parsed function on a freshly built equal document", c05Canon(rebuilt)}, {"the same parsed function on the same map objects, once more", c05Canon(again)}} {
				if x.c != cf {
					rec.Viol = fmt.Sprintf("after keys were renamed in place (%s) %s returns %s but a fresh Retrieve returns %s on %s", clip(strings.Join(renames, "; "), 300), x.how, clip(x.c, 400), clip(cf, 400), clip(JSONText(md), 600))
					rec.Class = "order-varies"
					return rec
				}
			}
			if ref, ok := c07Ref(p, md); ok {
				want := "err"
				if len(ref) > 0 {
					want = "ok " + ValsSexp(ref)
				}
				got := "err"
				if same.OK {
					got = "ok " + c05ResText(same.Vals)
				}
				if got != want {
					rec.Viol = "after keys were renamed in place (" + clip(strings.Join(renames, "; "), 300) + ") the order differs from the reference walk on the new key set: real=" + clip(got, 500) + " reference=" + clip(want, 500)
					rec.Class = "order-wrong"
					return rec
				}
			}
			exp := "(q err)"
			if same.OK {
				exp = "(q ok"
				for _, v := range same.Vals {
					exp += " " + ResSexp(v)
				}
				exp += ")"
			}
			renQ = []LeanQ{{Driver: "spec", Line: "(q run " + p.Sexp() + " " + ValSexp(md) + ")", Expect: exp, What: "sequence after keys were renamed in place vs Spec.run on the canonical renamed document"}}
		}
	}

	// the reference walk
	if ref, ok := c07Ref(p, doc); ok {
		want := "err"
		if len(ref) > 0 {
			want = "ok " + ValsSexp(ref)
		}
		got := "err"
		if first.OK {
			got = "ok " + c05ResText(first.Vals)
		}
		if got != want {
			rec.Viol = "order differs from the reference walk (ascending byte-wise keys, index order, written order, pre-order): real=" + clip(got, 500) + " reference=" + clip(want, 500)
			rec.Class = "order-wrong"
			return rec
		}
		rec.Tags = append(rec.Tags, "oracle:go-reference-walk")
	}
	exp := "(q err)"
	if first.OK {
		exp = "(q ok"
		for _, v := range first.Vals {
			exp += " " + ResSexp(v)
		}
		exp += ")"
	}
	rec.Class = "order-wrong" // class of a disagreement with the specification's sequence
	rec.Q = []LeanQ{{Driver: "spec", Line: "(q run " + p.Sexp() + " " + canonDoc + ")", Expect: exp, What: "sequence vs Spec.run on the canonical document"}}
	rec.Q = append(rec.Q, renQ...)
	// whole-document lifting (Props/C07Doc.lean): hand the model a random LISTING of every map of the document (any
	// depth, any order) — its canonical form must be the canonical document, and Spec.run on it the real sequence
	listing, moved := ListingSexp(doc, r)
	rec.Q = append(rec.Q,
		LeanQ{Driver: "spec", Line: "(q canon " + listing + ")", Expect: "(q ok " + canonDoc + ")", What: "Canon.canon of a random listing of every map vs the canonical document (ascending byte-wise keys at every depth)"},
		LeanQ{Driver: "spec", Line: "(q canonrun " + p.Sexp() + " " + listing + ")", Expect: exp, What: "sequence vs Spec.run on Canon.canon of a random listing of every map of the document"})
	rec.Tags = append(rec.Tags, "oracle:canon-of-listing", pick(moved > 0, "listing:maps-reordered", "listing:already-sorted").(string))
	if moved >= 3 {
		rec.Tags = append(rec.Tags, "listing:3+maps-reordered")
	}

	// evidence
	rootKeys := []string{}
	var collect func(v interface{}, depth int)
	maxKeys := 0
	collect = func(v interface{}, depth int) {
		switch t := v.(type) {
		case map[string]interface{}:
			if len(t) > maxKeys {
				maxKeys = len(t)
			}
			if len(rootKeys) == 0 {
				rootKeys = sortedKeys(t)
			}
			for _, k := range sortedKeys(t) {
				collect(t[k], depth+1)
			}
		case []interface{}:
			for _, x := range t {
				collect(x, depth+1)
			}
		}
	}
	collect(doc, 0)
	rec.Tags = append(rec.Tags, fmt.Sprintf("keys:%02d", len(rootKeys)))
	cls := c07KeyClasses(rootKeys)
	rec.Tags = append(rec.Tags, cls...)
	rec.Tags = append(rec.Tags, c07LongClasses(doc)...)
	if acc {
		rec.Tags = append(rec.Tags, "mode:accessor")
	}
	if jn {
		rec.Tags = append(rec.Tags, "decode:jnum")
	}
	if first.OK {
		rec.Tags = append(rec.Tags, "outcome:ok")
		nb := "1"
		switch {
		case len(first.Vals) >= 8:
			nb = "8+"
		case len(first.Vals) >= 3:
			nb = "3-7"
		case len(first.Vals) == 2:
			nb = "2"
		}
		rec.Tags = append(rec.Tags, "results:"+nb)
		if len(first.Vals) >= 2 {
			rec.Key = shapeKey(p) + "/" + fmt.Sprintf("k%d", len(rootKeys)) + "/" + nb + fmt.Sprint(acc)
		}
	} else {
		rec.Tags = append(rec.Tags, "outcome:err-"+first.ErrKind)
	}
	return rec
}
