package jph

import (
	"fmt"
	"runtime"
	"strings"
)

// Scale helpers (round 5): inputs that small random generation does not reach — long arrays,
// objects with many members, long paths, long unions and long multi-name lists. Everything is
// drawn from the case's Rng. Expected values never come from here: the runners keep their own
// oracles (relational checks on the real library, the Lean drivers, the Python-slice transcription).

// ScaleArrLens / ScaleObjLens: the target sizes. They sit at and around the sizes at which a
// library typically switches strategy (16, 48, 64, 128, 256, 1024).
var ScaleArrLens = []int{17, 48, 64, 65, 130, 257, 300, 1100}
var ScaleObjLens = []int{16, 64, 70}

type InflateOpts struct {
	Arrays, Objects bool
	MaxNodes        int   // upper bound for the size of the result (default 1500 nodes)
	MaxTargets      int   // how many containers are padded (default 1..3, drawn)
	ArrLens         []int // default ScaleArrLens
	ObjLens         []int // default ScaleObjLens
	Keys            func(r *Rng) string
}

// Inflated describes one padded container of the result.
type Inflated struct {
	Loc []c12Seg
	Arr bool
	Len int
}

func scaleSize(v interface{}) int {
	n := 1
	switch t := v.(type) {
	case map[string]interface{}:
		for _, x := range t {
			n += scaleSize(x)
		}
	case []interface{}:
		for _, x := range t {
			n += scaleSize(x)
		}
	}
	return n
}

type scalePlace struct {
	loc   []c12Seg
	depth int
	arr   bool
}

func scalePlaces(v interface{}, loc []c12Seg, out *[]scalePlace) {
	switch t := v.(type) {
	case map[string]interface{}:
		*out = append(*out, scalePlace{loc, len(loc), false})
		for _, k := range sortedKeys(t) {
			scalePlaces(t[k], c12LocAppend(loc, c12Seg{Key: k}), out)
		}
	case []interface{}:
		*out = append(*out, scalePlace{loc, len(loc), true})
		for i, x := range t {
			scalePlaces(x, c12LocAppend(loc, c12Seg{IsIdx: true, Idx: i}), out)
		}
	}
}

// ScaleLongKeys: long member names (sorted order differs from length order; common prefixes).
var ScaleLongKeys = []string{"a_very_long_member_name_of_more_than_sixty_four_bytes_0123456789_0123456789_x", "a_very_long_member_name_of_more_than_sixty_four_bytes_0123456789_0123456789_y",
	"a_very_long_member_name_of_more_than_sixty_four_bytes", "member-with-dash-and-thirty-two-bytes", "Zeta", "zeta", "_", "0", "00", "10", "9"}

func scaleFreshKey(r *Rng, m map[string]interface{}, n int) string {
	for try := 0; try < 4; try++ {
		var k string
		switch r.Weighted([]int{55, 20, 15, 10}) {
		case 0:
			k = fmt.Sprintf("k%02d", r.Intn(99))
		case 1:
			k = fmt.Sprintf("m%d", r.Intn(2000))
		case 2:
			k = r.Pick(ScaleLongKeys)
		default:
			k = r.Pick(BaseKeys) + r.Pick(BaseKeys) + r.Pick([]string{"", "a", "0", "_"})
		}
		if _, in := m[k]; !in {
			return k
		}
	}
	for {
		k := fmt.Sprintf("n%04d", n)
		if _, in := m[k]; !in {
			return k
		}
		n++
	}
}

// scaleRecordLike: a small record with the keys the sibling records have (each present with 80%),
// fresh scalar values.
func scaleRecordLike(r *Rng, keys []string) interface{} {
	m := map[string]interface{}{}
	for _, k := range keys {
		if r.Chance(80) {
			m[k] = GenScalar(r)
		}
	}
	return m
}

func scaleSiblingKeys(arr []interface{}) []string {
	seen := map[string]bool{}
	for _, x := range arr {
		if m, ok := x.(map[string]interface{}); ok {
			for k := range m {
				seen[k] = true
			}
		}
	}
	ks := make([]string, 0, len(seen))
	for k := range seen {
		ks = append(ks, k)
	}
	sortStrings(ks)
	return ks
}

func sortStrings(ks []string) {
	for i := 1; i < len(ks); i++ {
		for j := i; j > 0 && ks[j] < ks[j-1]; j-- {
			ks[j], ks[j-1] = ks[j-1], ks[j]
		}
	}
}

// Inflate returns a document of the same shape in which a few containers (shallow ones preferred)
// were padded: arrays to a length from ArrLens by appending copies of existing small elements, fresh
// scalars or small records with the keys their siblings have; objects to a member count from ObjLens
// by adding fresh keys (short, numbered and long ones) with scalar values or copies of small sibling
// values. Existing members keep their place (positive indexes and names still select what they did).
func Inflate(doc interface{}, r *Rng, o InflateOpts) (interface{}, []Inflated) {
	if o.MaxNodes == 0 {
		o.MaxNodes = 1500
	}
	if o.ArrLens == nil {
		o.ArrLens = ScaleArrLens
	}
	if o.ObjLens == nil {
		o.ObjLens = ScaleObjLens
	}
	if o.MaxTargets == 0 {
		o.MaxTargets = 1 + r.Weighted([]int{55, 30, 15})
	}
	doc = DeepCopy(doc)
	var places []scalePlace
	scalePlaces(doc, nil, &places)
	var cand []scalePlace
	var ws []int
	for _, p := range places {
		if (p.arr && !o.Arrays) || (!p.arr && !o.Objects) {
			continue
		}
		cand = append(cand, p)
		ws = append(ws, []int{12, 6, 3, 1, 1, 1, 1, 1}[minInt(p.depth, 7)])
	}
	var out []Inflated
	budget := o.MaxNodes - scaleSize(doc)
	for n := 0; n < o.MaxTargets && len(cand) > 0 && budget > 16; n++ {
		ix := r.Weighted(ws)
		p := cand[ix]
		cand = append(cand[:ix:ix], cand[ix+1:]...)
		ws = append(ws[:ix:ix], ws[ix+1:]...)
		node, _ := c12At(doc, p.loc)
		if p.arr {
			arr := node.([]interface{})
			keys := scaleSiblingKeys(arr)
			per := 1
			if len(keys) > 0 {
				per = 1 + len(keys)
			}
			var fits []int
			for _, l := range o.ArrLens {
				if l > len(arr) && (l-len(arr))*per <= budget {
					fits = append(fits, l)
				}
			}
			if len(fits) == 0 {
				continue
			}
			target := fits[r.Intn(len(fits))]
			var small []interface{}
			for _, x := range arr {
				if scaleSize(x) <= per+1 {
					small = append(small, x)
				}
			}
			for len(arr) < target {
				var x interface{}
				switch {
				case len(small) > 0 && r.Chance(30):
					x = DeepCopy(small[r.Intn(len(small))])
				case len(keys) > 0 && r.Chance(85):
					x = scaleRecordLike(r, keys)
				default:
					x = GenScalar(r)
				}
				budget -= scaleSize(x)
				arr = append(arr, x)
			}
			if len(p.loc) == 0 {
				doc = arr
			} else {
				c12Put(doc, p.loc, arr)
			}
			out = append(out, Inflated{Loc: p.loc, Arr: true, Len: len(arr)})
			continue
		}
		m := node.(map[string]interface{})
		var fits []int
		for _, l := range o.ObjLens {
			if l > len(m) && (l-len(m))*2 <= budget {
				fits = append(fits, l)
			}
		}
		if len(fits) == 0 {
			continue
		}
		target := fits[r.Intn(len(fits))]
		var small []interface{}
		for _, k := range sortedKeys(m) {
			if scaleSize(m[k]) <= 4 {
				small = append(small, m[k])
			}
		}
		for len(m) < target {
			var k string
			if o.Keys != nil && r.Chance(30) {
				k = o.Keys(r)
				if _, in := m[k]; in {
					k = scaleFreshKey(r, m, len(m))
				}
			} else {
				k = scaleFreshKey(r, m, len(m))
			}
			var x interface{}
			if len(small) > 0 && r.Chance(25) {
				x = DeepCopy(small[r.Intn(len(small))])
			} else {
				x = GenScalar(r)
			}
			budget -= scaleSize(x)
			m[k] = x
		}
		out = append(out, Inflated{Loc: p.loc, Arr: false, Len: len(m)})
	}
	return doc, out
}

func minInt(a, b int) int {
	if a < b {
		return a
	}
	return b
}

// ScaleDoc: a generated document with padded containers; when the generated document offers no
// container of the wanted kind it is wrapped in one (so that every scale case has something big).
func ScaleDoc(r *Rng, g GenOpts, o InflateOpts) (interface{}, []Inflated) {
	var doc interface{}
	for try := 0; try < 4; try++ {
		doc = GenDoc(r, g, 0)
		if c04IsContainer(doc) {
			break
		}
	}
	d, inf := Inflate(doc, r, o)
	if len(inf) > 0 {
		return d, inf
	}
	if o.Arrays && (!o.Objects || r.Chance(50)) {
		doc = []interface{}{doc, GenScalar(r)}
	} else {
		doc = map[string]interface{}{g.key(r): doc, g.key(r): GenScalar(r)}
	}
	return Inflate(doc, r, o)
}

// ---------- long selectors ----------

// LongSubs: n subscripts for an array of the given length — mostly indexes inside the array (both
// signs, unsorted, repeated), a few outside, a few slices and now and then `*`.
func LongSubs(r *Rng, length, n int) []Sub {
	subs := make([]Sub, n)
	for i := range subs {
		switch r.Weighted([]int{70, 10, 15, 5}) {
		case 0:
			if length > 0 {
				subs[i] = Sub{Kind: SubIdx, N: int64(r.Range(-length, length-1))}
			} else {
				subs[i] = Sub{Kind: SubIdx, N: int64(r.Range(-3, 3))}
			}
		case 1:
			subs[i] = Sub{Kind: SubIdx, N: int64(length + r.Range(0, 3))}
		case 2:
			s := Sub{Kind: SubSlice}
			if r.Chance(70) {
				v := int64(r.Range(-length-1, length+1))
				s.S = &v
			}
			if r.Chance(70) {
				v := int64(r.Range(-length-1, length+1))
				s.E = &v
			}
			if r.Chance(40) {
				v := int64(r.Range(-3, 3))
				s.T = &v
			}
			subs[i] = s
		default:
			subs[i] = Sub{Kind: SubWild}
		}
	}
	if subs[0].Kind == SubWild {
		subs[0] = Sub{Kind: SubIdx, N: 0}
	}
	return subs
}

// LongNames: n quoted names for a multi-name selector on the object m (nil: unknown object): the
// names m has appear in a random (unsorted) order and some of them twice, the rest are names m does
// not have. wildPct: chance of one `*` among them.
func LongNames(r *Rng, m map[string]interface{}, n int, pool []string, wildPct int) []Name {
	names := make([]Name, 0, n)
	ks := sortedKeys(m)
	r.Shuffle(len(ks), func(i, j int) { ks[i], ks[j] = ks[j], ks[i] })
	present := len(ks)
	if present > n*2/3 {
		present = n * 2 / 3
	}
	for i := 0; i < present; i++ {
		names = append(names, Name{Key: ks[i]})
	}
	for len(names) < n {
		switch {
		case present > 0 && r.Chance(25):
			names = append(names, Name{Key: ks[r.Intn(present)]}) // a repeated name
		case r.Chance(50):
			names = append(names, Name{Key: fmt.Sprintf("none%d", r.Intn(50))})
		default:
			names = append(names, Name{Key: r.Pick(pool)})
		}
	}
	r.Shuffle(len(names), func(i, j int) { names[i], names[j] = names[j], names[i] })
	if r.Chance(wildPct) {
		names[r.Intn(len(names))] = Name{Wild: true}
	}
	return names
}

// ---------- long paths ----------

// LongSteps: n single-valued steps `.a` / `['b']` / `[0]` / `[-1]`.
func LongSteps(r *Rng, n int) []*Step {
	steps := make([]*Step, n)
	for i := range steps {
		if r.Chance(45) {
			ix := int64(0)
			if r.Chance(20) {
				ix = -1
			}
			steps[i] = &Step{Kind: StUnion, Subs: []Sub{{Kind: SubIdx, N: ix}}}
		} else {
			steps[i] = &Step{Kind: StChild, Key: r.Pick(BaseKeys), Bracket: r.Chance(20), DQuote: r.Chance(30)}
		}
	}
	return steps
}

// DeepDoc: the nested document the single-valued steps lead through: steps[0:upto] hit, the value
// found after them is `leaf` (so a path with more steps fails right there when leaf is a scalar, an
// empty container or a container without the next name). Now and then a level has a sibling.
func DeepDoc(r *Rng, steps []*Step, upto int, leaf interface{}) interface{} {
	v := leaf
	for i := upto - 1; i >= 0; i-- {
		s := steps[i]
		if s.Kind == StChild {
			m := map[string]interface{}{s.Key: v}
			if r.Chance(15) {
				k := r.Pick(BaseKeys)
				if k != s.Key {
					m[k] = GenScalar(r)
				}
			}
			v = m
		} else {
			if s.Subs[0].N == -1 && r.Chance(50) {
				v = []interface{}{GenScalar(r), v}
			} else {
				v = []interface{}{v}
			}
		}
	}
	return v
}

// ---------- targeted paths ----------

// ScalePath: a path that leads to one padded container (name / index steps; a quarter of them
// replaced by a wildcard, which makes the prefix multi-valued), applies one "bulk" step to it — a
// wildcard, a long union / multi-name list, a slice, a filter, `..*` — and continues with 0..2 stock steps.
func ScalePath(r *Rng, doc interface{}, inf Inflated, g GenOpts, lastWildPct int) *Path {
	p := &Path{Head: HeadRoot}
	node := doc
	for _, s := range inf.Loc {
		switch {
		case r.Chance(25):
			p.Steps = append(p.Steps, &Step{Kind: StWild, Bracket: r.Chance(50)})
		case s.IsIdx:
			p.Steps = append(p.Steps, &Step{Kind: StUnion, Subs: []Sub{{Kind: SubIdx, N: int64(s.Idx)}}})
		default:
			p.Steps = append(p.Steps, &Step{Kind: StChild, Key: s.Key, Bracket: r.Chance(25), DQuote: r.Chance(30)})
		}
		node, _ = c12At(node, []c12Seg{s})
	}
	var bulk *Step
	terminal := r.Chance(lastWildPct)
	switch t := node.(type) {
	case []interface{}:
		switch k := r.Weighted([]int{40, 15, 15, 20, 10}); {
		case terminal || k == 0:
			bulk = &Step{Kind: StWild, Bracket: r.Chance(60)}
		case k == 1:
			bulk = &Step{Kind: StUnion, Subs: LongSubs(r, len(t), r.Range(17, 40))}
		case k == 2:
			s := Sub{Kind: SubSlice}
			if r.Chance(70) {
				v := int64(r.Range(-len(t), len(t)))
				s.S = &v
			}
			if r.Chance(60) {
				v := int64(r.Range(-len(t), len(t)+2))
				s.E = &v
			}
			if r.Chance(35) {
				v := int64(r.Range(-3, 3))
				s.T = &v
			}
			bulk = &Step{Kind: StUnion, Subs: []Sub{s}}
		case k == 3 && g.Filters:
			bulk = &Step{Kind: StFilter, Q: g.genQuery(r, doc, node, 2)}
		default:
			bulk = &Step{Kind: StDesc, Inner: &Step{Kind: StWild}}
		}
	case map[string]interface{}:
		switch k := r.Weighted([]int{45, 25, 20, 10}); {
		case terminal || k == 0:
			bulk = &Step{Kind: StWild, Bracket: r.Chance(40)}
		case k == 1:
			bulk = &Step{Kind: StMulti, Names: LongNames(r, t, r.Range(8, 40), BaseKeys, 8)}
		case k == 2 && g.Filters:
			bulk = &Step{Kind: StFilter, Q: g.genQuery(r, doc, node, 2)}
		default:
			bulk = &Step{Kind: StDesc, Inner: &Step{Kind: StWild}}
		}
	default:
		bulk = &Step{Kind: StWild}
	}
	p.Steps = append(p.Steps, bulk)
	if !terminal {
		m, ok := pickMember(r, node)
		for n := r.Weighted([]int{50, 35, 15}); n > 0; n-- {
			var s *Step
			s, m, ok = g.genStep(r, doc, m, ok, false)
			p.Steps = append(p.Steps, s)
		}
	}
	return p
}

// ScaleTags: tags for the padded containers of a case.
func ScaleTags(inf []Inflated) []string {
	seen := map[string]bool{}
	var out []string
	for _, x := range inf {
		t := fmt.Sprintf("scale:object>=%d", x.Len)
		if x.Arr {
			t = fmt.Sprintf("scale:array-len-%d", x.Len)
		}
		if !seen[t] {
			seen[t] = true
			out = append(out, t)
		}
	}
	return out
}

// ScaleLongString: a string of 64..200 bytes built from a long shared prefix, a word and a tail
// (so that two of them agree in their first 60+ bytes and a plain-word regular expression matches some).
func ScaleLongString(r *Rng, words []string) string {
	prefix := r.Pick([]string{
		"lorem ipsum dolor sit amet consectetur adipiscing elit sed do eiusmod tempor ",
		"lorem ipsum dolor sit amet consectetur adipiscing elit sed do eiusmod tempus ",
		"0123456789012345678901234567890123456789012345678901234567890123",
	})
	s := prefix + r.Pick(words)
	for n := r.Range(0, 6); n > 0; n-- {
		s += " " + r.Pick(words)
	}
	if len(s) < 64 {
		s += strings.Repeat("-", 64-len(s))
	}
	if len(s) > 200 {
		s = s[:200]
	}
	return s
}

// FreshPools empties the sync.Pools of the process (two collections: a pool's content survives
// one), so that the next evaluation starts with buffers of minimal capacity — the state a freshly
// started program is in.
func FreshPools() {
	runtime.GC()
	runtime.GC()
}

// scaleMaxNames: the longest multi-name list among the steps of p (top level and behind `..`).
func scaleMaxNames(p *Path) int {
	n := 0
	for _, s := range p.Steps {
		st := s
		if st.Kind == StDesc {
			st = st.Inner
		}
		if st.Kind == StMulti && len(st.Names) > n {
			n = len(st.Names)
		}
	}
	return n
}

// scaleMaxSubs: the longest union among the steps of p.
func scaleMaxSubs(p *Path) int {
	n := 0
	for _, s := range p.Steps {
		st := s
		if st.Kind == StDesc {
			st = st.Inner
		}
		if st.Kind == StUnion && len(st.Subs) > n {
			n = len(st.Subs)
		}
	}
	return n
}
